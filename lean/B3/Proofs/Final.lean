/-
`final_output`: under the representation invariant, the node it returns is the root of the
specification's tree over the absorbed bytes (for any input offset).
-/
import B3.Proofs.Hasher
namespace B3.Proofs
open B3 B3.Rs Hs Tr St
local notation "K₀" => Kern.spec

variable (key : CV) (flags : UInt8)

/-- one step of the loop in `final_output` -/
def foldStep (cv : CV) (out : Spec.Node) : Spec.Node := parentOutput key flags cv (chain K₀ out)

theorem chain_parentOutput (a b : CV) : chain K₀ (parentOutput key flags a b) = Spec.parentCV key flags a b := by
  have := congrFun (congrFun (parentCV_eq key flags) a) b
  exact this

theorem foldR_cons_ne (a : CV) (L : List CV) (h : L ≠ []) :
    foldR (Spec.parentCV key flags) key (a :: L) = Spec.parentCV key flags a (foldR (Spec.parentCV key flags) key L) := by
  cases L with
  | nil => exact absurd rfl h
  | cons c r => simp [foldR]

theorem foldR_snoc2 (u v : CV) (P : List CV) :
    foldR (Spec.parentCV key flags) key (P ++ [Spec.parentCV key flags u v])
      = foldR (Spec.parentCV key flags) key (P ++ [u, v]) := by
  induction P with
  | nil => simp [foldR]
  | cons a P ih =>
    rw [List.cons_append, List.cons_append, foldR_cons_ne _ _ _ _ (by simp), foldR_cons_ne _ _ _ _ (by simp), ih]

/-- the chaining value of the folded node is the right fold of the stack entries and the start value -/
theorem chain_foldr (P : List CV) (o : Spec.Node) :
    chain K₀ (P.foldr (fun cv out => parentOutput key flags cv (chain K₀ out)) o)
      = foldR (Spec.parentCV key flags) key (P ++ [chain K₀ o]) := by
  induction P with
  | nil => simp [foldR]
  | cons a P ih =>
    simp only [List.foldr_cons, chain_parentOutput, List.cons_append]
    rw [ih, foldR_cons_ne _ _ _ _ (by simp)]

theorem exists_snoc2 {α : Type} : ∀ (l : List α), 2 ≤ l.length → ∃ P u v, l = P ++ [u, v]
  | [a, b], _ => ⟨[], a, b, rfl⟩
  | a :: b :: c :: r, _ => by
    obtain ⟨P, u, v, h⟩ := exists_snoc2 (b :: c :: r) (by simp)
    exact ⟨a :: P, u, v, by rw [h]; rfl⟩
  | [], h => by simp at h
  | [a], h => by simp at h

theorem getD_snoc2_a {α : Type} (P : List α) (u v d : α) : (P ++ [u, v]).getD P.length d = u := by
  induction P with
  | nil => rfl
  | cons a P ih => simpa using ih

theorem getD_snoc2_b {α : Type} (P : List α) (u v d : α) : (P ++ [u, v]).getD (P.length + 1) d = v := by
  induction P with
  | nil => rfl
  | cons a P ih => simpa using ih

end B3.Proofs

namespace B3.Proofs
open B3 B3.Rs Hs Tr St
local notation "K₀" => Kern.spec

theorem allLeaves_small (key : CV) (flags : UInt8) (t : Nat) (s : List UInt8) (h : s.length ≤ 1024) :
    allLeaves 10 (leafF key flags) t s = [leafF key flags t s] := by
  rw [allLeaves, dif_neg (by omega)]

theorem sum_pos_of_mem {l : List Nat} (hne : l ≠ []) (hp : ∀ s ∈ l, 1 ≤ s) : l.length ≤ l.sum := by
  induction l with
  | nil => exact absurd rfl hne
  | cons a r ih =>
    have ha := hp a (by simp)
    by_cases hr : r = []
    · subst hr; simp; omega
    · have := ih hr (fun s hs => hp s (by simp [hs]))
      simp; omega

/-- the leaves of the absorbed bytes, as seen through the representation invariant -/
theorem rep_leaves (h : Hasher) (done tail : List UInt8) (bs : List (List CV))
    (htl : tail.length ≤ 1024)
    (hi : Inv (Spec.parentCV h.key h.cs.flags) h.key 10 (leafF h.key h.cs.flags) h.toH done bs)
    (hpos : 0 < (done ++ tail).length) :
    allLeaves 10 (leafF h.key h.cs.flags) h.t0 (done ++ tail) =
      bs.flatten ++ (if tail = [] then [] else [leafF h.key h.cs.flags h.cs.t tail]) := by
  have hle : h.t0 ≤ h.cs.t := hi.t0le
  have hlen : done.length = (h.cs.t - h.t0) * 2 ^ 10 := hi.len
  rw [hi.fl]
  by_cases ht : tail = []
  · subst ht
    simp only [List.append_nil, if_true] at hpos ⊢
    obtain ⟨k, hk⟩ : ∃ k, h.cs.t - h.t0 = k + 1 := ⟨h.cs.t - h.t0 - 1, by
      have : 0 < h.cs.t - h.t0 := by
        rcases Nat.eq_zero_or_pos (h.cs.t - h.t0) with h0 | h0
        · rw [h0] at hlen; omega
        · exact h0
      omega⟩
    exact allLeaves_complete 10 _ k h.t0 done (by rw [hlen, hk])
  · rw [if_neg ht]
    have := allLeaves_append 10 (leafF h.key h.cs.flags) (h.cs.t - h.t0) h.t0 done tail hlen (List.length_pos_iff.mpr ht)
    rw [this, show h.t0 + (h.cs.t - h.t0) = h.cs.t by omega, allLeaves_small _ _ _ _ htl]
    rfl

/-- `final_output` under the representation invariant -/
theorem finalOutput_eq (h : Hasher) (m : List UInt8) (hr : Rep h m) :
    h.finalOutput K₀ =
      if m.length ≤ 1024 then Spec.chunkNode h.key h.cs.flags h.t0 m
      else
        let lv := allLeaves 10 (leafF h.key h.cs.flags) h.t0 m
        Spec.parentNode h.key h.cs.flags
          (collapse (Spec.parentCV h.key h.cs.flags) h.key (lv.take (lp2lt lv.length)))
          (collapse (Spec.parentCV h.key h.cs.flags) h.key (lv.drop (lp2lt lv.length))) := by
  obtain ⟨done, tail, bs, hm, htl, hcs, hi, hcan, h2⟩ := hr
  have hcount : h.cs.count = tail.length := by rw [hcs, new_update_count]
  have hle : h.t0 ≤ h.cs.t := hi.t0le
  have hlen : done.length = (h.cs.t - h.t0) * 2 ^ 10 := hi.len
  have hst : h.stack = bs.map (collapse (Spec.parentCV h.key h.cs.flags) h.key) := hi.st
  have hout : h.cs.output = Spec.chunkNode h.key h.cs.flags h.cs.t tail := by
    have e := congrArg ChunkState.output hcs
    rw [new_update_output] at e
    exact e
  have hlz : Lazy (h.cs.t - h.t0) (bs.map List.length) := hi.lz
  have hsum := lazy_sum hlz
  have hpw := lazy_pow2 hlz
  unfold Hasher.finalOutput
  by_cases hbs : bs = []
  · -- empty stack: the chunk state is the root
    subst hbs
    have hT : h.cs.t - h.t0 = 0 := by simpa using hsum.symm
    have hd : done = [] := List.eq_nil_of_length_eq_zero (by rw [hlen, hT])
    subst hd
    simp only [hst, List.map_nil, List.isEmpty_nil, if_true]
    have : m.length ≤ 1024 := by rw [hm]; simpa using htl
    rw [if_pos this, hout, hm]
    have : h.cs.t = h.t0 := by omega
    rw [this]; rfl
  · have hne : h.stack.isEmpty = false := by
      rw [hst]; cases bs with
      | nil => exact absurd rfl hbs
      | cons b r => rfl
    rw [hne]
    simp only [Bool.false_eq_true, if_false]
    have hones : ∀ s ∈ bs.map List.length, 1 ≤ s := by
      intro s hs; obtain ⟨a, ha⟩ := hpw s hs; have := Nat.two_pow_pos a; omega
    have hTpos : 0 < h.cs.t - h.t0 := by
      have := sum_pos_of_mem (l := bs.map List.length) (by simpa using hbs) hones
      have hl : 0 < (bs.map List.length).length := by
        simp; exact List.length_pos_iff.mpr hbs
      omega
    -- all blocks, including the pending chunk
    have hgood : Good (bs ++ (if tail = [] then [] else [[leafF h.key h.cs.flags h.cs.t tail]])) := by
      by_cases ht : tail = []
      · rw [if_pos ht, List.append_nil]
        exact good_of_sizes bs hbs hpw (lazy_goodS hlz)
      · rw [if_neg ht]
        apply good_of_sizes _ (by simp)
        · intro s hs
          simp only [List.map_append, List.map_cons, List.map_nil, List.mem_append, List.mem_singleton, List.length_singleton] at hs
          rcases hs with hs | hs
          · exact hpw s hs
          · exact ⟨0, by simpa using hs⟩
        · simp only [List.map_append, List.map_cons, List.map_nil, List.length_singleton]
          rw [hcan ht]
          exact goodS_append_one' _ (bd_goodS _)
    have hmlen : ¬ m.length ≤ 1024 := by
      rw [hm, List.length_append, hlen]
      by_cases ht : tail = []
      · have h2' := h2 ht hTpos
        have := sum_pos_of_mem (l := bs.map List.length) (by simpa using hbs) hones
        simp at this
        omega
      · have := List.length_pos_iff.mpr ht
        omega
    rw [if_neg hmlen]
    have hlv := rep_leaves h done tail bs htl hi (by rw [← hm]; omega)
    rw [← hm] at hlv
    simp only [hlv]
    -- name the blocks
    obtain ⟨b0, r0, hb0⟩ : ∃ b0 r0, bs = b0 :: r0 := by
      cases bs with
      | nil => exact absurd rfl hbs
      | cons b r => exact ⟨b, r, rfl⟩
    subst hb0
    by_cases ht : tail = []
    · -- no pending chunk: the top two stack entries form the start value
      simp only [ht, if_true, List.append_nil] at hgood ⊢
      rw [if_neg (by rw [hcount, ht]; simp)]
      have h2' : 2 ≤ (b0 :: r0).length := h2 ht hTpos
      have hr0 : r0 ≠ [] := by
        intro hr; subst hr; simp at h2'
      have hrc := root_children (Spec.parentCV h.key h.cs.flags) h.key b0 r0 hr0 hgood
      simp only [Prod.mk.injEq] at hrc
      rw [← hrc.1, ← hrc.2]
      -- split the stack into P ++ [u, v]
      obtain ⟨P, u, v, hP⟩ : ∃ P u v, h.stack = P ++ [u, v] :=
        exists_snoc2 h.stack (by rw [hst]; simpa using h2')
      have hPl : h.stack.length = P.length + 2 := by rw [hP]; simp
      have e1 : h.stack.getD (h.stack.length - 2) h.key = u := by
        rw [hPl, hP, Nat.add_sub_cancel]; exact getD_snoc2_a P u v h.key
      have e2 : h.stack.getD (h.stack.length - 1) h.key = v := by
        rw [hPl, hP, show P.length + 2 - 1 = P.length + 1 by omega]; exact getD_snoc2_b P u v h.key
      have e3 : h.stack.take (h.stack.length - 2) = P := by
        rw [hPl, hP, Nat.add_sub_cancel]; simp
      rw [e1, e2, e3]
      have hst' : collapse (Spec.parentCV h.key h.cs.flags) h.key b0 :: r0.map (collapse (Spec.parentCV h.key h.cs.flags) h.key)
            = P ++ [u, v] := by rw [← hP, hst]; rfl
      cases P with
      | nil =>
        simp only [List.nil_append, List.cons.injEq] at hst'
        simp only [List.foldr_nil, parentOutput, Spec.parentNode]
        rw [hst'.1, hst'.2]; simp [foldR]
      | cons p P' =>
        simp only [List.cons_append, List.cons.injEq] at hst'
        simp only [List.foldr_cons]
        rw [chain_foldr, chain_parentOutput, foldR_snoc2, ← hst'.2, hst'.1]
        rfl
    · -- the pending chunk is the start value
      simp only [ht, if_false] at hgood ⊢
      rw [if_pos (by rw [hcount]; exact List.length_pos_iff.mpr ht)]
      have hrc := root_children (Spec.parentCV h.key h.cs.flags) h.key b0
        (r0 ++ [[leafF h.key h.cs.flags h.cs.t tail]]) (by simp) (by simpa using hgood)
      simp only [Prod.mk.injEq] at hrc
      have hfl : (b0 :: (r0 ++ [[leafF h.key h.cs.flags h.cs.t tail]])).flatten
          = (b0 :: r0).flatten ++ [leafF h.key h.cs.flags h.cs.t tail] := by simp
      rw [hfl] at hrc
      rw [← hrc.1, ← hrc.2]
      rw [List.take_of_length_le (Nat.le_refl _), hst]
      simp only [List.map_cons, List.foldr_cons]
      rw [chain_foldr, hout, chain_eq _ (by unfold Spec.chunkNode; exact chunkGo_blen _ _ _ _ _)]
      simp [parentOutput, Spec.parentNode, leafF, collapse_le_one]

end B3.Proofs

namespace B3.Proofs
open B3 B3.Rs Hs Tr St
local notation "K₀" => Kern.spec

theorem allLeaves_eq_leafCVs' (key : CV) (flags : UInt8) (t : Nat) (s : List UInt8) :
    allLeaves 10 (leafF key flags) t s = Spec.leafCVs key flags t (Spec.chunks s) := by
  rw [← leafCV_is]; exact allLeaves_eq_leafCVs key flags s.length t s rfl

/-- with no input offset, `final_output` is the specification's root node -/
theorem finalOutput_root (h : Hasher) (m : List UInt8) (hr : Rep h m) (h0 : h.t0 = 0) :
    h.finalOutput K₀ = Spec.rootNode h.key h.cs.flags m := by
  rw [finalOutput_eq h m hr, h0]
  unfold Spec.rootNode
  simp only [chunks_length]
  by_cases hl : m.length ≤ 1024
  · simp [hl]
  · rw [if_neg hl, if_neg hl]
    obtain ⟨a, f1, f2, f3, f4, f5, f6⟩ := leftLen_facts 10 m.length (by omega)
    have : ¬ nchunks 10 m.length ≤ 1 := by have := Nat.two_pow_pos a; omega
    rw [if_neg this]
    simp only [Spec.treeCV, topDown_eq_collapse, allLeaves_eq_leafCVs']

/-- hazmat `finalize_non_root`: the chaining value depends only on the bytes, the offset and the key -/
theorem finalOutput_chain (h : Hasher) (m : List UInt8) (hr : Rep h m) :
    chain K₀ (h.finalOutput K₀) = Spec.subtreeCV h.key h.cs.flags h.t0 m := by
  rw [finalOutput_eq h m hr]
  unfold Spec.subtreeCV Spec.treeCV
  rw [topDown_eq_collapse, ← allLeaves_eq_leafCVs']
  by_cases hl : m.length ≤ 1024
  · rw [if_pos hl, allLeaves_small _ _ _ _ hl, collapse_le_one _ _ _ (by simp),
      chain_eq _ (by unfold Spec.chunkNode; exact chunkGo_blen _ _ _ _ _)]
    rfl
  · rw [if_neg hl]
    simp only []
    have hlen := allLeaves_length 10 (leafF h.key h.cs.flags) h.t0 m (by omega)
    obtain ⟨a, f1, f2, f3, f4, f5, f6⟩ := leftLen_facts 10 m.length (by omega)
    have hk : lp2lt (allLeaves 10 (leafF h.key h.cs.flags) h.t0 m).length = 2 ^ a := by
      rw [hlen]
      have : leftLen 10 m.length = lp2lt (nchunks 10 m.length) * 2 ^ 10 := rfl
      rw [this] at f1
      exact Nat.eq_of_mul_eq_mul_right (Nat.two_pow_pos 10) f1
    rw [hk]
    have hA := collapse_append (Spec.parentCV h.key h.cs.flags) h.key a
      ((allLeaves 10 (leafF h.key h.cs.flags) h.t0 m).take (2 ^ a))
      ((allLeaves 10 (leafF h.key h.cs.flags) h.t0 m).drop (2 ^ a))
      (by rw [List.length_take, hlen]; omega) (by rw [List.length_drop, hlen]; omega)
      (by rw [List.length_drop, hlen]; omega)
    rw [List.take_append_drop] at hA
    rw [hA, chain_eq _ (by simp [Spec.parentNode])]
    rfl

/-- `count()` is the number of bytes absorbed -/
theorem rep_count (h : Hasher) (m : List UInt8) (hr : Rep h m) : h.count = m.length ∧ h.t0 ≤ h.cs.t := by
  obtain ⟨done, tail, bs, hm, htl, hcs, hi, _, _⟩ := hr
  have hcount : h.cs.count = tail.length := by rw [hcs, new_update_count]
  have hlen : done.length = (h.cs.t - h.t0) * 2 ^ 10 := hi.len
  refine ⟨?_, hi.t0le⟩
  unfold Hasher.count
  rw [hcount, hm, List.length_append, hlen]

theorem rs_tz_dvd (n : Nat) (h : n ≠ 0) : 2 ^ Rs.tz n ∣ n := by
  induction n using Nat.strongRecOn with
  | _ n ih =>
    rw [Rs.tz, dif_neg h]
    split
    · simp
    · rename_i h2
      have hd : n = 2 * (n / 2) := by omega
      have := ih (n / 2) (by omega) (by omega)
      rw [Nat.pow_add, Nat.pow_one, hd]
      exact Nat.mul_dvd_mul_left 2 (by rw [← hd]; exact this)

theorem ite_some_eq {α : Type} {c : Bool} {a b : α} (h : (if c = true then some a else none) = some b) : b = a := by
  cases c <;> simp_all

/-- `update_with_join` (including its `max_subtree_len` assertion) preserves the invariant -/
theorem rep_update (sd j : Nat) (hsd : sd = 2 ^ j) (h h' : Hasher) (m x : List UInt8) (hr : Rep h m)
    (hu : h.update K₀ sd x = some h') :
    Rep h' (m ++ x) ∧ h'.key = h.key ∧ h'.cs.flags = h.cs.flags ∧ h'.t0 = h.t0 := by
  unfold Hasher.update at hu
  have hz : ∀ k, 2 ^ k * 2 ^ 10 ≤ x.length → 2 ^ k ∣ h.t0 := by
    intro k hk
    by_cases h0 : h.t0 = 0
    · rw [h0]; exact Nat.dvd_zero _
    · simp only [maxSubtreeLen, if_neg h0] at hu
      cases hc : h.count? with
      | none => simp [hc] at hu
      | some c =>
        simp only [hc] at hu
        by_cases hok : c ≤ 2 ^ Rs.tz h.t0 * 1024 ∧ x.length ≤ 2 ^ Rs.tz h.t0 * 1024 - c
        · have h10 : (2 : Nat) ^ 10 = 1024 := by decide
          have hle : 2 ^ k * 1024 ≤ 2 ^ Rs.tz h.t0 * 1024 := by omega
          have hle' : 2 ^ k ≤ 2 ^ Rs.tz h.t0 := Nat.le_of_mul_le_mul_right hle (by omega)
          have hkl : k ≤ Rs.tz h.t0 := (Nat.pow_le_pow_iff_right (by omega)).mp hle'
          exact Nat.dvd_trans (Ar.pow_dvd_pow' k _ hkl) (rs_tz_dvd h.t0 h0)
        · simp [hok] at hu
  have hres : h' = h.updateOk K₀ sd x := ite_some_eq hu
  rw [hres]
  exact updateOk_rep sd j hsd h m x hr hz

end B3.Proofs
