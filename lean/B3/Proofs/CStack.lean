/-
Accesses to `self->cv_stack` in c/blake3.c (Gen/Regions.lean: `hasher_merge_cv_stack`,
`hasher_push_cv`, `blake3_hasher_finalize_seek`, translated with exact integer index arithmetic)
stay inside the array's (MAX_DEPTH + 1) * 32 bytes.
-/
import B3.Gen.Regions
import B3.Proofs.Skeleton
namespace B3.Proofs
open B3 B3.Gen.C

def _root_.B3.Gen.C.Acc.inBounds : Acc → Prop
  | .read off len => 0 ≤ off ∧ off + (len : Int) ≤ (CV_STACK_BYTES : Int)
  | .write off len => 0 ≤ off ∧ off + (len : Int) ≤ (CV_STACK_BYTES : Int)

theorem popcount_le_of_lt_pow (k n : Nat) (h : n < 2 ^ k) : St.popcount n ≤ k := by
  induction k generalizing n with
  | zero =>
    have : n = 0 := by simpa using h
    subst this; rw [St.popcount_zero]; exact Nat.le_refl _
  | succ k ih =>
    rw [St.popcount]
    by_cases h0 : n = 0
    · simp [h0]
    · rw [dif_neg h0]
      have : n / 2 < 2 ^ k := by rw [Nat.pow_succ] at h; omega
      have := ih (n / 2) this
      omega

theorem c_merge_loop_bounds (fuel len post : Nat) (acc : List Acc) (hl : len ≤ 55) (hp : 1 ≤ post ∨ len = 0)
    (ha : ∀ a ∈ acc, a.inBounds) :
    (∀ a ∈ (merge_cv_stack_loop fuel len post acc).2, a.inBounds) ∧
    (len < fuel → (merge_cv_stack_loop fuel len post acc).1 = min len post) := by
  induction fuel generalizing len acc with
  | zero => exact ⟨by simpa [merge_cv_stack_loop] using ha, by omega⟩
  | succ fuel ih =>
    rw [merge_cv_stack_loop]
    by_cases hc : len > post
    · rw [if_pos hc]
      have h2 : 2 ≤ len := by
        rcases hp with h | h
        · omega
        · omega
      have hnew : ∀ a ∈ acc ++ [Acc.read (((len : Int) - 2) * 32) 64, Acc.write (((len : Int) - 2) * 32) 32], a.inBounds := by
        intro a hmem
        rcases List.mem_append.mp hmem with h | h
        · exact ha a h
        · simp only [List.mem_cons, List.mem_nil_iff, or_false] at h
          rcases h with h | h <;> subst h <;> simp only [Acc.inBounds, CV_STACK_BYTES] <;> omega
      obtain ⟨i1, i2⟩ := ih (len - 1) _ (by omega) (by rcases hp with h | h; exact Or.inl h; omega) hnew
      refine ⟨i1, fun hf => ?_⟩
      rw [i2 (by omega)]; omega
    · rw [if_neg hc]
      exact ⟨ha, fun _ => by simp only []; omega⟩

/-- `hasher_push_cv`: every access is inside `cv_stack`, and the new length is `popcount + 1`, at most
55, whenever the counter is below 2^54 chunks, the stack holds at most 55 entries and at least the
`popcount(chunk_counter)` entries that the lazy-merge invariant guarantees -/
theorem c_push_cv_bounds (len cc : Nat) (hl : len ≤ 55) (hc : cc < 2 ^ 54) (hge : St.popcount cc ≤ len)
    (hp : cc ≠ 0 ∨ len = 0) :
    (∀ a ∈ (hasher_push_cv len cc).2, a.inBounds) ∧ (hasher_push_cv len cc).1 = St.popcount cc + 1 ∧
    (hasher_push_cv len cc).1 ≤ 55 := by
  have h54 := popcount_le_of_lt_pow 54 cc hc
  unfold hasher_push_cv hasher_merge_cv_stack
  rw [popcnt_eq_popcount]
  obtain ⟨b1, b2⟩ := c_merge_loop_bounds (len + 1) len (St.popcount cc) [] hl
    (by rcases hp with h | h
        · exact Or.inl (popcount_pos cc h)
        · exact Or.inr h) (by simp)
  have e := b2 (by omega)
  generalize merge_cv_stack_loop (len + 1) len (St.popcount cc) [] = r at b1 e
  obtain ⟨l', acc'⟩ := r
  simp only [] at b1 e ⊢
  have hl' : l' = St.popcount cc := by omega
  refine ⟨?_, by omega, by omega⟩
  intro a hmem
  rcases List.mem_append.mp hmem with h | h
  · exact b1 a h
  · simp only [List.mem_cons, List.mem_nil_iff, or_false] at h
    subst h; simp only [Acc.inBounds, CV_STACK_BYTES]; omega

theorem c_walk_loop_bounds (fuel n : Nat) (acc : List Acc) (hn : n ≤ 55) (ha : ∀ a ∈ acc, a.inBounds) :
    ∀ a ∈ finalize_walk_loop fuel n acc, a.inBounds := by
  induction fuel generalizing n acc with
  | zero => simpa [finalize_walk_loop] using ha
  | succ fuel ih =>
    rw [finalize_walk_loop]
    by_cases hc : n > 0
    · rw [if_pos hc]
      apply ih (n - 1) _ (by omega)
      intro a hmem
      rcases List.mem_append.mp hmem with h | h
      · exact ha a h
      · simp only [List.mem_cons, List.mem_nil_iff, or_false] at h
        subst h; simp only [Acc.inBounds, CV_STACK_BYTES]; omega
    · rw [if_neg hc]; exact ha

/-- `blake3_hasher_finalize_seek`: every access to `cv_stack` is in bounds when the stack holds at
most 55 entries and either the chunk state holds input or there are at least two entries -/
theorem c_finalize_seek_bounds (len cslen : Nat) (hl : len ≤ 55) (hok : len = 0 ∨ 0 < cslen ∨ 2 ≤ len) :
    ∀ a ∈ finalize_seek_accesses len cslen, a.inBounds := by
  unfold finalize_seek_accesses
  by_cases h0 : len = 0
  · simp [h0]
  · rw [if_neg h0]
    by_cases hc : cslen > 0
    · simp only [hc, if_true]
      exact c_walk_loop_bounds _ _ _ (by omega) (by simp)
    · have h2 : 2 ≤ len := by omega
      simp only [hc, if_false]
      apply c_walk_loop_bounds _ _ _ (by omega)
      intro a hmem
      simp only [List.mem_cons, List.mem_nil_iff, or_false] at hmem
      subst hmem; simp only [Acc.inBounds, CV_STACK_BYTES]; omega

end B3.Proofs
