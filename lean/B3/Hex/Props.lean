/-
C14 — "Hash values convert losslessly and compare by content": the property theorems over the model
B3.Hex.Model.  Only the property theorems live here (helper lemmas: B3.Hex.Proofs); each theorem is followed by
an `example` showing it is not vacuous, and `#print axioms` for every theorem is at the end of the file.
Quantifiers: `h : Hash` ranges over all 2^256 values, `s : List UInt8` over all byte strings of every length.
-/
import B3.Hex.Proofs

namespace B3.Hex

/-- a fixed non-trivial value for the examples: bytes 0x00, 0x11, …, 0xff, 0x00, … -/
def sampleHash : Hash := ⟨#v[0, 17, 34, 51, 68, 85, 102, 119, 136, 153, 170, 187, 204, 221, 238, 255, 0, 17, 34, 51, 68, 85, 102, 119, 136, 153, 170, 187, 204, 221, 238, 255]⟩

/-- "0123456789abcdefABCDEF…": a valid mixed-case input -/
def sampleMixed : List UInt8 :=
  "00112233445566778899aAbBcCdDeEfF00112233445566778899AabbCCddEEff".toUTF8.toList

/-! ### to_hex / Display -/

/-- `to_hex` never panics (table index, `ArrayString::push` capacity), and its result is 64 characters, each a
    lowercase hex digit. -/
theorem to_hex_shape (h : Hash) :
    toHexO h = .ok (toHex h) ∧ (toHex h).length = 64 ∧ ∀ c ∈ toHex h, isLowerHex c = true :=
  ⟨toHexO_eq h, toHex_length h, hexPairs_lower _⟩

example : toHexO sampleHash =
    .ok "00112233445566778899aabbccddeeff00112233445566778899aabbccddeeff".toUTF8.toList := by decide +kernel

/-- `Display` writes exactly the `to_hex` string; `Debug` writes it inside `Hash("…")`. -/
theorem display_eq_to_hex (h : Hash) :
    display h = toHexO h ∧ display h = .ok (toHex h) ∧
    debugFmt h = .ok ([0x48, 0x61, 0x73, 0x68, 0x28, 0x22] ++ toHex h ++ [0x22, 0x29]) :=
  ⟨rfl, toHexO_eq h, by simp [debugFmt, toHexO_eq]⟩

example : debugFmt sampleHash =
    .ok "Hash(\"00112233445566778899aabbccddeeff00112233445566778899aabbccddeeff\")".toUTF8.toList := by
  decide +kernel

/-! ### from_hex -/

/-- `from_hex(to_hex(h)) = Ok(h)` for every one of the 2^256 hashes; the same through `Display` and `FromStr`. -/
theorem from_hex_to_hex (h : Hash) :
    fromHex (toHex h) = .ok h ∧
    (∀ s, toHexO h = .ok s → fromHex s = .ok h) ∧
    (∀ s, display h = .ok s → fromStr s = .ok h) := by
  refine ⟨fromHex_toHex h, ?_, ?_⟩
  · intro s hs
    rw [toHexO_eq] at hs
    cases hs
    exact fromHex_toHex h
  · intro s hs
    rw [display, toHexO_eq] at hs
    cases hs
    exact fromHex_toHex h

example : fromHex (toHex sampleHash) = .ok sampleHash := (from_hex_to_hex sampleHash).1
example : toHex sampleHash ≠ toHex ⟨Vector.replicate 32 0⟩ := by decide +kernel

/-- `from_hex` returns `Ok` exactly for the 64-byte strings over `0-9a-fA-F`. -/
theorem from_hex_ok_iff (s : List UInt8) :
    (∃ h, fromHex s = .ok h) ↔ s.length = 64 ∧ ∀ b ∈ s, isHexDigit b = true :=
  fromHex_ok_iff' s

example : ∃ h, fromHex sampleMixed = .ok h := (from_hex_ok_iff _).2 (by decide +kernel)
example : ¬ ∃ h, fromHex (sampleMixed.set 10 0x67) = .ok h := by
  rw [from_hex_ok_iff]; decide +kernel
example : ¬ ∃ h, fromHex (sampleMixed ++ [0x30]) = .ok h := by
  rw [from_hex_ok_iff]; decide +kernel

/-- Which error: a wrong length is `InvalidLen(len)` (checked first); otherwise the first byte (in string order,
    which is the evaluation order) outside `0-9a-fA-F` is reported as `InvalidByte`. -/
theorem from_hex_error_kind (s : List UInt8) :
    (s.length ≠ 64 → fromHex s = .err (.invalidLen s.length)) ∧
    (s.length = 64 → ∀ b, s.find? (fun b => !isHexDigit b) = some b → fromHex s = .err (.invalidByte b)) := by
  constructor
  · intro hl; rw [fromHex_eq]; simp [hl]
  · intro hl b hb
    have hb' : s.find? notHex = some b := hb
    rw [fromHex_eq, hb']; simp [hl]

example : fromHex ((sampleMixed.set 10 0x67).set 40 0x7A) = .err (.invalidByte 0x67) := by decide +kernel
example : fromHex [0x67] = .err (.invalidLen 1) := by decide +kernel

/-- `from_hex` never panics: none of its two slice indexings, the `usize` arithmetic `2 * i`, `2 * i + 1`, the
    `u8` arithmetic in `hex_val` and `16 * _ + _`, or the array store can fail — for every byte string of every
    length. -/
theorem from_hex_total (s : List UInt8) : ∀ p, fromHex s ≠ .panic p :=
  fromHex_no_panic s

/-- the panic outcomes of the model are real: the primitives do produce them outside `from_hex`'s use -/
example : (idx [] 0 : Outcome HexError UInt8) = .panic .index ∧
    (cmul 16 16 : Outcome HexError UInt8) = .panic .arith ∧
    (csub 0x2F 0x30 : Outcome HexError UInt8) = .panic .arith ∧
    (fromHexBody [] 0 (Vector.replicate 32 0)) = .panic .index := by decide +kernel

/-- Case does not matter: if two inputs agree position by position up to the case of the letters `a-f`/`A-F`
    (`CaseEq`: same digit value, or the same non-digit byte) the results are equal, error payload included.
    Consequences: folding the hex letters to either case changes nothing; Rust's `to_ascii_lowercase` /
    `to_ascii_uppercase` on the whole input preserves the `Ok` value and whether it is an error (the reported
    invalid byte is then the case-mapped one); the uppercase rendering of a hash parses back to it. -/
theorem from_hex_case_insensitive (s : List UInt8) :
    (∀ s', Pointwise CaseEq s s' → fromHex s' = fromHex s) ∧
    fromHex (s.map hexLower) = fromHex s ∧
    fromHex (s.map hexUpper) = fromHex s ∧
    (fromHex (s.map asciiLower)).toOption = (fromHex s).toOption ∧
    (fromHex (s.map asciiUpper)).toOption = (fromHex s).toOption :=
  ⟨fun _ h => fromHex_caseEq h,
   fromHex_caseEq (pointwise_map hexLower caseEq_hexLower s),
   fromHex_caseEq (pointwise_map hexUpper caseEq_hexUpper s),
   fromHex_valEq (pointwise_map asciiLower valEq_asciiLower s),
   fromHex_valEq (pointwise_map asciiUpper valEq_asciiUpper s)⟩

theorem from_hex_upper_of_to_hex (h : Hash) : fromHex ((toHex h).map asciiUpper) = .ok h := by
  have := (from_hex_case_insensitive (toHex h)).2.2.2.2
  rw [fromHex_toHex] at this
  cases hf : fromHex ((toHex h).map asciiUpper) with
  | ok a => rw [hf] at this; simp [Outcome.toOption] at this; rw [this]
  | err e => rw [hf] at this; simp [Outcome.toOption] at this
  | panic p => rw [hf] at this; simp [Outcome.toOption] at this

/-- `CaseEq` relates exactly the bytes that are equal once `A-F` is folded to `a-f` -/
theorem case_eq_iff (a b : UInt8) : CaseEq a b ↔ hexLower a = hexLower b := caseEq_iff a b

example : CaseEq 0x41 0x61 ∧ ¬ CaseEq 0x47 0x67 ∧ ¬ CaseEq 0x61 0x62 := by decide
example : sampleMixed.map hexLower ≠ sampleMixed ∧ fromHex sampleMixed = .ok sampleHash := by decide +kernel
/-- the error payload is why the full ASCII case maps only preserve `toOption` -/
example : fromHex ((sampleMixed.set 0 0x47).map asciiLower) ≠ fromHex (sampleMixed.set 0 0x47) := by
  decide +kernel

/-! ### arrays and slices -/

/-- `from_slice` is `Ok` exactly for length 32, the result has the same bytes, it never panics, and
    `as_slice` round-trips. -/
theorem from_slice_ok_iff (s : List UInt8) :
    ((∃ h, fromSlice s = .ok h) ↔ s.length = 32) ∧
    (∀ h, fromSlice s = .ok h → h.bytes.toList = s) ∧
    (s.length ≠ 32 → fromSlice s = .err .mk) ∧
    (∀ p, fromSlice s ≠ .panic p) := by
  unfold fromSlice arrayTryFrom
  by_cases hl : s.length = 32
  · simp only [hl, dite_true, Outcome.ok_bind]
    refine ⟨by simp, ?_, by simp, by simp⟩
    intro h hh
    cases hh
    simp [Hash.fromBytes]
  · simp [hl]

theorem from_slice_as_slice (h : Hash) : fromSlice h.asSlice = .ok h := by
  unfold fromSlice arrayTryFrom Hash.asSlice
  have hl : h.bytes.toList.length = 32 := by simp
  simp only [hl, dite_true, Outcome.ok_bind, Hash.fromBytes]
  cases h with | mk v =>
  congr 2

example : (∃ h, fromSlice (List.replicate 32 7) = .ok h) ∧ fromSlice (List.replicate 31 7) = .err .mk ∧
    fromSlice (List.replicate 33 7) = .err .mk ∧ fromSlice [] = .err .mk := by
  refine ⟨(from_slice_ok_iff _).1.2 (by simp), ?_, ?_, ?_⟩ <;> decide

/-- `[u8; 32]` ↔ `Hash` in all four spellings is the identity on the bytes. -/
theorem array_round_trip (b : Vector UInt8 32) (h : Hash) :
    (Hash.ofArray b).intoArray = b ∧ Hash.ofArray h.intoArray = h ∧
    (Hash.fromBytes b).asBytes = b ∧ Hash.fromBytes h.asBytes = h ∧
    (Hash.fromBytes b).asSlice = b.toList :=
  ⟨rfl, rfl, rfl, rfl, rfl⟩

example : (Hash.ofArray sampleHash.bytes).intoArray = sampleHash.bytes := (array_round_trip _ sampleHash).1

/-! ### equality -/

/-- With `constant_time_eq` meeting its documented contract (`C : CtEq`), each of the three `PartialEq` impls
    is `true` exactly when the bytes are identical; against a slice of any length other than 32 it is `false`. -/
theorem eq_iff_bytes (C : CtEq) (a b : Hash) (arr : Vector UInt8 32) (s : List UInt8) :
    (eqHash C a b = true ↔ a = b) ∧
    (eqArray C a arr = true ↔ a.bytes = arr) ∧
    (eqSlice C a s = true ↔ a.bytes.toList = s) ∧
    (s.length ≠ 32 → eqSlice C a s = false) := by
  refine ⟨?_, C.eq32_spec _ _, C.eq_spec _ _, ?_⟩
  · rw [eqHash, C.eq32_spec, Hash.ext_bytes]
  · intro hl
    cases he : eqSlice C a s with
    | false => rfl
    | true =>
      have := (C.eq_spec _ _).1 he
      rw [← this] at hl
      simp at hl

/-- any single-bit difference is seen by all three comparisons -/
theorem eq_single_bit_flip (C : CtEq) (a : Hash) (i : Nat) (hi : i < 32) (k : Nat) (hk : k < 8) :
    let b : Hash := ⟨a.bytes.set i (a.bytes[i] ^^^ (1 <<< UInt8.ofNat k)) hi⟩
    eqHash C a b = false ∧ eqArray C a b.bytes = false ∧ eqSlice C a b.bytes.toList = false := by
  intro b
  have hne : b.bytes ≠ a.bytes := flip_ne a.bytes i hi k hk
  refine ⟨?_, ?_, ?_⟩
  · cases he : eqHash C a b with
    | false => rfl
    | true => exact absurd (congrArg Hash.bytes ((eq_iff_bytes C a b b.bytes []).1.1 he)).symm hne
  · cases he : eqArray C a b.bytes with
    | false => rfl
    | true => exact absurd ((C.eq32_spec _ _).1 he).symm hne
  · cases he : eqSlice C a b.bytes.toList with
    | false => rfl
    | true => exact absurd (Vector.toList_inj.1 ((C.eq_spec _ _).1 he)).symm hne

/-- the contract is satisfiable (by the fold algorithm, next theorem), so the two theorems above are not vacuous -/
example : eqHash foldCtEq sampleHash sampleHash = true ∧
    eqSlice foldCtEq sampleHash (sampleHash.bytes.toList ++ [0]) = false ∧
    eqSlice foldCtEq sampleHash [] = false :=
  ⟨(eq_iff_bytes foldCtEq _ _ sampleHash.bytes []).1.2 rfl,
   (eq_iff_bytes foldCtEq sampleHash sampleHash sampleHash.bytes _).2.2.2 (by simp),
   (eq_iff_bytes foldCtEq sampleHash sampleHash sampleHash.bytes _).2.2.2 (by simp)⟩

/-- The xor-or fold (`constant_time_eq` 0.4.2 classic.rs: length check, then `tmp |= a[i] ^ b[i]`, compared with
    0) decides equality of byte strings of any lengths and never panics (the inner `assert!` and the indexings
    are unreachable); so does the fixed-size variant; and the SSE2 sequence compiled on x86_64 for 32 bytes
    (two `pcmpeqb`, `pand`, `pmovmskb`, `^ 0xFFFF`) computes the same predicate. -/
theorem ct_fold_decides_eq (a b : List UInt8) (x y : Vector UInt8 32) :
    ctEqFold a b = .ok (decide (a = b)) ∧
    ctEqFold32 x y = .ok (decide (x = y)) ∧
    ctEqSse2_32 x y = decide (x = y) :=
  ⟨ctEqFold_eq a b, ctEqFold32_eq x y, ctEqSse2_32_eq x y⟩

example : ctEqFold [1, 2, 3] [1, 2, 3] = .ok true ∧ ctEqFold [1, 2, 3] [1, 2, 7] = .ok false ∧
    ctEqFold [1, 2, 3] [1, 2] = .ok false ∧ ctNe [1, 2, 3] [1, 2] = .panic .assert := by decide +kernel

/-! ### serde -/

/-- JSON (serde_json): the sequence form `[b0,b1,…,b31]` parses back to the same hash. -/
theorem json_round_trip (h : Hash) : jsonDec (jsonEnc h) = some h := jsonDec_enc h

example : jsonEnc sampleHash =
    "[0,17,34,51,68,85,102,119,136,153,170,187,204,221,238,255,0,17,34,51,68,85,102,119,136,153,170,187,204,221,238,255]".toUTF8.toList := by
  decide +kernel
example : jsonDec "[1,2,3]".toUTF8.toList = none ∧ jsonDec (jsonEnc sampleHash ++ [0x5D]) = none ∧
    jsonDec ([0x20] ++ jsonEnc sampleHash ++ [0x0A]) = some sampleHash := by decide +kernel

/-- CBOR (ciborium): the sequence form (array of 32 unsigned integers) parses back to the same hash. -/
theorem cbor_round_trip (h : Hash) : cborDec (cborEnc h) = some h := cborDec_enc h

example : (cborEnc sampleHash).take 5 = [0x98, 0x20, 0x00, 0x11, 0x18] ∧ (cborEnc sampleHash).length = 2 + 32 + 28 := by
  decide +kernel

/-- CBOR: the legacy form (a 32-byte byte string `58 20 …`, written by blake3 1.5.2 – 1.5.4) is still accepted
    and gives the same hash. -/
theorem cbor_legacy_bytes_accepted (h : Hash) : cborDec (cborLegacy h) = some h := cborDec_legacy h

example : cborLegacy sampleHash ≠ cborEnc sampleHash ∧ (cborLegacy sampleHash).length = 34 ∧
    cborDec ((cborLegacy sampleHash).take 33) = none := by decide +kernel

/-- observation about the decoders (ciborium / serde, not blake3; confirmed on the real driver with
    `E cbordec` / `E jsondec`): CBOR decoding is not injective — `from_reader` ignores what follows the 32nd
    element, so a 33-element array or a 33-byte byte string is accepted and truncated — whereas serde_json
    rejects a 33-element array.  The round trips above are unaffected. -/
example : cborDec (cborHead 4 33 ++ cborItems sampleHash.bytes.toList ++ [7]) = some sampleHash ∧
    cborDec (cborHead 2 33 ++ sampleHash.bytes.toList ++ [7]) = some sampleHash ∧
    jsonDec (0x5B :: (jsonElems true (sampleHash.bytes.toList ++ [7]))) = none := by decide +kernel

end B3.Hex

#print axioms B3.Hex.to_hex_shape
#print axioms B3.Hex.display_eq_to_hex
#print axioms B3.Hex.from_hex_to_hex
#print axioms B3.Hex.from_hex_ok_iff
#print axioms B3.Hex.from_hex_error_kind
#print axioms B3.Hex.from_hex_total
#print axioms B3.Hex.from_hex_case_insensitive
#print axioms B3.Hex.from_hex_upper_of_to_hex
#print axioms B3.Hex.case_eq_iff
#print axioms B3.Hex.from_slice_ok_iff
#print axioms B3.Hex.from_slice_as_slice
#print axioms B3.Hex.array_round_trip
#print axioms B3.Hex.eq_iff_bytes
#print axioms B3.Hex.eq_single_bit_flip
#print axioms B3.Hex.ct_fold_decides_eq
#print axioms B3.Hex.json_round_trip
#print axioms B3.Hex.cbor_round_trip
#print axioms B3.Hex.cbor_legacy_bytes_accepted
