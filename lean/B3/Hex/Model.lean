/-
C14 — executable model of the `Hash` conversions and comparisons of /repo/src/lib.rs
(`impl Hash`: from_bytes, as_bytes, as_slice, from_slice, to_hex, from_hex + inner `hex_val`,
the `From` impls, `FromStr`, the three `PartialEq` impls, `Display`, `Debug`, `HexError`) and of what the
`#[derive(serde::Serialize, serde::Deserialize)]` on `struct Hash([u8; 32])` does through serde_json 1.0 and
ciborium 0.2.2 (the two formats the crate's own `test_serde` uses).

Conventions
* Every operation of the Rust code that can panic (slice/array index, checked `u8`/`usize` arithmetic —
  the harness is built with overflow-checks —, `ArrayString::push` beyond capacity, `assert!`) is an
  explicit `Outcome.panic`; B3.Hex.Props proves those outcomes unreachable.
* A `&str` / `ArrayString` is represented by its UTF-8 bytes (`AsRef<[u8]>` of a `str` *is* `as_bytes`).
* Core Lean only.
-/
namespace B3.Hex

/-! ## outcomes -/

inductive Panic where
  | arith      -- checked arithmetic overflow / underflow
  | index      -- index out of bounds
  | capacity   -- ArrayString::push on a full string
  | assert     -- assert! failed
  deriving DecidableEq, Repr

inductive Outcome (ε α : Type) where
  | ok (a : α)
  | err (e : ε)
  | panic (p : Panic)
  deriving DecidableEq, Repr

namespace Outcome
@[inline] def bind {ε α β : Type} (x : Outcome ε α) (f : α → Outcome ε β) : Outcome ε β :=
  match x with
  | .ok a => f a
  | .err e => .err e
  | .panic p => .panic p

instance {ε : Type} : Monad (Outcome ε) where
  pure := .ok
  bind := Outcome.bind

def isOk {ε α : Type} : Outcome ε α → Bool
  | .ok _ => true
  | _ => false

def toOption {ε α : Type} : Outcome ε α → Option α
  | .ok a => some a
  | _ => none
end Outcome

/-- `for i in lo..lo+n { s = f(i, s)? }` -/
def forCount {ε σ : Type} (f : Nat → σ → Outcome ε σ) : Nat → Nat → σ → Outcome ε σ
  | 0, _, s => .ok s
  | n + 1, lo, s => (f lo s).bind (forCount f n (lo + 1))

/-- `for i in lo..hi` -/
def forRange {ε σ : Type} (lo hi : Nat) (f : Nat → σ → Outcome ε σ) (s : σ) : Outcome ε σ :=
  forCount f (hi - lo) lo s

/-! ## the operations that can panic -/

section prim
variable {ε : Type}

/-- `a - b` on `u8` -/
def csub (a b : UInt8) : Outcome ε UInt8 := if b ≤ a then .ok (a - b) else .panic .arith
/-- `a + b` on `u8` -/
def cadd (a b : UInt8) : Outcome ε UInt8 := if a.toNat + b.toNat < 256 then .ok (a + b) else .panic .arith
/-- `a * b` on `u8` -/
def cmul (a b : UInt8) : Outcome ε UInt8 := if a.toNat * b.toNat < 256 then .ok (a * b) else .panic .arith
/-- `a * b` on `usize` (64-bit) -/
def umul (a b : Nat) : Outcome ε Nat := if a * b < 2 ^ 64 then .ok (a * b) else .panic .arith
/-- `a + b` on `usize` -/
def uadd (a b : Nat) : Outcome ε Nat := if a + b < 2 ^ 64 then .ok (a + b) else .panic .arith
/-- `s[i]` on a slice -/
def idx (s : List UInt8) (i : Nat) : Outcome ε UInt8 :=
  match s[i]? with
  | some x => .ok x
  | none => .panic .index
/-- `v[i] = x` on a `[u8; 32]` -/
def setIdx (v : Vector UInt8 32) (i : Nat) (x : UInt8) : Outcome ε (Vector UInt8 32) :=
  if h : i < 32 then .ok (v.set i x h) else .panic .index
end prim

/-! ## `Hash`, `HexError` -/

def OUT_LEN : Nat := 32

/-- `pub struct Hash([u8; OUT_LEN]);` -/
structure Hash where
  bytes : Vector UInt8 32
  deriving DecidableEq

/-- `enum HexErrorInner { InvalidByte(u8), InvalidLen(usize) }` -/
inductive HexError where
  | invalidByte (b : UInt8)
  | invalidLen (n : Nat)
  deriving DecidableEq, Repr

/-- `core::array::TryFromSliceError(())` -/
inductive TryFromSliceError where
  | mk
  deriving DecidableEq, Repr

namespace Hash
/-- `Hash::from_bytes` -/
def fromBytes (b : Vector UInt8 32) : Hash := ⟨b⟩
/-- `Hash::as_bytes` -/
def asBytes (h : Hash) : Vector UInt8 32 := h.bytes
/-- `Hash::as_slice` -/
def asSlice (h : Hash) : List UInt8 := h.bytes.toList
/-- `impl From<[u8; 32]> for Hash` -/
def ofArray (b : Vector UInt8 32) : Hash := fromBytes b
/-- `impl From<Hash> for [u8; 32]` -/
def intoArray (h : Hash) : Vector UInt8 32 := h.bytes
end Hash

/-- `<[u8; 32]>::try_from(&[u8])`: succeeds exactly when the length is 32 -/
def arrayTryFrom (bytes : List UInt8) : Outcome TryFromSliceError (Vector UInt8 32) :=
  if h : bytes.length = 32 then .ok ⟨bytes.toArray, by simp [h]⟩ else .err .mk

/-- `Hash::from_slice`: `Ok(Self::from_bytes(bytes.try_into()?))` -/
def fromSlice (bytes : List UInt8) : Outcome TryFromSliceError Hash :=
  (arrayTryFrom bytes).bind fun a => .ok (Hash.fromBytes a)

/-! ## `to_hex` -/

/-- `b"0123456789abcdef"` -/
def TABLE : List UInt8 :=
  [0x30, 0x31, 0x32, 0x33, 0x34, 0x35, 0x36, 0x37, 0x38, 0x39, 0x61, 0x62, 0x63, 0x64, 0x65, 0x66]

/-- `byte as char` followed by the UTF-8 encoding `ArrayString::push` appends (`u8 as char` is the Latin-1
    code point, one byte below 0x80, two bytes otherwise) -/
def charUtf8 (c : UInt8) : List UInt8 :=
  if c < 0x80 then [c] else [(0xC0 : UInt8) ||| (c >>> 6), (0x80 : UInt8) ||| (c &&& 0x3F)]

/-- `ArrayString<64>::push(c as char)`: panics when the encoded char does not fit in the 64-byte capacity -/
def pushChar {ε : Type} (s : List UInt8) (c : UInt8) : Outcome ε (List UInt8) :=
  let enc := charUtf8 c
  if s.length + enc.length ≤ 2 * OUT_LEN then .ok (s ++ enc) else .panic .capacity

/-- the body of `for &b in self.0.iter()` -/
def toHexLoop : List UInt8 → List UInt8 → Outcome Empty (List UInt8)
  | [], s => .ok s
  | b :: rest, s =>
    (idx TABLE (b >>> 4).toNat).bind fun c1 =>
    (pushChar s c1).bind fun s =>
    (idx TABLE (b &&& 0xf).toNat).bind fun c2 =>
    (pushChar s c2).bind fun s =>
    toHexLoop rest s

/-- `Hash::to_hex`, with its possible panics; the value is the UTF-8 content of the `ArrayString` -/
def toHexO (h : Hash) : Outcome Empty (List UInt8) := toHexLoop h.bytes.toList []

/-- lowercase hex digit of a nibble -/
def lowerDigit (n : UInt8) : UInt8 := if n < 10 then 0x30 + n else 0x57 + n

/-- what `to_hex` returns (Props: `toHexO h = .ok (toHex h)`) -/
def toHex (h : Hash) : List UInt8 :=
  h.bytes.toList.flatMap fun (b : UInt8) => [lowerDigit (b >>> 4), lowerDigit (b &&& 0xf)]

/-- `impl Display for Hash`: `f.write_str(self.to_hex().as_str())`; the value is what is written
    (write_str ignores width / fill / precision flags) -/
def display (h : Hash) : Outcome Empty (List UInt8) := toHexO h

/-- `impl Debug for Hash`: `f.debug_tuple("Hash").field(&hex).finish()` in the non-alternate form;
    the `&str` field is Debug-printed in quotes (`escape_debug` changes none of 0-9a-f) -/
def debugFmt (h : Hash) : Outcome Empty (List UInt8) :=
  (toHexO h).bind fun hex => .ok ([0x48, 0x61, 0x73, 0x68, 0x28, 0x22] ++ hex ++ [0x22, 0x29])   -- Hash("…")

/-! ## `from_hex` -/

/-- the inner `fn hex_val(byte: u8) -> Result<u8, HexError>`; arms in source order -/
def hexVal (byte : UInt8) : Outcome HexError UInt8 :=
  if 0x41 ≤ byte ∧ byte ≤ 0x46 then (csub byte 0x41).bind fun t => cadd t 10      -- b'A'..=b'F'
  else if 0x61 ≤ byte ∧ byte ≤ 0x66 then (csub byte 0x61).bind fun t => cadd t 10 -- b'a'..=b'f'
  else if 0x30 ≤ byte ∧ byte ≤ 0x39 then csub byte 0x30                           -- b'0'..=b'9'
  else .err (.invalidByte byte)

/-- `hash_bytes[i] = 16 * hex_val(hex_bytes[2 * i])? + hex_val(hex_bytes[2 * i + 1])?;`
    in evaluation order -/
def fromHexBody (hex : List UInt8) (i : Nat) (hashBytes : Vector UInt8 32) :
    Outcome HexError (Vector UInt8 32) :=
  (umul 2 i).bind fun i2 =>
  (idx hex i2).bind fun a =>
  (hexVal a).bind fun va =>
  (cmul 16 va).bind fun hi =>
  (umul 2 i).bind fun i2' =>
  (uadd i2' 1).bind fun i21 =>
  (idx hex i21).bind fun b =>
  (hexVal b).bind fun vb =>
  (cadd hi vb).bind fun x =>
  setIdx hashBytes i x

/-- `Hash::from_hex(hex: impl AsRef<[u8]>)` on the bytes `hex.as_ref()` -/
def fromHex (hexBytes : List UInt8) : Outcome HexError Hash :=
  if hexBytes.length ≠ OUT_LEN * 2 then .err (.invalidLen hexBytes.length)
  else (forRange 0 OUT_LEN (fromHexBody hexBytes) (Vector.replicate 32 0)).bind fun hashBytes =>
    .ok (Hash.ofArray hashBytes)

/-- `impl FromStr for Hash`: `Hash::from_hex(s)`; `s : &str` is given by its UTF-8 bytes -/
def fromStr (utf8 : List UInt8) : Outcome HexError Hash := fromHex utf8

/-! ## equality: `constant_time_eq` -/

/-- The documented contract of the external crate `constant_time_eq` (0.4.2): both entry points return
    `true` exactly when the two byte strings are equal (`constant_time_eq` on slices of different
    lengths returns `false`). -/
structure CtEq where
  eq32 : Vector UInt8 32 → Vector UInt8 32 → Bool
  eq : List UInt8 → List UInt8 → Bool
  eq32_spec : ∀ a b, eq32 a b = true ↔ a = b
  eq_spec : ∀ a b, eq a b = true ↔ a = b

/-- `impl PartialEq for Hash` -/
def eqHash (C : CtEq) (a b : Hash) : Bool := C.eq32 a.bytes b.bytes
/-- `impl PartialEq<[u8; 32]> for Hash` -/
def eqArray (C : CtEq) (a : Hash) (b : Vector UInt8 32) : Bool := C.eq32 a.bytes b
/-- `impl PartialEq<[u8]> for Hash` -/
def eqSlice (C : CtEq) (a : Hash) (b : List UInt8) : Bool := C.eq a.bytes.toList b

/-- classic.rs `constant_time_ne`: `assert!(a.len() == b.len()); for i in 0..len { tmp |= a[i] ^ b[i]; }` -/
def ctNe (a b : List UInt8) : Outcome Empty UInt8 :=
  if a.length ≠ b.length then .panic .assert
  else forRange 0 a.length (fun i tmp =>
    (idx a i).bind fun x => (idx b i).bind fun y => .ok (tmp ||| (x ^^^ y))) 0

/-- classic.rs `constant_time_eq`: `a.len() == b.len() && constant_time_ne(a, b) == 0` -/
def ctEqFold (a b : List UInt8) : Outcome Empty Bool :=
  if a.length == b.length then (ctNe a b).bind fun t => .ok (t == 0) else .ok false

/-- classic.rs `constant_time_eq_n::<32>`: `constant_time_ne_n(a, b) == 0` (same loop, `N` fixed) -/
def ctEqFold32 (a b : Vector UInt8 32) : Outcome Empty Bool :=
  (forRange 0 32 (fun i tmp =>
    (idx a.toList i).bind fun x => (idx b.toList i).bind fun y => .ok (tmp ||| (x ^^^ y))) (0 : UInt8)).bind
    fun t => .ok (t == 0)

/-- SSE2 path actually compiled on x86_64 for 32-byte inputs (sse2.rs `constant_time_eq_sse2`, the
    `a.len() >= LANES * 2` branch with nothing left over): two 16-lane `pcmpeqb`, `pand`, `pmovmskb`,
    `^ 0xFFFF`, compared with 0. -/
def cmpeqEpi8 (a b : List UInt8) : List UInt8 := List.zipWith (fun x y => if x = y then 0xFF else 0x00) a b
def andSi128 (a b : List UInt8) : List UInt8 := List.zipWith (· &&& ·) a b
/-- bit `i` of the mask is the top bit of lane `i` -/
def movemaskEpi8 : List UInt8 → Nat
  | [] => 0
  | x :: r => (x >>> 7).toNat + 2 * movemaskEpi8 r
def ctEqSse2_32 (a b : Vector UInt8 32) : Bool :=
  let mask0 := cmpeqEpi8 (a.toList.take 16) (b.toList.take 16)
  let mask1 := cmpeqEpi8 ((a.toList.drop 16).take 16) ((b.toList.drop 16).take 16)
  (movemaskEpi8 (andSi128 mask0 mask1) ^^^ 0xFFFF) == 0

/-! ## serde: JSON (serde_json 1.0)

`#[derive(Serialize)]` on the newtype struct calls `serialize_newtype_struct("Hash", &self.0)`, which both
formats forward to the inner `[u8; 32]`; arrays serialize as a 32-tuple of `u8`.
`#[derive(Deserialize)]` calls `deserialize_newtype_struct`, both formats call `visit_newtype_struct`, i.e.
`<[u8; 32]>::deserialize` = `deserialize_tuple(32, ArrayVisitor)`, whose `visit_seq` takes exactly 32
`next_element::<u8>()` and fails with `invalid_length` when the sequence ends early. -/

/-- `itoa` of a `u8` -/
def decDigits (b : UInt8) : List UInt8 :=
  if b < 10 then [0x30 + b]
  else if b < 100 then [0x30 + b / 10, 0x30 + b % 10]
  else [0x30 + b / 100, 0x30 + b / 10 % 10, 0x30 + b % 10]

/-- compact formatter: `[` , elements separated by `,` , `]` -/
def jsonElems : Bool → List UInt8 → List UInt8
  | _, [] => [0x5D]
  | first, b :: r => (if first then [] else [0x2C]) ++ decDigits b ++ jsonElems false r

/-- `serde_json::to_string(&hash)` (as bytes) -/
def jsonEnc (h : Hash) : List UInt8 := 0x5B :: jsonElems true h.bytes.toList

def isWs (c : UInt8) : Bool := c == 0x20 || c == 0x0A || c == 0x09 || c == 0x0D
def isDigit (c : UInt8) : Bool := 0x30 ≤ c && c ≤ 0x39

/-- `parse_whitespace` -/
def skipWs : List UInt8 → List UInt8
  | [] => []
  | c :: r => if isWs c then skipWs r else c :: r

/-- the digit loop of `parse_integer` (a value that leaves `u64` becomes a float, which the `u8` visitor
    rejects; here the accumulator is unbounded and the range check `≤ 255` rejects it) -/
def takeDigits : Nat → List UInt8 → Nat × List UInt8
  | acc, [] => (acc, [])
  | acc, c :: r => if isDigit c then takeDigits (acc * 10 + (c.toNat - 48)) r else (acc, c :: r)

/-- `deserialize_u8` → `deserialize_number` → `visit_u64` → `u8` range check.  Called after whitespace
    was skipped.  `-…` gives a negative / float value (rejected by the visitor), a leading `0` followed by
    a digit is `InvalidNumber`, a following `.`/`e`/`E` makes it a float (rejected). -/
def parseU8 (s : List UInt8) : Option (UInt8 × List UInt8) :=
  match s with
  | [] => none
  | c :: r =>
    if c == 0x30 then
      match r with
      | d :: _ => if isDigit d || d == 0x2E || d == 0x65 || d == 0x45 then none else some (0, r)
      | [] => some (0, r)
    else if 0x31 ≤ c && c ≤ 0x39 then
      let (v, r') := takeDigits (c.toNat - 48) r
      match r' with
      | d :: _ => if d == 0x2E || d == 0x65 || d == 0x45 then none
                  else if v ≤ 255 then some (UInt8.ofNat v, r') else none
      | [] => if v ≤ 255 then some (UInt8.ofNat v, r') else none
    else none

/-- `SeqAccess::next_element_seed`, `n` times (the ArrayVisitor loop); `first` is the access's flag -/
def jsonTake : Nat → Bool → List UInt8 → Option (List UInt8 × List UInt8)
  | 0, _, s => some ([], s)
  | n + 1, first, s =>
    match skipWs s with
    | [] => none                                     -- EofWhileParsingList
    | c :: r =>
      if c == 0x5D then none                         -- `]`: sequence ended, invalid_length
      else
        let s1? : Option (List UInt8) :=
          if first then some (c :: r)
          else if c == 0x2C then
            (match skipWs r with
             | [] => none                            -- EofWhileParsingValue
             | d :: r2 => if d == 0x5D then none else some (d :: r2))   -- TrailingComma
          else none                                  -- ExpectedListCommaOrEnd
        match s1? with
        | none => none
        | some s1 =>
          match parseU8 s1 with
          | none => none
          | some (v, s2) =>
            match jsonTake n false s2 with
            | none => none
            | some (vs, s3) => some (v :: vs, s3)

/-- `serde_json::from_slice::<Hash>`: `deserialize_seq` (expects `[`), the 32 elements, `end_seq`
    (expects `]`), `Deserializer::end` (only whitespace may follow) -/
def jsonDec (s : List UInt8) : Option Hash :=
  match skipWs s with
  | [] => none
  | c :: r =>
    if c == 0x5B then
      match jsonTake 32 true r with
      | none => none
      | some (vs, s1) =>
        match skipWs s1 with
        | d :: s2 =>
          if d == 0x5D then
            (match skipWs s2 with
             | [] => if h : vs.length = 32 then some ⟨⟨vs.toArray, by simp [h]⟩⟩ else none
             | _ :: _ => none)                       -- TrailingCharacters
          else none                                  -- TrailingComma / TrailingCharacters
        | [] => none
    else none

/-! ## serde: compact, non-self-describing binary formats (bincode 1.x default options, postcard, bcs)

The derived impls go through `serialize_newtype_struct` / `deserialize_newtype_struct` (transparent in these formats) to the
impls of `[u8; 32]`, a *tuple* of 32 `u8`: the elements, without a length prefix.  So the wire form is the 32 bytes, and a
hash is interchangeable with a plain `[u8; 32]`. -/

/-- wire form in a compact binary format -/
def binEnc (h : Hash) : List UInt8 := h.bytes.toList

/-- reading it back: exactly 32 bytes are consumed; `none` when fewer are available -/
def binDec (s : List UInt8) : Option (Hash × List UInt8) :=
  if h : (s.take 32).length = 32 then some (⟨⟨(s.take 32).toArray, by simpa using h⟩⟩, s.drop 32) else none

/-! ## serde: CBOR (ciborium 0.2.2 over ciborium-ll 0.2.2) -/

/-- big-endian bytes of `n`, `k` bytes -/
def beBytes : Nat → Nat → List UInt8
  | 0, _ => []
  | k + 1, n => UInt8.ofNat (n / 256 ^ k) :: beBytes k n

/-- `Title::from(Header)` + `Encoder::push`: major type and argument, shortest form -/
def cborHead (major : Nat) (n : Nat) : List UInt8 :=
  if n ≤ 23 then [UInt8.ofNat (major * 32 + n)]
  else if n ≤ 0xFF then UInt8.ofNat (major * 32 + 24) :: beBytes 1 n
  else if n ≤ 0xFFFF then UInt8.ofNat (major * 32 + 25) :: beBytes 2 n
  else if n ≤ 0xFFFFFFFF then UInt8.ofNat (major * 32 + 26) :: beBytes 4 n
  else UInt8.ofNat (major * 32 + 27) :: beBytes 8 n

/-- `ciborium::into_writer(&hash, …)`: `Header::Array(Some(32))`, then `Header::Positive(b)` per byte -/
def cborEnc (h : Hash) : List UInt8 :=
  cborHead 4 32 ++ h.bytes.toList.flatMap fun (b : UInt8) => cborHead 0 b.toNat

/-- the legacy (blake3 1.5.2 .. 1.5.4) form: a 32-byte CBOR byte string -/
def cborLegacy (h : Hash) : List UInt8 := cborHead 2 32 ++ h.bytes.toList

/-- `ciborium_ll::Header` (floats carry no value here: every use rejects them) -/
inductive Hdr where
  | pos (n : Nat) | neg (n : Nat)
  | bytes (len : Option Nat) | text (len : Option Nat)
  | array (len : Option Nat) | map (len : Option Nat)
  | tag (n : Nat) | brk | simple (x : Nat) | float
  deriving DecidableEq, Repr

def beNat : List UInt8 → Nat → Nat
  | [], acc => acc
  | b :: r, acc => beNat r (acc * 256 + b.toNat)

/-- `Decoder::pull`: `pull_title` (prefix byte, 0/1/2/4/8 argument bytes, minor 28..30 is a syntax error,
    too few bytes is an I/O error) then `Header::try_from(title)` (minor 31 is valid only for
    bytes/text/array/map and, in major 7, is `Break`). -/
def pullHdr (s : List UInt8) : Option (Hdr × List UInt8) :=
  match s with
  | [] => none
  | p :: r =>
    let major := p.toNat / 32
    let minor := p.toNat % 32
    let nArg : Option Nat :=
      if minor < 24 then some 0 else if minor = 24 then some 1 else if minor = 25 then some 2
      else if minor = 26 then some 4 else if minor = 27 then some 8 else if minor = 31 then some 0 else none
    match nArg with
    | none => none
    | some k =>
      if r.length < k then none
      else
        let arg : Option Nat := if minor < 24 then some minor else if minor = 31 then none else some (beNat (r.take k) 0)
        let rest := r.drop k
        let int (f : Nat → Hdr) : Option (Hdr × List UInt8) :=
          match arg with
          | some n => some (f n, rest)
          | none => none
        match major with
        | 0 => int .pos
        | 1 => int .neg
        | 2 => some (.bytes arg, rest)
        | 3 => some (.text arg, rest)
        | 4 => some (.array arg, rest)
        | 5 => some (.map arg, rest)
        | 6 => int .tag
        | _ =>
          if minor = 31 then some (.brk, rest)
          else if minor ≤ 24 then (match arg with | some n => some (.simple n, rest) | none => none)
          else some (.float, rest)

/-- `Decoder::bytes(len)` + draining every `Segment`: the header is pushed back and re-pulled, so this
    starts *at* the bytes header.  `nested` counts open indefinite-length strings; a definite string at
    nesting 0 finishes, `Break` at nesting 1 finishes, `Break` at nesting 0 and any non-bytes header are
    syntax errors.  Returns the concatenated content and the rest of the input. -/
def cborSegs : Nat → List UInt8 → Nat → List UInt8 → Option (List UInt8 × List UInt8)
  | 0, _, _, _ => none
  | fuel + 1, s, nested, acc =>
    match pullHdr s with
    | some (.brk, r) =>
      if nested = 1 then some (acc, r)
      else if nested > 1 then cborSegs fuel r (nested - 1) acc
      else none
    | some (.bytes none, r) => cborSegs fuel r (nested + 1) acc
    | some (.bytes (some len), r) =>
      if r.length < len then none
      else if nested = 0 then some (acc ++ r.take len, r.drop len)
      else cborSegs fuel (r.drop len) nested (acc ++ r.take len)
    | _ => none

/-- value of a bignum byte string as `Deserializer::integer` computes it: leading zeros skipped, more
    than 16 significant bytes is "bigint too large" -/
def bigVal (bs : List UInt8) : Option Nat :=
  let sig := bs.dropWhile (· == 0)
  if sig.length > 16 then none else some (beNat sig 0)

/-- `Deserializer::integer(None)`: tags other than 2/3 are skipped; tag 2 / 3 must be followed by a byte
    string (bignum).  Result: (negative?, magnitude, rest). -/
def cborInteger : Nat → List UInt8 → Option (Bool × Nat × List UInt8)
  | 0, _ => none
  | fuel + 1, s =>
    match pullHdr s with
    | some (.pos x, r) => some (false, x, r)
    | some (.neg x, r) => some (true, x, r)
    | some (.tag t, r) =>
      if t = 2 ∨ t = 3 then
        match pullHdr r with
        | some (.bytes _, _) =>
          (match cborSegs (r.length + 1) r 0 [] with
           | some (bs, r') => (match bigVal bs with | some v => some (t == 3, v, r') | none => none)
           | none => none)
        | _ => none
      else cborInteger fuel r
    | _ => none

/-- `deserialize_u8` = `deserialize_u64` + the `u8` visitor's `visit_u64`: non-negative, fits `u64`
    (here: `≤ 255` subsumes it) -/
def cborU8 (s : List UInt8) : Option (UInt8 × List UInt8) :=
  match cborInteger (s.length + 1) s with
  | some (false, v, r) => if v ≤ 255 then some (UInt8.ofNat v, r) else none
  | _ => none

/-- `Access::next_element_seed`, `n` times (the ArrayVisitor loop).  `len = some k`: definite array with
    `k` items left; `none`: indefinite, a `Break` header ends it (any other header is pushed back). -/
def cborTake : Nat → Option Nat → List UInt8 → Option (List UInt8)
  | 0, _, _ => some []
  | n + 1, len, s =>
    let cont (len' : Option Nat) (s : List UInt8) : Option (List UInt8) :=
      match cborU8 s with
      | none => none
      | some (v, r) => (match cborTake n len' r with | none => none | some vs => some (v :: vs))
    match len with
    | some 0 => none                                  -- invalid_length
    | some (k + 1) => cont (some k) s
    | none =>
      match pullHdr s with
      | none => none
      | some (.brk, _) => none                        -- invalid_length
      | some _ => cont none s

/-- `deserialize_tuple` = `deserialize_seq`: tags skipped; an array is visited item by item; a byte string
    (the legacy form) is read completely and visited byte by byte; anything else is "expected array".
    `ciborium::from_reader` does not look at what follows the value, and the visitor stops after 32
    elements, so longer arrays / byte strings are accepted and truncated. -/
def cborSeq : Nat → List UInt8 → Option Hash
  | 0, _ => none
  | fuel + 1, s =>
    match pullHdr s with
    | some (.tag _, r) => cborSeq fuel r
    | some (.array len, r) =>
      (match cborTake 32 len r with
       | some vs => if h : vs.length = 32 then some ⟨⟨vs.toArray, by simp [h]⟩⟩ else none
       | none => none)
    | some (.bytes _, _) =>
      (match cborSegs (s.length + 1) s 0 [] with
       | some (bs, _) =>
         if h : 32 ≤ bs.length then some ⟨⟨(bs.take 32).toArray, by simp; omega⟩⟩ else none
       | none => none)
    | _ => none

/-- `ciborium::from_reader::<Hash, &[u8]>` -/
def cborDec (s : List UInt8) : Option Hash := cborSeq (s.length + 1) s

/-! ## vocabulary of the property statements (B3.Hex.Props) -/

/-- value of a hex digit, `none` for every other byte -/
def digitVal? (b : UInt8) : Option UInt8 :=
  if 0x30 ≤ b ∧ b ≤ 0x39 then some (b - 0x30)
  else if 0x61 ≤ b ∧ b ≤ 0x66 then some (b - 0x61 + 10)
  else if 0x41 ≤ b ∧ b ≤ 0x46 then some (b - 0x41 + 10)
  else none

/-- `0-9a-fA-F` -/
def isHexDigit (b : UInt8) : Bool :=
  (0x30 ≤ b && b ≤ 0x39) || (0x61 ≤ b && b ≤ 0x66) || (0x41 ≤ b && b ≤ 0x46)

/-- `0-9a-f` -/
def isLowerHex (b : UInt8) : Bool := (0x30 ≤ b && b ≤ 0x39) || (0x61 ≤ b && b ≤ 0x66)

/-- the two lists have the same length and related elements at every position -/
inductive Pointwise (R : UInt8 → UInt8 → Prop) : List UInt8 → List UInt8 → Prop where
  | nil : Pointwise R [] []
  | cons {a b : UInt8} {l l' : List UInt8} : R a b → Pointwise R l l' → Pointwise R (a :: l) (b :: l')

/-- two bytes are interchangeable for `from_hex`: the same digit value, or the same non-digit -/
def CaseEq (a b : UInt8) : Prop := digitVal? a = digitVal? b ∧ (digitVal? a = none → a = b)

instance (a b : UInt8) : Decidable (CaseEq a b) := by unfold CaseEq; infer_instance

/-- `A-F` to `a-f`, everything else unchanged -/
def hexLower (b : UInt8) : UInt8 := if 0x41 ≤ b ∧ b ≤ 0x46 then b + 0x20 else b
/-- `a-f` to `A-F`, everything else unchanged -/
def hexUpper (b : UInt8) : UInt8 := if 0x61 ≤ b ∧ b ≤ 0x66 then b - 0x20 else b
/-- `u8::to_ascii_lowercase` -/
def asciiLower (b : UInt8) : UInt8 := if 0x41 ≤ b ∧ b ≤ 0x5A then b + 0x20 else b
/-- `u8::to_ascii_uppercase` -/
def asciiUpper (b : UInt8) : UInt8 := if 0x61 ≤ b ∧ b ≤ 0x7A then b - 0x20 else b

/-- weaker relation: the same digit value or both non-digits (what full ASCII case mapping gives) -/
def ValEq (a b : UInt8) : Prop := digitVal? a = digitVal? b

instance (a b : UInt8) : Decidable (ValEq a b) := by unfold ValEq; infer_instance

end B3.Hex
