/-
C14 — line-protocol driver over the model (B3.Hex.Model).  `stepLine` takes the tokens of one line
(`E <op> …`, the leading `E` is optional) and returns what the real driver
(/verif/harness/rs/src/main.rs, `conv_step`) prints for the same line; `none` = the real driver's `bad-op`.
Hex arguments are hex of raw bytes, `-` = empty.  Core only.
-/
import B3.Hex.Model

namespace B3.Hex

def nibble? (c : Char) : Option Nat :=
  if 48 ≤ c.toNat ∧ c.toNat ≤ 57 then some (c.toNat - 48)
  else if 97 ≤ c.toNat ∧ c.toNat ≤ 102 then some (c.toNat - 87)
  else if 65 ≤ c.toNat ∧ c.toNat ≤ 70 then some (c.toNat - 55)
  else none

def unhexList : List Char → Option (List UInt8)
  | [] => some []
  | [_] => none
  | a :: b :: rest =>
    match nibble? a, nibble? b, unhexList rest with
    | some h, some l, some bs => some ((h * 16 + l).toUInt8 :: bs)
    | _, _, _ => none

/-- the real driver's `unhex` -/
def unhexTok (s : String) : Option (List UInt8) :=
  if s = "-" then some [] else unhexList s.toList

def hexChar (n : Nat) : Char := if n < 10 then Char.ofNat (48 + n) else Char.ofNat (87 + n)

/-- the real driver's `hex` -/
def hexStr (bs : List UInt8) : String :=
  String.ofList (bs.flatMap fun (b : UInt8) => [hexChar (b.toNat / 16), hexChar (b.toNat % 16)])

/-- ASCII bytes as text -/
def asciiStr (bs : List UInt8) : String := String.ofList (bs.map fun (b : UInt8) => Char.ofNat b.toNat)

def hash? (bs : List UInt8) : Option Hash :=
  if h : bs.length = 32 then some ⟨⟨bs.toArray, by simp [h]⟩⟩ else none

def hashHex (h : Hash) : String := hexStr h.bytes.toList

def boolStr (b : Bool) : String := if b then "true" else "false"

def hexErrStr : HexError → String
  | .invalidByte b => s!"err:HexError(InvalidByte({b.toNat}))"
  | .invalidLen n => s!"err:HexError(InvalidLen({n}))"

def fromHexOut (o : Outcome HexError Hash) : String :=
  match o with
  | .ok h => hashHex h
  | .err e => hexErrStr e
  | .panic _ => "PANIC"

/-- the formatter settings the harness knows (`E fmt <spec> <hash>`) -/
def fmtSpecs : List String :=
  ["plain", "prec8", "prec0", "prec64", "prec100", "w80", "w70r", "w70l", "w66c", "w70fill", "w08", "w100zero", "alt", "plus",
   "argw", "argp", "tostring"]

def stepOp : List String → Option String
  | ["tohex", h] => do
    let hash ← hash? (← unhexTok h)
    match toHexO hash, display hash with
    | .ok a, .ok d => pure (asciiStr a ++ " " ++ (if a = d then "same" else "differ"))
    | _, _ => pure "PANIC"
  | ["fmt", spec, h] => do
    -- Display under formatter flags: `fmt` writes the digits with `write_str`, which ignores width, fill, alignment and precision
    let hash ← hash? (← unhexTok h)
    if ¬ fmtSpecs.contains spec then none
    match display hash with
    | .ok d => pure (asciiStr d)
    | _ => pure "PANIC"
  | ["fromhexbig", n, s] => do
    -- an input of n bytes whose first bytes are s (the rest zero): only its length matters unless n = 64
    -- (`from_hex_error_kind`: every length other than 64 is InvalidLen of that length)
    let n ← n.toNat?
    let inp ← unhexTok s
    if inp.length > n ∨ n > 2 ^ 34 then none
    if n = 64 then pure (fromHexOut (fromHex (inp ++ List.replicate (64 - inp.length) 0)))
    else pure (hexErrStr (.invalidLen n))
  | ["fromhex", s] => do
    let inp ← unhexTok s
    pure (fromHexOut (fromHex inp))
  | ["fromhexre", s1, s2] => do
    -- an argument that shows s1 at the first `as_ref()` and s2 afterwards: the code looks once
    let inp ← unhexTok s1
    let _ ← unhexTok s2
    pure (fromHexOut (fromHex inp))
  | ["fromstr", s] => do
    let inp ← unhexTok s
    -- the real driver refuses (bad-op) input that is not UTF-8: a `&str` cannot hold it
    let _ ← String.fromUTF8? ⟨inp.toArray⟩
    pure (fromHexOut (fromStr inp))
  | ["fromslice", s] => do
    let inp ← unhexTok s
    match fromSlice inp with
    | .ok h => pure (hashHex h)
    | .err _ => pure "err"
    | .panic _ => pure "PANIC"
  | ["eq", a, b] => do
    let ha ← hash? (← unhexTok a)
    let bb ← unhexTok b
    match ctEqFold ha.bytes.toList bb with
    | .ok rs =>
      match hash? bb with
      | some hb =>
        (match ctEqFold32 ha.bytes hb.bytes with
         | .ok r32 =>
           -- arr and hash are the same call (constant_time_eq_32); the SSE2 model must agree with it
           if ctEqSse2_32 ha.bytes hb.bytes = r32 then
             pure s!"slice:{boolStr rs} arr:{boolStr r32} hash:{boolStr r32}"
           else pure "MODEL-DISAGREE"
         | _ => pure "PANIC")
      | none => pure s!"slice:{boolStr rs}"
    | _ => pure "PANIC"
  | ["arr", h] => do
    let b ← hash? (← unhexTok h)
    let hash := Hash.ofArray b.bytes
    let back := hash.intoArray
    pure (hexStr back.toList ++ " " ++ hexStr hash.asBytes.toList)
  | ["bin", h] => do
    let hash ← hash? (← unhexTok h)
    let wire := binEnc hash
    let (back, rest) ← binDec wire
    let (back2, rest2) ← binDec (wire ++ [0xA5])
    let marker ← rest2.head?
    pure (hexStr wire ++ "_" ++ hashHex back ++ "_" ++ toString rest.length ++ "_" ++ hashHex back2 ++ "_" ++ toString marker.toNat ++ "_"
      ++ toString (rest2.length - 1) ++ "_" ++ hexStr wire ++ "_0")
  | ["json", h] => do
    let hash ← hash? (← unhexTok h)
    let j := jsonEnc hash
    let back ← jsonDec j
    pure (asciiStr (j.filter (· != 0x20)) ++ " " ++ hashHex back)
  | ["cbor", h] => do
    let hash ← hash? (← unhexTok h)
    let v := cborEnc hash
    let back ← cborDec v
    let back2 ← cborDec (cborLegacy hash)
    pure (hexStr v ++ " " ++ hashHex back ++ " " ++ hashHex back2)
  | ["dbg", h] => do
    let hash ← hash? (← unhexTok h)
    match debugFmt hash with
    | .ok d => pure (asciiStr d)
    | _ => pure "PANIC"
  | ["jsondec", s] => do
    let inp ← unhexTok s
    pure (match jsonDec inp with | some h => hashHex h | none => "err")
  | ["cbordec", s] => do
    let inp ← unhexTok s
    pure (match cborDec inp with | some h => hashHex h | none => "err")
  | _ => none

def stepLine (toks : List String) : Option String :=
  match toks with
  | "E" :: rest => stepOp rest
  | _ => stepOp toks

end B3.Hex
