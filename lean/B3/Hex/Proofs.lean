/-
C14 — helper lemmas for B3.Hex.Props.  Core only.
-/
import B3.Hex.Model

namespace B3.Hex

/-! ## generalities -/

@[simp] theorem Outcome.ok_bind {ε α β : Type} (a : α) (f : α → Outcome ε β) :
    (Outcome.ok a : Outcome ε α).bind f = f a := rfl
@[simp] theorem Outcome.err_bind {ε α β : Type} (e : ε) (f : α → Outcome ε β) :
    (Outcome.err e : Outcome ε α).bind f = .err e := rfl
@[simp] theorem Outcome.panic_bind {ε α β : Type} (p : Panic) (f : α → Outcome ε β) :
    (Outcome.panic p : Outcome ε α).bind f = .panic p := rfl

/-- a statement about every byte follows from the statement about `UInt8.ofNat n` for `n : Fin 256`
    (which `decide` can enumerate) -/
theorem forall_byte {P : UInt8 → Prop} (h : ∀ n : Fin 256, P (UInt8.ofNat n.val)) : ∀ b : UInt8, P b := by
  intro b
  have := h ⟨b.toNat, b.toNat_lt⟩
  simpa using this

theorem forall_nibble {P : UInt8 → Prop} (h : ∀ n : Fin 16, P (UInt8.ofNat n.val)) :
    ∀ b : UInt8, b.toNat < 16 → P b := by
  intro b hb
  have := h ⟨b.toNat, hb⟩
  simpa using this

/-! ## hex digits -/

theorem hexVal_eq : ∀ b : UInt8, hexVal b =
    match digitVal? b with
    | some v => .ok v
    | none => .err (.invalidByte b) := by
  apply forall_byte; decide +kernel

theorem digitVal?_isSome : ∀ b : UInt8, (digitVal? b).isSome = isHexDigit b := by
  apply forall_byte; decide +kernel

theorem digitVal?_lt : ∀ b : UInt8, ∀ v, digitVal? b = some v → v.toNat < 16 := by
  apply forall_byte; decide +kernel


theorem cmul_cadd_nibbles : ∀ x : UInt8, x.toNat < 16 → ∀ y : UInt8, y.toNat < 16 →
    (cmul 16 x : Outcome HexError UInt8) = .ok (16 * x) ∧
    (cadd (16 * x) y : Outcome HexError UInt8) = .ok (16 * x + y) := by
  apply forall_nibble; intro n
  apply forall_nibble; revert n
  decide +kernel

/-- digit value with 0 for non-digits (only used where the byte is known to be a digit) -/
def dv (b : UInt8) : UInt8 := (digitVal? b).getD 0

/-- the two hex_val calls and the arithmetic of one loop iteration -/
theorem pair_eq (a b : UInt8) :
    ((hexVal a).bind fun va => (cmul 16 va).bind fun hi => (hexVal b).bind fun vb => cadd hi vb) =
    if isHexDigit a then
      if isHexDigit b then .ok (16 * dv a + dv b) else .err (.invalidByte b)
    else .err (.invalidByte a) := by
  rw [hexVal_eq a, hexVal_eq b, ← digitVal?_isSome a, ← digitVal?_isSome b]
  cases ha : digitVal? a with
  | none => simp
  | some x =>
    cases hb : digitVal? b with
    | none =>
      have := (cmul_cadd_nibbles x (digitVal?_lt a x ha) 0 (by decide)).1
      simp [this]
    | some y =>
      have := cmul_cadd_nibbles x (digitVal?_lt a x ha) y (digitVal?_lt b y hb)
      simp [this.1, this.2, dv, ha, hb]

/-! ## from_hex: the loop and its closed form -/

def pairVal (s : List UInt8) (k : Nat) : UInt8 := 16 * dv (s[2 * k]?.getD 0) + dv (s[2 * k + 1]?.getD 0)

def fill (s : List UInt8) (i : Nat) (acc : Vector UInt8 32) : Vector UInt8 32 :=
  Vector.ofFn fun k => if k.val < i then acc[k] else pairVal s k.val

theorem Outcome.bind_assoc {ε α β γ : Type} (x : Outcome ε α) (f : α → Outcome ε β) (g : β → Outcome ε γ) :
    (x.bind f).bind g = x.bind fun a => (f a).bind g := by
  cases x <;> rfl

theorem idx_ok {ε : Type} (s : List UInt8) (i : Nat) (h : i < s.length) : (idx s i : Outcome ε UInt8) = .ok s[i] := by
  simp [idx, h]

theorem body_eq (s : List UInt8) (hs : s.length = 64) (i : Nat) (hi : i < 32) (acc : Vector UInt8 32) :
    fromHexBody s i acc =
      if isHexDigit (s[2 * i]?.getD 0) then
        if isHexDigit (s[2 * i + 1]?.getD 0) then .ok (acc.set i (pairVal s i) hi)
        else .err (.invalidByte (s[2 * i + 1]?.getD 0))
      else .err (.invalidByte (s[2 * i]?.getD 0)) := by
  have h1 : 2 * i < s.length := by omega
  have h2 : 2 * i + 1 < s.length := by omega
  have hm : (umul 2 i : Outcome HexError Nat) = .ok (2 * i) := by
    have : 2 * i < 2 ^ 64 := by omega
    simp [umul, this]
  have ha : (uadd (2 * i) 1 : Outcome HexError Nat) = .ok (2 * i + 1) := by
    have : 2 * i + 1 < 2 ^ 64 := by omega
    simp [uadd, this]
  have g1 : s[2 * i]?.getD 0 = s[2 * i] := by simp [h1]
  have g2 : s[2 * i + 1]?.getD 0 = s[2 * i + 1] := by simp [h2]
  have P := pair_eq s[2 * i] s[2 * i + 1]
  have assoc : fromHexBody s i acc =
      ((hexVal s[2 * i]).bind fun va => (cmul 16 va).bind fun hi => (hexVal s[2 * i + 1]).bind fun vb =>
        cadd hi vb).bind (setIdx acc i) := by
    unfold fromHexBody
    simp only [hm, ha, Outcome.ok_bind, idx_ok s _ h1, idx_ok s _ h2, Outcome.bind_assoc]
  rw [assoc, P, g1, g2]
  by_cases ca : isHexDigit s[2 * i] = true
  · by_cases cb : isHexDigit s[2 * i + 1] = true
    · simp [ca, cb, setIdx, hi, pairVal, h1, h2]
    · simp [ca, cb]
  · simp [ca]

def notHex (b : UInt8) : Bool := !isHexDigit b

theorem fill_full (s : List UInt8) (acc : Vector UInt8 32) : fill s 32 acc = acc := by
  apply Vector.ext; intro k hk
  simp [fill]

theorem fill_step (s : List UInt8) (i : Nat) (hi : i < 32) (acc : Vector UInt8 32) :
    fill s (i + 1) (acc.set i (pairVal s i) hi) = fill s i acc := by
  apply Vector.ext; intro k hk
  simp only [fill, Vector.getElem_ofFn]
  by_cases h1 : k < i
  · have : k < i + 1 := by omega
    have : ¬ i = k := by omega
    simp [*]
  · by_cases h2 : k = i
    · subst h2; simp
    · have : ¬ k < i + 1 := by omega
      simp [*]

theorem loop_eq (s : List UInt8) (hs : s.length = 64) : ∀ n i acc, i + n = 32 →
    forCount (fromHexBody s) n i acc =
      match (s.drop (2 * i)).find? notHex with
      | some b => .err (.invalidByte b)
      | none => .ok (fill s i acc) := by
  intro n
  induction n with
  | zero =>
    intro i acc h
    have : i = 32 := by omega
    subst this
    have : s.drop (2 * 32) = [] := by simp [hs]
    simp [forCount, this, fill_full]
  | succ n ih =>
    intro i acc h
    have hi : i < 32 := by omega
    have h1 : 2 * i < s.length := by omega
    have h2 : 2 * i + 1 < s.length := by omega
    have hd : s.drop (2 * i) = s[2 * i] :: s[2 * i + 1] :: s.drop (2 * (i + 1)) := by
      rw [List.drop_eq_getElem_cons h1, List.drop_eq_getElem_cons h2]
      have : 2 * i + 1 + 1 = 2 * (i + 1) := by omega
      rw [this]
    rw [forCount, body_eq s hs i hi, hd]
    have g1 : s[2 * i]?.getD 0 = s[2 * i] := by simp [h1]
    have g2 : s[2 * i + 1]?.getD 0 = s[2 * i + 1] := by simp [h2]
    rw [g1, g2]
    by_cases ca : isHexDigit s[2 * i] = true
    · by_cases cb : isHexDigit s[2 * i + 1] = true
      · simp only [ca, cb, if_true, Outcome.ok_bind, List.find?_cons, notHex, Bool.not_true]
        rw [ih (i + 1) _ (by omega), fill_step]
      · simp [ca, cb, notHex]
    · simp [ca, notHex]

theorem fromHex_eq (s : List UInt8) :
    fromHex s =
      if s.length ≠ 64 then .err (.invalidLen s.length)
      else match s.find? notHex with
        | some b => .err (.invalidByte b)
        | none => .ok ⟨Vector.ofFn fun k => pairVal s k.val⟩ := by
  unfold fromHex
  by_cases hl : s.length = 64
  · have := loop_eq s hl 32 0 (Vector.replicate 32 0) (by omega)
    simp only [OUT_LEN, hl, forRange, Nat.sub_zero, this]
    simp only [Nat.mul_zero, List.drop_zero]
    cases s.find? notHex with
    | some b => simp
    | none => simp [fill, Hash.ofArray, Hash.fromBytes]
  · simp [OUT_LEN, hl]

/-! ## to_hex -/

theorem table_lookup : ∀ b : UInt8,
    (idx TABLE (b >>> 4).toNat : Outcome Empty UInt8) = .ok (lowerDigit (b >>> 4)) ∧
    (idx TABLE (b &&& 0xf).toNat : Outcome Empty UInt8) = .ok (lowerDigit (b &&& 0xf)) ∧
    charUtf8 (lowerDigit (b >>> 4)) = [lowerDigit (b >>> 4)] ∧
    charUtf8 (lowerDigit (b &&& 0xf)) = [lowerDigit (b &&& 0xf)] := by
  apply forall_byte; decide +kernel

theorem digits_of_byte : ∀ b : UInt8,
    isLowerHex (lowerDigit (b >>> 4)) = true ∧ isLowerHex (lowerDigit (b &&& 0xf)) = true ∧
    (16 : UInt8) * dv (lowerDigit (b >>> 4)) + dv (lowerDigit (b &&& 0xf)) = b := by
  apply forall_byte; decide +kernel

theorem isLowerHex_isHexDigit : ∀ b : UInt8, isLowerHex b = true → isHexDigit b = true := by
  apply forall_byte; decide +kernel

def hexPairs (l : List UInt8) : List UInt8 :=
  l.flatMap fun (b : UInt8) => [lowerDigit (b >>> 4), lowerDigit (b &&& 0xf)]

theorem hexPairs_cons (b : UInt8) (l : List UInt8) :
    hexPairs (b :: l) = lowerDigit (b >>> 4) :: lowerDigit (b &&& 0xf) :: hexPairs l := by
  simp [hexPairs]

theorem hexPairs_length (l : List UInt8) : (hexPairs l).length = 2 * l.length := by
  induction l with
  | nil => rfl
  | cons b l ih => rw [hexPairs_cons]; simp [ih]; omega

theorem hexPairs_lower (l : List UInt8) : ∀ c ∈ hexPairs l, isLowerHex c = true := by
  induction l with
  | nil => intro c hc; simp [hexPairs] at hc
  | cons b l ih =>
    intro c hc
    rw [hexPairs_cons] at hc
    have := digits_of_byte b
    simp only [List.mem_cons] at hc
    rcases hc with rfl | rfl | hc
    · exact this.1
    · exact this.2.1
    · exact ih c hc

theorem hexPairs_getElem? (l : List UInt8) : ∀ k,
    (hexPairs l)[2 * k]? = l[k]?.map (fun (b : UInt8) => lowerDigit (b >>> 4)) ∧
    (hexPairs l)[2 * k + 1]? = l[k]?.map (fun (b : UInt8) => lowerDigit (b &&& 0xf)) := by
  induction l with
  | nil => intro k; simp [hexPairs]
  | cons b l ih =>
    intro k
    rw [hexPairs_cons]
    cases k with
    | zero => simp
    | succ k =>
      have e1 : 2 * (k + 1) = (2 * k) + 1 + 1 := by omega
      rw [e1]
      simp only [List.getElem?_cons_succ]
      exact ih k

theorem toHexLoop_eq (l : List UInt8) : ∀ s : List UInt8, s.length + 2 * l.length ≤ 64 →
    toHexLoop l s = .ok (s ++ hexPairs l) := by
  induction l with
  | nil => intro s _; simp [toHexLoop, hexPairs]
  | cons b l ih =>
    intro s hs
    have T := table_lookup b
    simp only [List.length_cons] at hs
    have p1 : (pushChar s (lowerDigit (b >>> 4)) : Outcome Empty _) = .ok (s ++ [lowerDigit (b >>> 4)]) := by
      have : s.length + 1 ≤ 2 * 32 := by omega
      simp [pushChar, T.2.2.1, OUT_LEN, this]
    have p2 : (pushChar (s ++ [lowerDigit (b >>> 4)]) (lowerDigit (b &&& 0xf)) : Outcome Empty _) =
        .ok (s ++ [lowerDigit (b >>> 4)] ++ [lowerDigit (b &&& 0xf)]) := by
      have : s.length + 1 + 1 ≤ 2 * 32 := by omega
      simp [pushChar, T.2.2.2, OUT_LEN, this]
    rw [toHexLoop, T.1, Outcome.ok_bind, p1, Outcome.ok_bind, T.2.1, Outcome.ok_bind, p2, Outcome.ok_bind,
      ih _ (by simp; omega), hexPairs_cons]
    simp

theorem toHex_eq (h : Hash) : toHex h = hexPairs h.bytes.toList := rfl

theorem toHexO_eq (h : Hash) : toHexO h = .ok (toHex h) := by
  have := toHexLoop_eq h.bytes.toList [] (by simp)
  simpa [toHexO, toHex_eq] using this

theorem toHex_length (h : Hash) : (toHex h).length = 64 := by
  simp [toHex_eq, hexPairs_length]

theorem toHex_find (h : Hash) : (toHex h).find? notHex = none := by
  rw [List.find?_eq_none]
  intro c hc
  have := isLowerHex_isHexDigit c (hexPairs_lower _ c hc)
  simp [notHex, this]

theorem toHex_pairVal (h : Hash) (k : Nat) (hk : k < 32) : pairVal (toHex h) k = h.bytes[k] := by
  have G := hexPairs_getElem? h.bytes.toList k
  have hk' : k < h.bytes.toList.length := by simp [hk]
  have e : h.bytes.toList[k]? = some h.bytes[k] := by
    rw [List.getElem?_eq_getElem hk']; simp
  rw [e] at G
  simp only [pairVal, toHex_eq, G.1, G.2, Option.map_some, Option.getD_some]
  exact (digits_of_byte _).2.2

theorem fromHex_toHex (h : Hash) : fromHex (toHex h) = .ok h := by
  rw [fromHex_eq, toHex_find]
  have hl : ¬ (toHex h).length ≠ 64 := by simp [toHex_length]
  rw [if_neg hl]
  have : (Vector.ofFn fun k : Fin 32 => pairVal (toHex h) k.val) = h.bytes := by
    apply Vector.ext; intro k hk
    simp [toHex_pairVal h k hk]
  simp only [this]

/-! ## from_hex: acceptance, totality, case -/

theorem notHex_find_none (s : List UInt8) : s.find? notHex = none ↔ ∀ b ∈ s, isHexDigit b = true := by
  rw [List.find?_eq_none]
  simp [notHex]

theorem fromHex_ok_iff' (s : List UInt8) :
    (∃ h, fromHex s = .ok h) ↔ s.length = 64 ∧ ∀ b ∈ s, isHexDigit b = true := by
  rw [fromHex_eq, ← notHex_find_none]
  by_cases hl : s.length = 64
  · cases hf : s.find? notHex with
    | none => simp [hl]
    | some b => simp [hl]
  · simp [hl]

theorem fromHex_no_panic (s : List UInt8) (p : Panic) : fromHex s ≠ .panic p := by
  rw [fromHex_eq]
  by_cases hl : s.length = 64
  · cases hf : s.find? notHex with
    | none => simp [hl]
    | some b => simp [hl]
  · simp [hl]

theorem Pointwise.length_eq {R : UInt8 → UInt8 → Prop} {s s' : List UInt8} (h : Pointwise R s s') :
    s.length = s'.length := by
  induction h with
  | nil => rfl
  | cons _ _ ih => simp [ih]

theorem Pointwise.of_getElem {R : UInt8 → UInt8 → Prop} : ∀ (s s' : List UInt8), s.length = s'.length →
    (∀ j (h1 : j < s.length) (h2 : j < s'.length), R s[j] s'[j]) → Pointwise R s s' := by
  intro s
  induction s with
  | nil => intro s' hl _; cases s' with | nil => exact .nil | cons _ _ => simp at hl
  | cons a l ih =>
    intro s' hl h
    cases s' with
    | nil => simp at hl
    | cons b l' =>
      refine .cons (h 0 (by simp) (by simp)) (ih l' (by simpa using hl) ?_)
      intro j h1 h2
      exact h (j + 1) (by simp; omega) (by simp; omega)

theorem find_caseEq {s s' : List UInt8} (h : Pointwise CaseEq s s') : s.find? notHex = s'.find? notHex := by
  induction h with
  | nil => rfl
  | @cons a b l l' hab _ ih =>
    have e : notHex a = notHex b := by
      simp only [notHex, ← digitVal?_isSome, hab.1]
    by_cases c : notHex a = true
    · have : digitVal? a = none := by
        have := digitVal?_isSome a
        simp only [notHex] at c
        cases hd : digitVal? a with
        | none => rfl
        | some v => rw [hd] at this; simp at this; simp [← this] at c
      have := hab.2 this
      subst this
      simp [c]
    · have c' : notHex b = false := by rw [← e]; simpa using c
      have c'' : notHex a = false := by simpa using c
      simp [c', c'', ih]

theorem getD_caseEq {s s' : List UInt8} (h : Pointwise CaseEq s s') :
    ∀ j : Nat, dv (s[j]?.getD 0) = dv (s'[j]?.getD 0) := by
  induction h with
  | nil => intro j; rfl
  | cons hab _ ih =>
    intro j
    cases j with
    | zero => simp [dv, hab.1]
    | succ j => simpa using ih j

theorem fromHex_caseEq {s s' : List UInt8} (h : Pointwise CaseEq s s') : fromHex s' = fromHex s := by
  rw [fromHex_eq, fromHex_eq, find_caseEq h, h.length_eq]
  have : (fun k : Fin 32 => pairVal s' k.val) = (fun k : Fin 32 => pairVal s k.val) := by
    funext k
    simp only [pairVal, getD_caseEq h]
  rw [this]

theorem pointwise_map {R : UInt8 → UInt8 → Prop} (f : UInt8 → UInt8) (hf : ∀ a, R a (f a)) (s : List UInt8) :
    Pointwise R s (s.map f) := by
  induction s with
  | nil => exact .nil
  | cons a l ih => exact .cons (hf a) ih

theorem caseEq_hexLower : ∀ b : UInt8, CaseEq b (hexLower b) := by apply forall_byte; decide +kernel
theorem caseEq_hexUpper : ∀ b : UInt8, CaseEq b (hexUpper b) := by apply forall_byte; decide +kernel

theorem CaseEq.symm {a b : UInt8} (h : CaseEq a b) : CaseEq b a :=
  ⟨h.1.symm, fun hb => (h.2 (h.1.trans hb)).symm⟩

theorem CaseEq.trans {a b c : UInt8} (h1 : CaseEq a b) (h2 : CaseEq b c) : CaseEq a c :=
  ⟨h1.1.trans h2.1, fun ha => by
    have e := h1.2 ha
    subst e
    exact h2.2 ha⟩

theorem hexLower_of_digit : ∀ a : UInt8, digitVal? a = none ∨ hexLower a = lowerDigit (dv a) := by
  apply forall_byte; decide +kernel

/-- `CaseEq` is exactly: equal once `A-F` is mapped to `a-f` -/
theorem caseEq_iff (a b : UInt8) : CaseEq a b ↔ hexLower a = hexLower b := by
  constructor
  · intro h
    cases hd : digitVal? a with
    | none => rw [h.2 hd]
    | some v =>
      have ha := hexLower_of_digit a
      have hb := hexLower_of_digit b
      have hd' : digitVal? b = some v := by rw [← h.1, hd]
      simp only [hd, hd', dv, Option.getD_some, reduceCtorEq, false_or] at ha hb
      rw [ha, hb]
  · intro h
    have h1 := caseEq_hexLower a
    have h2 := (caseEq_hexLower b).symm
    rw [h] at h1
    exact h1.trans h2

theorem valEq_asciiLower : ∀ b : UInt8, ValEq b (asciiLower b) := by apply forall_byte; decide +kernel
theorem valEq_asciiUpper : ∀ b : UInt8, ValEq b (asciiUpper b) := by apply forall_byte; decide +kernel

theorem find_valEq {s s' : List UInt8} (h : Pointwise ValEq s s') :
    (s.find? notHex).isSome = (s'.find? notHex).isSome := by
  induction h with
  | nil => rfl
  | @cons a b l l' hab _ ih =>
    have e : notHex a = notHex b := by
      simp only [notHex, ← digitVal?_isSome]; rw [hab]
    by_cases c : notHex a = true
    · have c' : notHex b = true := by rw [← e]; exact c
      simp [c, c']
    · have c' : notHex b = false := by rw [← e]; simpa using c
      have c'' : notHex a = false := by simpa using c
      simp only [List.find?_cons, c', c'']; exact ih

theorem getD_valEq {s s' : List UInt8} (h : Pointwise ValEq s s') :
    ∀ j : Nat, dv (s[j]?.getD 0) = dv (s'[j]?.getD 0) := by
  induction h with
  | nil => intro j; rfl
  | cons hab _ ih =>
    intro j
    cases j with
    | zero => simp only [dv]; simp; rw [hab]
    | succ j => simpa using ih j

theorem fromHex_valEq {s s' : List UInt8} (h : Pointwise ValEq s s') :
    (fromHex s').toOption = (fromHex s).toOption := by
  rw [fromHex_eq, fromHex_eq, h.length_eq]
  have hp : (fun k : Fin 32 => pairVal s' k.val) = (fun k : Fin 32 => pairVal s k.val) := by
    funext k
    simp only [pairVal, getD_valEq h]
  have hf := find_valEq h
  by_cases hl : s'.length = 64
  · simp only [hl, ne_eq, not_true_eq_false, if_false]
    cases h1 : s.find? notHex <;> cases h2 : s'.find? notHex <;> simp [h1, h2] at hf <;>
      simp [Outcome.toOption, hp]
  · simp [hl, Outcome.toOption]

/-! ## equality -/

theorem Hash.ext_bytes {a b : Hash} : a = b ↔ a.bytes = b.bytes := by
  cases a; cases b; simp

theorem fold_inv (a b : List UInt8) (hl : a.length = b.length) : ∀ n lo (acc : UInt8), lo + n = a.length →
    ∃ r, forCount (ε := Empty) (fun i tmp =>
      (idx a i).bind fun x => (idx b i).bind fun y => .ok (tmp ||| (x ^^^ y))) n lo acc = .ok r ∧
      (r = 0 ↔ acc = 0 ∧ ∀ j, lo ≤ j → j < a.length → a[j]? = b[j]?) := by
  intro n
  induction n with
  | zero =>
    intro lo acc h
    refine ⟨acc, rfl, ?_⟩
    constructor
    · intro h0; exact ⟨h0, fun j h1 h2 => by omega⟩
    · intro h0; exact h0.1
  | succ n ih =>
    intro lo acc h
    have h1 : lo < a.length := by omega
    have h2 : lo < b.length := by omega
    obtain ⟨r, hr, hiff⟩ := ih (lo + 1) (acc ||| (a[lo] ^^^ b[lo])) (by omega)
    refine ⟨r, ?_, ?_⟩
    · rw [forCount, idx_ok a lo h1, Outcome.ok_bind, idx_ok b lo h2, Outcome.ok_bind, Outcome.ok_bind]
      exact hr
    · rw [hiff, UInt8.or_eq_zero_iff, UInt8.xor_eq_zero_iff]
      constructor
      · rintro ⟨⟨h0, hx⟩, hrest⟩
        refine ⟨h0, fun j hj1 hj2 => ?_⟩
        by_cases e : j = lo
        · subst e; simp [h1, h2, hx]
        · exact hrest j (by omega) hj2
      · rintro ⟨h0, hall⟩
        refine ⟨⟨h0, ?_⟩, fun j hj1 hj2 => hall j (by omega) hj2⟩
        have := hall lo (Nat.le_refl _) h1
        simpa [h1, h2] using this

theorem list_eq_iff_getElem? (a b : List UInt8) (hl : a.length = b.length) :
    a = b ↔ ∀ j, 0 ≤ j → j < a.length → a[j]? = b[j]? := by
  constructor
  · intro h; subst h; intros; rfl
  · intro h
    apply List.ext_getElem? 
    intro j
    by_cases hj : j < a.length
    · exact h j (Nat.zero_le _) hj
    · have h1 : a.length ≤ j := by omega
      have h2 : b.length ≤ j := by omega
      simp [h1, h2]

theorem ctNe_spec (a b : List UInt8) (hl : a.length = b.length) :
    ∃ r, ctNe a b = .ok r ∧ (r = 0 ↔ a = b) := by
  obtain ⟨r, hr, hiff⟩ := fold_inv a b hl a.length 0 0 (by omega)
  refine ⟨r, ?_, ?_⟩
  · simp [ctNe, hl, forRange]; simpa [hl] using hr
  · rw [hiff, list_eq_iff_getElem? a b hl]; simp

theorem ctEqFold_eq (a b : List UInt8) : ctEqFold a b = .ok (decide (a = b)) := by
  unfold ctEqFold
  by_cases hl : a.length = b.length
  · obtain ⟨r, hr, hiff⟩ := ctNe_spec a b hl
    simp only [hl, beq_self_eq_true, if_true, hr, Outcome.ok_bind]
    congr 1
    by_cases e : a = b
    · simp [e, hiff.2 e]
    · have : r ≠ 0 := fun h0 => e (hiff.1 h0)
      simp [e, this]
  · have : a ≠ b := fun e => hl (by rw [e])
    simp [hl, this]

theorem ctEqFold32_eq (a b : Vector UInt8 32) : ctEqFold32 a b = .ok (decide (a = b)) := by
  unfold ctEqFold32
  obtain ⟨r, hr, hiff⟩ := fold_inv a.toList b.toList (by simp) 32 0 0 (by simp)
  simp only [forRange, Nat.sub_zero, hr, Outcome.ok_bind]
  congr 1
  have hab : a = b ↔ a.toList = b.toList := by
    constructor
    · intro h; rw [h]
    · intro h; exact Vector.toList_inj.1 h
  rw [list_eq_iff_getElem? _ _ (by simp)] at hab
  have hiff' : r = 0 ↔ a = b := by
    rw [hiff, hab]; simp
  by_cases e : a = b
  · simp [e, hiff'.2 e]
  · have : r ≠ 0 := fun h0 => e (hiff'.1 h0)
    simp [e, this]

/-- the fold algorithm meets the contract -/
def foldCtEq : CtEq where
  eq32 a b := match ctEqFold32 a b with | .ok r => r | _ => false
  eq a b := match ctEqFold a b with | .ok r => r | _ => false
  eq32_spec a b := by simp [ctEqFold32_eq]
  eq_spec a b := by simp [ctEqFold_eq]

/-- flipping one bit of one byte changes the array -/
theorem flip_ne (v : Vector UInt8 32) (i : Nat) (hi : i < 32) (k : Nat) (hk : k < 8) :
    v.set i (v[i] ^^^ (1 <<< UInt8.ofNat k)) hi ≠ v := by
  intro h
  have := congrArg (fun w : Vector UInt8 32 => w[i]) h
  simp only [Vector.getElem_set_self] at this
  have key : ∀ x : UInt8, ∀ k : Fin 8, x ^^^ (1 <<< UInt8.ofNat k.val) ≠ x := by
    apply forall_byte; decide +kernel
  exact key _ ⟨k, hk⟩ this

/-! ## JSON -/

def digitsVal (ds : List UInt8) (acc : Nat) : Nat := ds.foldl (fun a d => a * 10 + (d.toNat - 48)) acc

theorem takeDigits_append (ds : List UInt8) : ∀ (acc : Nat) (c : UInt8) (t : List UInt8),
    (∀ d ∈ ds, isDigit d = true) → isDigit c = false →
    takeDigits acc (ds ++ c :: t) = (digitsVal ds acc, c :: t) := by
  induction ds with
  | nil => intro acc c t _ hc; simp [takeDigits, hc, digitsVal]
  | cons d ds ih =>
    intro acc c t hd hc
    have h1 : isDigit d = true := hd d (by simp)
    have := ih (acc * 10 + (d.toNat - 48)) c t (fun x hx => hd x (by simp [hx])) hc
    simp [takeDigits, h1, this, digitsVal]

/-- shape of `itoa`'s output: `0`, or a non-zero digit followed by digits, with the right value -/
theorem decDigits_spec : ∀ b : UInt8,
    (b = 0 ∧ decDigits b = [0x30]) ∨
    (0x31 ≤ (decDigits b).headD 0 ∧ (decDigits b).headD 0 ≤ 0x39 ∧ decDigits b ≠ [] ∧
      (decDigits b).tail.all isDigit = true ∧
      digitsVal (decDigits b).tail (((decDigits b).headD 0).toNat - 48) = b.toNat) := by
  apply forall_byte; decide +kernel

/-- a separator: `,` or `]` -/
def isSep (c : UInt8) : Prop := c = 0x2C ∨ c = 0x5D

theorem parseU8_dec (b : UInt8) (c : UInt8) (t : List UInt8) (hc : isSep c) :
    parseU8 (decDigits b ++ c :: t) = some (b, c :: t) := by
  have hcd : isDigit c = false := by rcases hc with rfl | rfl <;> decide
  have hc1 : (c == 0x2E || c == 0x65 || c == 0x45) = false := by rcases hc with rfl | rfl <;> decide
  rcases decDigits_spec b with ⟨hb, hd⟩ | ⟨h1, h2, hne, hall, hval⟩
  · subst hb
    rw [hd]
    simp only [parseU8, List.cons_append, List.nil_append, beq_self_eq_true, if_true]
    have : (isDigit c || c == 0x2E || c == 0x65 || c == 0x45) = false := by
      rcases hc with rfl | rfl <;> decide
    simp [this]
  · cases hdd : decDigits b with
    | nil => exact absurd hdd hne
    | cons d ds =>
      rw [hdd] at h1 h2 hall hval
      simp only [List.headD_cons, List.tail_cons] at h1 h2 hall hval
      have hd0 : (d == 0x30) = false := by
        apply beq_false_of_ne
        intro e; subst e; exact absurd h1 (by decide)
      have hrange : (0x31 ≤ d && d ≤ 0x39) = true := by simp [h1, h2]
      have ht := takeDigits_append ds (d.toNat - 48) c t (by simpa [List.all_eq_true] using hall) hcd
      have hle : b.toNat ≤ 255 := by have := b.toNat_lt; omega
      simp only [parseU8, List.cons_append, hd0, hrange, if_true, ht, hval, hc1, hle]
      simp

theorem jsonElems_false_head (r : List UInt8) : ∃ c t, jsonElems false r = c :: t ∧ isSep c := by
  cases r with
  | nil => exact ⟨0x5D, [], rfl, Or.inr rfl⟩
  | cons b r => exact ⟨0x2C, decDigits b ++ jsonElems false r, by simp [jsonElems], Or.inl rfl⟩

theorem decDigits_head : ∀ b : UInt8, ∃ d ds, decDigits b = d :: ds ∧ isDigit d = true := by
  intro b
  rcases decDigits_spec b with ⟨_, hd⟩ | ⟨h1, h2, hne, _, _⟩
  · exact ⟨0x30, [], hd, by decide⟩
  · cases hdd : decDigits b with
    | nil => exact absurd hdd hne
    | cons d ds =>
      rw [hdd] at h1 h2
      simp only [List.headD_cons] at h1 h2
      refine ⟨d, ds, rfl, ?_⟩
      have : 0x30 ≤ d := UInt8.le_trans (by decide) h1
      simp [isDigit, this, h2]

theorem digit_facts : ∀ d : UInt8, isDigit d = true → isWs d = false ∧ (d == 0x5D) = false := by
  apply forall_byte; decide +kernel

theorem skipWs_cons (c : UInt8) (t : List UInt8) (h : isWs c = false) : skipWs (c :: t) = c :: t := by
  simp [skipWs, h]

theorem jsonTake_elems (l : List UInt8) : ∀ first, jsonTake l.length first (jsonElems first l) = some (l, [0x5D]) := by
  induction l with
  | nil => intro first; simp [jsonTake, jsonElems]
  | cons b r ih =>
    intro first
    obtain ⟨c, t, hct, hc⟩ := jsonElems_false_head r
    obtain ⟨d, ds, hdd, hd⟩ := decDigits_head b
    have hp := parseU8_dec b c t hc
    rw [← hct] at hp
    have ⟨hw, hb⟩ := digit_facts d hd
    cases first with
    | true =>
      have e : jsonElems true (b :: r) = d :: (ds ++ jsonElems false r) := by simp [jsonElems, hdd]
      have e' : d :: (ds ++ jsonElems false r) = decDigits b ++ jsonElems false r := by simp [hdd]
      rw [e]
      simp only [List.length_cons, jsonTake, skipWs_cons d _ hw, hb, if_true]
      simp [e', hp, ih false]
    | false =>
      have e : jsonElems false (b :: r) = 0x2C :: d :: (ds ++ jsonElems false r) := by simp [jsonElems, hdd]
      have e' : d :: (ds ++ jsonElems false r) = decDigits b ++ jsonElems false r := by simp [hdd]
      rw [e]
      simp only [List.length_cons, jsonTake, skipWs_cons 0x2C _ (by decide), skipWs_cons d _ hw, hb]
      simp [e', hp, ih false]

theorem vector_of_toList (v : Vector UInt8 32) (h : v.toList.toArray.size = 32) :
    (⟨v.toList.toArray, h⟩ : Vector UInt8 32) = v := by
  apply Vector.ext; intro i hi; simp

theorem jsonDec_enc (h : Hash) : jsonDec (jsonEnc h) = some h := by
  have T := jsonTake_elems h.bytes.toList true
  have hl : h.bytes.toList.length = 32 := by simp
  rw [hl] at T
  simp only [jsonDec, jsonEnc, skipWs_cons 0x5B _ (by decide), beq_self_eq_true, if_true, T]
  simp [skipWs, isWs, vector_of_toList]

/-! ## CBOR -/

theorem cborHead_u8 : ∀ b : UInt8,
    cborHead 0 b.toNat = if b.toNat ≤ 23 then [b] else [0x18, b] := by
  apply forall_byte; decide +kernel

theorem pullHdr_small (b : UInt8) (hb : b.toNat ≤ 23) (t : List UInt8) :
    pullHdr (b :: t) = some (.pos b.toNat, t) := by
  have h1 : b.toNat / 32 = 0 := by omega
  have h2 : b.toNat % 32 = b.toNat := by omega
  have h3 : b.toNat < 24 := by omega
  simp [pullHdr, h1, h2, h3]

theorem pullHdr_u8 (b : UInt8) (t : List UInt8) :
    pullHdr (0x18 :: b :: t) = some (.pos b.toNat, t) := by
  simp [pullHdr, beNat]

theorem cborU8_enc (b : UInt8) (t : List UInt8) : cborU8 (cborHead 0 b.toNat ++ t) = some (b, t) := by
  have hle : b.toNat ≤ 255 := by have := b.toNat_lt; omega
  rw [cborHead_u8]
  by_cases hb : b.toNat ≤ 23
  · simp [hb, cborU8, cborInteger, pullHdr_small b hb, hle]
  · simp [hb, cborU8, cborInteger, pullHdr_u8, hle]

def cborItems (l : List UInt8) : List UInt8 := l.flatMap fun (b : UInt8) => cborHead 0 b.toNat

theorem cborTake_items (l : List UInt8) : ∀ (k : Nat) (t : List UInt8),
    cborTake l.length (some (l.length + k)) (cborItems l ++ t) = some l := by
  induction l with
  | nil => intro k t; simp [cborTake]
  | cons b r ih =>
    intro k t
    have e : cborItems (b :: r) ++ t = cborHead 0 b.toNat ++ (cborItems r ++ t) := by
      simp [cborItems]
    have e2 : (b :: r).length + k = (r.length + k) + 1 := by simp; omega
    rw [e, e2]
    simp only [List.length_cons, cborTake, cborU8_enc, ih]

theorem cborDec_enc (h : Hash) : cborDec (cborEnc h) = some h := by
  have T := cborTake_items h.bytes.toList 0 []
  have hl : h.bytes.toList.length = 32 := by simp
  rw [hl] at T
  have e : cborEnc h = 0x98 :: 0x20 :: cborItems h.bytes.toList := by
    simp [cborEnc, cborItems]; rfl
  have hp : pullHdr (0x98 :: 0x20 :: cborItems h.bytes.toList) =
      some (.array (some 32), cborItems h.bytes.toList) := by
    simp [pullHdr, beNat]
  simp only [List.append_nil, Nat.add_zero] at T
  rw [cborDec, e]
  simp only [cborSeq, hp, T, hl, dite_true]
  simp [vector_of_toList]

theorem cborDec_legacy (h : Hash) : cborDec (cborLegacy h) = some h := by
  have hl : h.bytes.toList.length = 32 := by simp
  have e : cborLegacy h = 0x58 :: 0x20 :: h.bytes.toList := by
    simp [cborLegacy]; rfl
  have hp : pullHdr (0x58 :: 0x20 :: h.bytes.toList) = some (.bytes (some 32), h.bytes.toList) := by
    simp [pullHdr, beNat]
  have ht : h.bytes.toList.take 32 = h.bytes.toList := List.take_of_length_le (by omega)
  have hd : h.bytes.toList.drop 32 = [] := List.drop_of_length_le (by omega)
  have hs : ∀ n, cborSegs (n + 1) (0x58 :: 0x20 :: h.bytes.toList) 0 [] = some (h.bytes.toList, []) := by
    intro n
    rw [cborSegs, hp]
    simp [hl, ht, hd]
  rw [cborDec, e]
  rw [cborSeq, hp]
  simp only [hs, hl, Nat.le_refl, dite_true]
  cases h with | mk v =>
  congr 2
  apply Vector.ext; intro i hi
  simp [ht]

/-! ## the SSE2 path for 32 bytes -/
theorem nat_xor_eq_zero {a b : Nat} (h : a ^^^ b = 0) : a = b := by
  have : a ^^^ (a ^^^ b) = b := by rw [← Nat.xor_assoc, Nat.xor_self, Nat.zero_xor]
  rw [h, Nat.xor_zero] at this
  exact this

theorem lane_bit (x0 y0 x1 y1 : UInt8) :
    (((if x0 = y0 then (0xFF : UInt8) else 0x00) &&& (if x1 = y1 then (0xFF : UInt8) else 0x00)) >>> 7).toNat =
      if x0 = y0 ∧ x1 = y1 then 1 else 0 := by
  by_cases h0 : x0 = y0 <;> by_cases h1 : x1 = y1 <;> simp [h0, h1] <;> decide

theorem movemask_lanes : ∀ (n : Nat) (X0 Y0 X1 Y1 : List UInt8),
    X0.length = n → Y0.length = n → X1.length = n → Y1.length = n →
    movemaskEpi8 (andSi128 (cmpeqEpi8 X0 Y0) (cmpeqEpi8 X1 Y1)) ≤ 2 ^ n - 1 ∧
    (movemaskEpi8 (andSi128 (cmpeqEpi8 X0 Y0) (cmpeqEpi8 X1 Y1)) = 2 ^ n - 1 ↔ X0 = Y0 ∧ X1 = Y1) := by
  intro n
  induction n with
  | zero =>
    intro X0 Y0 X1 Y1 h0 h1 h2 h3
    simp only [List.length_eq_zero_iff] at h0 h1 h2 h3
    subst h0 h1 h2 h3
    simp [cmpeqEpi8, andSi128, movemaskEpi8]
  | succ n ih =>
    intro X0 Y0 X1 Y1 h0 h1 h2 h3
    match X0, Y0, X1, Y1, h0, h1, h2, h3 with
    | x0 :: X0, y0 :: Y0, x1 :: X1, y1 :: Y1, h0, h1, h2, h3 =>
      simp only [List.length_cons, Nat.add_right_cancel_iff] at h0 h1 h2 h3
      obtain ⟨hle, hiff⟩ := ih X0 Y0 X1 Y1 h0 h1 h2 h3
      have hp : 2 ^ (n + 1) = 2 * 2 ^ n := by rw [Nat.pow_succ]; omega
      have hpos : 0 < 2 ^ n := Nat.two_pow_pos n
      simp only [cmpeqEpi8, andSi128, List.zipWith_cons_cons, movemaskEpi8, lane_bit] at hle hiff ⊢
      simp only [List.cons.injEq]
      by_cases c : x0 = y0 ∧ x1 = y1
      · simp only [c, and_self, if_true, true_and]
        constructor
        · omega
        · rw [← hiff]; omega
      · simp only [c, if_false]
        constructor
        · omega
        · constructor
          · intro h; omega
          · intro h; exact absurd ⟨h.1.1, h.2.1⟩ c

theorem ctEqSse2_32_eq (a b : Vector UInt8 32) : ctEqSse2_32 a b = decide (a = b) := by
  have M := movemask_lanes 16 (a.toList.take 16) (b.toList.take 16) ((a.toList.drop 16).take 16)
    ((b.toList.drop 16).take 16) (by simp) (by simp) (by simp) (by simp)
  have hab : a = b ↔ a.toList.take 16 = b.toList.take 16 ∧
      (a.toList.drop 16).take 16 = (b.toList.drop 16).take 16 := by
    have ta : (a.toList.drop 16).take 16 = a.toList.drop 16 := List.take_of_length_le (by simp)
    have tb : (b.toList.drop 16).take 16 = b.toList.drop 16 := List.take_of_length_le (by simp)
    rw [ta, tb]
    constructor
    · intro h; subst h; exact ⟨rfl, rfl⟩
    · intro ⟨h1, h2⟩
      apply Vector.toList_inj.1
      rw [← List.take_append_drop 16 a.toList, ← List.take_append_drop 16 b.toList, h1, h2]
  unfold ctEqSse2_32
  simp only []
  rw [← hab] at M
  have hx : ∀ m : Nat, ((m ^^^ 0xFFFF) == 0) = decide (m = 0xFFFF) := by
    intro m
    by_cases h : m = 0xFFFF
    · subst h; simp
    · have : m ^^^ 0xFFFF ≠ 0 := fun h0 => h (nat_xor_eq_zero h0)
      simp [h, this]
  rw [hx]
  have e : (2 : Nat) ^ 16 - 1 = 0xFFFF := by decide
  rw [e] at M
  by_cases h : a = b
  · rw [M.2.2 h]; simp [h]
  · have : ¬ _ = 0xFFFF := fun h0 => h (M.2.1 h0)
    simp [h, this]
end B3.Hex
