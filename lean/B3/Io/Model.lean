/-
C11 - Reader, mmap and Write adapters hash exactly the bytes of their source.

Executable model of
  * the scripted reader of the Rust driver (/verif/harness/rs/src/main.rs, `struct ScriptReader`),
  * `copy_wide`                (/repo/src/io.rs),
  * `maybe_mmap_file`          (/repo/src/io.rs)  - decision logic only, over an abstract file,
  * `Hasher::update_reader`, `Hasher::update_mmap`, `Hasher::update_mmap_rayon`,
    `impl std::io::Write for Hasher` (/repo/src/lib.rs).

The model is generic in the hasher: `H` is the hasher state and `upd : H → List UInt8 → H` is
`Hasher::update`.  Nothing here depends on BLAKE3 itself; the link to the real hasher is
property C02 (`upd (upd h a) b = upd h (a ++ b)`, `upd h [] = h`), which appears as a hypothesis
of the theorems that need it.

Core + Std only.
-/

namespace B3.Io

/-- `let mut buffer = [0; 65536];` in `copy_wide` -/
def BUFFER : Nat := 65536

/-- `const MINIMUM_MMAP_SIZE: u64 = 16 * 1024;` -/
def MINIMUM_MMAP_SIZE : Nat := 16 * 1024

/-- `let seek_offset = MINIMUM_MMAP_SIZE - 1;` -/
def SEEK_OFFSET : Nat := MINIMUM_MMAP_SIZE - 1

/-! ## The scripted reader -/

/-- One entry of a reader script.  `data bs` = the reader will yield the bytes `bs` (over several
`read` calls when `bs` is longer than the caller's buffer); `interrupted` = one
`Err(ErrorKind::Interrupted)`; `fail kind` = one `Err(kind)` with `kind ≠ Interrupted`;
`eof` = one `Ok(0)`. -/
inductive ReadEvent where
  | data (bytes : List UInt8)
  | interrupted
  | fail (kind : String)
  | eof
  deriving Repr, DecidableEq, Inhabited

/-- What one call of `Read::read` returns.  `ok bs` stands for `Ok(bs.length)` together with the
bytes written to the front of the buffer. -/
inductive ReadResult where
  | ok (bytes : List UInt8)
  | interrupted
  | err (kind : String)
  deriving Repr, DecidableEq

/-- One `read(&mut buffer)` call on the scripted reader, `buf = buffer.len()`.

Mirror of `ScriptReader::read`.  The Rust state `(pending[ppos..], events[idx..])` is represented
by the single list `data pending[ppos..] :: events[idx..]` (pending bytes are always served before
the next event is looked at, which is exactly what a leading `data` event does):
  * exhausted script                → `Ok(0)`;
  * `d0` (empty data)               → skipped, the next event is examined in the same call;
  * data of `n ≤ buf` bytes         → `Ok(n)`;
  * data of `n > buf` bytes         → `Ok(buf)`, the remaining `n - buf` bytes stay pending;
  * `i` → `Err(Interrupted)`, `e` → `Err(kind)`, `z` → `Ok(0)`; each consumes its event. -/
def readCall (buf : Nat) : List ReadEvent → ReadResult × List ReadEvent
  | [] => (.ok [], [])
  | .data bs :: rest =>
      if bs.length = 0 then readCall buf rest
      else if bs.length ≤ buf then (.ok bs, rest)
      else (.ok (bs.take buf), .data (bs.drop buf) :: rest)
  | .interrupted :: rest => (.interrupted, rest)
  | .fail k :: rest => (.err k, rest)
  | .eof :: rest => (.ok [], rest)

/-- Termination measure of the read loop: every `read` call that does not end the loop either
consumes an event or shortens the pending data. -/
def weight : List ReadEvent → Nat
  | [] => 0
  | .data bs :: rest => bs.length + 1 + weight rest
  | _ :: rest => 1 + weight rest

theorem readCall_weight (buf : Nat) (evs : List ReadEvent) :
    weight (readCall buf evs).2 ≤ weight evs ∧
    ((readCall buf evs).1 ≠ .ok [] → weight (readCall buf evs).2 < weight evs) := by
  induction evs with
  | nil => simp [readCall]
  | cons e rest ih =>
    cases e with
    | data bs =>
      simp only [readCall]
      split
      · simp only [weight]; omega
      · split
        · simp only [weight]; omega
        · simp only [weight, List.length_drop]
          refine ⟨by omega, fun h => ?_⟩
          have : buf ≠ 0 := by
            intro hb; subst hb; simp at h
          omega
    | interrupted => simp [readCall, weight]
    | fail k => simp [readCall, weight]
    | eof => simp [readCall, weight]

/-! ## `copy_wide` -/

section Copy
variable {H : Type} (upd : H → List UInt8 → H)

set_option linter.unusedVariables false in
/-- The loop of `copy_wide` with a buffer of `buf` bytes:

```rust
loop {
    match reader.read(&mut buffer) {
        Ok(0) => return Ok(total),
        Ok(n) => { hasher.update(&buffer[..n]); total += n as u64; }
        Err(e) if e.kind() == io::ErrorKind::Interrupted => continue,
        Err(e) => return Err(e),
    }
}
```

Returns the hasher, the `io::Result<u64>` and the reader state left behind.

`total` is a `Nat` here.  The Rust variable is a `u64`; it equals the model value as long as the
number of bytes read is below `2^64` (the partial sums are monotone, so the final value bounds all
of them).  No input of that size can be produced, so the wrap/overflow-panic is not modelled. -/
def copyLoop (buf : Nat) (evs : List ReadEvent) (h : H) (total : Nat) :
    H × Except String Nat × List ReadEvent :=
  match hr : readCall buf evs with
  | (.ok [], rest) => (h, .ok total, rest)
  | (.ok (b :: bs), rest) => copyLoop buf rest (upd h (b :: bs)) (total + (b :: bs).length)
  | (.interrupted, rest) => copyLoop buf rest h total
  | (.err k, rest) => (h, .error k, rest)
termination_by weight evs
decreasing_by
  · have := (readCall_weight buf evs).2; rw [hr] at this; exact this (by simp)
  · have := (readCall_weight buf evs).2; rw [hr] at this; exact this (by simp)

/-- `copy_wide(reader, hasher)`: 65536-byte buffer, `total = 0`. -/
def copyWide (evs : List ReadEvent) (h : H) : H × Except String Nat × List ReadEvent :=
  copyLoop upd BUFFER evs h 0

/-- `Hasher::update_reader`: `io::copy_wide(reader, self)?; Ok(self)` - the total is dropped. -/
def updateReader (evs : List ReadEvent) (h : H) : H × Except String Unit :=
  let r := copyWide upd evs h
  (r.1, r.2.1.map fun _ => ())

end Copy

/-! ## `maybe_mmap_file`, `update_mmap`, `update_mmap_rayon` -/

/-- Result of `file.seek(SeekFrom::End(-(16384 - 1)))`. -/
inductive SeekResult where
  | err
  | ok (offsetLen : Nat)
  deriving Repr, DecidableEq

/-- What `maybe_mmap_file` can observe of an open file. -/
structure FileEnv where
  /-- cursor when `maybe_mmap_file` is entered (0 for a freshly opened file; debug builds assert it) -/
  initialCursor : Nat := 0
  /-- `file.seek(SeekFrom::End(-16383))`; on `ok p` the cursor is moved to `p` -/
  seekEnd : SeekResult
  /-- does `MmapOptions::new().len(len).map(&file)` succeed -/
  mapOk : Nat → Bool
  /-- `file.rewind()`: `none` = success, `some kind` = the error -/
  rewindErr : Option String := none
  /-- `isize::MAX` of the target -/
  isizeMax : Nat := 2 ^ 63 - 1

inductive MmapPlan where
  /-- `Ok(Some(mmap))` with `mmap.len() = len` -/
  | mapped (len : Nat)
  /-- `Ok(None)`; the caller does ordinary reads starting at `cursor` -/
  | fallbackRead (cursor : Nat)
  /-- `Err(_)` (only from the final `rewind`) -/
  | err (kind : String)
  deriving Repr, DecidableEq

/-- Decision logic of `maybe_mmap_file`. -/
def mmapPlan (env : FileEnv) : MmapPlan :=
  match env.seekEnd with
  | .err => .fallbackRead env.initialCursor          -- `return Ok(None)`, cursor untouched
  | .ok offsetLen =>
    if offsetLen = 0 then .fallbackRead 0            -- the seek itself put the cursor at 0
    else if offsetLen ≤ env.isizeMax - SEEK_OFFSET ∧ env.mapOk (offsetLen + SEEK_OFFSET) then
      .mapped (offsetLen + SEEK_OFFSET)
    else match env.rewindErr with                    -- `file.rewind()?; Ok(None)`
      | none => .fallbackRead 0
      | some k => .err k

section Mmap
variable {H : Type}

/-- An opened file as seen by `update_mmap`: what `maybe_mmap_file` observes, the bytes a mapping
would show, and the `read` behaviour of `&File` when reading starts at a given cursor. -/
structure OpenFile where
  env : FileEnv
  contents : List UInt8
  readerAt : Nat → List ReadEvent

/-- Body of `update_mmap` / `update_mmap_rayon` after a successful `File::open`.
`updMapped` is what is applied to the mapping: `update` for `update_mmap`, `update_rayon` for
`update_mmap_rayon`; the fallback path uses `copy_wide` (hence `update`) in both. -/
def updateMmapFile (updMapped upd : H → List UInt8 → H) (f : OpenFile) (h : H) : H × Except String Unit :=
  match mmapPlan f.env with
  | .mapped len => (updMapped h (f.contents.take len), .ok ())
  | .fallbackRead c => updateReader upd (f.readerAt c) h
  | .err k => (h, .error k)

/-- `update_mmap(path)` / `update_mmap_rayon(path)`: `File::open(path)?` first. -/
def updateMmap (updMapped upd : H → List UInt8 → H) (opened : Except String OpenFile) (h : H) :
    H × Except String Unit :=
  match opened with
  | .error k => (h, .error k)
  | .ok f => updateMmapFile updMapped upd f h

/-- The driver's `H updfile`: `File::open(path)` then `update_reader(file)` from cursor 0. -/
def updateFile (upd : H → List UInt8 → H) (opened : Except String OpenFile) (h : H) : H × Except String Unit :=
  match opened with
  | .error k => (h, .error k)
  | .ok f => updateReader upd (f.readerAt 0) h

end Mmap

/-! ## `impl std::io::Write for Hasher` -/

section Write
variable {H : Type} (upd : H → List UInt8 → H)

/-- `fn write(&mut self, input) { self.update(input); Ok(input.len()) }` -/
def write (h : H) (input : List UInt8) : H × Except String Nat :=
  (upd h input, .ok input.length)

/-- `fn flush(&mut self) { Ok(()) }` -/
def flush (h : H) : H × Except String Unit := (h, .ok ())

/-- The provided method `Write::write_all` of std, run on top of a `write` function:
```rust
while !buf.is_empty() {
    match self.write(buf) {
        Ok(0) => return Err(WriteZero),
        Ok(n) => buf = &buf[n..],
        Err(ref e) if e.is_interrupted() => {}
        Err(e) => return Err(e),
    }
}
Ok(())
```
(`fuel` bounds the number of iterations; `buf.length + 1` always suffices for a `write` that
never fails, see `write_all_spec`.) -/
def writeAllWith (wr : H → List UInt8 → H × Except String Nat) : Nat → H → List UInt8 → H × Except String Unit
  | 0, h, _ => (h, .error "fuel")
  | fuel + 1, h, buf =>
    if buf.isEmpty then (h, .ok ())
    else match wr h buf with
      | (h', .ok 0) => (h', .error "WriteZero")
      | (h', .ok n) => writeAllWith wr fuel h' (buf.drop n)
      | (h', .error "Interrupted") => writeAllWith wr fuel h' buf
      | (h', .error k) => (h', .error k)

def writeAll (h : H) (buf : List UInt8) : H × Except String Unit :=
  writeAllWith (write upd) (buf.length + 1) h buf

end Write

/-! ## Specification vocabulary (used by `B3.Io.Props`) -/

/-- events that do not end the loop of `copy_wide` -/
def ReadEvent.continues : ReadEvent → Bool
  | .data _ => true
  | .interrupted => true
  | _ => false

def ReadEvent.bytes : ReadEvent → List UInt8
  | .data bs => bs
  | _ => []

/-- the events strictly before the first `fail`/`eof` (all of them if there is none) -/
def liveEvents (evs : List ReadEvent) : List ReadEvent := evs.takeWhile ReadEvent.continues

/-- the bytes the reader yields before the first `fail`/`eof` -/
def dataBefore (evs : List ReadEvent) : List UInt8 := (liveEvents evs).flatMap ReadEvent.bytes

/-- `bs` cut into consecutive pieces of `buf` bytes (the last one may be shorter); no piece for `[]` -/
def pieces (buf : Nat) (bs : List UInt8) : List (List UInt8) :=
  if bs.length = 0 then []
  else if bs.length ≤ buf ∨ buf = 0 then [bs]
  else bs.take buf :: pieces buf (bs.drop buf)
termination_by bs.length
decreasing_by simp only [List.length_drop]; omega

/-- the successive arguments of `Hasher::update` made by `copy_wide` -/
def chunks (buf : Nat) (evs : List ReadEvent) : List (List UInt8) :=
  (liveEvents evs).flatMap fun e => pieces buf e.bytes

/-- the first event that is a `fail` or an `eof`, if any -/
def stopper (evs : List ReadEvent) : Option ReadEvent := (evs.dropWhile ReadEvent.continues).head?

/-- the `io::Result<u64>` of `copy_wide` -/
def outcome (evs : List ReadEvent) : Except String Nat :=
  match stopper evs with
  | some (.fail k) => .error k
  | _ => .ok (dataBefore evs).length

/-- the reader script left over: everything after the first `fail`/`eof` -/
def remaining (evs : List ReadEvent) : List ReadEvent := (evs.dropWhile ReadEvent.continues).drop 1

/-- "a `fail` precedes the first `eof` / the end of the script" -/
def FailsFirst (evs : List ReadEvent) : Prop :=
  ∃ pre k post, evs = pre ++ ReadEvent.fail k :: post ∧ ∀ e ∈ pre, e.continues = true

/-- Assumption about a regular file of length `L`, freshly opened:
`lseek(fd, -16383, SEEK_END)` fails with EINVAL iff the target offset `L - 16383` is negative and
returns it otherwise; `rewind` (`lseek(fd, 0, SEEK_SET)`) succeeds. -/
structure RegularFile (env : FileEnv) (L : Nat) : Prop where
  fresh : env.initialCursor = 0
  seek : env.seekEnd = if L < SEEK_OFFSET then .err else .ok (L - SEEK_OFFSET)
  rewind : env.rewindErr = none

/-- Assumption about ordinary reads of a file whose bytes are `contents`: started at cursor `c`,
the reader yields exactly `contents.drop c` (in any pattern of short reads and `Interrupted`s)
and then reports end of file, without an error before it. -/
structure FaithfulReads (f : OpenFile) : Prop where
  bytes : ∀ c, dataBefore (f.readerAt c) = f.contents.drop c
  noFail : ∀ c, ¬ FailsFirst (f.readerAt c)

end B3.Io
