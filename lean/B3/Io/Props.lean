import B3.Io.Proofs

/-!
C11 - property theorems.  Every theorem is followed by an `example` showing that it is not
vacuous, and by `#print axioms` at the end of the file.

Vocabulary (all defined in `B3.Io.Model` by `takeWhile`/`dropWhile`/`flatMap`):
`liveEvents evs` = the events before the first `fail`/`eof`, `dataBefore evs` = their bytes,
`chunks buf evs` = those bytes cut, event by event, into pieces of at most `buf` bytes,
`outcome evs` = `error k` if the first `fail`/`eof` is `fail k`, else `ok (dataBefore evs).length`,
`remaining evs` = the script after that first `fail`/`eof`.
-/

namespace B3.Io

section
variable {H : Type} (upd : H → List UInt8 → H)

/-! ## copy_wide -/

/-- The loop of `copy_wide` for any non-zero buffer size. -/
theorem copy_loop_spec (buf : Nat) (hb : 0 < buf) (evs : List ReadEvent) (h : H) (t : Nat) :
    copyLoop upd buf evs h t =
      ((chunks buf evs).foldl upd h,
       (match outcome evs with | .ok n => .ok (t + n) | .error k => .error k),
       remaining evs) :=
  copyLoop_spec upd buf (by omega) evs h t

/-- `copy_wide`, for every reader script and every hasher:
* the hasher receives exactly the calls `update(c)` for `c` in `chunks 65536 evs`, in order;
* every such `c` is non-empty and at most 65536 bytes long, and their concatenation is the data the
  reader yields before the first `fail`/`eof`;
* the result is `Err(k)` iff `fail k` precedes the first `eof`/the end of the script, and otherwise
  `Ok(number of bytes yielded)`;
* the reader is left exactly after that first `fail`/`eof` (nothing further is read). -/
theorem copy_wide_spec (evs : List ReadEvent) (h : H) :
    copyWide upd evs h = ((chunks BUFFER evs).foldl upd h, outcome evs, remaining evs)
    ∧ (∀ c ∈ chunks BUFFER evs, c ≠ [] ∧ c.length ≤ BUFFER)
    ∧ (chunks BUFFER evs).flatten = dataBefore evs
    ∧ (∀ k, outcome evs = .error k ↔
          ∃ pre post, evs = pre ++ ReadEvent.fail k :: post ∧ ∀ e ∈ pre, e.continues = true)
    ∧ ((∃ k, outcome evs = .error k) ↔ FailsFirst evs)
    ∧ (¬ FailsFirst evs → outcome evs = .ok (dataBefore evs).length) := by
  refine ⟨?_, ?_, chunks_flatten _ _, outcome_error_iff evs, (failsFirst_iff evs).symm,
    outcome_ok_of_not_failsFirst evs⟩
  · rw [copyWide, copyLoop_spec upd BUFFER (by decide), outcomeFrom_zero]
  · intro c hc
    exact ⟨chunks_ne_nil _ _ c hc, chunks_length_le _ (by decide) _ c hc⟩

/-- the sizes of the successive `update` calls for one data event: full buffers, then the rest -/
theorem copy_wide_piece_sizes (bs : List UInt8) :
    (pieces BUFFER bs).map List.length =
      List.replicate (bs.length / BUFFER) BUFFER ++
        (if bs.length % BUFFER = 0 then [] else [bs.length % BUFFER]) :=
  pieces_lengths BUFFER (by decide) bs

/-- `update_reader` = `copy_wide` with the total dropped. -/
theorem update_reader_spec (evs : List ReadEvent) (h : H) :
    updateReader upd evs h =
      ((chunks BUFFER evs).foldl upd h, (outcome evs).map fun _ => ()) := by
  simp [updateReader, (copy_wide_spec upd evs h).1]

/-- Deleting every `interrupted` event changes neither the hasher nor the result, and the reader
is left at the corresponding place. -/
theorem copy_wide_interrupted_transparent (evs : List ReadEvent) (h : H) :
    let keep := fun e : ReadEvent => decide (e ≠ ReadEvent.interrupted)
    (copyWide upd (evs.filter keep) h).1 = (copyWide upd evs h).1
    ∧ (copyWide upd (evs.filter keep) h).2.1 = (copyWide upd evs h).2.1
    ∧ (copyWide upd (evs.filter keep) h).2.2 = (copyWide upd evs h).2.2.filter keep := by
  intro keep
  have hk : keep = notInterrupted := by
    funext e; cases e <;> simp [keep, notInterrupted]
  rw [hk, (copy_wide_spec upd evs h).1, (copy_wide_spec upd _ h).1]
  simp [chunks_filter, outcome_filter, remaining_filter]

/-- Under C02 (`update` is a monoid action of byte strings) the way the data is cut into reads is
irrelevant: the hasher has absorbed exactly the bytes yielded before the first `fail`/`eof`. -/
theorem copy_wide_split_irrelevant
    (hcat : ∀ h a b, upd (upd h a) b = upd h (a ++ b)) (hnil : ∀ h, upd h [] = h)
    (evs : List ReadEvent) (h : H) :
    (copyWide upd evs h).1 = upd h (dataBefore evs) := by
  rw [(copy_wide_spec upd evs h).1]
  simp only []
  rw [foldl_upd_flatten upd hcat hnil, chunks_flatten]

/-- consequence: two readers yielding the same bytes before their first `fail`/`eof` leave the
hasher in the same state, whatever their short-read / `Interrupted` patterns. -/
theorem copy_wide_depends_on_bytes_only
    (hcat : ∀ h a b, upd (upd h a) b = upd h (a ++ b)) (hnil : ∀ h, upd h [] = h)
    (evs evs' : List ReadEvent) (hd : dataBefore evs = dataBefore evs') (h : H) :
    (copyWide upd evs h).1 = (copyWide upd evs' h).1 := by
  rw [copy_wide_split_irrelevant upd hcat hnil, copy_wide_split_irrelevant upd hcat hnil, hd]

end

/-! ### non-vacuity: concrete runs (hasher = the list of `update` arguments) -/

-- short reads, an Interrupted, an empty data event, then an error: both pieces absorbed, Err returned,
-- the event after the error is not read
example :
    copyWide recUpd [.data [1, 2], .interrupted, .data [], .data [3], .fail "Other", .data [4]] [] =
      ([[1, 2], [3]], .error "Other", [.data [4]]) := by
  rw [(copy_wide_spec recUpd _ _).1]
  simp [recUpd, pieces_fits, pieces_nil, BUFFER, outcome]

-- end of file: Ok(total)
example :
    copyWide recUpd [.data [1, 2], .data [3], .eof, .fail "Other"] [] =
      ([[1, 2], [3]], .ok 3, [.fail "Other"]) := by
  rw [(copy_wide_spec recUpd _ _).1]
  simp [recUpd, pieces_fits, BUFFER, outcome]

-- a data event larger than the buffer is delivered in pieces (buffer of 2 bytes)
example :
    copyLoop recUpd 2 [.data [1, 2, 3, 4, 5], .interrupted] [] 0 =
      ([[1, 2], [3, 4], [5]], .ok 5, []) := by
  rw [copy_loop_spec recUpd 2 (by decide)]
  have h1 : pieces 2 [1, 2, 3, 4, 5] = [[1, 2], [3, 4], [5]] := by
    rw [pieces_split _ _ (by decide) (by decide)]
    simp only [List.take, List.drop]
    rw [pieces_split _ _ (by decide) (by decide)]
    simp only [List.take, List.drop]
    rw [pieces_fits _ _ (by decide) (by decide)]
  simp [h1, recUpd, outcome]

-- 70000 bytes through the real 65536-byte buffer: update(65536 bytes) then update(4464 bytes)
example : (pieces BUFFER (List.replicate 70000 7)).map List.length = [65536, 4464] := by
  rw [copy_wide_piece_sizes, List.length_replicate]; decide

-- the error clause has instances on both sides
example : FailsFirst [.data [1], .interrupted, .fail "Other", .eof] :=
  ⟨[.data [1], .interrupted], "Other", [.eof], rfl, by simp [ReadEvent.continues]⟩

example : ¬ FailsFirst [.data [1], .eof, .fail "Other"] := by
  rw [failsFirst_iff]; simp [outcome]

-- interrupted-transparency on a script that has interrupts in every position
example :
    (copyWide recUpd [.interrupted, .data [1], .interrupted, .interrupted, .data [2], .interrupted, .eof] []).1 =
      (copyWide recUpd [.data [1], .data [2], .eof] []).1 :=
  ((copy_wide_interrupted_transparent recUpd
    [.interrupted, .data [1], .interrupted, .interrupted, .data [2], .interrupted, .eof] []).1).symm

-- the C02 hypotheses are satisfiable (and `recUpd` shows they are needed: it distinguishes splits)
example : (∀ h a b, catUpd (catUpd h a) b = catUpd h (a ++ b)) ∧ (∀ h, catUpd h [] = h) := by
  simp [catUpd]

example : (copyWide catUpd [.data [1], .interrupted, .data [2, 3], .fail "Other", .data [9]] [0]).1 = [0, 1, 2, 3] := by
  rw [copy_wide_split_irrelevant catUpd (by simp [catUpd]) (by simp [catUpd])]
  simp [catUpd]

example : (copyWide recUpd [.data [1], .data [2]] []).1 ≠ (copyWide recUpd [.data [1, 2]] []).1 := by
  rw [(copy_wide_spec recUpd _ _).1, (copy_wide_spec recUpd _ _).1]
  simp [recUpd, pieces_fits, BUFFER]

/-! ## maybe_mmap_file / update_mmap / update_mmap_rayon -/

/-- For a freshly opened regular file of length `L`: the file is mapped iff `L ≥ 16384` (and the
mapping is possible at all: `L ≤ isize::MAX` and the `mmap` call succeeds), the mapping then covers
exactly `L` bytes; in every other case the caller falls back to ordinary reads with the cursor at
0.  In particular `L = 16383` (seek succeeds with offset 0) is NOT mapped, `L = 16384` is. -/
theorem mmap_plan_spec (env : FileEnv) (L : Nat) (hreg : RegularFile env L) :
    mmapPlan env =
      if MINIMUM_MMAP_SIZE ≤ L ∧ L ≤ env.isizeMax ∧ env.mapOk L = true then .mapped L
      else .fallbackRead 0 := by
  have hS : SEEK_OFFSET = 16383 := rfl
  have hM : MINIMUM_MMAP_SIZE = 16384 := rfl
  unfold mmapPlan
  rw [hreg.seek, hreg.fresh, hreg.rewind, hS, hM]
  by_cases h1 : L < 16383
  · rw [if_pos h1, if_neg (fun h => absurd h.1 (by omega))]
  · rw [if_neg h1]
    simp only []
    by_cases h2 : L - 16383 = 0
    · rw [if_pos h2, if_neg (fun h => absurd h.1 (by omega))]
    · rw [if_neg h2]
      have h4 : L - 16383 + 16383 = L := by omega
      rw [h4]
      by_cases h5 : L ≤ env.isizeMax ∧ env.mapOk L = true
      · rw [if_pos ⟨by omega, h5.2⟩, if_pos ⟨by omega, h5⟩]
      · rw [if_neg (fun h => h5 ⟨by omega, h.2⟩), if_neg (fun h => h5 h.2)]

/-- The threshold, when nothing prevents mapping. -/
theorem mmap_plan_threshold (env : FileEnv) (L : Nat) (hreg : RegularFile env L)
    (hfit : L ≤ env.isizeMax) (hmap : env.mapOk L = true) :
    (16384 ≤ L → mmapPlan env = .mapped L) ∧ (L < 16384 → mmapPlan env = .fallbackRead 0) := by
  rw [mmap_plan_spec env L hreg]
  simp only [MINIMUM_MMAP_SIZE, hfit, hmap]
  constructor
  · intro h; simp [h]
  · intro h
    have : ¬ 16 * 1024 ≤ L := by omega
    simp [this]

/-- A regular file whose mapping fails (or is too long for the address space) is read normally from 0. -/
theorem mmap_plan_unmappable (env : FileEnv) (L : Nat) (hreg : RegularFile env L)
    (hno : env.mapOk L = false ∨ env.isizeMax < L) : mmapPlan env = .fallbackRead 0 := by
  rw [mmap_plan_spec env L hreg]
  rcases hno with h | h
  · simp [h]
  · have : ¬ L ≤ env.isizeMax := by omega
    simp [this]

/-- Files on which the seek fails (pipes, `/proc` files, anything shorter than 16383 bytes) or
returns 0 (`/dev/null`, `/dev/random`, length exactly 16383) are never mapped and are read from the
cursor position they were opened with. -/
theorem mmap_plan_special (env : FileEnv)
    (hseek : env.seekEnd = .err ∨ env.seekEnd = .ok 0) (hfresh : env.initialCursor = 0) :
    mmapPlan env = .fallbackRead 0 := by
  unfold mmapPlan
  rcases hseek with h | h <;> simp [h, hfresh]

section
variable {H : Type} (updMapped upd : H → List UInt8 → H)

/-- `update_mmap` (`updMapped = update`) and `update_mmap_rayon` (`updMapped = update_rayon`,
which is `update` by C03/C04) on a freshly opened regular file, whatever its length and whether or
not the mapping succeeds, give the same hasher and result as `update_reader` on it, namely
`update(contents)` and `Ok`.  Hypotheses: C02 for `upd`; the file is regular and its ordinary
reads are faithful (`FaithfulReads`); nobody changes the file meanwhile (`contents` is one value). -/
theorem update_mmap_eq_update_reader
    (hmapped : ∀ h x, updMapped h x = upd h x)
    (hcat : ∀ h a b, upd (upd h a) b = upd h (a ++ b)) (hnil : ∀ h, upd h [] = h)
    (f : OpenFile) (hreg : RegularFile f.env f.contents.length) (hreads : FaithfulReads f) (h : H) :
    updateMmapFile updMapped upd f h = (upd h f.contents, .ok ())
    ∧ updateReader upd (f.readerAt 0) h = (upd h f.contents, .ok ()) := by
  have hrd : updateReader upd (f.readerAt 0) h = (upd h f.contents, .ok ()) := by
    have h1 := copy_wide_split_irrelevant upd hcat hnil (f.readerAt 0) h
    have h2 := (copy_wide_spec upd (f.readerAt 0) h).1
    have h3 := outcome_ok_of_not_failsFirst _ (hreads.noFail 0)
    rw [hreads.bytes 0] at h1
    simp only [List.drop_zero] at h1
    unfold updateReader
    simp only []
    rw [h1, h2]
    simp [h3, Except.map]
  refine ⟨?_, hrd⟩
  unfold updateMmapFile
  rw [mmap_plan_spec f.env _ hreg]
  by_cases hc : MINIMUM_MMAP_SIZE ≤ f.contents.length ∧ f.contents.length ≤ f.env.isizeMax ∧
      f.env.mapOk f.contents.length = true
  · rw [if_pos hc]
    simp [hmapped]
  · rw [if_neg hc]
    exact hrd

/-- Path level: `update_mmap(path)` = `File::open(path)` + `update_reader`, including the case
where the open fails (missing file, permission): the error is returned and the hasher untouched. -/
theorem update_mmap_path_eq_update_file
    (hmapped : ∀ h x, updMapped h x = upd h x)
    (hcat : ∀ h a b, upd (upd h a) b = upd h (a ++ b)) (hnil : ∀ h, upd h [] = h)
    (opened : Except String OpenFile)
    (hreg : ∀ f, opened = .ok f → RegularFile f.env f.contents.length ∧ FaithfulReads f) (h : H) :
    updateMmap updMapped upd opened h = updateFile upd opened h := by
  cases opened with
  | error k => rfl
  | ok f =>
    obtain ⟨h1, h2⟩ := hreg f rfl
    obtain ⟨h3, h4⟩ := update_mmap_eq_update_reader updMapped upd hmapped hcat hnil f h1 h2 h
    simp only [updateMmap, updateFile, h3, h4]

/-- Special files: when the seek fails or returns 0 the mmap entry points ARE `update_reader`
(no hypothesis on the file's contents or on `upd` is needed). -/
theorem update_mmap_special_eq_update_reader (f : OpenFile)
    (hseek : f.env.seekEnd = .err ∨ f.env.seekEnd = .ok 0) (hfresh : f.env.initialCursor = 0) (h : H) :
    updateMmapFile updMapped upd f h = updateReader upd (f.readerAt 0) h := by
  unfold updateMmapFile
  rw [mmap_plan_special f.env hseek hfresh]

end

/-! ### non-vacuity -/

example : mmapPlan (regularEnv 0) = .fallbackRead 0 := by
  rw [mmap_plan_spec _ 0 (regularEnv_regular 0)]; decide
example : mmapPlan (regularEnv 16382) = .fallbackRead 0 := by
  rw [mmap_plan_spec _ 16382 (regularEnv_regular _)]; decide
example : mmapPlan (regularEnv 16383) = .fallbackRead 0 := by
  rw [mmap_plan_spec _ 16383 (regularEnv_regular _)]; decide
example : mmapPlan (regularEnv 16384) = .mapped 16384 := by
  rw [mmap_plan_spec _ 16384 (regularEnv_regular _)]; decide
example : mmapPlan (regularEnv 16385) = .mapped 16385 := by
  rw [mmap_plan_spec _ 16385 (regularEnv_regular _)]; decide
-- directly by evaluation of the model as well
example : mmapPlan (regularEnv 16383) = .fallbackRead 0 ∧ mmapPlan (regularEnv 16384) = .mapped 16384 := by
  decide
-- an unmappable regular file (e.g. /sys/kernel/btf/vmlinux): rewind and read
example : mmapPlan { regularEnv 100000 with mapOk := fun _ => false } = .fallbackRead 0 := by decide
-- 32-bit target, 3 GiB file
example : mmapPlan { regularEnv (3 * 2 ^ 30) with isizeMax := 2 ^ 31 - 1 } = .fallbackRead 0 := by decide
-- a directory on Linux: the seek "succeeds" with 2^63-1-16383, the length check passes with equality,
-- the mmap of isize::MAX bytes fails, rewind, and the first read then reports IsADirectory
example :
    mmapPlan { seekEnd := .ok (2 ^ 63 - 1 - 16383), mapOk := fun _ => false } = .fallbackRead 0
    ∧ (updateReader catUpd [.fail "IsADirectory"] [1, 2]) = ([1, 2], .error "IsADirectory") := by
  refine ⟨by decide, ?_⟩
  rw [update_reader_spec]; simp [outcome, Except.map]
-- a failing rewind is the only error
example : mmapPlan { regularEnv 100000 with mapOk := fun _ => false, rewindErr := some "Other" } = .err "Other" := by
  decide

example (contents : List UInt8) (h : List UInt8) :
    updateMmapFile catUpd catUpd (regularFile contents) h = (h ++ contents, .ok ())
    ∧ updateReader catUpd ((regularFile contents).readerAt 0) h = (h ++ contents, .ok ()) :=
  update_mmap_eq_update_reader catUpd catUpd (fun _ _ => rfl) (by simp [catUpd]) (by simp [catUpd])
    (regularFile contents) (regularEnv_regular _) (regularFile_faithful contents) h

-- missing file: both entry points return the open error and leave the hasher alone
example (h : List UInt8) :
    updateMmap catUpd catUpd (.error "NotFound") h = (h, .error "NotFound")
    ∧ updateFile catUpd (.error "NotFound") h = (h, .error "NotFound") := ⟨rfl, rfl⟩

-- a /proc-style file: the seek fails, reads deliver the text in two pieces
example :
    updateMmapFile catUpd catUpd
      { env := { seekEnd := .err, mapOk := fun _ => false }, contents := [], readerAt := fun _ => [.data [76, 105], .data [110], .eof] } [] =
      updateReader catUpd [.data [76, 105], .data [110], .eof] [] :=
  update_mmap_special_eq_update_reader catUpd catUpd _ (Or.inl rfl) rfl []

/-! ## impl Write for Hasher -/

section
variable {H : Type} (upd : H → List UInt8 → H)

/-- `Write::write` consumes the whole buffer: it returns `Ok(buf.len())` and the state is
`update(buf)`; `flush` does nothing. -/
theorem write_consumes_all (h : H) (buf : List UInt8) :
    write upd h buf = (upd h buf, .ok buf.length) ∧ flush h = (h, .ok ()) := ⟨rfl, rfl⟩

/-- hence std's `write_all` makes exactly one `write` call for a non-empty buffer and none for an
empty one, never reports `WriteZero`, and leaves the hasher at `update(buf)`. -/
theorem write_all_spec (h : H) (buf : List UInt8) :
    writeAll upd h buf = (if buf = [] then h else upd h buf, .ok ()) := by
  cases buf with
  | nil => simp [writeAll, writeAllWith]
  | cons b bs =>
    simp [writeAll, writeAllWith, write]

end

example : write recUpd [] [1, 2, 3] = ([[1, 2, 3]], .ok 3) := rfl
example : writeAll recUpd [] [1, 2, 3] = ([[1, 2, 3]], .ok ()) := by
  rw [write_all_spec]; simp [recUpd]
example : writeAll recUpd [[9]] [] = ([[9]], .ok ()) := by
  rw [write_all_spec]; simp

end B3.Io

#print axioms B3.Io.copy_loop_spec
#print axioms B3.Io.copy_wide_spec
#print axioms B3.Io.copy_wide_piece_sizes
#print axioms B3.Io.update_reader_spec
#print axioms B3.Io.copy_wide_interrupted_transparent
#print axioms B3.Io.copy_wide_split_irrelevant
#print axioms B3.Io.copy_wide_depends_on_bytes_only
#print axioms B3.Io.mmap_plan_spec
#print axioms B3.Io.mmap_plan_threshold
#print axioms B3.Io.mmap_plan_unmappable
#print axioms B3.Io.mmap_plan_special
#print axioms B3.Io.update_mmap_eq_update_reader
#print axioms B3.Io.update_mmap_path_eq_update_file
#print axioms B3.Io.update_mmap_special_eq_update_reader
#print axioms B3.Io.write_consumes_all
#print axioms B3.Io.write_all_spec
