import B3.Io.Model

/-! Helper lemmas for `B3.Io.Props` (C11). -/

set_option linter.unusedSimpArgs false

namespace B3.Io

/-! ### unfolding equations of the read loop -/

section
variable {H : Type} (upd : H → List UInt8 → H)

theorem copyLoop_of_ok_nil {buf : Nat} {evs rest : List ReadEvent} (h : H) (t : Nat)
    (hr : readCall buf evs = (.ok [], rest)) : copyLoop upd buf evs h t = (h, .ok t, rest) := by
  rw [copyLoop]; split <;> simp_all

theorem copyLoop_of_ok_cons {buf : Nat} {evs rest : List ReadEvent} {b : UInt8} {bs : List UInt8} (h : H) (t : Nat)
    (hr : readCall buf evs = (.ok (b :: bs), rest)) :
    copyLoop upd buf evs h t = copyLoop upd buf rest (upd h (b :: bs)) (t + (b :: bs).length) := by
  rw [copyLoop]; split <;> simp_all

theorem copyLoop_of_interrupted {buf : Nat} {evs rest : List ReadEvent} (h : H) (t : Nat)
    (hr : readCall buf evs = (.interrupted, rest)) : copyLoop upd buf evs h t = copyLoop upd buf rest h t := by
  rw [copyLoop]; split <;> simp_all

theorem copyLoop_of_err {buf : Nat} {evs rest : List ReadEvent} {k : String} (h : H) (t : Nat)
    (hr : readCall buf evs = (.err k, rest)) : copyLoop upd buf evs h t = (h, .error k, rest) := by
  rw [copyLoop]; split <;> simp_all

theorem copyLoop_nil (buf : Nat) (h : H) (t : Nat) :
    copyLoop upd buf [] h t = (h, .ok t, []) :=
  copyLoop_of_ok_nil upd h t (by simp [readCall])

theorem copyLoop_eof (buf : Nat) (r : List ReadEvent) (h : H) (t : Nat) :
    copyLoop upd buf (.eof :: r) h t = (h, .ok t, r) :=
  copyLoop_of_ok_nil upd h t (by simp [readCall])

theorem copyLoop_fail (buf : Nat) (k : String) (r : List ReadEvent) (h : H) (t : Nat) :
    copyLoop upd buf (.fail k :: r) h t = (h, .error k, r) :=
  copyLoop_of_err upd h t (by simp [readCall])

theorem copyLoop_interrupted (buf : Nat) (r : List ReadEvent) (h : H) (t : Nat) :
    copyLoop upd buf (.interrupted :: r) h t = copyLoop upd buf r h t :=
  copyLoop_of_interrupted upd h t (by simp [readCall])

theorem copyLoop_data_nil (buf : Nat) (r : List ReadEvent) (h : H) (t : Nat) :
    copyLoop upd buf (.data [] :: r) h t = copyLoop upd buf r h t := by
  rw [copyLoop, copyLoop.eq_def upd buf r]; simp [readCall]

theorem copyLoop_data_fits (buf : Nat) (bs : List UInt8) (r : List ReadEvent) (h : H) (t : Nat)
    (h0 : bs.length ≠ 0) (h1 : bs.length ≤ buf) :
    copyLoop upd buf (.data bs :: r) h t = copyLoop upd buf r (upd h bs) (t + bs.length) := by
  cases bs with
  | nil => simp at h0
  | cons b bs => exact copyLoop_of_ok_cons upd h t (by simp only [readCall, h0, h1, if_true, if_false])

theorem copyLoop_data_split (buf : Nat) (bs : List UInt8) (r : List ReadEvent) (h : H) (t : Nat)
    (hb : buf ≠ 0) (h1 : ¬ bs.length ≤ buf) :
    copyLoop upd buf (.data bs :: r) h t =
      copyLoop upd buf (.data (bs.drop buf) :: r) (upd h (bs.take buf)) (t + buf) := by
  have h0 : bs.length ≠ 0 := by omega
  have hlen : (bs.take buf).length = buf := by rw [List.length_take]; omega
  cases htk : bs.take buf with
  | nil => rw [htk] at hlen; simp at hlen; omega
  | cons b bs' =>
    have hr : readCall buf (.data bs :: r) = (.ok (b :: bs'), .data (bs.drop buf) :: r) := by
      simp only [readCall, h0, h1, if_false, htk]
    rw [copyLoop_of_ok_cons upd h t hr, ← htk, hlen]

/-- with a zero-length buffer the first `read` returns `Ok(0)` (not reachable: the buffer is 65536) -/
theorem copyLoop_data_buf0 (bs : List UInt8) (r : List ReadEvent) (h : H) (t : Nat)
    (h0 : bs.length ≠ 0) :
    copyLoop upd 0 (.data bs :: r) h t = (h, .ok t, .data bs :: r) := by
  have h1 : ¬ bs.length ≤ 0 := by omega
  exact copyLoop_of_ok_nil upd h t (by simp only [readCall, h0, h1, if_false, List.take_zero, List.drop_zero])

end

/-! ### pieces -/

theorem pieces_nil (buf : Nat) : pieces buf [] = [] := by
  rw [pieces]; simp

theorem pieces_fits (buf : Nat) (bs : List UInt8) (h0 : bs.length ≠ 0) (h1 : bs.length ≤ buf) :
    pieces buf bs = [bs] := by
  rw [pieces]; simp [h0, h1]

theorem pieces_split (buf : Nat) (bs : List UInt8) (hb : buf ≠ 0) (h1 : ¬ bs.length ≤ buf) :
    pieces buf bs = bs.take buf :: pieces buf (bs.drop buf) := by
  rw [pieces]
  have h0 : bs.length ≠ 0 := by omega
  simp [h0, h1, hb]

theorem pieces_flatten (buf : Nat) (bs : List UInt8) : (pieces buf bs).flatten = bs := by
  fun_induction pieces buf bs with
  | case1 bs h => simp [List.length_eq_zero_iff.mp h]
  | case2 => simp
  | case3 bs _ _ ih => simp [ih]

theorem pieces_ne_nil (buf : Nat) (bs : List UInt8) : ∀ c ∈ pieces buf bs, c ≠ [] := by
  fun_induction pieces buf bs with
  | case1 => simp
  | case2 bs h0 _ => intro c hc; simp at hc; subst hc; intro h; simp [h] at h0
  | case3 bs h0 h1 ih =>
    intro c hc
    simp only [List.mem_cons] at hc
    rcases hc with hc | hc
    · subst hc; intro h
      have := congrArg List.length h
      rw [List.length_take] at this
      simp only [List.length_nil] at this
      omega
    · exact ih c hc

theorem pieces_length_le (buf : Nat) (hb : buf ≠ 0) (bs : List UInt8) :
    ∀ c ∈ pieces buf bs, c.length ≤ buf := by
  fun_induction pieces buf bs with
  | case1 => simp
  | case2 bs h0 h1 => intro c hc; simp at hc; subst hc; omega
  | case3 bs h0 h1 ih =>
    intro c hc
    simp only [List.mem_cons] at hc
    rcases hc with hc | hc
    · subst hc; simp; omega
    · exact ih c hc

/-- all pieces except possibly the last are full buffers -/
theorem pieces_lengths (buf : Nat) (hb : buf ≠ 0) (bs : List UInt8) :
    (pieces buf bs).map List.length =
      List.replicate (bs.length / buf) buf ++ (if bs.length % buf = 0 then [] else [bs.length % buf]) := by
  fun_induction pieces buf bs with
  | case1 bs h0 => simp [h0]
  | case2 bs h0 h1 =>
    have h1 : bs.length ≤ buf := by omega
    by_cases he : bs.length = buf
    · simp [he, Nat.div_self (Nat.pos_of_ne_zero hb)]
    · have hlt : bs.length < buf := by omega
      simp [Nat.div_eq_of_lt hlt, Nat.mod_eq_of_lt hlt, h0]
  | case3 bs h0 h1 ih =>
    have hgt : buf ≤ bs.length := by omega
    have hlen : (bs.take buf).length = buf := by simp; omega
    simp only [List.map_cons, ih, hlen, List.length_drop]
    have hd : bs.length / buf = (bs.length - buf) / buf + 1 := by
      rw [Nat.div_eq_sub_div (Nat.pos_of_ne_zero hb) hgt]
    have hm : bs.length % buf = (bs.length - buf) % buf := by
      rw [Nat.mod_eq_sub_mod hgt]
    rw [hd, hm, List.replicate_succ, List.cons_append]

/-! ### the data event as a whole -/

section
variable {H : Type} (upd : H → List UInt8 → H)

theorem copyLoop_data (buf : Nat) (hb : buf ≠ 0) (bs : List UInt8) (r : List ReadEvent) :
    ∀ (h : H) (t : Nat),
      copyLoop upd buf (.data bs :: r) h t =
        copyLoop upd buf r ((pieces buf bs).foldl upd h) (t + bs.length) := by
  fun_induction pieces buf bs with
  | case1 bs h0 =>
    intro h t
    have : bs = [] := List.length_eq_zero_iff.mp h0
    subst this
    simp [copyLoop_data_nil]
  | case2 bs h0 h1 =>
    intro h t
    have h1 : bs.length ≤ buf := by omega
    simp [copyLoop_data_fits upd buf bs r h t h0 h1]
  | case3 bs h0 h1 ih =>
    intro h t
    have h1' : ¬ bs.length ≤ buf := by omega
    rw [copyLoop_data_split upd buf bs r h t hb h1', ih]
    simp only [List.foldl_cons, List.length_drop]
    congr 1
    omega

end

/-! ### specification vocabulary -/

@[simp] theorem liveEvents_nil : liveEvents [] = [] := rfl
@[simp] theorem liveEvents_data (bs) (r) : liveEvents (.data bs :: r) = .data bs :: liveEvents r := by
  simp [liveEvents, List.takeWhile_cons, ReadEvent.continues]
@[simp] theorem liveEvents_interrupted (r) : liveEvents (.interrupted :: r) = .interrupted :: liveEvents r := by
  simp [liveEvents, List.takeWhile_cons, ReadEvent.continues]
@[simp] theorem liveEvents_fail (k) (r) : liveEvents (.fail k :: r) = [] := by
  simp [liveEvents, List.takeWhile_cons, ReadEvent.continues]
@[simp] theorem liveEvents_eof (r) : liveEvents (.eof :: r) = [] := by
  simp [liveEvents, List.takeWhile_cons, ReadEvent.continues]

@[simp] theorem dataBefore_nil : dataBefore [] = [] := rfl
@[simp] theorem dataBefore_data (bs) (r) : dataBefore (.data bs :: r) = bs ++ dataBefore r := by
  simp [dataBefore, ReadEvent.bytes]
@[simp] theorem dataBefore_interrupted (r) : dataBefore (.interrupted :: r) = dataBefore r := by
  simp [dataBefore, ReadEvent.bytes]
@[simp] theorem dataBefore_fail (k) (r) : dataBefore (.fail k :: r) = [] := by simp [dataBefore]
@[simp] theorem dataBefore_eof (r) : dataBefore (.eof :: r) = [] := by simp [dataBefore]

@[simp] theorem chunks_nil (buf) : chunks buf [] = [] := rfl
@[simp] theorem chunks_data (buf) (bs) (r) : chunks buf (.data bs :: r) = pieces buf bs ++ chunks buf r := by
  simp [chunks, ReadEvent.bytes]
@[simp] theorem chunks_interrupted (buf) (r) : chunks buf (.interrupted :: r) = chunks buf r := by
  simp [chunks, ReadEvent.bytes, pieces_nil]
@[simp] theorem chunks_fail (buf) (k) (r) : chunks buf (.fail k :: r) = [] := by simp [chunks]
@[simp] theorem chunks_eof (buf) (r) : chunks buf (.eof :: r) = [] := by simp [chunks]

@[simp] theorem stopper_nil : stopper [] = none := rfl
@[simp] theorem stopper_data (bs) (r) : stopper (.data bs :: r) = stopper r := by
  simp [stopper, List.dropWhile_cons, ReadEvent.continues]
@[simp] theorem stopper_interrupted (r) : stopper (.interrupted :: r) = stopper r := by
  simp [stopper, List.dropWhile_cons, ReadEvent.continues]
@[simp] theorem stopper_fail (k) (r) : stopper (.fail k :: r) = some (.fail k) := by
  simp [stopper, List.dropWhile_cons, ReadEvent.continues]
@[simp] theorem stopper_eof (r) : stopper (.eof :: r) = some .eof := by
  simp [stopper, List.dropWhile_cons, ReadEvent.continues]

@[simp] theorem remaining_nil : remaining [] = [] := rfl
@[simp] theorem remaining_data (bs) (r) : remaining (.data bs :: r) = remaining r := by
  simp [remaining, List.dropWhile_cons, ReadEvent.continues]
@[simp] theorem remaining_interrupted (r) : remaining (.interrupted :: r) = remaining r := by
  simp [remaining, List.dropWhile_cons, ReadEvent.continues]
@[simp] theorem remaining_fail (k) (r) : remaining (.fail k :: r) = r := by
  simp [remaining, List.dropWhile_cons, ReadEvent.continues]
@[simp] theorem remaining_eof (r) : remaining (.eof :: r) = r := by
  simp [remaining, List.dropWhile_cons, ReadEvent.continues]

/-- `outcome` shifted by the running total -/
def outcomeFrom (t : Nat) (evs : List ReadEvent) : Except String Nat :=
  match outcome evs with
  | .ok n => .ok (t + n)
  | .error k => .error k

theorem outcomeFrom_zero (evs) : outcomeFrom 0 evs = outcome evs := by
  unfold outcomeFrom; split <;> simp_all

theorem outcomeFrom_data (t) (bs) (r) :
    outcomeFrom t (.data bs :: r) = outcomeFrom (t + bs.length) r := by
  simp only [outcomeFrom, outcome, stopper_data, dataBefore_data, List.length_append]
  cases hs : stopper r with
  | none => simp [Nat.add_assoc]
  | some e => cases e <;> simp [Nat.add_assoc]

theorem outcomeFrom_interrupted (t) (r) : outcomeFrom t (.interrupted :: r) = outcomeFrom t r := by
  simp [outcomeFrom, outcome]

/-! ### the loop as a whole -/

section
variable {H : Type} (upd : H → List UInt8 → H)

theorem copyLoop_spec (buf : Nat) (hb : buf ≠ 0) (evs : List ReadEvent) :
    ∀ (h : H) (t : Nat),
      copyLoop upd buf evs h t = ((chunks buf evs).foldl upd h, outcomeFrom t evs, remaining evs) := by
  induction evs with
  | nil => intro h t; simp [copyLoop_nil, outcomeFrom, outcome]
  | cons e r ih =>
    intro h t
    cases e with
    | data bs => rw [copyLoop_data upd buf hb, ih]; simp [outcomeFrom_data]
    | interrupted => rw [copyLoop_interrupted, ih]; simp [outcomeFrom_interrupted]
    | fail k => simp [copyLoop_fail, outcomeFrom, outcome]
    | eof => simp [copyLoop_eof, outcomeFrom, outcome]

end

theorem chunks_flatten (buf : Nat) (evs : List ReadEvent) : (chunks buf evs).flatten = dataBefore evs := by
  induction evs with
  | nil => simp
  | cons e r ih => cases e <;> simp [ih, pieces_flatten]

theorem chunks_ne_nil (buf : Nat) (evs : List ReadEvent) : ∀ c ∈ chunks buf evs, c ≠ [] := by
  induction evs with
  | nil => simp
  | cons e r ih =>
    cases e with
    | data bs =>
      intro c hc
      simp only [chunks_data, List.mem_append] at hc
      rcases hc with hc | hc
      · exact pieces_ne_nil buf bs c hc
      · exact ih c hc
    | interrupted => simpa using ih
    | fail k => simp
    | eof => simp

theorem chunks_length_le (buf : Nat) (hb : buf ≠ 0) (evs : List ReadEvent) :
    ∀ c ∈ chunks buf evs, c.length ≤ buf := by
  induction evs with
  | nil => simp
  | cons e r ih =>
    cases e with
    | data bs =>
      intro c hc
      simp only [chunks_data, List.mem_append] at hc
      rcases hc with hc | hc
      · exact pieces_length_le buf hb bs c hc
      · exact ih c hc
    | interrupted => simpa using ih
    | fail k => simp
    | eof => simp

theorem outcome_error_cons (e : ReadEvent) (r : List ReadEvent) (k : String) (he : e.continues = true) :
    outcome (e :: r) = .error k ↔ outcome r = .error k := by
  cases e with
  | data bs =>
    simp only [outcome, stopper_data]
    cases hs : stopper r with
    | none => simp
    | some e => cases e <;> simp
  | interrupted => simp [outcome]
  | fail k' => simp [ReadEvent.continues] at he
  | eof => simp [ReadEvent.continues] at he

/-- `outcome` is an error exactly when a `fail` comes before the first `eof`/end of script -/
theorem outcome_error_iff (evs : List ReadEvent) (k : String) :
    outcome evs = .error k ↔
      ∃ pre post, evs = pre ++ ReadEvent.fail k :: post ∧ ∀ e ∈ pre, e.continues = true := by
  induction evs with
  | nil => simp [outcome]
  | cons e r ih =>
    by_cases hc : e.continues = true
    · rw [outcome_error_cons e r k hc]
      constructor
      · intro h
        obtain ⟨pre, post, hr, hp⟩ := ih.mp h
        exact ⟨e :: pre, post, by simp [hr], by
          intro x hx; simp only [List.mem_cons] at hx
          rcases hx with hx | hx
          · subst hx; exact hc
          · exact hp x hx⟩
      · rintro ⟨pre, post, hr, hp⟩
        cases pre with
        | nil =>
          simp only [List.nil_append, List.cons.injEq] at hr
          rw [hr.1] at hc; simp [ReadEvent.continues] at hc
        | cons p pre =>
          simp only [List.cons_append, List.cons.injEq] at hr
          exact ih.mpr ⟨pre, post, hr.2, fun x hx => hp x (List.mem_cons_of_mem _ hx)⟩
    · constructor
      · intro h
        cases e with
        | data bs => simp [ReadEvent.continues] at hc
        | interrupted => simp [ReadEvent.continues] at hc
        | fail k' =>
          simp [outcome] at h
          subst h
          exact ⟨[], r, rfl, by simp⟩
        | eof => simp [outcome] at h
      · rintro ⟨pre, post, hr, hp⟩
        cases pre with
        | nil =>
          simp only [List.nil_append, List.cons.injEq] at hr
          rw [hr.1]; simp [outcome]
        | cons p pre =>
          simp only [List.cons_append, List.cons.injEq] at hr
          have := hp p (by simp)
          rw [← hr.1] at this
          exact absurd this hc

theorem outcome_cases (evs : List ReadEvent) :
    (∃ k, outcome evs = .error k) ∨ outcome evs = .ok (dataBefore evs).length := by
  unfold outcome; split <;> simp

theorem failsFirst_iff (evs : List ReadEvent) : FailsFirst evs ↔ ∃ k, outcome evs = .error k := by
  constructor
  · rintro ⟨pre, k, post, h1, h2⟩
    exact ⟨k, (outcome_error_iff evs k).mpr ⟨pre, post, h1, h2⟩⟩
  · rintro ⟨k, h⟩
    obtain ⟨pre, post, h1, h2⟩ := (outcome_error_iff evs k).mp h
    exact ⟨pre, k, post, h1, h2⟩

theorem outcome_ok_of_not_failsFirst (evs : List ReadEvent) (h : ¬ FailsFirst evs) :
    outcome evs = .ok (dataBefore evs).length := by
  rcases outcome_cases evs with hk | hk
  · exact absurd ((failsFirst_iff evs).mpr hk) h
  · exact hk

/-! ### removing the `interrupted` events -/

def notInterrupted : ReadEvent → Bool
  | .interrupted => false
  | _ => true

theorem chunks_filter (buf : Nat) (evs : List ReadEvent) :
    chunks buf (evs.filter notInterrupted) = chunks buf evs := by
  induction evs with
  | nil => rfl
  | cons e r ih => cases e <;> simp [List.filter_cons, notInterrupted, ih]

theorem dataBefore_filter (evs : List ReadEvent) :
    dataBefore (evs.filter notInterrupted) = dataBefore evs := by
  induction evs with
  | nil => rfl
  | cons e r ih => cases e <;> simp [List.filter_cons, notInterrupted, ih]

theorem stopper_filter (evs : List ReadEvent) :
    stopper (evs.filter notInterrupted) = stopper evs := by
  induction evs with
  | nil => rfl
  | cons e r ih => cases e <;> simp [List.filter_cons, notInterrupted, ih]

theorem outcome_filter (evs : List ReadEvent) :
    outcome (evs.filter notInterrupted) = outcome evs := by
  simp [outcome, stopper_filter, dataBefore_filter]

theorem remaining_filter (evs : List ReadEvent) :
    remaining (evs.filter notInterrupted) = (remaining evs).filter notInterrupted := by
  induction evs with
  | nil => rfl
  | cons e r ih => cases e <;> simp [List.filter_cons, notInterrupted, ih]

/-! ### folding `upd` over pieces under the C02 hypothesis -/

section
variable {H : Type} (upd : H → List UInt8 → H)

theorem foldl_upd_flatten
    (hcat : ∀ h a b, upd (upd h a) b = upd h (a ++ b)) (hnil : ∀ h, upd h [] = h)
    (cs : List (List UInt8)) : ∀ h, cs.foldl upd h = upd h cs.flatten := by
  induction cs with
  | nil => intro h; simp [hnil]
  | cons c cs ih => intro h; simp [ih, hcat]

end

/-! ### witness objects for the non-vacuity examples in `B3.Io.Props` -/

/-- a hasher that records its `update` calls -/
def recUpd (h : List (List UInt8)) (c : List UInt8) : List (List UInt8) := h ++ [c]

/-- a hasher that concatenates its input: satisfies the C02 hypotheses -/
def catUpd (h : List UInt8) (c : List UInt8) : List UInt8 := h ++ c

/-- the observable behaviour of a regular file of length `L` on which mmap works -/
def regularEnv (L : Nat) : FileEnv :=
  { seekEnd := if L < SEEK_OFFSET then .err else .ok (L - SEEK_OFFSET), mapOk := fun _ => true }

theorem regularEnv_regular (L : Nat) : RegularFile (regularEnv L) L := ⟨rfl, rfl, rfl⟩

/-- a regular file with the given contents, read back as one `Interrupted`, the rest of the file, end of file -/
def regularFile (contents : List UInt8) : OpenFile :=
  { env := regularEnv contents.length
    contents := contents
    readerAt := fun c => [.interrupted, .data (contents.drop c), .eof] }

theorem regularFile_faithful (contents : List UInt8) : FaithfulReads (regularFile contents) := by
  constructor
  · intro c; simp [regularFile]
  · intro c; rw [failsFirst_iff]; simp [regularFile, outcome]

end B3.Io
