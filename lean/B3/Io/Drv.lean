import B3.Io.Model

/-!
Line driver for the C11 model: reads the `H updrd` / `H updrdx` lines of the Rust driver protocol
and prints what the model predicts for them (other lines give `-`).

Output per reader line: `<ok|err:Kind> <read calls> <events consumed> <undelivered bytes> cnt=<bytes absorbed> sizes=<update sizes>`.
The first four fields are what the Rust op `H updrdx` prints; `cnt` is the increase of `H cnt`.

The byte values are irrelevant to these outputs, so data events are filled with zeros.
-/

namespace B3.Io.Drv
open B3.Io

/-- hasher stand-in: number of bytes absorbed and the sizes of the `update` calls (reversed) -/
structure Rec where
  count : Nat := 0
  sizes : List Nat := []

def Rec.upd (h : Rec) (bs : List UInt8) : Rec := { count := h.count + bs.length, sizes := bs.length :: h.sizes }

/-- `s<len>:<seed>:<k>` = consecutive data events of at most `k` bytes (at least one event) -/
def shortPieces (n k : Nat) : List ReadEvent :=
  if n ≤ k ∨ k = 0 then [.data (List.replicate n 0)]
  else .data (List.replicate k 0) :: shortPieces (n - k) k
termination_by n
decreasing_by omega

/-- one protocol event → model events (`none` = malformed, the Rust driver panics) -/
def parseEvent (s : String) : Option (List ReadEvent) :=
  let kind := s.take 1
  let rest := (s.drop 1).toString
  if kind == "d" then
    match rest.splitOn ":" with
    | [n, seed] => do let n ← n.toNat?; let _ ← seed.toNat?; pure [.data (List.replicate n 0)]
    | _ => none
  else if kind == "s" then
    match rest.splitOn ":" with
    | [n, seed, k] => do
      let n ← n.toNat?; let _ ← seed.toNat?; let k ← k.toNat?
      if k = 0 then none else pure (shortPieces n k)
    | _ => none
  else if s == "i" then some [.interrupted]
  else if s == "z" then some [.eof]
  else if s == "e" then some [.fail "Other"]
  else if kind == "e" && rest.startsWith ":" then some [.fail (rest.drop 1).toString]
  else none

def countInterrupted (evs : List ReadEvent) : Nat :=
  (evs.filter fun e => e == ReadEvent.interrupted).length

def predict (toks : List String) : String :=
  match toks.mapM parseEvent with
  | none => "PANIC"
  | some groups =>
    let evs := groups.flatten
    let (h, res, rest) := copyWide Rec.upd evs ({} : Rec)
    let resS := match res with
      | .ok _ => "ok"
      | .error k => "err:" ++ k
    let total := match res with
      | .ok n => toString n
      | .error _ => "-"
    -- the read calls: one per update, one per Interrupted consumed, one for the final Ok(0)/Err
    let calls := h.sizes.length + (countInterrupted evs - countInterrupted rest) + 1
    -- locate `rest` on an event boundary of the original script
    let suffixLens := (List.range (groups.length + 1)).map fun j => ((groups.drop j).flatten.length, j)
    let (consumed, undelivered) := match suffixLens.find? (fun p => p.1 == rest.length) with
      | some (_, j) => (toString j, "0")
      | none => ("?", "?")
    let sizes := ",".intercalate (h.sizes.reverse.map toString)
    s!"{resS} {calls} {consumed} {undelivered} cnt={h.count} total={total} sizes={sizes}"

def stepLine (toks : List String) : String :=
  match toks with
  | "H" :: "updrd" :: _ :: evs => predict evs
  | "H" :: "updrdx" :: _ :: evs => predict evs
  | _ => "-"

end B3.Io.Drv
