/-
Primitive vocabulary of the translation of the dispatch layers (`gen/ext_plat.py` -> `B3/Gen/Dispatch.lean`):
src/platform.rs, c/blake3_dispatch.c, src/ffi_*.rs.  Hand-written and small on purpose: this file (with
`Prim.lean`, `Arith.lean`, `RustRt.lean`, `CMem.lean`) is the trusted mapping.

* A Rust `#[cfg(..)]` / `cfg!(..)` predicate and a C `#if` condition are both a `Cfg` term, evaluated in a
  `Build` (which flags are set).  For Rust `.flag n` is the bare cfg name `n` (`miri`, `unix`, `blake3_neon`)
  and `.kv k v` is `k = "v"` (`target_arch = "x86"`, `feature = "no_avx2"`); for C `.flag n` is `defined(n)`
  and `.kv n "1"` is `n == 1`.  `any(a, b, c)` / `a || b || c` is `.or a (.or b c)`, `any()` is `.ff`.
* Code whose only effect is to `return` from the middle (`Platform::detect`, the `*_detected` functions, the C
  dispatch functions) is a chain of `Option`s: `none` = "fell through to the next statement",
  `some v` = "returned v"; `first` is sequential composition.
* A `match self { .. }` over `Platform` is the list of its arms in source order (`Arm`: the `|` patterns, the
  `#[cfg]`s on the arm, the body); `select` picks the first arm that exists in the build and matches - exactly
  what rustc does after cfg-stripping.
-/
import B3.Prim
import B3.Arith
import B3.RustRt
import B3.CMem
namespace B3.Dispatch
open B3

/-! ### build configuration -/

inductive Cfg where
  | flag (name : String)
  | kv (key value : String)
  | tt
  | ff
  | and (a b : Cfg)
  | or (a b : Cfg)
  | not (a : Cfg)
deriving DecidableEq, Repr

/-- which cfg names / key-value pairs (Rust) or macros (C) are set -/
structure Build where
  flag : String → Bool
  kv : String → String → Bool

def Cfg.eval (b : Build) : Cfg → Bool
  | .flag n => b.flag n
  | .kv k v => b.kv k v
  | .tt => true
  | .ff => false
  | .and x y => x.eval b && y.eval b
  | .or x y => x.eval b || y.eval b
  | .not x => !x.eval b

/-- stacked attributes `#[cfg(a)] #[cfg(b)]`: all must hold -/
def Build.on (b : Build) (cs : List Cfg) : Bool := cs.all (Cfg.eval b)

/-! ### statements that may return -/

/-- a statement list: the first statement that returns decides -/
def first {α : Type} : List (Option α) → Option α
  | [] => none
  | some a :: _ => some a
  | none :: rest => first rest

/-- `#[cfg(..)] { body }` (Rust) / `#if .. body #endif` (C) -/
def cfgBlock {α : Type} (b : Build) (cs : List Cfg) (body : Option α) : Option α := if b.on cs then body else none

/-- `#if c  t  #else  e  #endif` -/
def cfgIfElse {α : Type} (b : Build) (c : Cfg) (t e : Option α) : Option α := if c.eval b then t else e

/-- `if c { body }` -/
def ifThen {α : Type} (c : Bool) (body : Option α) : Option α := if c then body else none

/-! ### `match self` over a generated enum -/

structure Arm (P α : Type) where
  pats : List P          -- `A | B`; `[]` is the wildcard `_`
  cfgs : List Cfg
  body : α
deriving Repr

def Arm.applies {P α : Type} [BEq P] (b : Build) (p : P) (a : Arm P α) : Bool :=
  b.on a.cfgs && (a.pats.isEmpty || a.pats.contains p)

/-- the arm `match p { arms }` takes in build `b`: the first one that was not cfg-stripped and whose pattern matches -/
def select {P α : Type} [BEq P] (b : Build) (arms : List (Arm P α)) (p : P) : Option α :=
  (arms.find? (Arm.applies b p)).map (·.body)

/-- a call expression: path segments of the callee (`crate::sse2::hash_many` = `["crate", "sse2", "hash_many"]`), the
argument expressions as written (whitespace removed), and whether the call sits in an `unsafe{..}` block -/
structure RCall where
  path : List String
  args : List String
  isUnsafe : Bool
deriving DecidableEq, Repr

/-- body of a dispatch arm: one call, or (the `_` arm of `xof_many`) the portable loop translated separately -/
inductive RBody where
  | call (c : RCall)
  | loop
deriving DecidableEq, Repr

/-- the module a call goes to (`crate::sse2::hash_many` -> `sse2`) and the function name -/
def RCall.module (c : RCall) : Option String := c.path.dropLast.getLast?
def RCall.fn (c : RCall) : Option String := c.path.getLast?

/-! ### C dispatch functions -/

structure CCall where
  fn : String
  args : List String
deriving DecidableEq, Repr

/-- what a C dispatch function does on one path through it -/
inductive Act where
  | ret                 -- `return;`
  | val (n : Nat)       -- `return n;`
  | call (c : CCall)    -- `f(args); return;`  (or `f(args);` as the last statement)
  | loop                -- reaches the portable `for` loop (translated separately)
deriving DecidableEq, Repr

/-- `x & mask` as a C condition -/
def hasBits (x mask : Nat) : Bool := x &&& mask != 0

/-- `(int)x` for a `uint32_t` (two's complement, what gcc / clang / msvc do) -/
def intOfU32 (x : UInt32) : Int := if x.toNat < 2147483648 then (x.toNat : Int) else (x.toNat : Int) - 4294967296

/-- the four registers written by `cpuid` -/
abbrev Regs := Vector UInt32 4

/-! ### Rust byte / word conversions -/

/-- `array_ref!(s, off, len)` = `&s[off..off + len]` as an array reference -/
def arrayRef {α : Type} (s : List α) (off len : Nat) : R (List α) :=
  if off + len ≤ s.length then .ok ((s.drop off).take len) else .panic

/-- `*array_mut_ref!(s, off, len) = src` with `src : [T; len']`: a length mismatch is a type error in Rust, here a panic -/
def arrayMutRefSet {α : Type} (s : List α) (off len : Nat) (src : List α) : R (List α) :=
  if off + len ≤ s.length ∧ src.length = len then .ok (s.take off ++ src ++ s.drop (off + len)) else .panic

/-! ### FFI wrappers (src/ffi_*.rs) -/

/-- one wrapper function, as written: all expressions are source text with whitespace removed -/
structure FfiFn where
  file : String
  name : String
  kind : String                        -- "wrapper" (Rust -> C symbol) | "export" (`extern "C" fn` implemented in Rust)
  cfgs : List Cfg
  params : List (String × String)      -- name, type
  ret : String                         -- "" = unit
  asserts : List String                -- `assert!` conditions (checked in release builds)
  debugAsserts : List String
  locals : List (String × String)      -- `let` name, initialiser
  callee : String
  args : List String
  result : String                      -- the tail expression; "" = none
  order : List String                  -- statement kinds in source order: assert | let | call | result
deriving DecidableEq, Repr

end B3.Dispatch
