/-
C05 (assembly, AVX-512, Windows x64 calling convention) - property theorems: the hand-written assembly routines
`blake3_compress_in_place_avx512` and `blake3_compress_xof_avx512` of c/blake3_avx512_x86-64_windows_gnu.S, as
instruction lists translated from the source text (`B3.Gen.AsmAvx512Wgnu`) and run by the machine semantics
`B3/Asm/Avx512Sem.lean` (`runV rb prog n s`; see B3/Props/C05B.lean for the System V flavour and the notation), compute
the specification's compression function, restore the stack pointer and every callee-saved register of the
Windows ABI (rbx rbp rsi rdi r12-r15, XMM6-XMM15), for ALL register and memory contents at the entry point that
satisfy `EntryW` / `EntryWX`.

Arguments (Windows x64): rcx = cv, rdx = block, r8 = block_len, r9 = counter; on the caller's stack, above the return
address and the 32 bytes of shadow space: `flags` = the byte at [rsp + 0x28], `out` = the quadword at [rsp + 0x30].
The routines allocate a 72-byte frame (`sub rsp, 72`) and save XMM6-XMM9 in `[rsp - 72, rsp - 8)` (entry rsp).

`EntryW rb s` = `s` is at the routine's first instruction, has not faulted, memory holds the file's `.rdata` bytes (272) at
the 64-byte aligned address `rb`, `rsp % 16 = 8` (the ABI's stack alignment at a function's first instruction; the
saves are `vmovdqa`), and the 64 frame bytes the routine writes are disjoint from `cv`, `block` and the data section
(`Disjoint a n b k` = no common address, mod 2^64).  `EntryWX` adds: ... and from `out`.  Nothing about the XMM
registers, ZF, the other registers, nor about overlaps between cv / block / out / tables.
The frame bytes are below the stack pointer after the return: dead stack; the theorems say exactly what is left there.
-/
import B3.Asm.Avx512WinXofProof
namespace B3.Props.C05BW
open B3 B3.AsmSem B3.AsmSem.Avx512

/-- `blake3_compress_in_place_avx512` (Windows-GNU flavour): returns after exactly 372 instructions without a fault; memory
afterwards is memory before with the 64 frame bytes at `rsp - 72` holding the entry values of XMM6-9 and the 32 bytes at `cv`
(rcx) replaced by `first8 (Spec.compress cv block counter block_len flags)`, `block_len` = `r8b`, `flags` = the byte at
[rsp + 0x28]; rsp popped; all general purpose registers but rax, r8, rsp and XMM6-XMM15 preserved -/
theorem asm_avx512_wgnu_compress_in_place (rb : UInt64) (s : State) (h : Win.EntryW rb s) :
    (runV rb Gen.AsmAvx512Wgnu.compress_in_place 372 s).status = .returned ∧
    (runV rb Gen.AsmAvx512Wgnu.compress_in_place 372 s).ok = true ∧
    (runV rb Gen.AsmAvx512Wgnu.compress_in_place 372 s).mem
      = writeBytes (writeBytes s.mem (s.gpr[rsp] - 72) (saved s.xmm[6] s.xmm[7] s.xmm[8] s.xmm[9])) s.gpr[rcx]
          (bytesOfWords (first8 (Spec.compress (readWords s.mem s.gpr[rcx] 8) (readWords s.mem s.gpr[rdx] 16) s.gpr[r9]
            s.gpr[r8].toUInt8.toUInt32 (s.mem (s.gpr[rsp] + 40)).toUInt32))) ∧
    (runV rb Gen.AsmAvx512Wgnu.compress_in_place 372 s).gpr[rsp] = s.gpr[rsp] + 8 ∧
    (∀ r : Reg, r ≠ rax → r ≠ r8 → r ≠ rsp → (runV rb Gen.AsmAvx512Wgnu.compress_in_place 372 s).gpr[r] = s.gpr[r]) ∧
    (∀ i : Fin 16, 6 ≤ i.val → (runV rb Gen.AsmAvx512Wgnu.compress_in_place 372 s).xmm[i] = s.xmm[i]) :=
  Win.compress_in_place_correct rb s h

/-- `blake3_compress_xof_avx512` (Windows-GNU flavour): returns after exactly 377 instructions without a fault; the 64 bytes at
`out` (the pointer at [rsp + 0x30]) become `Spec.compress cv block counter block_len flags`, the 64 frame bytes at `rsp - 72` hold
the entry values of XMM6-9, every other byte of memory is unchanged; rsp popped; all general purpose registers but rax, r8, r10,
rsp and XMM6-XMM15 preserved -/
theorem asm_avx512_wgnu_compress_xof (rb : UInt64) (s : State) (h : WinXof.EntryWX rb s) :
    (runV rb Gen.AsmAvx512Wgnu.compress_xof 377 s).status = .returned ∧
    (runV rb Gen.AsmAvx512Wgnu.compress_xof 377 s).ok = true ∧
    (runV rb Gen.AsmAvx512Wgnu.compress_xof 377 s).mem
      = writeBytes (writeBytes s.mem (s.gpr[rsp] - 72) (saved s.xmm[6] s.xmm[7] s.xmm[8] s.xmm[9])) (load64 s.mem (s.gpr[rsp] + 48))
          (bytesOfWords (Spec.compress (readWords s.mem s.gpr[rcx] 8) (readWords s.mem s.gpr[rdx] 16) s.gpr[r9]
            s.gpr[r8].toUInt8.toUInt32 (s.mem (s.gpr[rsp] + 40)).toUInt32)) ∧
    (runV rb Gen.AsmAvx512Wgnu.compress_xof 377 s).gpr[rsp] = s.gpr[rsp] + 8 ∧
    (∀ r : Reg, r ≠ rax → r ≠ r8 → r ≠ r10 → r ≠ rsp → (runV rb Gen.AsmAvx512Wgnu.compress_xof 377 s).gpr[r] = s.gpr[r]) ∧
    (∀ i : Fin 16, 6 ≤ i.val → (runV rb Gen.AsmAvx512Wgnu.compress_xof 377 s).xmm[i] = s.xmm[i]) :=
  WinXof.compress_xof_correct rb s h

/-- read back as words, and the frame condition byte by byte: a byte outside `cv` and outside `[rsp - 72, rsp - 8)` is unchanged -/
theorem asm_avx512_wgnu_compress_in_place_words (rb : UInt64) (s : State) (h : Win.EntryW rb s) :
    readWords (runV rb Gen.AsmAvx512Wgnu.compress_in_place 372 s).mem s.gpr[rcx] 8
      = first8 (Spec.compress (readWords s.mem s.gpr[rcx] 8) (readWords s.mem s.gpr[rdx] 16) s.gpr[r9]
          s.gpr[r8].toUInt8.toUInt32 (s.mem (s.gpr[rsp] + 40)).toUInt32) ∧
    ∀ q : UInt64, 32 ≤ (q - s.gpr[rcx]).toNat → 64 ≤ (q - (s.gpr[rsp] - 72)).toNat →
      (runV rb Gen.AsmAvx512Wgnu.compress_in_place 372 s).mem q = s.mem q :=
  Win.compress_in_place_correct_words rb s h

theorem asm_avx512_wgnu_compress_xof_words (rb : UInt64) (s : State) (h : WinXof.EntryWX rb s) :
    readWords (runV rb Gen.AsmAvx512Wgnu.compress_xof 377 s).mem (load64 s.mem (s.gpr[rsp] + 48)) 16
      = Spec.compress (readWords s.mem s.gpr[rcx] 8) (readWords s.mem s.gpr[rdx] 16) s.gpr[r9]
          s.gpr[r8].toUInt8.toUInt32 (s.mem (s.gpr[rsp] + 40)).toUInt32 ∧
    ∀ q : UInt64, 64 ≤ (q - load64 s.mem (s.gpr[rsp] + 48)).toNat → 64 ≤ (q - (s.gpr[rsp] - 72)).toNat →
      (runV rb Gen.AsmAvx512Wgnu.compress_xof 377 s).mem q = s.mem q :=
  WinXof.compress_xof_correct_words rb s h

/-- the step counts are exact and more fuel changes nothing (the machine has returned) -/
theorem asm_avx512_wgnu_fuel (rb : UInt64) (s : State) (n : Nat) :
    (Win.EntryW rb s →
      runV rb Gen.AsmAvx512Wgnu.compress_in_place (372 + n) s = runV rb Gen.AsmAvx512Wgnu.compress_in_place 372 s) ∧
    (WinXof.EntryWX rb s → runV rb Gen.AsmAvx512Wgnu.compress_xof (377 + n) s = runV rb Gen.AsmAvx512Wgnu.compress_xof 377 s) :=
  ⟨fun h => Win.compress_in_place_fuel rb s h n, fun h => WinXof.compress_xof_fuel rb s h n⟩

end B3.Props.C05BW
