/-
C05 (assembly, AVX-512) - property theorems: the hand-written assembly routines
`blake3_compress_in_place_avx512` and `blake3_compress_xof_avx512` of c/blake3_avx512_x86-64_unix.S, as
instruction lists translated from the source text (`B3.Gen.AsmAvx512`) and run by the machine semantics
`B3/Asm/Avx512Sem.lean` (`runV rb prog n s` = `n` fetch-execute steps from state `s`, `rb` = where the loader
put the file's `.rodata` section; VEX / EVEX 128-bit forms, only the low 128 bits of the vector registers are
part of the state), compute the specification's compression function, for ALL register and memory contents
at the entry point.

`Entry rb s` = `s` is at the routine's first instruction, has not faulted, and memory holds the file's
`.rodata` bytes (272, padding of the inner `.p2align 6` included) at the 64-byte aligned address `rb` --
nothing else; in particular no assumption about where cv / block / out lie or whether they overlap (every
load of the routines precedes their stores), none about the XMM registers, ZF or the stack.
`readWords m p n` = `n` little-endian doublewords at address `p`; `writeBytes m p bs` = `m` with the bytes
`bs` written at `p, p+1, ..` (addresses mod 2^64) and every other byte unchanged.
Arguments (System V): rdi = cv, rsi = block, rdx = block_len, rcx = counter, r8 = flags, r9 = out.

Unlike the SSE4.1 / SSE2 `compress_in_place` routines (B3/Props/C05A.lean, `..._any_registers`), the AVX-512
routines start with `movzx eax, r8b; movzx edx, dl`: they read ONLY the low bytes of rdx and r8, so there is
no dependency on how the caller extended the two `uint8_t` arguments, and one theorem per routine suffices.
-/
import B3.Asm.Avx512XofProof
namespace B3.Props.C05B
open B3 B3.AsmSem B3.AsmSem.Avx512

/-- `blake3_compress_in_place_avx512`, no assumption on any register: the routine returns after exactly 363
instructions without a fault, and memory afterwards is memory before with the 32 bytes at `cv` (rdi) replaced by
`first8 (Spec.compress cv block counter block_len flags)` where `block_len` = `dl`, `flags` = `r8b`; the stack
pointer is popped and all general purpose registers but rax, rdx, rsp are preserved -/
theorem asm_avx512_compress_in_place (rb : UInt64) (s : State) (h : Unix.Entry rb s) :
    (runV rb Gen.AsmAvx512.compress_in_place 363 s).status = .returned ∧
    (runV rb Gen.AsmAvx512.compress_in_place 363 s).ok = true ∧
    (runV rb Gen.AsmAvx512.compress_in_place 363 s).mem
      = writeBytes s.mem s.gpr[rdi] (bytesOfWords (first8 (Spec.compress (readWords s.mem s.gpr[rdi] 8) (readWords s.mem s.gpr[rsi] 16)
            s.gpr[rcx] s.gpr[rdx].toUInt8.toUInt32 s.gpr[r8].toUInt8.toUInt32))) ∧
    (runV rb Gen.AsmAvx512.compress_in_place 363 s).gpr[rsp] = s.gpr[rsp] + 8 ∧
    ∀ r : Reg, r ≠ rax → r ≠ rdx → r ≠ rsp → (runV rb Gen.AsmAvx512.compress_in_place 363 s).gpr[r] = s.gpr[r] :=
  Unix.compress_in_place_correct rb s h

/-- the same in the words of the C prototype: if the low bytes of rdx and r8 are `block_len` and `flags` -- whatever
is above them --, the 32 bytes at `cv` become `first8 (Spec.compress cv block counter block_len flags)` -/
theorem asm_avx512_compress_in_place_any_registers (rb : UInt64) (s : State) (h : Unix.Entry rb s) (bl fl : UInt8)
    (hbl : s.gpr[rdx].toUInt8 = bl) (hfl : s.gpr[r8].toUInt8 = fl) :
    (runV rb Gen.AsmAvx512.compress_in_place 363 s).status = .returned ∧
    (runV rb Gen.AsmAvx512.compress_in_place 363 s).ok = true ∧
    (runV rb Gen.AsmAvx512.compress_in_place 363 s).mem
      = writeBytes s.mem s.gpr[rdi] (bytesOfWords (first8 (Spec.compress (readWords s.mem s.gpr[rdi] 8) (readWords s.mem s.gpr[rsi] 16)
            s.gpr[rcx] bl.toUInt32 fl.toUInt32))) :=
  Unix.compress_in_place_abi rb s h bl fl hbl hfl

/-- `blake3_compress_xof_avx512`, no assumption on any register: returns after exactly 367 instructions without a
fault; the 64 bytes at `out` (r9) become `Spec.compress cv block counter block_len flags`, every other byte of memory
is unchanged; rsp popped, all general purpose registers but rax, rdx, rsp preserved -/
theorem asm_avx512_compress_xof (rb : UInt64) (s : State) (h : Unix.Entry rb s) :
    (runV rb Gen.AsmAvx512.compress_xof 367 s).status = .returned ∧
    (runV rb Gen.AsmAvx512.compress_xof 367 s).ok = true ∧
    (runV rb Gen.AsmAvx512.compress_xof 367 s).mem
      = writeBytes s.mem s.gpr[r9] (bytesOfWords (Spec.compress (readWords s.mem s.gpr[rdi] 8) (readWords s.mem s.gpr[rsi] 16)
            s.gpr[rcx] s.gpr[rdx].toUInt8.toUInt32 s.gpr[r8].toUInt8.toUInt32)) ∧
    (runV rb Gen.AsmAvx512.compress_xof 367 s).gpr[rsp] = s.gpr[rsp] + 8 ∧
    ∀ r : Reg, r ≠ rax → r ≠ rdx → r ≠ rsp → (runV rb Gen.AsmAvx512.compress_xof 367 s).gpr[r] = s.gpr[r] :=
  UnixXof.compress_xof_correct rb s h

/-- read back as words, and the frame condition byte by byte -/
theorem asm_avx512_compress_in_place_words (rb : UInt64) (s : State) (h : Unix.Entry rb s) :
    readWords (runV rb Gen.AsmAvx512.compress_in_place 363 s).mem s.gpr[rdi] 8
      = first8 (Spec.compress (readWords s.mem s.gpr[rdi] 8) (readWords s.mem s.gpr[rsi] 16) s.gpr[rcx]
          s.gpr[rdx].toUInt8.toUInt32 s.gpr[r8].toUInt8.toUInt32) ∧
    ∀ q : UInt64, 32 ≤ (q - s.gpr[rdi]).toNat → (runV rb Gen.AsmAvx512.compress_in_place 363 s).mem q = s.mem q :=
  Unix.compress_in_place_correct_words rb s h

theorem asm_avx512_compress_xof_words (rb : UInt64) (s : State) (h : Unix.Entry rb s) :
    readWords (runV rb Gen.AsmAvx512.compress_xof 367 s).mem s.gpr[r9] 16
      = Spec.compress (readWords s.mem s.gpr[rdi] 8) (readWords s.mem s.gpr[rsi] 16) s.gpr[rcx]
          s.gpr[rdx].toUInt8.toUInt32 s.gpr[r8].toUInt8.toUInt32 ∧
    ∀ q : UInt64, 64 ≤ (q - s.gpr[r9]).toNat → (runV rb Gen.AsmAvx512.compress_xof 367 s).mem q = s.mem q :=
  UnixXof.compress_xof_correct_words rb s h

/-- the step counts are exact and more fuel changes nothing (the machine has returned) -/
theorem asm_avx512_fuel (rb : UInt64) (s : State) (n : Nat) (h : Unix.Entry rb s) :
    runV rb Gen.AsmAvx512.compress_in_place (363 + n) s = runV rb Gen.AsmAvx512.compress_in_place 363 s ∧
    runV rb Gen.AsmAvx512.compress_xof (367 + n) s = runV rb Gen.AsmAvx512.compress_xof 367 s :=
  ⟨Unix.compress_in_place_fuel rb s h n, UnixXof.compress_xof_fuel rb s h n⟩

/-- `ok = true` at the end of a run means that no prefix of the run faulted -/
theorem asm_avx512_no_fault_on_the_way (rb : UInt64) (prog : List VInstr) (a b : Nat) (s : State)
    (h : (runV rb prog (a + b) s).ok = true) : (runV rb prog a s).ok = true :=
  runV_ok_prefix rb prog a b s h

end B3.Props.C05B
