/-
C05 (assembly, MSVC / MASM flavour, SSE2 and AVX-512) - property theorems: the hand-written assembly routines
`blake3_compress_in_place_sse2`, `blake3_compress_xof_sse2` (c/blake3_sse2_x86-64_windows_msvc.asm) and
`blake3_compress_in_place_avx512`, `blake3_compress_xof_avx512` (c/blake3_avx512_x86-64_windows_msvc.asm), as instruction
lists translated from the source text by the MASM front end (gen/ext_asm_msvc2.py -> `B3.Gen.AsmSse2Msvc`,
`B3.Gen.AsmAvx512Msvc`) and run by the machine semantics (`Win.run` of B3/Asm/WinSem.lean for the SSE2 file, `runV` of
B3/Asm/Avx512Sem.lean for the AVX-512 file; `run rb prog n s` = `n` fetch-execute steps from state `s`, `rb` = where the
loader put the file's `_RDATA` segment), compute the specification's compression function AND obey the Win64 calling
convention, for ALL register and memory contents at the entry point that satisfy the entry predicate.
These are the statements of B3/Props/C05W.lean (`asm_wgnu_sse2_*`) and B3/Props/C05BW.lean (`asm_avx512_wgnu_*`) for the
MSVC files; see those files for the notation.  In short:

Arguments (Win64): rcx = cv, rdx = block, r8b = block_len, r9 = counter, flags = the byte at `[rsp + 0x28]`, out = the
quadword at `[rsp + 0x30]` (rsp = its value at entry, pointing at the return address).

SSE2 file.  `Win.MsvcSse2.Entry rb s` (= `B3.AsmSem.Win.EntryW` with this file's data segment, 224 bytes) = `s` is at the
routine's first instruction, has not faulted, memory holds the file's `_RDATA` bytes at the 64-byte aligned address `rb`,
`rsp ≡ 8 (mod 16)`, and the FRAME `[rsp - 120, rsp - 8)` -- the 112 bytes the routine writes below the stack pointer
before it reads anything -- has no byte in common (`Apart`, addresses mod 2^64) with the data segment, the 32 bytes at cv,
the 64 bytes at block; `EntryXof` adds: nor with the 64 bytes at out.  `frameBase s = rsp - 120`; `frameMem s` = entry
memory with `savedBytes s` (XMM6, 7, 8, 9, 11, 14, 15 of the entry state) written at `frameBase s`.

AVX-512 file.  `Avx512.Msvc.EntryW rb s` = the same with this file's data segment (272 bytes), the frame being the 64 bytes
`[rsp - 72, rsp - 8)` (XMM6-9 saved; `Disjoint a n b k` = no common address); `EntryWX` adds: ... nor with out.

Nothing else is assumed: cv, block, out and the tables may overlap each other; the registers hold anything.

How the two files are proved.  SSE2: the instruction lists are those of the Windows-GNU file except for the offsets of the
four PBLENDW masks in the data segment (160/176/192/208 instead of 144/160/176/192: `CMP_MSB_MASK` is `8 dup` = 32 bytes in
the .asm file, 16 bytes in the .S file) -- `asm_msvc_sse2_is_wgnu_relocated`; the data differ, so the symbolic execution is
re-run on the MSVC lists (B3/Asm/WmsvcSse2*.lean, twins of B3/Asm/WgnuSse2*.lean).  AVX-512: lists and data segment are EQUAL to
those of the Windows-GNU file -- `asm_msvc_avx512_is_wgnu` -- and the theorems are transported (B3/Asm/Avx512MsvcProof.lean).
No MASM assembler exists on the machine: the link to the CPU is that the MSVC lists, run by the semantics, give the same
results as the CPU running the assembled Windows-GNU objects (lean/RunAsmMsvc.lean), plus these two comparison theorems.
-/
import B3.Asm.WmsvcSse2XofProof
import B3.Asm.Avx512MsvcProof
import B3.Asm.WgnuSse2XofProof
namespace B3.Props.C05WM
open B3 B3.AsmSem B3.AsmSem.Win

/-! ### SSE2, c/blake3_sse2_x86-64_windows_msvc.asm -/

/-- `blake3_compress_in_place_sse2` (MSVC flavour): returns after exactly 569 instructions without a fault; the 32 bytes at
`cv` become `first8 (Spec.compress cv block counter block_len flags)` (block_len = `r8b`, flags = the byte in the fifth
argument's stack slot: bits above the 8-bit arguments are not used); the only other bytes of memory that change are the
112 frame bytes; `rsp` is popped; all general purpose registers but rax, r8, rsp -- so the Win64 callee-saved rbx, rbp,
rdi, rsi, r12-r15 -- and XMM6-XMM15 hold their entry values -/
theorem asm_msvc_sse2_compress_in_place (rb : UInt64) (s : State) (h : Win.MsvcSse2.Entry rb s) :
    (Win.run rb Gen.AsmSse2Msvc.compress_in_place 569 s).status = .returned ∧
    (Win.run rb Gen.AsmSse2Msvc.compress_in_place 569 s).ok = true ∧
    (Win.run rb Gen.AsmSse2Msvc.compress_in_place 569 s).mem
      = writeBytes (frameMem s) s.gpr[rcx] (bytesOfWords (first8 (Spec.compress (readWords s.mem s.gpr[rcx] 8)
          (readWords s.mem s.gpr[rdx] 16) s.gpr[r9] s.gpr[r8].toUInt8.toUInt32 (flagsArg s).toUInt32))) ∧
    (Win.run rb Gen.AsmSse2Msvc.compress_in_place 569 s).gpr[rsp] = s.gpr[rsp] + 8 ∧
    (∀ r : Reg, r ≠ rax → r ≠ r8 → r ≠ rsp → (Win.run rb Gen.AsmSse2Msvc.compress_in_place 569 s).gpr[r] = s.gpr[r]) ∧
    ∀ i : Fin 16, 6 ≤ i.val → (Win.run rb Gen.AsmSse2Msvc.compress_in_place 569 s).xmm[i] = s.xmm[i] :=
  Win.MsvcSse2.compress_in_place_correct rb s h

/-- the memory clause of `asm_msvc_sse2_compress_in_place` byte by byte, in terms of the entry memory only: the eight words
at `cv` afterwards; every byte that is neither one of the 32 at `cv` nor one of the 112 at `rsp - 120` is unchanged; the 112
bytes at `rsp - 120` hold the saved registers (the 8 bytes `[rsp - 8, rsp)` of the 120-byte frame are not written) -/
theorem asm_msvc_sse2_compress_in_place_memory (rb : UInt64) (s : State) (h : Win.MsvcSse2.Entry rb s) :
    readWords (Win.run rb Gen.AsmSse2Msvc.compress_in_place 569 s).mem s.gpr[rcx] 8
      = first8 (Spec.compress (readWords s.mem s.gpr[rcx] 8) (readWords s.mem s.gpr[rdx] 16) s.gpr[r9]
          s.gpr[r8].toUInt8.toUInt32 (flagsArg s).toUInt32) ∧
    (∀ q : UInt64, 32 ≤ (q - s.gpr[rcx]).toNat → 112 ≤ (q - frameBase s).toNat →
      (Win.run rb Gen.AsmSse2Msvc.compress_in_place 569 s).mem q = s.mem q) ∧
    ∀ k : Nat, k < 112 →
      (Win.run rb Gen.AsmSse2Msvc.compress_in_place 569 s).mem (frameBase s + UInt64.ofNat k) = (savedBytes s).getD k 0 :=
  Win.MsvcSse2.compress_in_place_correct_words rb s h

/-- `blake3_compress_xof_sse2` (MSVC flavour): returns after exactly 576 instructions without a fault; the 64 bytes at `out`
become `Spec.compress cv block counter block_len flags`; the only other bytes of memory that change are the 112 frame
bytes; `rsp` is popped; all general purpose registers but rax, r8, r10, rsp and XMM6-XMM15 hold their entry values -/
theorem asm_msvc_sse2_compress_xof (rb : UInt64) (s : State) (h : Win.MsvcSse2.EntryXof rb s) :
    (Win.run rb Gen.AsmSse2Msvc.compress_xof 576 s).status = .returned ∧
    (Win.run rb Gen.AsmSse2Msvc.compress_xof 576 s).ok = true ∧
    (Win.run rb Gen.AsmSse2Msvc.compress_xof 576 s).mem
      = writeBytes (frameMem s) (outArg s) (bytesOfWords (Spec.compress (readWords s.mem s.gpr[rcx] 8)
          (readWords s.mem s.gpr[rdx] 16) s.gpr[r9] s.gpr[r8].toUInt8.toUInt32 (flagsArg s).toUInt32)) ∧
    (Win.run rb Gen.AsmSse2Msvc.compress_xof 576 s).gpr[rsp] = s.gpr[rsp] + 8 ∧
    (∀ r : Reg, r ≠ rax → r ≠ r8 → r ≠ r10 → r ≠ rsp → (Win.run rb Gen.AsmSse2Msvc.compress_xof 576 s).gpr[r] = s.gpr[r]) ∧
    ∀ i : Fin 16, 6 ≤ i.val → (Win.run rb Gen.AsmSse2Msvc.compress_xof 576 s).xmm[i] = s.xmm[i] :=
  Win.MsvcSse2Xof.compress_xof_correct rb s h

/-- the memory clause of `asm_msvc_sse2_compress_xof` byte by byte -/
theorem asm_msvc_sse2_compress_xof_memory (rb : UInt64) (s : State) (h : Win.MsvcSse2.EntryXof rb s) :
    readWords (Win.run rb Gen.AsmSse2Msvc.compress_xof 576 s).mem (outArg s) 16
      = Spec.compress (readWords s.mem s.gpr[rcx] 8) (readWords s.mem s.gpr[rdx] 16) s.gpr[r9]
          s.gpr[r8].toUInt8.toUInt32 (flagsArg s).toUInt32 ∧
    (∀ q : UInt64, 64 ≤ (q - outArg s).toNat → 112 ≤ (q - frameBase s).toNat →
      (Win.run rb Gen.AsmSse2Msvc.compress_xof 576 s).mem q = s.mem q) ∧
    ∀ k : Nat, k < 112 →
      (Win.run rb Gen.AsmSse2Msvc.compress_xof 576 s).mem (frameBase s + UInt64.ofNat k) = (savedBytes s).getD k 0 :=
  Win.MsvcSse2Xof.compress_xof_correct_words rb s h

/-- the step counts are exact and more fuel changes nothing (the machine has returned) -/
theorem asm_msvc_sse2_fuel (rb : UInt64) (s : State) (n : Nat) :
    (Win.MsvcSse2.Entry rb s →
      Win.run rb Gen.AsmSse2Msvc.compress_in_place (569 + n) s = Win.run rb Gen.AsmSse2Msvc.compress_in_place 569 s) ∧
    (Win.MsvcSse2.EntryXof rb s →
      Win.run rb Gen.AsmSse2Msvc.compress_xof (576 + n) s = Win.run rb Gen.AsmSse2Msvc.compress_xof 576 s) :=
  ⟨fun h => Win.MsvcSse2.compress_in_place_fuel rb s h n, fun h => Win.MsvcSse2Xof.compress_xof_fuel rb s h n⟩

/-- moving the four mask references of the MSVC file to where the Windows-GNU file has the PBLENDW masks -/
def relocateSse2 : WInstr → WInstr
  | .base ⟨mn, ops⟩ => .base ⟨mn, ops.map fun o => match o with
      | .rip 160 => .rip 144
      | .rip 176 => .rip 160
      | .rip 192 => .rip 176
      | .rip 208 => .rip 192
      | o => o⟩
  | i => i

set_option maxRecDepth 20000 in
/-- the MSVC SSE2 routines are, instruction for instruction, the Windows-GNU routines (which are run against the CPU), except
for the offsets of the four PBLENDW masks in the read-only data (the .asm file's `CMP_MSB_MASK` is 16 bytes longer); and the
five tables the routines load hold the same values in both files -/
theorem asm_msvc_sse2_is_wgnu_relocated :
    Gen.AsmSse2Msvc.compress_in_place.map relocateSse2 = Gen.AsmSse2Wgnu.compress_in_place ∧
    Gen.AsmSse2Msvc.compress_xof.map relocateSse2 = Gen.AsmSse2Wgnu.compress_xof ∧
    Gen.AsmSse2Msvc.BLAKE3_IV = Gen.AsmSse2Wgnu.BLAKE3_IV ∧
    Gen.AsmSse2Msvc.PBLENDW_0x33_MASK = Gen.AsmSse2Wgnu.PBLENDW_0x33_MASK ∧
    Gen.AsmSse2Msvc.PBLENDW_0xCC_MASK = Gen.AsmSse2Wgnu.PBLENDW_0xCC_MASK ∧
    Gen.AsmSse2Msvc.PBLENDW_0x3F_MASK = Gen.AsmSse2Wgnu.PBLENDW_0x3F_MASK ∧
    Gen.AsmSse2Msvc.PBLENDW_0xC0_MASK = Gen.AsmSse2Wgnu.PBLENDW_0xC0_MASK := by
  refine ⟨by decide, by decide, rfl, rfl, rfl, rfl, rfl⟩

/-! ### AVX-512, c/blake3_avx512_x86-64_windows_msvc.asm -/

open B3.AsmSem.Avx512 in
/-- `blake3_compress_in_place_avx512` (MSVC flavour): returns after exactly 372 instructions without a fault; memory
afterwards is memory before with the 64 frame bytes at `rsp - 72` holding the entry values of XMM6-9 and the 32 bytes at `cv`
(rcx) replaced by `first8 (Spec.compress cv block counter block_len flags)`, `block_len` = `r8b`, `flags` = the byte at
[rsp + 0x28]; rsp popped; all general purpose registers but rax, r8, rsp and XMM6-XMM15 preserved -/
theorem asm_msvc_avx512_compress_in_place (rb : UInt64) (s : State) (h : Avx512.Msvc.EntryW rb s) :
    (runV rb Gen.AsmAvx512Msvc.compress_in_place 372 s).status = .returned ∧
    (runV rb Gen.AsmAvx512Msvc.compress_in_place 372 s).ok = true ∧
    (runV rb Gen.AsmAvx512Msvc.compress_in_place 372 s).mem
      = writeBytes (writeBytes s.mem (s.gpr[rsp] - 72) (saved s.xmm[6] s.xmm[7] s.xmm[8] s.xmm[9])) s.gpr[rcx]
          (bytesOfWords (first8 (Spec.compress (readWords s.mem s.gpr[rcx] 8) (readWords s.mem s.gpr[rdx] 16) s.gpr[r9]
            s.gpr[r8].toUInt8.toUInt32 (s.mem (s.gpr[rsp] + 40)).toUInt32))) ∧
    (runV rb Gen.AsmAvx512Msvc.compress_in_place 372 s).gpr[rsp] = s.gpr[rsp] + 8 ∧
    (∀ r : Reg, r ≠ rax → r ≠ r8 → r ≠ rsp → (runV rb Gen.AsmAvx512Msvc.compress_in_place 372 s).gpr[r] = s.gpr[r]) ∧
    (∀ i : Fin 16, 6 ≤ i.val → (runV rb Gen.AsmAvx512Msvc.compress_in_place 372 s).xmm[i] = s.xmm[i]) :=
  Avx512.Msvc.compress_in_place_correct rb s h

open B3.AsmSem.Avx512 in
/-- read back as words, and the frame condition byte by byte: a byte outside `cv` and outside `[rsp - 72, rsp - 8)` is unchanged -/
theorem asm_msvc_avx512_compress_in_place_words (rb : UInt64) (s : State) (h : Avx512.Msvc.EntryW rb s) :
    readWords (runV rb Gen.AsmAvx512Msvc.compress_in_place 372 s).mem s.gpr[rcx] 8
      = first8 (Spec.compress (readWords s.mem s.gpr[rcx] 8) (readWords s.mem s.gpr[rdx] 16) s.gpr[r9]
          s.gpr[r8].toUInt8.toUInt32 (s.mem (s.gpr[rsp] + 40)).toUInt32) ∧
    ∀ q : UInt64, 32 ≤ (q - s.gpr[rcx]).toNat → 64 ≤ (q - (s.gpr[rsp] - 72)).toNat →
      (runV rb Gen.AsmAvx512Msvc.compress_in_place 372 s).mem q = s.mem q :=
  Avx512.Msvc.compress_in_place_correct_words rb s h

open B3.AsmSem.Avx512 in
/-- `blake3_compress_xof_avx512` (MSVC flavour): returns after exactly 377 instructions without a fault; the 64 bytes at `out`
(the pointer at [rsp + 0x30]) become `Spec.compress cv block counter block_len flags`, the 64 frame bytes at `rsp - 72` hold
the entry values of XMM6-9, every other byte of memory is unchanged; rsp popped; all general purpose registers but rax, r8,
r10, rsp and XMM6-XMM15 preserved -/
theorem asm_msvc_avx512_compress_xof (rb : UInt64) (s : State) (h : Avx512.Msvc.EntryWX rb s) :
    (runV rb Gen.AsmAvx512Msvc.compress_xof 377 s).status = .returned ∧
    (runV rb Gen.AsmAvx512Msvc.compress_xof 377 s).ok = true ∧
    (runV rb Gen.AsmAvx512Msvc.compress_xof 377 s).mem
      = writeBytes (writeBytes s.mem (s.gpr[rsp] - 72) (saved s.xmm[6] s.xmm[7] s.xmm[8] s.xmm[9])) (Avx512.load64 s.mem (s.gpr[rsp] + 48))
          (bytesOfWords (Spec.compress (readWords s.mem s.gpr[rcx] 8) (readWords s.mem s.gpr[rdx] 16) s.gpr[r9]
            s.gpr[r8].toUInt8.toUInt32 (s.mem (s.gpr[rsp] + 40)).toUInt32)) ∧
    (runV rb Gen.AsmAvx512Msvc.compress_xof 377 s).gpr[rsp] = s.gpr[rsp] + 8 ∧
    (∀ r : Reg, r ≠ rax → r ≠ r8 → r ≠ r10 → r ≠ rsp → (runV rb Gen.AsmAvx512Msvc.compress_xof 377 s).gpr[r] = s.gpr[r]) ∧
    (∀ i : Fin 16, 6 ≤ i.val → (runV rb Gen.AsmAvx512Msvc.compress_xof 377 s).xmm[i] = s.xmm[i]) :=
  Avx512.Msvc.compress_xof_correct rb s h

open B3.AsmSem.Avx512 in
/-- read back as words + frame condition (a byte outside `out` and outside `[rsp - 72, rsp - 8)` is unchanged) -/
theorem asm_msvc_avx512_compress_xof_words (rb : UInt64) (s : State) (h : Avx512.Msvc.EntryWX rb s) :
    readWords (runV rb Gen.AsmAvx512Msvc.compress_xof 377 s).mem (Avx512.load64 s.mem (s.gpr[rsp] + 48)) 16
      = Spec.compress (readWords s.mem s.gpr[rcx] 8) (readWords s.mem s.gpr[rdx] 16) s.gpr[r9]
          s.gpr[r8].toUInt8.toUInt32 (s.mem (s.gpr[rsp] + 40)).toUInt32 ∧
    ∀ q : UInt64, 64 ≤ (q - Avx512.load64 s.mem (s.gpr[rsp] + 48)).toNat → 64 ≤ (q - (s.gpr[rsp] - 72)).toNat →
      (runV rb Gen.AsmAvx512Msvc.compress_xof 377 s).mem q = s.mem q :=
  Avx512.Msvc.compress_xof_correct_words rb s h

open B3.AsmSem.Avx512 in
/-- the step counts are exact and more fuel changes nothing (the machine has returned) -/
theorem asm_msvc_avx512_fuel (rb : UInt64) (s : State) (n : Nat) :
    (Avx512.Msvc.EntryW rb s →
      runV rb Gen.AsmAvx512Msvc.compress_in_place (372 + n) s = runV rb Gen.AsmAvx512Msvc.compress_in_place 372 s) ∧
    (Avx512.Msvc.EntryWX rb s →
      runV rb Gen.AsmAvx512Msvc.compress_xof (377 + n) s = runV rb Gen.AsmAvx512Msvc.compress_xof 377 s) :=
  ⟨fun h => Avx512.Msvc.compress_in_place_fuel rb s h n, fun h => Avx512.Msvc.compress_xof_fuel rb s h n⟩

/-- the MSVC AVX-512 routines and data segment ARE those of the Windows-GNU file (which is assembled and run against the CPU):
same instructions, same operands, same 272 data bytes (IV at offset 256), same alignment -/
theorem asm_msvc_avx512_is_wgnu :
    Gen.AsmAvx512Msvc.compress_in_place = Gen.AsmAvx512Wgnu.compress_in_place ∧
    Gen.AsmAvx512Msvc.compress_xof = Gen.AsmAvx512Wgnu.compress_xof ∧
    Gen.AsmAvx512Msvc.rodata = Gen.AsmAvx512Wgnu.rodata ∧
    Gen.AsmAvx512Msvc.rodataAlign = Gen.AsmAvx512Wgnu.rodataAlign ∧
    Gen.AsmAvx512Msvc.BLAKE3_IV = Gen.AsmAvx512Wgnu.BLAKE3_IV :=
  Avx512.Msvc.lists_eq

/-- hence the entry predicates of the two AVX-512 files are the same predicate -/
theorem asm_msvc_avx512_entry_iff (rb : UInt64) (s : State) :
    (Avx512.Msvc.EntryWX rb s ↔ Avx512.WinXof.EntryWX rb s) :=
  ⟨fun h => h.toWgnu, fun h => Avx512.Msvc.EntryWX.ofWgnu h⟩

/-! ### the hypotheses are satisfiable -/

/-- concrete states (tables at 0x30040, cv at 0x10008, block at 0x20001, out at 0x40004, `rsp = 0x7fff0008`) satisfy
`EntryXof` / `EntryWX` (hence `Entry` / `EntryW`) for the two files -/
theorem asm_msvc_entry_witness :
    Win.MsvcSse2.EntryXof 0x30040 Win.MsvcSse2.exampleState ∧ Win.MsvcSse2.Entry 0x30040 Win.MsvcSse2.exampleState ∧
    Avx512.Msvc.EntryWX 0x30040 Avx512.Msvc.exampleStateX ∧ Avx512.Msvc.EntryW 0x30040 Avx512.Msvc.exampleStateX :=
  ⟨Win.MsvcSse2.exampleState_entry, Win.MsvcSse2.exampleState_entry.toEntryW,
   Avx512.Msvc.exampleStateX_entry, Avx512.Msvc.exampleStateX_entry.toEntryW⟩

end B3.Props.C05WM
