/-
Property theorems about the code TRANSLATED from the sources (artefact proofs in B3/Proofs/RsState*.lean): generated = model for all inputs,
and the property-level facts restated for the generated functions.  Theorem statements only; helper lemmas are in the Proofs file.
-/
import B3.Proofs.RsState
namespace B3.Proofs.RsState
open B3 B3.Arith B3.RsPrim B3.Gen.RsState

/-! ### main theorems -/

/-- **`Output` methods and `parent_node_output` = model.**  `toNode` reads the 64-byte block as 16 little-endian words
and the `u8` block length as a number.  None of them can panic (for `parent_node_output`: on two 32-byte children,
which is what the argument types `&CVBytes` say). -/
theorem output_methods_eq_model (K : Kern) (o : Output) (l r key : CV) (flags : UInt8) :
    Output.chaining_value K.cip o = .ok (bytesOfWords (Rs.chain K (toNode o))) ∧
    Output.root_hash K.cip o = .ok (Rs.rootHash K (toNode o)) ∧
    Output.root_output_block K.cxof o = .ok (bytesOfWords (Rs.rootBlock K (toNode o) o.counter)) ∧
    (∃ p, parent_node_output (bytesOfWords l) (bytesOfWords r) key flags = .ok p ∧
      toNode p = Rs.parentOutput key flags l r) :=
  ⟨chaining_value_eq K o, root_hash_eq K o, root_output_block_eq K o, parent_node_output_eq l r key flags⟩

/-- **`ChunkState::new / count / start_flag / fill_buf / output` = model**, on every state satisfying the
representation invariant `CsInv` (64-byte buffer, `buf_len ≤ 64`, zero beyond `buf_len`); `absCS` keeps the first
`buf_len` bytes of the buffer.  No panic. -/
theorem chunkstate_methods_eq_model (g : ChunkState) (hI : CsInv g) (key : CV) (t : Nat) (flags : UInt8) (input : List UInt8) :
    (∃ g0, ChunkState.new key t flags = .ok g0 ∧ absCS g0 = Rs.ChunkState.new key t flags ∧ CsInv g0) ∧
    ChunkState.count g = .ok (absCS g).count ∧
    ChunkState.start_flag g = .ok (absCS g).startFlag ∧
    (∃ g', ChunkState.fill_buf g input = .ok (g', ((absCS g).fillBuf input).2) ∧
      absCS g' = ((absCS g).fillBuf input).1 ∧ CsInv g') ∧
    (∃ o, ChunkState.output g = .ok o ∧ toNode o = (absCS g).output) := by
  refine ⟨⟨_, cs_new_ok key t flags, newG_abs key t flags, newG_inv key t flags⟩, cs_count_ok g hI, cs_start_flag_ok g,
    ⟨_, ?_, fillBufG_abs g input hI, fillBufG_inv g input hI⟩, cs_output_ok g hI⟩
  rw [cs_fill_buf_ok g input hI]
  simp [Rs.ChunkState.fillBuf, absCS_buf_len g hI]

/-- **`ChunkState::update` = model**, statement by statement (fill a partial buffer and compress it when more input
follows; the `while input.len() > BLOCK_LEN` loop; buffer the rest), for every kernel, every state satisfying `CsInv`
and every input, as long as the `u8` block counter cannot overflow: the checked `blocks_compressed += 1` never panics
when at most 255 blocks get compressed.  The invariant is re-established. -/
theorem chunkstate_update_eq_model (K : Kern) (g : ChunkState) (input : List UInt8) (hI : CsInv g)
    (hb : g.blocks_compressed.toNat + (g.buf_len.toNat + input.length) / 64 ≤ 255) :
    ∃ g', ChunkState.update K.cip g input = .ok g' ∧ absCS g' = (absCS g).update K input ∧ CsInv g' :=
  cs_update_ok K g input hI hb

/-- **No panic inside a chunk.**  Starting from `ChunkState::new`, any sequence of updates totalling at most
`CHUNK_LEN = 1024` bytes runs without panic (in particular `blocks_compressed : u8` never overflows: it ends at most
at 16), equals the model's updates, and counts the bytes. -/
theorem chunkstate_update_no_panic (K : Kern) (key : CV) (t : Nat) (flags : UInt8) (xs : List (List UInt8))
    (h : xs.flatten.length ≤ 1024) :
    ∃ g, updatesG K (newG key t flags) xs = .ok g ∧
      absCS g = xs.foldl (fun cs x => cs.update K x) (Rs.ChunkState.new key t flags) ∧ CsInv g ∧
      ChunkState.count g = .ok xs.flatten.length ∧ g.blocks_compressed.toNat ≤ 16 := by
  have h0 : (absCS (newG key t flags)).count = 0 := by rw [newG_abs]; rfl
  obtain ⟨g, h1, h2, h3, h4⟩ := updatesG_ok K xs (newG key t flags) (newG_inv key t flags) (by rw [h0]; omega)
  rw [h0, Nat.zero_add] at h4
  refine ⟨g, h1, by rw [h2, newG_abs], h3, by rw [cs_count_ok g h3, h4], ?_⟩
  have : (absCS g).count = 64 * g.blocks_compressed.toNat + g.buf_len.toNat := by
    simp only [Rs.ChunkState.count, absCS_buf_len g h3]; rfl
  omega

/-- … and with the specification's kernel the result is the model's single update with the concatenated input -/
theorem chunkstate_updates_flatten (key : CV) (t : Nat) (flags : UInt8) (xs : List (List UInt8))
    (h : xs.flatten.length ≤ 1024) :
    ∃ g, updatesG Kern.spec (newG key t flags) xs = .ok g ∧
      absCS g = (Rs.ChunkState.new key t flags).update Kern.spec xs.flatten ∧
      (∃ o, ChunkState.output g = .ok o ∧ toNode o = Spec.chunkNode key flags t xs.flatten) := by
  obtain ⟨g, h1, h2, h3, _⟩ := chunkstate_update_no_panic Kern.spec key t flags xs h
  rw [foldl_update_flatten _ (by simp [Rs.ChunkState.new])] at h2
  obtain ⟨o, h4, h5⟩ := cs_output_ok g h3
  exact ⟨g, h1, h2, o, h4, by rw [h5, h2, new_update_output]⟩

/-- the constructor the crate offers for each mode -/
def ctorOf (K : Kern) (hao : List UInt8 → CV → UInt8 → Output) : Spec.Mode → R Hasher
  | .hash => Hasher.new
  | .keyed k => Hasher.new_keyed k
  | .derive ctx => Hasher.new_derive_key K.cip hao ctx

/-- **`Hasher::new`, `new_keyed`, `new_derive_key` (through `hazmat::hash_derive_key_context`), `new_internal`,
`HasherExt::new_from_context_key` = model**: the state is `newInternal` of the model's key words and flags of the mode
(`absH` reads stack entries as words); no panic; the chunk state satisfies `CsInv`.  `hash_all_at_once` is a given
function with contract `HaoSpec` (it returns the model's `hashAllAtOnce` node). -/
theorem hasher_ctors_eq_model (K : Kern) (sd : Nat) (hao : List UInt8 → CV → UInt8 → Output) (hH : HaoSpec K sd hao) :
    (∀ mode, ∃ g, ctorOf K hao mode = .ok g ∧
      absH g = Rs.Hasher.newInternal (Rs.modeKeyWords K sd mode) (Rs.modeFlags mode) ∧ CsInv g.chunk_state) ∧
    (∀ key flags, ∃ g, Hasher.new_internal key flags = .ok g ∧ absH g = Rs.Hasher.newInternal key flags ∧ CsInv g.chunk_state) ∧
    (∀ ck, ∃ g, Hasher.new_from_context_key ck = .ok g ∧
      absH g = Rs.Hasher.newInternal (wordsOfBytes 8 ck) Spec.DERIVE_KEY_MATERIAL ∧ CsInv g.chunk_state) ∧
    (∀ ctx, hash_derive_key_context K.cip hao ctx
      = .ok (Rs.rootHash K (Rs.hashAllAtOnce K Spec.IV Spec.DERIVE_KEY_CONTEXT sd ctx))) := by
  refine ⟨?_, fun key flags => ⟨_, new_internal_ok key flags, newInternalG_abs key flags, newInternalG_inv key flags⟩,
    fun ck => ⟨_, hasher_new_from_context_key_ok ck, newInternalG_abs _ _, newInternalG_inv _ _⟩,
    hash_derive_key_context_ok K sd hao hH⟩
  intro mode
  cases mode with
  | hash => exact ⟨_, hasher_new_ok, by rw [newInternalG_abs, iv_eq]; rfl, newInternalG_inv _ _⟩
  | keyed k => exact ⟨_, hasher_new_keyed_ok k, by rw [newInternalG_abs]; rfl, newInternalG_inv _ _⟩
  | derive ctx => exact ⟨_, hasher_new_derive_key_ok K sd hao hH ctx, by rw [newInternalG_abs]; rfl, newInternalG_inv _ _⟩

/-- **`Hasher::reset` = model**, for every hasher state whatsoever (no invariant needed): the result is the freshly
constructed hasher of the same key and flags — including `initial_chunk_counter = 0` (finding C10) — and cannot panic. -/
theorem reset_eq_model (g : Hasher) :
    ∃ g', Hasher.reset g = .ok g' ∧ absH g' = (absH g).reset ∧
      absH g' = Rs.Hasher.newInternal g.key g.chunk_state.flags ∧ Hasher.new_internal g.key g.chunk_state.flags = .ok g' ∧
      CsInv g'.chunk_state ∧ g'.initial_chunk_counter = 0 :=
  ⟨_, hasher_reset_ok g, by rw [newInternalG_abs]; rfl, newInternalG_abs _ _, rfl, newInternalG_inv _ _, rfl⟩

/-- **`Hasher::count`, `finalize`, `finalize_xof` = model, including their panics** (`optOf` maps a panic to `none`):
`count` panics exactly when the model's `count?` is `none` (`chunk_counter < initial_chunk_counter`, or the byte count
does not fit in `u64`); `finalize` / `finalize_xof` panic exactly when `initial_chunk_counter ≠ 0`.
`final_output` is a given function with contract `FoSpec` at this state. -/
theorem hasher_finalize_eq_model (K : Kern) (fo : Hasher → R Output) (g : Hasher) (hI : CsInv g.chunk_state)
    (hfo : FoSpec K fo g) :
    optOf (Hasher.count g) = (absH g).count? ∧
    optOf (Hasher.finalize K.cip fo g) = (absH g).finalize K ∧
    (g.initial_chunk_counter = 0 →
      ∃ r, Hasher.finalize_xof fo g = .ok r ∧ absR r = Rs.OutputReader.new ((absH g).finalOutput K) ∧
        r.position_within_block.toNat < 64) ∧
    (g.initial_chunk_counter ≠ 0 → Hasher.finalize_xof fo g = .panic) :=
  ⟨hasher_count_ok g hI, hasher_finalize_ok K fo g hfo, (hasher_finalize_xof_ok K fo g hfo).1, (hasher_finalize_xof_ok K fo g hfo).2⟩

/-- **hazmat = model, including the documented panics**: `set_input_offset` (both assertions), `finalize_non_root`
(the empty-subtree assertion), and `merge_subtrees_non_root / root / root_xof` through `merge_subtrees_inner`,
`Mode::key_words`, `Mode::flags_byte` (`keyOf`, `flagsOf`: the model's key words and flags of the mode, see
`keyOf_modeOf`). -/
theorem hazmat_eq_model (K : Kern) (fo : Hasher → R Output) (g : Hasher) (hI : CsInv g.chunk_state) (offset : Nat)
    (l r : CV) (m : Mode) :
    ((optOf (Hasher.set_input_offset g offset)).map absH = (absH g).setInputOffset offset ∧
      ∀ g', Hasher.set_input_offset g offset = .ok g' → CsInv g'.chunk_state ∧ g'.key = g.key ∧ g'.cv_stack = g.cv_stack) ∧
    (FoSpec K fo g → optOf (Hasher.finalize_non_root K.cip fo g) = ((absH g).finalizeNonRoot K).map bytesOfWords) ∧
    merge_subtrees_non_root K.cip (bytesOfWords l) (bytesOfWords r) m
      = .ok (bytesOfWords (Rs.parentCV K (keyOf m) (flagsOf m) l r)) ∧
    merge_subtrees_root K.cip (bytesOfWords l) (bytesOfWords r) m
      = .ok (Rs.rootHash K (Rs.parentOutput (keyOf m) (flagsOf m) l r)) ∧
    (∃ rd, merge_subtrees_root_xof (bytesOfWords l) (bytesOfWords r) m = .ok rd ∧
      absR rd = Rs.OutputReader.new (Rs.parentOutput (keyOf m) (flagsOf m) l r) ∧ rd.position_within_block.toNat < 64) :=
  ⟨hasher_set_input_offset_ok g offset hI, hasher_finalize_non_root_ok K fo g hI, merge_non_root_ok K l r m,
    merge_root_ok K l r m, merge_root_xof_ok l r m⟩

/-- **`OutputReader::new`, `fill_one_block`, `fill` = model**, for every reader with `position_within_block < 64`
(true of `new` and preserved), every destination buffer `dst` and every kernel, provided the read stays below the
end of the stream: `position + dst.len() < 2^64` (then neither `counter += 1` nor `counter += full_blocks` can
overflow).  The generated code runs on a destination `done ++ cur` (`MutSlice`), starts with `done = []`, `cur = dst`
and returns with `cur = []` and `done` = the bytes the model's `fill` returns for `dst.length`; the reader it leaves
is the model's; the position advanced by `dst.length`.  `xof_many` is the kernel `xofManyK K` (the `n / 64`
`compress_xof` blocks with consecutive counters), which is the model's `xofMany` (`xofManyK_eq`). -/
theorem reader_fill_eq_model (K : Kern) (r : OutputReader) (dst : List UInt8) (hp : r.position_within_block.toNat < 64)
    (hpos : posG r + dst.length < 2 ^ 64) :
    ∃ r', OutputReader.fill K.cxof (xofManyK K) r ⟨[], dst⟩ = .ok (r', ⟨((absR r).fill K dst.length).1, []⟩) ∧
      absR r' = ((absR r).fill K dst.length).2 ∧ r'.position_within_block.toNat < 64 ∧
      ((absR r).fill K dst.length).1.length = dst.length ∧ posG r' = posG r + dst.length ∧
      posG r = (absR r).position := by
  obtain ⟨r', h1, h2, h3, h4, h5⟩ := fill_ok K r [] dst hp hpos
  exact ⟨r', by simpa using h1, h2, h3, h4, h5, rfl⟩

/-- `OutputReader::new` and one `fill_one_block` step, in the same terms -/
theorem reader_new_fill_one_block_eq_model (K : Kern) (o : Output) (r : OutputReader) (d c : List UInt8)
    (hp : r.position_within_block.toNat < 64) (hc : r.inner.counter + 1 < 2 ^ 64) :
    (∃ r0, OutputReader.new o = .ok r0 ∧ absR r0 = Rs.OutputReader.new (toNode o) ∧ r0.position_within_block.toNat < 64) ∧
    (∃ r', OutputReader.fill_one_block K.cxof r ⟨d, c⟩
        = .ok (r', ⟨d ++ ((absR r).fillOneBlock K c.length).1, c.drop ((absR r).fillOneBlock K c.length).1.length⟩) ∧
      absR r' = ((absR r).fillOneBlock K c.length).2 ∧ r'.position_within_block.toNat < 64) := by
  obtain ⟨r', h1, h2, h3, _⟩ := fill_one_block_ok K r d c hp hc
  exact ⟨⟨_, rfl, rfl, (by decide : (0 : UInt8).toNat < 64)⟩, r', h1, h2, h3⟩

/-! #### the hypotheses are satisfiable -/

/-- `CsInv` and the block-counter bound hold for a fresh chunk state and a whole chunk of input -/
example : CsInv (newG Spec.IV 7 Spec.KEYED_HASH) ∧
    (newG Spec.IV 7 Spec.KEYED_HASH).blocks_compressed.toNat + ((newG Spec.IV 7 Spec.KEYED_HASH).buf_len.toNat + 1024) / 64 ≤ 255 :=
  ⟨newG_inv _ _ _, by decide⟩

/-- the contract of `final_output` holds, for the skeleton generated from `Hasher::final_output`, at a fresh hasher -/
example (K : Kern) (key : CV) (flags : UInt8) : FoSpec K (foSkel K) (newInternalG key flags) :=
  foSkel_spec K _ (newInternalG_inv key flags) (Or.inl rfl)

/-- the contract of `hash_all_at_once` holds for the model's function -/
example (K : Kern) (sd : Nat) : ∃ hao, HaoSpec K sd hao := ⟨_, haoSpec_model K sd⟩

/-- a reader in the middle of block 5, reading 1000 bytes: the hypotheses of `reader_fill_eq_model` hold -/
example (o : Output) :
    let r : OutputReader := { inner := { o with counter := 5 }, position_within_block := 17 }
    r.position_within_block.toNat < 64 ∧ posG r + (List.replicate 1000 (0 : UInt8)).length < 2 ^ 64 := by
  refine ⟨(by decide : (17 : UInt8).toNat < 64), ?_⟩
  simp only [posG, List.length_replicate]
  have : (17 : UInt8).toNat = 17 := rfl
  omega

end B3.Proofs.RsState

