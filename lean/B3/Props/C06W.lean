/-
Property theorems about the code TRANSLATED from the sources (artefact proofs in B3/Proofs/CWide*.lean): generated = model for all inputs,
and the property-level facts restated for the generated functions.  Theorem statements only; helper lemmas are in the Proofs file.
-/
import B3.Proofs.CWide
import B3.Props.C05P
namespace B3.Proofs.CWide
open B3 B3.Arith B3.CMem B3.Gen.CState B3.Gen.CWide B3.Gen.PortableMany B3.Proofs.CS
open B3.Gen.RsUpdate (cvsBytes)
open B3.Proofs.PortableMany (HashManySpecC genKC)

/-! ### main theorems -/

section main
variable (K : Kern) (sd : Nat) (junk : Nat → Nat → UInt8) (P : Plat)

/-- **`compress_chunks_parallel` = the leaves.**  For `0 < input_len <= MAX_SIMD_DEGREE * 1024` bytes available at `input`
the translated function writes the little-endian bytes of the model's chunk chaining values (`Rs.leafCV`, counters from
`t`) at `out + out_off` (`splice`: everything else of the array unchanged) and returns their number.  `= .ok` includes: every
write to `chunks_array[MAX_SIMD_DEGREE]` and to `out`, every read of `input` and of the local chunk state is in range. -/
theorem c_compress_chunks_parallel_eq_model (hspec : HashManySpecC K P.blake3_hash_many) (input : List UInt8) (L : Nat)
    (key : CV) (t : Nat) (flags : UInt8) (out : List UInt8) (off : Nat) (hpos : 0 < L) (hL : L ≤ input.length)
    (hcap : L ≤ P.MAX_SIMD_DEGREE * 1024) (hM : P.MAX_SIMD_DEGREE ≤ 2 ^ 16)
    (hout : off + 32 * Hs.nchunks 10 L ≤ out.length) (hol : out.length < 2 ^ 64) (hctr : t + Hs.nchunks 10 L ≤ 2 ^ 64) :
    compress_chunks_parallel (envOf K sd junk) P input L key t flags out off
      = .ok (splice out off (cvsBytes (Hs.allLeaves 10 (Rs.leafCV K key flags) t (input.take L))),
             (Hs.allLeaves 10 (Rs.leafCV K key flags) t (input.take L)).length) :=
  chunksC_eq K sd junk P hspec input L key t flags out off hpos hL hcap hM hout hol hctr

/-- **`compress_parents_parallel` = one layer of parents** (`Tr.pairUp`, an odd child copied through by the `memcpy`), for
`child_chaining_values` pointing to the bytes of `cvs` (followed by anything).  `= .ok` includes: every write to
`parents_array[MAX_SIMD_DEGREE_OR_2]` and `out` is in range. -/
theorem c_compress_parents_parallel_eq_model (E : Env) (hspec : HashManySpecC K P.blake3_hash_many) (cvs : List CV)
    (rest : List UInt8) (key : CV) (flags : UInt8) (out : List UInt8) (off : Nat)
    (hcap : cvs.length ≤ 2 * P.MAX_SIMD_DEGREE_OR_2) (hM : P.MAX_SIMD_DEGREE ≤ 2 ^ 16)
    (hout : off + 32 * ((cvs.length + 1) / 2) ≤ out.length) (hol : out.length < 2 ^ 64) :
    compress_parents_parallel E P (cvsBytes cvs ++ rest) cvs.length key flags out off
      = .ok (splice out off (cvsBytes (Tr.pairUp (Rs.parentCV K key flags) cvs)),
             (Tr.pairUp (Rs.parentCV K key flags) cvs).length) :=
  parentsC_eq K P E hspec cvs rest key flags out off hcap hM hout hol

/-- **`blake3_compress_subtree_wide` = `Rs.wide`** (chaining values <-> bytes), serial build: for every non-empty input of
`input_len < 2^64` bytes available at `input`, every key / flags / counter (not wrapping), every platform with a
power-of-two degree not above `MAX_SIMD_DEGREE`, whatever `use_tbb`; the recursion needs no more fuel than `input_len`;
`cv_array[2 * MAX_SIMD_DEGREE_OR_2 * BLAKE3_OUT_LEN]` holds both halves at every level of the recursion. -/
theorem c_compress_subtree_wide_eq_model (hspec : HashManySpecC K P.blake3_hash_many) (hp : PlatOkC P sd) (tbb : Bool)
    (input : List UInt8) (L : Nat) (key : CV) (t : Nat) (flags : UInt8) (out : List UInt8) (off : Nat)
    (hpos : 0 < L) (hL : L ≤ input.length) (hlt : L < 2 ^ 64) (hctr : t + Hs.nchunks 10 L ≤ 2 ^ 64)
    (hout : off + 32 * (Rs.wide K key flags sd t (input.take L)).length ≤ out.length) (hol : out.length < 2 ^ 64) :
    blake3_compress_subtree_wide (envOf K sd junk) P L input L key t flags out off tbb
      = .ok (splice out off (cvsBytes (Rs.wide K key flags sd t (input.take L))),
             (Rs.wide K key flags sd t (input.take L)).length) :=
  wideC_eq K sd junk P hspec hp tbb L input L key t flags out off (Nat.le_refl _) hpos hL hlt hctr hout hol

/-- **the TBB build** (`BLAKE3_USE_TBB`: the two recursive calls go through `blake3_compress_subtree_wide_join_tbb` of
c/blake3_tbb.cpp, translated from that file and inlined) is the same function as the serial build - for every environment,
platform, fuel and argument - hence equals `Rs.wide` too -/
theorem c_compress_subtree_wide_tbb_eq_model (hspec : HashManySpecC K P.blake3_hash_many) (hp : PlatOkC P sd) (tbb : Bool)
    (input : List UInt8) (L : Nat) (key : CV) (t : Nat) (flags : UInt8) (out : List UInt8) (off : Nat)
    (hpos : 0 < L) (hL : L ≤ input.length) (hlt : L < 2 ^ 64) (hctr : t + Hs.nchunks 10 L ≤ 2 ^ 64)
    (hout : off + 32 * (Rs.wide K key flags sd t (input.take L)).length ≤ out.length) (hol : out.length < 2 ^ 64) :
    (∀ (E : Env) (fuel : Nat), blake3_compress_subtree_wide_tbb E P fuel = blake3_compress_subtree_wide E P fuel) ∧
    blake3_compress_subtree_wide_tbb (envOf K sd junk) P L input L key t flags out off tbb
      = .ok (splice out off (cvsBytes (Rs.wide K key flags sd t (input.take L))),
             (Rs.wide K key flags sd t (input.take L)).length) := by
  refine ⟨fun E fuel => wide_tbb_eq_serial P E fuel, ?_⟩
  rw [wide_tbb_eq_serial]
  exact c_compress_subtree_wide_eq_model K sd junk P hspec hp tbb input L key t flags out off hpos hL hlt hctr hout hol

/-- what the obligation `hout` above needs: `Rs.wide` returns at most `max sd 2 <= MAX_SIMD_DEGREE_OR_2` chaining values -/
theorem c_wide_length_le (hp : PlatOkC P sd) (key : CV) (flags : UInt8) (t : Nat) (input : List UInt8) (hpos : 0 < input.length) :
    (Rs.wide K key flags sd t input).length ≤ P.MAX_SIMD_DEGREE_OR_2 := by
  obtain ⟨⟨j, hsd⟩, hM, hMM2, h2M2, _⟩ := platOk_of P sd hp
  obtain ⟨_, _, w3, _⟩ := Hs.wide_spec (Rs.parentCV K key flags) key 10 (Rs.leafCV K key flags) sd j hsd _ t input rfl hpos
  unfold Rs.wide; omega

/-- **`compress_subtree_to_parent_node` = `Rs.toParentNode`**: for every input of more than one chunk the translated function
(local arrays `cv_array[MAX_SIMD_DEGREE_OR_2 * 32]`, `out_array[MAX_SIMD_DEGREE_OR_2 * 32 / 2]`, the `assert`, the conditionally
compiled condensing loop, the copies `out_array -> cv_array -> out`) writes the 64 bytes of the model's pair to `out` -/
theorem c_compress_subtree_to_parent_node_eq_model (hspec : HashManySpecC K P.blake3_hash_many) (hp : PlatOkC P sd) (tbb : Bool)
    (input : List UInt8) (L : Nat) (key : CV) (t : Nat) (flags : UInt8) (out : List UInt8) (hbig : 1024 < L)
    (hL : L ≤ input.length) (hlt : L < 2 ^ 64) (hctr : t + Hs.nchunks 10 L ≤ 2 ^ 64) (ho : 64 ≤ out.length) :
    compress_subtree_to_parent_node (envOf K sd junk) P input L key t flags out tbb
      = .ok (pairBytes (Rs.toParentNode K key flags sd t (input.take L)) ++ out.drop 64) :=
  tpnC_eq K sd junk P hspec hp tbb input L key t flags out hbig hL hlt hctr ho

/-- the translated function meets the contract `blake3_hasher_update` needs -/
theorem c_tpn_meets_contract (hspec : HashManySpecC K P.blake3_hash_many) (hp : PlatOkC P sd) :
    TpnSpecC K sd (envFull K sd junk P).compress_subtree_to_parent_node := by
  intro input L key t flags out tbb h1 h2 h3 h4 ho
  show orElse (compress_subtree_to_parent_node (envOf K sd junk) P input L key t flags out tbb) out = _
  rw [tpnC_eq K sd junk P hspec hp tbb input L key t flags out h1 h2 h3 h4 (by omega)]
  show pairBytes _ ++ out.drop 64 = _
  rw [List.drop_of_length_le (by omega), List.append_nil]

/-- the environment is closed: its `compress_subtree_to_parent_node` field is the translated function run in that same
environment (the wide functions do not use the field, so there is no circularity) -/
theorem envFull_closed (input : List UInt8) (len : Nat) (key : CV) (ctr : Nat) (fl : UInt8) (out : List UInt8) (tbb : Bool) :
    (envFull K sd junk P).compress_subtree_to_parent_node input len key ctr fl out tbb
      = orElse (compress_subtree_to_parent_node (envFull K sd junk P) P input len key ctr fl out tbb) out := by
  unfold envFull
  rw [tpn_T]
  rfl

/-- **`blake3_hasher_update` with the translated subtree layer = the model's `C.update`.**  In the closed environment
`envFull` - `blake3_hasher_update_base` (Gen/CState.lean) calling the translated `compress_subtree_to_parent_node` ->
`blake3_compress_subtree_wide` -> `compress_chunks_parallel` / `compress_parents_parallel` (Gen/CWide.lean), only
`blake3_hash_many` (by its contract), `blake3_simd_degree`, `MAX_SIMD_DEGREE` and the single-block `blake3_compress_in_place`
(kernel `K`) left open - for every reachable hasher, every C struct representing it and every input that keeps the total
below 2^64 bytes, the translated function does not panic (no out-of-bounds access to any array, no failed assertion) and
returns a struct representing the model's `C.update`, which is again reachable. -/
theorem c_hasher_update_full (hspec : HashManySpecC K P.blake3_hash_many) (hp : PlatOkC P sd) {g : blake3_hasher}
    {h : Rs.Hasher} {n : Nat} (hreach : Reach K sd h n) (hr : HRel g h) (input : List UInt8) (input_len : Nat)
    (hl : input_len ≤ input.length) (htot : n + input_len < 2 ^ 64) :
    ∃ g', blake3_hasher_update (envFull K sd junk P) g input input_len = .ok g' ∧
      HRel g' (C.update K sd h (input.take input_len)) ∧
      Reach K sd (C.update K sd h (input.take input_len)) (n + input_len) := by
  obtain ⟨hs, ha, _⟩ := reach_rep K sd hreach
  obtain ⟨g', e, a, _, _⟩ := hasher_update_eqT K sd junk _ (c_tpn_meets_contract K sd junk P hspec hp) hr hs input input_len hl
    (by rw [ha]; exact htot)
  refine ⟨g', e, a, ?_⟩
  have := Reach.update (K := K) (sd := sd) (input.take input_len) hreach (by rw [List.length_take]; omega)
  rw [List.length_take, Nat.min_eq_left hl] at this
  exact this

/-- **the portable C build, nothing assumed**: `blake3_hash_many` = the translated `blake3_hash_many_portable`, kernel = the
`compress_in_place` generated from c/blake3_portable.c (`genKC`, = `Spec.compress`), any `MAX_SIMD_DEGREE` up to 2^16 and any
power-of-two degree below it (c/blake3_dispatch.c returns 1 when no SIMD is available) -/
theorem c_hasher_update_portable (junk' : Nat → Nat → UInt8) (M : Nat) (hM : M ≤ 2 ^ 16) (j : Nat) (hsd : 2 ^ j ≤ M)
    {g : blake3_hasher} {h : Rs.Hasher} {n : Nat} (hreach : Reach genKC (2 ^ j) h n) (hr : HRel g h) (input : List UInt8)
    (input_len : Nat) (hl : input_len ≤ input.length) (htot : n + input_len < 2 ^ 64) :
    ∃ g', blake3_hasher_update (envFull genKC (2 ^ j) junk (portablePlat junk' M (2 ^ j))) g input input_len = .ok g' ∧
      HRel g' (C.update genKC (2 ^ j) h (input.take input_len)) :=
  let ⟨g', e, a, _⟩ := c_hasher_update_full genKC (2 ^ j) junk (portablePlat junk' M (2 ^ j))
    (PortableMany.c_portable_hash_many_spec ⟨junk'⟩) ⟨rfl, ⟨j, rfl⟩, hsd, hM⟩ hreach hr input input_len hl htot
  ⟨g', e, a⟩

/-- non-vacuity: the hypotheses of `c_hasher_update_full` are met by a fresh hasher on the x86 constants -/
example (junk' : Nat → Nat → UInt8) (x : List UInt8) (hx : x.length < 2 ^ 64) :
    ∃ g g', HRel g (C.initBase Spec.IV 0) ∧
      blake3_hasher_update (envFull genKC 8 junk (portablePlat junk' 16 8)) g x x.length = .ok g' ∧
      HRel g' (C.update genKC 8 (C.initBase Spec.IV 0) x) := by
  obtain ⟨_, _, g, hg⟩ := reach_rep genKC 8 (Reach.init Spec.IV 0)
  obtain ⟨g', e, a⟩ := c_hasher_update_portable junk junk' 16 (by omega) 3 (by omega) (Reach.init Spec.IV 0) hg x x.length
    (Nat.le_refl _) (by omega)
  rw [List.take_length] at a
  exact ⟨g, g', hg, e, a⟩

end main

end B3.Proofs.CWide

