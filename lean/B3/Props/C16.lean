/-
C16 - property theorems: the RustCrypto trait methods and the guts API, as written in src/traits.rs
and src/guts.rs, are compositions of the inherent operations.
-/
import B3.Model.Traits
import B3.Proofs.Final
import B3.Proofs.GenK
namespace B3.Props.C16
open B3 B3.Rs

theorem update_eq_inherent (sd : Nat) (h : Hasher) (x : List UInt8) : Traits.update genK sd h x = h.update genK sd x := rfl
theorem reset_eq_inherent (h : Hasher) : Traits.reset h = h.reset := rfl
theorem finalize_into_eq_inherent (h : Hasher) : Traits.finalizeInto genK h = h.finalize genK := rfl

/-- `finalize_into_reset` returns the hash of what was absorbed and leaves the freshly constructed
state of the same key and mode flags behind -/
theorem finalize_into_reset_spec (h : Hasher) (out : List UInt8) (h' : Hasher)
    (hr : Traits.finalizeIntoReset genK h = some (out, h')) :
    h.finalize genK = some out ∧ h' = Hasher.newInternal h.key h.cs.flags := by
  unfold Traits.finalizeIntoReset at hr
  cases hf : h.finalize genK with
  | none => simp [hf] at hr
  | some o => simp [hf] at hr; exact ⟨by rw [hr.1], hr.2.symm⟩

/-- `finalize_xof_reset`: the reader is the one `finalize_xof` returns, the hasher is reset -/
theorem finalize_xof_reset_spec (h : Hasher) (r : OutputReader) (h' : Hasher)
    (hr : Traits.finalizeXofReset genK h = some (r, h')) :
    Traits.finalizeXof genK h = some r ∧ h' = Hasher.newInternal h.key h.cs.flags := by
  unfold Traits.finalizeXofReset at hr
  cases hf : Traits.finalizeXof genK h with
  | none => simp [hf] at hr
  | some o => simp [hf] at hr; exact ⟨by rw [hr.1], hr.2.symm⟩

theorem xof_read_eq_fill (r : OutputReader) (n : Nat) : Traits.xofRead genK r n = r.fill genK n := rfl

/-- `KeyInit::new` is `new_keyed`; `new_from_slice` accepts exactly 32-byte keys -/
theorem key_init (key : List UInt8) :
    Traits.keyInitNew key = Hasher.newInternal (wordsOfBytes 8 key) Spec.KEYED_HASH ∧
    (Traits.keyInitNewFromSlice key = none ↔ key.length ≠ 32) := by
  refine ⟨rfl, ?_⟩
  unfold Traits.keyInitNewFromSlice
  split <;> simp_all

/-- guts::ChunkState: for every chunk counter and every split of the chunk's bytes into updates, the
non-root finalization is the chaining value of the specification's chunk node (hash mode) -/
theorem guts_chunk_eq_spec (t : Nat) (xs : List (List UInt8)) :
    Traits.gutsFinalize genK (xs.foldl (Traits.gutsUpdate genK) (Traits.gutsNew t)) false
      = some (bytesOfWords (Spec.chunkNode Spec.IV 0 t xs.flatten).chain) := by
  rw [Proofs.genK_eq_spec]
  have key : ∀ (ys : List (List UInt8)) (pre : List UInt8),
      ys.foldl (Traits.gutsUpdate Kern.spec) ((ChunkState.new Spec.IV t 0).update Kern.spec pre)
        = (ChunkState.new Spec.IV t 0).update Kern.spec (pre ++ ys.flatten) := by
    intro ys
    induction ys with
    | nil => intro pre; simp
    | cons y ys ih =>
      intro pre
      simp only [List.foldl_cons, Traits.gutsUpdate, List.flatten_cons]
      rw [Proofs.new_update_update, ih, List.append_assoc]
  have h0 : Traits.gutsNew t = (ChunkState.new Spec.IV t 0).update Kern.spec [] := (Proofs.new_update_empty _ _ _).symm
  rw [h0, key, List.nil_append]
  simp only [Traits.gutsFinalize, Bool.false_eq_true, if_false]
  rw [Proofs.new_update_output, Proofs.chain_eq _ (by unfold Spec.chunkNode; exact Proofs.chunkGo_blen _ _ _ _ _)]

/-- `guts::parent_cv` (non-root) is the specification's parent chaining value in hash mode -/
theorem guts_parent_eq_spec (l r : CV) :
    Traits.gutsParentCv genK l r false = bytesOfWords (Spec.parentCV Spec.IV 0 l r) := by
  rw [Proofs.genK_eq_spec]
  simp only [Traits.gutsParentCv, Bool.false_eq_true, if_false]
  rw [Proofs.chain_parentOutput]

example : Traits.keyInitNewFromSlice (List.replicate 31 0) = none := by decide

end B3.Props.C16
