/-
C08 - property theorems: the two halves of every split in `compress_subtree_wide` write disjoint
parts of `cv_array`, so every interleaving of the halves produces the same array; the model's
`update` has no schedule parameter at all, so `update_rayon` (= `update_with_join::<RayonJoin>`) and
`update` are the same state transformer once the halves are shown independent.
-/
import B3.Proofs.Conc
import B3.Tree.Wide
import B3.Model.GenK
import B3.Gen.Listings
namespace B3.Props.C08
open B3 B3.Rs B3.Conc

/-- the writes one half performs: its chaining values, stored at consecutive slots from `base` -/
def writesOf (base : Nat) (cvs : List CV) : List (Write CV) := (List.range cvs.length).zip cvs |>.map fun p => (base + p.1, p.2)

theorem writesOf_idx (base : Nat) (cvs : List CV) : ∀ w ∈ writesOf base cvs, base ≤ w.1 ∧ w.1 < base + cvs.length := by
  intro w hw
  simp only [writesOf, List.mem_map] at hw
  obtain ⟨p, hp, rfl⟩ := hw
  have := List.of_mem_zip hp
  have h1 := List.mem_range.mp this.1
  simp; omega

/-- the number of chaining values the left half returns never exceeds the offset at which the right
half starts writing (`degree`): for a complete left subtree of `2^a` chunks the left half returns
`if 2^a ≤ sd then 2^a else max sd 2` values, and the code places the right half at
`degree = if left is one chunk then 1 else max sd 2` -/
theorem left_count_le_degree (key : CV) (flags : UInt8) (sd j a t : Nat) (hsd : sd = 2 ^ j) (input : List UInt8)
    (hlen : input.length = 2 ^ a * 2 ^ 10) :
    (wide genK key flags sd t input).length ≤ (if input.length = 2 ^ 10 then 1 else max sd 2) := by
  have hp := Nat.two_pow_pos a
  have hspec := Hs.wide_spec (parentCV genK key flags) key 10 (leafCV genK key flags) sd j hsd input.length t input rfl
    (by rw [hlen]; exact Nat.mul_pos hp (by decide))
  have hl := hspec.2.2.2 a hlen
  unfold wide
  rw [hl]
  by_cases h1 : input.length = 2 ^ 10
  · rw [if_pos h1]
    have : 2 ^ a = 1 := by
      rw [hlen] at h1
      have := Nat.eq_of_mul_eq_mul_right (show 0 < 2 ^ 10 by decide) (by simpa using h1 : 2 ^ a * 2 ^ 10 = 1 * 2 ^ 10)
      exact this
    rw [this]
    have hj := Nat.two_pow_pos j
    split <;> omega
  · rw [if_neg h1]
    split <;> omega

/-- **Schedule independence of one split.** Left half writes slots `[0, left_n)`, right half slots
`[degree, degree + right_n)` with `left_n ≤ degree`; therefore every interleaving of the two write
sequences (left first, right first, or truly concurrent) leaves `cv_array` in the same state. -/
theorem split_schedule_independent (l r : List CV) (degree : Nat) (hl : l.length ≤ degree)
    (zs : List (Write CV)) (hi : Interleave (writesOf 0 l) (writesOf degree r) zs) (mem : Nat → Option CV) :
    applyAll mem zs = applyAll (applyAll mem (writesOf 0 l)) (writesOf degree r) := by
  apply disjoint_writes_confluent hi
  intro x hx y hy
  have h1 := writesOf_idx 0 l x hx
  have h2 := writesOf_idx degree r y hy
  omega

/-- in particular left-first and right-first give the same array -/
theorem left_first_eq_right_first (l r : List CV) (degree : Nat) (hl : l.length ≤ degree) (mem : Nat → Option CV) :
    applyAll (applyAll mem (writesOf 0 l)) (writesOf degree r) = applyAll (applyAll mem (writesOf degree r)) (writesOf 0 l) := by
  have mk : ∀ (xs ys : List (Write CV)), Interleave xs ys (ys ++ xs) := by
    intro xs ys
    induction ys with
    | nil =>
      induction xs with
      | nil => exact .nil
      | cons x xs ih => exact .left x ih
    | cons y ys ih => exact .right y ih
  have := split_schedule_independent l r degree hl _ (mk _ _) mem
  rw [← this]
  simp [applyAll, List.foldl_append]

/-- **The join site, tied to the source** (regenerated listing of src/join.rs, of the `J::join` call in
`compress_subtree_wide`, and of the same site in c/blake3.c). Both `Join` implementations run each
closure exactly once and return both results (`SerialJoin`: left then right; `RayonJoin`: `rayon_core::join`
of the same two closures). The left half receives the left part of `input.split_at` and the left part of
`cv_array.split_at_mut(degree * OUT_LEN)`, the right half the right parts and its own chunk counter; the
only writable argument of each half is its own output slice, and the two come from one `split_at_mut`,
i.e. they are the disjoint ranges `[0, degree*OUT_LEN)` and `[degree*OUT_LEN, ..)` that
`split_schedule_independent` is about. The C library hands `cv_array` and `&cv_array[degree *
BLAKE3_OUT_LEN]` to the two halves in the serial build and, with the same arguments, to the TBB seam. -/
theorem join_site_footprints :
    Gen.Listings.joinBody_Serial = "(oper_a(),oper_b())" ∧
    Gen.Listings.joinBody_Rayon = "rayon_core::join(oper_a,oper_b)" ∧
    Gen.Listings.wideInputSplit = ["left", "right"] ∧
    Gen.Listings.wideOutSplit = ["left_out", "right_out", "degree*OUT_LEN"] ∧
    Gen.Listings.wideLeftArgs = ["left", "key", "chunk_counter", "flags", "platform", "left_out"] ∧
    Gen.Listings.wideRightArgs = ["right", "key", "right_chunk_counter", "flags", "platform", "right_out"] ∧
    Gen.Listings.cWideRightCvs = "degree*BLAKE3_OUT_LEN" ∧
    Gen.Listings.cWideLeftArgs = ["input", "left_input_len", "key", "chunk_counter", "flags", "cv_array", "use_tbb"] ∧
    Gen.Listings.cWideRightArgs = ["right_input", "right_input_len", "key", "right_chunk_counter", "flags", "right_cvs", "use_tbb"] ∧
    Gen.Listings.cWideTbbArgs = ["key", "flags", "use_tbb", "input", "left_input_len", "chunk_counter", "cv_array", "&left_n",
      "right_input", "right_input_len", "right_chunk_counter", "right_cvs", "&right_n"] := by
  refine ⟨rfl, rfl, rfl, rfl, rfl, rfl, rfl, rfl, rfl, rfl⟩

example : Interleave [(0, (1 : Nat))] [(5, 2)] [(5, 2), (0, 1)] := .right _ (.left _ .nil)

end B3.Props.C08
