/-
C17 - property theorems: Debug prints public fields only; zeroize clears every field except the
platform tag.  The field lists are regenerated from src/lib.rs on every run (Gen/Listings.lean).
-/
import B3.Gen.Listings
import B3.Model.Rs
namespace B3.Props.C17
open B3 B3.Rs B3.Gen.Listings

/-- the public view of a hasher state: everything Debug may depend on -/
structure PublicView where
  flags : UInt8
  chunkCounter : Nat
  count : Nat
  position : Nat
deriving DecidableEq

/-- renderers of the three Debug impls (what the Lean driver prints), as functions of the public view
and the platform name only -/
def renderHasher (v : PublicView) (plat : String) : String := s!"Hasher \{ flags: {v.flags.toNat}, platform: {plat} }"
def renderReader (v : PublicView) : String := s!"OutputReader \{ position: {v.position} }"
def renderChunkState (v : PublicView) (plat : String) : String :=
  s!"ChunkState \{ count: {v.count}, chunk_counter: {v.chunkCounter}, flags: {v.flags.toNat}, platform: {plat} }"

def viewOfHasher (h : Hasher) : PublicView := { flags := h.cs.flags, chunkCounter := h.cs.t, count := h.cs.count, position := 0 }

/-- the expressions each Debug impl prints (extracted from the source) are exactly the public ones:
flags, platform, counters, lengths, position - never `key`, `cv`, `buf`, `block`, `cv_stack` or
`input_chaining_value` -/
theorem debug_fields_public :
    debugExprs_Hasher = ["&self.chunk_state.flags", "&self.chunk_state.platform"] ∧
    debugExprs_OutputReader = ["&self.position()"] ∧
    debugExprs_ChunkState = ["&self.count()", "&self.chunk_counter", "&self.flags", "&self.platform"] ∧
    (∀ f ∈ debugFields_Hasher ++ debugFields_OutputReader ++ debugFields_ChunkState,
        f ∈ ["flags", "platform", "position", "count", "chunk_counter"]) := by
  refine ⟨rfl, rfl, rfl, ?_⟩
  simp [debugFields_Hasher, debugFields_OutputReader, debugFields_ChunkState]

/-- noninterference: two hashers with the same mode flags (whatever their keys, chaining values,
buffered bytes and stacks) print identically -/
theorem debug_noninterference (h1 h2 : Hasher) (plat : String) (hf : h1.cs.flags = h2.cs.flags) :
    renderHasher (viewOfHasher h1) plat = renderHasher (viewOfHasher h2) plat := by
  unfold renderHasher viewOfHasher
  rw [hf]

/-- two readers at the same position print identically whatever they would output -/
theorem debug_reader_noninterference (r1 r2 : OutputReader) (hp : r1.position = r2.position) :
    renderReader { flags := 0, chunkCounter := 0, count := 0, position := r1.position }
      = renderReader { flags := 0, chunkCounter := 0, count := 0, position := r2.position } := by
  rw [hp]

/-- every field of every struct is zeroized by its `Zeroize` impl, except `platform` (which is not
secret); the impls destructure `Self` exhaustively, so the compiler enforces the same list -/
theorem zeroize_fields_complete :
    (∀ f ∈ structFields_Output, f ∈ zeroized_Output ∨ f = "platform") ∧
    (∀ f ∈ structFields_ChunkState, f ∈ zeroized_ChunkState ∨ f = "platform") ∧
    (∀ f ∈ structFields_Hasher, f ∈ zeroized_Hasher) ∧
    (∀ f ∈ structFields_OutputReader, f ∈ zeroized_OutputReader) ∧
    zeroizeSkipped_Output = ["platform"] ∧ zeroizeSkipped_ChunkState = ["platform"] ∧
    zeroizeSkipped_Hasher = [] ∧ zeroizeSkipped_OutputReader = [] ∧ zeroized_Hash ≠ [] := by
  refine ⟨?_, ?_, ?_, ?_, rfl, rfl, rfl, rfl, ?_⟩ <;>
    simp [structFields_Output, zeroized_Output, structFields_ChunkState, zeroized_ChunkState, structFields_Hasher,
      zeroized_Hasher, structFields_OutputReader, zeroized_OutputReader, zeroized_Hash]

end B3.Props.C17
