/-
Property theorems about the code TRANSLATED from the sources (artefact proofs in B3/Proofs/RsUpdate*.lean): generated = model for all inputs,
and the property-level facts restated for the generated functions.  Theorem statements only; helper lemmas are in the Proofs file.
-/
import B3.Proofs.RsUpdate
namespace B3.Proofs.RsUpdate
open B3 B3.Arith B3.Gen.RsUpdate

/-! ### main theorems -/

section main
variable (K : Kern) (sd : Nat)
variable (hm : Nat → List (List UInt8) → CV → Nat → Bool → UInt8 → UInt8 → UInt8 → List CV → R (List CV)) (M M2 : Nat)
variable (tpn : List UInt8 → CV → Nat → UInt8 → R (List CV))

/-! #### part 2: the subtree functions

Arrays are `List CV` of the sizes declared in the source (`[0; 2 * MAX_SIMD_DEGREE_OR_2 * OUT_LEN]`,
`[0; MAX_SIMD_DEGREE_OR_2 * OUT_LEN]`, `[0; MAX_SIMD_DEGREE_OR_2 * OUT_LEN / 2]`, the ArrayVecs of capacity
MAX_SIMD_DEGREE / MAX_SIMD_DEGREE_OR_2); every write beyond an array, every `push` beyond a capacity and every call of
`hash_many` with a too small output panics in the translation (`pushCap`, `copyInto`, `setIdx`, `splitAt`, `sliceTo`,
`HashManySpec`). Each theorem concludes `.ok`: under the explicit obligations `PlatOk sd M M2` (degree a power of two,
`sd ≤ MAX_SIMD_DEGREE ≤ MAX_SIMD_DEGREE_OR_2`, `2 ≤ MAX_SIMD_DEGREE_OR_2`) the number of chaining values written never
exceeds the declared sizes. -/

/-- **`compress_parents_parallel` = `pairUp`** (one layer of parent nodes, an odd child copied through), written to the
front of `out`; returns the count. Obligations: at most `2 * MAX_SIMD_DEGREE_OR_2` children, room in `out`. -/
theorem compress_parents_parallel_eq_model (hspec : HashManySpec K hm) (cvs : List CV) (key : CV) (flags : UInt8)
    (out : List CV) (hcap : cvs.length ≤ 2 * M2) (hout : (cvs.length + 1) / 2 ≤ out.length) (hol : out.length < 2 ^ 64) :
    compress_parents_parallel (modelEnv K sd hm M M2 tpn) cvs key flags out
      = .ok ((Tr.pairUp (Rs.parentCV K key flags) cvs).length,
             Tr.pairUp (Rs.parentCV K key flags) cvs ++ out.drop (Tr.pairUp (Rs.parentCV K key flags) cvs).length) :=
  parents_eq K sd hm M M2 tpn hspec cvs key flags out hcap hout hol

/-- **`compress_chunks_parallel` = the leaves** (`leafCV` of every chunk of a non-empty input, counters from `t`).
Obligations: at most `MAX_SIMD_DEGREE` chunks, room in `out`, counters below 2^64. -/
theorem compress_chunks_parallel_eq_model (hspec : HashManySpec K hm) (input : List UInt8) (key : CV) (t : Nat)
    (flags : UInt8) (out : List CV) (hpos : 0 < input.length) (hcap : input.length ≤ M * 1024)
    (hout : Hs.nchunks 10 input.length ≤ out.length) (hol : out.length < 2 ^ 64)
    (hctr : t + Hs.nchunks 10 input.length ≤ 2 ^ 64) :
    compress_chunks_parallel (modelEnv K sd hm M M2 tpn) input key t flags out
      = .ok ((Hs.allLeaves 10 (Rs.leafCV K key flags) t input).length,
             Hs.allLeaves 10 (Rs.leafCV K key flags) t input
               ++ out.drop (Hs.allLeaves 10 (Rs.leafCV K key flags) t input).length) :=
  chunks_eq K sd hm M M2 tpn hspec input key t flags out hpos hcap hout hol hctr

/-- **`compress_subtree_wide` = `Rs.wide`**, for every non-empty input shorter than 2^64 bytes, every key / flags /
counter (not wrapping), every power-of-two degree; the fuel `input.len()` suffices for the recursion. -/
theorem compress_subtree_wide_eq_model (hspec : HashManySpec K hm) (hp : PlatOk sd M M2) (input : List UInt8) (key : CV)
    (t : Nat) (flags : UInt8) (out : List CV) (hpos : 0 < input.length) (hlt : input.length < 2 ^ 64)
    (hctr : t + Hs.nchunks 10 input.length ≤ 2 ^ 64)
    (hout : (Rs.wide K key flags sd t input).length ≤ out.length) (hol : out.length < 2 ^ 64) :
    compress_subtree_wide (modelEnv K sd hm M M2 tpn) input.length input key t flags out
      = .ok ((Rs.wide K key flags sd t input).length,
             Rs.wide K key flags sd t input ++ out.drop (Rs.wide K key flags sd t input).length) :=
  wide_eq K sd hm M M2 tpn hspec hp input.length input key t flags out (Nat.le_refl _) hpos hlt hctr hout hol

/-- what `hout` above needs: `wide` returns at most `max sd 2 ≤ MAX_SIMD_DEGREE_OR_2` chaining values -/
theorem wide_length_le (hp : PlatOk sd M M2) (key : CV) (flags : UInt8) (t : Nat) (input : List UInt8)
    (hpos : 0 < input.length) : (Rs.wide K key flags sd t input).length ≤ M2 := by
  obtain ⟨⟨j, hsd⟩, hM, hMM2, h2M2, _⟩ := hp
  obtain ⟨_, _, w3, _⟩ := Hs.wide_spec (Rs.parentCV K key flags) key 10 (Rs.leafCV K key flags) sd j hsd _ t input rfl hpos
  unfold Rs.wide; omega

/-- **`compress_subtree_to_parent_node` = `Rs.toParentNode`** (the 64-byte block as its two chaining values), for every
input the source accepts (`debug_assert!(input.len() > CHUNK_LEN)`) -/
theorem compress_subtree_to_parent_node_eq_model (hspec : HashManySpec K hm) (hp : PlatOk sd M M2) (input : List UInt8)
    (key : CV) (t : Nat) (flags : UInt8) (hbig : 1024 < input.length) (hlt : input.length < 2 ^ 64)
    (hctr : t + Hs.nchunks 10 input.length ≤ 2 ^ 64) :
    compress_subtree_to_parent_node (modelEnv K sd hm M M2 tpn) input key t flags
      = .ok [(Rs.toParentNode K key flags sd t input).1, (Rs.toParentNode K key flags sd t input).2] :=
  to_parent_node_eq K sd hm M M2 tpn hspec hp input key t flags hbig hlt hctr

theorem nchunks_le (n : Nat) (h : 0 < n) : Hs.nchunks 10 n ≤ n := by
  unfold Hs.nchunks; rw [two_pow_ten]; omega

/-- **`hash_all_at_once` = `Rs.hashAllAtOnce`**, for every input shorter than 2^64 bytes (the empty one included) -/
theorem hash_all_at_once_eq_model (hspec : HashManySpec K hm) (hp : PlatOk sd M M2) (input : List UInt8) (key : CV)
    (flags : UInt8) (hlt : input.length < 2 ^ 64) :
    hash_all_at_once (modelEnv K sd hm M M2 tpn) input key flags = .ok (Rs.hashAllAtOnce K key flags sd input) := by
  unfold hash_all_at_once Rs.hashAllAtOnce
  by_cases h : input.length ≤ 1024
  · rw [if_pos h, if_pos h]; rfl
  · rw [if_neg h, if_neg h]
    rw [to_parent_node_eq K sd hm M M2 tpn hspec hp input key 0 flags (by omega) hlt
      (by have := nchunks_le input.length (by omega); omega)]
    rfl

/-! #### part 1: `Hasher::update_with_join` -/

/-- `Hasher::update_with_join` as translated from src/lib.rs, run on a model hasher in the environment `modelEnv`: the
model's `ChunkState`, `chaining_value`, `parent_node_output`; `push_cv` / `merge_cv_stack` are the translated ones of
Gen/Skeleton.lean; `compress_subtree_to_parent_node` is `tpn`. The translated function returns the two fields it assigns
(`chunk_state`, `cv_stack`); `key` and `initial_chunk_counter` are not assigned. -/
def runUpdate (h : Rs.Hasher) (x : List UInt8) : R Rs.Hasher :=
  match update_with_join (modelEnv K sd hm M M2 tpn) h.key h.cs h.t0 h.stack x with
  | .ok r => .ok { key := h.key, cs := r.1, t0 := h.t0, stack := r.2 }
  | .panic => .panic

/-- **`update_with_join` = model.** For every hasher state and input satisfying `UpdPre` (representation facts, no u64
overflow of the byte position), every kernel, every SIMD degree, every `compress_subtree_to_parent_node` meeting
`TpnSpec` (the model's: `modelTpn_spec`; the translated one: `update_with_join_full` below): whenever the model's
`Hasher.update K sd` returns `some h'`, the translated function returns `.ok` of the same hasher - no `unwrap`, slice,
subtraction or overflow check fires and neither loop runs out of fuel. -/
theorem update_with_join_eq_model_of_tpn (htpn : TpnSpec K sd tpn) (h : Rs.Hasher) (x : List UInt8) (pre : UpdPre h x)
    (h' : Rs.Hasher) (hu : h.update K sd x = some h') : runUpdate K sd hm M M2 tpn h x = .ok h' := by
  have e := (uwj_main K sd hm M M2 tpn htpn h x).2 pre h' hu
  unfold runUpdate
  rw [e]
  have hk : h' = h.updateOk K sd x := by
    unfold Rs.Hasher.update at hu
    exact ite_some _ _ _ hu
  have := updateOk_key_t0 K sd h x
  rw [← hk] at this
  cases h'
  simp only at this ⊢
  rw [this.1, this.2]

/-- **the documented panic.** Where the model returns `none` (the `max_subtree_len` assertion of a hasher with a non-zero
input offset fails, or `self.count()` overflows), the translated function panics - for every state and input, without
any side condition. -/
theorem update_with_join_panics_of_tpn (htpn : TpnSpec K sd tpn) (h : Rs.Hasher) (x : List UInt8)
    (hu : h.update K sd x = none) : runUpdate K sd hm M M2 tpn h x = .panic := by
  unfold runUpdate
  rw [(uwj_main K sd hm M M2 tpn htpn h x).1 hu]

/-- **`update_with_join` = model**, instantiated with the model's `ChunkState` functions and `toParentNode` -/
theorem update_with_join_eq_model (h : Rs.Hasher) (x : List UInt8) (pre : UpdPre h x) (h' : Rs.Hasher)
    (hu : h.update K sd x = some h') : runUpdate K sd hm M M2 (modelTpn K sd) h x = .ok h' :=
  update_with_join_eq_model_of_tpn K sd hm M M2 _ (modelTpn_spec K sd) h x pre h' hu

/-- **the documented panic**, same instantiation: no hypothesis on the state or the input -/
theorem update_with_join_panics (h : Rs.Hasher) (x : List UInt8) (hu : h.update K sd x = none) :
    runUpdate K sd hm M M2 (modelTpn K sd) h x = .panic :=
  update_with_join_panics_of_tpn K sd hm M M2 _ (modelTpn_spec K sd) h x hu

/-- the translated `compress_subtree_to_parent_node` meets the contract `update_with_join` needs -/
theorem generated_tpn_spec (hspec : HashManySpec K hm) (hp : PlatOk sd M M2) :
    TpnSpec K sd (compress_subtree_to_parent_node (modelEnv K sd hm M M2 tpn)) :=
  fun s key t fl h1 h2 h3 => to_parent_node_eq K sd hm M M2 tpn hspec hp s key t fl h1 h2 h3

/-- **parts 1 and 2 together.** `update_with_join` calling the *translated* `compress_subtree_to_parent_node` (which calls
the translated `compress_subtree_wide`, `compress_chunks_parallel`, `compress_parents_parallel`), with only `ChunkState`,
`chaining_value`, `parent_node_output` and `hash_many` (by its contract) taken from the model, equals the model's
`Hasher.update` on every state / input satisfying `UpdPre`, for every platform satisfying `PlatOk`. -/
theorem update_with_join_full (hspec : HashManySpec K hm) (hp : PlatOk sd M M2) (h : Rs.Hasher) (x : List UInt8)
    (pre : UpdPre h x) (h' : Rs.Hasher) (hu : h.update K sd x = some h') :
    runUpdate K sd hm M M2 (compress_subtree_to_parent_node (modelEnv K sd hm M M2 (modelTpn K sd))) h x = .ok h' :=
  update_with_join_eq_model_of_tpn K sd hm M M2 _ (generated_tpn_spec K sd hm M M2 (modelTpn K sd) hspec hp) h x pre h' hu

/-- `UpdPre` holds for a fresh hasher and any input a slice can hold -/
example (key : CV) (flags : UInt8) (x : List UInt8) (hx : x.length < 2 ^ 63) :
    UpdPre (Rs.Hasher.newInternal key flags) x :=
  ⟨Nat.le_refl _, fun _ => rfl, by simp [Rs.Hasher.newInternal, Rs.ChunkState.new, Rs.ChunkState.count], hx, by
    show 0 * 1024 + 0 + x.length < 2 ^ 64
    omega⟩

/-- and for every state reachable from a fresh hasher by any history of updates (the representation invariant `Rep` of
Proofs/Hasher.lean, preserved by `updateOk` for every split and degree), as long as the byte position fits in u64 -/
theorem updPre_of_rep (h : Rs.Hasher) (m x : List UInt8) (hr : Proofs.Rep h m) (hx : x.length < 2 ^ 63)
    (htot : h.cs.t * 1024 + h.cs.count + x.length < 2 ^ 64) : UpdPre h x := by
  obtain ⟨done, tail, bs, hm', htl, hcs, hi, hcan, h2⟩ := hr
  have hcount : h.cs.count = tail.length := by rw [hcs, Proofs.new_update_count]
  refine ⟨hi.t0le, ?_, by omega, hx, htot⟩
  intro he
  have hl := hi.lz
  simp only [Rs.Hasher.toH] at hl
  rw [he, Nat.sub_self] at hl
  have hb : bs = [] := by simpa using Proofs.lazy_zero_nil hl
  have hst : h.stack = bs.map _ := hi.st
  rw [hst, hb]; rfl

/-- the panic is real: a hasher at input offset 1024 (chunk counter 1) accepts at most one chunk -/
example (x : List UInt8) (hx : x.length = 1025) : runUpdate genK 1 (hashManyRef genK) 1 2 (modelTpn genK 1)
    { key := Spec.IV, cs := Rs.ChunkState.new Spec.IV 1 0, t0 := 1, stack := [] } x = .panic :=
  update_with_join_panics genK 1 (hashManyRef genK) 1 2
    { key := Spec.IV, cs := Rs.ChunkState.new Spec.IV 1 0, t0 := 1, stack := [] } x
    (by
      have h1 : Rs.tz 1 = 0 := by rw [Rs.tz]; simp
      simp [Rs.Hasher.update, Rs.maxSubtreeLen, Rs.Hasher.count?, h1, Rs.ChunkState.new, Rs.ChunkState.count, hx])

end main

end B3.Proofs.RsUpdate

