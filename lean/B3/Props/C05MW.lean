/-
C05 (assembly, hash_many, Windows-GNU flavour) - property theorems: the hand-written assembly routine
`blake3_hash_many_sse41` of c/blake3_sse41_x86-64_windows_gnu.S, as the instruction list translated from the source text
(`B3.Gen.AsmSse41ManyWgnu.hash_many`, 1775 instructions) and run by the machine semantics `B3/Asm/ManyWSem.lean`
(`ManyW.run rb prog n s` = `n` fetch-execute steps from state `s`; = `B3/Asm/ManySem.lean` + `movzx r64, byte ptr [..]`).

How it is proved: NOT by evaluating the 1775 instructions again.  `asm_wgnu_middle_is_unix`: between prologue and epilogue
the Windows instruction list IS the unix one (`B3.Gen.AsmSse41Many.hash_many`, proved in `B3/Props/C05M.lean`) with the
instruction indices moved and the `[rbp + d]` stack-argument displacements 64 larger (checked by the kernel on the two
generated lists), so a unix run from there to the epilogue is a Windows run, step by step, with `rbp` 64 bytes lower.  Only
the Win64 prologue (27 instructions) and epilogue (20 instructions) are evaluated (`kernel_rfl`).

`EntryW rb s A` (B3/Asm/ManyWEntry.lean): `s` is at the first instruction, has not faulted, `.rdata` is loaded at the 64-byte
aligned `rb`; the ten arguments `A` are where the Win64 convention puts them (`rcx rdx r8 r9`; counter, increment_counter,
flags, flags_start, flags_end, out at `[rsp+0x28] .. [rsp+0x50]`; of `increment_counter` and the flags only the low BYTE is
read, and the routine zero-extends it itself: no dependency on the bits above); `blocks ≥ 1`; no address wrap-around; what
the routine reads does not overlap what it writes (the 656 bytes below `rsp`, and `out`), and `out` does not overlap those 656
bytes.  Nothing about alignment (not even of `rsp`), nothing about the other registers.
-/
import B3.Asm.ManyWFinal
import B3.Props.C05M
namespace B3.Props.C05MW
open B3 B3.Simd B3.AsmSem.Many B3.AsmSem.Many.W
open B3.AsmSem (rsp rbx rbp rsi rdi rcx rdx r8 r9 r12 r13 r14 r15 Memory writeBytes readWords)

/-- **the Windows-GNU routine between prologue and epilogue is the unix routine**: a run of the unix instruction list from an
instruction of 10..1412 / 1421..1745 that ends, still running, at 1413 (first instruction of the unix epilogue) is a run of the
Windows instruction list from the state `T v s` (= `s` with `rbp := v`, 64 below the unix `rbp`, and the `pc` moved) to the
state `T v` of the final state: same XMM and general purpose registers (but `rbp`), flags, memory, fault flag; `pc` 1430. -/
theorem asm_wgnu_middle_is_unix (rb v : UInt64) (n : Nat) (s : State) (hpc : okT s.pc = true) (hbp : s.gpr[rbp] = v + 64)
    (h1 : (run rb B3.Gen.AsmSse41Many.hash_many n s).pc = 1413)
    (h2 : (run rb B3.Gen.AsmSse41Many.hash_many n s).status = .running) :
    B3.AsmSem.ManyW.run rb B3.Gen.AsmSse41ManyWgnu.hash_many n (T v s) = T v (run rb B3.Gen.AsmSse41Many.hash_many n s) :=
  run_sim rb v n s hpc hbp h1 h2

/-- **blake3_hash_many_sse41, Windows-GNU flavour.**  From every state satisfying `EntryW`, the routine returns (after `N`
instructions, `N` depending on `num_inputs` and `blocks`) without fault; every byte of memory outside the 656 bytes below the
entry `rsp` is unchanged except that the `32 * num_inputs` bytes at `out` hold the chaining values of the inputs
(`A.outBytes`, in terms of the specification: `B3.Props.C05M.outBytes_spec` -- the same function as for the unix routine);
and the Win64 calling-convention clause: `rsp` = entry `rsp + 8` (return address popped); the callee-saved registers
`rbx rbp rdi rsi r12 r13 r14 r15` and `xmm6 .. xmm15` hold what they held at entry.  (Exactly the 656 bytes below the entry
`rsp` may differ: eight pushed registers, alignment slack, the frame with the XMM save area.) -/
theorem asm_wgnu_sse41_hash_many (rb : UInt64) (s : State) (A : HmArgs) (E : EntryW rb s A) :
    ∃ N, (B3.AsmSem.ManyW.run rb B3.Gen.AsmSse41ManyWgnu.hash_many N s).status = .returned
      ∧ (B3.AsmSem.ManyW.run rb B3.Gen.AsmSse41ManyWgnu.hash_many N s).ok = true
      ∧ (∀ p, 656 ≤ (p - scratchW s.gpr[rsp]).toNat →
          (B3.AsmSem.ManyW.run rb B3.Gen.AsmSse41ManyWgnu.hash_many N s).mem p = writeBytes s.mem A.out (A.outBytes s.mem) p)
      ∧ (B3.AsmSem.ManyW.run rb B3.Gen.AsmSse41ManyWgnu.hash_many N s).gpr[rsp] = s.gpr[rsp] + 8
      ∧ (B3.AsmSem.ManyW.run rb B3.Gen.AsmSse41ManyWgnu.hash_many N s).gpr[rbx] = s.gpr[rbx]
      ∧ (B3.AsmSem.ManyW.run rb B3.Gen.AsmSse41ManyWgnu.hash_many N s).gpr[rbp] = s.gpr[rbp]
      ∧ (B3.AsmSem.ManyW.run rb B3.Gen.AsmSse41ManyWgnu.hash_many N s).gpr[rdi] = s.gpr[rdi]
      ∧ (B3.AsmSem.ManyW.run rb B3.Gen.AsmSse41ManyWgnu.hash_many N s).gpr[rsi] = s.gpr[rsi]
      ∧ (B3.AsmSem.ManyW.run rb B3.Gen.AsmSse41ManyWgnu.hash_many N s).gpr[r12] = s.gpr[r12]
      ∧ (B3.AsmSem.ManyW.run rb B3.Gen.AsmSse41ManyWgnu.hash_many N s).gpr[r13] = s.gpr[r13]
      ∧ (B3.AsmSem.ManyW.run rb B3.Gen.AsmSse41ManyWgnu.hash_many N s).gpr[r14] = s.gpr[r14]
      ∧ (B3.AsmSem.ManyW.run rb B3.Gen.AsmSse41ManyWgnu.hash_many N s).gpr[r15] = s.gpr[r15]
      ∧ (B3.AsmSem.ManyW.run rb B3.Gen.AsmSse41ManyWgnu.hash_many N s).xmm[6] = s.xmm[6]
      ∧ (B3.AsmSem.ManyW.run rb B3.Gen.AsmSse41ManyWgnu.hash_many N s).xmm[7] = s.xmm[7]
      ∧ (B3.AsmSem.ManyW.run rb B3.Gen.AsmSse41ManyWgnu.hash_many N s).xmm[8] = s.xmm[8]
      ∧ (B3.AsmSem.ManyW.run rb B3.Gen.AsmSse41ManyWgnu.hash_many N s).xmm[9] = s.xmm[9]
      ∧ (B3.AsmSem.ManyW.run rb B3.Gen.AsmSse41ManyWgnu.hash_many N s).xmm[10] = s.xmm[10]
      ∧ (B3.AsmSem.ManyW.run rb B3.Gen.AsmSse41ManyWgnu.hash_many N s).xmm[11] = s.xmm[11]
      ∧ (B3.AsmSem.ManyW.run rb B3.Gen.AsmSse41ManyWgnu.hash_many N s).xmm[12] = s.xmm[12]
      ∧ (B3.AsmSem.ManyW.run rb B3.Gen.AsmSse41ManyWgnu.hash_many N s).xmm[13] = s.xmm[13]
      ∧ (B3.AsmSem.ManyW.run rb B3.Gen.AsmSse41ManyWgnu.hash_many N s).xmm[14] = s.xmm[14]
      ∧ (B3.AsmSem.ManyW.run rb B3.Gen.AsmSse41ManyWgnu.hash_many N s).xmm[15] = s.xmm[15] :=
  hash_many_w_correct E

/-- the bytes at `out`, read back: byte `k` of the `32 * num_inputs` output bytes is in place after the call -/
theorem asm_wgnu_sse41_hash_many_out (rb : UInt64) (s : State) (A : HmArgs) (E : EntryW rb s A) :
    ∃ N, ∀ k, k < 32 * A.n →
      (B3.AsmSem.ManyW.run rb B3.Gen.AsmSse41ManyWgnu.hash_many N s).mem (A.out + UInt64.ofNat k) = (A.outBytes s.mem).getD k 0 := by
  obtain ⟨N, _, _, hm, _⟩ := hash_many_w_correct E
  refine ⟨N, fun k hk => ?_⟩
  rw [hm _ (E.out_scratch k hk)]
  have hlen : (A.outBytes s.mem).length = 32 * A.n := outBytes_length _ _ _ _ _ _ _ _ _
  exact B3.AsmSem.writeBytes_at _ _ _ k (by omega) (by have := E.hn; omega)

/-! ### `EntryW` is satisfiable: seven one-block inputs (one group of four, the 2-input tail, the 1-input tail)

`.rdata` at 0x30040, the pointer array at 0x10000 (inputs of 64 bytes at 0x20000, 0x20080, ..), the key at 0x18004 (unaligned),
`out` at 0x40004, entry `rsp` = 0x7fff0008; on the stack counter `2^32 - 2` at `rsp+0x28`, `increment_counter = 1` at `rsp+0x30`,
`flags = 0x10`, `flags_start = 1`, `flags_end = 2`, `out` at `rsp+0x38 .. rsp+0x50`; all other memory reads 0xA7. -/

def exMem : Memory := fun p =>
  if p - 0x30040 < 176 then B3.Gen.AsmSse41Many.rodata.getD (p - 0x30040).toNat 0
  else if p - 0x10000 < 56 then (#[0x00, 0x00, 0x02, 0x00, 0x00, 0x00, 0x00, 0x00, 0x80, 0x00, 0x02, 0x00, 0x00, 0x00, 0x00, 0x00, 0x00, 0x01, 0x02, 0x00, 0x00, 0x00, 0x00, 0x00, 0x80, 0x01, 0x02, 0x00, 0x00, 0x00, 0x00, 0x00, 0x00, 0x02, 0x02, 0x00, 0x00, 0x00, 0x00, 0x00, 0x80, 0x02, 0x02, 0x00, 0x00, 0x00, 0x00, 0x00, 0x00, 0x03, 0x02, 0x00, 0x00, 0x00, 0x00, 0x00] : Array UInt8).getD (p - 0x10000).toNat 0
  else if p - 0x7fff0030 < 8 then (#[0xFE, 0xFF, 0xFF, 0xFF, 0, 0, 0, 0] : Array UInt8).getD (p - 0x7fff0030).toNat 0
  else if p = 0x7fff0038 then 0x01
  else if p = 0x7fff0040 then 0x10
  else if p = 0x7fff0048 then 0x01
  else if p = 0x7fff0050 then 0x02
  else if p - 0x7fff0058 < 8 then (#[0x04, 0x00, 0x04, 0, 0, 0, 0, 0] : Array UInt8).getD (p - 0x7fff0058).toNat 0
  else 0xA7

def exState : State :=
  { xmm := Vector.replicate 16 #v[0, 0, 0, 0]
    gpr := #v[0x1111, 0x10000, 7, 0x3333, 0x7fff0008, 0x5555, 0x6666, 0x7777, 1, 0x18004, 0xAAAA, 0xBBBB, 0xCCCC, 0xDDDD, 0xEEEE, 0xFFFF]
    zf := false, cf := false, mem := exMem, pc := 0, status := .running, ok := true }

def exArgs : HmArgs :=
  { inputs := 0x10000, n := 7, blocks := 1, key := 0x18004, counter := 0xFFFFFFFE, incr := true, flags := 0x10, flagsStart := 1,
    flagsEnd := 2, out := 0x40004 }

set_option maxRecDepth 100000 in
theorem exEntryW : EntryW 0x30040 exState exArgs where
  pc := rfl
  running := rfl
  ok := rfl
  ro := ⟨by decide, by unfold B3.AsmSem.HoldsAt; decide⟩
  rcx := rfl
  rdx := rfl
  r8 := rfl
  r9 := rfl
  arg5 := by decide
  arg6 := by decide
  arg7 := by decide
  arg8 := by decide
  arg9 := by decide
  arg10 := by decide
  hn := by decide
  hb0 := by decide
  hb := by decide
  hsp := by decide
  hsp' := by decide
  sep_ro := ⟨by unfold OutsideRo; decide, by unfold OutsideRo; decide⟩
  sep_key := ⟨by unfold OutsideRo; decide, by unfold OutsideRo; decide⟩
  sep_ptrs := ⟨by unfold OutsideRo; decide, by unfold OutsideRo; decide⟩
  sep_in := by
    intro i hi
    have : i = 0 ∨ i = 1 ∨ i = 2 ∨ i = 3 ∨ i = 4 ∨ i = 5 ∨ i = 6 := by
      have : i < 7 := hi
      omega
    rcases this with rfl | rfl | rfl | rfl | rfl | rfl | rfl <;> exact ⟨by unfold OutsideRo; decide, by unfold OutsideRo; decide⟩
  out_scratch := by unfold OutsideRo; decide
  args_out := by unfold OutsideRo; decide

/-- so the theorem applies to it -/
example : ∃ N, (B3.AsmSem.ManyW.run 0x30040 B3.Gen.AsmSse41ManyWgnu.hash_many N exState).status = .returned
    ∧ (B3.AsmSem.ManyW.run 0x30040 B3.Gen.AsmSse41ManyWgnu.hash_many N exState).ok = true :=
  let ⟨N, h1, h2, _⟩ := asm_wgnu_sse41_hash_many 0x30040 exState exArgs exEntryW
  ⟨N, h1, h2⟩

end B3.Props.C05MW
