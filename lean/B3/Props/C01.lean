/-
C01 - property theorems (statements only live here; helper lemmas are in B3/Proofs and B3/Tree).
-/
import B3.Proofs.GenK
import B3.Proofs.OneShot
namespace B3.Props.C01
open B3

/-- the compression function generated from src/portable.rs is the specification's -/
theorem rs_portable_compress_eq_spec (cv : CV) (block : St) (bl : UInt8) (t : UInt64) (fl : UInt8) :
    Gen.Rs.compress_xof cv block bl t fl = Spec.compress cv block t bl.toUInt32 fl.toUInt32 ∧
    Gen.Rs.compress_in_place cv block bl t fl = first8 (Spec.compress cv block t bl.toUInt32 fl.toUInt32) :=
  ⟨Proofs.rs_compress_xof_eq cv block bl t fl, Proofs.rs_compress_in_place_eq cv block bl t fl⟩

/-- For every byte string, every 32-byte key, every context string (`mode`) and every SIMD degree
that is a power of two, the model of `hash` / `keyed_hash` / `derive_key` — `hash_all_at_once` with
its SIMD-wide recursion, run with the compression function generated from src/portable.rs —
returns exactly the first 32 bytes the specification defines. No bound on the input length. -/
theorem hash_eq_spec (sd j : Nat) (hsd : sd = 2 ^ j) (mode : Spec.Mode) (m : List UInt8) :
    Rs.oneShot genK sd mode m = Spec.hash mode m := by
  rw [Proofs.genK_eq_spec]; exact Proofs.oneShot_eq_spec sd j hsd mode m

/-- `hash_all_at_once` returns the specification's root *node* (so extended output agrees too) -/
theorem hash_all_at_once_eq_root (key : CV) (flags : UInt8) (sd j : Nat) (hsd : sd = 2 ^ j) (m : List UInt8) :
    Rs.hashAllAtOnce genK key flags sd m = Spec.rootNode key flags m := by
  rw [Proofs.genK_eq_spec]; exact Proofs.hashAllAtOnce_eq_rootNode key flags sd j hsd m

/-- `compress_subtree_to_parent_node` returns the two children of the spec's split, at every degree -/
theorem to_parent_node_eq (key : CV) (flags : UInt8) (sd j : Nat) (hsd : sd = 2 ^ j) (t : Nat) (input : List UInt8)
    (hn : 1024 < input.length) :
    Rs.toParentNode genK key flags sd t input =
      (Tr.collapse (Rs.parentCV genK key flags) key
          (Hs.allLeaves 10 (Rs.leafCV genK key flags) t (input.take (Hs.leftLen 10 input.length))),
       Tr.collapse (Rs.parentCV genK key flags) key
          (Hs.allLeaves 10 (Rs.leafCV genK key flags) (t + Hs.leftLen 10 input.length / 2 ^ 10)
            (input.drop (Hs.leftLen 10 input.length)))) :=
  Hs.toPair_spec _ key 10 _ sd j hsd t input (by simpa using hn)

/-- the source constants agree with the paper's (and with each other across Rust, C, reference) -/
theorem consts_agree : Gen.Rs.IV = Spec.IV ∧ Gen.C.IV = Spec.IV ∧ Gen.Ref.IV = Spec.IV ∧
    Gen.Rs.MSG_SCHEDULE = Gen.C.MSG_SCHEDULE ∧ Gen.Ref.MSG_PERMUTATION = Spec.sigma ∧
    Gen.Rs.CHUNK_LEN = 1024 ∧ Gen.Rs.BLOCK_LEN = 64 ∧ Gen.Rs.MAX_DEPTH = 54 :=
  ⟨Proofs.consts_agree.1, Proofs.consts_agree.2.1, Proofs.consts_agree.2.2.1, Proofs.consts_agree.2.2.2.1,
   Proofs.consts_agree.2.2.2.2.1, by decide, by decide, by decide⟩

/-- non-vacuity: the hypotheses are met by the degrees the crate uses -/
example : (16 : Nat) = 2 ^ 4 ∧ (1 : Nat) = 2 ^ 0 := by decide

end B3.Props.C01
