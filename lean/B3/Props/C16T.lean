/-
Property theorems about the code TRANSLATED from the sources (artefact proofs in B3/Proofs/RsTraits*.lean): generated = model for all inputs,
and the property-level facts restated for the generated functions.  Theorem statements only; helper lemmas are in the Proofs file.
-/
import B3.Proofs.RsTraits
namespace B3.Proofs.RsTraits
open B3 B3.Rs B3.RsApi
variable (K : Kern) (sd : Nat)

/-! ### main theorems -/

/-! what the two files declare (every `impl`, `use`, associated type, re-export; nothing else is outside `#[cfg(test)]`) -/

theorem impls_expected :
    Gen.RsTraits.impls =
      [("digest::HashMarker", "Hasher"), ("digest::Update", "Hasher"), ("digest::Reset", "Hasher"),
       ("digest::OutputSizeUser", "Hasher"), ("digest::FixedOutput", "Hasher"), ("digest::FixedOutputReset", "Hasher"),
       ("digest::ExtendableOutput", "Hasher"), ("digest::ExtendableOutputReset", "Hasher"),
       ("digest::XofReader", "OutputReader"), ("common::KeySizeUser", "Hasher"), ("common::BlockSizeUser", "Hasher"),
       ("digest::MacMarker", "Hasher"), ("digest::KeyInit", "Hasher")] ∧
    Gen.RsTraits.useDecls =
      ["pub use digest", "use crate::{Hasher, OutputReader}", "use digest::array::{Array, typenum::U32, typenum::U64}",
       "use digest::common"] ∧
    Gen.RsTraits.Guts.items = ["ChunkState::new", "ChunkState::len", "ChunkState::update", "ChunkState::finalize", "parent_cv"] ∧
    Gen.RsTraits.Guts.wraps = "crate::ChunkState" := by
  refine ⟨by decide, by decide, by decide, by decide⟩

/-- `OutputSize`, `KeySize`, `BlockSize` are the crate's `OUT_LEN`, `KEY_LEN`, `BLOCK_LEN` (as generated from
src/lib.rs); the guts re-exports are the block and chunk lengths -/
theorem sizes_expected :
    Gen.RsTraits.OutputSize = Gen.Rs.OUT_LEN ∧ Gen.RsTraits.KeySize = Gen.Rs.KEY_LEN ∧
    Gen.RsTraits.BlockSize = Gen.Rs.BLOCK_LEN ∧ Gen.RsTraits.Guts.BLOCK_LEN = 64 ∧ Gen.RsTraits.Guts.CHUNK_LEN = 1024 := by
  refine ⟨by decide, by decide, by decide, by decide, by decide⟩



/-- **generated = model**: every method of src/traits.rs and every function of src/guts.rs, as translated
from the source and run on the model of the crate, is the corresponding function of `Model/Traits.lean` -
for every kernel `K`, SIMD degree, hasher / reader / chunk state (reachable or not) and every input.
(`out` is the `Array<u8, OutputSize>` the caller passes: its length is `OutputSize` by its type.) -/
theorem traits_eq_model (K : Kern) (sd : Nat) :
    (∀ h data, Gen.RsTraits.Update.update (modelApi K sd) h data = ofOption (Traits.update K sd h data)) ∧
    (∀ h, Gen.RsTraits.Reset.reset (modelApi K sd) h = .ok (Traits.reset h)) ∧
    (∀ h out, out.length = Gen.RsTraits.OutputSize →
      Gen.RsTraits.FixedOutput.finalize_into (modelApi K sd) h out = ofOption (Traits.finalizeInto K h)) ∧
    (∀ h out, out.length = Gen.RsTraits.OutputSize →
      Gen.RsTraits.FixedOutputReset.finalize_into_reset (modelApi K sd) h out
        = ofOption ((Traits.finalizeIntoReset K h).map fun p => (p.2, p.1))) ∧
    (∀ h, Gen.RsTraits.ExtendableOutput.finalize_xof (modelApi K sd) h = ofOption (Traits.finalizeXof K h)) ∧
    (∀ h, Gen.RsTraits.ExtendableOutputReset.finalize_xof_reset (modelApi K sd) h = ofOption (Traits.finalizeXofReset K h)) ∧
    (∀ r buffer, Gen.RsTraits.XofReader.read (modelApi K sd) r buffer
        = .ok ((Traits.xofRead K r buffer.length).2, (Traits.xofRead K r buffer.length).1)) ∧
    (∀ key, Gen.RsTraits.KeyInit.new (modelApi K sd) key = .ok (Traits.keyInitNew key)) :=
  ⟨update_eq_model K sd, reset_eq_model K sd, finalize_into_eq_model K sd, finalize_into_reset_eq_model K sd,
   finalize_xof_eq_model K sd, finalize_xof_reset_eq_model K sd, read_eq_model K sd, key_init_new_eq_model K sd⟩

theorem guts_eq_model (K : Kern) (sd : Nat) :
    (∀ c, Gen.RsTraits.Guts.ChunkState.new (modelApi K sd) c = .ok (Traits.gutsNew c)) ∧
    (∀ cs, Gen.RsTraits.Guts.ChunkState.len (modelApi K sd) cs = .ok (Traits.gutsLen cs)) ∧
    (∀ cs input, Gen.RsTraits.Guts.ChunkState.update (modelApi K sd) cs input = .ok (Traits.gutsUpdate K cs input)) ∧
    (∀ cs isRoot, Gen.RsTraits.Guts.ChunkState.finalize (modelApi K sd) cs isRoot = ofOption (Traits.gutsFinalize K cs isRoot)) ∧
    (∀ l r isRoot, Gen.RsTraits.Guts.parent_cv (modelApi K sd) l r isRoot
        = .ok (Traits.gutsParentCv K (wordsOfBytes 8 l) (wordsOfBytes 8 r) isRoot)) :=
  ⟨guts_new_eq_model K sd, guts_len_eq_model K sd, guts_update_eq_model K sd, guts_finalize_eq_model K sd,
   guts_parent_cv_eq_model K sd⟩

/-- the hypothesis `out.length = OutputSize` is satisfiable and needed: a 32-byte buffer works, and with any
other length `copy_from_slice` panics (which the type `Array<u8, U32>` rules out) -/
example : Gen.RsTraits.FixedOutput.finalize_into (modelApi genK 1) (Hasher.newInternal Spec.IV 0) (List.replicate 32 0)
    = .ok (rootHash genK (Hasher.newInternal Spec.IV 0).cs.output) := by
  rw [finalize_into_eq_model genK 1 _ _ (by decide)]; rfl

example : Gen.RsTraits.FixedOutput.finalize_into (modelApi genK 1) (Hasher.newInternal Spec.IV 0) (List.replicate 31 0)
    = .panic := by
  unfold Gen.RsTraits.FixedOutput.finalize_into
  simp only [modelApi, Hasher.finalize, Hasher.newInternal, ofOption, bind, copy_from_slice]
  decide

/-- **after `finalize_into_reset`** (generated code, model of the crate with the generated kernels): if it returns
at all, the bytes written are the inherent `finalize` of the state before, and the hasher left behind is the
inherent `reset` of the state before - the freshly constructed hasher of the SAME key and the SAME mode flags -/
theorem finalize_into_reset_state (sd : Nat) (h h' : Hasher) (out out' : List UInt8)
    (hr : Gen.RsTraits.FixedOutputReset.finalize_into_reset (modelApi genK sd) h out = .ok (h', out')) :
    h.finalize genK = some out' ∧ h' = h.reset ∧ h' = Hasher.newInternal h.key h.cs.flags ∧
    h'.key = h.key ∧ h'.cs.flags = h.cs.flags := by
  rw [finalize_into_reset_is_finalize_then_reset, finalize_into_is_inherent] at hr
  simp only [modelApi] at hr
  cases hf : h.finalize genK with
  | none => rw [hf] at hr; cases hr
  | some o =>
    rw [hf] at hr
    simp only [ofOption, bind] at hr
    unfold copy_from_slice at hr
    by_cases hl : out.length = o.length
    · rw [if_pos hl] at hr
      cases hr
      exact ⟨rfl, rfl, rfl, rfl, rfl⟩
    · rw [if_neg hl] at hr; cases hr

/-- it does return whenever no input offset was set (`set_input_offset` is the only way to make `finalize` panic) -/
theorem finalize_into_reset_total (sd : Nat) (h : Hasher) (out : List UInt8) (h0 : h.t0 = 0)
    (hout : out.length = Gen.RsTraits.OutputSize) :
    Gen.RsTraits.FixedOutputReset.finalize_into_reset (modelApi genK sd) h out
      = .ok (h.reset, rootHash genK (h.finalOutput genK)) := by
  rw [finalize_into_reset_eq_model genK sd h out hout]
  simp only [Traits.finalizeIntoReset, Hasher.finalize, h0]
  rfl

/-- **after `finalize_xof_reset`**: the reader is the one the inherent `finalize_xof` gives for the state before,
the hasher left behind is the inherent `reset` of the state before (same key, same mode flags) -/
theorem finalize_xof_reset_state (sd : Nat) (h h' : Hasher) (rd : OutputReader)
    (hr : Gen.RsTraits.ExtendableOutputReset.finalize_xof_reset (modelApi genK sd) h = .ok (rd, h')) :
    Traits.finalizeXof genK h = some rd ∧ rd = OutputReader.new (h.finalOutput genK) ∧
    h' = h.reset ∧ h' = Hasher.newInternal h.key h.cs.flags ∧ h'.key = h.key ∧ h'.cs.flags = h.cs.flags := by
  rw [finalize_xof_reset_eq_model] at hr
  cases hx : Traits.finalizeXofReset genK h with
  | none => rw [hx] at hr; cases hr
  | some p =>
    rw [hx] at hr
    cases hr
    obtain ⟨e1, e2⟩ := Props.C16.finalize_xof_reset_spec h rd h' hx
    refine ⟨e1, ?_, e2, e2, by rw [e2]; rfl, by rw [e2]; rfl⟩
    unfold Traits.finalizeXof at e1
    by_cases h0 : h.t0 ≠ 0
    · rw [if_pos h0] at e1; cases e1
    · rw [if_neg h0] at e1; cases e1; rfl

/-- **`KeyInit::new(k)` is `new_keyed(k)`**: the keyed-hash state of the key words of `k` with the `KEYED_HASH` flag
(the flag value as generated from src/lib.rs) -/
theorem key_init_new (sd : Nat) (k : List UInt8) :
    Gen.RsTraits.KeyInit.new (modelApi genK sd) k = .ok (Hasher.newInternal (wordsOfBytes 8 k) Gen.Rs.KEYED_HASH) ∧
    Gen.RsTraits.KeyInit.new (modelApi genK sd) k = .ok ((modelApi genK sd).hasher_new_keyed k) ∧
    Gen.RsTraits.KeySize = Gen.Rs.KEY_LEN :=
  ⟨rfl, rfl, by decide⟩

/-- **guts::ChunkState against the specification**: for every chunk counter `c` (every `u64`, and in fact every
natural number) and every way of feeding the chunk's bytes through `update`, the generated
`ChunkState::new(c)`, `update`*, `finalize(false)` never panics and yields the chaining value of the
specification's chunk node with counter `c` in hash mode; `len` is the number of bytes fed -/
theorem guts_chunk_state_eq_spec (sd : Nat) (c : Nat) (_hc : c < 2 ^ 64) (xs : List (List UInt8)) :
    (do let cs ← Gen.RsTraits.Guts.ChunkState.new (modelApi genK sd) c
        let cs ← xs.foldlM (Gen.RsTraits.Guts.ChunkState.update (modelApi genK sd)) cs
        Gen.RsTraits.Guts.ChunkState.finalize (modelApi genK sd) cs false)
      = .ok (bytesOfWords (Spec.chunkNode Spec.IV 0 c xs.flatten).chain) := by
  have hfold : ∀ (ys : List (List UInt8)) (cs : ChunkState),
      ys.foldlM (Gen.RsTraits.Guts.ChunkState.update (modelApi genK sd)) cs = .ok (ys.foldl (Traits.gutsUpdate genK) cs) := by
    intro ys
    induction ys with
    | nil => intro cs; rfl
    | cons y ys ih =>
      intro cs
      rw [List.foldlM_cons, guts_update_eq_model]
      simp only [bind]
      rw [ih]; rfl
  rw [guts_new_eq_model]
  simp only [bind]
  rw [hfold]
  simp only []
  rw [guts_finalize_eq_model, Props.C16.guts_chunk_eq_spec]
  rfl

/-- the root variant: `finalize(true)` is the model's root hash when the counter is 0 and panics (debug assertion
of `Output::root_hash`) for every other counter -/
theorem guts_chunk_state_root (sd : Nat) (c : Nat) (xs : List (List UInt8)) :
    (do let cs ← Gen.RsTraits.Guts.ChunkState.new (modelApi genK sd) c
        let cs ← xs.foldlM (Gen.RsTraits.Guts.ChunkState.update (modelApi genK sd)) cs
        Gen.RsTraits.Guts.ChunkState.finalize (modelApi genK sd) cs true)
      = ofOption (Traits.gutsFinalize genK (xs.foldl (Traits.gutsUpdate genK) (Traits.gutsNew c)) true) := by
  have hfold : ∀ (ys : List (List UInt8)) (cs : ChunkState),
      ys.foldlM (Gen.RsTraits.Guts.ChunkState.update (modelApi genK sd)) cs = .ok (ys.foldl (Traits.gutsUpdate genK) cs) := by
    intro ys
    induction ys with
    | nil => intro cs; rfl
    | cons y ys ih =>
      intro cs
      rw [List.foldlM_cons, guts_update_eq_model]
      simp only [bind]
      rw [ih]; rfl
  rw [guts_new_eq_model]
  simp only [bind]
  rw [hfold]
  simp only []
  rw [guts_finalize_eq_model]

/-- **guts::parent_cv against the specification**: non-root, hash mode (`IV`, no mode flag, `PARENT`), for the two
children given as 32-byte hashes -/
theorem guts_parent_cv_eq_spec (sd : Nat) (l r : List UInt8) :
    Gen.RsTraits.Guts.parent_cv (modelApi genK sd) l r false
      = .ok (bytesOfWords (Spec.parentCV Spec.IV 0 (wordsOfBytes 8 l) (wordsOfBytes 8 r))) := by
  rw [guts_parent_cv_eq_model, Props.C16.guts_parent_eq_spec]

/-- the same for two children given as chaining values (8 words each, passed as their 32 little-endian bytes) -/
theorem guts_parent_cv_eq_spec_words (sd : Nat) (l r : CV) :
    Gen.RsTraits.Guts.parent_cv (modelApi genK sd) (bytesOfWords l) (bytesOfWords r) false
      = .ok (bytesOfWords (Spec.parentCV Spec.IV 0 l r)) := by
  rw [guts_parent_cv_eq_spec, words_bytes_roundtrip, words_bytes_roundtrip]

/-- the hypothesis `c < 2^64` (the range of `u64`) at its upper end, with a split input -/
example : (do let cs ← Gen.RsTraits.Guts.ChunkState.new (modelApi genK 1) (2 ^ 64 - 1)
              let cs ← [[1, 2], [3]].foldlM (Gen.RsTraits.Guts.ChunkState.update (modelApi genK 1)) cs
              Gen.RsTraits.Guts.ChunkState.finalize (modelApi genK 1) cs false)
      = .ok (bytesOfWords (Spec.chunkNode Spec.IV 0 (2 ^ 64 - 1) [1, 2, 3]).chain) :=
  guts_chunk_state_eq_spec 1 (2 ^ 64 - 1) (by decide) [[1, 2], [3]]

/-- the debug assertion of `root_hash` is real: chunk counter 1, root finalization -/
example : (do let cs ← Gen.RsTraits.Guts.ChunkState.new (modelApi genK 1) 1
              Gen.RsTraits.Guts.ChunkState.finalize (modelApi genK 1) cs true) = .panic := by
  rw [guts_new_eq_model]; simp only [bind]; rw [guts_finalize_eq_model]; rfl

open Props in
/-- **resetting finalizers on any history, against the specification.**  For a hasher of ANY mode reached by any
history of the C02 machine (new / update / clone / reset) with absorbed bytes `m`: the generated
`finalize_into_reset` writes `Spec.hash mode m` and leaves the freshly constructed hasher of that mode -/
theorem finalize_into_reset_on_history (sd : Nat) (r : C02.Reg) (hr : C02.Ok r) (out : List UInt8)
    (hout : out.length = Gen.RsTraits.OutputSize) :
    Gen.RsTraits.FixedOutputReset.finalize_into_reset (modelApi genK sd) r.h out
      = .ok (Hasher.newInternal r.mode.key r.mode.flags, Spec.hash r.mode r.absorbed) := by
  have hreset : r.h.reset = Hasher.newInternal r.mode.key r.mode.flags := by
    rw [← hr.2.1, ← hr.2.2.1]; rfl
  rw [finalize_into_reset_eq_model genK sd r.h out hout]
  simp only [Traits.finalizeIntoReset, (ok_finalize r hr).1, Option.map, ofOption, hreset]

open Props in
/-- ... and the generated `finalize_xof_reset` returns a reader over the specification's root node and leaves the
same state -/
theorem finalize_xof_reset_on_history (sd : Nat) (r : C02.Reg) (hr : C02.Ok r) :
    Gen.RsTraits.ExtendableOutputReset.finalize_xof_reset (modelApi genK sd) r.h
      = .ok (OutputReader.new (Spec.root r.mode r.absorbed), Hasher.newInternal r.mode.key r.mode.flags) := by
  have hreset : r.h.reset = Hasher.newInternal r.mode.key r.mode.flags := by
    rw [← hr.2.1, ← hr.2.2.1]; rfl
  rw [finalize_xof_reset_eq_model]
  simp only [Traits.finalizeXofReset, Traits.finalizeXof, (ok_finalize r hr).2, hreset, ofOption]
  rw [if_neg (by simp [hr.2.2.2])]

open Props in
/-- the state they leave satisfies the machine's invariant again (for the empty message) -/
theorem reset_state_ok (sd j : Nat) (hsd : sd = 2 ^ j) (r : C02.Reg) (hr : C02.Ok r) :
    C02.Ok { r with h := Hasher.newInternal r.mode.key r.mode.flags, absorbed := [] } := by
  have hreset : r.h.reset = Hasher.newInternal r.mode.key r.mode.flags := by
    rw [← hr.2.1, ← hr.2.2.1]; rfl
  rw [← hreset]; exact ok_reset sd j hsd r hr

open Props in
/-- **a MAC hasher used twice** (the scenario of the trait tests, for all keys and messages): `KeyInit::new(key)`,
any updates `xs`, `finalize_into_reset`, any updates `ys`, `finalize_into_reset` - all as generated from
src/traits.rs - never panics; the two tags are the specification's keyed hashes of the two messages UNDER THE
SAME KEY, and the hasher is again `new_keyed(key)` -/
theorem mac_reuse_correct (sd j : Nat) (hsd : sd = 2 ^ j) (key : List UInt8) (xs ys : List (List UInt8))
    (out1 out2 : List UInt8) (h1 : out1.length = Gen.RsTraits.OutputSize) (h2 : out2.length = Gen.RsTraits.OutputSize) :
    (do let h ← Gen.RsTraits.KeyInit.new (modelApi genK sd) key
        let h ← xs.foldlM (Gen.RsTraits.Update.update (modelApi genK sd)) h
        let (h, tag1) ← Gen.RsTraits.FixedOutputReset.finalize_into_reset (modelApi genK sd) h out1
        let h ← ys.foldlM (Gen.RsTraits.Update.update (modelApi genK sd)) h
        let (h, tag2) ← Gen.RsTraits.FixedOutputReset.finalize_into_reset (modelApi genK sd) h out2
        pure (tag1, tag2, h))
      = .ok (Spec.hash (.keyed key) xs.flatten, Spec.hash (.keyed key) ys.flatten,
             Hasher.newInternal (wordsOfBytes 8 key) Spec.KEYED_HASH) := by
  let md : Spec.Mode := .keyed key
  let I := modelApi genK sd
  obtain ⟨ha, ea, oka⟩ := updates_fresh sd j hsd md xs
  have fa : Gen.RsTraits.FixedOutputReset.finalize_into_reset I ha out1
      = .ok (Hasher.newInternal md.key md.flags, Spec.hash md xs.flatten) := finalize_into_reset_on_history sd _ oka out1 h1
  obtain ⟨hb, eb, okb⟩ := updates_fresh sd j hsd md ys
  have fb : Gen.RsTraits.FixedOutputReset.finalize_into_reset I hb out2
      = .ok (Hasher.newInternal md.key md.flags, Spec.hash md ys.flatten) := finalize_into_reset_on_history sd _ okb out2 h2
  have e0 : Gen.RsTraits.KeyInit.new I key = .ok (Hasher.newInternal md.key md.flags) := rfl
  show (do let h ← Gen.RsTraits.KeyInit.new I key
           let h ← xs.foldlM (Gen.RsTraits.Update.update I) h
           let (h, tag1) ← Gen.RsTraits.FixedOutputReset.finalize_into_reset I h out1
           let h ← ys.foldlM (Gen.RsTraits.Update.update I) h
           let (h, tag2) ← Gen.RsTraits.FixedOutputReset.finalize_into_reset I h out2
           pure (tag1, tag2, h)) = _
  rw [e0]; simp only [bind]
  rw [ea]; simp only []
  rw [fa]; simp only []
  rw [eb]; simp only []
  rw [fb]; rfl

/-- the hypotheses are satisfiable: SIMD degree 4 = 2^2, a 32-byte key, 32-byte output buffers -/
example : ∃ tags, (do
        let h ← Gen.RsTraits.KeyInit.new (modelApi genK 4) (List.replicate 32 7)
        let h ← [[1], [2, 3]].foldlM (Gen.RsTraits.Update.update (modelApi genK 4)) h
        let (h, tag1) ← Gen.RsTraits.FixedOutputReset.finalize_into_reset (modelApi genK 4) h (List.replicate 32 0)
        let h ← [[4]].foldlM (Gen.RsTraits.Update.update (modelApi genK 4)) h
        let (h, tag2) ← Gen.RsTraits.FixedOutputReset.finalize_into_reset (modelApi genK 4) h (List.replicate 32 0)
        pure (tag1, tag2, h)) = R.ok tags :=
  ⟨_, mac_reuse_correct 4 2 (by decide) (List.replicate 32 7) [[1], [2, 3]] [[4]] (List.replicate 32 0) (List.replicate 32 0)
    (by decide) (by decide)⟩

open Props in
/-- **an XOF hasher used twice**: `KeyInit::new(key)`, updates `xs`, `finalize_xof_reset`, two `XofReader::read`s,
updates `ys` on the hasher left behind, `finalize_xof_reset`, one read - all as generated - never panics; the
reads are consecutive slices of the specification's keyed output stream of the respective message -/
theorem xof_reuse_correct (sd j : Nat) (hsd : sd = 2 ^ j) (key : List UInt8) (xs ys : List (List UInt8))
    (buf1 buf2 buf3 : List UInt8) :
    (do let h ← Gen.RsTraits.KeyInit.new (modelApi genK sd) key
        let h ← xs.foldlM (Gen.RsTraits.Update.update (modelApi genK sd)) h
        let (rd, h) ← Gen.RsTraits.ExtendableOutputReset.finalize_xof_reset (modelApi genK sd) h
        let (rd, b1) ← Gen.RsTraits.XofReader.read (modelApi genK sd) rd buf1
        let (_, b2) ← Gen.RsTraits.XofReader.read (modelApi genK sd) rd buf2
        let h ← ys.foldlM (Gen.RsTraits.Update.update (modelApi genK sd)) h
        let (rd', h) ← Gen.RsTraits.ExtendableOutputReset.finalize_xof_reset (modelApi genK sd) h
        let (_, b3) ← Gen.RsTraits.XofReader.read (modelApi genK sd) rd' buf3
        pure (b1, b2, b3, h))
      = .ok (Spec.xof (.keyed key) xs.flatten 0 buf1.length, Spec.xof (.keyed key) xs.flatten buf1.length buf2.length,
             Spec.xof (.keyed key) ys.flatten 0 buf3.length, Hasher.newInternal (wordsOfBytes 8 key) Spec.KEYED_HASH) := by
  let md : Spec.Mode := .keyed key
  let I := modelApi genK sd
  obtain ⟨ha, ea, oka⟩ := updates_fresh sd j hsd md xs
  have fa : Gen.RsTraits.ExtendableOutputReset.finalize_xof_reset I ha
      = .ok (OutputReader.new (Spec.root md xs.flatten), Hasher.newInternal md.key md.flags) :=
    finalize_xof_reset_on_history sd _ oka
  obtain ⟨hb, eb, okb⟩ := updates_fresh sd j hsd md ys
  have fb : Gen.RsTraits.ExtendableOutputReset.finalize_xof_reset I hb
      = .ok (OutputReader.new (Spec.root md ys.flatten), Hasher.newInternal md.key md.flags) :=
    finalize_xof_reset_on_history sd _ okb
  obtain ⟨rd1, rd2, ra1, ra2⟩ := read_twice sd md xs.flatten buf1 buf2
  obtain ⟨rd3, _, rb1, _⟩ := read_twice sd md ys.flatten buf3 []
  have e0 : Gen.RsTraits.KeyInit.new I key = .ok (Hasher.newInternal md.key md.flags) := rfl
  show (do let h ← Gen.RsTraits.KeyInit.new I key
           let h ← xs.foldlM (Gen.RsTraits.Update.update I) h
           let (rd, h) ← Gen.RsTraits.ExtendableOutputReset.finalize_xof_reset I h
           let (rd, b1) ← Gen.RsTraits.XofReader.read I rd buf1
           let (_, b2) ← Gen.RsTraits.XofReader.read I rd buf2
           let h ← ys.foldlM (Gen.RsTraits.Update.update I) h
           let (rd', h) ← Gen.RsTraits.ExtendableOutputReset.finalize_xof_reset I h
           let (_, b3) ← Gen.RsTraits.XofReader.read I rd' buf3
           pure (b1, b2, b3, h)) = _
  rw [e0]; simp only [bind]
  rw [ea]; simp only []
  rw [fa]; simp only []
  rw [ra1]; simp only []
  rw [ra2]; simp only []
  rw [eb]; simp only []
  rw [fb]; simp only []
  rw [rb1]; rfl

end B3.Proofs.RsTraits

