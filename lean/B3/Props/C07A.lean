import B3.Gen.AsmAbi
import B3.Proofs.AsmAbiSse2
import B3.Proofs.AsmAbiSse41
import B3.Proofs.AsmAbiAvx2
import B3.Proofs.AsmAbiAvx512

/-!
# C07 (last sentence): the hand-written assembly routines respect their calling convention

"Every hand-written assembly routine returns with the stack pointer, the direction flag and all callee-saved registers of its
calling convention intact (System V: rbx, rbp, r12-r15; Win64 additionally rsi, rdi and xmm6-xmm15)."

For each of the 31 global routines of the 12 files `c/blake3_{sse2,sse41,avx2,avx512}_x86-64_{unix.S,windows_gnu.S,windows_msvc.asm}`
the translator `gen/ext_asm_abi.py` emits the control-flow graph with every instruction abstracted to its effect on rsp, rbp, the
stack frame and the registers it may write (`B3/Gen/AsmAbi*.lean`).  `B3/Proofs/AsmAbi<Isa>.lean` evaluates the checker
`B3.Asm.abiOk` on each of them in the kernel; `B3.Asm.respectsAbi_of_abiOk` (`B3/Asm/Abi.lean`, proved for all routines and all
executions) turns that into the statement below.

`RespectsAbi conv R` (definition in `B3/Asm/Abi.lean`): for EVERY entry state `s0` (registers, DF, memory arbitrary) and every
finite execution of `R` from its entry,
  * if it reaches `ret`, the final state has `rsp = s0.rsp + 8`, `DF = s0.DF`, and `reg q = s0.reg q` for every `q ∈ conv.saved`;
  * every intermediate configuration is inside the routine and has `DF = s0.DF` (DF is never written).

Assumptions of the machine model (`B3/Asm/Machine.lean`): stores through pointers other than rsp/rbp do not hit the routine's own
live frame `[rsp, entry rsp)`; stack addresses do not wrap around; no asynchronous writer touches the live frame; an instruction
writes only the registers the front end lists for it (destination operands; table of mnemonics in the translator).
-/

namespace B3.Props.C07A
open B3.Asm B3.Gen.AsmAbi B3.Proofs.AsmAbi


/-! ### c/blake3_sse2_x86-64_unix.S (System V) -/

/-- `blake3_hash_many_sse2` of c/blake3_sse2_x86-64_unix.S -/
theorem hash_many_sse2_unix_abi : RespectsAbi .sysv hash_many_sse2_unix := respectsAbi_of_abiOk hash_many_sse2_unix_ok
/-- `blake3_compress_in_place_sse2` of c/blake3_sse2_x86-64_unix.S -/
theorem compress_in_place_sse2_unix_abi : RespectsAbi .sysv compress_in_place_sse2_unix := respectsAbi_of_abiOk compress_in_place_sse2_unix_ok
/-- `blake3_compress_xof_sse2` of c/blake3_sse2_x86-64_unix.S -/
theorem compress_xof_sse2_unix_abi : RespectsAbi .sysv compress_xof_sse2_unix := respectsAbi_of_abiOk compress_xof_sse2_unix_ok

/-! ### c/blake3_sse2_x86-64_windows_gnu.S (Win64) -/

/-- `blake3_hash_many_sse2` of c/blake3_sse2_x86-64_windows_gnu.S -/
theorem hash_many_sse2_wgnu_abi : RespectsAbi .win64 hash_many_sse2_wgnu := respectsAbi_of_abiOk hash_many_sse2_wgnu_ok
/-- `blake3_compress_in_place_sse2` of c/blake3_sse2_x86-64_windows_gnu.S -/
theorem compress_in_place_sse2_wgnu_abi : RespectsAbi .win64 compress_in_place_sse2_wgnu := respectsAbi_of_abiOk compress_in_place_sse2_wgnu_ok
/-- `blake3_compress_xof_sse2` of c/blake3_sse2_x86-64_windows_gnu.S -/
theorem compress_xof_sse2_wgnu_abi : RespectsAbi .win64 compress_xof_sse2_wgnu := respectsAbi_of_abiOk compress_xof_sse2_wgnu_ok

/-! ### c/blake3_sse2_x86-64_windows_msvc.asm (Win64) -/

/-- `blake3_hash_many_sse2` of c/blake3_sse2_x86-64_windows_msvc.asm -/
theorem hash_many_sse2_msvc_abi : RespectsAbi .win64 hash_many_sse2_msvc := respectsAbi_of_abiOk hash_many_sse2_msvc_ok
/-- `blake3_compress_in_place_sse2` of c/blake3_sse2_x86-64_windows_msvc.asm -/
theorem compress_in_place_sse2_msvc_abi : RespectsAbi .win64 compress_in_place_sse2_msvc := respectsAbi_of_abiOk compress_in_place_sse2_msvc_ok
/-- `blake3_compress_xof_sse2` of c/blake3_sse2_x86-64_windows_msvc.asm -/
theorem compress_xof_sse2_msvc_abi : RespectsAbi .win64 compress_xof_sse2_msvc := respectsAbi_of_abiOk compress_xof_sse2_msvc_ok

/-! ### c/blake3_sse41_x86-64_unix.S (System V) -/

/-- `blake3_hash_many_sse41` of c/blake3_sse41_x86-64_unix.S -/
theorem hash_many_sse41_unix_abi : RespectsAbi .sysv hash_many_sse41_unix := respectsAbi_of_abiOk hash_many_sse41_unix_ok
/-- `blake3_compress_in_place_sse41` of c/blake3_sse41_x86-64_unix.S -/
theorem compress_in_place_sse41_unix_abi : RespectsAbi .sysv compress_in_place_sse41_unix := respectsAbi_of_abiOk compress_in_place_sse41_unix_ok
/-- `blake3_compress_xof_sse41` of c/blake3_sse41_x86-64_unix.S -/
theorem compress_xof_sse41_unix_abi : RespectsAbi .sysv compress_xof_sse41_unix := respectsAbi_of_abiOk compress_xof_sse41_unix_ok

/-! ### c/blake3_sse41_x86-64_windows_gnu.S (Win64) -/

/-- `blake3_hash_many_sse41` of c/blake3_sse41_x86-64_windows_gnu.S -/
theorem hash_many_sse41_wgnu_abi : RespectsAbi .win64 hash_many_sse41_wgnu := respectsAbi_of_abiOk hash_many_sse41_wgnu_ok
/-- `blake3_compress_in_place_sse41` of c/blake3_sse41_x86-64_windows_gnu.S -/
theorem compress_in_place_sse41_wgnu_abi : RespectsAbi .win64 compress_in_place_sse41_wgnu := respectsAbi_of_abiOk compress_in_place_sse41_wgnu_ok
/-- `blake3_compress_xof_sse41` of c/blake3_sse41_x86-64_windows_gnu.S -/
theorem compress_xof_sse41_wgnu_abi : RespectsAbi .win64 compress_xof_sse41_wgnu := respectsAbi_of_abiOk compress_xof_sse41_wgnu_ok

/-! ### c/blake3_sse41_x86-64_windows_msvc.asm (Win64) -/

/-- `blake3_hash_many_sse41` of c/blake3_sse41_x86-64_windows_msvc.asm -/
theorem hash_many_sse41_msvc_abi : RespectsAbi .win64 hash_many_sse41_msvc := respectsAbi_of_abiOk hash_many_sse41_msvc_ok
/-- `blake3_compress_in_place_sse41` of c/blake3_sse41_x86-64_windows_msvc.asm -/
theorem compress_in_place_sse41_msvc_abi : RespectsAbi .win64 compress_in_place_sse41_msvc := respectsAbi_of_abiOk compress_in_place_sse41_msvc_ok
/-- `blake3_compress_xof_sse41` of c/blake3_sse41_x86-64_windows_msvc.asm -/
theorem compress_xof_sse41_msvc_abi : RespectsAbi .win64 compress_xof_sse41_msvc := respectsAbi_of_abiOk compress_xof_sse41_msvc_ok

/-! ### c/blake3_avx2_x86-64_unix.S (System V) -/

/-- `blake3_hash_many_avx2` of c/blake3_avx2_x86-64_unix.S -/
theorem hash_many_avx2_unix_abi : RespectsAbi .sysv hash_many_avx2_unix := respectsAbi_of_abiOk hash_many_avx2_unix_ok

/-! ### c/blake3_avx2_x86-64_windows_gnu.S (Win64) -/

/-- `blake3_hash_many_avx2` of c/blake3_avx2_x86-64_windows_gnu.S -/
theorem hash_many_avx2_wgnu_abi : RespectsAbi .win64 hash_many_avx2_wgnu := respectsAbi_of_abiOk hash_many_avx2_wgnu_ok

/-! ### c/blake3_avx2_x86-64_windows_msvc.asm (Win64) -/

/-- `blake3_hash_many_avx2` of c/blake3_avx2_x86-64_windows_msvc.asm -/
theorem hash_many_avx2_msvc_abi : RespectsAbi .win64 hash_many_avx2_msvc := respectsAbi_of_abiOk hash_many_avx2_msvc_ok

/-! ### c/blake3_avx512_x86-64_unix.S (System V) -/

/-- `blake3_hash_many_avx512` of c/blake3_avx512_x86-64_unix.S -/
theorem hash_many_avx512_unix_abi : RespectsAbi .sysv hash_many_avx512_unix := respectsAbi_of_abiOk hash_many_avx512_unix_ok
/-- `blake3_compress_in_place_avx512` of c/blake3_avx512_x86-64_unix.S -/
theorem compress_in_place_avx512_unix_abi : RespectsAbi .sysv compress_in_place_avx512_unix := respectsAbi_of_abiOk compress_in_place_avx512_unix_ok
/-- `blake3_compress_xof_avx512` of c/blake3_avx512_x86-64_unix.S -/
theorem compress_xof_avx512_unix_abi : RespectsAbi .sysv compress_xof_avx512_unix := respectsAbi_of_abiOk compress_xof_avx512_unix_ok
/-- `blake3_xof_many_avx512` of c/blake3_avx512_x86-64_unix.S -/
theorem xof_many_avx512_unix_abi : RespectsAbi .sysv xof_many_avx512_unix := respectsAbi_of_abiOk xof_many_avx512_unix_ok

/-! ### c/blake3_avx512_x86-64_windows_gnu.S (Win64) -/

/-- `blake3_hash_many_avx512` of c/blake3_avx512_x86-64_windows_gnu.S -/
theorem hash_many_avx512_wgnu_abi : RespectsAbi .win64 hash_many_avx512_wgnu := respectsAbi_of_abiOk hash_many_avx512_wgnu_ok
/-- `blake3_compress_in_place_avx512` of c/blake3_avx512_x86-64_windows_gnu.S -/
theorem compress_in_place_avx512_wgnu_abi : RespectsAbi .win64 compress_in_place_avx512_wgnu := respectsAbi_of_abiOk compress_in_place_avx512_wgnu_ok
/-- `blake3_compress_xof_avx512` of c/blake3_avx512_x86-64_windows_gnu.S -/
theorem compress_xof_avx512_wgnu_abi : RespectsAbi .win64 compress_xof_avx512_wgnu := respectsAbi_of_abiOk compress_xof_avx512_wgnu_ok

/-! ### c/blake3_avx512_x86-64_windows_msvc.asm (Win64) -/

/-- `blake3_hash_many_avx512` of c/blake3_avx512_x86-64_windows_msvc.asm -/
theorem hash_many_avx512_msvc_abi : RespectsAbi .win64 hash_many_avx512_msvc := respectsAbi_of_abiOk hash_many_avx512_msvc_ok
/-- `blake3_compress_in_place_avx512` of c/blake3_avx512_x86-64_windows_msvc.asm -/
theorem compress_in_place_avx512_msvc_abi : RespectsAbi .win64 compress_in_place_avx512_msvc := respectsAbi_of_abiOk compress_in_place_avx512_msvc_ok
/-- `blake3_compress_xof_avx512` of c/blake3_avx512_x86-64_windows_msvc.asm -/
theorem compress_xof_avx512_msvc_abi : RespectsAbi .win64 compress_xof_avx512_msvc := respectsAbi_of_abiOk compress_xof_avx512_msvc_ok

/-! ### main theorems -/

/-- the table of routines is exactly this one (a routine that disappears from a file, or changes calling convention, breaks this) -/
theorem asm_abi_table : all.map (fun e => (e.1, e.2.1, e.2.2.1)) = [
    ("c/blake3_sse2_x86-64_unix.S", "blake3_hash_many_sse2", Conv.sysv),
    ("c/blake3_sse2_x86-64_unix.S", "blake3_compress_in_place_sse2", Conv.sysv),
    ("c/blake3_sse2_x86-64_unix.S", "blake3_compress_xof_sse2", Conv.sysv),
    ("c/blake3_sse2_x86-64_windows_gnu.S", "blake3_hash_many_sse2", Conv.win64),
    ("c/blake3_sse2_x86-64_windows_gnu.S", "blake3_compress_in_place_sse2", Conv.win64),
    ("c/blake3_sse2_x86-64_windows_gnu.S", "blake3_compress_xof_sse2", Conv.win64),
    ("c/blake3_sse2_x86-64_windows_msvc.asm", "blake3_hash_many_sse2", Conv.win64),
    ("c/blake3_sse2_x86-64_windows_msvc.asm", "blake3_compress_in_place_sse2", Conv.win64),
    ("c/blake3_sse2_x86-64_windows_msvc.asm", "blake3_compress_xof_sse2", Conv.win64),
    ("c/blake3_sse41_x86-64_unix.S", "blake3_hash_many_sse41", Conv.sysv),
    ("c/blake3_sse41_x86-64_unix.S", "blake3_compress_in_place_sse41", Conv.sysv),
    ("c/blake3_sse41_x86-64_unix.S", "blake3_compress_xof_sse41", Conv.sysv),
    ("c/blake3_sse41_x86-64_windows_gnu.S", "blake3_hash_many_sse41", Conv.win64),
    ("c/blake3_sse41_x86-64_windows_gnu.S", "blake3_compress_in_place_sse41", Conv.win64),
    ("c/blake3_sse41_x86-64_windows_gnu.S", "blake3_compress_xof_sse41", Conv.win64),
    ("c/blake3_sse41_x86-64_windows_msvc.asm", "blake3_hash_many_sse41", Conv.win64),
    ("c/blake3_sse41_x86-64_windows_msvc.asm", "blake3_compress_in_place_sse41", Conv.win64),
    ("c/blake3_sse41_x86-64_windows_msvc.asm", "blake3_compress_xof_sse41", Conv.win64),
    ("c/blake3_avx2_x86-64_unix.S", "blake3_hash_many_avx2", Conv.sysv),
    ("c/blake3_avx2_x86-64_windows_gnu.S", "blake3_hash_many_avx2", Conv.win64),
    ("c/blake3_avx2_x86-64_windows_msvc.asm", "blake3_hash_many_avx2", Conv.win64),
    ("c/blake3_avx512_x86-64_unix.S", "blake3_hash_many_avx512", Conv.sysv),
    ("c/blake3_avx512_x86-64_unix.S", "blake3_compress_in_place_avx512", Conv.sysv),
    ("c/blake3_avx512_x86-64_unix.S", "blake3_compress_xof_avx512", Conv.sysv),
    ("c/blake3_avx512_x86-64_unix.S", "blake3_xof_many_avx512", Conv.sysv),
    ("c/blake3_avx512_x86-64_windows_gnu.S", "blake3_hash_many_avx512", Conv.win64),
    ("c/blake3_avx512_x86-64_windows_gnu.S", "blake3_compress_in_place_avx512", Conv.win64),
    ("c/blake3_avx512_x86-64_windows_gnu.S", "blake3_compress_xof_avx512", Conv.win64),
    ("c/blake3_avx512_x86-64_windows_msvc.asm", "blake3_hash_many_avx512", Conv.win64),
    ("c/blake3_avx512_x86-64_windows_msvc.asm", "blake3_compress_in_place_avx512", Conv.win64),
    ("c/blake3_avx512_x86-64_windows_msvc.asm", "blake3_compress_xof_avx512", Conv.win64)] := by
  rfl

/-- **C07, calling-convention clause, for all 31 routines of all 12 assembly files.** -/
theorem asm_abi_all : ∀ e ∈ all, RespectsAbi e.2.2.1 e.2.2.2 := by
  simp only [all, List.forall_mem_cons, List.not_mem_nil, false_imp_iff, implies_true, and_true]
  exact ⟨hash_many_sse2_unix_abi,
    compress_in_place_sse2_unix_abi,
    compress_xof_sse2_unix_abi,
    hash_many_sse2_wgnu_abi,
    compress_in_place_sse2_wgnu_abi,
    compress_xof_sse2_wgnu_abi,
    hash_many_sse2_msvc_abi,
    compress_in_place_sse2_msvc_abi,
    compress_xof_sse2_msvc_abi,
    hash_many_sse41_unix_abi,
    compress_in_place_sse41_unix_abi,
    compress_xof_sse41_unix_abi,
    hash_many_sse41_wgnu_abi,
    compress_in_place_sse41_wgnu_abi,
    compress_xof_sse41_wgnu_abi,
    hash_many_sse41_msvc_abi,
    compress_in_place_sse41_msvc_abi,
    compress_xof_sse41_msvc_abi,
    hash_many_avx2_unix_abi,
    hash_many_avx2_wgnu_abi,
    hash_many_avx2_msvc_abi,
    hash_many_avx512_unix_abi,
    compress_in_place_avx512_unix_abi,
    compress_xof_avx512_unix_abi,
    xof_many_avx512_unix_abi,
    hash_many_avx512_wgnu_abi,
    compress_in_place_avx512_wgnu_abi,
    compress_xof_avx512_wgnu_abi,
    hash_many_avx512_msvc_abi,
    compress_in_place_avx512_msvc_abi,
    compress_xof_avx512_msvc_abi⟩

/-- the same spelled out: any execution of any routine of the table, from any entry state, that reaches `ret` has restored
`rsp` (return address popped), the direction flag, and every callee-saved register of the routine's calling convention -/
theorem asm_abi_all_spelled (e : String × String × Conv × Routine) (he : e ∈ all) (s0 s : St)
    (hx : Exec e.2.2.2 (s0.reg rsp) (e.2.2.2.start s0) (.done s)) :
    s.reg rsp = s0.reg rsp + 8 ∧ s.df = s0.df ∧ ∀ q, q ∈ e.2.2.1.saved → s.reg q = s0.reg q :=
  (asm_abi_all e he).1 s0 s hx

/-- the callee-saved sets used above -/
theorem saved_sets :
    Conv.saved .sysv = [.g 3, .g 5, .g 12, .g 13, .g 14, .g 15] ∧
    Conv.saved .win64 = [.g 3, .g 5, .g 6, .g 7, .g 12, .g 13, .g 14, .g 15,
                          .x 6, .x 7, .x 8, .x 9, .x 10, .x 11, .x 12, .x 13, .x 14, .x 15] := ⟨rfl, rfl⟩

end B3.Props.C07A
