/-
C04 - property theorems: results do not depend on the SIMD degree (the only way a platform enters
the tree layer), and the degree tables of the sources contain powers of two only.
-/
import B3.Props.C02
import B3.Props.C01
import B3.Gen.Listings
namespace B3.Props.C04
open B3 B3.Rs

/-- the one-shot functions give the same result at any two SIMD degrees -/
theorem hash_degree_independent (sd1 j1 sd2 j2 : Nat) (h1 : sd1 = 2 ^ j1) (h2 : sd2 = 2 ^ j2)
    (mode : Spec.Mode) (m : List UInt8) : oneShot genK sd1 mode m = oneShot genK sd2 mode m := by
  rw [C01.hash_eq_spec sd1 j1 h1, C01.hash_eq_spec sd2 j2 h2]

/-- `hash_all_at_once` returns the same root node (hence the same extended output) at any two degrees -/
theorem root_degree_independent (sd1 j1 sd2 j2 : Nat) (h1 : sd1 = 2 ^ j1) (h2 : sd2 = 2 ^ j2)
    (key : CV) (flags : UInt8) (m : List UInt8) :
    hashAllAtOnce genK key flags sd1 m = hashAllAtOnce genK key flags sd2 m := by
  rw [C01.hash_all_at_once_eq_root key flags sd1 j1 h1, C01.hash_all_at_once_eq_root key flags sd2 j2 h2]

/-- `compress_subtree_wide` may return different numbers of chaining values at different degrees
(including the degree-1 special case that returns two unmerged), but they collapse to the same
subtree chaining value -/
theorem wide_degree_independent (sd1 j1 sd2 j2 : Nat) (h1 : sd1 = 2 ^ j1) (h2 : sd2 = 2 ^ j2)
    (key : CV) (flags : UInt8) (t : Nat) (input : List UInt8) (hne : 0 < input.length) :
    Tr.collapse (parentCV genK key flags) key (wide genK key flags sd1 t input)
      = Tr.collapse (parentCV genK key flags) key (wide genK key flags sd2 t input) := by
  unfold wide
  rw [(Hs.wide_spec _ key 10 _ sd1 j1 h1 input.length t input rfl hne).1,
      (Hs.wide_spec _ key 10 _ sd2 j2 h2 input.length t input rfl hne).1]

/-- incremental hashing: the same update history at two degrees gives the same hash and count -/
theorem hasher_degree_independent (sd1 j1 sd2 j2 : Nat) (h1 : sd1 = 2 ^ j1) (h2 : sd2 = 2 ^ j2)
    (mode : Spec.Mode) (xs : List (List UInt8)) :
    ∃ ha hb,
      xs.foldl (fun (o : Option Hasher) x => o.bind (fun h => h.update genK sd1 x))
        (some (Hasher.newInternal (modeKeyWords genK sd1 mode) (modeFlags mode))) = some ha ∧
      xs.foldl (fun (o : Option Hasher) x => o.bind (fun h => h.update genK sd2 x))
        (some (Hasher.newInternal (modeKeyWords genK sd2 mode) (modeFlags mode))) = some hb ∧
      ha.finalize genK = hb.finalize genK ∧ ha.count = hb.count := by
  obtain ⟨ha, a1, a2, a3⟩ := C02.update_split_independent sd1 j1 h1 mode xs
  obtain ⟨hb, b1, b2, b3⟩ := C02.update_split_independent sd2 j2 h2 mode xs
  exact ⟨ha, hb, a1, b1, by rw [a2, b2], by rw [a3, b3]⟩

/-- every SIMD degree in the sources (`Platform::simd_degree` arms, `MAX_SIMD_DEGREE*` tables,
`blake3_simd_degree` return values, C `MAX_SIMD_DEGREE`) is a power of two, and no platform's
degree exceeds the largest `MAX_SIMD_DEGREE` -/
theorem degree_tables_pow2 :
    (∀ p ∈ Gen.Listings.simdDegrees, p.2 ∈ [1, 2, 4, 8, 16]) ∧
    (∀ d ∈ Gen.Listings.maxSimdDegrees ++ Gen.Listings.maxSimdDegreesOr2 ++ Gen.Listings.cSimdDegrees ++ Gen.Listings.cMaxSimdDegrees,
        d ∈ [1, 2, 4, 8, 16]) ∧
    (∀ p ∈ Gen.Listings.simdDegrees, p.2 ≤ 16) ∧ (∀ d ∈ Gen.Listings.maxSimdDegreesOr2, 2 ≤ d) := by
  decide

example : (16 : Nat) = 2 ^ 4 ∧ (4 : Nat) = 2 ^ 2 := by decide

end B3.Props.C04
