/-
Property theorems about the code TRANSLATED from the sources (artefact proofs in B3/Proofs/RsOneShot*.lean): generated = model for all inputs,
and the property-level facts restated for the generated functions.  Theorem statements only; helper lemmas are in the Proofs file.
-/
import B3.Proofs.RsOneShot
import B3.Props.C05P
namespace B3.Proofs.RsOneShot
open B3 B3.Arith B3.Gen.RsUpdate B3.Proofs.RsUpdate B3.Gen.RsOneShot

/-! ### main theorems -/

section main
variable (K : Kern) (sd : Nat)
variable (hm : Nat → List (List UInt8) → CV → Nat → Bool → UInt8 → UInt8 → UInt8 → List CV → R (List CV)) (M M2 : Nat)
variable (tpn : List UInt8 → CV → Nat → UInt8 → R (List CV))

/-- **`hash`, `keyed_hash`, `derive_key` = `Rs.oneShot`**: for every mode (every 32-byte key, every context string), every
input shorter than 2^64 bytes, every kernel, every platform meeting `PlatOk` and the `hash_many` contract: the translated
entry point calls `hash_all_at_once::<SerialJoin>` with the key words (`IV`, the little-endian words of the key, or the
words of the context key = root hash of the context under `DERIVE_KEY_CONTEXT`) and the flag byte (`0`, `KEYED_HASH`,
`DERIVE_KEY_MATERIAL`) of the model, takes `root_hash()`, and does not panic. -/
theorem oneshot_translated_eq_model (hspec : HashManySpec K hm) (hp : PlatOk sd M M2) (mode : Spec.Mode) (m : List UInt8)
    (hlt : m.length < 2 ^ 64) (hctx : modeInputsFit mode) :
    runOneShot (modelEnv K sd hm M M2 tpn) (Rs.rootHash K) mode m = .ok (Rs.oneShot K sd mode m) :=
  oneshot_of_haao K sd hm M M2 tpn
    (fun input key flags h => hash_all_at_once_eq_model K sd hm M M2 tpn hspec hp input key flags h) mode m hlt hctx

/-- **the translated one-shot functions compute the specification's hash**: with the compression function generated from
src/portable.rs (`genK`), for every mode and every input shorter than 2^64 bytes, at every power-of-two SIMD degree -/
theorem oneshot_translated_eq_spec (hspec : HashManySpec genK hm) (hp : PlatOk sd M M2) (mode : Spec.Mode)
    (m : List UInt8) (hlt : m.length < 2 ^ 64) (hctx : modeInputsFit mode) :
    runOneShot (modelEnv genK sd hm M M2 tpn) (Rs.rootHash genK) mode m = .ok (Spec.hash mode m) := by
  obtain ⟨j, hj⟩ := hp.pow
  rw [oneshot_translated_eq_model genK sd hm M M2 tpn hspec hp mode m hlt hctx, Props.C01.hash_eq_spec sd j hj mode m]

/-- `Hasher::update` and `Hasher::update_rayon` are `update_with_join::<SerialJoin>` / `::<RayonJoin>`; as functions of the
hasher state they are the same translated `update_with_join` (the translation runs `J::join(a, b)` as `a` then `b`) -/
theorem update_is_update_with_join {CS Out : Type} (E : Env CS Out) (key : CV) (cs : CS) (t0 : Nat) (stack : List CV)
    (x : List UInt8) :
    Hasher.update E key cs t0 stack x = update_with_join E key cs t0 stack x ∧
    Hasher.update_rayon E key cs t0 stack x = update_with_join E key cs t0 stack x := by
  unfold Hasher.update Hasher.update_rayon update_with_join_with
  exact ⟨bind_pure_R _, bind_pure_R _⟩

/-- `Hasher::update` run on a model hasher -/
def runHasherUpdate (h : Rs.Hasher) (x : List UInt8) : R Rs.Hasher :=
  match Hasher.update (modelEnv K sd hm M M2 tpn) h.key h.cs h.t0 h.stack x with
  | .ok r => .ok { key := h.key, cs := r.1, t0 := h.t0, stack := r.2 }
  | .panic => .panic

/-- **`Hasher::update` = the model's `Hasher.update`** (via `update_with_join_full` of Props/C01T.lean: the translated
`update_with_join` calling the translated subtree functions), on every state / input satisfying `UpdPre` -/
theorem hasher_update_eq_model (hspec : HashManySpec K hm) (hp : PlatOk sd M M2) (h : Rs.Hasher) (x : List UInt8)
    (pre : UpdPre h x) (h' : Rs.Hasher) (hu : h.update K sd x = some h') :
    runHasherUpdate K sd hm M M2 (compress_subtree_to_parent_node (modelEnv K sd hm M M2 (modelTpn K sd))) h x = .ok h' := by
  have := update_with_join_full K sd hm M M2 hspec hp h x pre h' hu
  unfold runUpdate at this
  unfold runHasherUpdate
  rw [(update_is_update_with_join _ h.key h.cs h.t0 h.stack x).1]
  exact this

/-- **the portable Rust build, nothing assumed about `hash_many`**: with `Platform::hash_many` = the translated
`portable::hash_many` of src/portable.rs (on the bytes of the output array, `liftHM`) and the kernel generated from
src/portable.rs, `hash` / `keyed_hash` / `derive_key` as translated return the specification's hash, for every mode and every
input shorter than 2^64 bytes, at every degree / array-size constants meeting `PlatOk` (src/platform.rs uses degree 1 for
`Platform::Portable`).  Uses the subtree theorems under the strict counter bound (Proofs/RsUpdateLt.lean). -/
theorem oneshot_portable_eq_spec (hp : PlatOk sd M M2) (mode : Spec.Mode) (m : List UInt8) (hlt : m.length < 2 ^ 64)
    (hctx : modeInputsFit mode) :
    runOneShot (modelEnv genK sd (PortableMany.liftHM Gen.PortableMany.Rs.hash_many) M M2 tpn) (Rs.rootHash genK) mode m
      = .ok (Spec.hash mode m) := by
  obtain ⟨j, hj⟩ := hp.pow
  rw [oneshot_of_haao genK sd _ M M2 tpn
    (fun input key flags h => RsUpdateLt.hash_all_at_once_eq_model genK sd _ M M2 tpn
      PortableMany.rs_portable_hash_many_spec hp input key flags h) mode m hlt hctx,
    Props.C01.hash_eq_spec sd j hj mode m]

/-- which `Join` the entry points instantiate: everything is single-threaded (`SerialJoin`) except `update_rayon` -/
theorem join_instantiations :
    (∀ p ∈ instantiations, p.1 ≠ "Hasher.update_rayon" → p.2 = JoinImpl.SerialJoin) ∧
    ("Hasher.update_rayon", JoinImpl.RayonJoin) ∈ instantiations ∧
    (instantiations.map Prod.fst = ["hash_derive_key_context", "hash", "keyed_hash", "derive_key", "Hasher.update", "Hasher.update_rayon"]) := by
  decide

/-- the hypotheses are satisfiable: the reference `hash_many`, degree 4 -/
example (m : List UInt8) (hlt : m.length < 2 ^ 64) (ctx : List UInt8) (hc : ctx.length < 2 ^ 64) :
    runOneShot (modelEnv genK 4 (hashManyRef genK) 4 4 (modelTpn genK 4)) (Rs.rootHash genK) (.derive ctx) m
      = .ok (Spec.hash (.derive ctx) m) :=
  oneshot_translated_eq_spec 4 (hashManyRef genK) 4 4 (modelTpn genK 4)
    (by intro N inputs key t inc flags fs fe out _ _ _ h _; unfold hashManyRef; rw [if_pos h])
    ⟨⟨2, rfl⟩, by omega, by omega, by omega, by omega⟩ (.derive ctx) m hlt hc

end main

end B3.Proofs.RsOneShot

