/-
Property theorems about the code TRANSLATED from the sources (artefact proofs in B3/Proofs/RsIo*.lean): generated = model for all inputs,
and the property-level facts restated for the generated functions.  Theorem statements only; helper lemmas are in the Proofs file.
-/
import B3.Proofs.RsIo
namespace B3.Proofs.RsIo
open B3 B3.Io B3.Arith B3.Gen.RsIo

/-! ### main theorems -/

section
variable {H : Type} (upd updR : H → List UInt8 → H)

/-- **`copy_wide` as translated from src/io.rs is the model's `copyWide`**: same hasher, same `io::Result<u64>`, same
reader state left behind - for every hasher, every `update` function and every reader script (any pattern of data,
short reads, `Interrupted`, errors, end of file) that yields fewer than `2^64` bytes before its first error / end of file
(the `u64` counter `total` has overflow checks; the model counts in `Nat`).  In particular the translated code never
panics: the slice `&buffer[..n]` is always in range and the fuel `weight reader + 1` always suffices. -/
theorem copy_wide_translated_eq_model (evs : List ReadEvent) (h : H) (hlen : (dataBefore evs).length < 2 ^ 64) :
    copy_wide upd evs h =
      .ok ((copyWide upd evs h).1, ofModel (copyWide upd evs h).2.1, (copyWide upd evs h).2.2) :=
  copy_wide_eq upd evs h hlen

/-- `Hasher::update_reader` as translated from src/lib.rs is the model's `updateReader` -/
theorem update_reader_translated_eq_model (evs : List ReadEvent) (h : H) (hlen : (dataBefore evs).length < 2 ^ 64) :
    update_reader upd evs h = .ok ((updateReader upd evs h).1, ofModel (updateReader upd evs h).2) :=
  update_reader_eq upd evs h hlen

end

/-- **`maybe_mmap_file` as translated from src/io.rs takes the model's decision `mmapPlan`, in every file state** (any
answer of the seek probe, of `mmap`, of `rewind`, any cursor, release or debug build): it returns the mapping of the first
`len` bytes when the model says `mapped len`; `Ok(None)` **with the file cursor where the model says ordinary reads will
start** when the model says `fallbackRead c`; and the `rewind` error when the model says `err`.  It does not panic. -/
theorem maybe_mmap_file_translated_eq_model (debug_assertions : Bool) (f : File) (ha : Admissible debug_assertions f) :
    maybe_mmap_file debug_assertions f = .ok (resultOfPlan f (mmapPlan (env f))) :=
  maybe_mmap_file_eq debug_assertions f ha

/-- the same, read from the generated side: the decision that the returned value and file state encode is the model's,
and only the cursor of the file has changed -/
theorem maybe_mmap_file_translated_plan (debug_assertions : Bool) (f : File) (ha : Admissible debug_assertions f) :
    ∃ r f', maybe_mmap_file debug_assertions f = .ok (r, f') ∧ planOf (r, f') = mmapPlan (env f) ∧
      f' = { f with cursor := f'.cursor } := by
  refine ⟨_, _, maybe_mmap_file_eq debug_assertions f ha, planOf_resultOfPlan _ _, ?_⟩
  cases mmapPlan (env f) <;> rfl

/-- every file state of the model is covered: for a model `OpenFile` the translated function decides `mmapPlan` of its `env` -/
theorem maybe_mmap_file_translated_covers_model (debug_assertions : Bool) (o : OpenFile)
    (ha : Admissible debug_assertions (ofOpen o)) :
    maybe_mmap_file debug_assertions (ofOpen o) = .ok (resultOfPlan (ofOpen o) (mmapPlan o.env)) :=
  maybe_mmap_file_eq debug_assertions (ofOpen o) ha

section
variable {H : Type} (upd updR : H → List UInt8 → H)

/-- **`Hasher::update_mmap` as translated from src/lib.rs is the model's `updateMmapFile`** on every successfully opened
file: `update(&mmap)` on `Some(mmap)`, `copy_wide(&file, self)` - reading from wherever `maybe_mmap_file` left the
cursor - on `None`, the error on `Err` -/
theorem update_mmap_file_translated_eq_model (dbg : Bool) (f : File) (h : H) (ha : AdmissibleFile dbg f) :
    update_mmap upd dbg (.ok f) h =
      .ok ((updateMmapFile upd upd (toOpen f) h).1, ofModel (updateMmapFile upd upd (toOpen f) h).2) :=
  update_mmap_file_eq upd dbg f h ha

/-- `update_mmap_rayon`: the same with `update_rayon` applied to the mapping (the fallback still uses `update`) -/
theorem update_mmap_rayon_file_translated_eq_model (dbg : Bool) (f : File) (h : H) (ha : AdmissibleFile dbg f) :
    update_mmap_rayon upd updR dbg (.ok f) h =
      .ok ((updateMmapFile updR upd (toOpen f) h).1, ofModel (updateMmapFile updR upd (toOpen f) h).2) :=
  update_mmap_rayon_file_eq upd updR dbg f h ha

/-- when `File::open` fails both return its error (the very same `io::Error`) and leave the hasher alone -/
theorem update_mmap_open_error (dbg : Bool) (e : IoError) (h : H) :
    update_mmap upd dbg (.error e) h = .ok (h, .error e) ∧
    update_mmap_rayon upd updR dbg (.error e) h = .ok (h, .error e) := ⟨rfl, rfl⟩

/-- **path level: `update_mmap(path)` / `update_mmap_rayon(path)` as translated are the model's `updateMmap`**, whatever
`File::open(path)` returned (`view` shows a result the way the model names errors) -/
theorem update_mmap_translated_eq_model (dbg : Bool) (opened : IoResult File) (h : H)
    (ha : ∀ f, opened = .ok f → AdmissibleFile dbg f) :
    view (update_mmap upd dbg opened h) = .ok (updateMmap upd upd (openedModel opened) h) ∧
    view (update_mmap_rayon upd updR dbg opened h) = .ok (updateMmap updR upd (openedModel opened) h) := by
  cases opened with
  | error e => exact ⟨rfl, rfl⟩
  | ok f =>
    rw [update_mmap_file_eq upd dbg f h (ha f rfl), update_mmap_rayon_file_eq upd updR dbg f h (ha f rfl)]
    simp [view, openedModel, updateMmap]

/-- `impl std::io::Write for Hasher` as translated is the model's `write` / `flush` -/
theorem write_translated_eq_model (h : H) (buf : List UInt8) :
    Gen.RsIo.write upd h buf = .ok ((Io.write upd h buf).1, ofModel (Io.write upd h buf).2) ∧
    Gen.RsIo.flush h = .ok ((Io.flush h).1, ofModel (Io.flush h).2) := ⟨rfl, rfl⟩

end

/-- `impl std::io::Read for OutputReader` as translated: `fill`, then `Ok(buf.len())` -/
theorem read_translated {Rd : Type} (fill : Rd → List UInt8 → Rd × List UInt8) (r : Rd) (buf : List UInt8) :
    read fill r buf = .ok ((fill r buf).1, (fill r buf).2, .ok (fill r buf).2.length) := rfl

/-- ... on the model's `OutputReader` (whose `fill` is proved in `Proofs/Xof.lean`): the buffer is filled with the next
`buf.len()` bytes of the output stream, the position advances by as much, and `Ok(buf.len())` is returned -/
theorem read_translated_eq_model (r : Rs.OutputReader) (buf : List UInt8) (hb : r.inner.blen ≤ 64) (hp : r.pwb < 64) :
    read (fun r b => ((r.fill Kern.spec b.length).2, (r.fill Kern.spec b.length).1)) r buf =
      .ok ((r.fill Kern.spec buf.length).2, r.inner.stream r.position buf.length, .ok buf.length) ∧
    ((r.fill Kern.spec buf.length).2).position = r.position + buf.length := by
  obtain ⟨h1, h2, _, _⟩ := fill_eq_slice r buf.length hb hp
  refine ⟨?_, h2⟩
  rw [read_translated]
  simp only [h1, stream_length]

/-! #### the C11 properties, restated for the generated code -/

section
variable {H : Type} (upd updR : H → List UInt8 → H)

/-- **What the translated `copy_wide` does, for every reader script**: the hasher receives exactly the calls
`update(c)` for `c` in `chunks 65536 evs` - the successful non-empty reads, in order, up to the first `Ok(0)` or
non-`Interrupted` error; the result is `Err(k)` iff that first stopper is an error `k`, else `Ok(number of bytes)`;
nothing is read after the stopper. -/
theorem copy_wide_translated_spec (evs : List ReadEvent) (h : H) (hlen : (dataBefore evs).length < 2 ^ 64) :
    copy_wide upd evs h = .ok ((chunks BUFFER evs).foldl upd h, ofModel (outcome evs), remaining evs) := by
  rw [copy_wide_eq upd evs h hlen, (copy_wide_spec upd evs h).1]

/-- **The bytes absorbed are exactly the concatenation of the successful reads up to the first `Ok(0)` or
non-`Interrupted` error.**  (1) With the hasher that records its `update` calls, the record is `chunks 65536 evs`; each
recorded piece is non-empty and at most 65536 bytes long, and their concatenation is `dataBefore evs`.  (2) For any
hasher whose `update` is a monoid action (C02), the final state is `update(h, dataBefore evs)`: the way the data was cut
into reads, and the `Interrupted`s, do not matter. -/
theorem copy_wide_translated_absorbs (evs : List ReadEvent) (hlen : (dataBefore evs).length < 2 ^ 64) :
    (copy_wide recUpd evs [] = .ok (chunks BUFFER evs, ofModel (outcome evs), remaining evs)
      ∧ (chunks BUFFER evs).flatten = dataBefore evs
      ∧ ∀ c ∈ chunks BUFFER evs, c ≠ [] ∧ c.length ≤ BUFFER)
    ∧ ((∀ h a b, upd (upd h a) b = upd h (a ++ b)) → (∀ h, upd h [] = h) → ∀ h : H,
        copy_wide upd evs h = .ok (upd h (dataBefore evs), ofModel (outcome evs), remaining evs)) := by
  refine ⟨⟨?_, (copy_wide_spec recUpd evs []).2.2.1, (copy_wide_spec recUpd evs []).2.1⟩, ?_⟩
  · rw [copy_wide_translated_spec recUpd evs [] hlen]
    have : ∀ (cs : List (List UInt8)) (acc : List (List UInt8)), cs.foldl recUpd acc = acc ++ cs := by
      intro cs; induction cs with
      | nil => intro acc; simp
      | cons c cs ih => intro acc; simp [ih, recUpd]
    rw [this]; rfl
  · intro hcat hnil h
    rw [copy_wide_translated_spec upd evs h hlen, foldl_upd_flatten upd hcat hnil, chunks_flatten]

/-- deleting every `Interrupted` from the script changes neither the hasher nor the result of the translated `copy_wide` -/
theorem copy_wide_translated_interrupted_transparent (evs : List ReadEvent) (h : H) (hlen : (dataBefore evs).length < 2 ^ 64) :
    copy_wide upd (evs.filter notInterrupted) h =
      .ok ((chunks BUFFER evs).foldl upd h, ofModel (outcome evs), (remaining evs).filter notInterrupted) := by
  rw [copy_wide_translated_spec upd _ h (by rw [dataBefore_filter]; exact hlen), chunks_filter, outcome_filter, remaining_filter]

/-- **The translated `maybe_mmap_file` on a freshly opened regular file of length `L`**: it maps the file - all `L` bytes -
iff `L ≥ 16384`, `L ≤ isize::MAX` and the `mmap` call succeeds; in every other case it returns `Ok(None)` **with the cursor
back at 0** (also after a failed `mmap`: that is the `rewind`). -/
theorem maybe_mmap_file_translated_spec (dbg : Bool) (f : File) (L : Nat) (hreg : RegularFile (env f) L)
    (hlo : SEEK_OFFSET ≤ f.sys.isizeMax) (hhi : f.sys.isizeMax < 2 ^ 64) :
    maybe_mmap_file dbg f =
      .ok (if MINIMUM_MMAP_SIZE ≤ L ∧ L ≤ f.sys.isizeMax ∧ f.sys.mapOk L = true
           then (.ok (some ⟨L, f.contents.take L⟩), { f with cursor := L - SEEK_OFFSET })
           else (.ok none, { f with cursor := 0 })) := by
  have hc : f.cursor = 0 := hreg.fresh
  rw [maybe_mmap_file_eq dbg f ⟨hlo, hhi, fun _ _ => hc⟩, mmap_plan_spec (env f) L hreg]
  by_cases hcond : MINIMUM_MMAP_SIZE ≤ L ∧ L ≤ f.sys.isizeMax ∧ f.sys.mapOk L = true
  · have hM : MINIMUM_MMAP_SIZE = 16384 := rfl
    have hS : SEEK_OFFSET = 16383 := rfl
    have hseek : f.sys.seekEnd (-(SEEK_OFFSET : Int)) = .ok (L - SEEK_OFFSET) := by
      have := hreg.seek
      simp only [env] at this
      rw [this, if_neg (by omega)]
    rw [if_pos hcond, if_pos (by simpa [env] using hcond)]
    simp only [resultOfPlan, probeCursor, hseek]
  · rw [if_neg hcond, if_neg (by simpa [env] using hcond)]
    rfl

/-- **`update_mmap` as translated absorbs the whole file from offset 0, whichever path is taken** (mapping, or the
read fallback after the probe, or the read fallback after a failed / impossible `mmap` and the `rewind`): on a freshly
opened regular file whose ordinary reads are faithful, with `update` a monoid action (C02), the hasher ends as
`update(h, contents)` and the result is `Ok`.  `update_mmap_rayon` likewise when `update_rayon` agrees with `update`
(C03/C04). -/
theorem update_mmap_translated_absorbs_whole_file
    (hcat : ∀ h a b, upd (upd h a) b = upd h (a ++ b)) (hnil : ∀ h, upd h [] = h)
    (hrayon : ∀ h x, updR h x = upd h x)
    (dbg : Bool) (f : File) (h : H)
    (hreg : RegularFile (env f) f.contents.length) (hreads : FaithfulReads (toOpen f))
    (hsize : f.contents.length < 2 ^ 64) (hlo : SEEK_OFFSET ≤ f.sys.isizeMax) (hhi : f.sys.isizeMax < 2 ^ 64) :
    update_mmap upd dbg (.ok f) h = .ok (upd h f.contents, .ok ()) ∧
    update_mmap_rayon upd updR dbg (.ok f) h = .ok (upd h f.contents, .ok ()) := by
  have ha : AdmissibleFile dbg f := by
    refine ⟨⟨hlo, hhi, fun _ _ => hreg.fresh⟩, fun c => ?_⟩
    have := hreads.bytes c
    simp only [toOpen] at this
    rw [this, List.length_drop]; omega
  have e1 := (update_mmap_eq_update_reader upd upd (fun _ _ => rfl) hcat hnil (toOpen f) hreg hreads h).1
  have e2 := (update_mmap_eq_update_reader updR upd hrayon hcat hnil (toOpen f) hreg hreads h).1
  rw [update_mmap_file_eq upd dbg f h ha, update_mmap_rayon_file_eq upd updR dbg f h ha, e1, e2]
  exact ⟨rfl, rfl⟩

/-- `Write::write` as translated consumes the whole buffer: the state is `update(buf)`, the result `Ok(buf.len())`;
`flush` does nothing -/
theorem write_translated_consumes_all (h : H) (buf : List UInt8) :
    Gen.RsIo.write upd h buf = .ok (upd h buf, .ok buf.length) ∧ Gen.RsIo.flush h = .ok (h, .ok ()) := ⟨rfl, rfl⟩

end

/-! #### non-vacuity -/

-- the hypotheses of the theorems above hold for ordinary files of any length below 2^64, in release and debug builds
example (contents : List UInt8) (mapOk : Nat → Bool) (h : contents.length < 2 ^ 64) (dbg : Bool) :
    AdmissibleFile dbg (posixFile contents mapOk) := posixFile_admissible dbg contents mapOk h

example : AdmissibleFile true (posixFile (List.replicate 20000 7) (fun _ => false)) :=
  posixFile_admissible _ _ _ (by rw [List.length_replicate]; omega)

-- a script with short reads, an Interrupted, an empty data event, then an error: both pieces are absorbed, `Err` is
-- returned, the event after the error is not read
example :
    copy_wide recUpd [.data [1, 2], .interrupted, .data [], .data [3], .fail "Other", .data [4]] [] =
      .ok ([[1, 2], [3]], .error ⟨.Other "Other"⟩, [.data [4]]) := by
  rw [(copy_wide_translated_absorbs recUpd _ (by simp)).1.1]
  simp [pieces_fits, pieces_nil, BUFFER, outcome, ofModel]

-- end of file: Ok(total)
example :
    copy_wide catUpd [.data [1, 2], .data [3], .eof, .fail "Other"] [0] = .ok ([0, 1, 2, 3], .ok 3, [.fail "Other"]) := by
  rw [(copy_wide_translated_absorbs catUpd _ (by simp)).2 (by simp [catUpd]) (by simp [catUpd])]
  simp [catUpd, outcome, ofModel]

-- the three paths of `update_mmap` on regular files: short file (probe fails, read from 0), long file (mapped),
-- long file that cannot be mapped (probe, failed mmap, rewind, read from 0)
example (contents : List UInt8) (mapOk : Nat → Bool) (hlen : contents.length < 2 ^ 64) (dbg : Bool) (h : List UInt8) :
    update_mmap catUpd dbg (.ok (posixFile contents mapOk)) h = .ok (h ++ contents, .ok ()) :=
  (update_mmap_translated_absorbs_whole_file catUpd catUpd (by simp [catUpd]) (by simp [catUpd]) (fun _ _ => rfl) dbg
    (posixFile contents mapOk) h (posixFile_regular _ _) (posixFile_faithful _ _) hlen (posixFile_isize_lo _ _)
    (posixFile_isize_hi _ _)).1

example (contents : List UInt8) (hL : contents.length = 100000) :
    maybe_mmap_file false (posixFile contents (fun _ => true)) =
      .ok (.ok (some ⟨100000, contents.take 100000⟩), { posixFile contents (fun _ => true) with cursor := 83617 })
    ∧ maybe_mmap_file false (posixFile contents (fun _ => false)) =
      .ok (.ok none, { posixFile contents (fun _ => false) with cursor := 0 }) := by
  constructor
  · rw [maybe_mmap_file_translated_spec false _ 100000 (hL ▸ posixFile_regular _ _) (posixFile_isize_lo _ _) (posixFile_isize_hi _ _)]
    rw [if_pos ⟨by decide, by show 100000 ≤ 2 ^ 63 - 1; decide, rfl⟩]
    rfl
  · rw [maybe_mmap_file_translated_spec false _ 100000 (hL ▸ posixFile_regular _ _) (posixFile_isize_lo _ _) (posixFile_isize_hi _ _)]
    rw [if_neg (fun h => by simp [posixFile] at h)]

-- a failing rewind is the only error, and it leaves the cursor where the probe put it
example (contents : List UInt8) (hL : contents.length = 100000) :
    let f : File := { posixFile contents (fun _ => false) with
                      sys := { (posixFile contents (fun _ => false)).sys with rewindErr := some "EIO" } }
    maybe_mmap_file false f = .ok (.error ⟨.Other "EIO"⟩, { f with cursor := 83617 }) := by
  intro f
  rw [maybe_mmap_file_eq false f ⟨by show SEEK_OFFSET ≤ 2 ^ 63 - 1; decide, by show 2 ^ 63 - 1 < 2 ^ 64; decide, by simp⟩]
  have hseek : f.sys.seekEnd (-(SEEK_OFFSET : Int)) = .ok 83617 := by
    simp only [f, posixFile, neg_seek_offset, hL]; decide
  simp only [mmapPlan, env, hseek]
  rw [if_neg (by decide), if_neg (by simp [f, posixFile])]
  simp only [f, posixFile, resultOfPlan, probeCursor, neg_seek_offset, hL]
  rfl

end B3.Proofs.RsIo

#print axioms B3.Proofs.RsIo.copy_wide_translated_eq_model
#print axioms B3.Proofs.RsIo.update_reader_translated_eq_model
#print axioms B3.Proofs.RsIo.maybe_mmap_file_translated_eq_model
#print axioms B3.Proofs.RsIo.maybe_mmap_file_translated_plan
#print axioms B3.Proofs.RsIo.maybe_mmap_file_translated_covers_model
#print axioms B3.Proofs.RsIo.maybe_mmap_file_debug_assert
#print axioms B3.Proofs.RsIo.update_mmap_file_translated_eq_model
#print axioms B3.Proofs.RsIo.update_mmap_rayon_file_translated_eq_model
#print axioms B3.Proofs.RsIo.update_mmap_open_error
#print axioms B3.Proofs.RsIo.update_mmap_translated_eq_model
#print axioms B3.Proofs.RsIo.write_translated_eq_model
#print axioms B3.Proofs.RsIo.read_translated
#print axioms B3.Proofs.RsIo.read_translated_eq_model
#print axioms B3.Proofs.RsIo.copy_wide_translated_spec
#print axioms B3.Proofs.RsIo.copy_wide_translated_absorbs
#print axioms B3.Proofs.RsIo.copy_wide_translated_interrupted_transparent
#print axioms B3.Proofs.RsIo.maybe_mmap_file_translated_spec
#print axioms B3.Proofs.RsIo.update_mmap_translated_absorbs_whole_file
#print axioms B3.Proofs.RsIo.write_translated_consumes_all

