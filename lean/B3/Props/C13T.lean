/-
Property theorems about the code TRANSLATED from the sources (artefact proofs in B3/Proofs/B3sumParse*.lean): generated = model for all inputs,
and the property-level facts restated for the generated functions.  Theorem statements only; helper lemmas are in the Proofs file.
-/
import B3.Proofs.B3sumParse
namespace B3.Proofs.B3sumParse
open B3.B3sum B3.B3sum.RustPrim
open B3.Gen

/-! ### main theorems -/

/-- `hex_half_byte` as translated = the model's -/
theorem hex_half_byte_translated_eq_model (c : Char) : B3sumParse.hex_half_byte c = hexHalfByte c := hex_half_byte_eq c

/-- `check_for_invalid_characters` as translated = the model's -/
theorem check_for_invalid_characters_translated_eq_model (p : Str) :
    B3sumParse.check_for_invalid_characters p = checkForInvalidCharacters p := check_for_invalid_characters_eq p

/-- `filepath_to_string` as translated never fails and returns the model's pair -/
theorem filepath_to_string_translated_eq_model {ε : Type} (path : List UInt8) :
    B3sumParse.filepath_to_string (ε := ε) path =
      .ok { filepath_string := (filepathToStringBytes path).1, is_escaped := (filepathToStringBytes path).2 } :=
  filepath_to_string_eq path

/-- the two split functions as translated = the model's -/
theorem split_check_line_translated_eq_model (s : Str) :
    B3sumParse.split_tagged_check_line (ε := PErr) s = splitTagged s ∧
    B3sumParse.split_untagged_check_line (ε := PErr) s = .ok (splitUntagged s) :=
  ⟨split_tagged_check_line_eq s, rfl⟩

/-- the `for byte in &mut hash_bytes` loop of `parse_check_line` as translated = the model's `decodeHashLoop` -/
theorem decode_loop_translated_eq_model (n : Nat) (cs : Str) :
    (B3sumParse.parse_check_line_for (List.replicate n 0) cs).bind (fun r => .ok (u8sToBytes r.1)) = decodeHashLoop n cs :=
  decode_loop_eq n cs

/-- the formatter: what the translated `hash_one_input` appends to stdout is what the model's `hashOneInputOk` prints
(for all of --raw / --no-names / --tag / --length / --seek) -/
theorem hash_one_input_translated_eq_model {Rd : Type} (rd : Rd) (a : HashArgs) (S : Nat → UInt8) (path : List UInt8)
    (stdout : List OutTok) :
    B3sumParse.hash_one_input (ε := Unit) (fun _ => .ok rd) (fun _ => .ok (writeRawOutput S a.seek a.len))
        (fun _ => writeHexOutput S a.seek a.len) path a.raw a.noNames a.tag stdout
      = Res.map (fun o => stdout ++ outOf o) (hashOneInputOk a S path) :=
  hash_one_input_eq_model rd a S path stdout

/-- the line formatter proper: with names, the translated `hash_one_input` prints the model's `formatLineBytes` and `\n` -/
theorem format_line_translated_eq_model {ε Rd : Type} (hp : List UInt8 → Res ε Rd) (wr : Rd → Res ε (List UInt8))
    (wh : Rd → Res ε Str) (rd : Rd) (hex : Str) (path : List UInt8) (tag : Bool) (stdout : List OutTok)
    (h1 : hp path = .ok rd) (h2 : wh rd = .ok hex) :
    B3sumParse.hash_one_input hp wr wh path false false tag stdout =
      .ok (stdout ++ outText (formatLineBytes tag path hex ++ ['\n'])) := by
  rw [hash_one_input_eq, h1]; simp [h2]

/-- the line loop of `check_one_checkfile` as translated (reader = list of `read_line` results, saturating counter)
= the model's `checkLines` -/
theorem check_one_checkfile_translated_eq_model (env : Env) (path : List UInt8) (lines : List ReadLine) (st : CheckState)
    (hst : st.failed < 2 ^ 64) :
    B3sumParse.check_one_checkfile (lineRes env) path st.failed lines = fileRes (checkLines env lines st) :=
  check_one_checkfile_eq_model env path lines st hst

/-- the exit decision of `main` as translated: `std::process::exit(if files_failed > 0 { 1 } else { 0 })` -/
theorem exit_decision_translated (c : List UInt8 → Nat → Res String Nat) (h : List UInt8 → Res String Unit)
    (files : List (List UInt8)) (check : Bool) (failed : Nat)
    (hloop : B3sumParse.main_closure_for c h files 0 check = .ok failed) :
    B3sumParse.main_closure c h files check = .ok (if failed > 0 then 1 else 0) := by
  rw [main_closure_exit_decision, hloop]; rfl

/-- `unescape` as translated = the model's `unescape` (for every string shorter than 2^62 bytes: `2 * path.len()` is
then a valid capacity) -/
theorem unescape_translated_eq_model (path : Str) (hb : byteLen path < 2 ^ 62) :
    B3sumParse.unescape path = B3sum.unescape path := unescape_eq_lit path hb

/-- `parse_check_line` as translated = the model's `parseCheckLine` (as a `ParsedCheckLine`) -/
theorem parse_check_line_translated_eq_model (line : Str) (hb : byteLen line < 2 ^ 62) :
    B3sumParse.parse_check_line line = Res.map toGen (parseCheckLine line) :=
  parse_check_line_eq_lit line hb

/-- without `--check`: the exit status computed by the translated `main` is the model's -/
theorem main_hash_translated_eq_model (c : List UInt8 → Nat → Res String Nat) (h : List UInt8 → Res String Unit)
    (files : List (List UInt8)) (hnp : ∀ p ∈ files, h p ≠ .panic) :
    exitStatus (B3sumParse.main_closure c h files false) = runHashExit (files.map fun p => (h p).isOk) := by
  rw [main_closure_exit_decision, main_hash_loop_eq c h files 0 (by decide) hnp]
  unfold runHashExit
  simp only [ok_bind]
  split <;> rfl

/-- with `--check`: the exit status computed by the translated `main` and the translated line loop of
`check_one_checkfile` is the model's `runCheckMain` -/
theorem main_check_translated_eq_model (env : Env) (open_ : List UInt8 → CheckSrc) (h : List UInt8 → Res String Unit)
    (files : List (List UInt8)) :
    exitStatus (B3sumParse.main_closure (checkFile env open_) h files true) = (runCheckMain env (files.map open_)).exit := by
  rw [main_closure_exit_decision]
  exact main_check_loop_eq env open_ h files { failed := 0, evs := [] } (by decide)

/-! #### corollaries: theorems of Props13 / Props12 for the translated code -/

theorem map_eq_ok {ε α β : Type} {f : α → β} {x : Res ε α} {b : β} (h : Res.map f x = .ok b) : ∃ a, x = .ok a ∧ f a = b := by
  cases x with
  | ok a => exact ⟨a, rfl, by simpa [Res.map] using h⟩
  | err e => simp [Res.map] at h
  | panic => simp [Res.map] at h

/-- `parse_total`: the translated parser never panics -/
theorem parse_check_line_total (line : Str) (hb : byteLen line < 2 ^ 62) : B3sumParse.parse_check_line line ≠ .panic := by
  rw [parse_check_line_translated_eq_model line hb]
  have := parse_total line
  cases h : parseCheckLine line with
  | ok r => simp [Res.map]
  | err e => simp [Res.map]
  | panic => exact absurd h this

/-- `parse_ok_shape` for the translated parser -/
theorem parse_check_line_ok_shape (line : Str) (hb : byteLen line < 2 ^ 62) (r : B3sumParse.ParsedCheckLine)
    (h : B3sumParse.parse_check_line line = .ok r) :
    ∃ body path, trimEndCRLF line = (if r.is_escaped then '\\' :: body else body) ∧
      (body = hexEncode r.expected_hash ++ UNTAG_SEP ++ r.file_string ∨
       body = TAG_PREFIX ++ r.file_string ++ TAG_SEP ++ hexEncode r.expected_hash) ∧
      r.expected_hash.length = 32 ∧
      r.file_path = utf8Encode path ∧
      (if r.is_escaped then unescapeSpec r.file_string = some path else path = r.file_string) ∧
      ValidPath path := by
  rw [parse_check_line_translated_eq_model line hb] at h
  obtain ⟨p, hp, hr⟩ := map_eq_ok h
  subst hr
  obtain ⟨body, h1, h2, h3, h4, h5⟩ := parse_ok_shape line p hp
  exact ⟨body, p.filePath, h1, h2, h3, rfl, h4, h5⟩

/-- format / parse round trip on the translated code: the line that the translated `hash_one_input` prints for an OS
path that is valid UTF-8 with a valid text (plain or `--tag` form, any of the usual terminators) is accepted by the
translated `parse_check_line` with exactly that path and that hash -/
theorem format_parse_round_trip {ε Rd : Type} (hp : List UInt8 → Res ε Rd) (wr : Rd → Res ε (List UInt8)) (wh : Rd → Res ε Str)
    (rd : Rd) (tag : Bool) (b : List UInt8) (p : Str) (hb : List UInt8) (term : Str)
    (h1 : hp b = .ok rd) (h2 : wh rd = .ok (hexEncode hb))
    (hs : strictDecode b = some p) (hv : ValidPath p) (hl : hb.length = 32) (ht : IsTerm term) :
    ∃ line, B3sumParse.hash_one_input hp wr wh b false false tag [] = .ok (outText (line ++ ['\n'])) ∧
      (byteLen (line ++ term) < 2 ^ 62 →
        ∃ r, B3sumParse.parse_check_line (line ++ term) = .ok r ∧ r.file_path = b ∧ r.expected_hash = hb) := by
  refine ⟨formatLineBytes tag b (hexEncode hb), ?_, ?_⟩
  · rw [hash_one_input_eq, h1]; simp [h2]
  · intro hlen
    obtain ⟨r, hr, hrp, hrh⟩ := parse_format_bytes tag b p hb term hs hv hl ht
    refine ⟨toGen r, ?_, hrp, hrh⟩
    rw [parse_check_line_translated_eq_model _ hlen, hr]; rfl

/-- `check_exit_iff` for the translated `main` + `check_one_checkfile` -/
theorem main_check_exit_iff (env : Env) (open_ : List UInt8 → CheckSrc) (h : List UInt8 → Res String Unit)
    (files : List (List UInt8)) (wf : WellFormed (files.map open_)) :
    exitStatus (B3sumParse.main_closure (checkFile env open_) h files true) = 0 ↔ AllGood env (files.map open_) := by
  rw [main_check_translated_eq_model]; exact check_exit_iff env _ wf

/-- the hypotheses are satisfiable: a concrete line below the length bound -/
example : byteLen ("\\BLAKE3 (a\\nb) = ".toList ++ hexEncode hashA ++ ['\r', '\n']) < 2 ^ 62 := by decide

#print axioms parse_check_line_translated_eq_model
#print axioms unescape_translated_eq_model
#print axioms filepath_to_string_translated_eq_model
#print axioms hash_one_input_translated_eq_model
#print axioms format_line_translated_eq_model
#print axioms check_one_checkfile_translated_eq_model
#print axioms exit_decision_translated
#print axioms main_hash_translated_eq_model
#print axioms main_check_translated_eq_model
#print axioms parse_check_line_total
#print axioms parse_check_line_ok_shape
#print axioms format_parse_round_trip
#print axioms main_check_exit_iff

end B3.Proofs.B3sumParse

