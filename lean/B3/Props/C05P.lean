/-
Property theorems about the code TRANSLATED from the sources (artefact proofs in B3/Proofs/PortableMany*.lean): generated = model for all inputs,
and the property-level facts restated for the generated functions.  Theorem statements only; helper lemmas are in the Proofs file.
-/
import B3.Proofs.PortableMany
namespace B3.Proofs.PortableMany
open B3 B3.Arith B3.Gen.RsUpdate B3.Proofs.RsUpdate
open B3.Gen.PortableMany.Rs renaming hash1 → g_hash1, hash1_loop → g_hash1_loop, hash_many → g_hash_many,
  hash_many_for → g_hash_many_for
open B3.Gen.PortableMany.C B3.Gen.PortableMany B3.CMem

/-! ### main theorems -/

/-- **src/portable.rs `hash_many` meets the `hash_many` contract** of the Rust tree layer (`HashManySpec` of
Proofs/RsUpdate.lean, counters strictly below 2^64), with the kernel `genK` = the `compress_in_place` generated from
src/portable.rs (= `Spec.compress`, `Proofs.genK_eq_spec`).  The output array is seen as chaining values (`liftHM`). -/
theorem rs_portable_hash_many_spec : HashManySpecLt genK (liftHM g_hash_many) := by
  intro N inputs key t inc flags fs fe out _ _ _ hout hctr
  unfold liftHM
  rw [rs_hash_many_eq N inputs key t inc flags fs fe (cvsBytes out) (by rw [cvsBytes_length]; omega) hctr]
  simp only []
  rw [cvsBytes_drop, ← cvsBytes_append, cvsOfBytes_cvsBytes]

/-- the same at byte level, without reference to the contract: every input, any `N` -/
theorem rs_portable_hash_many_eq_model (N : Nat) (inputs : List (List UInt8)) (key : CV) (t : Nat) (inc : Bool)
    (flags fs fe : UInt8) (out : List UInt8) (hout : 32 * inputs.length ≤ out.length)
    (hctr : inc = true → t + inputs.length < 2 ^ 64) :
    g_hash_many N inputs key t inc flags fs fe out
      = .ok (cvsBytes (hashManyModel genK key flags fs fe inc t inputs) ++ out.drop (32 * inputs.length)) :=
  rs_hash_many_eq N inputs key t inc flags fs fe out hout hctr

/-- **c/blake3_portable.c `blake3_hash_many_portable` meets the `hash_many` contract** of c/blake3.c (`HashManySpecC`), with
the kernel `genKC` = the `compress_in_place` generated from c/blake3_portable.c (= `Spec.compress`, `genKC_eq_spec`); for
every content of uninitialised locals.  The counter wraps modulo 2^64 like the C code's. -/
theorem c_portable_hash_many_spec (E : Env) : HashManySpecC genKC (blake3_hash_many_portable E) := by
  intro inputs num blocks key t inc flags fs fe out off hn hx ho _ _ _
  unfold blake3_hash_many_portable
  obtain ⟨t', e⟩ := c_hash_many_loop_eq E blocks key inc flags fs fe (num + 1) num inputs t out off (by omega) hn hx ho
  simp only [e, bind_ok, pure_ok]

/-- the contract's hypotheses are satisfiable and its conclusion concrete: one input of one chunk, 32 bytes of output -/
example (E : Env) (x : List UInt8) (hx : 1024 ≤ x.length) (key : CV) :
    blake3_hash_many_portable E [x] 1 16 key 5 true 0 1 2 (List.replicate 32 0) 0
      = .ok (bytesOfWords (Rs.hash1 genKC key 5 0 1 2 (x.take 1024))) := by
  rw [c_portable_hash_many_spec E [x] 1 16 key 5 true 0 1 2 (List.replicate 32 0) 0 (by simp) (by simpa using hx) (by simp)
    (by omega) (by omega) (by omega)]
  simp [hashManyModel, cvsBytes]

/-- both generated kernels are the specification's compression function -/
theorem portable_kernels_eq_spec : genK = Kern.spec ∧ genKC = Kern.spec := ⟨Proofs.genK_eq_spec, genKC_eq_spec⟩

end B3.Proofs.PortableMany

