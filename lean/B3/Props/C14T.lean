/-
Property theorems about the code TRANSLATED from the sources (artefact proofs in B3/Proofs/RsHash*.lean): generated = model for all inputs,
and the property-level facts restated for the generated functions.  Theorem statements only; helper lemmas are in the Proofs file.
-/
import B3.Proofs.RsHash
namespace B3.Proofs.RsHash
open B3.Hex B3.Gen.RsHash

/-! ### main theorems -/

/-- `OUT_LEN` and the declaration order of the `HexErrorInner` variants, as read from the source -/
theorem consts_translated_eq_model :
    B3.Gen.RsHash.OUT_LEN = B3.Hex.OUT_LEN ∧ hexErrorVariants = ["InvalidByte(u8)", "InvalidLen(usize)"] :=
  ⟨rfl, rfl⟩

/-- `Hash::as_bytes`, `from_bytes`, `as_slice`, `From<[u8; 32]> for Hash`, `From<Hash> for [u8; 32]` -/
theorem conversions_translated_eq_model (h : Hash) (b : Vector UInt8 32) :
    as_bytes h = h.asBytes ∧ from_bytes b = Hash.fromBytes b ∧ as_slice h = h.asSlice ∧
    from_array b = Hash.ofArray b ∧ into_array h = h.intoArray :=
  ⟨rfl, rfl, rfl, rfl, rfl⟩

/-- `Hash::from_slice`, for slices of every length -/
theorem from_slice_translated_eq_model (s : List UInt8) : from_slice s = fromSlice s := rfl

/-- the inner `fn hex_val` of `from_hex`, for all 256 bytes (ranges, arm order, checked `u8` arithmetic, error) -/
theorem hex_val_translated_eq_model : ∀ b : UInt8, hex_val b = hexVal b := by
  apply forall_byte; decide +kernel

/-- `Hash::to_hex` with its table lookups and `ArrayString::push`es, for every hash -/
theorem to_hex_translated_eq_model (h : Hash) : to_hex h = toHexO h := by
  unfold to_hex toHexO
  exact (bind_ok _).trans (forEach_toHex h.bytes.toList [])

/-- `Hash::from_hex` on every byte string: any length, any byte values (non-ASCII included).  Length check and its
    error, the loop bounds, the index arithmetic `2 * i`, `2 * i + 1`, both slice indexings, `hex_val`, `16 * _ + _`
    in evaluation order, the store into `hash_bytes[i]`, the final `Hash::from`. -/
theorem from_hex_translated_eq_model (s : List UInt8) : from_hex s = fromHex s := by
  have hv : hex_val = hexVal := funext hex_val_translated_eq_model
  unfold from_hex fromHex fromHexBody
  simp only [hv, Hex.OUT_LEN, Nat.reduceMul, bind_ok]
  rfl

/-- `impl FromStr for Hash` (a `&str` is its UTF-8 bytes) -/
theorem from_str_translated_eq_model (s : List UInt8) : from_str s = fromStr s :=
  from_hex_translated_eq_model s

/-- `impl PartialEq for Hash`: `constant_time_eq_32(&self.0, &other.0)` -/
theorem eq_hash_translated_eq_model (C : CtEq) (a b : Hash) : eq_hash C a b = eqHash C a b := rfl

/-- `impl PartialEq<[u8; OUT_LEN]> for Hash`: `constant_time_eq_32(&self.0, other)` -/
theorem eq_array_translated_eq_model (C : CtEq) (a : Hash) (b : Vector UInt8 32) :
    eq_array C a b = eqArray C a b := rfl

/-- `impl PartialEq<[u8]> for Hash`: `constant_time_eq(&self.0, other)` on the whole slice, of every length -/
theorem eq_slice_translated_eq_model (C : CtEq) (a : Hash) (s : List UInt8) :
    eq_slice C a s = eqSlice C a s := rfl

/-- `impl fmt::Display for Hash`: one `write_str` of the `to_hex` string; what is written is the model's `display` -/
theorem fmt_display_translated_eq_model (h : Hash) :
    fmt_display h = (display h).bind (fun s => .ok [FmtOp.writeStr s]) ∧
    written (fmt_display h) = (display h).bind (fun s => .ok (some s)) := by
  have e : fmt_display h = (display h).bind (fun s => .ok [FmtOp.writeStr s]) := by
    unfold fmt_display display
    rw [to_hex_translated_eq_model]
  refine ⟨e, ?_⟩
  rw [e, written]
  cases display h <;> simp [Outcome.bind, renderOps, renderOp, concatOpts]

/-- `impl fmt::Debug for Hash`: `debug_tuple("Hash")` with the single field `&hex` (a `&str`); what is written is the
    model's `debugFmt`, i.e. `Hash("<to_hex>")` -/
theorem fmt_debug_translated_eq_model (h : Hash) :
    fmt_debug h = (toHexO h).bind (fun s => .ok [FmtOp.debugTuple "Hash" [FmtArg.str s]]) ∧
    written (fmt_debug h) = (debugFmt h).bind (fun s => .ok (some s)) := by
  have e : fmt_debug h = (toHexO h).bind (fun s => .ok [FmtOp.debugTuple "Hash" [FmtArg.str s]]) := by
    unfold fmt_debug
    rw [to_hex_translated_eq_model]
  refine ⟨e, ?_⟩
  rw [e, written, debugFmt, toHexO_eq]
  simp only [Outcome.ok_bind]
  have hl := flatMap_escape_lower (toHex h) (to_hex_shape h).2.2
  simp only [renderOps, List.map, renderOp, List.isEmpty, renderFields, renderArg, concatOpts, hl, Option.map]
  have : "Hash".toUTF8.toList = [0x48, 0x61, 0x73, 0x68] := by decide +kernel
  rw [this]
  simp [concatOpts]

/-- `impl fmt::Display for HexError`: the generated operations print the three messages of `hexErrorDisplay` -/
theorem hex_error_display_translated_eq_model (e : HexError) :
    renderOps (hex_error_fmt_display e) = some (hexErrorDisplay e) := by
  cases e with
  | invalidByte b =>
    unfold hex_error_fmt_display hexErrorDisplay
    by_cases hb : b < 128
    · simp only [hb, if_true]
      simp [renderOps, renderOp, renderPiece, renderArg, concatOpts]
    · simp only [hb, if_false]
      simp [renderOps, renderOp, renderPiece, renderArg, concatOpts]
  | invalidLen n =>
    unfold hex_error_fmt_display hexErrorDisplay
    simp [renderOps, renderOp, renderPiece, renderArg, concatOpts]

/-- the messages asserted by the crate's own test `test_hex_error_display` (src/test.rs) -/
example : hexErrorDisplay (.invalidLen 13) = "expected 64 hex bytes, received 13".toUTF8.toList ∧
    hexErrorDisplay (.invalidByte 0x5A) = "invalid hex character: 'Z'".toUTF8.toList ∧
    hexErrorDisplay (.invalidByte 0x80) = "invalid hex character: 0x80".toUTF8.toList ∧
    hexErrorDisplay (.invalidByte 0x27) = "invalid hex character: '\\''".toUTF8.toList ∧
    hexErrorDisplay (.invalidByte 0x1B) = "invalid hex character: '\\u{1b}'".toUTF8.toList := by
  decide +kernel

/-! #### the property-level facts, for the generated functions -/

/-- The GENERATED `from_hex` accepts a 64-byte input iff every byte is in `[0-9a-fA-F]`; inputs of any other length
    are rejected with `InvalidLen`; it never panics; and the accepted value is the model's. -/
theorem from_hex_translated_accepts_iff (s : List UInt8) :
    (s.length = 64 → ((∃ h, from_hex s = .ok h) ↔ ∀ b ∈ s, isHexDigit b = true)) ∧
    (s.length ≠ 64 → from_hex s = .err (.invalidLen s.length)) ∧
    (∀ p, from_hex s ≠ .panic p) := by
  rw [from_hex_translated_eq_model]
  refine ⟨fun hl => ?_, (from_hex_error_kind s).1, from_hex_total s⟩
  rw [from_hex_ok_iff]
  exact ⟨fun h => h.2, fun h => ⟨hl, h⟩⟩

example : ∃ h, from_hex sampleMixed = .ok h :=
  ((from_hex_translated_accepts_iff sampleMixed).1 (by decide +kernel)).2 (by decide +kernel)
example : from_hex sampleMixed = .ok sampleHash := by decide +kernel
/-- a non-ASCII byte, and the two neighbours of the letter ranges that case-folding with `& 0x5f` would accept -/
example : from_hex (sampleMixed.set 3 0xE1) = .err (.invalidByte 0xE1) ∧
    from_hex (sampleMixed.set 3 0x21) = .err (.invalidByte 0x21) ∧
    from_hex (sampleMixed.set 3 0x67) = .err (.invalidByte 0x67) ∧
    from_hex (sampleMixed ++ [0x30]) = .err (.invalidLen 65) := by decide +kernel

/-- The GENERATED `to_hex` never panics and returns the 64 lowercase hex digits; the GENERATED `from_hex` inverts it. -/
theorem to_hex_translated_round_trip (h : Hash) :
    to_hex h = .ok (toHex h) ∧ from_hex (toHex h) = .ok h := by
  rw [to_hex_translated_eq_model, from_hex_translated_eq_model]
  exact ⟨toHexO_eq h, fromHex_toHex h⟩

/-- Under the documented contract of `constant_time_eq` (`C : CtEq`), the GENERATED `Hash == slice` holds iff the
    slice is exactly the 32 bytes of the hash: it has length 32 and agrees at every index. -/
theorem eq_slice_translated_iff (C : CtEq) (a : Hash) (s : List UInt8) :
    (eq_slice C a s = true ↔ s = a.bytes.toList) ∧
    (eq_slice C a s = true ↔ s.length = 32 ∧ ∀ i (hi : i < 32), s[i]? = some a.bytes[i]) := by
  rw [eq_slice_translated_eq_model]
  have h1 : eqSlice C a s = true ↔ s = a.bytes.toList := by
    rw [(eq_iff_bytes C a a a.bytes s).2.2.1]; exact eq_comm
  refine ⟨h1, ?_⟩
  rw [h1]
  constructor
  · intro h
    subst h
    refine ⟨by simp, fun i hi => ?_⟩
    rw [List.getElem?_eq_getElem (by simpa using hi)]
    simp
  · intro ⟨hl, hi⟩
    apply List.ext_getElem (by simpa using hl)
    intro i h1 h2
    have hi32 : i < 32 := by omega
    have := hi i hi32
    rw [List.getElem?_eq_getElem h1] at this
    simpa using this

/-- the same for the two fixed-size comparisons -/
theorem eq_hash_translated_iff (C : CtEq) (a b : Hash) (arr : Vector UInt8 32) :
    (eq_hash C a b = true ↔ a = b) ∧ (eq_array C a arr = true ↔ a.bytes = arr) :=
  ⟨(eq_iff_bytes C a b arr []).1, (eq_iff_bytes C a b arr []).2.1⟩

/-- the contract is satisfiable (the xor-or fold of the crate, `foldCtEq`), and a slice that merely starts with the
    32 bytes of the hash is not equal to it -/
example : eq_slice foldCtEq sampleHash sampleHash.bytes.toList = true ∧
    eq_slice foldCtEq sampleHash (sampleHash.bytes.toList ++ [0]) = false ∧
    eq_slice foldCtEq sampleHash (sampleHash.bytes.toList.take 31) = false ∧
    eq_slice foldCtEq sampleHash [] = false := by
  refine ⟨(eq_slice_translated_iff _ _ _).1.2 rfl, ?_, ?_, ?_⟩ <;>
  · cases h : eq_slice foldCtEq sampleHash _ with
    | false => rfl
    | true => exact absurd (congrArg List.length ((eq_slice_translated_iff _ _ _).1.1 h)) (by simp)

end B3.Proofs.RsHash

#print axioms B3.Proofs.RsHash.consts_translated_eq_model
#print axioms B3.Proofs.RsHash.conversions_translated_eq_model
#print axioms B3.Proofs.RsHash.from_slice_translated_eq_model
#print axioms B3.Proofs.RsHash.hex_val_translated_eq_model
#print axioms B3.Proofs.RsHash.to_hex_translated_eq_model
#print axioms B3.Proofs.RsHash.from_hex_translated_eq_model
#print axioms B3.Proofs.RsHash.from_str_translated_eq_model
#print axioms B3.Proofs.RsHash.eq_hash_translated_eq_model
#print axioms B3.Proofs.RsHash.eq_array_translated_eq_model
#print axioms B3.Proofs.RsHash.eq_slice_translated_eq_model
#print axioms B3.Proofs.RsHash.fmt_display_translated_eq_model
#print axioms B3.Proofs.RsHash.fmt_debug_translated_eq_model
#print axioms B3.Proofs.RsHash.hex_error_display_translated_eq_model
#print axioms B3.Proofs.RsHash.from_hex_translated_accepts_iff
#print axioms B3.Proofs.RsHash.to_hex_translated_round_trip
#print axioms B3.Proofs.RsHash.eq_slice_translated_iff
#print axioms B3.Proofs.RsHash.eq_hash_translated_iff

