/-
C09 - property theorems: the two hazmat length helpers (on the functions generated from
src/hazmat.rs, exact machine arithmetic) and subtree composition.
-/
import B3.Proofs.Arith
import B3.Proofs.Bridge
import B3.Proofs.Final
import B3.Proofs.GenK
namespace B3.Props.C09
open B3 B3.Arith

/-- `left_subtree_len(n)` is the largest power of two below `n` for every `n` in `(1024, 2^64-1]`,
and computing it involves no arithmetic overflow -/
theorem left_subtree_len_spec (n : Nat) (h1 : 1024 < n) (h2 : n ≤ 2 ^ 64 - 1) :
    Gen.Rs.left_subtree_len n = .ok (2 ^ Nat.log2 (n - 1)) ∧
    2 ^ Nat.log2 (n - 1) < n ∧ n ≤ 2 * 2 ^ Nat.log2 (n - 1) := by
  refine ⟨Proofs.rs_left_subtree_len_spec n h1 (by omega), ?_⟩
  obtain ⟨b1, b2⟩ := Proofs.log2_bounds (n - 1) (by omega)
  rw [Proofs.pow_succ_two] at b2
  omega

example : (1024 : Nat) < 2 ^ 64 - 1 ∧ (2 ^ 64 - 1 : Nat) ≤ 2 ^ 64 - 1 := by decide

/-- `max_subtree_len(o)` is `1024 * 2^tz(o/1024)` for every chunk-aligned `o > 0` below 2^64,
`None` for 0, and the documented panic for unaligned offsets -/
theorem max_subtree_len_spec (o : Nat) (h : o < 2 ^ 64) :
    Gen.Rs.max_subtree_len o =
      if o = 0 then .ok none else if o % 1024 = 0 then .ok (some (2 ^ tz (o / 1024) * 1024)) else .panic :=
  Proofs.rs_max_subtree_len_spec o h

/-- the C library's `left_subtree_len` agrees with the Rust one on the whole domain -/
theorem c_left_subtree_len_eq_rust (n : Nat) (h1 : 1024 < n) (h2 : n < 2 ^ 64) :
    Gen.C.left_subtree_len n = Gen.Rs.left_subtree_len n := by
  rw [Proofs.c_left_subtree_len_spec n h1 h2, Proofs.rs_left_subtree_len_spec n h1 h2]

/-- `largest_power_of_two_leq` (used by `update` to size subtrees) -/
theorem largest_power_of_two_leq_spec (n : Nat) (h1 : 0 < n) (h2 : n < 2 ^ 63) :
    Gen.Rs.largest_power_of_two_leq n = .ok (2 ^ Nat.log2 n) :=
  Proofs.rs_largest_power_of_two_leq_spec n h1 h2

/-- the helpers as the *models* use them: the split point of the model's `compress_subtree_wide`
is what the generated `left_subtree_len` (Rust and C) returns, and the model's `max_subtree_len`
assertion is the generated function's value -/
theorem helpers_used_by_model (n t0 : Nat) (h1 : 1024 < n) (h2 : n < 2 ^ 64) (h3 : t0 < 2 ^ 54) :
    Gen.Rs.left_subtree_len n = .ok (Hs.leftLen 10 n) ∧ Gen.C.left_subtree_len n = .ok (Hs.leftLen 10 n) ∧
    Gen.Rs.max_subtree_len (t0 * 1024) = .ok (Rs.maxSubtreeLen t0) :=
  ⟨(Proofs.gen_leftLen n h1 h2).1, (Proofs.gen_leftLen n h1 h2).2, Proofs.gen_maxSubtreeLen t0 h3⟩

/-- **A subtree's chaining value depends only on its bytes, its offset and the mode key.** For a
hasher with any input offset `t0`, after any sequence of updates (each passing the
`max_subtree_len` assertion) whose inputs concatenate to `m ≠ []`, at any SIMD degree,
`finalize_non_root` returns `Spec.subtreeCV key flags t0 m`. -/
theorem finalize_non_root_eq_subtree_cv (sd j : Nat) (hsd : sd = 2 ^ j) (key : CV) (flags : UInt8) (offset : Nat)
    (xs : List (List UInt8)) (h0 : Rs.Hasher) (h : Rs.Hasher)
    (hoff : (Rs.Hasher.newInternal key flags).setInputOffset offset = some h0)
    (hup : xs.foldl (fun (o : Option Rs.Hasher) x => o.bind (fun h => h.update genK sd x)) (some h0) = some h)
    (hne : xs.flatten ≠ []) (hlt : xs.flatten.length < 2 ^ 64) :
    h.finalizeNonRoot genK = some (Spec.subtreeCV key flags (offset / 1024) xs.flatten) := by
  rw [Proofs.genK_eq_spec] at hup ⊢
  -- the hasher after set_input_offset satisfies the invariant for the empty input
  have hs : h0 = { Rs.Hasher.newInternal key flags with cs := { (Rs.Hasher.newInternal key flags).cs with t := offset / 1024 }, t0 := offset / 1024 } := by
    unfold Rs.Hasher.setInputOffset at hoff
    split at hoff
    · exact absurd hoff (by simp)
    · exact (Option.some.inj hoff).symm
  have hrep0 : Proofs.Rep h0 [] ∧ h0.key = key ∧ h0.cs.flags = flags ∧ h0.t0 = offset / 1024 := by
    subst hs
    refine ⟨⟨[], [], [], rfl, by simp, ?_, ?_, fun hh => absurd rfl hh, ?_⟩, rfl, rfl, rfl⟩
    · simp only [Rs.Hasher.newInternal, Rs.ChunkState.new]
      exact (Proofs.new_update_empty key (offset / 1024) flags).symm
    · refine ⟨by simp [Rs.Hasher.toH, Rs.Hasher.newInternal], by simp [Rs.Hasher.toH, Rs.Hasher.newInternal, Rs.ChunkState.new],
        by simp [Rs.Hasher.toH, Rs.Hasher.newInternal], ?_, ?_⟩
      · rw [Hs.fullLeaves_short]; · rfl
        simp
      · simp only [Rs.Hasher.toH, Rs.Hasher.newInternal, Rs.ChunkState.new, Nat.sub_self, List.map_nil]
        have := @St.Lazy.canon 0
        rw [St.bd_zero] at this; exact this
    · intro _ hh; simp [Rs.Hasher.newInternal, Rs.ChunkState.new] at hh
  -- fold the updates
  have hfold : ∀ (ys : List (List UInt8)) (g g' : Rs.Hasher) (pre : List UInt8),
      Proofs.Rep g pre → ys.foldl (fun (o : Option Rs.Hasher) x => o.bind (fun h => h.update Kern.spec sd x)) (some g) = some g' →
      Proofs.Rep g' (pre ++ ys.flatten) ∧ g'.key = g.key ∧ g'.cs.flags = g.cs.flags ∧ g'.t0 = g.t0 := by
    intro ys
    induction ys with
    | nil => intro g g' pre hr hf; simp at hf; subst hf; exact ⟨by simpa using hr, rfl, rfl, rfl⟩
    | cons y ys ih =>
      intro g g' pre hr hf
      simp only [List.foldl_cons, Option.bind_some] at hf
      cases hu : g.update Kern.spec sd y with
      | none =>
        rw [hu] at hf
        have : ∀ (zs : List (List UInt8)), zs.foldl (fun (o : Option Rs.Hasher) x => o.bind (fun h => h.update Kern.spec sd x)) none = none := by
          intro zs; induction zs with
          | nil => rfl
          | cons z zs ih2 => simpa using ih2
        rw [this] at hf; exact absurd hf (by simp)
      | some g1 =>
        rw [hu] at hf
        obtain ⟨a, b, c, d⟩ := Proofs.rep_update sd j hsd g g1 pre y hr hu
        obtain ⟨a2, b2, c2, d2⟩ := ih g1 g' (pre ++ y) a hf
        exact ⟨by simpa [List.append_assoc] using a2, by rw [b2, b], by rw [c2, c], by rw [d2, d]⟩
  obtain ⟨r1, r2, r3, r4⟩ := hfold xs h0 h [] hrep0.1 hup
  simp only [List.nil_append] at r1
  have hc := (Proofs.rep_count h xs.flatten r1)
  unfold Rs.Hasher.finalizeNonRoot Rs.Hasher.count?
  have hlen : 0 < xs.flatten.length := List.length_pos_iff.mpr hne
  unfold Rs.Hasher.count at hc
  have hw : h.t0 ≤ h.cs.t ∧ (h.cs.t - h.t0) * 1024 + h.cs.count < 2 ^ 64 := ⟨hc.2, by omega⟩
  rw [if_pos hw]
  simp only []
  rw [if_neg (by omega), Proofs.finalOutput_chain h xs.flatten r1, r2, r3, r4, hrep0.2.1, hrep0.2.2.1, hrep0.2.2.2]

theorem subtreeCV_eq_collapse (key : CV) (flags : UInt8) (t : Nat) (m : List UInt8) :
    Spec.subtreeCV key flags t m = Tr.collapse (Spec.parentCV key flags) key (Hs.allLeaves 10 (Proofs.leafF key flags) t m) := by
  unfold Spec.subtreeCV Spec.treeCV
  rw [Tr.topDown_eq_collapse, Proofs.allLeaves_eq_leafCVs']

/-- **Composition step.** If `l` is a complete subtree of `2^a` chunks and `r` a non-empty subtree of
at most as many bytes, the parent of their chaining values (what `merge_subtrees_non_root` computes)
is the chaining value of the subtree over `l ++ r` at the same offset. -/
theorem subtree_compose (key : CV) (flags : UInt8) (t0 a : Nat) (l r : List UInt8)
    (hl : l.length = 2 ^ a * 2 ^ 10) (hr1 : 0 < r.length) (hr2 : r.length ≤ 2 ^ a * 2 ^ 10) :
    Spec.parentCV key flags (Spec.subtreeCV key flags t0 l) (Spec.subtreeCV key flags (t0 + 2 ^ a) r)
      = Spec.subtreeCV key flags t0 (l ++ r) := by
  have hpa := Nat.two_pow_pos a
  have hp10 : (0 : Nat) < 2 ^ 10 := by decide
  simp only [subtreeCV_eq_collapse]
  have hsplit := Hs.allLeaves_append 10 (Proofs.leafF key flags) (2 ^ a) t0 l r hl hr1
  obtain ⟨k, hk⟩ : ∃ k, 2 ^ a = k + 1 := ⟨2 ^ a - 1, by omega⟩
  have hfull : Hs.fullLeaves 10 (Proofs.leafF key flags) t0 l = Hs.allLeaves 10 (Proofs.leafF key flags) t0 l :=
    (Hs.allLeaves_complete 10 _ k t0 l (by rw [hl, hk])).symm
  rw [hsplit, hfull]
  have hL : (Hs.allLeaves 10 (Proofs.leafF key flags) t0 l).length = 2 ^ a := by
    rw [Hs.allLeaves_length 10 _ t0 l (by rw [hl]; exact Nat.mul_pos hpa hp10), hl, Hs.nchunks_pow]
  have hR : (Hs.allLeaves 10 (Proofs.leafF key flags) (t0 + 2 ^ a) r).length = Hs.nchunks 10 r.length :=
    Hs.allLeaves_length 10 _ _ r hr1
  obtain ⟨s1, s2, s3⟩ := Hs.nchunks_spec 10 r.length hr1
  have hRle : Hs.nchunks 10 r.length ≤ 2 ^ a := by
    rcases Nat.lt_or_ge (2 ^ a) (Hs.nchunks 10 r.length) with h | h
    · have : 2 ^ a * 2 ^ 10 ≤ (Hs.nchunks 10 r.length - 1) * 2 ^ 10 := Nat.mul_le_mul_right _ (by omega)
      omega
    · exact h
  exact (Tr.collapse_append _ key a _ _ hL (by rw [hR]; omega) (by rw [hR]; exact hRle)).symm

/-- **Composition at the root.** Splitting the whole input at `left_subtree_len`, the root node is
the parent node of the two subtrees' chaining values (what `merge_subtrees_root` /
`merge_subtrees_root_xof` finalize), so hash and extended output of the whole input follow. -/
theorem root_compose (key : CV) (flags : UInt8) (m : List UInt8) (hm : 1024 < m.length) :
    Spec.rootNode key flags m =
      Spec.parentNode key flags (Spec.subtreeCV key flags 0 (m.take (Hs.leftLen 10 m.length)))
        (Spec.subtreeCV key flags (Hs.leftLen 10 m.length / 2 ^ 10) (m.drop (Hs.leftLen 10 m.length))) := by
  have h := Proofs.hashAllAtOnce_eq_rootNode key flags 1 0 rfl m
  rw [← h]
  unfold Rs.hashAllAtOnce
  rw [if_neg (by omega)]
  unfold Rs.toParentNode
  rw [Hs.toPair_spec _ key 10 _ 1 0 rfl 0 m (by simpa using hm), Proofs.parentCV_eq, Proofs.leafCV_is]
  simp only [subtreeCV_eq_collapse, Nat.zero_add]
  rfl

/-- `merge_subtrees_non_root` / `merge_subtrees_root*` are the specification's parent node -/
theorem merge_subtrees_eq_spec (key : CV) (flags : UInt8) (l r : CV) :
    Rs.chain genK (Rs.parentOutput key flags l r) = Spec.parentCV key flags l r ∧
    Rs.parentOutput key flags l r = Spec.parentNode key flags l r := by
  rw [Proofs.genK_eq_spec]
  exact ⟨Proofs.chain_parentOutput key flags l r, rfl⟩

example : (2048 : Nat) = 2 ^ 1 * 2 ^ 10 := by decide

/-! ### every valid decomposition -/

/-- a decomposition of (a subtree of) the BLAKE3 tree: a `piece` is hashed by one hasher
(`set_input_offset`, any updates, `finalize_non_root`); a `merge` joins two decompositions with
`merge_subtrees_non_root`, to any nesting depth -/
inductive Decomp where
  | piece (m : List UInt8)
  | merge (l r : Decomp)

def Decomp.bytes : Decomp → List UInt8
  | .piece m => m
  | .merge l r => l.bytes ++ r.bytes

/-- the decomposition respects `left_subtree_len`: every merge splits its bytes at the largest
power-of-two number of chunks strictly below the total; pieces are non-empty -/
def Decomp.Valid : Decomp → Prop
  | .piece m => m ≠ []
  | .merge l r => l.Valid ∧ r.Valid ∧ 1024 < l.bytes.length + r.bytes.length ∧
      l.bytes.length = Hs.leftLen 10 (l.bytes.length + r.bytes.length)

/-- what the hazmat API computes for a decomposition placed at chunk counter `t0`: pieces by
`finalize_non_root` (= `Spec.subtreeCV`, by `finalize_non_root_eq_subtree_cv`), merges by
`merge_subtrees_non_root` (= `Spec.parentCV`, by `merge_subtrees_eq_spec`) with the right half's
offset advanced by the left half's length -/
def Decomp.cv (key : CV) (flags : UInt8) : Nat → Decomp → CV
  | t0, .piece m => Spec.subtreeCV key flags t0 m
  | t0, .merge l r => Spec.parentCV key flags (l.cv key flags t0) (r.cv key flags (t0 + l.bytes.length / 1024))

theorem Decomp.bytes_pos (d : Decomp) (h : d.Valid) : 0 < d.bytes.length := by
  cases d with
  | piece m => exact List.length_pos_iff.mpr h
  | merge l r => simp only [Decomp.bytes, List.length_append]; have := h.2.2.1; omega

/-- **Every valid decomposition, at any nesting, computes the subtree's chaining value.** -/
theorem decomp_cv (key : CV) (flags : UInt8) (d : Decomp) (t0 : Nat) (h : d.Valid) :
    d.cv key flags t0 = Spec.subtreeCV key flags t0 d.bytes := by
  induction d generalizing t0 with
  | piece m => rfl
  | merge l r ihl ihr =>
    obtain ⟨vl, vr, hn, hs⟩ := h
    obtain ⟨a, f1, f2, f3, _, f5, _⟩ := Hs.leftLen_facts 10 (l.bytes.length + r.bytes.length) (by simpa using hn)
    have hr := Decomp.bytes_pos r vr
    have hlen : l.bytes.length = 2 ^ a * 2 ^ 10 := by rw [hs, f1]
    have h10 : (2:Nat) ^ 10 = 1024 := by decide
    have hdiv : l.bytes.length / 1024 = 2 ^ a := by rw [hlen, h10]; omega
    -- the right part is no longer than the left one: leftLen is the largest power of two below the total
    have hle : r.bytes.length ≤ 2 ^ a * 2 ^ 10 := by
      have e : l.bytes.length + r.bytes.length - 2 ^ a * 2 ^ 10 = r.bytes.length := by omega
      rw [e] at f3
      obtain ⟨s1, s2, s3⟩ := Hs.nchunks_spec 10 r.bytes.length hr
      have : Hs.nchunks 10 r.bytes.length * 2 ^ 10 ≤ 2 ^ a * 2 ^ 10 := Nat.mul_le_mul_right _ (by omega)
      exact Nat.le_trans s2 this
    simp only [Decomp.cv, Decomp.bytes, ihl t0 vl, ihr _ vr, hdiv]
    exact subtree_compose key flags t0 a l.bytes r.bytes hlen hr hle

/-- **…and at the root reproduces the whole-input root node**, hence (C01, C03) the one-shot hash
and every byte of the extended output: `merge_subtrees_root` / `merge_subtrees_root_xof` of the two
top-level decompositions' values is `Spec.rootNode` of all the bytes. -/
theorem decomp_root (key : CV) (flags : UInt8) (l r : Decomp) (h : (Decomp.merge l r).Valid) :
    Spec.parentNode key flags (l.cv key flags 0) (r.cv key flags (l.bytes.length / 1024))
      = Spec.rootNode key flags (l.bytes ++ r.bytes) := by
  obtain ⟨vl, vr, hn, hs⟩ := h
  rw [decomp_cv key flags l 0 vl, decomp_cv key flags r _ vr,
    root_compose key flags (l.bytes ++ r.bytes) (by simpa using hn)]
  have hh : Hs.leftLen 10 (l.bytes ++ r.bytes).length = l.bytes.length := by rw [List.length_append]; exact hs.symm
  rw [hh, List.take_left, List.drop_left]

/-! ### the same, executed by the model of the hazmat API -/

/-- a decomposition whose pieces are fed to their hasher by any sequence of updates -/
inductive DecompM where
  | piece (xs : List (List UInt8))
  | merge (l r : DecompM)

def DecompM.erase : DecompM → Decomp
  | .piece xs => .piece xs.flatten
  | .merge l r => .merge l.erase r.erase

/-- run the decomposition on the model of `Hasher` + `hazmat` at SIMD degree `sd`: `none` when an
assertion of the real code would fire (unaligned offset, piece longer than `max_subtree_len`,
`finalize_non_root` on an empty piece, …) -/
def DecompM.run (sd : Nat) (key : CV) (flags : UInt8) : Nat → DecompM → Option CV
  | t0, .piece xs =>
    ((Rs.Hasher.newInternal key flags).setInputOffset (t0 * 1024)).bind fun h0 =>
    (xs.foldl (fun (o : Option Rs.Hasher) x => o.bind (fun h => h.update genK sd x)) (some h0)).bind fun h =>
    h.finalizeNonRoot genK
  | t0, .merge l r =>
    (l.run sd key flags t0).bind fun a =>
    (r.run sd key flags (t0 + l.erase.bytes.length / 1024)).bind fun b =>
    some (Rs.chain genK (Rs.parentOutput key flags a b))

/-- **Model run of any valid decomposition = the specification's subtree chaining value**: whenever
the API calls go through (no assertion fires), at any SIMD degree, for any update history inside each
piece, any nesting, any starting chunk counter. -/
theorem decomp_run (sd j : Nat) (hsd : sd = 2 ^ j) (key : CV) (flags : UInt8) (d : DecompM) (t0 : Nat) (c : CV)
    (hv : d.erase.Valid) (hlt : d.erase.bytes.length < 2 ^ 64) (hrun : d.run sd key flags t0 = some c) :
    c = Spec.subtreeCV key flags t0 d.erase.bytes := by
  rw [← decomp_cv key flags d.erase t0 hv]
  induction d generalizing t0 c with
  | piece xs =>
    simp only [DecompM.run, Option.bind_eq_some_iff] at hrun
    obtain ⟨h0, e0, h, e1, e2⟩ := hrun
    have := finalize_non_root_eq_subtree_cv sd j hsd key flags (t0 * 1024) xs h0 h e0 e1 hv hlt
    rw [this, Nat.mul_div_cancel _ (by omega)] at e2
    exact (Option.some.inj e2).symm
  | merge l r ihl ihr =>
    simp only [DecompM.run, Option.bind_eq_some_iff] at hrun
    obtain ⟨a, ea, b, eb, e⟩ := hrun
    obtain ⟨vl, vr, _, _⟩ := hv
    simp only [DecompM.erase, Decomp.bytes, List.length_append] at hlt
    have ha := ihl t0 a vl (by omega) ea
    have hb := ihr _ b vr (by omega) eb
    rw [(merge_subtrees_eq_spec key flags a b).1] at e
    simp only [DecompM.erase, Decomp.cv, ← ha, ← hb]
    exact (Option.some.inj e).symm

/-- non-vacuity: a nested decomposition of four chunks into four pieces is valid -/
example : (Decomp.merge (Decomp.merge (.piece (List.replicate 1024 0)) (.piece (List.replicate 1024 1)))
    (.merge (.piece (List.replicate 1024 2)) (.piece (List.replicate 1024 3)))).Valid := by
  have e1 : Hs.leftLen 10 (1024 + 1024) = 1024 := Proofs.leftLen_pow 0
  have e2 : Hs.leftLen 10 (1024 + 1024 + (1024 + 1024)) = 1024 + 1024 := Proofs.leftLen_pow 1
  have ne : ∀ x : UInt8, List.replicate 1024 x ≠ [] := fun x =>
    List.ne_nil_of_length_pos (by rw [List.length_replicate]; omega)
  refine ⟨⟨ne 0, ne 1, ?_, ?_⟩, ⟨ne 2, ne 3, ?_, ?_⟩, ?_, ?_⟩ <;>
    simp only [Decomp.bytes, List.length_append, List.length_replicate]
  · omega
  · exact e1.symm
  · omega
  · exact e1.symm
  · omega
  · exact e2.symm

end B3.Props.C09
