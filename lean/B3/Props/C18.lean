/-
C18 - property theorems: the only shared mutable state is the feature-detection cache, and racing
on it is benign.
-/
import B3.Proofs.Conc
import B3.Gen.Listings
namespace B3.Props.C18
open B3.Conc

/-- Any number of threads starting `get_cpu_features()` / `cpufeatures` detection at the same time,
under any schedule: the cache ends up undefined or holding the detected value, and every thread that
returned got the detected value (detection is a function of the CPU only). -/
theorem detect_cache_race_benign (f n : Nat) (sched : List Nat) :
    Inv f (sched.foldl (stepTh f) { cell := none, threads := List.replicate n .start }) :=
  B3.Conc.detect_cache_race_benign f n sched

/-- every thread that has finished returns the same value, whatever the schedule -/
theorem all_threads_agree (f n : Nat) (sched : List Nat) (r : Nat)
    (h : Th.done r ∈ (sched.foldl (stepTh f) { cell := none, threads := List.replicate n .start }).threads) : r = f := by
  have := (detect_cache_race_benign f n sched).2 _ h
  simpa using this

/-- the C library's `get_cpu_features()` follows exactly the protocol modelled above: one load of
the cache, then (if undefined) detection and ONE store of the detected value - no provisional value
is ever stored (listing regenerated from c/blake3_dispatch.c on every run) -/
theorem c_detection_follows_protocol : Gen.Listings.cDetectAccesses = ["load", "store features"] := rfl

/-- `get_cpu_features()` is the ONLY code of the C library that touches the cache: outside it the identifier occurs in its
declaration and in the test program `c/main.c` (built with BLAKE3_TESTING, not part of the library). A second writer - a "warm-up"
bit, a downgrade after a fault - would make the kernels chosen for one hasher depend on what other hashers did -/
theorem c_detection_cache_single_writer :
    Gen.Listings.cDetectCacheMentionsOutside =
      ["blake3_dispatch.c: ATOMIC_INT g_cpu_features = UNDEFINED;",
       "main.c: extern enum cpu_feature g_cpu_features;",
       "main.c: g_cpu_features = feature;"] := rfl

/-- non-vacuity: two threads, both load before either stores -/
example : ([0, 1, 0, 1].foldl (stepTh 7) { cell := none, threads := List.replicate 2 .start }).threads = [.done 7, .done 7] := by
  decide

end B3.Props.C18
