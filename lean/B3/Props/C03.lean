/-
C03 - property theorems: extended output is one coherent, seekable byte stream.
-/
import B3.Proofs.Xof
import B3.Proofs.GenK
import B3.Props.C02
import B3.Proofs.Regions
namespace B3.Props.C03
open B3 B3.Rs

theorem set_position_position (r : OutputReader) (p : Nat) : (r.setPosition p).position = p := by
  simp [OutputReader.setPosition, OutputReader.position]; omega

/-- `seek` on exact integers: `Start x` goes to `min x (2^64-1)`; `Current d` fails (reader
unchanged, by the `Option` result) when `p + d < 0` and otherwise goes to `min (p+d) (2^64-1)`;
`End _` always fails. -/
theorem seek_spec (r : OutputReader) (sf : SeekFrom) :
    r.seek sf =
      match sf with
      | .start x => some (r.setPosition (min x (2 ^ 64 - 1)), min x (2 ^ 64 - 1))
      | .current d =>
        if (r.position : Int) + d < 0 then none
        else some (r.setPosition (min ((r.position : Int) + d) (2 ^ 64 - 1)).toNat,
                   (min ((r.position : Int) + d) (2 ^ 64 - 1)).toNat)
      | .end _ => none := by
  cases sf with
  | start x =>
    have e : (min (x : Int) (2 ^ 64 - 1)).toNat = min x (2 ^ 64 - 1) := by omega
    simp only [OutputReader.seek, e, set_position_position]
    rw [if_neg (by omega)]
  | current d =>
    simp only [OutputReader.seek, set_position_position]
  | «end» x => rfl

/-- a failed seek leaves the reader unchanged: it returns no new reader at all -/
theorem seek_err_iff (r : OutputReader) (sf : SeekFrom) :
    r.seek sf = none ↔ (∃ x, sf = .end x) ∨ (∃ d, sf = .current d ∧ (r.position : Int) + d < 0) := by
  rw [seek_spec]
  cases sf with
  | start x => simp
  | current d => by_cases h : (r.position : Int) + d < 0 <;> simp [h]
  | «end» x => simp

example : (OutputReader.new (Spec.parentNode Spec.IV 0 Spec.IV Spec.IV)).seek (.current (-1)) = none := by
  rw [seek_err_iff]; right
  exact ⟨-1, rfl, by simp [OutputReader.new, OutputReader.position, Spec.parentNode]⟩

/-- **fill = slice.** A reader over node `o` at position `p` that fills `n` bytes returns
`S[p, p+n)` of `o`'s output stream (block `k` of the stream = the root compression of `o` with
output counter `k`) and advances to `p + n`; the node is unchanged. No bound on `p`, `n`. -/
theorem fill_eq_slice (r : OutputReader) (n : Nat) (hb : r.inner.blen ≤ 64) (hp : r.pwb < 64) :
    (r.fill genK n).1 = r.inner.stream r.position n ∧ (r.fill genK n).2.position = r.position + n := by
  rw [Proofs.genK_eq_spec]
  exact ⟨(Proofs.fill_eq_slice r n hb hp).1, (Proofs.fill_eq_slice r n hb hp).2.1⟩

/-- operations on a reader -/
inductive ROp where
  | fill (n : Nat)            -- also `Read::read`, which always fills the whole buffer
  | setPosition (p : Nat)
  | seek (sf : SeekFrom)

/-- run an operation; output = the bytes produced (empty for seeks) -/
def rstep (r : OutputReader) : ROp → OutputReader × List UInt8
  | .fill n => ((r.fill genK n).2, (r.fill genK n).1)
  | .setPosition p => (r.setPosition p, [])
  | .seek sf => match r.seek sf with
    | some (r', _) => (r', [])
    | none => (r, [])

def WellFormed (o : Spec.Node) (r : OutputReader) : Prop :=
  r.pwb < 64 ∧ Proofs.SameNode r.inner o ∧ o.blen ≤ 64

theorem rstep_wf (o : Spec.Node) (r : OutputReader) (op : ROp) (h : WellFormed o r) :
    WellFormed o (rstep r op).1 ∧
    (∀ n, op = .fill n → (rstep r op).2 = o.stream r.position n ∧ (rstep r op).1.position = r.position + n) := by
  obtain ⟨h1, h2, h3⟩ := h
  have hb : r.inner.blen ≤ 64 := by rw [h2.2.2.1]; exact h3
  cases op with
  | fill n =>
    have := Proofs.fill_eq_slice r n hb h1
    rw [← Proofs.genK_eq_spec] at this
    refine ⟨⟨this.2.2.1, this.2.2.2.trans h2, h3⟩, ?_⟩
    intro n' hn; cases hn
    exact ⟨by rw [← Proofs.stream_congr h2]; exact this.1, this.2.1⟩
  | setPosition p =>
    refine ⟨⟨by simp [rstep, OutputReader.setPosition]; omega, ⟨h2.1, h2.2.1, h2.2.2.1, h2.2.2.2⟩, h3⟩, ?_⟩
    intro n hn; cases hn
  | seek sf =>
    refine ⟨?_, by intro n hn; cases hn⟩
    simp only [rstep]
    cases hs : r.seek sf with
    | none => exact ⟨h1, h2, h3⟩
    | some p =>
      obtain ⟨r', q⟩ := p
      have : ∃ x, r' = r.setPosition x := by
        rw [seek_spec] at hs
        cases sf with
        | start x => simp at hs; exact ⟨_, hs.1.symm⟩
        | current d => simp at hs; exact ⟨_, hs.2.1.symm⟩
        | «end» x => simp at hs
      obtain ⟨x, rfl⟩ := this
      exact ⟨by simp [OutputReader.setPosition]; omega, ⟨h2.1, h2.2.1, h2.2.2.1, h2.2.2.2⟩, h3⟩

/-- **One coherent stream under any history.** Starting from `OutputReader::new(o)`, after any
sequence of fills (of any sizes), `set_position`s and seeks (successful or failing), the next fill
of `n` bytes at position `p` returns `o.stream p n`: reads never depend on how earlier reads were
sized or interleaved with seeking. -/
theorem reader_history (o : Spec.Node) (hb : o.blen ≤ 64) (ops : List ROp) (n : Nat) :
    let r := ops.foldl (fun r op => (rstep r op).1) (OutputReader.new o)
    (r.fill genK n).1 = o.stream r.position n := by
  have hwf : ∀ (ops : List ROp) (r : OutputReader), WellFormed o r →
      WellFormed o (ops.foldl (fun r op => (rstep r op).1) r) := by
    intro ops
    induction ops with
    | nil => intro r h; exact h
    | cons op ops ih => intro r h; exact ih _ (rstep_wf o r op h).1
  have h0 : WellFormed o (OutputReader.new o) := ⟨by simp [OutputReader.new], ⟨rfl, rfl, rfl, rfl⟩, hb⟩
  have hw := hwf ops _ h0
  exact ((rstep_wf o _ (.fill n) hw).2 n rfl).1

/-- the first 32 bytes of the stream are the hash -/
theorem hash_is_stream_prefix (mode : Spec.Mode) (m : List UInt8) :
    Spec.hash mode m = (Spec.root mode m).stream 0 32 := by
  have := Proofs.stream_in_block (Spec.root mode m) 0 0 32 (by omega)
  simp only [Nat.mul_zero, Nat.add_zero, List.drop_zero] at this
  rw [this]; rfl

/-- `finalize_xof` after any update history reads the specification's stream of the absorbed bytes -/
theorem finalize_xof_stream (sd j : Nat) (hsd : sd = 2 ^ j) (ops : List C02.Op) (reg : C02.Reg) (hr : reg ∈ C02.run sd ops)
    (p n : Nat) :
    (((OutputReader.new (reg.h.finalOutput genK)).setPosition p).fill genK n).1
      = (Spec.root reg.mode reg.absorbed).stream p n := by
  rw [(C02.history_correct sd j hsd ops reg hr).2.1]
  have hb : (Spec.root reg.mode reg.absorbed).blen ≤ 64 := Proofs.rootNode_blen _ _ _
  have := reader_history (Spec.root reg.mode reg.absorbed) hb [ROp.setPosition p] n
  simpa [rstep, set_position_position] using this

/-- **Seek arithmetic, tied to the source.** `impl Seek for OutputReader`, `position` and
`set_position` are regenerated from src/lib.rs on every run (`Gen.Rs.seek`: the match arms as exact
integer expressions; `Gen.Rs.reader_position` / `reader_set_position` in checked u64 arithmetic) and
equal the model's functions for every reader and every `SeekFrom` value: same failures, same target
position, no overflow for any position below 2^64. -/
theorem seek_translated_eq_model (r : OutputReader) (sf : SeekFrom) :
    Gen.Rs.seek r.position (Proofs.toGenSeek sf) = (r.seek sf).map (fun x => x.2) :=
  Proofs.reader_seek_eq r sf

theorem position_translated_eq_model (r : OutputReader) (h : r.position < 2 ^ 64) (p : Nat) :
    Gen.Rs.reader_position r.inner.t r.pwb = .ok r.position ∧
    Gen.Rs.reader_set_position p = .ok ((r.setPosition p).inner.t, (r.setPosition p).pwb) :=
  ⟨Proofs.reader_position_eq r h, Proofs.reader_set_position_eq r p⟩

end B3.Props.C03
