/-
C10 - property theorems: reset restores the initial state; clones are values.
-/
import B3.Model.Rs
import B3.Gen.Listings
namespace B3.Props.C10
open B3

/-- After `reset`, the hasher state is *equal* to that of a newly constructed hasher with the same
key words and mode flags, whatever state it was in before (partial chunks, a deep stack, a hazmat
input offset). Observational identity for every suffix of operations follows, because every
operation of the model is a function of the state. -/
theorem reset_eq_new (h : Rs.Hasher) : h.reset = Rs.Hasher.newInternal h.key h.cs.flags := rfl

/-- non-vacuity: a state with an input offset and a non-empty stack is sent to the initial state -/
example : ({ key := Spec.IV, cs := { Rs.ChunkState.new Spec.IV 7 0 with buf := [1, 2, 3] }, t0 := 4,
             stack := [Spec.IV] } : Rs.Hasher).reset = Rs.Hasher.newInternal Spec.IV 0 := rfl

/-- `reset` keeps key and flags: the mode survives -/
theorem reset_keeps_mode (h : Rs.Hasher) : h.reset.key = h.key ∧ h.reset.cs.flags = h.cs.flags := ⟨rfl, rfl⟩

/-- `count()` is 0 after reset -/
theorem reset_count (h : Rs.Hasher) : h.reset.count? = some 0 := by
  simp [Rs.Hasher.reset, Rs.Hasher.count?, Rs.ChunkState.new, Rs.ChunkState.count]

/-- "clones are values": every state type (`Hasher`, `ChunkState`, `Output`, `OutputReader`, `Hash`) gets `Clone` from
`#[derive(Clone)]` - a field-by-field copy, for `clone` and for the provided `clone_from` alike - and `src/lib.rs` contains no
hand-written `impl Clone`. That is why the model has no separate clone operation: a clone is the same value (`H clone`,
`H clonefrom` of the drivers copy the state). The lists are regenerated from the source on every run (G4). -/
theorem clone_is_derived :
    Gen.Listings.handWrittenClone = [] ∧
    Gen.Listings.derives_Hasher = ["Clone"] ∧ Gen.Listings.derives_ChunkState = ["Clone"] ∧
    Gen.Listings.derives_Output = ["Clone"] ∧ Gen.Listings.derives_OutputReader = ["Clone"] ∧
    Gen.Listings.derives_Hash = ["Clone", "Copy", "Hash", "Eq"] :=
  ⟨rfl, rfl, rfl, rfl, rfl, rfl⟩

end B3.Props.C10
