/-
Property theorems about the code TRANSLATED from the sources (artefact proofs in B3/Proofs/B3sumIo*.lean): generated = model for all inputs,
and the property-level facts restated for the generated functions.  Theorem statements only; helper lemmas are in the Proofs file.
-/
import B3.Proofs.B3sumIo
namespace B3.Proofs.B3sumIo
open B3.B3sum B3.B3sum.RustPrim B3.B3sum.IoPrim
open B3.Gen
open B3.Proofs.B3sumParse (bind_eq pure_eq ok_bind err_bind panic_bind ofOption_some ofOption_none)
open B3.Proofs.B3sumParse (outOf filepath_to_string_eq)
open B3.Proofs.B3sumParse (parse_check_line_eq_lit toGen)
open B3.Proofs.B3sumParse (satAdd64_one satAdd1_lt checkLines_failed_lt)

/-! ### main theorems -/

/-- `write_hex_output` as translated = the model's `writeHexOutput`: for every seek and length the text printed is the
lowercase hex of `S[seek, seek+len)`; never an error or a panic; stderr untouched -/
theorem write_hex_output_translated_eq_model (rd : Reader) (args : B3sumIo.Args) (s : Streams) :
    B3sumIo.write_hex_output rd args s = textOut (writeHexOutput rd.S rd.pos args.len) s ∧
    B3sumIo.write_hex_output rd args s = (.ok (), addOut s (outText (hexEncode (fillAt rd.S rd.pos args.len)))) := by
  rw [(hex_output_eq_slice rd.S rd.pos args.len).1]
  exact ⟨write_hex_output_eq rd args s, write_hex_output_eq rd args s⟩

/-- `write_raw_output` as translated = the model's `writeRawOutput`: the `len` bytes at the reader's position -/
theorem write_raw_output_translated_eq_model (rd : Reader) (args : B3sumIo.Args) (s : Streams) :
    B3sumIo.write_raw_output rd args s = (.ok (), addOut s (outRaw (writeRawOutput rd.S rd.pos args.len))) :=
  write_raw_output_eq rd args s

/-- `read_key_from_stdin` as translated, in closed form (it reads at most 33 bytes: `n` = min(33, length)) -/
theorem read_key_translated_eq (w : World) :
    B3sumIo.read_key_from_stdin w =
      match w.stdin with
      | .error e => .err e
      | .ok bytes =>
        if bytes.length < 32 then .err (keyShortMsg bytes.length)
        else if bytes.length > 32 then .err keyLongMsg
        else .ok bytes := read_key_eq w

/-- a key is accepted iff stdin holds exactly 32 bytes (and then the key is those bytes); never a panic -/
theorem read_key_translated_spec (w : World) (key : List UInt8) :
    (B3sumIo.read_key_from_stdin w = .ok key ↔ w.stdin = .ok key ∧ key.length = 32) ∧
    B3sumIo.read_key_from_stdin w ≠ .panic := by
  refine ⟨?_, read_key_ne_panic w⟩
  rw [read_key_eq]
  cases w.stdin with
  | error e => simp
  | ok bytes =>
    simp only [Except.ok.injEq]
    by_cases h1 : bytes.length < 32
    · rw [if_pos h1]
      constructor
      · intro h; cases h
      · rintro ⟨rfl, h⟩; omega
    · rw [if_neg h1]
      by_cases h2 : bytes.length > 32
      · rw [if_pos h2]
        constructor
        · intro h; cases h
        · rintro ⟨rfl, h⟩; omega
      · rw [if_neg h2]
        constructor
        · intro h; have := Res.ok.inj h; subst this; exact ⟨rfl, by omega⟩
        · rintro ⟨rfl, _⟩; rfl

/-- 31 bytes and 33 (or more) bytes are refused, with the messages of the source -/
theorem read_key_translated_errors (w : World) (bytes : List UInt8) (h : w.stdin = .ok bytes) :
    (bytes.length < 32 → B3sumIo.read_key_from_stdin w = .err (keyShortMsg bytes.length)) ∧
    (bytes.length > 32 → B3sumIo.read_key_from_stdin w = .err keyLongMsg) := by
  rw [read_key_eq, h]
  constructor
  · intro hl; simp [hl]
  · intro hl; simp only; rw [if_neg (by omega), if_pos hl]

example : B3sumIo.read_key_from_stdin demoWorld = .ok (List.replicate 32 0x6b) := by decide
example : keyShortMsg 31 = "expected 32 key bytes from stdin, found 31" := by decide

/-- `Args::parse` as translated: `-` is the default input, `--raw` takes one input, and the base hasher is keyed
(key read from stdin) with `--keyed`, else in derive-key mode with `--derive-key`, else plain -/
theorem args_parse_translated_eq (w : World) (cli : B3sumIo.Inner) :
    B3sumIo.Args.parse w cli =
      if cli.raw && decide ((fileArgsOf cli).length > 1) then .err rawManyMsg
      else if cli.keyed then
        (B3sumIo.read_key_from_stdin w).bind fun key =>
          .ok { inner := cli, file_args := fileArgsOf cli, base_hasher := hasherNewKeyed key }
      else
        match cli.derive_key with
        | some context => .ok { inner := cli, file_args := fileArgsOf cli, base_hasher := hasherNewDeriveKey context }
        | none => .ok { inner := cli, file_args := fileArgsOf cli, base_hasher := hasherNew } := args_parse_eq w cli

/-- which mode: the base hasher has absorbed nothing, and its mode is determined by `--keyed` / `--derive-key` -/
theorem args_parse_translated_mode (w : World) (cli : B3sumIo.Inner) (args : B3sumIo.Args)
    (h : B3sumIo.Args.parse w cli = .ok args) :
    args.inner = cli ∧ args.file_args = fileArgsOf cli ∧ args.base_hasher.input = [] ∧
    (cli.keyed = true → ∃ key, w.stdin = .ok key ∧ key.length = 32 ∧ args.base_hasher.mode = .keyed key) ∧
    (cli.keyed = false → ∀ c, cli.derive_key = some c → args.base_hasher.mode = .deriveKey c) ∧
    (cli.keyed = false → cli.derive_key = none → args.base_hasher.mode = .hash) := by
  obtain ⟨hi, hf⟩ := args_parse_inner h
  refine ⟨hi, hf, ?_⟩
  rw [args_parse_eq] at h
  split at h
  · cases h
  · cases hk : cli.keyed with
    | true =>
      rw [hk] at h
      simp only [if_true] at h
      cases hr : B3sumIo.read_key_from_stdin w with
      | err e => rw [hr] at h; cases h
      | panic => rw [hr] at h; cases h
      | ok key =>
        rw [hr] at h
        simp only [ok_bind, Res.ok.injEq] at h
        subst h
        have := ((read_key_translated_spec w key).1).mp hr
        exact ⟨rfl, fun _ => ⟨key, this.1, this.2, rfl⟩, by simp, by simp⟩
    | false =>
      rw [hk] at h
      simp only [Bool.false_eq_true, if_false] at h
      cases hd : cli.derive_key with
      | none => rw [hd] at h; simp only [Res.ok.injEq] at h; subst h; exact ⟨rfl, by simp, by simp, fun _ _ => rfl⟩
      | some c =>
        rw [hd] at h; simp only [Res.ok.injEq] at h; subst h
        exact ⟨rfl, by simp, fun _ c' hc => by cases hc; rfl, by simp⟩

/-- the clap defaults as translated: `--length` defaults to `OUT_LEN` = 32 and `--seek` to 0 (the defaults of the
model's `HashArgs`), every flag is off, and with no file argument the input is `-` -/
theorem inner_default_translated :
    B3sumIo.Inner.default.length = OUT_LEN ∧ B3sumIo.Inner.default.seek = 0 ∧
    fileArgsOf B3sumIo.Inner.default = [utf8Encode ['-']] ∧
    ∀ h, hashArgsOf { inner := B3sumIo.Inner.default, file_args := [], base_hasher := h } = ({} : HashArgs) := by
  exact ⟨rfl, rfl, rfl, fun _ => rfl⟩

/-- `hash_path` as translated: the input is stdin for `-` (an error in keyed mode) and the file otherwise — with or
without `--no-mmap` —, it is absorbed after whatever the base hasher holds, and the reader is positioned at `--seek` -/
theorem hash_path_translated_eq (w : World) (args : B3sumIo.Args) (path : List UInt8) :
    B3sumIo.hash_path w args path =
      match inputOf w args path with
      | .error e => .err e
      | .ok contents => .ok { S := streamOf w args contents, pos := args.seek } := hash_path_eq w args path

/-- `hash_one_input` as translated with its translated callees = the model's `hashOneInputOk` on the reader that
`hash_path` returns (every combination of --raw / --no-names / --tag / --length / --seek); nothing is printed when
`hash_path` fails -/
theorem hash_one_input_translated_eq_model (w : World) (args : B3sumIo.Args) (path : List UInt8) (s : Streams) :
    B3sumIo.hash_one_input w path args s =
      match inputOf w args path with
      | .error e => (.err e, s)
      | .ok contents =>
        match hashOneInputOk (hashArgsOf args) (streamOf w args contents) path with
        | .ok o => (.ok (), addOut s (outOf o))
        | _ => (.panic, s) := by
  rw [hash_one_input_eq, hash_path_eq]
  cases inputOf w args path with
  | error e => rfl
  | ok contents => simp only [hashOut_eq_model]

/-- `check_one_line` as translated (with the translated `parse_check_line` and `hash_path`) = the model's
`checkOneLine` in the environment `envOf w args`: same verdict, same lines on stdout / stderr -/
theorem check_one_line_translated_eq_model (w : World) (args : B3sumIo.Args) (line : Str) (s : Streams)
    (hb : byteLen line < 2 ^ 62) :
    B3sumIo.check_one_line w line args s = lineOut (checkOneLine (envOf w args) line) s :=
  check_one_line_eq w args line s hb

/-- … hence, for every entry: no panic and no `Err`; the verdict is `true` exactly when the entry parses and matches
the current contents of the file it names; a passing entry prints `<name>: OK` on stdout (nothing with `--quiet`); a
failing entry prints exactly one line: a diagnostic on stderr, `<name>: FAILED` or `<name>: FAILED (<error>)` -/
theorem check_one_line_translated_reports (w : World) (args : B3sumIo.Args) (line : Str) (s : Streams)
    (hb : byteLen line < 2 ^ 62) :
    ∃ ok evs, B3sumIo.check_one_line w line args s = (.ok ok, emitEvs evs s) ∧
      (ok = true ↔ LineMatches (envOf w args) line) ∧
      (ok = true → evs = [] ∧ args.quiet = true ∨ (∃ name, evs = [.out (name ++ ": OK")]) ∧ args.quiet = false) ∧
      (ok = false → (∃ e : PErr, evs = [.diag ("b3sum: " ++ e.msg)]) ∨ (∃ name, evs = [.out (name ++ ": FAILED")]) ∨
        (∃ name e, evs = [.out (name ++ ": FAILED (" ++ e ++ ")")])) := by
  rw [check_one_line_eq w args line s hb]
  obtain ⟨s1, s2, _, _⟩ := checkOneLine_spec (envOf w args) line
  cases hc : checkOneLine (envOf w args) line with
  | panicked => exact absurd hc (checkOneLine_ne_panicked _ _)
  | done ok evs =>
    refine ⟨ok, evs, rfl, ?_, ?_, ?_⟩
    · cases ok with
      | true => simp [s1 evs hc]
      | false => simp [s2 evs hc]
    · intro h; subst h; exact checkOneLine_ok_ev hc
    · intro h; subst h; exact checkOneLine_failed_ev hc

/-- `check_one_checkfile` as translated (opening the checkfile, `-` = stdin, the `read_line` loop, the saturating
counter) = the model's `checkLines` on the lines of that file; `s0` = the streams at the start of the run -/
theorem check_one_checkfile_translated_eq_model (w : World) (args : B3sumIo.Args) (path : List UInt8) (st : CheckState)
    (s0 : Streams) (hst : st.failed < 2 ^ 64) (hs : ∀ lines, openSrc w path = .ok lines → LinesSmall lines) :
    B3sumIo.check_one_checkfile w path args st.failed (emitEvs st.evs s0) =
      fileOut s0 (fileArgOut (envOf w args) (openSrc w path) st) :=
  check_one_checkfile_eq w args path st s0 hst hs

/-- `main` with `--check`, as translated, nothing skipped: exit status and everything written to stdout and stderr
(OK / FAILED lines, diagnostics, the WARNING line, the `Error:` line of a failing `main`) are the model's `runCheckMain` -/
theorem main_check_translated_eq_model (w : World) (args : B3sumIo.Args) (hc : args.check = true) (s0 : Streams)
    (hs : ArgsSmall w args.file_args) :
    processExit (B3sumIo.main_closure w args s0) =
      ((runCheckMain (envOf w args) (args.file_args.map (openSrc w))).exit,
       emitEvs (runCheckMain (envOf w args) (args.file_args.map (openSrc w))).evs s0) :=
  main_closure_check_eq w args hc s0 hs

/-- `main` without `--check`, as translated: every input is attempted, a failure prints `b3sum: <path>: <error>` on
stderr and is counted, the exit status is the model's `runHashExit` -/
theorem main_hash_translated_eq_model (w : World) (args : B3sumIo.Args) (hc : args.check = false) (s : Streams) :
    B3sumIo.main_closure w args s =
      (.ok (if (args.file_args.foldl (hashStep w args) (0, s)).1 > 0 then 1 else 0),
       (args.file_args.foldl (hashStep w args) (0, s)).2) ∧
    (processExit (B3sumIo.main_closure w args s)).1 =
      runHashExit (args.file_args.map fun p => (B3sumIo.hash_path w args p).isOk) := by
  refine ⟨main_closure_hash_eq w args hc s, ?_⟩
  rw [main_closure_hash_eq w args hc s, hashStep_count]
  unfold runHashExit processExit
  simp only
  split <;> rfl

/-- `main` as translated = `Args::parse`, then the closure (the thread pool does not influence the result) -/
theorem main_translated_eq (w : World) (cli : B3sumIo.Inner) (s : Streams) :
    B3sumIo.main w cli s =
      match B3sumIo.Args.parse w cli with
      | .ok args => B3sumIo.main_closure w args s
      | .err e => (.err e, s)
      | .panic => (.panic, s) := main_eq w cli s

/-! #### the C12 facts for the translated code -/

/-- `--check` exits 0 iff every checkfile can be read as text and every entry of every checkfile verifies -/
theorem main_check_exit_iff_translated (w : World) (args : B3sumIo.Args) (hc : args.check = true) (s0 : Streams)
    (hs : ArgsSmall w args.file_args) :
    (processExit (B3sumIo.main_closure w args s0)).1 = 0 ↔
      AllGood (envOf w args) (args.file_args.map (openSrc w)) := by
  rw [main_closure_check_eq w args hc s0 hs]
  exact check_exit_iff _ _ (openSrc_wellFormed w _)

/-- the exit status of `b3sum` (any arguments that clap accepts) is 0 or 1: no panic is reachable -/
theorem main_exit_zero_or_one_translated (w : World) (cli : B3sumIo.Inner) (s : Streams)
    (hs : cli.check = true → ArgsSmall w (fileArgsOf cli)) :
    (processExit (B3sumIo.main w cli s)).1 = 0 ∨ (processExit (B3sumIo.main w cli s)).1 = 1 := by
  rw [main_eq]
  cases hp : B3sumIo.Args.parse w cli with
  | panic => exact absurd hp (args_parse_ne_panic w cli)
  | err e => exact Or.inr rfl
  | ok args =>
    obtain ⟨hi, hf⟩ := args_parse_inner hp
    simp only
    cases hc : args.check with
    | true =>
      have hc' : cli.check = true := by rw [← hi]; exact hc
      rw [main_closure_check_eq w args hc s (by rw [hf]; exact hs hc')]
      exact check_exit_zero_or_one _ _
    | false =>
      rw [main_closure_hash_eq w args hc s]
      simp only [processExit]
      split
      · exact Or.inr rfl
      · exact Or.inl rfl

/-- one line per entry: when every checkfile can be read as text, every entry of every checkfile is processed in
order; the streams receive exactly the per-entry lines (`check_one_line_translated_reports`) followed by the WARNING
line if anything failed; the exit status is 1 iff some entry failed -/
theorem main_check_continues_translated (w : World) (args : B3sumIo.Args) (hc : args.check = true) (s0 : Streams)
    (hs : ArgsSmall w args.file_args) (files : List (List Str))
    (hf : args.file_args.map (openSrc w) = files.map fun ls => Except.ok (ls.map Except.ok)) :
    let n := countFailed (envOf w args) files.flatten 0
    processExit (B3sumIo.main_closure w args s0) =
      ((if n > 0 then 1 else 0),
       emitEvs (allEvs (envOf w args) files.flatten ++ (if n > 0 then [.diag (warningLine n)] else [])) s0) ∧
    (n > 0 ↔ ∃ l ∈ files.flatten, (lineVerdict (envOf w args) l).1 = false) := by
  have hwf := openSrc_wellFormed w args.file_args
  rw [hf] at hwf
  have hne : ∀ ls ∈ files, ∀ l ∈ ls, l ≠ [] := by
    intro ls hls l hl
    exact hwf (ls.map Except.ok) (List.mem_map.mpr ⟨ls, hls, rfl⟩) l (List.mem_map.mpr ⟨l, hl, rfl⟩)
  have hcc := check_continues (envOf w args) files hne
  simp only at hcc ⊢
  rw [main_closure_check_eq w args hc s0 hs, hf, hcc.1, hcc.2.1]
  exact ⟨rfl, hcc.2.2⟩

/-- a checkfile that cannot be opened, or a `read_line` error (I/O error or invalid UTF-8), makes the exit status 1 -/
theorem main_check_unreadable_nonzero_translated (w : World) (args : B3sumIo.Args) (hc : args.check = true) (s0 : Streams)
    (hs : ArgsSmall w args.file_args)
    (h : (∃ p ∈ args.file_args, ∃ e, openSrc w p = .error e) ∨
         (∃ p ∈ args.file_args, ∃ lines e, openSrc w p = .ok lines ∧ Except.error e ∈ lines)) :
    (processExit (B3sumIo.main_closure w args s0)).1 = 1 := by
  rw [main_closure_check_eq w args hc s0 hs]
  apply check_unreadable_nonzero _ _ (openSrc_wellFormed w _)
  rcases h with ⟨p, hp, e, he⟩ | ⟨p, hp, lines, e, hl, he⟩
  · exact Or.inl ⟨e, List.mem_map.mpr ⟨p, hp, he⟩⟩
  · exact Or.inr ⟨lines, e, List.mem_map.mpr ⟨p, hp, hl⟩, he⟩

/-- the hypothesis `ArgsSmall` (every line of every checkfile is shorter than 2^62 bytes; it comes from the checked
`2 * path.len()` of `unescape`, see `parse_check_line_translated_eq_model`) is satisfiable, and the statements are not
vacuous: a run over a good checkfile and stdin (32 bytes that are not a check line) exits with 1 -/
example : ArgsSmall demoWorld demoArgs.file_args := argsSmall_of_check (by decide)
example : B3sumIo.Args.parse demoWorld demoCli = .ok demoArgs := by rfl
set_option maxRecDepth 100000 in
example : (processExit (B3sumIo.main_closure demoWorld demoArgs ⟨[], []⟩)).1 = 1 := by
  rw [main_check_translated_eq_model demoWorld demoArgs rfl _ (argsSmall_of_check (by decide))]
  decide
set_option maxRecDepth 100000 in
example : (processExit (B3sumIo.main_closure demoWorld { demoArgs with file_args := [[0x63]] } ⟨[], []⟩)).1 = 0 := by
  rw [main_check_translated_eq_model demoWorld _ rfl _ (argsSmall_of_check (by decide))]
  decide

#print axioms write_hex_output_translated_eq_model
#print axioms write_raw_output_translated_eq_model
#print axioms read_key_translated_eq
#print axioms read_key_translated_spec
#print axioms read_key_translated_errors
#print axioms args_parse_translated_eq
#print axioms args_parse_translated_mode
#print axioms inner_default_translated
#print axioms hash_path_translated_eq
#print axioms hash_one_input_translated_eq_model
#print axioms check_one_line_translated_eq_model
#print axioms check_one_line_translated_reports
#print axioms check_one_checkfile_translated_eq_model
#print axioms main_check_translated_eq_model
#print axioms main_hash_translated_eq_model
#print axioms main_translated_eq
#print axioms main_check_exit_iff_translated
#print axioms main_exit_zero_or_one_translated
#print axioms main_check_continues_translated
#print axioms main_check_unreadable_nonzero_translated

end B3.Proofs.B3sumIo

