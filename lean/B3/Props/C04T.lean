/-
Property theorems about the code TRANSLATED from the sources (artefact proofs in B3/Proofs/Dispatch*.lean): generated = model for all inputs,
and the property-level facts restated for the generated functions.  Theorem statements only; helper lemmas are in the Proofs file.
-/
import B3.Proofs.Dispatch
namespace B3.Proofs.Dispatch
open B3 B3.Dispatch B3.Gen.Dispatch

/-! ### main theorems -/

/-- **platform_dispatch_table.**  The `match self` tables of `Platform::compress_in_place`, `compress_xof`, `hash_many`,
`xof_many` as generated from src/platform.rs equal the expected tables (a swapped or dropped arm, a changed callee, a changed,
dropped or reordered argument breaks the equation); and, semantically, in every build `b` and for every variant `p` that exists
in it, the arm rustc selects calls the kernel module of that variant (`compressModule`: SSE4.1 for AVX2, portable for NEON;
`isaModule` for `hash_many`) with exactly the method's parameters, in order.  `xof_many` goes to the AVX-512 assembly on
`unix` only, and to the portable loop otherwise. -/
theorem platform_dispatch_table :
    (compress_in_place_arms = compressArms "compress_in_place" ["cv", "block", "block_len", "counter", "flags"] ∧
     compress_xof_arms = compressArms "compress_xof" ["cv", "block", "block_len", "counter", "flags"] ∧
     hash_many_arms = hashManyArms "hash_many"
       ["inputs", "key", "counter", "increment_counter", "flags", "flags_start", "flags_end", "out"] ∧
     xof_many_arms = xofManyArms ["cv", "block", "block_len", "counter", "flags", "out"]) ∧
    ∀ (b : Build) (p : Platform), p.available b = true →
      GoesTo (compress_in_place_dispatch b p) (compressModule p) "compress_in_place" compress_in_place_params ∧
      GoesTo (compress_xof_dispatch b p) (compressModule p) "compress_xof" compress_xof_params ∧
      GoesTo (hash_many_dispatch b p) (isaModule p) "hash_many" hash_many_params ∧
      xof_many_dispatch b p =
        (if p = .AVX512 ∧ b.flag "unix" = true then some (.call ⟨["crate", "avx512", "xof_many"], xof_many_params, true⟩)
         else some .loop) := by
  obtain ⟨a1, a2, a3, a4, q1, q2, q3, _⟩ := platform_dispatch_arms
  refine ⟨⟨a1, a2, a3, a4⟩, fun b p h => ⟨?_, ?_, ?_, xof_many_dispatch_eq b p h⟩⟩
  · rw [compress_in_place_dispatch, a1, q1]; exact select_compressArms b p h _ _
  · rw [compress_xof_dispatch, a2, q2]; exact select_compressArms b p h _ _
  · rw [hash_many_dispatch, a3, q3]; exact select_hashManyArms b p h _ _

/-- **xof_many_fallback_eq_model (Rust).**  `Platform::xof_many` as translated, with `compress_xof` the kernel of the model
(`cxofBytes K`): for an output of `n` whole blocks (the dropped `debug_assert`) and counters that stay below 2^64
(`counter += 1` is checked arithmetic), in every build and for every variant other than AVX-512-on-unix, the output buffer
ends up holding exactly the model's `xofMany`; an empty output returns immediately (`n = 0`); on AVX-512/unix the call goes,
unchanged, to `crate::avx512::xof_many`. -/
theorem xof_many_fallback_eq_model (K : Kern) (o : Spec.Node) (t n : Nat) (out : List UInt8)
    (hlen : out.length = 64 * n) (ht : t + n < 2 ^ 64) :
    xof_many_fallback (cxofBytes K) o.cv o.block (UInt8.ofNat o.blen) t (o.flags ||| Spec.ROOT) out = .ok (Rs.xofMany K o t n) ∧
    ∀ (b : Build) (p : Platform)
      (ext : List String → CV → St → UInt8 → Nat → UInt8 → List UInt8 → R (List UInt8)), p.available b = true →
      xof_many b p ext (cxofBytes K) o.cv o.block (UInt8.ofNat o.blen) t (o.flags ||| Spec.ROOT) out =
        if p = .AVX512 ∧ b.flag "unix" = true ∧ n ≠ 0 then
          ext ["crate", "avx512", "xof_many"] o.cv o.block (UInt8.ofNat o.blen) t (o.flags ||| Spec.ROOT) out
        else .ok (Rs.xofMany K o t n) := by
  have h1 := xof_many_fallback_model K o t n out hlen ht
  refine ⟨h1, fun b p ext h => ?_⟩
  rw [xof_many_eq' b p h, h1]
  by_cases hn : n = 0
  · subst hn
    have : out = [] := List.eq_nil_of_length_eq_zero (by omega)
    subst this
    simp [Rs.xofMany]
  · have : out ≠ [] := by intro e; rw [e] at hlen; simp at hlen; omega
    rw [if_neg this]
    by_cases hp : p = .AVX512 ∧ b.flag "unix" = true
    · rw [if_pos hp, if_pos ⟨hp.1, hp.2, hn⟩]
    · rw [if_neg hp, if_neg (fun h => hp ⟨h.1, h.2.1⟩)]

/-- the hypotheses of `xof_many_fallback_eq_model` have instances ... -/
example : (List.replicate 128 (0 : UInt8)).length = 64 * 2 ∧ 2 ^ 54 + 2 < 2 ^ 64 := ⟨by rw [List.length_replicate], by omega⟩

/-- ... and the counter bound is needed: asked for the single block with counter 2^64 - 1, the translated loop writes it and
then panics on `counter += 1` (what the crate does when built with overflow checks; a release build wraps) -/
example {Cv Blk : Type} (cx : Cv → Blk → UInt8 → Nat → UInt8 → List UInt8) (cv : Cv) (block : Blk) (bl fl : UInt8)
    (out : List UInt8) (h : out.length = 64) :
    xof_many_fallback cx cv block bl 18446744073709551615 fl out = .panic := by
  have hc : Rt.chunksExact 64 out = [out] := by
    rw [Rt.chunksExact, dif_neg (by omega), Rt.chunksExact, dif_pos (by simp [h])]
    simp [List.take_of_length_le, h]
  simp [xof_many_fallback, hc, xof_many_loop, Rt.tryIntoBytes, h, Arith.cadd, Arith.W]

/-- **xof_many_fallback_eq_model (C).**  The portable loop of `blake3_xof_many`, with `blake3_compress_xof` the model's
kernel: on a buffer with room for `outblocks` blocks it stores exactly the model's `xofMany` (counters wrap like
`uint64_t`, as the model's do), leaves the rest of the buffer alone and stays in bounds; and the function reaches that loop
unless `outblocks == 0` (plain return) or the unix AVX-512 assembly is selected. -/
theorem c_xof_many_fallback_eq_model (K : Kern) (o : Spec.Node) (t n : Nat) (out : List UInt8)
    (hlen : 64 * n ≤ out.length) (hw : out.length < 2 ^ 64) :
    blake3_xof_many_fallback (cxofBytes K) o.cv o.block (UInt8.ofNat o.blen) t (o.flags ||| Spec.ROOT) out n =
      .ok (Rs.xofMany K o t n ++ out.drop (64 * n)) ∧
    ∀ (b : Build) (f : Nat), blake3_xof_many b f n =
      if n = 0 then .ret
      else if b.flag "IS_X86" && !b.flag "_WIN32" && !b.flag "__CYGWIN__" && !b.flag "BLAKE3_NO_AVX512" && hasBits f AVX512VL
      then .call ⟨"blake3_xof_many_avx512", blake3_xof_many_params⟩
      else .loop :=
  ⟨c_xof_many_fallback_model K o t n out hlen hw, fun b f => c_xof_many_eq b f n⟩

example : 64 * 2 ≤ (List.replicate 200 (0 : UInt8)).length ∧ (List.replicate 200 (0 : UInt8)).length < 2 ^ 64 :=
  ⟨by rw [List.length_replicate]; omega, by rw [List.length_replicate]; omega⟩

/-- **simd_degree_table.**  In every build, for every variant that exists in it, `Platform::simd_degree` returns the width
of the `hash_many` kernel that variant dispatches to, the dropped `debug_assert!(degree <= MAX_SIMD_DEGREE)` holds, and
`MAX_SIMD_DEGREE <= MAX_SIMD_DEGREE_OR_2 >= 2`.  For C: `blake3_simd_degree` returns the width of the kernel
`blake3_hash_many` selects for the same feature mask, and it is at most `MAX_SIMD_DEGREE` of blake3_impl.h. -/
theorem simd_degree_table :
    (∀ (b : Build) (p : Platform), p.available b = true →
      simd_degree b p = some (degreeOf p) ∧ degreeOf p = kernelDegree (isaModule p) ∧
      GoesTo (hash_many_dispatch b p) (isaModule p) "hash_many" hash_many_params ∧
      degreeOf p ≤ MAX_SIMD_DEGREE b ∧ MAX_SIMD_DEGREE b ≤ MAX_SIMD_DEGREE_OR_2 b ∧ 2 ≤ MAX_SIMD_DEGREE_OR_2 b) ∧
    (∀ (b : Build) (f : Nat),
      blake3_hash_many b f = .call ⟨hashManySym (cHashIsa b f), blake3_hash_many_params⟩ ∧
      blake3_simd_degree b f = .val (cHashIsa b f).degree ∧ (cHashIsa b f).degree ≤ c_MAX_SIMD_DEGREE b) :=
  ⟨fun b p h => ⟨simd_degree_table' b p h, degreeOf_eq_kernelDegree p, (platform_dispatch_table.2 b p h).2.2.1,
      simd_degree_le_max' b p h⟩,
   fun b f => ⟨(c_hash_many_eq b f).1, (c_hash_many_eq b f).2, c_simd_degree_le_max b f⟩⟩

/-- **detect_order.**  `Platform::detect()` for every build configuration, every combination of CPU features and `no_*`
flags: (1) on x86 / x86-64 (not under miri, no verification override) it is the first available of
AVX-512 (only if the build has the FFI kernels) > AVX2 > SSE4.1 > SSE2, then NEON / WASM / portable as on other targets;
(2) on other targets NEON, else WASM SIMD, else portable, with no run-time test; (3) under miri: portable;
(4) the verification hook's override wins when that cfg is on; (5) whatever it returns exists in the build, and the CPU
reported the features its kernels need. -/
theorem detect_order (b : Build) (cpu : String → Bool) (ov : Option Platform)
    (hv : b.flag "blake3_team_blake3_verif" = false ∨ ov = none) :
    (x86 b = true → b.flag "miri" = false →
      detect b cpu ov =
        if b.flag "blake3_avx512_ffi" && !b.kv "feature" "no_avx512" && cpu "avx512f" && cpu "avx512vl" then .AVX512
        else if !b.kv "feature" "no_avx2" && cpu "avx2" then .AVX2
        else if !b.kv "feature" "no_sse41" && cpu "sse4.1" then .SSE41
        else if !b.kv "feature" "no_sse2" && cpu "sse2" then .SSE2
        else if b.flag "blake3_neon" then .NEON
        else if b.flag "blake3_wasm32_simd" then .WASM32_SIMD
        else .Portable) ∧
    (x86 b = false → b.flag "miri" = false →
      detect b cpu ov = if b.flag "blake3_neon" then .NEON else if b.flag "blake3_wasm32_simd" then .WASM32_SIMD else .Portable) ∧
    (b.flag "miri" = true → detect b cpu ov = .Portable) ∧
    (∀ p, b.flag "blake3_team_blake3_verif" = true → detect b cpu (some p) = p) ∧
    cpuSupports cpu (detect b cpu ov) = true ∧ (detect b cpu ov).available b = true :=
  ⟨fun hx hm => detect_order' b cpu ov hx hm hv, fun hx hm => detect_other_arch' b cpu ov hv hm hx,
   fun hm => detect_miri' b cpu ov hv hm, fun p h => detect_override' b cpu p h,
   (detect_supported' b cpu ov hv).1, (detect_supported' b cpu ov hv).2⟩

/-- **c_dispatch_table.**  For every combination of build macros and every feature mask `f`: `blake3_compress_in_place` and
`blake3_compress_xof` call the single-block kernel of the same family `cCompressIsa b f` (AVX-512 - tested on AVX512VL alone -
> SSE4.1 > SSE2 > portable; a `BLAKE3_NO_*` macro removes a level), `blake3_hash_many` the kernel of `cHashIsa b f`
(AVX-512 - both AVX512F and AVX512VL - > AVX2 > SSE4.1 > SSE2 > NEON when `BLAKE3_USE_NEON == 1` > portable), each with
exactly its own parameters in order; `blake3_simd_degree` is that kernel's width; `blake3_xof_many` returns at once for zero
blocks, uses the AVX-512 assembly only off Windows, and otherwise runs the portable loop. -/
theorem c_dispatch_table (b : Build) (f : Nat) :
    blake3_compress_in_place b f = .call ⟨cipSym (cCompressIsa b f), blake3_compress_in_place_params⟩ ∧
    blake3_compress_xof b f = .call ⟨cxofSym (cCompressIsa b f), blake3_compress_xof_params⟩ ∧
    blake3_hash_many b f = .call ⟨hashManySym (cHashIsa b f), blake3_hash_many_params⟩ ∧
    blake3_simd_degree b f = .val (cHashIsa b f).degree ∧
    (∀ n, blake3_xof_many b f n =
      if n = 0 then .ret
      else if b.flag "IS_X86" && !b.flag "_WIN32" && !b.flag "__CYGWIN__" && !b.flag "BLAKE3_NO_AVX512" && hasBits f AVX512VL
      then .call ⟨"blake3_xof_many_avx512", blake3_xof_many_params⟩
      else .loop) ∧
    blake3_compress_in_place_params = ["cv", "block", "block_len", "counter", "flags"] ∧
    blake3_compress_xof_params = ["cv", "block", "block_len", "counter", "flags", "out"] ∧
    blake3_xof_many_params = ["cv", "block", "block_len", "counter", "flags", "out", "outblocks"] ∧
    blake3_hash_many_params =
      ["inputs", "num_inputs", "blocks", "key", "counter", "increment_counter", "flags", "flags_start", "flags_end", "out"] :=
  ⟨(c_compress_eq b f).1, (c_compress_eq b f).2, (c_hash_many_eq b f).1, (c_hash_many_eq b f).2, fun n => c_xof_many_eq b f n,
   rfl, rfl, rfl, rfl⟩

/-- **c_get_cpu_features_spec.**  `get_cpu_features()` as translated: a cached mask is returned unchanged; otherwise, on
x86, the mask is `expectedFeatures` of the `cpuid` / `xgetbv` values and is stored in the cache (it is below 128, so never
the `UNDEFINED` marker: the next call hits the cache); off x86 it is 0 and nothing is cached.  Bit by bit: SSE2 (always on
x86-64), SSSE3, SSE4.1 from leaf 1; AVX only if OSXSAVE and XCR0 bits 1-2 (`ymmOs`); AVX2 only if moreover leaf 7 exists;
AVX512F / AVX512VL only if moreover XCR0 bits 5-7 (`zmmOs`: the OS enabled the opmask and ZMM state).  And the kernels the
dispatch then selects are backed by those reports. -/
theorem c_get_cpu_features_spec (b : Build) (cpuid : Nat → Regs) (cpuidex : Nat → Nat → Regs) (xcr0 : Nat) :
    let x64 := b.flag "__amd64__" || b.flag "_M_X64"
    let f := expectedFeatures x64 cpuid cpuidex xcr0
    (∀ g, g ≠ UNDEFINED → get_cpu_features b g cpuid cpuidex xcr0 = (g, g)) ∧
    (b.flag "IS_X86" = true → get_cpu_features b g_cpu_features_init cpuid cpuidex xcr0 = (f, f)) ∧
    (b.flag "IS_X86" = false → get_cpu_features b g_cpu_features_init cpuid cpuidex xcr0 = (0, UNDEFINED)) ∧
    f ≠ UNDEFINED ∧
    hasBits f SSE2 = (x64 || regBit (cpuid 1)[3] 26) ∧
    hasBits f SSSE3 = regBit (cpuid 1)[2] 9 ∧
    hasBits f SSE41 = regBit (cpuid 1)[2] 19 ∧
    hasBits f AVX = (ymmOs cpuid xcr0 && regBit (cpuid 1)[2] 28) ∧
    hasBits f AVX2 = (leaf7Ok cpuid xcr0 && regBit (cpuidex 7 0)[1] 5) ∧
    hasBits f AVX512F = (zmmOs cpuid xcr0 && regBit (cpuidex 7 0)[1] 16) ∧
    hasBits f AVX512VL = (zmmOs cpuid xcr0 && regBit (cpuidex 7 0)[1] 31) ∧
    (cHashIsa b f = .avx512 → zmmOs cpuid xcr0 = true ∧ regBit (cpuidex 7 0)[1] 16 = true ∧ regBit (cpuidex 7 0)[1] 31 = true) ∧
    (cHashIsa b f = .avx2 → leaf7Ok cpuid xcr0 = true ∧ regBit (cpuidex 7 0)[1] 5 = true) ∧
    (cCompressIsa b f = .avx512 → zmmOs cpuid xcr0 = true ∧ regBit (cpuidex 7 0)[1] 31 = true) := by
  intro x64 f
  obtain ⟨h1, h2, h3, h4, h5, h6, h7, _, hlt⟩ := expectedFeatures_bits x64 cpuid cpuidex xcr0
  obtain ⟨s1, s2, _, _, s5⟩ := c_dispatch_sound' b x64 cpuid cpuidex xcr0
  refine ⟨fun g hg => get_cpu_features_cached b g cpuid cpuidex xcr0 hg, fun hx => get_cpu_features_x86 b cpuid cpuidex xcr0 hx,
    fun hx => get_cpu_features_other_arch b cpuid cpuidex xcr0 hx, ?_, h1, h2, h3, h4, h5, h6, h7, s1, s2, s5⟩
  show expectedFeatures x64 cpuid cpuidex xcr0 ≠ 1073741824
  omega

/-- `regBit r k` is bit `k` of the register -/
theorem regBit_is_testBit (r : UInt32) (k : Nat) : regBit r k = r.toNat.testBit k := regBit_eq_testBit r k

/-- **ffi_passthrough.**  Every wrapper of src/ffi_sse2.rs, ffi_sse41.rs, ffi_avx2.rs, ffi_avx512.rs, ffi_neon.rs calls the
C symbol `blake3_<fn>_<isa>` of its file with its parameters marshalled in order (`as_ptr()` / `as_mut_ptr()`,
`inputs.len()`, `N / BLOCK_LEN`, `increment_counter.yes()`, `out.len() / BLOCK_LEN` for `xof_many`; see `wrapperOk`), the
matching `extern "C"` declaration has the corresponding C types, `hash_many` first asserts `out.len() >= inputs.len() * OUT_LEN`
- as code: it passes exactly when `inputs.len() * 32` does not overflow and is at most `out.len()` -; the one symbol exported
to C (`blake3_compress_in_place_portable`, ffi_neon.rs) passes its arguments to `portable::compress_in_place` in order; and
every FFI-backed callee of the `Platform` tables has such a wrapper. -/
theorem ffi_passthrough :
    (∀ w ∈ ffiWrappers, w.kind = "wrapper" → wrapperOk w = true) ∧
    (∀ w ∈ ffiWrappers, w.kind = "export" →
      w.name = "blake3_compress_in_place_portable" ∧ w.callee = "crate::portable::compress_in_place" ∧
      w.params.map (·.1) = ["cv", "block", "block_len", "counter", "flags"] ∧
      w.args = ["&mut*(cvas*mut[u32;8])", "&*(blockas*const[u8;64])", "block_len", "counter", "flags"]) ∧
    (ffiWrappers.map fun w => (w.file, w.name)) =
      [("ffi_sse2.rs", "compress_in_place"), ("ffi_sse2.rs", "compress_xof"), ("ffi_sse2.rs", "hash_many"),
       ("ffi_sse41.rs", "compress_in_place"), ("ffi_sse41.rs", "compress_xof"), ("ffi_sse41.rs", "hash_many"),
       ("ffi_avx2.rs", "hash_many"),
       ("ffi_avx512.rs", "compress_in_place"), ("ffi_avx512.rs", "compress_xof"), ("ffi_avx512.rs", "hash_many"),
       ("ffi_avx512.rs", "xof_many"),
       ("ffi_neon.rs", "hash_many"), ("ffi_neon.rs", "blake3_compress_in_place_portable")] ∧
    (∀ out_len inputs_len : Nat,
      ffi_sse2_hash_many_guard out_len inputs_len =
        (if inputs_len * 32 < 2 ^ 64 ∧ inputs_len * 32 ≤ out_len then .ok () else .panic) ∧
      ffi_sse41_hash_many_guard out_len inputs_len = ffi_sse2_hash_many_guard out_len inputs_len ∧
      ffi_avx2_hash_many_guard out_len inputs_len = ffi_sse2_hash_many_guard out_len inputs_len ∧
      ffi_avx512_hash_many_guard out_len inputs_len = ffi_sse2_hash_many_guard out_len inputs_len ∧
      ffi_neon_hash_many_guard out_len inputs_len = ffi_sse2_hash_many_guard out_len inputs_len) :=
  ⟨ffi_wrappers_ok, by decide, by decide, fun a b => ⟨ffi_guard_eq a b, ffi_guards_same a b⟩⟩

/-- **byte / word helpers.**  `words_from_le_bytes_32/64` and `le_bytes_from_words_32/64` of src/platform.rs as translated
(array_ref!/array_mut_ref! windows, `u32::from_le_bytes`, `to_le_bytes`, statement by statement) never panic on arrays of
the declared length and equal `wordsOfBytes` / `bytesOfWords` of Prim.lean, which every model uses for them. -/
theorem le_conversions_eq_prim :
    (∀ bytes : List UInt8, bytes.length = 32 → words_from_le_bytes_32 bytes = .ok (wordsOfBytes 8 bytes)) ∧
    (∀ bytes : List UInt8, bytes.length = 64 → words_from_le_bytes_64 bytes = .ok (wordsOfBytes 16 bytes)) ∧
    (∀ words : Vector UInt32 8, le_bytes_from_words_32 words = .ok (bytesOfWords words)) ∧
    (∀ words : Vector UInt32 16, le_bytes_from_words_64 words = .ok (bytesOfWords words)) :=
  ⟨words_from_le_bytes_32_eq, words_from_le_bytes_64_eq, le_bytes_from_words_32_eq, le_bytes_from_words_64_eq⟩

/-- **dispatch_ffi_chain.**  `Platform` method -> kernel module -> file (src/lib.rs) -> wrapper -> C symbol. -/
theorem dispatch_ffi_chain :
    kernelModules =
      [("avx2", [.flag "blake3_avx2_rust"], "rust_avx2.rs"), ("avx2", [.flag "blake3_avx2_ffi"], "ffi_avx2.rs"),
       ("avx512", [.flag "blake3_avx512_ffi"], "ffi_avx512.rs"), ("neon", [.flag "blake3_neon"], "ffi_neon.rs"),
       ("portable", [], "portable.rs"),
       ("sse2", [.flag "blake3_sse2_rust"], "rust_sse2.rs"), ("sse2", [.flag "blake3_sse2_ffi"], "ffi_sse2.rs"),
       ("sse41", [.flag "blake3_sse41_rust"], "rust_sse41.rs"), ("sse41", [.flag "blake3_sse41_ffi"], "ffi_sse41.rs"),
       ("wasm32_simd", [.flag "blake3_wasm32_simd"], "wasm32_simd.rs")] ∧
    ∀ c ∈ armCalls compress_in_place_arms ++ armCalls compress_xof_arms ++ armCalls hash_many_arms ++ armCalls xof_many_arms,
      chainOk c = true :=
  ⟨rfl, dispatch_ffi_chain'⟩

end B3.Proofs.Dispatch

