/-
C05 (assembly) - property theorems: the hand-written assembly routines
`blake3_compress_in_place_sse41`, `blake3_compress_xof_sse41` (c/blake3_sse41_x86-64_unix.S) and
`blake3_compress_in_place_sse2`, `blake3_compress_xof_sse2` (c/blake3_sse2_x86-64_unix.S), as
instruction lists translated from the source text (`B3.Gen.AsmSse41`, `B3.Gen.AsmSse2`) and run by
the machine semantics `B3/Asm/Sse.lean` (`run rb prog n s` = `n` fetch-execute steps from state `s`,
`rb` = where the loader put the file's `.rodata` section), compute the specification's compression
function, for ALL register and memory contents at the entry point.

`Entry rb s` = `s` is at the routine's first instruction, has not faulted, and memory holds the
file's `.rodata` bytes at the (64-byte aligned) address `rb` -- nothing else; in particular no
assumption about where cv / block / out lie or whether they overlap.  `readWords m p n` = `n`
little-endian doublewords at address `p`; `writeBytes m p bs` = `m` with the bytes `bs` written at
`p, p+1, ..` (addresses mod 2^64) and every other byte unchanged.
Arguments (System V): rdi = cv, rsi = block, rdx = block_len, rcx = counter, r8 = flags, r9 = out.
-/
import B3.Asm.Sse41XofProof
import B3.Asm.Sse2XofProof
namespace B3.Props.C05A
open B3 B3.AsmSem

/-- `blake3_compress_in_place_sse41`: with `block_len` zero-extended to the whole of rdx and `flags` to the low
32 bits of r8 (what C callers do; the routine uses rdx and r8 whole: `shl r8, 32; add rdx, r8`), the routine
returns after 468 instructions without a fault, and memory afterwards is memory before with the 32 bytes at `cv`
replaced by `first8 (Spec.compress cv block counter block_len flags)` -/
theorem asm_sse41_compress_in_place (rb : UInt64) (s : State) (h : Sse41.Entry rb s) (bl fl : UInt8)
    (hbl : s.gpr[rdx] = bl.toUInt64) (hfl : s.gpr[r8].toUInt32 = fl.toUInt32) :
    (run rb Gen.AsmSse41.compress_in_place 468 s).status = .returned ∧
    (run rb Gen.AsmSse41.compress_in_place 468 s).ok = true ∧
    (run rb Gen.AsmSse41.compress_in_place 468 s).mem
      = writeBytes s.mem s.gpr[rdi] (bytesOfWords (first8 (Spec.compress (readWords s.mem s.gpr[rdi] 8) (readWords s.mem s.gpr[rsi] 16)
            s.gpr[rcx] bl.toUInt32 fl.toUInt32))) :=
  Sse41.compress_in_place_correct rb s h bl fl hbl hfl

/-- the same WITHOUT any assumption on rdx and r8: the block-length word is the low half of `rdx + (r8 << 32)` and
the flags word its high half (so garbage in bits 63:8 of rdx or 31:8 of r8 -- which the psABI allows a caller
to leave there -- changes the result: a dependency of this routine on its callers; `compress_xof` does not have it);
the stack pointer is popped and all registers but rax, rdx, r8, rsp are preserved -/
theorem asm_sse41_compress_in_place_any_registers (rb : UInt64) (s : State) (h : Sse41.Entry rb s) :
    (run rb Gen.AsmSse41.compress_in_place 468 s).status = .returned ∧
    (run rb Gen.AsmSse41.compress_in_place 468 s).ok = true ∧
    (run rb Gen.AsmSse41.compress_in_place 468 s).mem
      = writeBytes s.mem s.gpr[rdi] (bytesOfWords (first8 (Spec.compress (readWords s.mem s.gpr[rdi] 8) (readWords s.mem s.gpr[rsi] 16)
            s.gpr[rcx] (lenFlags s).toUInt32 (lenFlags s >>> 32).toUInt32))) ∧
    (run rb Gen.AsmSse41.compress_in_place 468 s).gpr[rsp] = s.gpr[rsp] + 8 ∧
    ∀ r : Reg, r ≠ rax → r ≠ rdx → r ≠ r8 → r ≠ rsp → (run rb Gen.AsmSse41.compress_in_place 468 s).gpr[r] = s.gpr[r] :=
  Sse41.compress_in_place_general rb s h

/-- `blake3_compress_xof_sse41`, no assumption on any register (the routine reads only `dl` and `r8b` of rdx, r8):
returns after 476 instructions without a fault; the 64 bytes at `out` become `Spec.compress cv block counter block_len flags`,
every other byte of memory is unchanged; rsp popped, all registers but rax, rdx, rsp preserved -/
theorem asm_sse41_compress_xof (rb : UInt64) (s : State) (h : Sse41.Entry rb s) :
    (run rb Gen.AsmSse41.compress_xof 476 s).status = .returned ∧
    (run rb Gen.AsmSse41.compress_xof 476 s).ok = true ∧
    (run rb Gen.AsmSse41.compress_xof 476 s).mem
      = writeBytes s.mem s.gpr[r9] (bytesOfWords (Spec.compress (readWords s.mem s.gpr[rdi] 8) (readWords s.mem s.gpr[rsi] 16)
            s.gpr[rcx] s.gpr[rdx].toUInt8.toUInt32 s.gpr[r8].toUInt8.toUInt32)) ∧
    (run rb Gen.AsmSse41.compress_xof 476 s).gpr[rsp] = s.gpr[rsp] + 8 ∧
    ∀ r : Reg, r ≠ rax → r ≠ rdx → r ≠ rsp → (run rb Gen.AsmSse41.compress_xof 476 s).gpr[r] = s.gpr[r] :=
  Sse41Xof.compress_xof_correct rb s h

/-- `blake3_compress_in_place_sse2` (552 instructions), as `asm_sse41_compress_in_place` -/
theorem asm_sse2_compress_in_place (rb : UInt64) (s : State) (h : Sse2.Entry rb s) (bl fl : UInt8)
    (hbl : s.gpr[rdx] = bl.toUInt64) (hfl : s.gpr[r8].toUInt32 = fl.toUInt32) :
    (run rb Gen.AsmSse2.compress_in_place 552 s).status = .returned ∧
    (run rb Gen.AsmSse2.compress_in_place 552 s).ok = true ∧
    (run rb Gen.AsmSse2.compress_in_place 552 s).mem
      = writeBytes s.mem s.gpr[rdi] (bytesOfWords (first8 (Spec.compress (readWords s.mem s.gpr[rdi] 8) (readWords s.mem s.gpr[rsi] 16)
            s.gpr[rcx] bl.toUInt32 fl.toUInt32))) :=
  Sse2.compress_in_place_correct rb s h bl fl hbl hfl

/-- `blake3_compress_in_place_sse2` without assumptions on rdx, r8, as `asm_sse41_compress_in_place_any_registers` -/
theorem asm_sse2_compress_in_place_any_registers (rb : UInt64) (s : State) (h : Sse2.Entry rb s) :
    (run rb Gen.AsmSse2.compress_in_place 552 s).status = .returned ∧
    (run rb Gen.AsmSse2.compress_in_place 552 s).ok = true ∧
    (run rb Gen.AsmSse2.compress_in_place 552 s).mem
      = writeBytes s.mem s.gpr[rdi] (bytesOfWords (first8 (Spec.compress (readWords s.mem s.gpr[rdi] 8) (readWords s.mem s.gpr[rsi] 16)
            s.gpr[rcx] (lenFlags s).toUInt32 (lenFlags s >>> 32).toUInt32))) ∧
    (run rb Gen.AsmSse2.compress_in_place 552 s).gpr[rsp] = s.gpr[rsp] + 8 ∧
    ∀ r : Reg, r ≠ rax → r ≠ rdx → r ≠ r8 → r ≠ rsp → (run rb Gen.AsmSse2.compress_in_place 552 s).gpr[r] = s.gpr[r] :=
  Sse2.compress_in_place_general rb s h

/-- `blake3_compress_xof_sse2` (560 instructions), as `asm_sse41_compress_xof` -/
theorem asm_sse2_compress_xof (rb : UInt64) (s : State) (h : Sse2.Entry rb s) :
    (run rb Gen.AsmSse2.compress_xof 560 s).status = .returned ∧
    (run rb Gen.AsmSse2.compress_xof 560 s).ok = true ∧
    (run rb Gen.AsmSse2.compress_xof 560 s).mem
      = writeBytes s.mem s.gpr[r9] (bytesOfWords (Spec.compress (readWords s.mem s.gpr[rdi] 8) (readWords s.mem s.gpr[rsi] 16)
            s.gpr[rcx] s.gpr[rdx].toUInt8.toUInt32 s.gpr[r8].toUInt8.toUInt32)) ∧
    (run rb Gen.AsmSse2.compress_xof 560 s).gpr[rsp] = s.gpr[rsp] + 8 ∧
    ∀ r : Reg, r ≠ rax → r ≠ rdx → r ≠ rsp → (run rb Gen.AsmSse2.compress_xof 560 s).gpr[r] = s.gpr[r] :=
  Sse2Xof.compress_xof_correct rb s h

/-- read back as words, and the frame condition byte by byte (SSE4.1 compress_in_place; the other three have the
same corollaries `..._correct_words` in B3/Asm) -/
theorem asm_sse41_compress_in_place_words (rb : UInt64) (s : State) (h : Sse41.Entry rb s) (bl fl : UInt8)
    (hbl : s.gpr[rdx] = bl.toUInt64) (hfl : s.gpr[r8].toUInt32 = fl.toUInt32) :
    readWords (run rb Gen.AsmSse41.compress_in_place 468 s).mem s.gpr[rdi] 8
      = first8 (Spec.compress (readWords s.mem s.gpr[rdi] 8) (readWords s.mem s.gpr[rsi] 16) s.gpr[rcx] bl.toUInt32 fl.toUInt32) ∧
    ∀ q : UInt64, 32 ≤ (q - s.gpr[rdi]).toNat → (run rb Gen.AsmSse41.compress_in_place 468 s).mem q = s.mem q :=
  Sse41.compress_in_place_correct_words rb s h bl fl hbl hfl

/-- the step counts are exact and more fuel changes nothing (the machine has returned) -/
theorem asm_fuel (rb : UInt64) (s : State) (n : Nat) :
    (Sse41.Entry rb s → run rb Gen.AsmSse41.compress_in_place (468 + n) s = run rb Gen.AsmSse41.compress_in_place 468 s) ∧
    (Sse41.Entry rb s → run rb Gen.AsmSse41.compress_xof (476 + n) s = run rb Gen.AsmSse41.compress_xof 476 s) ∧
    (Sse2.Entry rb s → run rb Gen.AsmSse2.compress_in_place (552 + n) s = run rb Gen.AsmSse2.compress_in_place 552 s) ∧
    (Sse2.Entry rb s → run rb Gen.AsmSse2.compress_xof (560 + n) s = run rb Gen.AsmSse2.compress_xof 560 s) :=
  ⟨fun h => Sse41.compress_in_place_fuel rb s h n, fun h => Sse41Xof.compress_xof_fuel rb s h n,
   fun h => Sse2.compress_in_place_fuel rb s h n, fun h => Sse2Xof.compress_xof_fuel rb s h n⟩

/-- `ok = true` at the end of a run means that no prefix of the run faulted -/
theorem asm_no_fault_on_the_way (rb : UInt64) (prog : List Instr) (a b : Nat) (s : State)
    (h : (run rb prog (a + b) s).ok = true) : (run rb prog a s).ok = true :=
  run_ok_prefix rb prog a b s h

end B3.Props.C05A
