/-
Property theorems about the code TRANSLATED from the sources (artefact proofs in B3/Proofs/CState*.lean): generated = model for all inputs,
and the property-level facts restated for the generated functions.  Theorem statements only; helper lemmas are in the Proofs file.
-/
import B3.Proofs.CState
namespace B3.Proofs.CS
open B3 B3.CMem B3.Gen.CState

/-! ### main theorems

`envOf K sd junk` instantiates the parameters of the translated code: `blake3_compress_in_place` = the kernel `K.cip` on the
16 little-endian words of the 64-byte block, `compress_subtree_to_parent_node` = the model's `toParentNode` at SIMD degree
`sd` (writes the two chaining values), `output_root_bytes` = the model's `outputRootBytes` (proved equal to the write plan
translated from the source in Proofs/OutputPlan.lean), uninitialised locals = `junk`.  Every theorem holds for all `K`, `sd`,
`junk`: the results do not depend on the compression function or on uninitialised memory.  `… = .ok …` includes: no
out-of-bounds access to `buf`, `cv_stack`, `input` or a local array, no negative index, no loop running out of fuel. -/

section
variable (K : Kern) (sd : Nat) (junk : Nat → Nat → UInt8)

/-- the hashers the C API can produce (with the number of bytes absorbed since init / reset): `hasher_init_base` with any
key words and flags (this covers `blake3_hasher_init`, `_init_keyed`, `_init_derive_key*`), `blake3_hasher_update` with
any input that keeps the total below 2^64 bytes, `blake3_hasher_reset` -/
inductive Reach : Rs.Hasher → Nat → Prop
  | init (key : CV) (flags : UInt8) : Reach (C.initBase key flags) 0
  | update {h : Rs.Hasher} {n : Nat} (x : List UInt8) : Reach h n → n + x.length < 2 ^ 64 → Reach (C.update K sd h x) (n + x.length)
  | reset {h : Rs.Hasher} {n : Nat} : Reach h n → Reach (C.reset h) 0

/-- every reachable hasher has the shape the translated code relies on, absorbed exactly `n` bytes, and is represented by
some C struct -/
theorem reach_rep {h : Rs.Hasher} {n : Nat} (hr : Reach K sd h n) : Shape h ∧ absorbed h = n ∧ ∃ g, HRel g h := by
  induction hr with
  | init key flags =>
    obtain ⟨g', _, hrel, _⟩ := init_base_eq (envOf K sd (fun _ _ => 0)) (blake3_hasher.uninit (fun _ => 0)) key flags
      (by simp [blake3_hasher.sized, blake3_chunk_state.sized, blake3_hasher.uninit, blake3_chunk_state.uninit, uninitBytes_length])
    exact ⟨(shape_init key flags).1, (shape_init key flags).2, g', hrel⟩
  | update x _ hx ih =>
    obtain ⟨hs, ha, g, hrel⟩ := ih
    obtain ⟨g', _, a, b, c⟩ := hasher_update_eq K sd (fun _ _ => 0) hrel hs x x.length (Nat.le_refl _) (by rw [ha]; exact hx)
    rw [List.take_length] at a b c
    exact ⟨b, by rw [c, ha], g', a⟩
  | reset _ ih =>
    obtain ⟨_, _, g, hrel⟩ := ih
    obtain ⟨g', _, a, _⟩ := hasher_reset_eq K sd (fun _ _ => 0) hrel
    exact ⟨(shape_reset _).1, (shape_reset _).2, g', a⟩

/-- **`chunk_state_update`** (its three phases: top up and compress a partial buffer, whole blocks straight from the input,
buffer the rest; `memset` of the buffer included): for every chunk state in the representation relation and every
`input_len ≤` the bytes available at `input`, the translated function does not panic and returns the struct representing
the model's `ChunkState::update` - provided the `uint8_t` counter `blocks_compressed` does not wrap, which is the case
whenever the chunk stays within 1024 bytes (second statement) -/
theorem c_chunk_state_update_eq_model {g : blake3_chunk_state} {cs : Rs.ChunkState} (hr : CsRel g cs)
    (input : List UInt8) (input_len : Nat) (hl : input_len ≤ input.length) :
    (cs.blocks + (cs.buf.length + input_len) / 64 < 256 →
      ∃ g', chunk_state_update (envOf K sd junk) g input input_len = .ok g' ∧ CsRel g' (cs.update K (input.take input_len))) ∧
    (cs.count + input_len ≤ 1024 →
      ∃ g', chunk_state_update (envOf K sd junk) g input input_len = .ok g' ∧ CsRel g' (cs.update K (input.take input_len))) :=
  ⟨update_eq K sd junk hr input input_len hl, update_eq_1024 K sd junk hr input input_len hl⟩

/-- **`blake3_hasher_update`** (zero-length early return, finishing a partial chunk, the `while (input_len > BLAKE3_CHUNK_LEN)`
loop with its subtree sizing, the one-chunk case and `compress_subtree_to_parent_node`, the final partial chunk and merge):
for every reachable hasher, every C struct representing it and every input with total length below 2^64, the translated
function does not panic and returns a struct representing the model's `C.update`, which is again reachable -/
theorem c_hasher_update_eq_model {g : blake3_hasher} {h : Rs.Hasher} {n : Nat} (hreach : Reach K sd h n) (hr : HRel g h)
    (input : List UInt8) (input_len : Nat) (hl : input_len ≤ input.length) (htot : n + input_len < 2 ^ 64) :
    ∃ g', blake3_hasher_update (envOf K sd junk) g input input_len = .ok g' ∧
      HRel g' (C.update K sd h (input.take input_len)) ∧
      Reach K sd (C.update K sd h (input.take input_len)) (n + input_len) := by
  obtain ⟨hs, ha, _⟩ := reach_rep K sd hreach
  obtain ⟨g', e, a, _, _⟩ := hasher_update_eq K sd junk hr hs input input_len hl (by rw [ha]; exact htot)
  refine ⟨g', e, a, ?_⟩
  have := Reach.update (K := K) (sd := sd) (input.take input_len) hreach (by rw [List.length_take]; omega)
  rw [List.length_take, Nat.min_eq_left hl] at this
  exact this

/-- **`blake3_hasher_finalize_seek`** (`out_len == 0` early return, the empty-stack case, the stack walk over the byte
array producing the root `output_t`, then `output_root_bytes`): the buffer at `out` receives exactly the model's
`C.finalizeSeek` in its first `out_len` bytes and is unchanged after them -/
theorem c_finalize_seek_eq_model {g : blake3_hasher} {h : Rs.Hasher} {n : Nat} (hreach : Reach K sd h n) (hr : HRel g h)
    (seek : Nat) (out : List UInt8) (out_len : Nat) :
    blake3_hasher_finalize_seek (envOf K sd junk) g seek out out_len = .ok (C.finalizeSeek K h seek out_len ++ out.drop out_len) :=
  finalize_seek_eq K sd junk hr (reach_rep K sd hreach).1 seek out out_len

/-- **`blake3_hasher_reset`**: the reset hasher represents the model's `C.reset`, i.e. a fresh `hasher_init_base` with the
same key and flags (and is reachable again); as a struct it is *equal* to what `hasher_init_base(self, self->key,
self->chunk.flags)` produces - same `key`, same chunk state byte for byte (`cv`, `chunk_counter`, all 64 bytes of `buf`,
`buf_len`, `blocks_compressed`, `flags`), `cv_stack_len = 0`.  The 1760 bytes of `cv_stack` are left stale by both; they are
unobservable, because `HRel` constrains only the first `32 * cv_stack_len = 0` of them and every later read of `cv_stack`
(`c_hasher_update_eq_model`, `c_finalize_seek_eq_model`) is covered by `HRel` alone -/
theorem c_reset_eq_model {g : blake3_hasher} {h : Rs.Hasher} (hr : HRel g h) :
    (∃ g', blake3_hasher_reset (envOf K sd junk) g = .ok g' ∧ HRel g' (C.reset h) ∧ Reach K sd (C.reset h) 0 ∧
      g'.cv_stack = g.cv_stack) ∧
    blake3_hasher_reset (envOf K sd junk) g = hasher_init_base (envOf K sd junk) g g.key g.chunk.flags ∧
    C.reset h = C.initBase h.key h.cs.flags := by
  obtain ⟨g', e, a, b⟩ := hasher_reset_eq K sd junk hr
  have hm : C.reset h = C.initBase h.key h.cs.flags := by
    simp [C.reset, C.initBase, Rs.Hasher.newInternal, hr.t0]
  refine ⟨⟨g', e, a, ?_, b⟩, reset_eq_init_base _ g, hm⟩
  rw [hm]; exact Reach.init _ _

/-- **`blake3_hasher_init`, `blake3_hasher_init_keyed`**: on any (uninitialised) struct with arrays of the declared sizes -/
theorem c_init_eq_model (g : blake3_hasher) (hs : g.sized) (key : List UInt8) (hk : 32 ≤ key.length) :
    (∃ g', blake3_hasher_init (envOf K sd junk) g = .ok g' ∧ HRel g' (C.initBase Spec.IV 0)) ∧
    (∃ g', blake3_hasher_init_keyed (envOf K sd junk) g key = .ok g' ∧ HRel g' (C.initBase (wordsOfBytes 8 key) Spec.KEYED_HASH)) :=
  ⟨init_eq_model _ g hs, init_keyed_eq_model _ g key hs hk⟩

/-- **`blake3_hasher_init_derive_key_raw` / `blake3_hasher_init_derive_key`**: the context goes through a complete
hasher (`hasher_init_base` with DERIVE_KEY_CONTEXT, `blake3_hasher_update`, `blake3_hasher_finalize` of 32 bytes,
`load_key_words`) exactly as in the model's `C.initDeriveKeyRaw`; for the NUL-terminated variant the context is the bytes
before the first NUL -/
theorem c_init_derive_key_eq_model (g : blake3_hasher) (hs : g.sized) :
    (∀ (context : List UInt8) (n : Nat), n ≤ context.length → n < 2 ^ 64 →
      ∃ g', blake3_hasher_init_derive_key_raw (envOf K sd junk) g context n = .ok g' ∧
        HRel g' (C.initDeriveKeyRaw K sd (context.take n))) ∧
    (∀ (s rest : List UInt8), (∀ b ∈ s, b ≠ 0) → s.length < 2 ^ 64 →
      ∃ g', blake3_hasher_init_derive_key (envOf K sd junk) g (s ++ 0 :: rest) = .ok g' ∧
        HRel g' (C.initDeriveKeyRaw K sd s)) :=
  ⟨fun c n => init_derive_key_raw_eq K sd junk g hs c n, fun s r => init_derive_key_eq K sd junk g hs s r⟩

/-! non-vacuity: structs of the declared sizes exist, every history is reachable, and the representation relation is
inhabited for every reachable hasher (`reach_rep`) -/

example : (blake3_hasher.uninit (fun _ => 0)).sized := by
  simp [blake3_hasher.sized, blake3_chunk_state.sized, blake3_hasher.uninit, blake3_chunk_state.uninit, uninitBytes_length]

example (a b : List UInt8) (h : a.length + b.length < 2 ^ 64) :
    Reach K sd (C.update K sd (C.update K sd (C.reset (C.initBase Spec.IV Spec.KEYED_HASH)) a) b) (0 + a.length + b.length) :=
  Reach.update b (Reach.update a (Reach.reset (Reach.init _ _)) (by omega)) (by omega)

/-- the `uint8_t` counters do wrap in the translation (so the hypotheses above are needed) -/
example : (255 : UInt8) + 1 = 0 ∧ (0 : UInt8) - 1 = 255 := by decide

end

end B3.Proofs.CS

