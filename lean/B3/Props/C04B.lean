/-
C04, build configurations: property theorems about build.rs (`B3/Gen/BuildRs.lean`, G35) and the `#[cfg]` gates of the crate
(`B3/Gen/CfgGates.lean`, G36), both translated from the sources.  Thin wrappers: the proofs are in `B3/Proofs/BuildCfg*.lean`.

"The hash is identical whichever implementation the crate ends up using: every instruction-set level, every build flavour, with or
without default features."  What is shown here is the link between a *configuration* and *which code is compiled and dispatched to*:
every environment of the build script leads to one of 60 flavours (`main_closed_form`), each flavour selects exactly one
implementation per instruction set (`build_flavour_exclusive`), compiles exactly the files the enabled FFI modules import from
(`build_files_match_flags`), yields a crate in which every `match self` of `Platform` has one arm per existing variant and every
callee exists (`every_config_compiles_one_arm`), and dispatches only to kernels that are listed with their equality-to-specification
theorem, or as observed (`every_dispatched_kernel_is_verified`).
-/
import B3.Proofs.BuildCfg
import B3.Props.C05
import B3.Props.C05A
import B3.Props.C05B
import B3.Props.C05BW
import B3.Props.C05W
import B3.Props.C05WM
import B3.Props.C05M
import B3.Props.C05MW
import B3.Simd.WasmProps
import B3.Simd.CNeonProps
import B3.Props.C05P
import B3.Simd.Sse41PropsMany
import B3.Simd.Sse2Props
import B3.Simd.Avx2Props
import B3.Simd.CAvx512Props
namespace B3.Props.C04B
open B3 B3.Dispatch B3.BuildCfg B3.Gen.BuildRs B3.Gen.CfgGates B3.Proofs.BuildCfg

/-! ### main theorems -/

/-- for every environment in which build.rs does not panic: the flags it prints and the files it compiles, in order, in closed form -/
theorem main_closed_form (e : Env) (evs : List Event) (h : main e = .ok () evs) :
    cfgNames evs = (flavourOf e).sig.1 ∧ compiledFiles evs = (flavourOf e).sig.2 ∧ (flavourOf e).sig = mainSig e :=
  Proofs.BuildCfg.main_closed_form e evs h

/-- every printed cfg name was declared; every compiled library has the expected compiler flags -/
theorem main_events_wellformed (e : Env) (evs : List Event) (h : main e = .ok () evs) :
    ∀ ev ∈ evs, eventOk (isT (is_windows_msvc e)) (isT (is_windows_gnu e)) (isT (is_armv7 e)) ev = true :=
  Proofs.BuildCfg.main_events_wellformed e evs h

/-- in an environment as cargo provides it, build.rs panics exactly on `pure`+`neon`, `no_neon`+`neon`, `neon` on big-endian -/
theorem main_ok_iff (e : Env) (hc : cargoOk e = true) : (∃ evs, main e = .ok () evs) ↔ rejected e = false :=
  Proofs.BuildCfg.main_ok_iff e hc

/-- at most one of `blake3_L_ffi` / `blake3_L_rust` per level, exactly one on x86; when `blake3_avx512_ffi` is emitted; `pure` compiles no C / assembly -/
theorem build_flavour_exclusive (e : Env) (evs : List Event) (h : main e = .ok () evs) :
    (∀ L ∈ ["sse2", "sse41", "avx2"],
      (cfgNames evs).count ("blake3_" ++ L ++ "_ffi") + (cfgNames evs).count ("blake3_" ++ L ++ "_rust") = if isX86 e then 1 else 0) ∧
    ("blake3_avx512_ffi" ∈ cfgNames evs ↔ (isX86 e = true ∧ fPure e = false ∧ e.c_compiler_support = .YesAVX512)) ∧
    (cfgNames evs).count "blake3_avx512_ffi" ≤ 1 ∧
    (fPure e = true → compiledFiles evs = [] ∧
      ∀ n ∈ ["blake3_sse2_ffi", "blake3_sse41_ffi", "blake3_avx2_ffi", "blake3_avx512_ffi", "blake3_neon"], n ∉ cfgNames evs) :=
  Proofs.BuildCfg.build_flavour_exclusive e evs h

/-- the files compiled define exactly the symbols the enabled `ffi_*` modules import -/
theorem build_files_match_flags (e : Env) (evs : List Event) (b : Build) (h : main e = .ok () evs) (hb : Configured e evs b) :
    FilesMatch b (compiledFiles evs) :=
  Proofs.BuildCfg.build_files_match_flags e evs b h hb

/-- every variant that exists has exactly one arm in every `match self`; every callee's module and function are compiled -/
theorem every_config_compiles_one_arm (e : Env) (evs : List Event) (b : Build) (h : main e = .ok () evs) (hb : Configured e evs b) :
    ArmsOk b ∧ (∀ r ∈ moduleRefs, (inForceF r.file r.gate).eval b = true → (refTargetF r).eval b = true) :=
  Proofs.BuildCfg.every_config_compiles_one_arm e evs b h hb

/-- in every build whatsoever: `Platform::detect` and the constructors name only what exists; one definition per `cfg_if!` constant -/
theorem platform_names_resolve (b : Build) :
    (∀ r ∈ platformRefs, b.on r.gate = true → (platformRefTargetF r).eval b = true) ∧
    (∀ c ∈ platformConsts, countTrue b ((platformConsts.filter (·.1 == c.1)).map (gateF ·.2.1)) = 1) :=
  Proofs.BuildCfg.platform_names_resolve b

/-- the kernels reachable under the selected flavour are in `verifiedKernels` / `observedKernels` (plus `unexercisedKernels` for MASM, NEON, Wasm) -/
theorem every_dispatched_kernel_is_verified (e : Env) (evs : List Event) (b : Build) (h : main e = .ok () evs) (hb : Configured e evs b) :
    (∀ d ∈ libMods, onlyBuildRsCfgs d.gate = true → b.on d.gate = (flavourBuild (flavourOf e)).on d.gate) ∧
    compiledFiles evs = (flavourOf e).sig.2 ∧
    (∀ k ∈ flavourTargets (flavourOf e), k ∈ allowedKernels (flavourOf e)) ∧
    (isX86 e = true → (flavourOf e).os ≠ .windowsMsvc →
      ∀ k ∈ flavourTargets (flavourOf e), k ∈ verifiedKernels.map (·.1) ++ observedKernels) :=
  Proofs.BuildCfg.every_dispatched_kernel_is_verified e evs b h hb

/-- build.rs's feature variables are Cargo.toml features, none is a default feature, the cfg names are declared, the dispatch gates mention no feature -/
theorem features_and_names_declared :
    (∀ v ∈ consultedVars, v ∈ cargoFeatures.map (featureVar ·.1) ∨
      v ∈ ["TARGET", "CARGO_CFG_TARGET_OS", "CARGO_CFG_TARGET_ENDIAN", "CFLAGS"]) ∧
    (∀ f ∈ defaultFeatures, featureVar f ∉ consultedVars) ∧
    (∀ a ∈ allAtoms, atomDeclared a = true) ∧
    (∀ f ∈ allFlavours, ∀ n ∈ f.sig.1, n ∈ main_all_cfgs) ∧
    (∀ a ∈ atoms (impF anyHypF (.and armsF moduleRefsF)), atomIsArchOrFlag a = true) :=
  Proofs.BuildCfg.features_and_names_declared

/-- the three lists contain nothing that no flavour reaches -/
theorem kernel_lists_tight :
    ∀ k ∈ verifiedKernels.map (·.1) ++ observedKernels ++ unexercisedKernels, ∃ f ∈ allFlavours, k ∈ flavourTargets f :=
  Proofs.BuildCfg.kernel_lists_tight

/-- the theorems named in `verifiedKernels` exist (a name that does not resolve is an elaboration error here) -/
def verifiedKernelTheorems : List Lean.Name := [
  ``B3.Props.C05.rs_portable_eq_spec,
  ``B3.Proofs.PortableMany.rs_portable_hash_many_spec,
  ``B3.Simd.sse2_compress_in_place_eq, ``B3.Simd.sse2_compress_xof_eq, ``B3.Simd.sse2_hash_many_eq,
  ``B3.Simd.sse41_compress_in_place_eq, ``B3.Simd.sse41_compress_xof_eq, ``B3.Simd.sse41_hash_many_eq,
  ``B3.Simd.avx2_hash_many_eq,
  ``B3.Simd.C512.c512_compress_in_place, ``B3.Simd.C512.c512_compress_xof, ``B3.Simd.C512.c512_hash_many, ``B3.Simd.C512.c512_xof_many,
  ``B3.Props.C05A.asm_sse41_compress_in_place, ``B3.Props.C05A.asm_sse41_compress_xof,
  ``B3.Props.C05A.asm_sse2_compress_in_place, ``B3.Props.C05A.asm_sse2_compress_xof,
  ``B3.Props.C05B.asm_avx512_compress_in_place, ``B3.Props.C05B.asm_avx512_compress_xof,
  ``B3.Props.C05W.asm_wgnu_sse2_compress_in_place, ``B3.Props.C05W.asm_wgnu_sse2_compress_xof,
  ``B3.Props.C05W.asm_wgnu_sse41_compress_in_place, ``B3.Props.C05W.asm_wgnu_sse41_compress_xof,
  ``B3.Props.C05BW.asm_avx512_wgnu_compress_in_place, ``B3.Props.C05BW.asm_avx512_wgnu_compress_xof,
  ``B3.Props.C05W.asm_msvc_sse41_compress_in_place, ``B3.Props.C05W.asm_msvc_sse41_compress_xof,
  ``B3.Props.C05WM.asm_msvc_sse2_compress_in_place, ``B3.Props.C05WM.asm_msvc_sse2_compress_xof,
  ``B3.Props.C05WM.asm_msvc_avx512_compress_in_place, ``B3.Props.C05WM.asm_msvc_avx512_compress_xof,
  ``B3.Props.C05M.asm_sse41_hash_many, ``B3.Simd.neon_hash_many_eq,
  ``B3.Simd.wasm_compress_in_place_eq, ``B3.Simd.wasm_compress_xof_eq, ``B3.Simd.wasm_hash_many_eq,
  ``B3.Props.C05MW.asm_wgnu_sse41_hash_many]

-- checked when this file is elaborated: the theorem named next to each entry of `verifiedKernels` is one of the above, and vice versa
#guard verifiedKernels.all fun k => (verifiedKernelTheorems.map toString).contains k.2
#guard verifiedKernelTheorems.all fun n => (verifiedKernels.map (·.2)).contains (toString n)

end B3.Props.C04B
