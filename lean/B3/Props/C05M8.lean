/-
C05, the hand-written AVX2 assembly `blake3_hash_many_avx2` (c/blake3_avx2_x86-64_unix.S) at instruction level (G46):
what is proved so far about the translated instruction list `Gen.AsmAvx2Many.hash_many` (1733 instructions) under the
machine semantics `B3/Asm/Avx2Sem.lean`.

EVERYTHING HERE IS PARTIAL (hence the names).  Proved, for all lanes / registers / memory contents, by evaluating the
instruction ranges in the kernel (`kernel_rfl`) over symbolic 32-bit lanes:
  * rounds 2..6 of the 8-way loop (instructions 300..1059, 152 each): the machine state whose YMM0-7, YMM9-15 and spill
    slot `[rsp+0x200]` hold the sixteen state words of EIGHT compressions, transposed (lane i = input i), and whose frame
    holds the sixteen message words of the eight blocks, goes to the state that holds `Spec.round` of every lane with
    the message permuted r-1 times (`asm_avx2_round<r>_partial`, `roundL_get`), and their composition
    `asm_avx2_rounds_2_to_6_partial` (760 instructions), per lane `rounds26`;
  * round 7 together with the feed-forward fused into its last quarter (1060..1218): YMM0-7 then hold the eight new
    chaining values, transposed (`asm_avx2_round7_feedforward_partial`);
  * the prologue's counter vectors (10..28): `[rsp+0x240]` / `[rsp+0x260]` receive vectors whose lane l is the low / high
    word of `counter + l` (or `counter`) for EVERY 64-bit counter (`Avx2.ctr_raw`, `asm_avx2_counter_vectors_partial`).
  * (in `B3/Asm/RunAvx2Many.lean`, by evaluation: `#guard`) the READ SET of the whole routine on concrete calls: the
    tail code reads 16 bytes past the end of the first input of every 2-input pair when `num_inputs % 8` is in 2..7 --
    the C07 known finding of DESIGN.md 8.3 -- and nothing else outside what it may read.

WHAT IS MISSING for `asm_avx2_hash_many` (the statement of `Props/C05M.asm_sse41_hash_many` for this routine):
  1. the theorems are about `frun` = the instruction semantics `execG` instantiated at the frame-separated memory
     (`B3/Asm/Avx2Frame.lean`), not yet about `run` (`execG` at the flat byte memory): the simulation lemma
     (`ManyFrameSim.lean` for the SSE4.1 routine) is not proved for this machine;
  2. round 1 (instructions 148..299; its first quarter also builds rows 3 and 4 of the state from IV, counter vectors,
     block length and flags, with the operands of `xor` / `add` in the other order), the message load + 8x8 transpose
     (36..139), the output transpose and store (1221..1265: piece (c) of the task) and the counter update (1266..1277;
     the same arithmetic as the prologue's with ADD1-masked increments);
  3. the loops (inner loop over blocks, outer loop over groups of 8), the 4-, 2- and 1-input tails (1290..1732), prologue and
     epilogue, and the composition into the `hash_many` contract.
-/
import B3.Asm.Avx2R2
import B3.Asm.Avx2R3
import B3.Asm.Avx2R4
import B3.Asm.Avx2R5
import B3.Asm.Avx2R6
import B3.Asm.Avx2R7F
import B3.Asm.Avx2Ctr
namespace B3.Props.C05M8
open B3 B3.Simd B3.AsmSem B3.AsmSem.Avx2 B3.Gen.AsmAvx2Many
open B3.AsmSem.Many (permN)

/-- instructions 300..451 (round 2 of the 8-way loop): every one of the eight lanes goes through `Spec.round` with the
message permuted 1 time(s) (see `roundL_get`); registers other than YMM0-15, flags, the rest of the frame, the
`blocks*64` slot and all memory outside the frame are unchanged; no fault; `pc` = 452 -/
theorem asm_avx2_round2_partial (rb : UInt64) (S M : L8) (j8 : Y) (f : Vector V4 8) (g : Vector UInt64 16) (z c : Bool)
    (bl : UInt64) (m : Memory) (rd : List (UInt64 × Nat)) :
    ∃ j8' rd', frun rodata rb hash_many 152 (roundS8 S M j8 f g z c bl m rd 300)
      = roundS8 (roundL 1 S M) M j8' f g z c bl m rd' 452 :=
  run_of_roundV8 (r2_raw rb S M j8 f g z c bl m rd)

/-- instructions 452..603 (round 3 of the 8-way loop): every one of the eight lanes goes through `Spec.round` with the
message permuted 2 time(s) (see `roundL_get`); registers other than YMM0-15, flags, the rest of the frame, the
`blocks*64` slot and all memory outside the frame are unchanged; no fault; `pc` = 604 -/
theorem asm_avx2_round3_partial (rb : UInt64) (S M : L8) (j8 : Y) (f : Vector V4 8) (g : Vector UInt64 16) (z c : Bool)
    (bl : UInt64) (m : Memory) (rd : List (UInt64 × Nat)) :
    ∃ j8' rd', frun rodata rb hash_many 152 (roundS8 S M j8 f g z c bl m rd 452)
      = roundS8 (roundL 2 S M) M j8' f g z c bl m rd' 604 :=
  run_of_roundV8 (r3_raw rb S M j8 f g z c bl m rd)

/-- instructions 604..755 (round 4 of the 8-way loop): every one of the eight lanes goes through `Spec.round` with the
message permuted 3 time(s) (see `roundL_get`); registers other than YMM0-15, flags, the rest of the frame, the
`blocks*64` slot and all memory outside the frame are unchanged; no fault; `pc` = 756 -/
theorem asm_avx2_round4_partial (rb : UInt64) (S M : L8) (j8 : Y) (f : Vector V4 8) (g : Vector UInt64 16) (z c : Bool)
    (bl : UInt64) (m : Memory) (rd : List (UInt64 × Nat)) :
    ∃ j8' rd', frun rodata rb hash_many 152 (roundS8 S M j8 f g z c bl m rd 604)
      = roundS8 (roundL 3 S M) M j8' f g z c bl m rd' 756 :=
  run_of_roundV8 (r4_raw rb S M j8 f g z c bl m rd)

/-- instructions 756..907 (round 5 of the 8-way loop): every one of the eight lanes goes through `Spec.round` with the
message permuted 4 time(s) (see `roundL_get`); registers other than YMM0-15, flags, the rest of the frame, the
`blocks*64` slot and all memory outside the frame are unchanged; no fault; `pc` = 908 -/
theorem asm_avx2_round5_partial (rb : UInt64) (S M : L8) (j8 : Y) (f : Vector V4 8) (g : Vector UInt64 16) (z c : Bool)
    (bl : UInt64) (m : Memory) (rd : List (UInt64 × Nat)) :
    ∃ j8' rd', frun rodata rb hash_many 152 (roundS8 S M j8 f g z c bl m rd 756)
      = roundS8 (roundL 4 S M) M j8' f g z c bl m rd' 908 :=
  run_of_roundV8 (r5_raw rb S M j8 f g z c bl m rd)

/-- instructions 908..1059 (round 6 of the 8-way loop): every one of the eight lanes goes through `Spec.round` with the
message permuted 5 time(s) (see `roundL_get`); registers other than YMM0-15, flags, the rest of the frame, the
`blocks*64` slot and all memory outside the frame are unchanged; no fault; `pc` = 1060 -/
theorem asm_avx2_round6_partial (rb : UInt64) (S M : L8) (j8 : Y) (f : Vector V4 8) (g : Vector UInt64 16) (z c : Bool)
    (bl : UInt64) (m : Memory) (rd : List (UInt64 × Nat)) :
    ∃ j8' rd', frun rodata rb hash_many 152 (roundS8 S M j8 f g z c bl m rd 908)
      = roundS8 (roundL 5 S M) M j8' f g z c bl m rd' 1060 :=
  run_of_roundV8 (r6_raw rb S M j8 f g z c bl m rd)


/-- rounds 2..6 on eight lanes as the code computes them -/
def rounds26L (S M : L8) : L8 := roundL 5 (roundL 4 (roundL 3 (roundL 2 (roundL 1 S M) M) M) M) M

/-- rounds 2..6 of the compression function on one lane: the state after round 1 and the (unpermuted) message block -/
def rounds26 (s m : St) : St :=
  Spec.round (Spec.round (Spec.round (Spec.round (Spec.round s (permN 1 m)) (permN 2 m)) (permN 3 m)) (permN 4 m)) (permN 5 m)

theorem rounds26L_get (S M : L8) (i : Fin 8) : (rounds26L S M).get i = rounds26 (S.get i) (M.get i) := by
  simp only [rounds26L, rounds26, roundL_get]

/-- `permN` is the specification's message schedule: `r` applications of `Spec.permute` -/
theorem permN_succ (r : Nat) (m : St) : permN (r + 1) m = Spec.permute (permN r m) := rfl

/-- instructions 300..1059: rounds 2..6 of the 8-way loop in one run of 760 steps; lane `i` of the result is
`rounds26 (S.get i) (M.get i)` (`rounds26L_get`) -/
theorem asm_avx2_rounds_2_to_6_partial (rb : UInt64) (S M : L8) (j8 : Y) (f : Vector V4 8) (g : Vector UInt64 16) (z c : Bool)
    (bl : UInt64) (m : Memory) (rd : List (UInt64 × Nat)) :
    ∃ j8' rd', frun rodata rb hash_many 760 (roundS8 S M j8 f g z c bl m rd 300)
      = roundS8 (rounds26L S M) M j8' f g z c bl m rd' 1060 := by
  obtain ⟨j2, d2, h2⟩ := asm_avx2_round2_partial rb S M j8 f g z c bl m rd
  obtain ⟨j3, d3, h3⟩ := asm_avx2_round3_partial rb (roundL 1 S M) M j2 f g z c bl m d2
  obtain ⟨j4, d4, h4⟩ := asm_avx2_round4_partial rb (roundL 2 (roundL 1 S M) M) M j3 f g z c bl m d3
  obtain ⟨j5, d5, h5⟩ := asm_avx2_round5_partial rb (roundL 3 (roundL 2 (roundL 1 S M) M) M) M j4 f g z c bl m d4
  obtain ⟨j6, d6, h6⟩ := asm_avx2_round6_partial rb (roundL 4 (roundL 3 (roundL 2 (roundL 1 S M) M) M) M) M j5 f g z c bl m d5
  refine ⟨j6, d6, ?_⟩
  rw [show (760 : Nat) = 152 + (152 + (152 + (152 + 152))) from rfl,
    frun_add, h2, frun_add, h3, frun_add, h4, frun_add, h5, h6]
  rfl

/-- instructions 1060..1218: round 7 with the feed-forward the code fuses into its last quarter.  Afterwards YMM`k`
(k = 0..7) holds, for each of the eight lanes, word `k` of `Spec.feedForward` of the state after round 7 (`ffL_get`,
`ffS_spec`, `roundL_get`): the lane's new chaining value, transposed; general purpose registers, flags, memory outside the
frame and the `blocks*64` slot are unchanged; no fault; `pc` = 1219 -/
theorem asm_avx2_round7_feedforward_partial (rb : UInt64) (S M : L8) (j8 : Y) (f : Vector V4 8) (g : Vector UInt64 16)
    (z c : Bool) (bl : UInt64) (m : Memory) (rd : List (UInt64 × Nat)) (k : Fin 8) :
    let t := frun rodata rb hash_many 159 (roundS8 S M j8 f g z c bl m rd 1060)
    t.ymm[k.val]'(by omega) = wideY (ffL (roundL 6 S M)) k.val (by omega)
      ∧ t.gpr = g ∧ t.mem.mem = m ∧ t.mem.blen = bl ∧ t.pc = 1219 ∧ t.status = .running ∧ t.ok = true := by
  have h := r7f_raw rb S M j8 f g z c bl m rd
  simp only [Prod.mk.injEq] at h
  obtain ⟨h0, h1, h2, h3, h4, h5, h6, h7, hg, _, _, hm, hb, hp, hs, ho⟩ := h
  refine ⟨?_, hg, hm, hb, hp, hs, ho⟩
  match k with
  | 0 => exact h0
  | 1 => exact h1
  | 2 => exact h2
  | 3 => exact h3
  | 4 => exact h4
  | 5 => exact h5
  | 6 => exact h6
  | 7 => exact h7

/-- the counter vectors (piece (b)): instructions 10..28 store `proLo8`, `proHi8` of the entry `r8`, `r9` at `[rsp+0x240]`,
`[rsp+0x260]` (`Avx2.ctr_raw`), and lane `l` of these is the low / high word of `counter + l` (incrementing) or of `counter`,
for EVERY 64-bit counter (`Avx2.pro_ctr8`) -/
theorem asm_avx2_counter_vectors_partial (g8 g9 : UInt64) (incr : Bool) (h : g9.toUInt32 = if incr then 1 else 0) (l : Fin 8) :
    laneY (proLo8 g8 g9) l = (g8 + (if incr then UInt64.ofNat l.val else 0)).toUInt32
      ∧ laneY (proHi8 g8 g9) l = ((g8 + (if incr then UInt64.ofNat l.val else 0)) >>> 32).toUInt32 :=
  pro_ctr8 g8 g9 incr h l

#print axioms asm_avx2_round2_partial
#print axioms asm_avx2_round6_partial
#print axioms asm_avx2_rounds_2_to_6_partial
#print axioms rounds26L_get
#print axioms asm_avx2_round7_feedforward_partial
#print axioms asm_avx2_counter_vectors_partial
#print axioms B3.AsmSem.Avx2.ctr_raw

end B3.Props.C05M8
