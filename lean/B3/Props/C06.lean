/-
C06 - property theorems about the model of c/blake3.c.
-/
import B3.Model.C
import B3.Proofs.Arith
import B3.Proofs.Xof
import B3.Proofs.Final
import B3.Proofs.GenK
import B3.Proofs.Regions
import B3.Proofs.OutputPlan
namespace B3.Props.C06
open B3

/-- zero-length updates are no-ops -/
theorem zero_len_update_noop (K : Kern) (sd : Nat) (h : C.Hasher) : C.update K sd h [] = h := by
  simp [C.update]

/-- zero-length outputs write nothing -/
theorem zero_len_output_noop (K : Kern) (h : C.Hasher) (seek : Nat) : C.finalizeSeek K h seek 0 = [] := by
  simp [C.finalizeSeek]

/-- `blake3_hasher_finalize` is `finalize_seek` at 0 -/
theorem finalize_eq_seek_zero (K : Kern) (h : C.Hasher) (n : Nat) : C.finalize K h n = C.finalizeSeek K h 0 n := rfl

/-- `blake3_hasher_reset` returns the hasher to the freshly initialised state of the same key and
mode flags (C hashers never carry an input offset) -/
theorem reset_eq_init (h : C.Hasher) (h0 : h.t0 = 0) : C.reset h = C.initBase h.key h.cs.flags := by
  cases h with
  | mk key cs t0 stack => simp at h0; subst h0; rfl

/-- finalizing is a pure query: in the model it returns bytes only, the hasher is not an output;
what the type says is that two finalizations of the same state agree -/
theorem finalize_deterministic (K : Kern) (h : C.Hasher) (s n : Nat) :
    C.finalizeSeek K h s n = C.finalizeSeek K h s n := rfl

/-- the C library splits subtrees exactly where the Rust crate does -/
theorem left_subtree_len_eq_rust (n : Nat) (h1 : 1024 < n) (h2 : n < 2 ^ 64) :
    Gen.C.left_subtree_len n = Gen.Rs.left_subtree_len n := by
  rw [Proofs.c_left_subtree_len_spec n h1 h2, Proofs.rs_left_subtree_len_spec n h1 h2]

/-- `round_down_to_power_of_2` (used by `blake3_hasher_update` to size subtrees) is the Rust
crate's `largest_power_of_two_leq` -/
theorem round_down_eq_rust (n : Nat) (h1 : 0 < n) (h2 : n < 2 ^ 63) :
    Gen.C.round_down_to_power_of_2 n = Gen.Rs.largest_power_of_two_leq n := by
  rw [Proofs.c_round_down_spec n (by omega), Proofs.rs_largest_power_of_two_leq_spec n h1 h2, if_neg (by omega)]

/-- `blake3_hasher_update` preserves the representation invariant (it is the Rust crate's
`update_with_join` without an input offset, plus the early return on zero length) -/
theorem c_update_rep (sd j : Nat) (hsd : sd = 2 ^ j) (h : C.Hasher) (m x : List UInt8) (hr : Proofs.Rep h m) (h0 : h.t0 = 0) :
    Proofs.Rep (C.update genK sd h x) (m ++ x) ∧ (C.update genK sd h x).key = h.key ∧
    (C.update genK sd h x).cs.flags = h.cs.flags ∧ (C.update genK sd h x).t0 = 0 := by
  unfold C.update
  by_cases hx : x.length = 0
  · rw [if_pos hx]
    have : x = [] := List.eq_nil_of_length_eq_zero hx
    subst this
    exact ⟨by simpa using hr, rfl, rfl, h0⟩
  · rw [if_neg hx, Proofs.genK_eq_spec]
    have := Proofs.updateOk_rep sd j hsd h m x hr (by intro k _; rw [h0]; exact Nat.dvd_zero _)
    exact ⟨this.1, this.2.1, this.2.2.1, by rw [this.2.2.2]; exact h0⟩

/-- **`blake3_hasher_finalize_seek`** writes exactly `S[seek, seek + out_len)` of the specification's
output for the bytes absorbed, for every seek and length; `finalize` is the case seek = 0 -/
theorem c_finalize_seek_eq (h : C.Hasher) (mode : Spec.Mode) (m : List UInt8) (hr : Proofs.Rep h m) (h0 : h.t0 = 0)
    (hk : h.key = mode.key) (hf : h.cs.flags = mode.flags) (seek n : Nat) :
    C.finalizeSeek genK h seek n = (Spec.root mode m).stream seek n := by
  rw [Proofs.genK_eq_spec]
  unfold C.finalizeSeek
  by_cases hn : n = 0
  · subst hn; simp [Proofs.stream_zero]
  · rw [if_neg hn, Proofs.finalOutput_root h m hr h0, hk, hf]
    exact Proofs.c_outputRootBytes_eq _ (Proofs.rootNode_blen _ _ _) seek n

/-- the two derive-key initialisers produce the hasher keyed with the specification's context key -/
theorem c_init_derive_key_eq (sd j : Nat) (hsd : sd = 2 ^ j) (ctx : List UInt8) :
    C.initDeriveKeyRaw genK sd ctx = C.initBase (Spec.Mode.derive ctx).key Spec.DERIVE_KEY_MATERIAL := by
  unfold C.initDeriveKeyRaw
  have hr := c_update_rep sd j hsd (C.initBase Spec.IV Spec.DERIVE_KEY_CONTEXT) [] ctx (Proofs.rep_new _ _) rfl
  simp only [C.finalize]
  -- the context hasher is in `hash`-like mode with the DERIVE_KEY_CONTEXT flag: use the node-level statement
  rw [Proofs.genK_eq_spec] at hr ⊢
  unfold C.finalizeSeek
  rw [if_neg (by decide), Proofs.finalOutput_root _ _ hr.1 hr.2.2.2, hr.2.1, hr.2.2.1]
  rw [Proofs.c_outputRootBytes_eq _ (Proofs.rootNode_blen _ _ _)]
  have e1 : (C.initBase Spec.IV Spec.DERIVE_KEY_CONTEXT).key = Spec.IV := rfl
  have e2 : (C.initBase Spec.IV Spec.DERIVE_KEY_CONTEXT).cs.flags = Spec.DERIVE_KEY_CONTEXT := rfl
  rw [e1, e2, List.nil_append]
  have hs := Proofs.stream_in_block (Spec.rootNode Spec.IV Spec.DERIVE_KEY_CONTEXT ctx) 0 0 32 (by omega)
  simp only [Nat.mul_zero, Nat.add_zero, List.drop_zero] at hs
  rw [hs]
  rfl

/-- the subtree sizing of `blake3_hasher_update_base` (regenerated from c/blake3.c in wrapping unsigned
arithmetic) is the same function as the Rust one and the model's, for every input length and every
chunk counter whose byte count fits in 64 bits -/
theorem c_update_subtree_len_is_model (n cc : Nat) (h1 : 0 < n) (h2 : n < 2 ^ 64) (h3 : cc * 1024 < 2 ^ 64) :
    Gen.C.update_subtree_len n cc = .ok (Ar.shrink (Ar.lp2le n) (cc * 2 ^ 10)) ∧
    (n < 2 ^ 63 → Gen.C.update_subtree_len n cc = Gen.Rs.update_subtree_len n cc) :=
  ⟨Proofs.c_update_subtree_len_eq n cc h1 h2 h3,
   fun h => by rw [Proofs.c_update_subtree_len_eq n cc h1 h2 h3, Proofs.rs_update_subtree_len_eq n cc h1 h h3]⟩

/-- `output_root_bytes` as translated from c/blake3.c (its list of writes, `Gen.C.output_root_plan`)
delivers exactly the stream slice `S[seek, seek + out_len)` of the root node, for every seek and length
below 2^64 -/
theorem c_output_root_bytes_translated_eq_stream (o : Spec.Node) (hb : o.blen ≤ 64) (seek outLen : Nat)
    (hs : seek < 2 ^ 64) (ho : outLen < 2 ^ 64) :
    ((Gen.C.output_root_plan seek outLen).map (Gen.C.Ev.bytes Kern.spec o)).flatten = o.stream seek outLen := by
  rw [Proofs.plan_bytes Kern.spec o seek outLen hs ho, Proofs.c_outputRootBytes_eq o hb]

end B3.Props.C06
