/-
C02 - property theorems: incremental hashing is independent of input splitting; finalize is a
pure query.  All statements are about the executable model `B3.Rs.Hasher` (B3/Model/Rs.lean) run
with the compression function generated from src/portable.rs (`genK`), for every SIMD degree.
-/
import B3.Proofs.Final
import B3.Proofs.GenK
import B3.Proofs.Regions
import B3.Proofs.Skeleton
namespace B3.Props.C02
open B3 B3.Rs

/-- a register of the history machine: a hasher, its mode, and (ghost) the bytes absorbed so far -/
structure Reg where
  h : Hasher
  mode : Spec.Mode
  absorbed : List UInt8

/-- state-changing operations on a bank of registers (queries are not transitions: `finalize`,
`finalize_xof` and `count` take `&self`, and in the model they are functions of the state) -/
inductive Op where
  | new (mode : Spec.Mode)                 -- appends a fresh hasher
  | update (i : Nat) (x : List UInt8)      -- `update` / `Write::write` / `update_reader` pieces
  | clone (i : Nat)                        -- appends a copy of register i
  | reset (i : Nat)

def newReg (sd : Nat) (mode : Spec.Mode) : Reg :=
  { h := Hasher.newInternal (modeKeyWords genK sd mode) (modeFlags mode), mode := mode, absorbed := [] }

def step (sd : Nat) (s : List Reg) : Op → List Reg
  | .new mode => s ++ [newReg sd mode]
  | .update i x => match s[i]? with
    | some r => match r.h.update genK sd x with
      | some h' => s.set i { r with h := h', absorbed := r.absorbed ++ x }
      | none => s
    | none => s
  | .clone i => match s[i]? with
    | some r => s ++ [r]
    | none => s
  | .reset i => match s[i]? with
    | some r => s.set i { r with h := r.h.reset, absorbed := [] }
    | none => s

def run (sd : Nat) (ops : List Op) : List Reg := ops.foldl (step sd) []

/-- what a register must satisfy: the representation invariant for exactly its absorbed bytes -/
def Ok (r : Reg) : Prop :=
  Proofs.Rep r.h r.absorbed ∧ r.h.key = r.mode.key ∧ r.h.cs.flags = r.mode.flags ∧ r.h.t0 = 0

theorem update_total (sd : Nat) (r : Reg) (x : List UInt8) (h0 : r.h.t0 = 0) :
    ∃ h', r.h.update genK sd x = some h' := by
  simp [Hasher.update, maxSubtreeLen, h0]

theorem step_ok (sd j : Nat) (hsd : sd = 2 ^ j) (s : List Reg) (op : Op) (hs : ∀ r ∈ s, Ok r) :
    ∀ r ∈ step sd s op, Ok r := by
  have hK := Proofs.genK_eq_spec
  cases op with
  | new mode =>
    intro r hr
    simp only [step, List.mem_append, List.mem_singleton] at hr
    rcases hr with hr | hr
    · exact hs r hr
    · subst hr
      refine ⟨Proofs.rep_new _ _, ?_, ?_, rfl⟩
      · show modeKeyWords genK sd mode = mode.key
        rw [hK]; exact Proofs.modeKeyWords_eq sd j hsd mode
      · exact Proofs.modeFlags_eq mode
  | update i x =>
    cases hi : s[i]? with
    | none => simp only [step, hi]; exact hs
    | some r0 =>
      have hr0 : r0 ∈ s := List.mem_of_getElem? hi
      obtain ⟨rep, k1, k2, k3⟩ := hs r0 hr0
      cases hu : r0.h.update genK sd x with
      | none => simp only [step, hi, hu]; exact hs
      | some h' =>
        intro r hr
        simp only [step, hi, hu] at hr
        rcases List.mem_or_eq_of_mem_set hr with hr | hr
        · exact hs r hr
        · subst hr
          rw [hK] at hu
          obtain ⟨a, b, c, d⟩ := Proofs.rep_update sd j hsd r0.h h' r0.absorbed x rep hu
          exact ⟨a, by rw [b]; exact k1, by rw [c]; exact k2, by rw [d]; exact k3⟩
  | clone i =>
    cases hi : s[i]? with
    | none => simp only [step, hi]; exact hs
    | some r0 =>
      intro r hr
      simp only [step, hi, List.mem_append, List.mem_singleton] at hr
      rcases hr with hr | hr
      · exact hs r hr
      · subst hr; exact hs _ (List.mem_of_getElem? hi)
  | reset i =>
    cases hi : s[i]? with
    | none => simp only [step, hi]; exact hs
    | some r0 =>
      obtain ⟨_, k1, k2, _⟩ := hs r0 (List.mem_of_getElem? hi)
      intro r hr
      simp only [step, hi] at hr
      rcases List.mem_or_eq_of_mem_set hr with hr | hr
      · exact hs r hr
      · subst hr
        exact ⟨Proofs.rep_new _ _, k1, k2, rfl⟩

/-- every register of every reachable state satisfies the invariant -/
theorem run_ok (sd j : Nat) (hsd : sd = 2 ^ j) (ops : List Op) : ∀ r ∈ run sd ops, Ok r := by
  unfold run
  suffices h : ∀ (s : List Reg), (∀ r ∈ s, Ok r) → ∀ r ∈ ops.foldl (step sd) s, Ok r from
    h [] (by simp)
  induction ops with
  | nil => intro s hs; simpa using hs
  | cons op ops ih => intro s hs; exact ih _ (step_ok sd j hsd s op hs)

/-- **Split independence.** After any history of `new`, `update` (any sizes, any number, any
interleaving between registers), `clone` and `reset`, at every SIMD degree, for every register:
`finalize` returns the specification's hash of exactly the bytes that register has absorbed,
`finalize_xof` reads from the specification's root node (hence the spec's output stream), and
`count()` is the number of bytes absorbed. -/
theorem history_correct (sd j : Nat) (hsd : sd = 2 ^ j) (ops : List Op) (r : Reg) (hr : r ∈ run sd ops) :
    r.h.finalize genK = some (Spec.hash r.mode r.absorbed) ∧
    r.h.finalOutput genK = Spec.root r.mode r.absorbed ∧
    r.h.count = r.absorbed.length := by
  obtain ⟨rep, k1, k2, k3⟩ := run_ok sd j hsd ops r hr
  have hroot : r.h.finalOutput genK = Spec.root r.mode r.absorbed := by
    rw [Proofs.genK_eq_spec, Proofs.finalOutput_root r.h r.absorbed rep k3, k1, k2]; rfl
  refine ⟨?_, hroot, (Proofs.rep_count r.h r.absorbed rep).1⟩
  unfold Hasher.finalize
  rw [if_neg (by simp [k3]), hroot]
  congr 1
  rw [Proofs.genK_eq_spec]
  exact Proofs.rootHash_eq _ (Proofs.rootNode_blen _ _ _)

/-- the same statement for a single hasher and an explicit list of updates: the result depends only
on the concatenation -/
theorem update_split_independent (sd j : Nat) (hsd : sd = 2 ^ j) (mode : Spec.Mode) (xs : List (List UInt8)) :
    ∃ h, xs.foldl (fun (o : Option Hasher) x => o.bind (fun h => h.update genK sd x))
            (some (Hasher.newInternal (modeKeyWords genK sd mode) (modeFlags mode))) = some h ∧
         h.finalize genK = some (Spec.hash mode xs.flatten) ∧ h.count = xs.flatten.length := by
  have key := history_correct sd j hsd (Op.new mode :: xs.map (Op.update 0))
  -- run the machine and read register 0
  have hrun : ∀ (ys : List (List UInt8)) (r : Reg), (∀ q ∈ [r], Ok q) →
      ∃ h, ys.foldl (fun (o : Option Hasher) x => o.bind (fun h => h.update genK sd x)) (some r.h) = some h ∧
        (ys.map (Op.update 0)).foldl (step sd) [r] = [{ r with h := h, absorbed := r.absorbed ++ ys.flatten }] := by
    intro ys
    induction ys with
    | nil => intro r _; exact ⟨r.h, rfl, by simp⟩
    | cons y ys ih =>
      intro r hr
      obtain ⟨h', hu⟩ := update_total sd r y (hr r (by simp)).2.2.2
      have hstep : step sd [r] (Op.update 0 y) = [{ r with h := h', absorbed := r.absorbed ++ y }] := by
        simp [step, hu]
      have hok := step_ok sd j hsd [r] (Op.update 0 y) hr
      rw [hstep] at hok
      obtain ⟨h'', e1, e2⟩ := ih _ hok
      refine ⟨h'', ?_, ?_⟩
      · simp only [List.foldl_cons, Option.bind_some, hu]; exact e1
      · simp only [List.map_cons, List.foldl_cons, hstep, e2]
        simp
  have h0 : ∀ q ∈ [newReg sd mode], Ok q := by
    have := step_ok sd j hsd [] (Op.new mode) (by simp)
    simpa [step] using this
  obtain ⟨h, e1, e2⟩ := hrun xs (newReg sd mode) h0
  have hmem : ({ newReg sd mode with h := h, absorbed := (newReg sd mode).absorbed ++ xs.flatten } : Reg)
      ∈ run sd (Op.new mode :: xs.map (Op.update 0)) := by
    unfold run
    simp only [List.foldl_cons]
    show _ ∈ List.foldl (step sd) ([] ++ [newReg sd mode]) _
    rw [List.nil_append, e2]; simp
  obtain ⟨a, _, c⟩ := key _ hmem
  exact ⟨h, e1, by simpa [newReg] using a, by simpa [newReg] using c⟩

/-- non-vacuity: a concrete history -/
example : (run 4 [Op.new .hash, Op.clone 0, Op.reset 1]).length = 2 := by
  simp [run, step]

/-- **Subtree sizing, tied to the source.** The arithmetic with which `update_with_join` chooses how
many bytes to hash next (`largest_power_of_two_leq(input.len())`, `count_so_far`, the `while`
shrink loop) is regenerated from src/lib.rs on every run in checked u64 arithmetic
(`Gen.Rs.update_subtree_len`). For every input length below 2^63 and every chunk counter whose byte
count fits in 64 bits it never overflows, never runs out of its 64 iterations, and returns exactly the
`shrink (lp2le n) (cc * 1024)` that the model's loop (`Hs.loop`, hence `history_correct`) uses. -/
theorem update_subtree_len_is_model (n cc : Nat) (h1 : 0 < n) (h2 : n < 2 ^ 63) (h3 : cc * 1024 < 2 ^ 64) :
    Gen.Rs.update_subtree_len n cc = .ok (Ar.shrink (Ar.lp2le n) (cc * 2 ^ 10)) :=
  Proofs.rs_update_subtree_len_eq n cc h1 h2 h3

/-- what that value is: a power-of-two number of chunks, no longer than the input, dividing the
number of chunks absorbed so far (which is what keeps the CV stack's binary-counter invariant) -/
theorem update_subtree_len_spec (n cc : Nat) (hn : 1024 < n) (h2 : n < 2 ^ 63) (h3 : cc * 1024 < 2 ^ 64) :
    ∃ k, Gen.Rs.update_subtree_len n cc = .ok (2 ^ k * 1024) ∧ 2 ^ k * 1024 ≤ n ∧ 2 ^ k ∣ cc := by
  obtain ⟨k, e1, e2, e3⟩ := Hs.subtree_len_spec 10 cc n (by simpa using hn)
  refine ⟨k, ?_, by simpa using e2, e3⟩
  rw [update_subtree_len_is_model n cc (by omega) h2 h3, e1]

example : Gen.Rs.update_subtree_len 5000 3 = .ok 1024 ∧ Gen.Rs.update_subtree_len 5000 4 = .ok 4096 := by decide

/-! ### the control skeleton of `Hasher`, tied to the source

`Hasher::merge_cv_stack`, `push_cv` and `final_output` are translated from src/lib.rs statement by
statement on every run (`Gen.Rs.Skel`: `while` loops as fuel loops, `cv_stack.pop().unwrap()` and
`cv_stack[i]` as operations that panic when the real ones would, u64 arithmetic checked). -/

/-- on every reachable state - any mode, any update history, any input offset - the translated
`final_output` does not panic and is the model's `finalOutput`, i.e. (by `history_correct`) the root
node of the specification for the bytes absorbed -/
theorem final_output_translated (h : Hasher) (m : List UInt8) (hr : Proofs.Rep h m) :
    Gen.Rs.Skel.final_output (parentOutput h.key h.cs.flags) (chain genK) h.stack h.cs.output h.cs.count
      = .ok (h.finalOutput genK) :=
  Proofs.final_output_eq genK h (Proofs.rep_final_ok h m hr)

/-- the translated `merge_cv_stack` / `push_cv` are the model's, and do not panic, whenever the chunk
counter passed is beyond the hasher's initial one (or the stack is empty) - which is how
`update_with_join` calls them -/
theorem merge_push_translated (h : Hasher) (cv : CV) (t : Nat) (h1 : h.t0 ≤ t) (h2 : h.t0 < t ∨ h.stack = []) :
    Gen.Rs.Skel.merge_cv_stack (parentOutput h.key h.cs.flags) (chain genK) h.stack h.t0 t = .ok (h.mergeCvStack genK t).stack ∧
    Gen.Rs.Skel.push_cv (parentOutput h.key h.cs.flags) (chain genK) h.stack h.t0 cv t = .ok (h.pushCv genK cv t).stack :=
  ⟨Proofs.merge_cv_stack_model genK h t h1 h2, Proofs.push_cv_model genK h cv t h1 h2⟩

/-- the one state where the real `merge_cv_stack` panics (second `unwrap` on an empty stack): a single
entry and a target of zero - stated so that the hypothesis above is seen to be needed -/
example (x : CV) : Gen.Rs.Skel.merge_cv_stack (parentOutput x 0) (chain genK) [x] 5 5 = .panic := by
  unfold Gen.Rs.Skel.merge_cv_stack Gen.Rs.Skel.merge_cv_stack_loop Gen.Rs.Skel.merge_cv_stack_loop
  simp [Arith.csub, Arith.popcnt, Arith.pop, bind]

end B3.Props.C02
