/-
C05 (assembly, Windows-GNU flavour) - property theorems: the hand-written assembly routines
`blake3_compress_in_place_sse41`, `blake3_compress_xof_sse41` (c/blake3_sse41_x86-64_windows_gnu.S) and
`blake3_compress_in_place_sse2`, `blake3_compress_xof_sse2` (c/blake3_sse2_x86-64_windows_gnu.S), as
instruction lists translated from the source text (`B3.Gen.AsmSse41Wgnu`, `B3.Gen.AsmSse2Wgnu`) and run
by the machine semantics `B3/Asm/WinSem.lean` (= `B3/Asm/Sse.lean` + `sub/add r64, imm`, byte and
quadword loads; `Win.run rb prog n s` = `n` fetch-execute steps from state `s`, `rb` = where the loader
put the file's `.rdata` section), compute the specification's compression function AND obey the Win64
calling convention, for ALL register and memory contents at the entry point that satisfy `Entry`.

Arguments (Win64): rcx = cv, rdx = block, r8b = block_len, r9 = counter, `flagsArg s` = the byte at
`[rsp + 0x28]` = flags, `outArg s` = the quadword at `[rsp + 0x30]` = out (rsp = its value at entry,
pointing at the return address).

`Entry rb s` (`B3.AsmSem.Win.EntryW`) = `s` is at the routine's first instruction, has not faulted, memory
holds the file's `.rdata` bytes at the 64-byte aligned address `rb`, `rsp ≡ 8 (mod 16)`, and the FRAME
`[rsp - 120, rsp - 8)` -- the 112 bytes the routine writes below the stack pointer before it reads
anything -- has no byte in common (`Apart`, addresses mod 2^64) with the `.rdata` section, the 32 bytes at
cv, the 64 bytes at block; `EntryXof` adds: nor with the 64 bytes at out.  Nothing else: cv, block,
out and the tables may overlap each other; the registers hold anything.

`frameBase s` = `rsp - 120` (`frameBase_eq`), the stack pointer inside the routine.
`frameMem s` = entry memory with `savedBytes s` (XMM6, 7, 8, 9, 11, 14, 15 of the entry state, 16 bytes
each) written at `frameBase s`; `writeBytes m p bs` = `m` with the bytes `bs` at `p, p+1, ..` and every
other byte unchanged; `readWords m p n` = `n` little-endian doublewords at `p`.
So: memory afterwards = memory before, except the output bytes (= the specification's value) and
exactly the 112 frame bytes (= the saved registers); see `asm_wgnu_sse41_compress_in_place_memory`.
-/
import B3.Asm.WgnuSse41XofProof
import B3.Asm.WgnuSse2XofProof
import B3.Asm.WmsvcSse41XofProof
namespace B3.Props.C05W
open B3 B3.AsmSem B3.AsmSem.Win

/-- `blake3_compress_in_place_sse41` (Windows-GNU): returns after exactly 485 instructions without a fault; the 32
bytes at `cv` become `first8 (Spec.compress cv block counter block_len flags)` (block_len = `r8b`, flags = the byte in the
fifth argument's stack slot: bits above the 8-bit arguments are not used); the only other bytes of memory that change
are the 112 frame bytes; `rsp` is popped; all general purpose registers but rax, r8, rsp -- so the Win64 callee-saved
rbx, rbp, rdi, rsi, r12-r15 -- and XMM6-XMM15 hold their entry values -/
theorem asm_wgnu_sse41_compress_in_place (rb : UInt64) (s : State) (h : Win.Sse41.Entry rb s) :
    (Win.run rb Gen.AsmSse41Wgnu.compress_in_place 485 s).status = .returned ∧
    (Win.run rb Gen.AsmSse41Wgnu.compress_in_place 485 s).ok = true ∧
    (Win.run rb Gen.AsmSse41Wgnu.compress_in_place 485 s).mem
      = writeBytes (frameMem s) s.gpr[rcx] (bytesOfWords (first8 (Spec.compress (readWords s.mem s.gpr[rcx] 8)
          (readWords s.mem s.gpr[rdx] 16) s.gpr[r9] s.gpr[r8].toUInt8.toUInt32 (flagsArg s).toUInt32))) ∧
    (Win.run rb Gen.AsmSse41Wgnu.compress_in_place 485 s).gpr[rsp] = s.gpr[rsp] + 8 ∧
    (∀ r : Reg, r ≠ rax → r ≠ r8 → r ≠ rsp → (Win.run rb Gen.AsmSse41Wgnu.compress_in_place 485 s).gpr[r] = s.gpr[r]) ∧
    ∀ i : Fin 16, 6 ≤ i.val → (Win.run rb Gen.AsmSse41Wgnu.compress_in_place 485 s).xmm[i] = s.xmm[i] :=
  Win.Sse41.compress_in_place_correct rb s h

/-- the memory clause of `asm_wgnu_sse41_compress_in_place` byte by byte, in terms of the entry memory only: the eight
words at `cv` afterwards; every byte that is neither one of the 32 at `cv` nor one of the 112 at `rsp - 120` is
unchanged; the 112 bytes at `rsp - 120` hold the saved registers (the 8 bytes `[rsp - 8, rsp)` of the 120-byte frame are
not written) -/
theorem asm_wgnu_sse41_compress_in_place_memory (rb : UInt64) (s : State) (h : Win.Sse41.Entry rb s) :
    readWords (Win.run rb Gen.AsmSse41Wgnu.compress_in_place 485 s).mem s.gpr[rcx] 8
      = first8 (Spec.compress (readWords s.mem s.gpr[rcx] 8) (readWords s.mem s.gpr[rdx] 16) s.gpr[r9]
          s.gpr[r8].toUInt8.toUInt32 (flagsArg s).toUInt32) ∧
    (∀ q : UInt64, 32 ≤ (q - s.gpr[rcx]).toNat → 112 ≤ (q - frameBase s).toNat →
      (Win.run rb Gen.AsmSse41Wgnu.compress_in_place 485 s).mem q = s.mem q) ∧
    ∀ k : Nat, k < 112 →
      (Win.run rb Gen.AsmSse41Wgnu.compress_in_place 485 s).mem (frameBase s + UInt64.ofNat k) = (savedBytes s).getD k 0 :=
  Win.Sse41.compress_in_place_correct_words rb s h

/-- `blake3_compress_xof_sse41` (Windows-GNU): returns after exactly 492 instructions without a fault; the 64 bytes at
`out` become `Spec.compress cv block counter block_len flags`; the only other bytes of memory that change are the 112
frame bytes; `rsp` is popped; all general purpose registers but rax, r8, r10, rsp and XMM6-XMM15 hold their entry values -/
theorem asm_wgnu_sse41_compress_xof (rb : UInt64) (s : State) (h : Win.Sse41.EntryXof rb s) :
    (Win.run rb Gen.AsmSse41Wgnu.compress_xof 492 s).status = .returned ∧
    (Win.run rb Gen.AsmSse41Wgnu.compress_xof 492 s).ok = true ∧
    (Win.run rb Gen.AsmSse41Wgnu.compress_xof 492 s).mem
      = writeBytes (frameMem s) (outArg s) (bytesOfWords (Spec.compress (readWords s.mem s.gpr[rcx] 8)
          (readWords s.mem s.gpr[rdx] 16) s.gpr[r9] s.gpr[r8].toUInt8.toUInt32 (flagsArg s).toUInt32)) ∧
    (Win.run rb Gen.AsmSse41Wgnu.compress_xof 492 s).gpr[rsp] = s.gpr[rsp] + 8 ∧
    (∀ r : Reg, r ≠ rax → r ≠ r8 → r ≠ r10 → r ≠ rsp → (Win.run rb Gen.AsmSse41Wgnu.compress_xof 492 s).gpr[r] = s.gpr[r]) ∧
    ∀ i : Fin 16, 6 ≤ i.val → (Win.run rb Gen.AsmSse41Wgnu.compress_xof 492 s).xmm[i] = s.xmm[i] :=
  Win.Sse41Xof.compress_xof_correct rb s h

/-- the memory clause of `asm_wgnu_sse41_compress_xof` byte by byte -/
theorem asm_wgnu_sse41_compress_xof_memory (rb : UInt64) (s : State) (h : Win.Sse41.EntryXof rb s) :
    readWords (Win.run rb Gen.AsmSse41Wgnu.compress_xof 492 s).mem (outArg s) 16
      = Spec.compress (readWords s.mem s.gpr[rcx] 8) (readWords s.mem s.gpr[rdx] 16) s.gpr[r9]
          s.gpr[r8].toUInt8.toUInt32 (flagsArg s).toUInt32 ∧
    (∀ q : UInt64, 64 ≤ (q - outArg s).toNat → 112 ≤ (q - frameBase s).toNat →
      (Win.run rb Gen.AsmSse41Wgnu.compress_xof 492 s).mem q = s.mem q) ∧
    ∀ k : Nat, k < 112 →
      (Win.run rb Gen.AsmSse41Wgnu.compress_xof 492 s).mem (frameBase s + UInt64.ofNat k) = (savedBytes s).getD k 0 :=
  Win.Sse41Xof.compress_xof_correct_words rb s h

/-- `blake3_compress_in_place_sse2` (Windows-GNU; 569 instructions), as `asm_wgnu_sse41_compress_in_place` -/
theorem asm_wgnu_sse2_compress_in_place (rb : UInt64) (s : State) (h : Win.Sse2.Entry rb s) :
    (Win.run rb Gen.AsmSse2Wgnu.compress_in_place 569 s).status = .returned ∧
    (Win.run rb Gen.AsmSse2Wgnu.compress_in_place 569 s).ok = true ∧
    (Win.run rb Gen.AsmSse2Wgnu.compress_in_place 569 s).mem
      = writeBytes (frameMem s) s.gpr[rcx] (bytesOfWords (first8 (Spec.compress (readWords s.mem s.gpr[rcx] 8)
          (readWords s.mem s.gpr[rdx] 16) s.gpr[r9] s.gpr[r8].toUInt8.toUInt32 (flagsArg s).toUInt32))) ∧
    (Win.run rb Gen.AsmSse2Wgnu.compress_in_place 569 s).gpr[rsp] = s.gpr[rsp] + 8 ∧
    (∀ r : Reg, r ≠ rax → r ≠ r8 → r ≠ rsp → (Win.run rb Gen.AsmSse2Wgnu.compress_in_place 569 s).gpr[r] = s.gpr[r]) ∧
    ∀ i : Fin 16, 6 ≤ i.val → (Win.run rb Gen.AsmSse2Wgnu.compress_in_place 569 s).xmm[i] = s.xmm[i] :=
  Win.Sse2.compress_in_place_correct rb s h

/-- the memory clause of `asm_wgnu_sse2_compress_in_place` byte by byte -/
theorem asm_wgnu_sse2_compress_in_place_memory (rb : UInt64) (s : State) (h : Win.Sse2.Entry rb s) :
    readWords (Win.run rb Gen.AsmSse2Wgnu.compress_in_place 569 s).mem s.gpr[rcx] 8
      = first8 (Spec.compress (readWords s.mem s.gpr[rcx] 8) (readWords s.mem s.gpr[rdx] 16) s.gpr[r9]
          s.gpr[r8].toUInt8.toUInt32 (flagsArg s).toUInt32) ∧
    (∀ q : UInt64, 32 ≤ (q - s.gpr[rcx]).toNat → 112 ≤ (q - frameBase s).toNat →
      (Win.run rb Gen.AsmSse2Wgnu.compress_in_place 569 s).mem q = s.mem q) ∧
    ∀ k : Nat, k < 112 →
      (Win.run rb Gen.AsmSse2Wgnu.compress_in_place 569 s).mem (frameBase s + UInt64.ofNat k) = (savedBytes s).getD k 0 :=
  Win.Sse2.compress_in_place_correct_words rb s h

/-- `blake3_compress_xof_sse2` (Windows-GNU; 576 instructions), as `asm_wgnu_sse41_compress_xof` -/
theorem asm_wgnu_sse2_compress_xof (rb : UInt64) (s : State) (h : Win.Sse2.EntryXof rb s) :
    (Win.run rb Gen.AsmSse2Wgnu.compress_xof 576 s).status = .returned ∧
    (Win.run rb Gen.AsmSse2Wgnu.compress_xof 576 s).ok = true ∧
    (Win.run rb Gen.AsmSse2Wgnu.compress_xof 576 s).mem
      = writeBytes (frameMem s) (outArg s) (bytesOfWords (Spec.compress (readWords s.mem s.gpr[rcx] 8)
          (readWords s.mem s.gpr[rdx] 16) s.gpr[r9] s.gpr[r8].toUInt8.toUInt32 (flagsArg s).toUInt32)) ∧
    (Win.run rb Gen.AsmSse2Wgnu.compress_xof 576 s).gpr[rsp] = s.gpr[rsp] + 8 ∧
    (∀ r : Reg, r ≠ rax → r ≠ r8 → r ≠ r10 → r ≠ rsp → (Win.run rb Gen.AsmSse2Wgnu.compress_xof 576 s).gpr[r] = s.gpr[r]) ∧
    ∀ i : Fin 16, 6 ≤ i.val → (Win.run rb Gen.AsmSse2Wgnu.compress_xof 576 s).xmm[i] = s.xmm[i] :=
  Win.Sse2Xof.compress_xof_correct rb s h

/-- the memory clause of `asm_wgnu_sse2_compress_xof` byte by byte -/
theorem asm_wgnu_sse2_compress_xof_memory (rb : UInt64) (s : State) (h : Win.Sse2.EntryXof rb s) :
    readWords (Win.run rb Gen.AsmSse2Wgnu.compress_xof 576 s).mem (outArg s) 16
      = Spec.compress (readWords s.mem s.gpr[rcx] 8) (readWords s.mem s.gpr[rdx] 16) s.gpr[r9]
          s.gpr[r8].toUInt8.toUInt32 (flagsArg s).toUInt32 ∧
    (∀ q : UInt64, 64 ≤ (q - outArg s).toNat → 112 ≤ (q - frameBase s).toNat →
      (Win.run rb Gen.AsmSse2Wgnu.compress_xof 576 s).mem q = s.mem q) ∧
    ∀ k : Nat, k < 112 →
      (Win.run rb Gen.AsmSse2Wgnu.compress_xof 576 s).mem (frameBase s + UInt64.ofNat k) = (savedBytes s).getD k 0 :=
  Win.Sse2Xof.compress_xof_correct_words rb s h

/-! ### the MSVC (MASM syntax) flavour of the SSE4.1 file, c/blake3_sse41_x86-64_windows_msvc.asm

Translated by the MASM front end gen/ext_asm_msvc.py into `B3.Gen.AsmSse41Msvc`.  Not assembled or run here (no MASM
assembler on the machine): what ties it to the CPU is `asm_msvc_is_wgnu_relocated` -- its instruction lists are those of
the Windows-GNU file (which are run against the CPU) except for where ROT16 / ROT8 lie in `.rdata`. -/

/-- `blake3_compress_in_place_sse41` (MSVC flavour; 485 instructions), as `asm_wgnu_sse41_compress_in_place` -/
theorem asm_msvc_sse41_compress_in_place (rb : UInt64) (s : State) (h : Win.MsvcSse41.Entry rb s) :
    (Win.run rb Gen.AsmSse41Msvc.compress_in_place 485 s).status = .returned ∧
    (Win.run rb Gen.AsmSse41Msvc.compress_in_place 485 s).ok = true ∧
    (Win.run rb Gen.AsmSse41Msvc.compress_in_place 485 s).mem
      = writeBytes (frameMem s) s.gpr[rcx] (bytesOfWords (first8 (Spec.compress (readWords s.mem s.gpr[rcx] 8)
          (readWords s.mem s.gpr[rdx] 16) s.gpr[r9] s.gpr[r8].toUInt8.toUInt32 (flagsArg s).toUInt32))) ∧
    (Win.run rb Gen.AsmSse41Msvc.compress_in_place 485 s).gpr[rsp] = s.gpr[rsp] + 8 ∧
    (∀ r : Reg, r ≠ rax → r ≠ r8 → r ≠ rsp → (Win.run rb Gen.AsmSse41Msvc.compress_in_place 485 s).gpr[r] = s.gpr[r]) ∧
    ∀ i : Fin 16, 6 ≤ i.val → (Win.run rb Gen.AsmSse41Msvc.compress_in_place 485 s).xmm[i] = s.xmm[i] :=
  Win.MsvcSse41.compress_in_place_correct rb s h

/-- `blake3_compress_xof_sse41` (MSVC flavour; 492 instructions), as `asm_wgnu_sse41_compress_xof` -/
theorem asm_msvc_sse41_compress_xof (rb : UInt64) (s : State) (h : Win.MsvcSse41.EntryXof rb s) :
    (Win.run rb Gen.AsmSse41Msvc.compress_xof 492 s).status = .returned ∧
    (Win.run rb Gen.AsmSse41Msvc.compress_xof 492 s).ok = true ∧
    (Win.run rb Gen.AsmSse41Msvc.compress_xof 492 s).mem
      = writeBytes (frameMem s) (outArg s) (bytesOfWords (Spec.compress (readWords s.mem s.gpr[rcx] 8)
          (readWords s.mem s.gpr[rdx] 16) s.gpr[r9] s.gpr[r8].toUInt8.toUInt32 (flagsArg s).toUInt32)) ∧
    (Win.run rb Gen.AsmSse41Msvc.compress_xof 492 s).gpr[rsp] = s.gpr[rsp] + 8 ∧
    (∀ r : Reg, r ≠ rax → r ≠ r8 → r ≠ r10 → r ≠ rsp → (Win.run rb Gen.AsmSse41Msvc.compress_xof 492 s).gpr[r] = s.gpr[r]) ∧
    ∀ i : Fin 16, 6 ≤ i.val → (Win.run rb Gen.AsmSse41Msvc.compress_xof 492 s).xmm[i] = s.xmm[i] :=
  Win.MsvcSse41Xof.compress_xof_correct rb s h

/-- the memory clauses byte by byte (MSVC flavour) -/
theorem asm_msvc_sse41_memory (rb : UInt64) (s : State) :
    (Win.MsvcSse41.Entry rb s →
      readWords (Win.run rb Gen.AsmSse41Msvc.compress_in_place 485 s).mem s.gpr[rcx] 8
        = first8 (Spec.compress (readWords s.mem s.gpr[rcx] 8) (readWords s.mem s.gpr[rdx] 16) s.gpr[r9]
            s.gpr[r8].toUInt8.toUInt32 (flagsArg s).toUInt32) ∧
      (∀ q : UInt64, 32 ≤ (q - s.gpr[rcx]).toNat → 112 ≤ (q - frameBase s).toNat →
        (Win.run rb Gen.AsmSse41Msvc.compress_in_place 485 s).mem q = s.mem q) ∧
      ∀ k : Nat, k < 112 →
        (Win.run rb Gen.AsmSse41Msvc.compress_in_place 485 s).mem (frameBase s + UInt64.ofNat k) = (savedBytes s).getD k 0) ∧
    (Win.MsvcSse41.EntryXof rb s →
      readWords (Win.run rb Gen.AsmSse41Msvc.compress_xof 492 s).mem (outArg s) 16
        = Spec.compress (readWords s.mem s.gpr[rcx] 8) (readWords s.mem s.gpr[rdx] 16) s.gpr[r9]
            s.gpr[r8].toUInt8.toUInt32 (flagsArg s).toUInt32 ∧
      (∀ q : UInt64, 64 ≤ (q - outArg s).toNat → 112 ≤ (q - frameBase s).toNat →
        (Win.run rb Gen.AsmSse41Msvc.compress_xof 492 s).mem q = s.mem q) ∧
      ∀ k : Nat, k < 112 →
        (Win.run rb Gen.AsmSse41Msvc.compress_xof 492 s).mem (frameBase s + UInt64.ofNat k) = (savedBytes s).getD k 0) :=
  ⟨Win.MsvcSse41.compress_in_place_correct_words rb s, Win.MsvcSse41Xof.compress_xof_correct_words rb s⟩

/-- moving the two table references of the MSVC file to where the Windows-GNU file has ROT16 / ROT8 -/
def relocateMsvc : WInstr → WInstr
  | .base ⟨mn, ops⟩ => .base ⟨mn, ops.map fun o => match o with
      | .rip 128 => .rip 16
      | .rip 144 => .rip 32
      | o => o⟩
  | i => i

set_option maxRecDepth 20000 in
/-- the MSVC routines are, instruction for instruction, the Windows-GNU routines, except for the offsets of ROT16 / ROT8
in the read-only data section (128 / 144 in the MSVC file, 16 / 32 in the GNU file); and the three tables hold the same values -/
theorem asm_msvc_is_wgnu_relocated :
    Gen.AsmSse41Msvc.compress_in_place.map relocateMsvc = Gen.AsmSse41Wgnu.compress_in_place ∧
    Gen.AsmSse41Msvc.compress_xof.map relocateMsvc = Gen.AsmSse41Wgnu.compress_xof ∧
    Gen.AsmSse41Msvc.BLAKE3_IV = Gen.AsmSse41Wgnu.BLAKE3_IV ∧ Gen.AsmSse41Msvc.ROT16 = Gen.AsmSse41Wgnu.ROT16 ∧
    Gen.AsmSse41Msvc.ROT8 = Gen.AsmSse41Wgnu.ROT8 := by
  refine ⟨by decide, by decide, rfl, rfl, rfl⟩

/-- the entry conditions are satisfiable: concrete states (tables at 0x30040, cv at 0x10008, block at 0x20001, out at 0x40004,
`rsp = 0x7fff0008`) satisfy `EntryXof` (hence `Entry`) for the three files -/
theorem asm_wgnu_entry_witness :
    Win.Sse41.EntryXof 0x30040 Win.Sse41.exampleState ∧ Win.Sse2.EntryXof 0x30040 Win.Sse2.exampleState ∧
    Win.MsvcSse41.EntryXof 0x30040 Win.MsvcSse41.exampleState :=
  ⟨Win.Sse41.exampleState_entry, Win.Sse2.exampleState_entry, Win.MsvcSse41.exampleState_entry⟩

/-- `frameBase s` is the entry stack pointer minus 120 -/
theorem asm_wgnu_frameBase (s : State) : frameBase s = s.gpr[rsp] - 120 := frameBase_eq s

/-- what `Apart` means: a byte of the first range is not a byte of the second (and conversely, by symmetry of the definition) -/
theorem asm_wgnu_apart_disjoint (a : UInt64) (la : Nat) (b : UInt64) (lb : Nat) (h : Apart a la b lb) (q : UInt64)
    (ha : (q - a).toNat < la) : lb ≤ (q - b).toNat :=
  h.disjoint q ha

/-- the step counts are exact and more fuel changes nothing (the machine has returned) -/
theorem asm_wgnu_fuel (rb : UInt64) (s : State) (n : Nat) :
    (Win.Sse41.Entry rb s → Win.run rb Gen.AsmSse41Wgnu.compress_in_place (485 + n) s = Win.run rb Gen.AsmSse41Wgnu.compress_in_place 485 s) ∧
    (Win.Sse41.EntryXof rb s → Win.run rb Gen.AsmSse41Wgnu.compress_xof (492 + n) s = Win.run rb Gen.AsmSse41Wgnu.compress_xof 492 s) ∧
    (Win.Sse2.Entry rb s → Win.run rb Gen.AsmSse2Wgnu.compress_in_place (569 + n) s = Win.run rb Gen.AsmSse2Wgnu.compress_in_place 569 s) ∧
    (Win.Sse2.EntryXof rb s → Win.run rb Gen.AsmSse2Wgnu.compress_xof (576 + n) s = Win.run rb Gen.AsmSse2Wgnu.compress_xof 576 s) :=
  ⟨fun h => Win.Sse41.compress_in_place_fuel rb s h n, fun h => Win.Sse41Xof.compress_xof_fuel rb s h n,
   fun h => Win.Sse2.compress_in_place_fuel rb s h n, fun h => Win.Sse2Xof.compress_xof_fuel rb s h n⟩

/-- `ok = true` at the end of a run means that no prefix of the run faulted -/
theorem asm_wgnu_no_fault_on_the_way (rb : UInt64) (prog : List WInstr) (a b : Nat) (s : State)
    (h : (Win.run rb prog (a + b) s).ok = true) : (Win.run rb prog a s).ok = true :=
  Win.run_ok_prefix rb prog a b s h

end B3.Props.C05W
