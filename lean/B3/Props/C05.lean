/-
C05 - property theorems: the portable kernels (Rust and reference; generated from the sources)
equal the specification's compression function; the many-input / many-output kernels are, by
contract, iterations of it; lane counters.
-/
import B3.Proofs.Compress
import B3.Proofs.Chunk
import B3.Proofs.OneShot
import B3.Proofs.GenK
namespace B3.Props.C05
open B3 B3.Rs

/-- src/portable.rs `compress_in_place` / `compress_xof` = the specification's compression function,
for all chaining values, blocks, block lengths (every u8), counters and flag bytes -/
theorem rs_portable_eq_spec (cv : CV) (block : St) (bl : UInt8) (t : UInt64) (fl : UInt8) :
    Gen.Rs.compress_xof cv block bl t fl = Spec.compress cv block t bl.toUInt32 fl.toUInt32 ∧
    Gen.Rs.compress_in_place cv block bl t fl = first8 (Spec.compress cv block t bl.toUInt32 fl.toUInt32) :=
  ⟨Proofs.rs_compress_xof_eq cv block bl t fl, Proofs.rs_compress_in_place_eq cv block bl t fl⟩

/-- reference_impl.rs `compress` = the specification's compression function -/
theorem ref_compress_eq_spec (cv : CV) (m : St) (t : UInt64) (b d : UInt32) :
    Gen.Ref.compress cv m t b d = Spec.compress cv m t b d := Proofs.ref_compress_eq cv m t b d

/-- c/blake3_portable.c `blake3_compress_in_place_portable` / `blake3_compress_xof_portable` = the
specification's compression function (so the C library's portable kernels equal the Rust ones) -/
theorem c_portable_eq_spec (cv : CV) (block : St) (bl : UInt8) (t : UInt64) (fl : UInt8) :
    Gen.C.compress_xof cv block bl t fl = Spec.compress cv block t bl.toUInt32 fl.toUInt32 ∧
    Gen.C.compress_in_place cv block bl t fl = first8 (Spec.compress cv block t bl.toUInt32 fl.toUInt32) ∧
    Gen.C.compress_xof cv block bl t fl = Gen.Rs.compress_xof cv block bl t fl :=
  ⟨Proofs.c_compress_xof_eq cv block bl t fl, Proofs.c_compress_in_place_eq cv block bl t fl,
   by rw [Proofs.c_compress_xof_eq, Proofs.rs_compress_xof_eq]⟩

/-- `MSG_SCHEDULE[r]` is the r-th power of the message permutation -/
theorem msg_schedule_is_permutation_power :
    (∀ r : Fin 7, ∀ i : Fin 16, Gen.Rs.MSG_SCHEDULE[r][i] = Proofs.sigmaPow r i) ∧
    (∀ r : Fin 7, ∀ i : Fin 16, Gen.C.MSG_SCHEDULE[r][i] = Proofs.sigmaPow r i) :=
  ⟨Proofs.rs_sched_eq, Proofs.c_sched_eq⟩

/-- the contract of `hash_many` over whole chunks (16 blocks, CHUNK_START / CHUNK_END, counter
incremented per input): lane `i` is the chaining value of the specification's chunk node -/
theorem hash_many_chunk_contract (key : CV) (flags : UInt8) (t : Nat) (s : List UInt8) (hs : s.length = 1024) :
    hash1 genK key t flags Spec.CHUNK_START Spec.CHUNK_END s = (Spec.chunkNode key flags t s).chain := by
  rw [Proofs.genK_eq_spec]; exact Proofs.hash1_eq key flags t s hs

/-- the contract of `hash_many` over parent blocks (one block, no start/end flags, counter 0, not
incremented): the parent chaining value -/
theorem hash_many_parent_contract (key : CV) (flags : UInt8) (l r : CV) :
    Rs.parentCV genK key flags l r = Spec.parentCV key flags l r := by
  rw [Proofs.genK_eq_spec]; exact congrFun (congrFun (Proofs.parentCV_eq key flags) l) r

/-- lane counters: adding a lane index below 2^32 to a 64-bit counter and splitting into two 32-bit
halves is the same as adding to the low half and propagating the carry (the scheme every SIMD kernel
uses, with the carry obtained from an unsigned compare) -/
theorem lane_counter (t i : Nat) (ht : t < 2 ^ 64) (hi : i < 2 ^ 32) (hsum : t + i < 2 ^ 64) :
    (t + i) % 2 ^ 32 = (t % 2 ^ 32 + i) % 2 ^ 32 ∧
    (t + i) / 2 ^ 32 = t / 2 ^ 32 + (if (t % 2 ^ 32 + i) % 2 ^ 32 < i then 1 else 0) := by
  constructor
  · omega
  · split <;> omega

example : (2 ^ 32 - 1 + 5 : Nat) / 2 ^ 32 = (2 ^ 32 - 1) / 2 ^ 32 + 1 := by decide

end B3.Props.C05
