/-
Property theorems about the code TRANSLATED from the sources (artefact proofs in B3/Proofs/RefImpl*.lean): generated = model for all inputs,
and the property-level facts restated for the generated functions.  Theorem statements only; helper lemmas are in the Proofs file.
-/
import B3.Proofs.RefImpl
namespace B3.Proofs.RefImpl
open B3 B3.Arith B3.Gen B3.Gen.RefImpl
attribute [local irreducible] B3.Gen.Ref.compress

/-! ### main theorems -/

/-- **The translated reference implementation computes what the model computes.**  For every mode
(hash / keyed hash with any 32-byte key / derive_key with any context string), every sequence of
`update` calls with fewer than 2^64 bytes in total and every output buffer shorter than 2^64 bytes
(with arbitrary previous contents), the code translated statement by statement from
reference_impl/reference_impl.rs - constructor, `update`s, `finalize` - yields exactly the outcome of
the hand-written model `B3.Ref` run with the same (translated) compression function. -/
theorem refimpl_hash_eq_model (mode : Spec.Mode) (xs : List (List UInt8)) (out : List UInt8) (hmode : ModeOk mode)
    (hlen : xs.flatten.length < 2 ^ 64) (hout : out.length < 2 ^ 64) :
    run mode xs out = ofOption (Ref.run Gen.Ref.compress mode xs out.length) := by
  have hs := Props.C15.ref_eq_spec mode xs out.length hlen (modeOk_ctx hmode)
  obtain ⟨g0, g1, e0, e1, e2⟩ := run_sim mode xs out _ hmode hlen hout hs
  rw [hs]
  simp only [run, e0, ok_bind, e1, e2, ofOption]

/-- **... and therefore the specification's extended output**: the buffer is filled with
`Spec.xof mode (all input bytes) 0 (buffer length)`. -/
theorem refimpl_eq_spec (mode : Spec.Mode) (xs : List (List UInt8)) (out : List UInt8) (hmode : ModeOk mode)
    (hlen : xs.flatten.length < 2 ^ 64) (hout : out.length < 2 ^ 64) :
    run mode xs out = .ok (Spec.xof mode xs.flatten 0 out.length) := by
  rw [refimpl_hash_eq_model mode xs out hmode hlen hout, Props.C15.ref_eq_spec mode xs out.length hlen (modeOk_ctx hmode)]
  rfl

/-- **No translated operation panics**: the constructor succeeds; after every prefix of the `update`
calls the hasher exists (no index out of bounds on the 54-entry stack, no `u8` / `u64` / `usize`
overflow or underflow, no slice index out of range, no `copy_from_slice` / `try_into` length mismatch,
no loop out of fuel); and from each of these states `finalize` succeeds into every buffer shorter
than 2^64 bytes. -/
theorem refimpl_no_panic (mode : Spec.Mode) (xs : List (List UInt8)) (hmode : ModeOk mode)
    (hlen : xs.flatten.length < 2 ^ 64) :
    ∃ g0, newMode mode = .ok g0 ∧ ∀ k, ∃ gk, updates g0 (xs.take k) = .ok gk ∧
      ∀ out : List UInt8, out.length < 2 ^ 64 → ∃ b, gk.finalize out = .ok b := by
  have hpre : ∀ k, (xs.take k).flatten.length < 2 ^ 64 := by
    intro k
    have : (xs.take k).flatten.length ≤ xs.flatten.length := by
      conv => rhs; rw [← List.take_append_drop k xs]
      rw [List.flatten_append, List.length_append]; omega
    omega
  obtain ⟨g0, _, e0, _, _⟩ := run_sim mode [] [] _ hmode (by simp) (by simp)
    (Props.C15.ref_eq_spec mode [] 0 (by simp) (modeOk_ctx hmode))
  refine ⟨g0, e0, fun k => ?_⟩
  obtain ⟨g0', gk, e0', ek, _⟩ := run_sim mode (xs.take k) [] _ hmode (hpre k) (by simp)
    (Props.C15.ref_eq_spec mode (xs.take k) 0 (hpre k) (modeOk_ctx hmode))
  have : g0' = g0 := by rw [e0] at e0'; cases e0'; rfl
  subst this
  refine ⟨gk, ek, fun out ho => ?_⟩
  obtain ⟨g0'', gk', e0'', ek', ef⟩ := run_sim mode (xs.take k) out _ hmode (hpre k) ho
    (Props.C15.ref_eq_spec mode (xs.take k) out.length (hpre k) (modeOk_ctx hmode))
  have h1 : g0'' = g0' := by rw [e0] at e0''; cases e0''; rfl
  subst h1
  have h2 : gk' = gk := by rw [ek] at ek'; cases ek'; rfl
  subst h2
  exact ⟨_, ef⟩

/-- non-vacuity of the hypotheses: keyed mode with a 32-byte key, 2050 bytes in three calls (one of
them empty), 131 bytes of output into a buffer holding other data -/
example := refimpl_eq_spec (.keyed (List.replicate 32 7)) [List.replicate 1024 1, [], List.replicate 1026 2]
  (List.replicate 131 0xAA) (by simp [ModeOk])
  (by simp only [List.flatten_cons, List.flatten_nil, List.length_append, List.length_replicate, List.length_nil]; omega)
  (by simp only [List.length_replicate]; omega)

/-- ... and derive_key mode -/
example := refimpl_no_panic (.derive [0x61, 0x62, 0x63]) [List.replicate 3000 1, List.replicate 5 2]
  (by simp [ModeOk])
  (by simp only [List.flatten_cons, List.flatten_nil, List.length_append, List.length_replicate, List.length_nil]; omega)

end B3.Proofs.RefImpl

#print axioms B3.Proofs.RefImpl.refimpl_hash_eq_model
#print axioms B3.Proofs.RefImpl.refimpl_eq_spec
#print axioms B3.Proofs.RefImpl.refimpl_no_panic

