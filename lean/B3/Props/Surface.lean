/-
The trait-impl surface of the crate's own types is the modelled one.

`Gen.Listings.implSurface*` are regenerated from `src/lib.rs`, `src/traits.rs` and `src/hazmat.rs` on every run: one entry per
`impl <Trait> for <Type>` block (test modules excluded) with the methods the block defines. The hand-written models and the
translators cover exactly these methods; every other method of these traits is the trait's PROVIDED default, which is defined
in terms of the listed ones (`Write::write_all`/`write_vectored` over `write`, `Read::read_exact` over `read`,
`KeyInit::new_from_slice` over `new`, `Clone::clone_from` over `clone`, `PartialEq::ne` over `eq`, ...). A new override - or a
dropped one - changes what existing callers execute without touching any translated function, so it is made a proof obligation
here: the lists below must be literally what the source says.
-/
import B3.Gen.Listings
namespace B3.Props.Surface
open B3

theorem lib_surface_is_modelled :
    Gen.Listings.implSurfaceLib =
      ["From<[u8;OUT_LEN]> for Hash: from",
       "From<Hash> for [u8;OUT_LEN]: from",
       "core::str::FromStr for Hash: from_str",
       "Zeroize for Hash: zeroize",
       "PartialEq for Hash: eq",
       "PartialEq<[u8;OUT_LEN]> for Hash: eq",
       "PartialEq<[u8]> for Hash: eq",
       "fmt::Display for Hash: fmt",
       "fmt::Debug for Hash: fmt",
       "fmt::Display for HexError: fmt",
       "std::error::Error for HexError: ",
       "Zeroize for Output: zeroize",
       "fmt::Debug for ChunkState: fmt",
       "Zeroize for ChunkState: zeroize",
       "fmt::Debug for Hasher: fmt",
       "Default for Hasher: default",
       "std::io::Write for Hasher: write flush",
       "Zeroize for Hasher: zeroize",
       "fmt::Debug for OutputReader: fmt",
       "std::io::Read for OutputReader: read",
       "std::io::Seek for OutputReader: seek",
       "Zeroize for OutputReader: zeroize"] := rfl

theorem traits_surface_is_modelled :
    Gen.Listings.implSurfaceTraits =
      ["digest::HashMarker for Hasher: ",
       "digest::Update for Hasher: update",
       "digest::Reset for Hasher: reset",
       "digest::OutputSizeUser for Hasher: ",
       "digest::FixedOutput for Hasher: finalize_into",
       "digest::FixedOutputReset for Hasher: finalize_into_reset",
       "digest::ExtendableOutput for Hasher: finalize_xof",
       "digest::ExtendableOutputReset for Hasher: finalize_xof_reset",
       "digest::XofReader for OutputReader: read",
       "common::KeySizeUser for Hasher: ",
       "common::BlockSizeUser for Hasher: ",
       "digest::MacMarker for Hasher: ",
       "digest::KeyInit for Hasher: new"] := rfl

theorem hazmat_surface_is_modelled :
    Gen.Listings.implSurfaceHazmat = ["HasherExt for Hasher: new_from_context_key set_input_offset finalize_non_root"] := rfl

/-- no hand-written `Clone`: see `Props.C10.clone_is_derived` for the derive lists -/
theorem no_hand_written_clone : Gen.Listings.handWrittenClone = [] := rfl

end B3.Props.Surface
