/-
C15 (first half) - property theorems: the repository's reference implementation
(reference_impl/reference_impl.rs, modelled in `B3/Model/Ref.lean`) returns the specification's
output for every input, mode, output length and update split.  Helper lemmas: `B3/Proofs/Ref.lean`.

Every theorem is stated for a compression function `cmp` with `cmp = Spec.compress`; the equality is
discharged by the theorem that the generated translation of the reference's `compress` is the
specification's (`funext`).  `ref_update_split_independent` holds for every `cmp`.
-/
import B3.Proofs.Ref
import B3.Proofs.Compress
import B3.Proofs.GenK
import B3.Proofs.OneShot
import B3.Gen.Vectors
namespace B3.Props.C15
open B3 B3.Ref

/-- `ChunkState`: after absorbing the bytes `xs.flatten` in ANY split `xs` into `update` calls, a
chunk state created for counter `t` in mode `key`, `flags` (flags fit in a byte) has as `output()`
exactly the specification's node of that chunk, field by field; in particular its
`chaining_value()` is the specification's chunk chaining value.  (No bound on the number of bytes
is needed in the model; the reference's `u8` fields `block_len`, `blocks_compressed` hold the values
for up to 1024 bytes, which is all `Hasher::update` ever passes.) -/
theorem ref_chunk_state_eq_spec (cmp : Cmp) (hc : cmp = Spec.compress) (key : CV) (flags : UInt8) (t : Nat)
    (xs : List (List UInt8)) :
    let o := (xs.foldl (fun cs x => cs.update cmp x) (ChunkState.new key t flags.toUInt32)).output
    let nd := Spec.chunkNode key flags t xs.flatten
    o.inputChainingValue = nd.cv ∧ o.blockWords = nd.block ∧ o.counter = nd.t ∧ o.blockLen = nd.blen ∧
      o.flags = nd.flags.toUInt32 ∧ o.chainingValue cmp = nd.chain := by
  subst hc
  intro o nd
  have e : o = Proofs.Ref.ofNode nd := by
    simp only [o, nd]
    rw [Proofs.Ref.cs_updates_eq _ _ _ (Proofs.Ref.cs_new_wf _ _ _), Proofs.Ref.cs_new_update_output]
  rw [e]
  exact ⟨rfl, rfl, rfl, rfl, rfl, rfl⟩

/-- non-vacuity: 1024 bytes in three calls cut inside a block and on a block boundary -/
example := ref_chunk_state_eq_spec Spec.compress rfl Spec.IV Spec.KEYED_HASH 7
  [List.replicate 100 1, List.replicate 28 2, List.replicate 896 3]

/-- `Hasher`: from any state reachable from a constructor, two sequences of `update` calls with the
same concatenation lead to the same state (or both to the same panic); a sequence of calls is one
call with the concatenation.  Holds for every compression function. -/
theorem ref_update_split_independent (cmp : Cmp) (key : CV) (flags : UInt32) (pre : List (List UInt8)) (h : Hasher)
    (hreach : (Hasher.new key flags).updates cmp pre = some h) (xs ys : List (List UInt8))
    (hcat : xs.flatten = ys.flatten) :
    h.updates cmp xs = h.updates cmp ys ∧ h.updates cmp xs = h.update cmp xs.flatten := by
  have hw := Proofs.Ref.h_updates_wf cmp pre _ h (Proofs.Ref.h_new_wf key flags) hreach
  rw [Proofs.Ref.h_updates_eq cmp xs h hw, Proofs.Ref.h_updates_eq cmp ys h hw, hcat]
  exact ⟨rfl, rfl⟩

/-- non-vacuity: a reachable state (no previous updates) and two different splits of 3 bytes -/
example := ref_update_split_independent Spec.compress Spec.IV 0 [] (Hasher.new Spec.IV 0) rfl
  [[1, 2], [3]] [[1], [], [2, 3]] rfl

/-- The stack invariant.  After absorbing `m = xs.flatten` (shorter than 2^64 bytes) in any split,
with `n = (|m| - 1) / 1024` the number of completed chunks: no panic has occurred, the chunk
counter is `n`, the chunk state holds the remaining `|m| - 1024 n` bytes (between 1 and 1024 unless
`m` is empty) and its `output().chaining_value()` is the specification's chaining value of the last
chunk, and the stack entries, bottom first, are the specification's subtree chaining values
(`Spec.treeCV` = `Tr.topDown`) of consecutive blocks of the first `n` leaf chaining values whose
sizes are the binary decomposition `St.bd n` (largest power of two first, lowest set bit on top). -/
theorem ref_stack_invariant (cmp : Cmp) (hc : cmp = Spec.compress) (key : CV) (flags : UInt8)
    (xs : List (List UInt8)) (hlen : xs.flatten.length < 2 ^ 64) :
    ∃ h, (Hasher.new key flags.toUInt32).updates cmp xs = some h ∧
      let m := xs.flatten
      let n := (m.length - 1) / 1024
      h.chunkState.chunkCounter = n ∧ h.chunkState.len = m.length - 1024 * n ∧
      h.chunkState.output.chainingValue cmp = (Spec.chunkNode key flags n (m.drop (1024 * n))).chain ∧
      h.cvStack.length = St.popcount n ∧
      ∃ bs : List (List CV), h.cvStack = bs.map (Spec.treeCV key flags) ∧
        bs.flatten = (Spec.leafCVs key flags 0 (Spec.chunks m)).take n ∧ bs.map List.length = St.bd n := by
  subst hc
  obtain ⟨h, n, e, i, hs⟩ := Proofs.Ref.updates_new key flags xs hlen
  have hn := Proofs.Ref.inv_count key flags i hs
  refine ⟨h, e, ?_⟩
  intro m n'
  have hn' : n' = n := hn.symm
  rw [hn']
  obtain ⟨bs, s1, s2, s3⟩ := i.hstack
  refine ⟨i.counter, i.len, ?_, ?_, bs, ?_, ?_, s3⟩
  · rw [i.chunkCv, Proofs.Ref.chainingValue_ofNode]
  · rw [s1, List.length_map, ← St.bd_length, ← s3, List.length_map]
  · rw [s1]; apply List.map_congr_left; intro b _
    simp only [Spec.treeCV, Tr.topDown_eq_collapse]
  · have hl := Proofs.Ref.leafCVs_chunks key flags m.length m 0 rfl
    rw [← hn, ← hn', hn'] at hl
    rw [hl, s2, List.take_left']
    rw [Hs.fullLeaves_length, List.length_take]
    have := i.lo
    simp only [m] at *
    omega

/-- non-vacuity: 5 chunks and a byte, in two calls -/
example := ref_stack_invariant Spec.compress rfl Spec.IV 0 [List.replicate 3000 1, List.replicate 2121 2]
  (by simp only [List.flatten_cons, List.flatten_nil, List.length_append, List.length_replicate, List.length_nil]; omega)

/-- The main theorem.  For every mode (hash, keyed hash with any key bytes - the reference takes
exactly 32 -, derive_key with any context shorter than 2^64 bytes), every message `m = xs.flatten`
shorter than 2^64 bytes, every split `xs` of it into `update` calls and every output length, the
reference implementation (constructor, updates, `finalize` into `outLen` bytes) does not panic and
returns the specification's extended output `Spec.xof mode m 0 outLen`. -/
theorem ref_finalize_eq_spec (cmp : Cmp) (hc : cmp = Spec.compress) (mode : Spec.Mode) (xs : List (List UInt8))
    (outLen : Nat) (hlen : xs.flatten.length < 2 ^ 64)
    (hctx : ∀ ctx, mode = .derive ctx → ctx.length < 2 ^ 64) :
    Ref.run cmp mode xs outLen = some (Spec.xof mode xs.flatten 0 outLen) := by
  subst hc
  exact Proofs.Ref.run_eq mode xs outLen hlen hctx

/-- non-vacuity: derive_key mode, 2050 bytes in three calls, 131 output bytes -/
example := ref_finalize_eq_spec Spec.compress rfl (.derive [0x61, 0x62]) [List.replicate 1024 1, [], List.replicate 1026 2]
  131 (by simp only [List.flatten_cons, List.flatten_nil, List.length_append, List.length_replicate, List.length_nil]; omega)
  (by intro ctx h; cases h; simp)

/-- ... and in particular the first 32 bytes of any output of at least 32 bytes are the hash. -/
theorem ref_finalize_hash (cmp : Cmp) (hc : cmp = Spec.compress) (mode : Spec.Mode) (xs : List (List UInt8))
    (outLen : Nat) (hout : 32 ≤ outLen) (hlen : xs.flatten.length < 2 ^ 64)
    (hctx : ∀ ctx, mode = .derive ctx → ctx.length < 2 ^ 64) :
    (Ref.run cmp mode xs outLen).map (·.take 32) = some (Spec.hash mode xs.flatten) := by
  rw [ref_finalize_eq_spec cmp hc mode xs outLen hlen hctx]
  simp only [Option.map_some, Spec.xof, Spec.hash]
  rw [Proofs.Ref.stream_take32 _ _ hout]

example := ref_finalize_hash Spec.compress rfl (.keyed (List.replicate 32 9)) [[1, 2, 3]] 32 (Nat.le_refl _)
  (by simp) (by intro ctx h; cases h)

/-- The fixed stack of 54 entries suffices: for fewer than 2^64 input bytes in any split no
`push_stack` finds the stack full and no `pop_stack` finds it empty (the updates return `some`), and
the stack then holds `popcount ((|m| - 1) / 1024) ≤ 54` entries. -/
theorem ref_stack_capacity (cmp : Cmp) (hc : cmp = Spec.compress) (key : CV) (flags : UInt8)
    (xs : List (List UInt8)) (hlen : xs.flatten.length < 2 ^ 64) :
    ∃ h, (Hasher.new key flags.toUInt32).updates cmp xs = some h ∧
      h.cvStack.length = St.popcount ((xs.flatten.length - 1) / 1024) ∧ h.cvStack.length ≤ STACK_CAP := by
  obtain ⟨h, e, _, _, _, hp, _⟩ := ref_stack_invariant cmp hc key flags xs hlen
  refine ⟨h, e, hp, ?_⟩
  rw [hp]
  exact Proofs.Ref.popcount_lt_pow 54 _ (by omega)

example := ref_stack_capacity Spec.compress rfl Spec.IV 0 [List.replicate 3000 1]
  (by simp only [List.flatten_cons, List.flatten_nil, List.length_append, List.length_replicate, List.length_nil]; omega)

/-- ... and 54 is needed: some input length below 2^64 (any with `2^54 - 1` completed chunks) fills
all 54 entries. -/
theorem ref_stack_capacity_tight :
    ∃ len : Nat, len < 2 ^ 64 ∧ St.popcount ((len - 1) / 1024) = STACK_CAP :=
  ⟨(2 ^ 54 - 1) * 1024 + 1, by omega, by
    have : ((2 ^ 54 - 1) * 1024 + 1 - 1) / 1024 = 2 ^ 54 - 1 := by omega
    rw [this]; exact Proofs.Ref.popcount_pow_pred 54⟩

/-- `new_derive_key`: the hasher it returns is the one `new_internal` builds from the words of the
specification's context key `Spec.contextKey ctx` and the flag DERIVE_KEY_MATERIAL. -/
theorem ref_derive_key_context (cmp : Cmp) (hc : cmp = Spec.compress) (ctx : List UInt8) (hlen : ctx.length < 2 ^ 64) :
    Ref.newDeriveKey cmp ctx =
      some (Hasher.new (wordsOfBytes 8 (Spec.contextKey ctx)) Spec.DERIVE_KEY_MATERIAL.toUInt32) := by
  subst hc
  exact Proofs.Ref.newDeriveKey_eq ctx hlen

example := ref_derive_key_context Spec.compress rfl (List.replicate 1500 0x41)
  (by simp only [List.length_replicate]; omega)

end B3.Props.C15

#print axioms B3.Props.C15.ref_chunk_state_eq_spec
#print axioms B3.Props.C15.ref_update_split_independent
#print axioms B3.Props.C15.ref_stack_invariant
#print axioms B3.Props.C15.ref_finalize_eq_spec
#print axioms B3.Props.C15.ref_finalize_hash
#print axioms B3.Props.C15.ref_stack_capacity
#print axioms B3.Props.C15.ref_stack_capacity_tight
#print axioms B3.Props.C15.ref_derive_key_context

/-! ### the generated translation of reference_impl.rs `compress`, and the published vectors -/
namespace B3.Props.C15
open B3 B3.Ref

/-- the compression function generated from reference_impl/reference_impl.rs (explicit message
permutation between rounds, feed-forward loop) is the specification's -/
theorem ref_generated_compress_eq_spec : Gen.Ref.compress = Spec.compress := by
  funext cv m t b d; exact Proofs.ref_compress_eq cv m t b d

/-- the reference implementation, run with its own (generated) compression function, returns the
specification's output for every mode, input, update split and output length -/
theorem ref_eq_spec (mode : Spec.Mode) (xs : List (List UInt8)) (outLen : Nat) (hlen : xs.flatten.length < 2 ^ 64)
    (hctx : ∀ ctx, mode = .derive ctx → ctx.length < 2 ^ 64) :
    Ref.run Gen.Ref.compress mode xs outLen = some (Spec.xof mode xs.flatten 0 outLen) :=
  ref_finalize_eq_spec _ ref_generated_compress_eq_spec mode xs outLen hlen hctx

/-- reference = optimized crate (one-shot functions, every SIMD degree): both equal the specification -/
theorem ref_eq_rust (sd j : Nat) (hsd : sd = 2 ^ j) (mode : Spec.Mode) (m : List UInt8) (hlen : m.length < 2 ^ 64)
    (hctx : ∀ ctx, mode = .derive ctx → ctx.length < 2 ^ 64) :
    (Ref.run Gen.Ref.compress mode [m] 32).map (·.take 32) = some (Rs.oneShot genK sd mode m) := by
  have h1 := ref_finalize_hash _ ref_generated_compress_eq_spec mode [m] 32 (Nat.le_refl _) (by simpa using hlen) hctx
  rw [h1, Proofs.genK_eq_spec, Proofs.oneShot_eq_spec sd j hsd]
  simp

/-- the input pattern of the published vectors: 0, 1, …, 250, 0, 1, … -/
def vecInput (n : Nat) : List UInt8 := (List.range n).map fun i => UInt8.ofNat (i % 251)

/-- bytes `[64k, 64k+64)` of a published vector -/
def vblock (v : List UInt8) (k : Nat) : List UInt8 := (v.drop (64 * k)).take 64

/-- the published vectors for input lengths 0 and 1 (hash and keyed_hash, all 131 output bytes, as
three output blocks) equal the specification's output - checked by evaluation in the Lean kernel;
every field of all 35 cases is compared by running the compiled specification (a test, labelled
as such) in the dynamic half of the check -/
theorem vectors_kernel_checked :
    (∀ k < 3, ((Spec.root .hash (vecInput 0)).xofBlock k).take (131 - 64 * k) = vblock Gen.Vectors.case0_hash k) ∧
    (∀ k < 3, ((Spec.root (.keyed Gen.Vectors.key) (vecInput 0)).xofBlock k).take (131 - 64 * k)
        = vblock Gen.Vectors.case0_keyed_hash k) ∧
    (∀ k < 3, ((Spec.root .hash (vecInput 1)).xofBlock k).take (131 - 64 * k) = vblock Gen.Vectors.case1_hash k) ∧
    (∀ k < 3, ((Spec.root (.keyed Gen.Vectors.key) (vecInput 1)).xofBlock k).take (131 - 64 * k)
        = vblock Gen.Vectors.case1_keyed_hash k) := by
  refine ⟨by decide +kernel, by decide +kernel, by decide +kernel, by decide +kernel⟩

end B3.Props.C15
