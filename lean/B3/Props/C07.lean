/-
C07 - property theorems: capacities and extents.  The CV stack never needs more than
MAX_DEPTH + 1 = 55 entries for inputs below 2^64 bytes (Rust `ArrayVec<_, 55>`, C
`cv_stack[(MAX_DEPTH+1)*32]` indexed by a `uint8_t`), `compress_subtree_wide` never returns more
than `MAX_SIMD_DEGREE_OR_2` chaining values, and output functions write exactly the requested
number of bytes.
-/
import B3.Proofs.Final
import B3.Proofs.GenK
import B3.Model.C
import B3.Proofs.OutputPlan
import B3.Proofs.CStack
namespace B3.Props.C07
open B3 B3.Rs Hs St

theorem goodS_pow_le : ∀ (l : List Nat), GoodS 0 l → (∀ s ∈ l, 1 ≤ s) → 2 ≤ l.length → 2 ^ (l.length - 2) ≤ l.sum
  | [], _, _, h => by simp at h
  | [_], _, _, h => by simp at h
  | [a, b], _, h1, _ => by
    have := h1 a (by simp); have := h1 b (by simp); simp; omega
  | a :: b :: c :: r, hg, h1, _ => by
    have ih := goodS_pow_le (b :: c :: r) hg.2 (fun s hs => h1 s (by simp [hs])) (by simp)
    have ha := hg.1
    simp only [List.length_cons, List.sum_cons] at ih ha ⊢
    have e : r.length + 1 + 1 + 1 - 2 = (r.length + 1 + 1 - 2) + 1 := by omega
    rw [e, Nat.pow_succ]
    omega

/-- under the representation invariant the CV stack has at most 55 entries as long as fewer than
2^54 chunks (2^64 bytes) have been absorbed -/
theorem cv_stack_len_le (h : Hasher) (m : List UInt8) (hr : Proofs.Rep h m) (hT : h.cs.t - h.t0 < 2 ^ 54) :
    h.stack.length ≤ Gen.Rs.MAX_DEPTH + 1 := by
  obtain ⟨done, tail, bs, _, _, _, hi, _, _⟩ := hr
  have hst : h.stack = bs.map _ := hi.st
  have hlz : Lazy (h.cs.t - h.t0) (bs.map List.length) := hi.lz
  rw [hst, List.length_map]
  show bs.length ≤ 55
  rcases Nat.lt_or_ge bs.length 2 with hlt | hge
  · omega
  · have hones : ∀ s ∈ bs.map List.length, 1 ≤ s := by
      intro s hs; obtain ⟨a, ha⟩ := lazy_pow2 hlz s hs; have := Nat.two_pow_pos a; omega
    have := goodS_pow_le (bs.map List.length) (lazy_goodS hlz) hones (by simpa using hge)
    rw [lazy_sum hlz, List.length_map] at this
    have h2 : 2 ^ (bs.length - 2) < 2 ^ 54 := by omega
    have := (Nat.pow_lt_pow_iff_right (a := 2) (by omega)).mp h2
    omega

/-- `compress_subtree_wide` writes between 1 and `max simd_degree 2` chaining values into `out` -/
theorem wide_count_le (key : CV) (flags : UInt8) (sd j t : Nat) (hsd : sd = 2 ^ j) (input : List UInt8) (hne : 0 < input.length) :
    1 ≤ (wide genK key flags sd t input).length ∧ (wide genK key flags sd t input).length ≤ max sd 2 := by
  have := Hs.wide_spec (parentCV genK key flags) key 10 (leafCV genK key flags) sd j hsd input.length t input rfl hne
  exact ⟨this.2.1, this.2.2.1⟩

theorem bytesOfWords_length {n : Nat} (v : Vector UInt32 n) : (bytesOfWords v).length = 4 * n := by
  unfold bytesOfWords
  have : ∀ (l : List UInt32), (l.flatMap wordBytes).length = 4 * l.length := by
    intro l
    induction l with
    | nil => rfl
    | cons a l ih => simp [List.flatMap_cons, ih, wordBytes]; omega
  rw [this]; simp

theorem xofMany_length (K : Kern) (o : Spec.Node) (t n : Nat) : (xofMany K o t n).length = 64 * n := by
  unfold xofMany
  induction n with
  | zero => simp
  | succ n ih =>
    rw [List.range_succ, List.flatMap_append, List.length_append, ih]
    simp [bytesOfWords_length]; omega

theorem len_mid (K : Kern) (o : Spec.Node) (c n : Nat) :
    (if n / 64 ≠ 0 then xofMany K o c (n / 64) else []).length = 64 * (n / 64) := by
  split
  · exact xofMany_length K o c _
  · rename_i h; simp at h; simp; omega

theorem len_last (v : St) (r : Nat) (hr : r < 64) :
    (if r ≠ 0 then (bytesOfWords v).take r else []).length = r := by
  split
  · rw [List.length_take, bytesOfWords_length]; omega
  · rename_i h; simp at h; simp [h]

/-- the C library's `output_root_bytes` / `blake3_hasher_finalize_seek` write exactly `out_len` bytes -/
theorem c_finalize_seek_extent (K : Kern) (h : C.Hasher) (seek outLen : Nat) :
    (C.finalizeSeek K h seek outLen).length = outLen := by
  unfold C.finalizeSeek
  by_cases h0 : outLen = 0
  · simp [h0]
  · rw [if_neg h0]
    unfold C.outputRootBytes
    rw [if_neg h0]
    by_cases hoff : seek % 64 = 0
    · simp only [hoff, ne_eq, not_true_eq_false, if_false, List.length_append, List.length_nil]
      rw [len_mid, len_last _ _ (by omega)]; omega
    · simp only [hoff, ne_eq, not_false_eq_true, if_true, List.length_append]
      rw [len_mid, len_last _ _ (by omega), List.length_take, List.length_drop, bytesOfWords_length]
      split <;> omega

/-- `OutputReader::fill` returns exactly the requested number of bytes (`Read::read` always fills
the whole buffer) -/
theorem fill_one_block_length (K : Kern) (r : OutputReader) (want : Nat) (hp : r.pwb < 64) :
    (r.fillOneBlock K want).1.length = min want (64 - r.pwb) := by
  simp only [OutputReader.fillOneBlock, List.length_take, List.length_drop, bytesOfWords_length]
  omega

/-- **`output_root_bytes`, tied to the source.** The C function is regenerated from c/blake3.c on every
run as the list of writes it performs (`Gen.C.output_root_plan`: each `memcpy` from the 64-byte
scratch block and each `blake3_xof_many` call, with destination offset, source block, source offset and
length, all in wrapping 64-bit arithmetic). For every `seek` and `out_len` below 2^64:
the writes start at `out`, are back to back, every `memcpy` reads a scratch block that has been filled
and stays inside its 64 bytes, and the lengths add up to exactly `out_len` - nothing is written
before `out` or from `out + out_len` on. -/
theorem c_output_root_bytes_extent (seek outLen : Nat) (hs : seek < 2 ^ 64) (ho : outLen < 2 ^ 64) :
    Proofs.Contig 0 (Gen.C.output_root_plan seek outLen) ∧
    Proofs.totalLen (Gen.C.output_root_plan seek outLen) = outLen :=
  Proofs.plan_extent seek outLen hs ho

/-- ...and what those writes deliver is the model's `output_root_bytes` (which C06 proves to be the
stream slice `S[seek, seek + out_len)`) -/
theorem c_output_root_bytes_plan_is_model (K : Kern) (o : Spec.Node) (seek outLen : Nat)
    (hs : seek < 2 ^ 64) (ho : outLen < 2 ^ 64) :
    ((Gen.C.output_root_plan seek outLen).map (Gen.C.Ev.bytes K o)).flatten = C.outputRootBytes K o seek outLen :=
  Proofs.plan_bytes K o seek outLen hs ho

/-- **Indices into `cv_stack[(MAX_DEPTH+1)*32]`, tied to the source.** `hasher_merge_cv_stack`,
`hasher_push_cv` and the stack walk of `blake3_hasher_finalize_seek` are regenerated from c/blake3.c on
every run as the list of their accesses to `self->cv_stack` (byte offset as an exact integer, length),
and the array size from c/blake3.h. With at most 55 entries on the stack, a chunk counter below 2^54
(input below 2^64 bytes) and at least `popcount(chunk_counter)` entries (the lazy-merge invariant,
`lazy_len_ge`), every access of `hasher_push_cv` lies inside the array, and the stack ends with
`popcount + 1 ≤ 55` entries - so the bound is re-established for the next call. -/
theorem c_cv_stack_push_in_bounds (len cc : Nat) (hl : len ≤ 55) (hc : cc < 2 ^ 54) (hge : St.popcount cc ≤ len)
    (hp : cc ≠ 0 ∨ len = 0) :
    (∀ a ∈ (Gen.C.hasher_push_cv len cc).2, a.inBounds) ∧ (Gen.C.hasher_push_cv len cc).1 = St.popcount cc + 1 ∧
    (Gen.C.hasher_push_cv len cc).1 ≤ 55 :=
  Proofs.c_push_cv_bounds len cc hl hc hge hp

/-- the stack walk of `blake3_hasher_finalize_seek` reads only inside the array, in each of the three
states the representation invariant allows (`rep_final_ok`): empty stack, input in the chunk state, or
at least two entries -/
theorem c_cv_stack_finalize_in_bounds (len cslen : Nat) (hl : len ≤ 55) (hok : len = 0 ∨ 0 < cslen ∨ 2 ≤ len) :
    ∀ a ∈ Gen.C.finalize_seek_accesses len cslen, a.inBounds :=
  Proofs.c_finalize_seek_bounds len cslen hl hok

/-- non-vacuity and sharpness: merging a full stack of 55 entries reads the 64 bytes that end exactly
at byte 1760 = the size of the array; one entry more would be out of bounds -/
example : Gen.C.merge_cv_stack_loop 56 55 54 [] = (54, [.read 1696 64, .write 1696 32]) ∧ Gen.C.CV_STACK_BYTES = 1760 := by decide

example : Gen.C.output_root_plan 63 200 = [.copy 0 (some 0) 63 1, .many 1 1 3, .copy 193 (some 4) 0 7] := by decide

end B3.Props.C07
