/-
Capstone property theorems: the `Hasher` API assembled ONLY from code translated from src/lib.rs / src/hazmat.rs /
src/portable.rs agrees with the specification, end to end, and does not panic.  Theorem statements only; definitions,
glue and helper lemmas are in B3/Proofs/Capstone.lean and B3/Proofs/CapSim.lean.

The translated hasher (`B3.Proofs.Capstone`):
* state: `Gen.RsState.Hasher` (G8: `key`, `chunk_state` with a 64-byte buffer and `u8` counters, `cv_stack` of 32-byte
  entries, `initial_chunk_counter`);
* `tCtor` = `Hasher::new` / `new_keyed` / `new_derive_key` (G8; the latter through G9's `hash_all_at_once`);
* `tUpdate` = `Hasher::update`: G9's `update_with_join` (calling G9's `compress_subtree_to_parent_node`, … ) over the
  environment `tEnv` made of G8's `ChunkState::new / update / output / count`, `Output::chaining_value`,
  `parent_node_output`, with G6's `push_cv` / `merge_cv_stack`;
* `tFinalize`, `tFinalizeXof` = G8's `finalize` / `finalize_xof` over `tFinalOutput` = G6's `final_output` over G8;
* `Hasher.reset`, `Hasher.count` = G8's;
* reader: `tFill` = G8's `OutputReader::fill`; `tPosition`, `tSetPosition`, `tSeek` = G3b's position arithmetic;
* kernels: `genK` = the generated `compress_in_place` / `compress_xof` of src/portable.rs (G2).
Parameters left: `hm` = `Platform::hash_many` with contract `HashManySpec genK hm`; the SIMD degree `sd` and the
constants `M = MAX_SIMD_DEGREE`, `M2 = MAX_SIMD_DEGREE_OR_2` with `PlatOk sd M M2`; in `tFill` the portable `xof_many`
loop `xofManyK`.
-/
import B3.Proofs.Capstone
namespace B3.Proofs.Capstone
open B3 B3.Arith B3.Gen.RsState
open B3.Props.C02 (Op Reg step run)
open B3.Props.C03 (ROp)

/-! ### main theorems -/

/-- **1. Instantiation.**  The environment `tEnv` of G9 built from the G8-generated functions represents the model's
environment: `RCt` (not panicked, `CsInv`, `absCS`) relates chunk states, `ROt` (not panicked, `toNode`) outputs, and
every operation preserves them — `ChunkState::update` as long as the chunk holds at most 1024 bytes.  Consequently
(`CapSim`) every function of G9 and G6 run over `tEnv` simulates the same function run over the model: part 2 of G9
computes the same for all arguments, panics included. -/
theorem translated_env_represents_model (K : Kern) (sd : Nat) (hm : HM) (M M2 : Nat) :
    CapSim.EnvSim K sd hm M M2 (tEnv K sd hm M M2) RCt ROt ∧
    (tEnv K sd hm M M2).compress_subtree_to_parent_node
      = Gen.RsUpdate.compress_subtree_to_parent_node (RsUpdate.modelEnv K sd hm M M2 (RsUpdate.modelTpn K sd)) :=
  ⟨tEnv_sim K sd hm M M2, tEnv_tpn K sd hm M M2⟩

/-- **2. Simulation.**  The representation relation `TRel g h` (`absH g = h`, `CsInv` of the chunk state, 32-byte
stack entries) between the translated hasher state and the model's `Rs.Hasher` is
* established by the translated constructors of every mode (a context string shorter than 2^64 bytes),
* preserved by the translated `update`, for every input with the size bounds `UpdPre` (representation facts of the
  model state, the input a slice, the byte position below 2^64) — whenever the model's `update` returns a state, i.e.
  unless the documented `max_subtree_len` assertion of a hasher with an input offset fires,
* preserved by the translated `reset`;
none of them panics.  Any kernel, any `hash_many` meeting its contract, any platform meeting `PlatOk`. -/
theorem translated_hasher_simulation (K : Kern) (sd : Nat) (hm : HM) (M M2 : Nat) (hspec : RsUpdate.HashManySpec K hm)
    (hp : RsUpdate.PlatOk sd M M2) :
    (∀ mode : Spec.Mode, (∀ ctx, mode = .derive ctx → ctx.length < 2 ^ 64) →
      ∃ g, tCtor K sd hm M M2 mode = .ok g ∧
        TRel g (Rs.Hasher.newInternal (Rs.modeKeyWords K sd mode) (Rs.modeFlags mode))) ∧
    (∀ (g : Hasher) (h h' : Rs.Hasher) (x : List UInt8), TRel g h → RsUpdate.UpdPre h x → h.update K sd x = some h' →
      ∃ g', tUpdate K sd hm M M2 g x = .ok g' ∧ TRel g' h') ∧
    (∀ (g : Hasher) (h : Rs.Hasher), TRel g h → ∃ g', Hasher.reset g = .ok g' ∧ TRel g' h.reset) := by
  refine ⟨fun mode hctx => ?_, fun g h h' x hr pre hu => ?_, fun g h hr => ?_⟩
  · obtain ⟨g, h1, h2, _⟩ := tCtor_sim K sd hm M M2 hspec hp mode hctx
    exact ⟨g, h1, h2⟩
  · obtain ⟨g', h1, h2, _⟩ := tUpdate_sim K sd hm M M2 hspec hp g h hr x pre h' hu
    exact ⟨g', h1, h2⟩
  · obtain ⟨g', h1, h2, _⟩ := tReset_sim g h hr
    exact ⟨g', h1, h2⟩

/-- … and on a related state the translated `final_output` meets the contract `FoSpec` that G8's `finalize`,
`finalize_xof`, `finalize_non_root` take as given (so `hasher_finalize_eq_model` of Props/C02T.lean applies) -/
theorem translated_final_output_spec (K : Kern) (g : Hasher) (h : Rs.Hasher) (m : List UInt8) (hr : TRel g h)
    (hrep : Rep h m) : RsState.FoSpec K (tFinalOutput K) g :=
  tFinalOutput_spec K g h hr (rep_final_ok h m hrep)

/-- **3. Every history of the translated hasher agrees with the specification, without a panic.**
A bank of translated hashers driven by any history `ops` of `new` (any mode: any key, any context), `update`
(any register, any piece), `clone` and `reset` — the history machine of `history_correct` — within the bounds `Bounded`
(each piece shorter than 2^63 bytes, each register's absorbed bytes below 2^64, contexts shorter than 2^64):
* `trun … ops = .ok ts`: NO translated operation panics — and, `trun` being a fold in the panic monad, the same holds
  after every prefix of the history (second conjunct);
* the bank has as many registers as the model's, and for every register `i`, with `r.mode` / `r.absorbed` the mode and
  the bytes absorbed since its last `reset` (`run sd ops` of Props/C02.lean):
  `finalize` = `.ok (Spec.hash mode absorbed)`, `count` = `.ok absorbed.length`, `finalize_xof` = `.ok rd`, and every
  reader history `rops` of `fill` / `set_position` / `seek` on `rd` within `RBounded` (reads below the end of the
  2^64-byte stream) returns `.ok` of exactly the slices of `Spec.xof mode absorbed` (`specRun`).
For every SIMD degree `sd = 2^j` and platform constants with `PlatOk sd M M2`, every `hash_many` meeting
`HashManySpec genK hm`. -/
theorem translated_history_eq_spec (sd j : Nat) (hsd : sd = 2 ^ j) (hm : HM) (hspec : RsUpdate.HashManySpec genK hm)
    (M M2 : Nat) (hp : RsUpdate.PlatOk sd M M2) (ops : List Op) (hb : Bounded sd [] ops) :
    (∃ ts, trun sd hm M M2 [] ops = .ok ts ∧ ts.length = (run sd ops).length ∧
      ∀ (i : Nat) (g : Hasher) (r : Reg), ts[i]? = some g → (run sd ops)[i]? = some r →
        TRel g r.h ∧
        tFinalize genK g = .ok (Spec.hash r.mode r.absorbed) ∧
        Hasher.count g = .ok r.absorbed.length ∧
        ∃ rd, tFinalizeXof genK g = .ok rd ∧ ∀ rops, RBounded 0 rops →
          ∃ rd', trrun rd rops = .ok (rd', specRun (Spec.root r.mode r.absorbed) 0 rops)) ∧
    (∀ k, ∃ ts', trun sd hm M M2 [] (ops.take k) = .ok ts') := by
  refine ⟨history_all sd hm M M2 j hsd hspec hp ops hb, fun k => ?_⟩
  have hbk : Bounded sd [] (ops.take k) := bounded_prefix (ops.take k) (ops.drop k) [] (by rw [List.take_append_drop]; exact hb)
  obtain ⟨ts', h, _⟩ := history_all sd hm M M2 j hsd hspec hp (ops.take k) hbk
  exact ⟨ts', h⟩

/-- what `specRun` is: operation by operation, a `fill` of `n` bytes at position `p` yields `Spec.xof mode m p n`, the
position moves as documented (`specPos`), the other operations yield nothing -/
theorem specRun_is_xof (mode : Spec.Mode) (m : List UInt8) (p : Nat) (op : ROp) (rops : List ROp) :
    specRun (Spec.root mode m) p (op :: rops)
      = (match op with | .fill n => Spec.xof mode m p n | _ => []) :: specRun (Spec.root mode m) (specPos p op) rops := by
  cases op <;> rfl

/-- **3′. One hasher: constructor, then any sequence of `update`s and `reset`s** (`HBounded`: every piece shorter than
2^63 bytes, fewer than 2^64 bytes absorbed since the last `reset`).  After EVERY prefix of the sequence (`hops.take k`)
the translated state exists (`.ok`: nothing panicked so far) and answers with the specification for the bytes absorbed
since the last `reset` (`foldl habs []`: `reset` restarts the absorbed bytes): `finalize`, `count`, `finalize_xof` + any
reader history. -/
theorem translated_single_history_eq_spec (sd j : Nat) (hsd : sd = 2 ^ j) (hm : HM)
    (hspec : RsUpdate.HashManySpec genK hm) (M M2 : Nat) (hp : RsUpdate.PlatOk sd M M2) (mode : Spec.Mode)
    (hctx : ∀ ctx, mode = .derive ctx → ctx.length < 2 ^ 64) (hops : List HOp) (hb : HBounded [] hops) (k : Nat) :
    ∃ g0 g, tCtor genK sd hm M M2 mode = .ok g0 ∧ hrun sd hm M M2 g0 (hops.take k) = .ok g ∧
      tFinalize genK g = .ok (Spec.hash mode ((hops.take k).foldl habs [])) ∧
      Hasher.count g = .ok ((hops.take k).foldl habs []).length ∧
      ∃ rd, tFinalizeXof genK g = .ok rd ∧ ∀ rops, RBounded 0 rops →
        ∃ rd', trrun rd rops = .ok (rd', specRun (Spec.root mode ((hops.take k).foldl habs [])) 0 rops) :=
  single_history hm M M2 j hsd hspec hp mode hctx (hops.take k)
    (hbounded_prefix (hops.take k) (hops.drop k) [] (by rw [List.take_append_drop]; exact hb))

/-- **3″. Split independence for the translated hasher**, in the words of the task: for every mode, every list of
update pieces (each shorter than 2^63 bytes, fewer than 2^64 bytes in total), every SIMD degree 2^j ≤ 16 (platform
constants 16 / 16, as for AVX-512), every `hash_many` meeting its contract: no operation panics, `finalize` returns
the specification's hash of the concatenation, `count` its length, and `finalize_xof` followed by any `fill` /
`set_position` / `seek` history the slices of `Spec.xof` of the concatenation. -/
theorem translated_updates_eq_spec (j : Nat) (hj : j ≤ 4) (hm : HM) (hspec : RsUpdate.HashManySpec genK hm)
    (mode : Spec.Mode) (hctx : ∀ ctx, mode = .derive ctx → ctx.length < 2 ^ 64) (xs : List (List UInt8))
    (hx : ∀ x ∈ xs, x.length < 2 ^ 63) (htot : xs.flatten.length < 2 ^ 64) :
    ∃ g0 g, tCtor genK (2 ^ j) hm 16 16 mode = .ok g0 ∧ hrun (2 ^ j) hm 16 16 g0 (xs.map HOp.update) = .ok g ∧
      tFinalize genK g = .ok (Spec.hash mode xs.flatten) ∧
      Hasher.count g = .ok xs.flatten.length ∧
      ∃ rd, tFinalizeXof genK g = .ok rd ∧ ∀ rops, RBounded 0 rops →
        ∃ rd', trrun rd rops = .ok (rd', specRun (Spec.root mode xs.flatten) 0 rops) := by
  have hp : RsUpdate.PlatOk (2 ^ j) 16 16 :=
    ⟨⟨j, rfl⟩, by have := Nat.pow_le_pow_right (show 0 < 2 by omega) hj; omega, by omega, by omega, by omega⟩
  have := single_history hm 16 16 j rfl hspec hp mode hctx (xs.map HOp.update)
    (hbounded_updates xs [] hx (by simpa using htot))
  rw [foldl_habs_updates, List.nil_append] at this
  exact this

/-- **4. One-shot.**  The translated `hash_all_at_once` (G9 over G8) followed by the translated `root_hash` (G8), on
the key words and flags byte the translated `Mode::key_words` / `Mode::flags_byte` (G8) give for the mode — for
`derive_key` the context key comes from the translated `hazmat::hash_derive_key_context` — returns `.ok` of the
specification's hash, for every input shorter than 2^64 bytes (in particular every slice: 2^63), every mode (context
shorter than 2^64 bytes), every degree / platform / `hash_many` as above.  (Through `hash_eq_spec` of Props/C01.lean.) -/
theorem translated_oneshot_eq_spec (sd j : Nat) (hsd : sd = 2 ^ j) (hm : HM) (hspec : RsUpdate.HashManySpec genK hm)
    (M M2 : Nat) (hp : RsUpdate.PlatOk sd M M2) (mode : Spec.Mode)
    (hctx : ∀ ctx, mode = .derive ctx → ctx.length < 2 ^ 64) (input : List UInt8) (hlt : input.length < 2 ^ 64) :
    tHashMode genK sd hm M M2 mode input = .ok (Spec.hash mode input) := by
  rw [tHashMode_eq_model genK sd hm M M2 hspec hp mode hctx input hlt, Props.C01.hash_eq_spec sd j hsd mode input]

/-- the same for an explicit hazmat `Mode` value, and at the level of the output node: the translated
`hash_all_at_once` returns — no panic — an `Output` that represents the model's node (hence, by
`hash_all_at_once_eq_root`, the specification's root node for these key words and flags) -/
theorem translated_hash_all_at_once_eq_model (sd j : Nat) (hsd : sd = 2 ^ j) (hm : HM)
    (hspec : RsUpdate.HashManySpec genK hm) (M M2 : Nat) (hp : RsUpdate.PlatOk sd M M2) (key : CV) (flags : UInt8)
    (input : List UInt8) (hlt : input.length < 2 ^ 64) :
    ∃ o, tHao genK sd hm M M2 input key flags = .ok o ∧ RsState.toNode o = Spec.rootNode key flags input := by
  obtain ⟨o, h1, h2⟩ := tHao_sim genK sd hm M M2 hspec hp input key flags hlt
  exact ⟨o, h1, by rw [h2, Props.C01.hash_all_at_once_eq_root key flags sd j hsd input]⟩

/-! #### the hypotheses are satisfiable -/

/-- `hm := hashManyRef genK` meets the contract; degree 4 with the AVX2-less x86 constants, and with 16 / 16 -/
example : RsUpdate.HashManySpec genK (RsUpdate.hashManyRef genK) ∧ RsUpdate.PlatOk 4 4 4 ∧ RsUpdate.PlatOk 4 16 16 := by
  refine ⟨?_, ⟨⟨2, rfl⟩, by omega, by omega, by omega, by omega⟩, ⟨⟨2, rfl⟩, by omega, by omega, by omega, by omega⟩⟩
  intro N inputs key t inc flags fs fe out _ _ _ h _
  unfold RsUpdate.hashManyRef; rw [if_pos h]

/-- `Bounded` holds for every history feeding fewer than 2^64 bytes in total in pieces shorter than 2^63 bytes -/
example (sd : Nat) (ops : List Op) (h1 : ∀ op ∈ ops, OpSmall op) (h2 : (ops.map opTotal).sum < 2 ^ 64) :
    Bounded sd [] ops :=
  bounded_of_total sd ops [] 0 (by intro r hr; simp at hr) h1 (by omega)

/-- a concrete history: two hashers in different modes, interleaved updates, a clone, a reset -/
example (x y : List UInt8) (hx : x.length = 5000) (hy : y.length = 70) : Bounded 4 []
    [Op.new .hash, Op.new (.derive [1, 2, 3]), Op.update 0 x, Op.update 1 y, Op.clone 0, Op.reset 0, Op.update 2 y] := by
  apply bounded_of_total 4 _ [] 0 (by intro r hr; simp at hr)
  · intro op hop
    simp only [List.mem_cons, List.not_mem_nil, or_false] at hop
    rcases hop with rfl | rfl | rfl | rfl | rfl | rfl | rfl <;>
      first
        | trivial
        | (show _ < 2 ^ 63; omega)
        | (intro ctx hc; cases hc; show (3 : Nat) < 2 ^ 64; omega)
        | (intro ctx hc; cases hc)
  · simp only [List.map_cons, List.map_nil, opTotal, List.sum_cons, List.sum_nil, hx, hy]
    omega

/-- … the main theorem instantiated: `hashManyRef`, degree 4 -/
example (ops : List Op) (hb : Bounded 4 [] ops) :
    ∃ ts, trun 4 (RsUpdate.hashManyRef genK) 4 4 [] ops = .ok ts ∧ ts.length = (run 4 ops).length :=
  have h := (translated_history_eq_spec 4 2 rfl (RsUpdate.hashManyRef genK)
    (by intro N inputs key t inc flags fs fe out _ _ _ h _; unfold RsUpdate.hashManyRef; rw [if_pos h])
    4 4 ⟨⟨2, rfl⟩, by omega, by omega, by omega, by omega⟩ ops hb).1
  let ⟨ts, h1, h2, _⟩ := h
  ⟨ts, h1, h2⟩

/-- a single-hasher history within `HBounded`, and a reader history within `RBounded` -/
example (x : List UInt8) (hx : x.length = 5000) :
    HBounded [] [HOp.update x, HOp.reset, HOp.update [1, 2, 3], HOp.update x] ∧
    RBounded 0 [ROp.fill 100, ROp.seek (.start (2 ^ 40)), ROp.fill 64, ROp.setPosition 5, ROp.fill 1000,
      ROp.seek (.current (-3)), ROp.seek (.end 0), ROp.fill 1] := by
  refine ⟨?_, ?_⟩
  · simp only [HBounded, List.length_nil, List.length_append, List.length_cons, hx]
    decide
  · simp only [RBounded, ROpOk, specPos]
    decide

/-- `UpdPre` (theorem 2) holds for a fresh hasher and any slice -/
example (key : CV) (flags : UInt8) (x : List UInt8) (hx : x.length < 2 ^ 63) :
    RsUpdate.UpdPre (Rs.Hasher.newInternal key flags) x :=
  ⟨Nat.le_refl _, fun _ => rfl, by simp [Rs.Hasher.newInternal, Rs.ChunkState.new, Rs.ChunkState.count], hx, by
    show 0 * 1024 + 0 + x.length < 2 ^ 64
    omega⟩

end B3.Proofs.Capstone
