/-
The byte <-> word conversion helpers of src/platform.rs, as translated statement by statement (`B3.Gen.Conv`, G42), are the
conversions every model and every other translator uses: `wordsOfBytes` (little-endian words, position i = bytes 4i..4i+3)
and `bytesOfWords`. They depend only on the VALUE of the byte array - there is no address, hence no alignment, in their meaning.
-/
import B3.Gen.Conv
namespace B3.Props.C01V
open B3

theorem words_from_le_bytes_32_eq (bs : List UInt8) : Gen.Conv.words_from_le_bytes_32 bs = wordsOfBytes 8 bs := by
  apply Vector.ext
  intro i hi
  have : i = 0 ∨ i = 1 ∨ i = 2 ∨ i = 3 ∨ i = 4 ∨ i = 5 ∨ i = 6 ∨ i = 7 := by omega
  rcases this with h | h | h | h | h | h | h | h <;> subst h <;>
    simp [Gen.Conv.words_from_le_bytes_32, wordsOfBytes, wordAt]

theorem words_from_le_bytes_64_eq (bs : List UInt8) : Gen.Conv.words_from_le_bytes_64 bs = wordsOfBytes 16 bs := by
  apply Vector.ext
  intro i hi
  have : i = 0 ∨ i = 1 ∨ i = 2 ∨ i = 3 ∨ i = 4 ∨ i = 5 ∨ i = 6 ∨ i = 7 ∨ i = 8 ∨ i = 9 ∨ i = 10 ∨ i = 11 ∨ i = 12 ∨ i = 13 ∨
      i = 14 ∨ i = 15 := by omega
  rcases this with h | h | h | h | h | h | h | h | h | h | h | h | h | h | h | h <;> subst h <;>
    simp [Gen.Conv.words_from_le_bytes_64, wordsOfBytes, wordAt]

theorem le_bytes_from_words_32_eq (v : Vector UInt32 8) : Gen.Conv.le_bytes_from_words_32 v = bytesOfWords v := by
  obtain ⟨⟨l⟩, hl⟩ := v
  match l, hl with
  | [a, b, c, d, e, f, g, h], _ => rfl

theorem le_bytes_from_words_64_eq (v : Vector UInt32 16) : Gen.Conv.le_bytes_from_words_64 v = bytesOfWords v := by
  obtain ⟨⟨l⟩, hl⟩ := v
  match l, hl with
  | [a, b, c, d, e, f, g, h, a', b', c', d', e', f', g', h'], _ => rfl

/-- round trip on a full array: the key / block bytes are recovered from the words -/
theorem bytes_words_roundtrip_32 (v : Vector UInt32 8) :
    Gen.Conv.words_from_le_bytes_32 (Gen.Conv.le_bytes_from_words_32 v) = v := by
  obtain ⟨⟨l⟩, hl⟩ := v
  match l, hl with
  | [a, b, c, d, e, f, g, h], _ =>
    simp [Gen.Conv.words_from_le_bytes_32, Gen.Conv.le_bytes_from_words_32, le32_bytes]

example : Gen.Conv.words_from_le_bytes_32 ((List.range 32).map UInt8.ofNat) =
    #v[0x03020100, 0x07060504, 0x0b0a0908, 0x0f0e0d0c, 0x13121110, 0x17161514, 0x1b1a1918, 0x1f1e1d1c] := by decide

end B3.Props.C01V
