/-
`compress_subtree_to_parent_node`: after `compress_subtree_wide`, the `while num_cvs > 2` loop
condenses the returned chaining values to exactly the two children of the subtree's top node.
-/
import B3.Tree.Basic
import B3.Tree.Hasher
import B3.Tree.Wide
namespace Hs
open Tr

variable {α β : Type} (node : α → α → α) (d : α)
variable (c : Nat)
variable (leaf : Nat → List β → α)

/-- the `while num_cvs > 2` loop -/
def condense (cvs : List α) : List α :=
  if h : 2 < cvs.length then condense (pairUp node cvs) else cvs
termination_by cvs.length
decreasing_by rw [pairUp_length]; omega

/-- `compress_subtree_to_parent_node` -/
def toPair (sd t : Nat) (input : List β) : α × α :=
  let cvs := condense node (wide node c leaf sd t input)
  (cvs.getD 0 d, cvs.getD 1 d)

theorem condense_iter (e : Nat) : ∀ (xs : List α), 2 ^ e < xs.length → xs.length ≤ 2 ^ (e + 1) →
    condense node xs = iter node e xs := by
  induction e with
  | zero =>
    intro xs h1 h2
    rw [condense, dif_neg (by simp at h1 h2; omega)]; rfl
  | succ e ih =>
    intro xs h1 h2
    have hp := Nat.two_pow_pos e
    rw [Nat.pow_succ] at h1
    rw [Nat.pow_succ, Nat.pow_succ] at h2
    rw [condense, dif_pos (by omega)]
    simp only [iter]
    apply ih
    · rw [pairUp_length]; omega
    · rw [pairUp_length, Nat.pow_succ]; omega

theorem iter_singleton_collapse (a : Nat) (xs : List α) (h1 : 1 ≤ xs.length) (h2 : xs.length ≤ 2 ^ a) :
    iter node a xs = [collapse node d xs] := by
  have e := collapse_eq_iter node d a xs h2
  have l1 := iter_len_le_one node a xs h2
  have l2 := iter_len_pos node a xs h1
  match hx : iter node a xs, l1, l2 with
  | [x], _, _ => rw [e, hx]; rfl

theorem iter_two (a : Nat) (xs ys : List α) (hx : xs.length = 2 ^ a) (hy1 : 1 ≤ ys.length)
    (hy2 : ys.length ≤ 2 ^ a) :
    iter node a (xs ++ ys) = [collapse node d xs, collapse node d ys] := by
  have := Nat.two_pow_pos a
  rw [iter_append_pow node a xs ys hx, iter_singleton_collapse node d a xs (by omega) (by omega),
    iter_singleton_collapse node d a ys hy1 hy2]
  rfl

theorem leftLen_facts (n : Nat) (hn : 2 ^ c < n) :
    ∃ a, leftLen c n = 2 ^ a * 2 ^ c ∧ 2 ^ a * 2 ^ c < n ∧
         nchunks c (n - 2 ^ a * 2 ^ c) = nchunks c n - 2 ^ a ∧
         1 ≤ nchunks c n - 2 ^ a ∧ nchunks c n - 2 ^ a ≤ 2 ^ a ∧ 2 ^ a < nchunks c n := by
  obtain ⟨a, h1, h2, _, h4, h5, h6, h7⟩ := split_facts c 1 0 n (by simp) (by simpa using hn)
  exact ⟨a, h1, h2, h4, h5, h6, h7⟩

/-- the leaves of an input split at `leftLen` -/
theorem allLeaves_split (t : Nat) (input : List β) (a : Nat) (hL : 2 ^ a * 2 ^ c < input.length) :
    allLeaves c leaf t input =
      allLeaves c leaf t (input.take (2 ^ a * 2 ^ c)) ++ allLeaves c leaf (t + 2 ^ a) (input.drop (2 ^ a * 2 ^ c)) := by
  have hp := Nat.two_pow_pos a
  have htk : (input.take (2 ^ a * 2 ^ c)).length = 2 ^ a * 2 ^ c := by
    rw [List.length_take]; omega
  have := allLeaves_append c leaf (2 ^ a) t (input.take (2 ^ a * 2 ^ c)) (input.drop (2 ^ a * 2 ^ c)) htk
    (by rw [List.length_drop]; omega)
  rw [List.take_append_drop] at this
  rw [this]
  congr 1
  obtain ⟨k, hk⟩ : ∃ k, 2 ^ a = k + 1 := ⟨2 ^ a - 1, by omega⟩
  exact (allLeaves_complete c leaf k t _ (by rw [htk, hk])).symm

/-- `compress_subtree_to_parent_node` returns the chaining values of the two subtrees into which
the specification splits the input (left = the largest power of two of chunks strictly less than
the total), for every SIMD degree -/
theorem toPair_spec (sd j : Nat) (hsd : sd = 2 ^ j) (t : Nat) (input : List β) (hn : 2 ^ c < input.length) :
    toPair node d c leaf sd t input =
      (collapse node d (allLeaves c leaf t (input.take (leftLen c input.length))),
       collapse node d (allLeaves c leaf (t + leftLen c input.length / 2 ^ c) (input.drop (leftLen c input.length)))) := by
  have hp := Nat.two_pow_pos c
  have hj := Nat.two_pow_pos j
  obtain ⟨a, f1, f2, f3, f4, f5, f6⟩ := leftLen_facts c input.length hn
  have hpa := Nat.two_pow_pos a
  have hdiv : 2 ^ a * 2 ^ c / 2 ^ c = 2 ^ a := Nat.mul_div_cancel _ hp
  have hpos : 0 < 2 ^ a * 2 ^ c := Nat.mul_pos hpa hp
  have htk : (input.take (2 ^ a * 2 ^ c)).length = 2 ^ a * 2 ^ c := by rw [List.length_take]; omega
  have hdr : (input.drop (2 ^ a * 2 ^ c)).length = input.length - 2 ^ a * 2 ^ c := List.length_drop ..
  have hLl : (allLeaves c leaf t (input.take (2 ^ a * 2 ^ c))).length = 2 ^ a := by
    rw [allLeaves_length c leaf t _ (by omega), htk, nchunks_pow]
  have hRl : (allLeaves c leaf (t + 2 ^ a) (input.drop (2 ^ a * 2 ^ c))).length = nchunks c input.length - 2 ^ a := by
    rw [allLeaves_length c leaf _ _ (by omega), hdr, f3]
  rw [f1, hdiv]
  unfold toPair
  by_cases hb : input.length ≤ sd * 2 ^ c
  · -- one SIMD batch: the leaves themselves
    rw [wide_base node c leaf sd t input hb, allLeaves_split c leaf t input a f2]
    have hlen : (allLeaves c leaf t (input.take (2 ^ a * 2 ^ c)) ++
        allLeaves c leaf (t + 2 ^ a) (input.drop (2 ^ a * 2 ^ c))).length = nchunks c input.length := by
      rw [List.length_append, hLl, hRl]; omega
    rw [condense_iter node a _ (by rw [hlen]; exact f6) (by rw [hlen, Nat.pow_succ]; omega)]
    rw [iter_two node d a _ _ hLl (by omega) (by omega)]
    rfl
  · -- recursion: left is a complete subtree
    have hL : 0 < leftLen c input.length ∧ leftLen c input.length < input.length := by
      rw [f1]; exact ⟨Nat.mul_pos hpa hp, f2⟩
    obtain ⟨a', g1, _, g3, _, _, _, _⟩ := split_facts c sd j input.length hsd (by omega)
    have haa : a' = a := by
      have : 2 ^ a' * 2 ^ c = 2 ^ a * 2 ^ c := by rw [← g1, ← f1]
      have e := Nat.eq_of_mul_eq_mul_right hp this
      have h1 := (Nat.pow_le_pow_iff_right (a := 2) (by omega)).mp (Nat.le_of_eq e)
      have h2 := (Nat.pow_le_pow_iff_right (a := 2) (by omega)).mp (Nat.le_of_eq e.symm)
      omega
    subst haa
    rw [wide_step node c leaf sd t input hb hL, f1, hdiv]
    obtain ⟨l1, l2, l3, l4⟩ := wide_spec node d c leaf sd j hsd _ t (input.take (2 ^ a' * 2 ^ c)) rfl (by omega)
    obtain ⟨r1, r2, r3, _⟩ := wide_spec node d c leaf sd j hsd _ (t + 2 ^ a') (input.drop (2 ^ a' * 2 ^ c)) rfl (by omega)
    have l4' := l4 a' htk
    rw [← l1, ← r1]
    generalize hl : wide node c leaf sd t (input.take (2 ^ a' * 2 ^ c)) = l at *
    generalize hr : wide node c leaf sd (t + 2 ^ a') (input.drop (2 ^ a' * 2 ^ c)) = r at *
    -- |r| ≤ |l|
    have hrl : r.length ≤ l.length := by
      by_cases hle : 2 ^ a' ≤ sd
      · rw [if_pos hle] at l4'
        have hsa : sd = 2 ^ a' := by
          rw [hsd] at hle ⊢
          have := Nat.pow_le_pow_right (show 0 < 2 by omega) g3
          omega
        have hrb : (input.drop (2 ^ a' * 2 ^ c)).length ≤ sd * 2 ^ c := by
          obtain ⟨s1, s2, s3⟩ := nchunks_spec c input.length (by omega)
          have : nchunks c input.length * 2 ^ c ≤ (2 ^ a' + 2 ^ a') * 2 ^ c := Nat.mul_le_mul_right _ (by omega)
          rw [Nat.add_mul] at this
          rw [hdr, hsa]; omega
        rw [← hr, wide_base node c leaf sd _ _ hrb, hRl, l4']; exact f5
      · rw [if_neg hle] at l4'; omega
    by_cases h1 : l.length = 1
    · rw [if_pos h1]
      have hr1 : r.length = 1 := by omega
      match l, r, h1, hr1 with
      | [x], [y], _, _ =>
        rw [condense, dif_neg (by simp)]
        simp [collapse_le_one]
    · rw [if_neg h1]
      -- |l| = 2^b with b ≥ 1
      obtain ⟨b, hb1, hb2⟩ : ∃ b, l.length = 2 ^ b ∧ 1 ≤ b := by
        by_cases hle : 2 ^ a' ≤ sd
        · rw [if_pos hle] at l4'
          refine ⟨a', l4', ?_⟩
          cases a' with
          | zero => simp at l4'; omega
          | succ a'' => omega
        · rw [if_neg hle] at l4'
          obtain ⟨b, e1, e2⟩ := max_pow j
          exact ⟨b, by rw [l4', hsd, e1], e2⟩
      obtain ⟨b', rfl⟩ : ∃ b', b = b' + 1 := ⟨b - 1, by omega⟩
      have hpb := Nat.two_pow_pos b'
      rw [Nat.pow_succ] at hb1
      rw [condense_iter node b' _ (by rw [pairUp_length, List.length_append]; omega)
            (by rw [pairUp_length, List.length_append, Nat.pow_succ]; omega)]
      have : iter node b' (pairUp node (l ++ r)) = iter node (b' + 1) (l ++ r) := rfl
      rw [this, iter_two node d (b' + 1) l r (by rw [Nat.pow_succ]; exact hb1) r2 (by rw [Nat.pow_succ]; omega)]
      rfl

end Hs
