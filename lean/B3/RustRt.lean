/-
Primitive vocabulary of the statement-level translation of reference_impl/reference_impl.rs
(`gen/ext_ref.py` -> `B3/Gen/RefImpl.lean`): what the Rust slice / array / integer operations the
reference uses mean, as functions into the panic monad `R` of `B3/Arith.lean`.  Hand-written and
small on purpose: this file (with `Arith.lean` and `Prim.lean`) is the trusted mapping.

Representation chosen by the translator
* `u8`, `u64`, `usize` values are `Nat`s; `+ - *` are checked against the width of the Rust type
  (`Arith.cadd/csub/cmul` for the 64-bit types, `cadd8/cmul8` here for `u8`) and panic on overflow,
  as the crate does when built with overflow checks; `x as u8` truncates (`asU8`);
* `u32` is `UInt32` (only `| & ^ <<` occur);
* `&[u8]`, `&mut [u8]`, `[u8; N]`, `&str` (its bytes) are `List UInt8` -- that a `[u8; N]` keeps
  its length `N` is proved (it is part of the correspondence in `Proofs/RefImpl.lean`), not assumed;
* `[u32; N]`, `[[u32; 8]; N]` are `Vector`s, `&mut [u32]` is a `Vector UInt32 n` for the caller's `n`;
* a place expression `a[i..][..k]` denotes a window (`Win`: offset and length inside `a`), computed
  with the same bounds checks, in the same order, as the Rust slicing operations.
-/
import B3.Prim
import B3.Arith
namespace B3.Rt
open B3

variable {α : Type}

/-! ### `u8` arithmetic (overflow checks on) and casts -/

def cadd8 (a b : Nat) : R Nat := if a + b < 256 then .ok (a + b) else .panic
def cmul8 (a b : Nat) : R Nat := if a * b < 256 then .ok (a * b) else .panic
/-- `x as u8` from a wider unsigned type -/
def asU8 (a : Nat) : Nat := a % 256

/-! ### reading sub-slices: `&s[..b]`, `&s[a..]`, `&s[a..b]` -/

def sliceTo (s : List α) (b : Nat) : R (List α) := if b ≤ s.length then .ok (s.take b) else .panic
def sliceFrom (s : List α) (a : Nat) : R (List α) := if a ≤ s.length then .ok (s.drop a) else .panic
def sliceRange (s : List α) (a b : Nat) : R (List α) :=
  if a ≤ b ∧ b ≤ s.length then .ok ((s.take b).drop a) else .panic

/-! ### writing through sub-slices -/

/-- a mutable sub-slice of an array or slice: `len` elements from offset `off` -/
structure Win where
  off : Nat
  len : Nat
deriving DecidableEq

/-- `w[a..]` -/
def Win.from (w : Win) (a : Nat) : R Win := if a ≤ w.len then .ok ⟨w.off + a, w.len - a⟩ else .panic
/-- `w[..b]` -/
def Win.to (w : Win) (b : Nat) : R Win := if b ≤ w.len then .ok ⟨w.off, b⟩ else .panic
/-- `w[a..b]` -/
def Win.range (w : Win) (a b : Nat) : R Win := if a ≤ b ∧ b ≤ w.len then .ok ⟨w.off + a, b - a⟩ else .panic

/-- `dst[w].copy_from_slice(src)`: panics unless `src.len() == w.len` (the second condition holds
for every window derived from the whole of `dst`; it makes the function total) -/
def copyInto (dst : List α) (w : Win) (src : List α) : R (List α) :=
  if src.length = w.len ∧ w.off + w.len ≤ dst.length then
    .ok (dst.take w.off ++ src ++ dst.drop (w.off + w.len))
  else .panic

/-- the same for a fixed-size array -/
def copyIntoVec {n : Nat} (dst : Vector α n) (w : Win) (src : List α) : R (Vector α n) :=
  if h : src.length = w.len ∧ w.off + w.len ≤ n then
    .ok ⟨(dst.toList.take w.off ++ src ++ dst.toList.drop (w.off + w.len)).toArray, by
      simp only [List.size_toArray, List.length_append, List.length_take, List.length_drop, Vector.length_toList]
      omega⟩
  else .panic

/-- `dst.copy_from_slice(src)` on a whole mutable slice: the new contents -/
def copyFromSlice (dst src : List α) : R (List α) := if src.length = dst.length then .ok src else .panic

/-! ### slice -> array conversions (`try_into().unwrap()`) -/

/-- `<[T; n]>::try_from(s).unwrap()` for word arrays -/
def tryInto (n : Nat) (s : List α) : R (Vector α n) :=
  if h : s.length = n then .ok ⟨s.toArray, by simpa using h⟩ else .panic

/-- `<[u8; n]>::try_from(s).unwrap()` (byte arrays are lists) -/
def tryIntoBytes (n : Nat) (s : List UInt8) : R (List UInt8) := if s.length = n then .ok s else .panic

/-! ### array indexing -/

def vget {n : Nat} (v : Vector α n) (i : Nat) : R α := if h : i < n then .ok (v[i]'h) else .panic
def vset {n : Nat} (v : Vector α n) (i : Nat) (x : α) : R (Vector α n) :=
  if h : i < n then .ok (v.set i x h) else .panic

/-! ### little-endian words -/

/-- `u32::from_le_bytes(b)`, `b : [u8; 4]` -/
def u32FromLeBytes (b : List UInt8) : UInt32 := le32 (b.getD 0 0) (b.getD 1 0) (b.getD 2 0) (b.getD 3 0)
/-- `w.to_le_bytes()` -/
def u32ToLeBytes (w : UInt32) : List UInt8 := wordBytes w

/-! ### chunk iterators -/

set_option linter.unusedVariables false in
/-- `s.chunks(k)` / `s.chunks_mut(k)` for `k > 0`: pieces of `k` elements, the last one possibly shorter -/
def chunks (k : Nat) (l : List α) : List (List α) :=
  if h : k = 0 ∨ l = [] then [] else l.take k :: chunks k (l.drop k)
termination_by l.length
decreasing_by
  have h1 : 0 < k := by omega
  have h2 : 0 < l.length := List.length_pos_iff.mpr (by intro e; exact h (Or.inr e))
  simp only [List.length_drop]; omega

set_option linter.unusedVariables false in
/-- `s.chunks_exact(k)` for `k > 0`: the complete pieces only -/
def chunksExact (k : Nat) (l : List α) : List (List α) :=
  if h : k = 0 ∨ l.length < k then [] else l.take k :: chunksExact k (l.drop k)
termination_by l.length
decreasing_by simp only [List.length_drop]; omega

/-- the contents of a slice after a loop over (a prefix of) its `chunks_mut` pieces has replaced
them by `pieces` -/
def writeBack (orig : List α) (pieces : List (List α)) : List α :=
  pieces.flatten ++ orig.drop pieces.flatten.length

end B3.Rt
