/-
Line-protocol driver for the executable models.  One operation per input line, one output line per
operation:   <model output> ; <spec output>        (spec output `-` where no oracle applies)
Imports Spec, Gen and Model only (no Mathlib), so it links as a `lean_exe`.
-/
import B3.Spec
import B3.Gen.RsPortable
import B3.Gen.Arith
import B3.Model.Rs
import B3.Model.GenK
import B3.B3sum.Drv
import B3.Model.C
import B3.Model.Traits
import B3.Model.Ref
import B3.Gen.RefCompress
import B3.Io.Model
import B3.Io.Drv
import B3.Hex.Drv
open B3

def hexDigit (n : Nat) : Char := if n < 10 then Char.ofNat (48 + n) else Char.ofNat (87 + n)

def hexOfBytes (bs : List UInt8) : String :=
  String.ofList (bs.flatMap fun b => [hexDigit (b.toNat / 16), hexDigit (b.toNat % 16)])

def hexVal (c : Char) : Option Nat :=
  if '0' ≤ c ∧ c ≤ '9' then some (c.toNat - 48)
  else if 'a' ≤ c ∧ c ≤ 'f' then some (c.toNat - 87)
  else if 'A' ≤ c ∧ c ≤ 'F' then some (c.toNat - 55)
  else none

def bytesOfHexAux : List Char → Array UInt8 → Option (Array UInt8)
  | [], acc => some acc
  | [_], _ => none
  | a :: b :: r, acc => match hexVal a, hexVal b with
    | some x, some y => bytesOfHexAux r (acc.push (UInt8.ofNat (16 * x + y)))
    | _, _ => none

def bytesOfHex (s : String) : Option (List UInt8) :=
  if s = "-" then some [] else (bytesOfHexAux s.toList #[]).map Array.toList

def cvOfBytes (bs : List UInt8) : CV := wordsOfBytes 8 bs


/-- data argument: `pat <len> <seed>` or `hex <bytes>` -/
def parseData : List String → Option (List UInt8 × List String)
  | "pat" :: n :: seed :: rest => do
    let n ← n.toNat?; let seed ← seed.toNat?
    some (patBytes n (UInt64.ofNat seed), rest)
  | "pats" :: n :: seed :: skip :: rest => do
    let n ← n.toNat?; let seed ← seed.toNat?; let skip ← skip.toNat?
    some ((patBytes (skip + n) (UInt64.ofNat seed)).drop skip, rest)
  | "hex" :: h :: rest => do some (← bytesOfHex h, rest)
  | _ => none

def parseMode : List String → Option (Spec.Mode × List String)
  | "hash" :: rest => some (.hash, rest)
  | "keyed" :: k :: rest => do
    let kb ← bytesOfHex k
    if kb.length = 32 then some (.keyed kb, rest) else none
  | "derive" :: c :: rest => do some (.derive (← bytesOfHex c), rest)
  | _ => none

structure HReg where
  h : Rs.Hasher
  mode : Spec.Mode
  absorbed : List UInt8      -- ghost: bytes absorbed so far

structure XReg where
  r : Rs.OutputReader
  specNode : Spec.Node       -- ghost: the spec's root node for this stream

/-- a chaining-value register with its ghost meaning: the CV of the subtree over `bytes` starting
at chunk counter `t0` -/
structure VReg where
  cv : CV
  t0 : Nat
  bytes : List UInt8

/-- a C hasher register: model state, ghost mode and absorbed bytes -/
structure CReg where
  h : C.Hasher
  mode : Spec.Mode
  absorbed : List UInt8

structure DState where
  sd : Nat := 1
  plat : String := "Portable"
  gregs : List (String × Rs.ChunkState) := []
  rregs : List (String × Ref.Hasher × Spec.Mode × List UInt8) := []
  csd : Nat := 16          -- blake3_simd_degree() under the current g_cpu_features
  cregs : List (String × CReg) := []
  hs : List (String × HReg) := []
  xs : List (String × XReg) := []
  vs : List (String × VReg) := []

def DState.getH (s : DState) (r : String) : Option HReg := (s.hs.find? (·.1 = r)).map (·.2)
def DState.setH (s : DState) (r : String) (v : HReg) : DState :=
  { s with hs := (r, v) :: s.hs.filter (·.1 ≠ r) }
def DState.getX (s : DState) (r : String) : Option XReg := (s.xs.find? (·.1 = r)).map (·.2)
def DState.setX (s : DState) (r : String) (v : XReg) : DState :=
  { s with xs := (r, v) :: s.xs.filter (·.1 ≠ r) }


def DState.getC (s : DState) (r : String) : Option CReg := (s.cregs.find? (·.1 = r)).map (·.2)
def DState.setC (s : DState) (r : String) (v : CReg) : DState :=
  { s with cregs := (r, v) :: s.cregs.filter (·.1 ≠ r) }

/-- spec stream computed block-wise (same value as `Spec.Node.stream`, without recomputing a
compression per byte) -/
def streamFast (n : Spec.Node) (pos len : Nat) : List UInt8 :=
  if len = 0 then [] else
  let b0 := pos / 64
  let b1 := (pos + len - 1) / 64
  let bytes := (List.range (b1 - b0 + 1)).flatMap fun i => n.xofBlock (b0 + i)
  (bytes.drop (pos % 64)).take len

def DState.getV (s : DState) (r : String) : Option VReg := (s.vs.find? (·.1 = r)).map (·.2)
def DState.setV (s : DState) (r : String) (v : VReg) : DState :=
  { s with vs := (r, v) :: s.vs.filter (·.1 ≠ r) }

def showR : R Nat → String
  | .ok n => toString n
  | .panic => "PANIC"

def modeKey (m : Spec.Mode) : CV := m.key
def modeFlags (m : Spec.Mode) : UInt8 := m.flags

def rsModeKey (sd : Nat) (m : Spec.Mode) : CV := Rs.modeKeyWords genK sd m
def rsModeFlags (m : Spec.Mode) : UInt8 := Rs.modeFlags m

def platDebugName : String → String
  | "portable" => "Portable"
  | "sse2" => "SSE2"
  | "sse41" => "SSE41"
  | "avx2" => "AVX2"
  | "avx512" => "AVX512"
  | _ => "?"

/-- the published vectors' input pattern -/
def vecInput (n : Nat) : List UInt8 := ((List.range n).toArray.map fun i => UInt8.ofNat (i % 251)).toList

/-- reader-script events (`d<len>:<seed>`, `s<len>:<seed>:<k>`, `i`, `z`, `e`, `e:<Kind>`) with real pattern bytes -/
def shortPieces (bs : List UInt8) (k : Nat) : List Io.ReadEvent :=
  if h : bs.length ≤ k ∨ k = 0 then [.data bs] else .data (bs.take k) :: shortPieces (bs.drop k) k
termination_by bs.length
decreasing_by simp [List.length_drop]; omega

def parseEvent (s : String) : Option (List Io.ReadEvent) :=
  let kind := (s.take 1).toString
  let rest := (s.drop 1).toString
  if kind == "d" then
    match rest.splitOn ":" with
    | [n, seed] => do let n ← n.toNat?; let seed ← seed.toNat?; pure [.data (patBytes n (UInt64.ofNat seed))]
    | _ => none
  else if kind == "s" then
    match rest.splitOn ":" with
    | [n, seed, k] => do
      let n ← n.toNat?; let seed ← seed.toNat?; let k ← k.toNat?
      if k = 0 then none else pure (shortPieces (patBytes n (UInt64.ofNat seed)) k)
    | _ => none
  else if s == "i" then some [.interrupted]
  else if s == "z" then some [.eof]
  else if s == "e" then some [.fail "Other"]
  else if kind == "e" && rest.startsWith ":" then some [.fail (rest.drop 1).toString]
  else none

def sdOfPlatform : String → Option Nat
  | "portable" => some 1
  | "sse2" => some 4
  | "sse41" => some 4
  | "avx2" => some 8
  | "avx512" => some 16
  | _ => none

def stepToks (s : DState) (toks : List String) : DState × String :=
  let bad := (s, "bad-op")
  match toks with
  | ["P", "plat", p] => match sdOfPlatform p with
    | some sd => ({ s with sd := sd, plat := platDebugName p }, "ok;-")
    | none => bad
  | "H" :: "new" :: r :: rest => match parseMode rest with
    | some (mode, []) =>
      let h := Rs.Hasher.newInternal (rsModeKey s.sd mode) (rsModeFlags mode)
      (s.setH r { h := h, mode := mode, absorbed := [] }, "ok;-")
    | _ => bad
  | ["H", "newck", r, ck] => match bytesOfHex ck with
    -- hazmat new_from_context_key: derive mode with a given context key
    | some kb => if kb.length ≠ 32 then bad else
      let h := Rs.Hasher.newInternal (wordsOfBytes 8 kb) Spec.DERIVE_KEY_MATERIAL
      -- ghost mode: keyed-with-derive-flags is not a Spec.Mode; handled by `Z` ops only
      (s.setH r { h := h, mode := .keyed kb, absorbed := [] }, "ok;-")
    | none => bad
  | "H" :: "upd" :: r :: rest => match s.getH r, parseData rest with
    | some reg, some (data, []) => match reg.h.update genK s.sd data with
      | some h' => (s.setH r { reg with h := h', absorbed := reg.absorbed ++ data }, "ok;-")
      | none => (s, "PANIC;-")
    | _, _ => bad
  | "H" :: "updw" :: r :: rest => match s.getH r, parseData rest with
    | some reg, some (data, []) => match reg.h.update genK s.sd data with
      | some h' => (s.setH r { reg with h := h', absorbed := reg.absorbed ++ data }, "ok " ++ toString data.length ++ ";-")
      | none => (s, "PANIC;-")
    | _, _ => bad
  -- Write::write_vectored over slices of the given lengths (repeated until everything is accepted): the bytes of the slices in order
  | "H" :: "updwv" :: r :: lens :: rest =>
    if (lens.splitOn ",").all (fun x => x.toNat?.isSome) then
      match s.getH r, parseData rest with
      | some reg, some (data, []) => match reg.h.update genK s.sd data with
        | some h' => (s.setH r { reg with h := h', absorbed := reg.absorbed ++ data }, "ok " ++ toString data.length ++ ";-")
        | none => (s, "PANIC;-")
      | _, _ => bad
    else bad
  | ["H", "fin", r] => match s.getH r with
    | some reg =>
      let m := match reg.h.finalize genK with
        | some b => hexOfBytes b
        | none => "PANIC"
      let sp := if reg.h.t0 = 0 then hexOfBytes (Spec.hash reg.mode reg.absorbed) else "-"
      (s, m ++ ";" ++ sp)
    | none => bad
  | ["H", "xof", r, x] => match s.getH r with
    | some reg =>
      if reg.h.t0 ≠ 0 then (s, "PANIC;-") else
      (s.setX x { r := Rs.OutputReader.new (reg.h.finalOutput genK), specNode := Spec.root reg.mode reg.absorbed }, "ok;-")
    | none => bad
  | ["H", "cnt", r] => match s.getH r with
    | some reg =>
      let m := match reg.h.count? with
        | some c => toString c
        | none => "PANIC"
      (s, m ++ ";" ++ toString reg.absorbed.length)
    | none => bad
  | ["H", "clone", r, r2] => match s.getH r with
    | some reg => (s.setH r2 reg, "ok;-")
    | none => bad
  | ["H", "clonefrom", src, dst] => match s.getH src, s.getH dst with
    | some reg, some _ => (s.setH dst reg, "ok;-")      -- `clone_from` = assignment of a clone
    | _, _ => bad
  | ["H", "reset", r] => match s.getH r with
    | some reg => (s.setH r { reg with h := reg.h.reset, absorbed := [] }, "ok;-")
    | none => bad
  | ["H", "off", r, o] => match s.getH r, o.toNat? with
    | some reg, some off => match reg.h.setInputOffset off with
      | some h' => (s.setH r { reg with h := h' }, "ok;-")
      | none => (s, "PANIC;-")
    | _, _ => bad
  | ["H", "cvnr", r] => match s.getH r with
    | some reg =>
      let m := match reg.h.finalizeNonRoot genK with
        | some cv => hexOfBytes (bytesOfWords cv)
        | none => "PANIC"
      let sp := if reg.absorbed.isEmpty then "-" else
        hexOfBytes (bytesOfWords (Spec.subtreeCV reg.h.key reg.h.cs.flags reg.h.t0 reg.absorbed))
      (s, m ++ ";" ++ sp)
    | none => bad
  | ["H", "cvnr", r, v] => match s.getH r with
    | some reg => match reg.h.finalizeNonRoot genK with
      | some cv =>
        let sp := hexOfBytes (bytesOfWords (Spec.subtreeCV reg.h.key reg.h.cs.flags reg.h.t0 reg.absorbed))
        (s.setV v { cv := cv, t0 := reg.h.t0, bytes := reg.absorbed }, hexOfBytes (bytesOfWords cv) ++ ";" ++ sp)
      | none => (s, "PANIC;-")
    | none => bad
  | ["X", "read", x, n] => match s.getX x, n.toNat? with
    | some reg, some n =>
      let pos := reg.r.position
      let (out, r') := reg.r.fill genK n
      (s.setX x { reg with r := r' }, hexOfBytes out ++ ";" ++ hexOfBytes (streamFast reg.specNode pos n))
    | _, _ => bad
  | ["X", "fill", x, n] => match s.getX x, n.toNat? with
    | some reg, some n =>
      let pos := reg.r.position
      let (out, r') := reg.r.fill genK n
      (s.setX x { reg with r := r' }, hexOfBytes out ++ ";" ++ hexOfBytes (streamFast reg.specNode pos n))
    | _, _ => bad
  | ["X", "pos", x] => match s.getX x with
    | some reg => (s, toString reg.r.position ++ ";-")
    | none => bad
  | ["X", "setpos", x, p] => match s.getX x, p.toNat? with
    | some reg, some p => (s.setX x { reg with r := reg.r.setPosition p }, "ok;-")
    | _, _ => bad
  | ["X", "seek", x, whence, v] => match s.getX x, v.toInt? with
    | some reg, some v =>
      let sf : Option Rs.SeekFrom := match whence with
        | "start" => if 0 ≤ v then some (.start v.toNat) else none
        | "cur" => some (.current v)
        | "end" => some (.end v)
        | _ => none
      match sf with
      | none => bad
      | some sf => match reg.r.seek sf with
        | some (r', p) => (s.setX x { reg with r := r' }, toString p ++ ";-")
        | none => (s, "err;-")
    | _, _ => bad
  | ["X", "rewind", x] => match s.getX x with
    -- Seek::rewind (a provided method of the trait): seek(Start(0)), prints the position reached
    | some reg => match reg.r.seek (.start 0) with
      | some (r', p) => (s.setX x { reg with r := r' }, toString p ++ ";-")
      | none => (s, "err;-")
    | none => bad
  | ["X", "spos", x] => match s.getX x with
    -- Seek::stream_position (provided): seek(Current(0))
    | some reg => match reg.r.seek (.current 0) with
      | some (r', p) => (s.setX x { reg with r := r' }, toString p ++ ";-")
      | none => (s, "err;-")
    | none => bad
  | ["X", "clone", x, x2] => match s.getX x with
    | some reg => (s.setX x2 reg, "ok;-")
    | none => bad
  | "O" :: "hash" :: rest => match parseMode rest with
    -- one-shot functions hash / keyed_hash / derive_key
    | some (mode, rest) => match parseData rest with
      | some (data, []) =>
        (s, hexOfBytes (Rs.oneShot genK s.sd mode data) ++ ";" ++ hexOfBytes (Spec.hash mode data))
      | _ => bad
    | none => bad
  | "Z" :: "merge" :: kind :: rest => match parseMode rest with
    | some (mode, [l, r]) => match bytesOfHex l, bytesOfHex r with
      | some lb, some rb =>
        if lb.length ≠ 32 ∨ rb.length ≠ 32 then bad else
        let o := Rs.parentOutput (rsModeKey s.sd mode) (rsModeFlags mode) (cvOfBytes lb) (cvOfBytes rb)
        let sp := Spec.parentNode mode.key mode.flags (cvOfBytes lb) (cvOfBytes rb)
        match kind with
        | "nonroot" => (s, hexOfBytes (bytesOfWords (Rs.chain genK o)) ++ ";" ++ hexOfBytes (bytesOfWords sp.chain))
        | "root" => (s, hexOfBytes (Rs.rootHash genK o) ++ ";" ++ hexOfBytes ((sp.xofBlock 0).take 32))
        | _ => bad
      | _, _ => bad
    | some (mode, [l, r, x]) => match bytesOfHex l, bytesOfHex r with
      | some lb, some rb =>
        if lb.length ≠ 32 ∨ rb.length ≠ 32 ∨ kind ≠ "rootxof" then bad else
        let o := Rs.parentOutput (rsModeKey s.sd mode) (rsModeFlags mode) (cvOfBytes lb) (cvOfBytes rb)
        let sp := Spec.parentNode mode.key mode.flags (cvOfBytes lb) (cvOfBytes rb)
        (s.setX x { r := Rs.OutputReader.new o, specNode := sp }, "ok;-")
      | _, _ => bad
    | _ => bad
  | "Z" :: "mergev" :: kind :: rest => match parseMode rest with
    | some (mode, vl :: vr :: more) => match s.getV vl, s.getV vr with
      | some l, some r =>
        let o := Rs.parentOutput (rsModeKey s.sd mode) (rsModeFlags mode) l.cv r.cv
        -- ghost: the two subtrees are adjacent and the left one is complete => their parent covers both
        let both := l.bytes ++ r.bytes
        match kind, more with
        | "nonroot", [vo] =>
          let cv := Rs.chain genK o
          (s.setV vo { cv := cv, t0 := l.t0, bytes := both },
            hexOfBytes (bytesOfWords cv) ++ ";" ++ hexOfBytes (bytesOfWords (Spec.subtreeCV mode.key mode.flags l.t0 both)))
        | "root", [] => (s, hexOfBytes (Rs.rootHash genK o) ++ ";" ++ hexOfBytes (Spec.hash mode both))
        | "rootxof", [x] => (s.setX x { r := Rs.OutputReader.new o, specNode := Spec.root mode both }, "ok;-")
        | _, _ => bad
      | _, _ => bad
    | _ => bad
  | ["Z", "lsl", n] => match n.toNat? with
    | some n =>
      -- spec: the largest power of two strictly below n, for n in (1024, 2^64)
      let sp := if 1024 < n ∧ n < 2 ^ 64 then toString (2 ^ Nat.log2 (n - 1)) else "-"
      (s, showR (Gen.Rs.left_subtree_len n) ++ ";" ++ sp)
    | none => bad
  | ["Z", "msl", o] => match o.toNat? with
    | some o =>
      let m := match Gen.Rs.max_subtree_len o with
        | .ok none => "none"
        | .ok (some v) => toString v
        | .panic => "PANIC"
      let sp := if o = 0 then "none" else if o % 1024 = 0 ∧ o < 2 ^ 64 then toString (1024 * 2 ^ Arith.tz (o / 1024)) else "-"
      (s, m ++ ";" ++ sp)
    | none => bad
  | ["Z", "ctxkey", c] => match bytesOfHex c with
    | some ctx =>
      (s, hexOfBytes (Rs.rootHash genK (Rs.hashAllAtOnce genK Spec.IV Spec.DERIVE_KEY_CONTEXT s.sd ctx))
          ++ ";" ++ hexOfBytes (Spec.contextKey ctx))
    | none => bad
  | ["K", "cip", _plat, cv, block, bl, t, fl] => match bytesOfHex cv, bytesOfHex block, bl.toNat?, t.toNat?, fl.toNat? with
    | some cvb, some bb, some bl, some t, some fl =>
      let m := genK.cip (cvOfBytes cvb) (wordsOfBytes 16 bb) (UInt8.ofNat bl) (UInt64.ofNat t) (UInt8.ofNat fl)
      let sp := first8 (Spec.compress (cvOfBytes cvb) (wordsOfBytes 16 bb) (UInt64.ofNat t) (UInt32.ofNat bl) (UInt32.ofNat fl))
      (s, hexOfBytes (bytesOfWords m) ++ ";" ++ hexOfBytes (bytesOfWords sp))
    | _, _, _, _, _ => bad
  | ["K", "cxof", _plat, cv, block, bl, t, fl] => match bytesOfHex cv, bytesOfHex block, bl.toNat?, t.toNat?, fl.toNat? with
    | some cvb, some bb, some bl, some t, some fl =>
      let m := genK.cxof (cvOfBytes cvb) (wordsOfBytes 16 bb) (UInt8.ofNat bl) (UInt64.ofNat t) (UInt8.ofNat fl)
      let sp := Spec.compress (cvOfBytes cvb) (wordsOfBytes 16 bb) (UInt64.ofNat t) (UInt32.ofNat bl) (UInt32.ofNat fl)
      (s, hexOfBytes (bytesOfWords m) ++ ";" ++ hexOfBytes (bytesOfWords sp))
    | _, _, _, _, _ => bad
  -- ---- adapters: scripted reader (C11), multithreaded entry points (C08)
  | "H" :: op :: r :: evs => match (if op = "updrd" ∨ op = "updrdx" then s.getH r else none), evs.mapM parseEvent with
    | some reg, some groups =>
      let events := groups.flatten
      -- the hasher threaded through copy_wide: `none` would be a panic of update (impossible without an offset)
      let (ho, res, _) := Io.copyWide (fun (o : Option Rs.Hasher) x => o.bind (fun h => h.update genK s.sd x)) events (some reg.h)
      match ho with
      | some h' =>
        let resS := match res with
          | .ok _ => "ok"
          | .error k => "err:" ++ k
        -- `updrdx` also reports read calls, events consumed and undelivered bytes (Io.Drv.predict, sizes only)
        let out := if op = "updrdx" then " ".intercalate ((Io.Drv.predict evs).splitOn " " |>.take 4) else resS
        (s.setH r { reg with h := h', absorbed := reg.absorbed ++ Io.dataBefore events }, out ++ ";-")
      | none => (s, "PANIC;-")
    | _, _ =>
      -- not a reader op: fall through to the remaining `H` ops
      match op :: r :: evs with
      | "updray" :: r :: _threads :: rest => match s.getH r, parseData rest with
        | some reg, some (data, []) => match reg.h.update genK s.sd data with
          | some h' => (s.setH r { reg with h := h', absorbed := reg.absorbed ++ data }, "ok;-")
          | none => (s, "PANIC;-")
        | _, _ => bad
      | "updsj" :: r :: _script :: rest => match s.getH r, parseData rest with
        | some reg, some (data, []) => match reg.h.update genK s.sd data with
          | some h' => (s.setH r { reg with h := h', absorbed := reg.absorbed ++ data }, "ok;-")
          | none => (s, "PANIC;-")
        | _, _ => bad
      | _ => bad
  -- ---- reference implementation (model run with the compression function generated from reference_impl.rs)
  | "R" :: "new" :: r :: rest => match parseMode rest with
    | some (mode, []) => match Ref.newMode Gen.Ref.compress mode with
      | some h => ({ s with rregs := (r, h, mode, []) :: s.rregs.filter (·.1 ≠ r) }, "ok;-")
      | none => (s, "PANIC;-")
    | _ => bad
  | "R" :: "upd" :: r :: rest => match s.rregs.find? (·.1 = r), parseData rest with
    | some (_, h, mode, ab), some (data, []) => match h.update Gen.Ref.compress data with
      | some h' => ({ s with rregs := (r, h', mode, ab ++ data) :: s.rregs.filter (·.1 ≠ r) }, "ok;-")
      | none => (s, "PANIC;-")
    | _, _ => bad
  | ["R", "fin", r, n] => match s.rregs.find? (·.1 = r), n.toNat? with
    | some (_, h, mode, ab), some n => match h.finalize Gen.Ref.compress n with
      | some out => (s, hexOfBytes out ++ ";" ++ hexOfBytes (streamFast (Spec.root mode ab) 0 n))
      | none => (s, "PANIC;-")
    | _, _ => bad
  -- ---- published vectors: the specification's output for the vector input pattern
  | "V" :: "spec" :: n :: outlen :: rest => match parseMode rest, n.toNat?, outlen.toNat? with
    | some (mode, []), some n, some ol => (s, hexOfBytes (streamFast (Spec.root mode (vecInput n)) 0 ol) ++ ";-")
    | _, _, _ => bad
  -- ---- guts
  | ["G", "new", g, counter] => match counter.toNat? with
    | some t => ({ s with gregs := (g, Traits.gutsNew t) :: s.gregs.filter (·.1 ≠ g) }, "ok;-")
    | none => bad
  | "G" :: "upd" :: g :: rest => match s.gregs.find? (·.1 = g), parseData rest with
    | some (_, cs), some (data, []) =>
      -- debug builds assert count <= CHUNK_LEN at the end of ChunkState::update
      let cs' := Traits.gutsUpdate genK cs data
      if cs'.count ≤ 1024 then ({ s with gregs := (g, cs') :: s.gregs.filter (·.1 ≠ g) }, "ok;-") else (s, "PANIC;-")
    | _, _ => bad
  | ["G", "len", g] => match s.gregs.find? (·.1 = g) with
    | some (_, cs) => (s, toString (Traits.gutsLen cs) ++ ";-")
    | none => bad
  | ["G", "fin", g, root] => match s.gregs.find? (·.1 = g) with
    | some (_, cs) => match Traits.gutsFinalize genK cs (root = "root") with
      | some out => (s, hexOfBytes out ++ ";-")
      | none => (s, "PANIC;-")
    | none => bad
  -- `finalize` as a build without debug assertions runs it: the root hash is computed with counter 0 whatever the chunk counter is
  | ["G", "finrel", g, root] => match s.gregs.find? (·.1 = g) with
    | some (_, cs) =>
      (s, hexOfBytes (if root = "root" then Rs.rootHash genK cs.output else bytesOfWords (Rs.chain genK cs.output)) ++ ";-")
    | none => bad
  | ["G", "parent", l, r, root] => match bytesOfHex l, bytesOfHex r with
    | some lb, some rb =>
      if lb.length ≠ 32 ∨ rb.length ≠ 32 then bad else
      (s, hexOfBytes (Traits.gutsParentCv genK (cvOfBytes lb) (cvOfBytes rb) (root = "root")) ++ ";-")
    | _, _ => bad
  -- ---- RustCrypto traits (registers are shared with the inherent API)
  | ["T", "newkey", r, k] => match bytesOfHex k with
    | some kb => if kb.length ≠ 32 then bad else
      (s.setH r { h := Traits.keyInitNew kb, mode := .keyed kb, absorbed := [] }, "ok;-")
    | none => bad
  | ["T", "newkeyslice", r, k] => match bytesOfHex k with
    | some kb => match Traits.keyInitNewFromSlice kb with
      | some h => (s.setH r { h := h, mode := .keyed kb, absorbed := [] }, "ok;-")
      | none => (s, "err;-")
    | none => bad
  | "T" :: "upd" :: r :: rest => match s.getH r, parseData rest with
    | some reg, some (data, []) => match Traits.update genK s.sd reg.h data with
      | some h' => (s.setH r { reg with h := h', absorbed := reg.absorbed ++ data }, "ok;-")
      | none => (s, "PANIC;-")
    | _, _ => bad
  | ["T", "reset", r] => match s.getH r with
    | some reg => (s.setH r { reg with h := Traits.reset reg.h, absorbed := [] }, "ok;-")
    | none => bad
  | ["T", op, r] => match s.getH r with
    | some reg =>
      let sp := if reg.h.t0 = 0 then hexOfBytes (Spec.hash reg.mode reg.absorbed) else "-"
      if op = "fin" ∨ op = "digestfin" ∨ op = "mac" then
        match Traits.finalizeInto genK reg.h with
        | some out => (s, hexOfBytes out ++ ";" ++ sp)
        | none => (s, "PANIC;-")
      else if op = "finr" then
        match Traits.finalizeIntoReset genK reg.h with
        | some (out, h') => (s.setH r { reg with h := h', absorbed := [] }, hexOfBytes out ++ ";" ++ sp)
        | none => (s, "PANIC;-")
      else bad
    | none => bad
  | ["T", "macverify", r, tag] => match s.getH r, bytesOfHex tag with
    | some reg, some tb => match Traits.macVerifySlice genK reg.h tb with
      | some b => (s, (if b then "ok" else "err") ++ ";-")
      | none => (s, "PANIC;-")
    | _, _ => bad
  | ["T", "xof", r, x] => match s.getH r with
    | some reg => match Traits.finalizeXof genK reg.h with
      | some rd => (s.setX x { r := rd, specNode := Spec.root reg.mode reg.absorbed }, "ok;-")
      | none => (s, "PANIC;-")
    | none => bad
  | ["T", "xofr", r, x] => match s.getH r with
    | some reg => match Traits.finalizeXofReset genK reg.h with
      | some (rd, h') =>
        ((s.setX x { r := rd, specNode := Spec.root reg.mode reg.absorbed }).setH r { reg with h := h', absorbed := [] }, "ok;-")
      | none => (s, "PANIC;-")
    | none => bad
  | ["T", "read", x, n] => match s.getX x, n.toNat? with
    | some reg, some n =>
      let pos := reg.r.position
      let (out, r') := Traits.xofRead genK reg.r n
      (s.setX x { reg with r := r' }, hexOfBytes out ++ ";" ++ hexOfBytes (streamFast reg.specNode pos n))
    | _, _ => bad
  -- ---- Debug output: only lengths, counters, flags, platform, position
  | ["D", "dbg", r] => match s.getH r with
    | some reg => (s, s!"Hasher_\{_flags:_{reg.h.cs.flags.toNat},_platform:_{s.plat}_}" ++ ";-")
    | none => bad
  | ["D", "dbgx", x] => match s.getX x with
    | some reg => (s, s!"OutputReader_\{_position:_{reg.r.position}_}" ++ ";-")
    | none => bad
  | ["D", "dbgg", g] => match s.gregs.find? (·.1 = g) with
    | some (_, cs) =>
      (s, s!"ChunkState(ChunkState_\{_count:_{cs.count},_chunk_counter:_{cs.t},_flags:_{cs.flags.toNat},_platform:_{s.plat}_})" ++ ";-")
    | none => bad
  -- ---- kernels: many inputs / many output blocks (contract over the single-block kernel)
  | ["K", "hmany", _plat, n, blocks, seed, key, ctr, incr, fl, fs, fe, _inoff, _outoff] =>
    match n.toNat?, blocks.toNat?, seed.toNat?, bytesOfHex key, ctr.toNat?, fl.toNat?, fs.toNat?, fe.toNat? with
    | some n, some blocks, some seed, some kb, some ctr, some fl, some fs, some fe =>
      let outs := (List.range n).flatMap fun i =>
        let inp := patBytes (blocks * 64) (UInt64.ofNat (seed + i))
        let t := if incr = "1" then ctr + i else ctr
        bytesOfWords (Rs.hash1 genK (cvOfBytes kb) t (UInt8.ofNat fl) (UInt8.ofNat fs) (UInt8.ofNat fe) inp)
      (s, hexOfBytes outs ++ ";-")
    | _, _, _, _, _, _, _, _ => bad
  | ["K", "xofmany", _plat, cv, block, bl, ctr, fl, n] =>
    match bytesOfHex cv, bytesOfHex block, bl.toNat?, ctr.toNat?, fl.toNat?, n.toNat? with
    | some cvb, some bb, some bl, some ctr, some fl, some n =>
      let outs := (List.range n).flatMap fun i =>
        bytesOfWords (genK.cxof (cvOfBytes cvb) (wordsOfBytes 16 bb) (UInt8.ofNat bl) (UInt64.ofNat (ctr + i)) (UInt8.ofNat fl))
      (s, hexOfBytes outs ++ ";-")
    | _, _, _, _, _, _ => bad
  | "D" :: "poolmmap" :: _ => (s, "-;-")        -- real threads and files: implementation-only comparison in the file stage
  | "D" :: "zeroscan" :: _ => (s, "-;-")        -- memory scan of the real objects: no memory model, oracle in the generator
  | ["C", "featmask"] => (s, "-;-")
  | "E" :: rest => match Hex.stepLine ("E" :: rest) with
    | some o => (s, o ++ ";-")
    | none => bad
  -- ---- C library
  | ["C", "rdp2", x] => match x.toNat? with
    | some x =>
      if x < 2 ^ 64 then (s, showR (Gen.C.round_down_to_power_of_2 x) ++ ";" ++ toString (if x = 0 then 1 else 2 ^ Nat.log2 x)) else bad
    | none => bad
  | ["C", "popcnt", x] => match x.toNat? with
    | some x => if x < 2 ^ 64 then (s, toString (Arith.popcnt x) ++ ";" ++ toString ((Nat.toDigits 2 x).count '1')) else bad
    | none => bad
  | ["C", "feat", p] => match sdOfPlatform p with
    | some sd => ({ s with csd := sd }, "ok;-")
    | none => if p = "detect" then ({ s with csd := 16 }, "ok;-") else bad
  | "C" :: "init" :: r :: rest => match parseMode rest with
    | some (mode, []) =>
      let h := match mode with
        | .hash => C.initBase Spec.IV 0
        | .keyed k => C.initBase (wordsOfBytes 8 k) Spec.KEYED_HASH
        | .derive ctx => C.initDeriveKeyRaw genK s.csd ctx
      let nulInCtx := match mode with
        | .derive ctx => ctx.contains 0
        | _ => false
      if nulInCtx then bad else (s.setC r { h := h, mode := mode, absorbed := [] }, "ok;-")
    | _ => bad
  | ["C", "initraw", r, c] => match bytesOfHex c with
    | some ctx => (s.setC r { h := C.initDeriveKeyRaw genK s.csd ctx, mode := .derive ctx, absorbed := [] }, "ok;-")
    | none => bad
  | "C" :: "upd" :: r :: rest => match s.getC r, parseData rest with
    | some reg, some (data, []) =>
      (s.setC r { reg with h := C.update genK s.csd reg.h data, absorbed := reg.absorbed ++ data }, "ok;-")
    | _, _ => bad
  | "C" :: "updtbb" :: r :: _script :: rest => match s.getC r, parseData rest with
    | some reg, some (data, []) =>
      -- the model's state does not depend on the join schedule; the join count is not modelled
      (s.setC r { reg with h := C.update genK s.csd reg.h data, absorbed := reg.absorbed ++ data }, "ok;-")
    | _, _ => bad
  | ["C", "updnull", r] => match s.getC r with       -- update(NULL, 0): a no-op (`zero_len_update_noop`)
    | some _ => (s, "ok;-")
    | none => bad
  | ["C", "fin", r, n] => match s.getC r, n.toNat? with
    | some reg, some n =>
      (s, hexOfBytes (C.finalize genK reg.h n) ++ ";" ++ hexOfBytes (streamFast (Spec.root reg.mode reg.absorbed) 0 n))
    | _, _ => bad
  | ["C", "finseek", r, sk, n] => match s.getC r, sk.toNat?, n.toNat? with
    | some reg, some sk, some n =>
      (s, hexOfBytes (C.finalizeSeek genK reg.h sk n) ++ ";" ++ hexOfBytes (streamFast (Spec.root reg.mode reg.absorbed) sk n))
    | _, _, _ => bad
  | ["C", "reset", r] => match s.getC r with
    | some reg => (s.setC r { reg with h := C.reset reg.h, absorbed := [] }, "ok;-")
    | none => bad
  | ["C", "clone", r, r2] => match s.getC r with
    | some reg => (s.setC r2 reg, "ok;-")
    | none => bad
  | ["C", "samelive", r, r2] => match s.getC r, s.getC r2 with
    | some a, some b => (s, (if a.h = b.h then "eq" else "ne") ++ ";-")
    | _, _ => bad
  | [""] => (s, "")
  | "P" :: rest => match B3sum.stepLine ("P" :: rest) with
    -- b3sum ops (model of b3sum/src/main.rs); the property-level oracle for these is in the generator module
    | some o => (s, o ++ ";-")
    | none => bad
  | _ => bad

def step (s : DState) (line : String) : DState × String :=
  match line.trimAscii.toString.splitOn " " with
  -- `hmanysep`: hash_many with every input in its own guarded buffer: same contract as `hmany`
  | "CK" :: "hmanysep" :: sym :: n :: blocks :: seed :: key :: ctr :: incr :: fl :: fs :: fe :: _ =>
    stepToks s ["K", "hmany", sym, n, blocks, seed, key, ctr, incr, fl, fs, fe, "0", "0"]
  | ["CK", "align", _] => (s, "ok;-")             -- harness setting (stack alignment at the call): no effect on the contract
  | ["CK", "dirty", _] => (s, "ok;-")             -- harness setting (garbage above narrow arguments)
  | "CK" :: rest => stepToks s ("K" :: rest)      -- C kernels: same contract as the Rust platform kernels
  -- `NR <op>`: the op, but the harness does not put the register back after a panic.  The model's ops are atomic (the code's
  -- assertions precede every mutation), so there is nothing to put back here: same transition.
  | "NR" :: rest => stepToks s rest
  | toks => stepToks s toks

partial def loop (h : IO.FS.Stream) (out : IO.FS.Stream) (s : DState) : IO Unit := do
  let line ← h.getLine
  if line.isEmpty then return ()
  let (s', o) := step s line
  out.putStrLn o
  loop h out s'

def main : IO Unit := do
  let stdout ← IO.getStdout
  loop (← IO.getStdin) stdout {}
  stdout.flush
