/- `lake env lean --run RunAsmMsvc.lean < cases.txt`: one answer of `B3.AsmSem.MsvcRun.runLine` per input line -/
import B3.Asm.MsvcRun
open B3.AsmSem.MsvcRun

partial def loop (h : IO.FS.Stream) (out : IO.FS.Stream) : IO Unit := do
  let line ← h.getLine
  if line.isEmpty then return
  let clean := String.ofList (line.toList.filter fun c => c ≠ '\n' ∧ c ≠ '\r')
  let toks := (clean.splitOn " ").filter (· ≠ "")
  out.putStrLn ((runLine toks).getD "ERR")
  loop h out

def main : IO Unit := do
  loop (← IO.getStdin) (← IO.getStdout)
