import B3.B3sum.Model
import B3.B3sum.Proofs
import B3.B3sum.Props13
import B3.B3sum.Props12
import B3.B3sum.Drv
