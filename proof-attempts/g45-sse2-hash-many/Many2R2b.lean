/- round 2, diagonal step of the 4-way loop of `blake3_hash_many_sse2`: instructions 409..494 of the generated list,
evaluated in the kernel on the frame machine over symbolic lanes -/
import B3.Asm.Many2Base
namespace B3.AsmSem.Many2
open B3 B3.Simd B3.AsmSem B3.Gen.AsmSse2Many

theorem r2b_raw (rb : UInt64) (S0 S1 S2 S3 M0 M1 M2 M3 : St) (j8 f17 f18 f19 f20 f21 : V4)
    (g : Vector UInt64 16) (z c : Bool) (m : Memory) :
    rview (frun rodata rb hash_many 100 ⟨roundS S0 S1 S2 S3 M0 M1 M2 M3 j8 f17 f18 f19 f20 f21 g z c m 451, [], true⟩)
      = roundV (halfB (eta16 S0) (permN 1 (eta16 M0))) (halfB (eta16 S1) (permN 1 (eta16 M1))) (halfB (eta16 S2) (permN 1 (eta16 M2))) (halfB (eta16 S3) (permN 1 (eta16 M3)))
          M0 M1 M2 M3 f17 f18 f19 f20 f21 g z c m 551 := by
  kernel_rfl

/-- instructions 409..494: every lane goes through the diagonal step of round 2 (message permuted 1 times) -/
theorem r2b (rb : UInt64) (S0 S1 S2 S3 M0 M1 M2 M3 : St) (j8 f17 f18 f19 f20 f21 : V4)
    (g : Vector UInt64 16) (z c : Bool) (m : Memory) :
    ∃ j8', Run rodata rb hash_many 100 (roundS S0 S1 S2 S3 M0 M1 M2 M3 j8 f17 f18 f19 f20 f21 g z c m 451) []
      (roundS (halfB (eta16 S0) (permN 1 (eta16 M0))) (halfB (eta16 S1) (permN 1 (eta16 M1))) (halfB (eta16 S2) (permN 1 (eta16 M2))) (halfB (eta16 S3) (permN 1 (eta16 M3)))
        M0 M1 M2 M3 j8' f17 f18 f19 f20 f21 g z c m 551) :=
  run_of_roundV (r2b_raw rb S0 S1 S2 S3 M0 M1 M2 M3 j8 f17 f18 f19 f20 f21 g z c m)

end B3.AsmSem.Many2
