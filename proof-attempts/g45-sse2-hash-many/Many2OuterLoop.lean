/- the outer loop of the 4-way part of `blake3_hash_many_sse2` on the frame machine, in terms of the specification: after
`G` iterations the memory is the memory before with the chaining values of the first `4 G` inputs written at `out`, every
chaining value being `hashBlocks` (= `specHashBlocks`) of the input's blocks with its own counter -/
import B3.Asm.Many2Spec
import B3.Asm.Many2Ctr
import B3.Asm.Many2Mem
namespace B3.AsmSem.Many2
open B3 B3.Simd B3.AsmSem B3.Gen.AsmSse2Many

/-- what the loop reads, whatever has been written at `out` so far (`bs`): the key `K`, the input pointers `P i`, the blocks
`Blk i b`, the byte `flags_start` among the stack arguments -/
structure Reads (M1 : Memory) (out g1 g5 inputs : UInt64) (n B : Nat) (K : CV) (P : Nat → UInt64) (Blk : Nat → Nat → St)
    (fs : UInt8) : Prop where
  key : ∀ bs : List UInt8, bs.length ≤ 32 * n → keyRaw (writeBytes M1 out bs) g1 = K
  ptr : ∀ bs : List UInt8, bs.length ≤ 32 * n → ∀ i, i < n →
    load64 (writeBytes M1 out bs) (inputs + UInt64.ofNat (8 * i)) = P i
  blk : ∀ bs : List UInt8, bs.length ≤ 32 * n → ∀ i, i < n → ∀ b, b < B → memBlock (writeBytes M1 out bs) (P i) b = Blk i b
  fs : ∀ bs : List UInt8, bs.length ≤ 32 * n → writeBytes M1 out bs (g5 + dispU 64) = fs

/-- the chaining value of input `i` -/
def manyCV (K : CV) (Blk : Nat → Nat → St) (B : Nat) (counter : UInt64) (incr : Bool) (fl fs fe : UInt8) (i : Nat) : CV :=
  hashBlocks K (Blk i) B (counter + (if incr then UInt64.ofNat i else 0)) fl fs fe

/-- the output bytes of the first `k` inputs -/
def outBytes (K : CV) (Blk : Nat → Nat → St) (B : Nat) (counter : UInt64) (incr : Bool) (fl fs fe : UInt8) (k : Nat) : List UInt8 :=
  (List.range k).flatMap fun i => bytesOfWords (manyCV K Blk B counter incr fl fs fe i)

theorem outBytes_length (K : CV) (Blk : Nat → Nat → St) (B : Nat) (counter : UInt64) (incr : Bool) (fl fs fe : UInt8) (k : Nat) :
    (outBytes K Blk B counter incr fl fs fe k).length = 32 * k := by
  unfold outBytes
  induction k with
  | zero => rfl
  | succ k ih =>
    rw [List.range_succ, List.flatMap_append, List.length_append, ih]
    simp [bytesOfWords8_length]
    omega

theorem outBytes_add4 (K : CV) (Blk : Nat → Nat → St) (B : Nat) (counter : UInt64) (incr : Bool) (fl fs fe : UInt8) (q : Nat) :
    outBytes K Blk B counter incr fl fs fe (4 * (q + 1))
      = outBytes K Blk B counter incr fl fs fe (4 * q)
        ++ (bytesOfWords (manyCV K Blk B counter incr fl fs fe (4 * q)) ++ bytesOfWords (manyCV K Blk B counter incr fl fs fe (4 * q + 1))
          ++ bytesOfWords (manyCV K Blk B counter incr fl fs fe (4 * q + 2)) ++ bytesOfWords (manyCV K Blk B counter incr fl fs fe (4 * q + 3))) := by
  unfold outBytes
  have : 4 * (q + 1) = 4 * q + 1 + 1 + 1 + 1 := by omega
  rw [this, List.range_succ, List.range_succ, List.range_succ, List.range_succ]
  simp [List.flatMap_append, List.append_assoc]

theorem foldl_congr_mem {α : Type} (l : List Nat) (f g : α → Nat → α) (h : ∀ b, b ∈ l → ∀ a, f a b = g a b) (init : α) :
    l.foldl f init = l.foldl g init := by
  induction l generalizing init with
  | nil => rfl
  | cons x xs ih =>
    rw [List.foldl_cons, List.foldl_cons, h x (List.mem_cons_self) init]
    exact ih (fun b hb => h b (List.mem_cons_of_mem _ hb)) _

theorem hashBlocksW_congr (key : CV) (f g : Nat → St) (B : Nat) (lo hi : UInt32) (fw : Nat → UInt32)
    (h : ∀ b, b < B → f b = g b) : hashBlocksW key f B lo hi fw = hashBlocksW key g B lo hi fw := by
  unfold hashBlocksW
  apply foldl_congr_mem
  intro b hb cv
  rw [h b (List.mem_range.mp hb)]

theorem headRax_flags (m : Memory) (g5 g13 : UInt64) (fs fl : UInt8) (h1 : m (g5 + dispU 64) = fs) (h2 : g13.toUInt32 = fl.toUInt32) :
    (headRax m g5 g13).toUInt32 = fs.toUInt32 ||| fl.toUInt32 := by
  unfold headRax
  rw [trunc_d32_toUInt32, or_toUInt32, trunc_d32_toUInt32, trunc_d32_toUInt32, trunc_d32_toUInt32, h1, h2, UInt8.toUInt32_toUInt64]

/-- the counter of input `i` -/
def ctrOf (counter : UInt64) (incr : Bool) (i : Nat) : UInt64 := counter + (if incr then UInt64.ofNat i else 0)

section
variable {M1 : Memory} {out g1 g5 inputs : UInt64} {n B : Nat} {K : CV} {P : Nat → UInt64} {Blk : Nat → Nat → St}
  {fl fs fe : UInt8}

/-- the chaining value the machine computes for lane `l` of group `q` is the specification's -/
theorem groupCV_eq (R : Reads M1 out g1 g5 inputs n B K P Blk fs) (g12 g13 : UInt64) (counter : UInt64) (incr : Bool)
    (q : Nat) (hq : 4 * q + 4 ≤ n) (lo hi : V4)
    (hc : CtrVec (fun l => ctrOf counter incr (4 * q + l.val)) lo hi)
    (h12 : g12.toUInt32 = fe.toUInt32) (h13 : g13.toUInt32 = fl.toUInt32)
    (bs : List UInt8) (hbs : bs.length ≤ 32 * n) (l : Fin 4) :
    groupCV (writeBytes M1 out bs) g1 g5 g12 g13 (inputs + UInt64.ofNat (32 * q)) lo hi B l
      = manyCV K Blk B counter incr fl fs fe (4 * q + l.val) := by
  unfold groupCV manyCV
  have hp : ptrAt (writeBytes M1 out bs) (inputs + UInt64.ofNat (32 * q)) l.val = P (4 * q + l.val) := by
    unfold ptrAt
    have e : inputs + UInt64.ofNat (32 * q) + dispU (8 * (l.val : Int)) = inputs + UInt64.ofNat (8 * (4 * q + l.val)) := by
      have : dispU (8 * (l.val : Int)) = UInt64.ofNat (8 * l.val) := by
        match l with | 0 | 1 | 2 | 3 => rfl
      rw [this, addr_add]
      congr 2
      omega
    rw [e]
    exact R.ptr bs hbs _ (by omega)
  rw [hp, loopCV_eq, R.key bs hbs, headRax_flags _ g5 g13 fs fl (R.fs bs hbs) h13, h12, h13,
    hashBlocksW_congr K _ (Blk (4 * q + l.val)) B _ _ _ (fun b hb => R.blk bs hbs _ (by omega) b hb),
    (hc l).1, (hc l).2, hashBlocksW_eq]
  rfl


/-- a run whose logged references all satisfy `Q` -/
def RunP (rb : UInt64) (Q : Ref → Prop) (s t : StateG FMem) : Prop :=
  ∃ k l, Run rodata rb hash_many k s l t ∧ ∀ r ∈ l, Q r

theorem RunP.trans {rb : UInt64} {Q : Ref → Prop} {s t u : StateG FMem} (h1 : RunP rb Q s t) (h2 : RunP rb Q t u) : RunP rb Q s u := by
  obtain ⟨k1, l1, r1, q1⟩ := h1
  obtain ⟨k2, l2, r2, q2⟩ := h2
  refine ⟨k1 + k2, l1 ++ l2, r1.trans r2, ?_⟩
  intro r hr
  rcases List.mem_append.mp hr with h | h
  · exact q1 r h
  · exact q2 r h

theorem RunP.of_run {rb : UInt64} {Q : Ref → Prop} {s t : StateG FMem} {k : Nat} (h : Run rodata rb hash_many k s [] t) : RunP rb Q s t :=
  ⟨k, [], h, by intro r hr; cases hr⟩

/-- the invariant of the outer loop after `q` groups: the registers and counters of the next group, the chaining values of the
first `4 q` inputs at `out` -/
def OuterInv (M1 : Memory) (out g1 g4 g5 g12 g13 inputs : UInt64) (n B : Nat) (K : CV) (Blk : Nat → Nat → St)
    (counter : UInt64) (incr : Bool) (fl fs fe : UInt8) (f19 f20 inc : V4) (q : Nat) (z c : Bool) (pc : Nat) (s : StateG FMem) : Prop :=
  ∃ lo hi, CtrVec (fun l => ctrOf counter incr (4 * q + l.val)) lo hi ∧
    OuterState (out + UInt64.ofNat (128 * q)) (UInt64.ofNat (n - 4 * q)) (inputs + UInt64.ofNat (32 * q)) g1 g4 g5 g12 g13
      (UInt64.ofNat (64 * B)) lo hi f19 f20 inc (writeBytes M1 out (outBytes K Blk B counter incr fl fs fe (4 * q))) z c pc s

theorem ctrOf_step (counter : UInt64) (incr : Bool) (i : Nat) (v : UInt32) (hv : v = if incr then 4 else 0) :
    ctrOf counter incr i + v.toUInt64 = ctrOf counter incr (i + 4) := by
  unfold ctrOf
  subst hv
  cases incr
  · simp
  · simp only [if_true]
    rw [UInt64.add_assoc]
    congr 1
    have : (4 : UInt32).toUInt64 = UInt64.ofNat 4 := rfl
    rw [this, ← UInt64.ofNat_add]

/-- one iteration of the outer loop in terms of the specification -/
theorem outer_step (rb : UInt64) (Q : Ref → Prop) (R : Reads M1 out g1 g5 inputs n B K P Blk fs) (hB : 64 * B < 2 ^ 64) (hB0 : 0 < B)
    (hn : 32 * n < 2 ^ 64) (g4 g12 g13 : UInt64) (counter : UInt64) (incr : Bool) (f19 f20 inc : V4)
    (hinc : ∀ l : Fin 4, inc[l] = if incr then 4 else 0)
    (h12 : g12.toUInt32 = fe.toUInt32) (h13 : g13.toUInt32 = fl.toUInt32)
    (q : Nat) (hq : 4 * q + 4 ≤ n)
    (hlog : ∀ r ∈ outerLog (writeBytes M1 out (outBytes K Blk B counter incr fl fs fe (4 * q))) g1 g5
      (out + UInt64.ofNat (128 * q)) (inputs + UInt64.ofNat (32 * q)) B, Q r)
    (z c : Bool) (s : StateG FMem)
    (hs : OuterInv M1 out g1 g4 g5 g12 g13 inputs n B K Blk counter incr fl fs fe f19 f20 inc q z c 37 s) :
    ∃ t, RunP rb Q s t ∧
      OuterInv M1 out g1 g4 g5 g12 g13 inputs n B K Blk counter incr fl fs fe f19 f20 inc (q + 1)
        (UInt64.ofNat (n - 4 * q) - UInt64.ofNat 4 - UInt64.ofNat 4 == 0)
        (decide (UInt64.ofNat (n - 4 * q) - UInt64.ofNat 4 < UInt64.ofNat 4)) 1606 t := by
  obtain ⟨lo, hi, hc, hst⟩ := hs
  obtain ⟨t, hrun, ht⟩ := outer_iter rb B hB hB0 _ _ _ g1 g4 g5 g12 g13 lo hi f19 f20 inc _ z c s hst
  refine ⟨t, ⟨_, _, hrun, hlog⟩, ctrLo lo inc, ctrHi lo hi inc, ?_, ?_⟩
  · -- counters
    have h := ctr_step _ lo hi inc hc
    intro l
    have e : ctrOf counter incr (4 * (q + 1) + l.val) = ctrOf counter incr (4 * q + l.val) + (inc[l]).toUInt64 := by
      rw [ctrOf_step counter incr _ _ (hinc l)]
      congr 1
      omega
    have hl := h l
    simp only [] at hl ⊢
    rw [e]
    exact hl
  · -- registers and memory
    have hlen := outBytes_length K Blk B counter incr fl fs fe (4 * q)
    have hbs : (outBytes K Blk B counter incr fl fs fe (4 * q)).length ≤ 32 * n := by rw [hlen]; omega
    have e1 : out + UInt64.ofNat (128 * q) + UInt64.ofNat 128 = out + UInt64.ofNat (128 * (q + 1)) := by
      rw [addr_add]; congr 2
    have e2 : inputs + UInt64.ofNat (32 * q) + UInt64.ofNat 32 = inputs + UInt64.ofNat (32 * (q + 1)) := by
      rw [addr_add]; congr 2
    have e3 : UInt64.ofNat (n - 4 * q) - UInt64.ofNat 4 = UInt64.ofNat (n - 4 * (q + 1)) := by
      have : n - 4 * q = (n - 4 * (q + 1)) + 4 := by omega
      rw [this, UInt64.ofNat_add, UInt64.add_sub_cancel]
    rw [e1, e2] at ht
    rw [groupCV_eq R g12 g13 counter incr q hq lo hi hc h12 h13 _ hbs 0, groupCV_eq R g12 g13 counter incr q hq lo hi hc h12 h13 _ hbs 1,
      groupCV_eq R g12 g13 counter incr q hq lo hi hc h12 h13 _ hbs 2, groupCV_eq R g12 g13 counter incr q hq lo hi hc h12 h13 _ hbs 3,
      outStores_eq] at ht
    have e4 : out + UInt64.ofNat (128 * q) = out + UInt64.ofNat (outBytes K Blk B counter incr fl fs fe (4 * q)).length := by
      rw [hlen]; congr 2; omega
    rw [e4, writeBytes_append _ _ _ _ (by rw [hlen]; simp [bytesOfWords8_length]; omega)] at ht
    rw [outBytes_add4, ← e3]
    exact ht


theorem sub4_lt4 (a : Nat) (ha : 4 ≤ a) (ha' : a < 2 ^ 64) :
    decide (UInt64.ofNat a - UInt64.ofNat 4 < UInt64.ofNat 4) = decide (a - 4 < 4) := by
  have e : (UInt64.ofNat a - UInt64.ofNat 4).toNat = a - 4 := by
    rw [UInt64.toNat_sub, UInt64.toNat_ofNat', UInt64.toNat_ofNat', Nat.mod_eq_of_lt ha']
    have : (4 : Nat) % 2 ^ 64 = 4 := by decide
    rw [this]
    omega
  have e4 : (UInt64.ofNat 4).toNat = 4 := rfl
  by_cases h : a - 4 < 4
  · rw [decide_eq_true h, decide_eq_true (UInt64.lt_iff_toNat_lt.mpr (by rw [e, e4]; exact h))]
  · rw [decide_eq_false h, decide_eq_false (fun hc => h (by have := UInt64.lt_iff_toNat_lt.mp hc; rw [e, e4] at this; exact this))]

theorem OuterInv.jnc_taken {rb : UInt64} {Q : Ref → Prop} {g4 g12 g13 counter : UInt64} {incr : Bool} {f19 f20 inc : V4} {q : Nat}
    {z : Bool} {s : StateG FMem}
    (hs : OuterInv M1 out g1 g4 g5 g12 g13 inputs n B K Blk counter incr fl fs fe f19 f20 inc q z false 1606 s) :
    ∃ t, RunP rb Q s t ∧ OuterInv M1 out g1 g4 g5 g12 g13 inputs n B K Blk counter incr fl fs fe f19 f20 inc q z false 37 t := by
  obtain ⟨lo, hi, hc, x0, x1, x2, x3, x4, x5, x6, x7, x8, x9, x10, x11, x12, x13, x14, x15, f0, f1, f2, f3, f4, f5, f6, f7, f8, f9, f10,
    f11, f12, f13, f14, f15, f16, ax, dx, a8, a9, a10, a11, r14, rfl⟩ := hs
  exact ⟨_, RunP.of_run (_root_.B3.AsmSem.Many2.jnc_taken rb _ _ _ _ _), lo, hi, hc, x0, x1, x2, x3, x4, x5, x6, x7, x8, x9, x10, x11, x12, x13, x14, x15,
    f0, f1, f2, f3, f4, f5, f6, f7, f8, f9, f10, f11, f12, f13, f14, f15, f16, ax, dx, a8, a9, a10, a11, r14, rfl⟩

theorem OuterInv.jnc_not_taken {rb : UInt64} {Q : Ref → Prop} {g4 g12 g13 counter : UInt64} {incr : Bool} {f19 f20 inc : V4} {q : Nat}
    {z : Bool} {s : StateG FMem}
    (hs : OuterInv M1 out g1 g4 g5 g12 g13 inputs n B K Blk counter incr fl fs fe f19 f20 inc q z true 1606 s) :
    ∃ t, RunP rb Q s t ∧ OuterInv M1 out g1 g4 g5 g12 g13 inputs n B K Blk counter incr fl fs fe f19 f20 inc q z true 1607 t := by
  obtain ⟨lo, hi, hc, x0, x1, x2, x3, x4, x5, x6, x7, x8, x9, x10, x11, x12, x13, x14, x15, f0, f1, f2, f3, f4, f5, f6, f7, f8, f9, f10,
    f11, f12, f13, f14, f15, f16, ax, dx, a8, a9, a10, a11, r14, rfl⟩ := hs
  exact ⟨_, RunP.of_run (_root_.B3.AsmSem.Many2.jnc_not_taken rb _ _ _ _ _), lo, hi, hc, x0, x1, x2, x3, x4, x5, x6, x7, x8, x9, x10, x11, x12, x13, x14, x15,
    f0, f1, f2, f3, f4, f5, f6, f7, f8, f9, f10, f11, f12, f13, f14, f15, f16, ax, dx, a8, a9, a10, a11, r14, rfl⟩

/-- **the outer loop**: from instruction 37 with `q` groups done, the remaining `k = G - q` iterations (`G = n / 4`) lead to
instruction 1607 (the `jnc 2b` of the last iteration falls through) with the chaining values of the first `4 G` inputs at `out` -/
theorem outer_loop (rb : UInt64) (Q : Ref → Prop) (R : Reads M1 out g1 g5 inputs n B K P Blk fs) (hB : 64 * B < 2 ^ 64) (hB0 : 0 < B)
    (hn : 32 * n < 2 ^ 64) (g4 g12 g13 : UInt64) (counter : UInt64) (incr : Bool) (f19 f20 inc : V4)
    (hinc : ∀ l : Fin 4, inc[l] = if incr then 4 else 0)
    (h12 : g12.toUInt32 = fe.toUInt32) (h13 : g13.toUInt32 = fl.toUInt32)
    (G : Nat) (hG : 4 * G ≤ n) (hrem : n - 4 * G < 4)
    (hlog : ∀ q, q < G → ∀ r ∈ outerLog (writeBytes M1 out (outBytes K Blk B counter incr fl fs fe (4 * q))) g1 g5
      (out + UInt64.ofNat (128 * q)) (inputs + UInt64.ofNat (32 * q)) B, Q r)
    (k : Nat) :
    ∀ (q : Nat) (_ : q + k = G) (_ : 0 < k) (z c : Bool) (s : StateG FMem),
      OuterInv M1 out g1 g4 g5 g12 g13 inputs n B K Blk counter incr fl fs fe f19 f20 inc q z c 37 s →
      ∃ t z', RunP rb Q s t ∧
        OuterInv M1 out g1 g4 g5 g12 g13 inputs n B K Blk counter incr fl fs fe f19 f20 inc G z' true 1607 t := by
  induction k with
  | zero => intro q _ h0; omega
  | succ k ih =>
    intro q hq _ z c s hs
    have hq4 : 4 * q + 4 ≤ n := by omega
    obtain ⟨t, hrun, ht⟩ := outer_step rb Q R hB hB0 hn g4 g12 g13 counter incr f19 f20 inc hinc h12 h13 q hq4
      (hlog q (by omega)) z c s hs
    rw [sub4_lt4 (n - 4 * q) (by omega) (by omega)] at ht
    by_cases hlast : k = 0
    · subst hlast
      have hqG : q + 1 = G := by omega
      have : decide (n - 4 * q - 4 < 4) = true := decide_eq_true (by omega)
      rw [this, hqG] at ht
      obtain ⟨t2, hrun2, ht2⟩ := OuterInv.jnc_not_taken (rb := rb) (Q := Q) ht
      exact ⟨t2, _, hrun.trans hrun2, ht2⟩
    · have : decide (n - 4 * q - 4 < 4) = false := decide_eq_false (by omega)
      rw [this] at ht
      obtain ⟨t2, hrun2, ht2⟩ := OuterInv.jnc_taken (rb := rb) (Q := Q) ht
      obtain ⟨t3, z', hrun3, ht3⟩ := ih (q + 1) (by omega) (by omega) _ _ t2 ht2
      exact ⟨t3, z', (hrun.trans hrun2).trans hrun3, ht3⟩

end
end B3.AsmSem.Many2
