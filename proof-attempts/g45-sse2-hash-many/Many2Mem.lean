/- memory facts for `blake3_hash_many_sse2`: the eight 16-byte stores of an output group are one 128-byte write
(`outStores_eq`), consecutive writes append (`writeBytes_append`), reads of regions that a write does not touch -/
import B3.Asm.Many2Out
import B3.Asm.Many2FrameMem
namespace B3.AsmSem.Many2
open B3 B3.Simd B3.AsmSem B3.Gen.AsmSse2Many

theorem store128_apply (m : Memory) (a : UInt64) (v : V4) (q : UInt64) :
    store128 m a v q = if (q - a).toNat < 16 then byte128 v (q - a).toNat else m q := by
  unfold store128
  have c16 : (16 : UInt64).toNat = 16 := rfl
  simp only [UInt64.lt_iff_toNat_lt, c16]

theorem sub_disp (q p : UInt64) (d : Nat) (hd : d < 2 ^ 64) :
    (q - (p + dispU (d : Int))).toNat = ((q - p).toNat + (2 ^ 64 - d)) % 2 ^ 64 :=
  sub_add_toNat q p d hd

theorem getD_append4 (A B C D : List UInt8) (hA : A.length = 32) (hB : B.length = 32) (hC : C.length = 32) (k : Nat) :
    (A ++ B ++ C ++ D).getD k 0
      = if k < 32 then A.getD k 0 else if k < 64 then B.getD (k - 32) 0 else if k < 96 then C.getD (k - 64) 0 else D.getD (k - 96) 0 := by
  simp only [List.getD_eq_getElem?_getD]
  by_cases h1 : k < 32
  · rw [if_pos h1, List.append_assoc, List.append_assoc, List.getElem?_append_left (by omega)]
  · rw [if_neg h1]
    by_cases h2 : k < 64
    · rw [if_pos h2, List.append_assoc, List.append_assoc, List.getElem?_append_right (by omega), hA,
        List.getElem?_append_left (by omega)]
    · rw [if_neg h2]
      by_cases h3 : k < 96
      · rw [if_pos h3, List.append_assoc, List.append_assoc, List.getElem?_append_right (by omega), hA,
          List.getElem?_append_right (by omega), hB, List.getElem?_append_left (by omega)]
        rw [show k - 32 - 32 = k - 64 by omega]
      · rw [if_neg h3, List.append_assoc, List.append_assoc, List.getElem?_append_right (by omega), hA,
          List.getElem?_append_right (by omega), hB, List.getElem?_append_right (by omega), hC]
        rw [show k - 32 - 32 - 32 = k - 96 by omega]

theorem cv_lo (H : CV) (k : Nat) (hk : k < 16) : byte128 #v[H[0], H[1], H[2], H[3]] k = (bytesOfWords H).getD k 0 := by
  conv => rhs; rw [vec8_eta H]
  exact byte128_lo H[0] H[1] H[2] H[3] H[4] H[5] H[6] H[7] k hk

theorem cv_hi (H : CV) (k : Nat) (hk : k < 32) (hk' : 16 ≤ k) :
    byte128 #v[H[4], H[5], H[6], H[7]] (k - 16) = (bytesOfWords H).getD k 0 := by
  conv => rhs; rw [vec8_eta H]
  exact byte128_hi H[0] H[1] H[2] H[3] H[4] H[5] H[6] H[7] k hk hk'

/-- the eight stores of an output group write the four chaining values one after the other at `p`, and nothing else -/
theorem outStores_eq (m : Memory) (p : UInt64) (H0 H1 H2 H3 : CV) :
    outStores m p H0 H1 H2 H3 = writeBytes m p (bytesOfWords H0 ++ bytesOfWords H1 ++ bytesOfWords H2 ++ bytesOfWords H3) := by
  funext q
  unfold outStores writeBytes
  have l0 := bytesOfWords8_length H0
  have l1 := bytesOfWords8_length H1
  have l2 := bytesOfWords8_length H2
  have l3 := bytesOfWords8_length H3
  have hl : (bytesOfWords H0 ++ bytesOfWords H1 ++ bytesOfWords H2 ++ bytesOfWords H3).length = 128 := by
    simp only [List.length_append, l0, l1, l2, l3]
  rw [hl, getD_append4 _ _ _ _ l0 l1 l2]
  simp only [store128_apply]
  have e0 : (q - (p + dispU 0)).toNat = ((q - p).toNat + (2 ^ 64 - 0)) % 2 ^ 64 := sub_disp q p 0 (by decide)
  have e16 : (q - (p + dispU 16)).toNat = ((q - p).toNat + (2 ^ 64 - 16)) % 2 ^ 64 := sub_disp q p 16 (by decide)
  have e32 : (q - (p + dispU 32)).toNat = ((q - p).toNat + (2 ^ 64 - 32)) % 2 ^ 64 := sub_disp q p 32 (by decide)
  have e48 : (q - (p + dispU 48)).toNat = ((q - p).toNat + (2 ^ 64 - 48)) % 2 ^ 64 := sub_disp q p 48 (by decide)
  have e64 : (q - (p + dispU 64)).toNat = ((q - p).toNat + (2 ^ 64 - 64)) % 2 ^ 64 := sub_disp q p 64 (by decide)
  have e80 : (q - (p + dispU 80)).toNat = ((q - p).toNat + (2 ^ 64 - 80)) % 2 ^ 64 := sub_disp q p 80 (by decide)
  have e96 : (q - (p + dispU 96)).toNat = ((q - p).toNat + (2 ^ 64 - 96)) % 2 ^ 64 := sub_disp q p 96 (by decide)
  have e112 : (q - (p + dispU 112)).toNat = ((q - p).toNat + (2 ^ 64 - 112)) % 2 ^ 64 := sub_disp q p 112 (by decide)
  rw [e0, e16, e32, e48, e64, e80, e96, e112]
  have hk := (q - p).toNat_lt
  generalize (q - p).toNat = k at *
  clear e0 e16 e32 e48 e64 e80 e96 e112
  by_cases c7 : 112 ≤ k ∧ k < 128
  · rw [if_pos (by omega), if_pos (by omega), if_neg (by omega), if_neg (by omega), if_neg (by omega)]
    have : (k + (2 ^ 64 - 112)) % 2 ^ 64 = (k - 96) - 16 := by omega
    rw [this]
    exact cv_hi H3 (k - 96) (by omega) (by omega)
  · rw [if_neg (by omega)]
    by_cases c6 : 80 ≤ k ∧ k < 96
    · rw [if_pos (by omega), if_pos (by omega), if_neg (by omega), if_neg (by omega), if_pos (by omega)]
      have : (k + (2 ^ 64 - 80)) % 2 ^ 64 = (k - 64) - 16 := by omega
      rw [this]
      exact cv_hi H2 (k - 64) (by omega) (by omega)
    · rw [if_neg (by omega)]
      by_cases c5 : 48 ≤ k ∧ k < 64
      · rw [if_pos (by omega), if_pos (by omega), if_neg (by omega), if_pos (by omega)]
        have : (k + (2 ^ 64 - 48)) % 2 ^ 64 = (k - 32) - 16 := by omega
        rw [this]
        exact cv_hi H1 (k - 32) (by omega) (by omega)
      · rw [if_neg (by omega)]
        by_cases c4 : 16 ≤ k ∧ k < 32
        · rw [if_pos (by omega), if_pos (by omega), if_pos (by omega)]
          have : (k + (2 ^ 64 - 16)) % 2 ^ 64 = k - 16 := by omega
          rw [this]
          exact cv_hi H0 k (by omega) (by omega)
        · rw [if_neg (by omega)]
          by_cases c3 : 96 ≤ k ∧ k < 112
          · rw [if_pos (by omega), if_pos (by omega), if_neg (by omega), if_neg (by omega), if_neg (by omega)]
            have : (k + (2 ^ 64 - 96)) % 2 ^ 64 = k - 96 := by omega
            rw [this]
            exact cv_lo H3 (k - 96) (by omega)
          · rw [if_neg (by omega)]
            by_cases c2 : 64 ≤ k ∧ k < 80
            · rw [if_pos (by omega), if_pos (by omega), if_neg (by omega), if_neg (by omega), if_pos (by omega)]
              have : (k + (2 ^ 64 - 64)) % 2 ^ 64 = k - 64 := by omega
              rw [this]
              exact cv_lo H2 (k - 64) (by omega)
            · rw [if_neg (by omega)]
              by_cases c1 : 32 ≤ k ∧ k < 48
              · rw [if_pos (by omega), if_pos (by omega), if_neg (by omega), if_pos (by omega)]
                have : (k + (2 ^ 64 - 32)) % 2 ^ 64 = k - 32 := by omega
                rw [this]
                exact cv_lo H1 (k - 32) (by omega)
              · rw [if_neg (by omega)]
                by_cases c0 : k < 16
                · rw [if_pos (by omega), if_pos (by omega), if_pos (by omega)]
                  have : (k + (2 ^ 64 - 0)) % 2 ^ 64 = k := by omega
                  rw [this]
                  exact cv_lo H0 k (by omega)
                · rw [if_neg (by omega), if_neg (by omega)]

/-- a write just after a write extends it -/
theorem writeBytes_append (m : Memory) (p : UInt64) (a b : List UInt8) (h : a.length + b.length ≤ 2 ^ 64) :
    writeBytes (writeBytes m p a) (p + UInt64.ofNat a.length) b = writeBytes m p (a ++ b) := by
  funext q
  unfold writeBytes
  have hd := (q - p).toNat_lt
  have h1 : (q - (p + UInt64.ofNat a.length)).toNat = ((q - p).toNat + (2 ^ 64 - a.length)) % 2 ^ 64 := by
    by_cases ha : a.length < 2 ^ 64
    · exact sub_add_toNat q p a.length ha
    · have hb : b.length = 0 := by omega
      have ha' : a.length = 2 ^ 64 := by omega
      have : UInt64.ofNat a.length = 0 := by
        apply UInt64.toNat_inj.mp
        rw [UInt64.toNat_ofNat', ha']
        rfl
      rw [this, UInt64.add_zero, ha']
      omega
  rw [h1, List.length_append]
  generalize (q - p).toNat = k at *
  by_cases c1 : k < a.length
  · rw [if_neg (by omega), if_pos c1, if_pos (by omega), List.getD_eq_getElem?_getD, List.getD_eq_getElem?_getD,
      List.getElem?_append_left c1]
  · by_cases c2 : k < a.length + b.length
    · have e : (k + (2 ^ 64 - a.length)) % 2 ^ 64 = k - a.length := by omega
      rw [e, if_pos (by omega), if_pos c2, List.getD_eq_getElem?_getD, List.getD_eq_getElem?_getD,
        List.getElem?_append_right (by omega)]
    · rw [if_neg (by omega), if_neg c1, if_neg c2]

end B3.AsmSem.Many2
