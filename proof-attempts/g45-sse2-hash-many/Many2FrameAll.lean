/- `blake3_hash_many_sse2` between the prologue and the epilogue (instructions 10..1412 and the tails 1421..1745), on the frame
machine, for ANY number of inputs: counter setup, the groups of four, the tails; in terms of the specification -/
import B3.Asm.Many2Tails
namespace B3.AsmSem.Many2
open B3 B3.Simd B3.AsmSem B3.Gen.AsmSse2Many

section
variable {M1 : Memory} {out g1 g5 inputs : UInt64} {n B : Nat} {K : CV} {P : Nat → UInt64} {Blk : Nat → Nat → St}
  {fl fs fe : UInt8}

theorem OuterInv.toTail {g4 g12 g13 counter : UInt64} {incr : Bool} {f19 f20 inc : V4} {G : Nat} {z c : Bool} {pc : Nat}
    {s : StateG FMem}
    (hs : OuterInv M1 out g1 g4 g5 g12 g13 inputs n B K Blk counter incr fl fs fe f19 f20 inc G z c pc s) :
    TailInv M1 out g1 g4 g5 g12 g13 inputs n B K Blk counter incr fl fs fe f19 f20 inc (4 * G) pc s := by
  obtain ⟨lo, hi, hc, hst⟩ := hs
  refine ⟨lo, hi, z, c, fun l _ => hc l, ?_⟩
  have e1 : 32 * (4 * G) = 128 * G := by omega
  have e2 : 8 * (4 * G) = 32 * G := by omega
  rw [e1, e2]
  exact hst

/-- **instructions 10..1412 and the tails, any number of inputs**: from the state after `and rsp, -64` to instruction 1609
(`mov rsp, rbp`) with the chaining values of all inputs written at `out`; `rsp` and `rbp` are what they were -/
theorem frame_part_all_partial (rb : UInt64) (Q : Ref → Prop) (R : Reads M1 out g1 g5 inputs n B K P Blk fs) (hB : 64 * B < 2 ^ 64) (hB0 : 0 < B)
    (hn : 32 * n < 2 ^ 64)
    (counter g9 : UInt64) (incr : Bool) (h9 : g9.toUInt32 = if incr then 1 else 0)
    (hout : load64 M1 (g5 + dispU 80) = out) (hfl : M1 (g5 + dispU 56) = fl) (hfe : M1 (g5 + dispU 72) = fe)
    (hpro : ∀ r ∈ proLog g5, Q r)
    (hlog : ∀ q, 4 * q + 4 ≤ n → ∀ r ∈ outerLog (writeBytes M1 out (outBytes K Blk B counter incr fl fs fe (4 * q))) g1 g5
      (out + UInt64.ofNat (128 * q)) (inputs + UInt64.ofNat (32 * q)) B, Q r)
    (hmod : n % 4 ≤ 1)
    (hlog1 : ∀ j, j + 1 = n → ∀ r ∈ t1Log (writeBytes M1 out (outBytes K Blk B counter incr fl fs fe j)) g1 g5
      (out + UInt64.ofNat (32 * j)) (inputs + UInt64.ofNat (8 * j)) B, Q r)
    (x0 x1 x2 x3 x4 x5 x6 x7 x8 x9 x10 x11 x12 x13 x14 x15 : V4) (g0 g3 g4 g10 g11 g12 g13 g14 g15 : UInt64) (z c : Bool)
    (f0 f1 f2 f3 f4 f5 f6 f7 f8 f9 f10 f11 f12 f13 f14 f15 f16 f17 f18 f19 f20 f21 : V4) :
    ∃ t, RunP rb Q
        (mkS #v[x0, x1, x2, x3, x4, x5, x6, x7, x8, x9, x10, x11, x12, x13, x14, x15]
          #v[g0, g1, UInt64.ofNat B, g3, g4, g5, UInt64.ofNat n, inputs, counter, g9, g10, g11, g12, g13, g14, g15] z c
          #v[f0, f1, f2, f3, f4, f5, f6, f7, f8, f9, f10, f11, f12, f13, f14, f15, f16, f17, f18, f19, f20, f21] M1 10) t ∧
      DoneState M1 out g1 g4 g5 (trunc .d32 fe.toUInt64) (trunc .d32 fl.toUInt64) B K Blk counter incr fl fs fe n t := by
  -- 10..35
  obtain ⟨xp, hp⟩ := run_of_gview (pro_raw rb x0 x1 x2 x3 x4 x5 x6 x7 x8 x9 x10 x11 x12 x13 x14 x15
    g0 g1 (UInt64.ofNat B) g3 g4 g5 (UInt64.ofNat n) inputs counter g9 g10 g11 g12 g13 g14 g15 z c
    f0 f1 f2 f3 f4 f5 f6 f7 f8 f9 f10 f11 f12 f13 f14 f15 f16 f17 f18 f19 f20 f21 M1)
  rw [hout, hfl, hfe, shl6] at hp
  have hP : RunP rb Q _ _ := ⟨_, _, hp, hpro⟩
  have h4 : (UInt64.ofNat 4).toNat = 4 := rfl
  have hnn : (UInt64.ofNat n).toNat = n := by rw [UInt64.toNat_ofNat', Nat.mod_eq_of_lt (by omega)]
  have hmk := incMask_bool g9 incr h9
  -- the state after the counter setup, as the invariant of the groups (no group done)
  have hinv : ∀ (zz cc : Bool) (pc : Nat),
      OuterInv M1 out g1 g4 g5 (trunc .d32 fe.toUInt64) (trunc .d32 fl.toUInt64) inputs n B K Blk counter incr fl fs fe
        (set1 (incMask g9)) f20 (pand (set1 (incMask g9)) ADD1) 0 zz cc pc
        (mkS xp #v[g0, g1, UInt64.ofNat B, out, g4, g5, UInt64.ofNat n, inputs, counter >>> UInt64.ofNat 32,
          trunc .d32 (trunc .d32 (0 - trunc .d32 g9)), g10, g11, trunc .d32 fe.toUInt64, trunc .d32 fl.toUInt64, g14,
          UInt64.ofNat (64 * B)] zz cc
          #v[f0, f1, f2, f3, f4, f5, f6, f7, f8, f9, f10, f11, f12, f13, f14, f15, f16, proLo counter g9, proHi counter g9,
            set1 (incMask g9), f20, pand (set1 (incMask g9)) ADD1] M1 pc) := by
    intro zz cc pc
    refine ⟨proLo counter g9, proHi counter g9, ?_, ?_⟩
    · have := pro_ctr counter g9 incr h9
      intro l
      have e : ctrOf counter incr (4 * 0 + l.val) = counter + (if incr then UInt64.ofNat l.val else 0) := by
        unfold ctrOf
        rw [Nat.mul_zero, Nat.zero_add]
      have hl := this l
      simp only [] at hl ⊢
      rw [e]
      exact hl
    · rw [vec16_eta xp]
      have e0 : out + UInt64.ofNat (128 * 0) = out := by rw [Nat.mul_zero, show UInt64.ofNat 0 = 0 from rfl, UInt64.add_zero]
      have e1 : inputs + UInt64.ofNat (32 * 0) = inputs := by rw [Nat.mul_zero, show UInt64.ofNat 0 = 0 from rfl, UInt64.add_zero]
      have e2 : writeBytes M1 out (outBytes K Blk B counter incr fl fs fe (4 * 0)) = M1 := by
        show writeBytes M1 out [] = M1
        exact writeBytes_nil M1 out
      rw [e0, e1, e2, Nat.mul_zero, Nat.sub_zero]
      exact ⟨_, _, _, _, _, _, _, _, _, _, _, _, _, _, _, _, _, _, _, _, _, _, _, _, _, _, _, _, _, _, _, _, _, _, _, _, _, _, _, _, rfl⟩
  by_cases hsmall : n < 4
  · -- fewer than four inputs: straight to the tails
    have hcf : decide (UInt64.ofNat n < UInt64.ofNat 4) = true := by
      apply decide_eq_true
      apply UInt64.lt_iff_toNat_lt.mpr
      rw [hnn, h4]
      exact hsmall
    rw [hcf] at hP
    have h2 := hP.step (jc_taken rb _ _ _ _ _)
    have ht := (hinv (UInt64.ofNat n - UInt64.ofNat 4 == 0) true 1617).toTail
    rw [hmk] at ht
    obtain ⟨t, hr, hd⟩ := tails_partial rb Q R hB hB0 hn g4 _ _ counter incr _ f20 _ (byte_trunc fe) (byte_trunc fl) (4 * 0) (by omega)
      (by omega) hlog1 _ ht
    rw [hmk] at h2
    exact ⟨t, h2.trans hr, hd⟩
  · -- at least one group
    have hcf : decide (UInt64.ofNat n < UInt64.ofNat 4) = false := by
      apply decide_eq_false
      intro hc
      have := UInt64.lt_iff_toNat_lt.mp hc
      rw [hnn, h4] at this
      omega
    rw [hcf] at hP
    have hj := hP.step (jc_not_taken rb _ _ _ _ _)
    obtain ⟨t, z', hloop, hend⟩ := outer_loop rb Q R hB hB0 hn g4 _ _ counter incr (set1 (incMask g9)) f20
      (pand (set1 (incMask g9)) ADD1) (inc_lane g9 incr h9) (byte_trunc fe) (byte_trunc fl) (n / 4) (by omega) (by omega)
      (fun q hq => hlog q (by omega))
      (n / 4) 0 (by omega) (by omega) _ _ _ (hinv (UInt64.ofNat n - UInt64.ofNat 4 == 0) false 37)
    -- 1607, 1608
    have htail := hend.toTail
    obtain ⟨lo, hi, hcv, y0, y1, y2, y3, y4, y5, y6, y7, y8, y9, y10, y11, y12, y13, y14, y15, e0, e1, e2, e3, e4, e5, e6, e7, e8, e9, e10,
      e11, e12, e13, e14, e15, e16, ax, dx, b8, b9, b10, b11, r14, rfl⟩ := hend
    have ht1 := (hj.trans hloop).step (test_rsi rb _ _ _ _ _ _ _ _ _ _ _ _ _ _ _ _ _ _ _ _ _)
    by_cases hr0 : n - 4 * (n / 4) = 0
    · -- no tail
      have hz : (UInt64.ofNat (n - 4 * (n / 4)) &&& UInt64.ofNat (n - 4 * (n / 4)) == 0) = true := by
        rw [hr0]
        decide
      rw [hz] at ht1
      have h3 := ht1.step (jnz_tail_not_taken rb _ _ _ _ _)
      have hn4 : 4 * (n / 4) = n := by omega
      have hm : outBytes K Blk B counter incr fl fs fe (4 * (n / 4)) = outBytes K Blk B counter incr fl fs fe n := by rw [hn4]
      rw [hm] at h3
      exact ⟨_, h3, out + UInt64.ofNat (128 * (n / 4)), UInt64.ofNat (n - 4 * (n / 4)), inputs + UInt64.ofNat (32 * (n / 4)), lo, hi,
        set1 (incMask g9), f20, pand (set1 (incMask g9)) ADD1, true, false,
        _, _, _, _, _, _, _, _, _, _, _, _, _, _, _, _, _, _, _, _, _, _, _, _, _, _, _, _, _, _, _, _, _, _, _, _, _, _, _, _, rfl⟩
    · -- one to three inputs left
      have hz : (UInt64.ofNat (n - 4 * (n / 4)) &&& UInt64.ofNat (n - 4 * (n / 4)) == 0) = false := by
        have : n - 4 * (n / 4) = 1 ∨ n - 4 * (n / 4) = 2 ∨ n - 4 * (n / 4) = 3 := by omega
        rcases this with h | h | h <;> rw [h] <;> decide
      rw [hz] at ht1
      have h3 := ht1.step (jnz_tail_taken rb _ _ _ _ _)
      -- the same state at 1617 satisfies the tail invariant
      have ht : TailInv M1 out g1 g4 g5 (trunc .d32 fe.toUInt64) (trunc .d32 fl.toUInt64) inputs n B K Blk counter incr fl fs fe
          (set1 (incMask g9)) f20 (pand (set1 (incMask g9)) ADD1) (4 * (n / 4)) 1617
          (mkS #v[y0, y1, y2, y3, y4, y5, y6, y7, y8, y9, y10, y11, y12, y13, y14, y15]
            #v[ax, g1, dx, out + UInt64.ofNat (128 * (n / 4)), g4, g5, UInt64.ofNat (n - 4 * (n / 4)),
              inputs + UInt64.ofNat (32 * (n / 4)), b8, b9, b10, b11, trunc .d32 fe.toUInt64, trunc .d32 fl.toUInt64, r14,
              UInt64.ofNat (64 * B)] false false
            #v[e0, e1, e2, e3, e4, e5, e6, e7, e8, e9, e10, e11, e12, e13, e14, e15, e16, lo, hi, set1 (incMask g9), f20,
              pand (set1 (incMask g9)) ADD1]
            (writeBytes M1 out (outBytes K Blk B counter incr fl fs fe (4 * (n / 4)))) 1617) := by
        obtain ⟨lo', hi', zz, cc, hc', hs'⟩ := htail
        refine ⟨lo, hi, false, false, fun l _ => hcv l, ?_⟩
        have e1 : 32 * (4 * (n / 4)) = 128 * (n / 4) := by omega
        have e2 : 8 * (4 * (n / 4)) = 32 * (n / 4) := by omega
        rw [e1, e2]
        exact ⟨_, _, _, _, _, _, _, _, _, _, _, _, _, _, _, _, _, _, _, _, _, _, _, _, _, _, _, _, _, _, _, _, _, _, _, _, _, _, _, _, rfl⟩
      rw [hmk] at ht
      obtain ⟨t, hr, hd⟩ := tails_partial rb Q R hB hB0 hn g4 _ _ counter incr _ f20 _ (byte_trunc fe) (byte_trunc fl) (4 * (n / 4))
        (by omega) (by omega) hlog1 _ ht
      rw [hmk] at h3
      exact ⟨t, h3.trans hr, hd⟩

end
end B3.AsmSem.Many2
