/- `blake3_hash_many_sse2`, the whole routine on THE (flat) semantics, for ANY number of inputs: prologue, the frame part
(`frame_part_all`: groups of four and the tails) carried over by the simulation theorem, epilogue -/
import B3.Asm.Many2FrameAll
import B3.Asm.Many2Main
namespace B3.AsmSem.Many2
open B3 B3.Simd B3.AsmSem B3.Gen.AsmSse2Many

theorem mem_t1LoopLog {p : UInt64} {r : Ref} (n : Nat) : ∀ j, r ∈ t1LoopLog p n j →
    ∃ j', j ≤ j' ∧ j' < j + n ∧ r ∈ t1HeadLog (p + UInt64.ofNat (64 * (j' + 1))) := by
  induction n with
  | zero => intro j h; cases h
  | succ n ih =>
    intro j h
    rw [t1LoopLog, List.mem_append] at h
    rcases h with h | h
    · exact ⟨j, by omega, by omega, h⟩
    · obtain ⟨j', h1, h2, h3⟩ := ih (j + 1) h
      exact ⟨j', by omega, by omega, h3⟩

section
variable {rb : UInt64} {s : State} {A : HmArgs} (E : Entry rb s A)
include E

/-- a block load of input `i` is harmless -/
theorem headLog_ok (i : Nat) (hi : i < A.n) (j : Nat) (hj : j < A.blocks) (r : Ref)
    (hr : r ∈ t1HeadLog (A.ptr s.mem i + UInt64.ofNat (64 * (j + 1)))) : RefOk rodata rb (frameBase s.gpr[rsp]) r := by
  have hin := (E.sep_in i hi).1
  obtain ⟨a1, a2, a3, a4⟩ := load_addr (A.ptr s.mem i) j
  simp only [t1HeadLog, List.mem_cons, List.mem_nil_iff, or_false] at hr
  rcases hr with rfl | rfl | rfl | rfl
  · rw [a1]; exact refOk_load E _ _ (hin.mono _ 16 (by omega))
  · rw [a2]; exact refOk_load E _ _ (hin.mono _ 16 (by omega))
  · rw [a3]; exact refOk_load E _ _ (hin.mono _ 16 (by omega))
  · rw [a4]; exact refOk_load E _ _ (hin.mono _ 16 (by omega))

/-- the pointer that the tails read at `[rdi + 8 l]` -/
theorem tail_ptr (i l : Nat) (hl : l < 4) (hi : i + l < A.n) (bs : List UInt8) (hbs : bs.length ≤ 32 * A.n) :
    ptrAt (writeBytes (entryM1 s) A.out bs) (A.inputs + UInt64.ofNat (8 * i)) (l : Int) = A.ptr s.mem (i + l) := by
  unfold ptrAt
  have e : A.inputs + UInt64.ofNat (8 * i) + dispU (8 * (l : Int)) = A.inputs + UInt64.ofNat (8 * (i + l)) := by
    have : dispU (8 * (l : Int)) = UInt64.ofNat (8 * l) := by
      match l, hl with | 0, _ | 1, _ | 2, _ | 3, _ => rfl
    rw [this, addr_add]
    congr 2
    omega
  rw [e]
  exact (entry_reads E).ptr bs hbs _ hi

theorem store_ok (o : Nat) (ho : o + 16 ≤ 32 * A.n) :
    RefOk rodata rb (frameBase s.gpr[rsp]) (true, A.out + UInt64.ofNat o, 16) :=
  refOk_store E _ _ (E.out_scratch.mono _ 16 ho) (E.sep_ro.2.symm.mono _ 16 ho)

/-- the memory references of the 1-input tail are harmless -/
theorem t1Log_ok (j : Nat) (hj : j + 1 ≤ A.n) (bs : List UInt8) (hbs : bs.length ≤ 32 * A.n) :
    ∀ r ∈ t1Log (writeBytes (entryM1 s) A.out bs) A.key (rbpOf s.gpr[rsp]) (A.out + UInt64.ofNat (32 * j))
      (A.inputs + UInt64.ofNat (8 * j)) A.blocks, RefOk rodata rb (frameBase s.gpr[rsp]) r := by
  intro r hr
  unfold t1Log at hr
  rcases List.mem_append.mp hr with hr | hr
  · rcases List.mem_append.mp hr with hr | hr
    · simp only [t1SetupLog, List.mem_cons, List.mem_nil_iff, or_false] at hr
      rcases hr with rfl | rfl | rfl | rfl
      · exact refOk_load E _ _ (E.sep_key.1.mono 0 16 (by omega))
      · exact refOk_load E _ _ (E.sep_key.1.mono 16 16 (by omega))
      · have := E.sep_ptrs.1.mono (8 * j + 0) 8 (by omega)
        rw [← addr_add] at this
        exact refOk_load E _ _ this
      · have e : rbpOf s.gpr[rsp] + dispU 64 = s.gpr[rsp] + UInt64.ofNat (64 - 48) := rbp_disp _ 64 (by omega)
        rw [e]
        exact refOk_load E _ _ (args_scratch _ E.hsp E.hsp' 16 1 (by omega))
    · obtain ⟨j', _, hj', hr⟩ := mem_t1LoopLog A.blocks 0 hr
      have hp := tail_ptr E j 0 (by omega) (by omega) bs hbs
      rw [show ((0 : Nat) : Int) = 0 from rfl] at hp
      rw [hp] at hr
      exact headLog_ok E (j + 0) (by omega) j' (by omega) r hr
  · simp only [List.mem_cons, List.mem_nil_iff, or_false] at hr
    rcases hr with rfl | rfl
    · have := store_ok E (32 * j + 0) (by omega)
      rw [← addr_add] at this
      exact this
    · have := store_ok E (32 * j + 16) (by omega)
      rw [← addr_add] at this
      exact this

set_option maxRecDepth 100000 in
set_option maxHeartbeats 2000000 in
/-- **the state in which the routine returns**: the memory is a frame (whatever the routine left in it) laid over the entry
memory with the six pushed registers below `rsp` and the chaining values at `out`; `rsp` is the entry `rsp + 8` (return address
popped); `rbx rbp r12 .. r15` are loaded back from the push area -/
theorem hash_many_final_all_partial (hmod : A.n % 4 ≤ 1) :
    ∃ (N : Nat) (x' : Vector V4 16) (ax dx si di a8 a9 a10 a11 : UInt64) (z' c' : Bool) (F' : Vector V4 22),
      run rb hash_many N s =
        ⟨x', #v[ax, A.key, dx,
            load64 (frameMem (frameBase s.gpr[rsp]) F' (writeBytes (entryM1 s) A.out (A.outBytes s.mem))) (rbpOf s.gpr[rsp] + 8),
            rbpOf s.gpr[rsp] + 8 + 8 + 8 + 8 + 8 + 8 + 8,
            load64 (frameMem (frameBase s.gpr[rsp]) F' (writeBytes (entryM1 s) A.out (A.outBytes s.mem))) (rbpOf s.gpr[rsp]),
            si, di, a8, a9, a10, a11,
            load64 (frameMem (frameBase s.gpr[rsp]) F' (writeBytes (entryM1 s) A.out (A.outBytes s.mem))) (rbpOf s.gpr[rsp] + 8 + 8),
            load64 (frameMem (frameBase s.gpr[rsp]) F' (writeBytes (entryM1 s) A.out (A.outBytes s.mem))) (rbpOf s.gpr[rsp] + 8 + 8 + 8),
            load64 (frameMem (frameBase s.gpr[rsp]) F' (writeBytes (entryM1 s) A.out (A.outBytes s.mem))) (rbpOf s.gpr[rsp] + 8 + 8 + 8 + 8),
            load64 (frameMem (frameBase s.gpr[rsp]) F' (writeBytes (entryM1 s) A.out (A.outBytes s.mem)))
              (rbpOf s.gpr[rsp] + 8 + 8 + 8 + 8 + 8)],
          z', c', frameMem (frameBase s.gpr[rsp]) F' (writeBytes (entryM1 s) A.out (A.outBytes s.mem)), 1616, .returned, true⟩ := by
  obtain ⟨hfb64, hfblo, hfbhi⟩ := frameBase_spec s.gpr[rsp] E.hsp
  -- prologue
  have h10 := prologue_flat rb s.xmm s.gpr[rax] s.gpr[rcx] s.gpr[rdx] s.gpr[rbx] s.gpr[rsp] s.gpr[rbp] s.gpr[rsi] s.gpr[rdi]
    s.gpr[r8] s.gpr[r9] s.gpr[r10] s.gpr[r11] s.gpr[r12] s.gpr[r13] s.gpr[r14] s.gpr[r15] s.zf s.cf s.mem
  rw [← state_eta' s E.pc E.running E.ok] at h10
  rw [E.rcx, E.rdx, E.rsi, E.rdi, E.r8] at h10
  -- the context of the frame machine
  have C : Ctx rodata rb (frameBase s.gpr[rsp]) := {
    hfb := by omega
    hrb := by
      have := E.ro.aligned
      have e : rodataAlign = 64 := rfl
      rw [e] at this
      omega
    hlen := by decide
    hro := outside_frame_of_scratch _ E.hsp rb _ E.sep_ro.1 }
  have hholds : HoldsAt (entryM1 s) rb rodata := by
    intro i hi
    rw [← E.ro.holds i hi]
    exact pushMem_outside _ _ _ _ _ _ _ _ E.hsp _ (E.sep_ro.1 i hi)
  -- the stack arguments as the frame machine reads them
  have hout : load64 (entryM1 s) (rbpOf s.gpr[rsp] + dispU 80) = A.out := by
    have e : rbpOf s.gpr[rsp] + dispU 80 = s.gpr[rsp] + UInt64.ofNat (80 - 48) := rbp_disp _ 80 (by omega)
    rw [e, (entry_M1_arg E 32 8 (by omega) (by omega)).load64 (by omega)]
    exact E.arg10
  have hfl : entryM1 s (rbpOf s.gpr[rsp] + dispU 56) = A.flags := by
    have e : rbpOf s.gpr[rsp] + dispU 56 = s.gpr[rsp] + UInt64.ofNat (56 - 48) := rbp_disp _ 56 (by omega)
    rw [e, (entry_M1_arg E 8 1 (by omega) (by omega)).byte (by omega)]
    exact E.arg7
  have hfe : entryM1 s (rbpOf s.gpr[rsp] + dispU 72) = A.flagsEnd := by
    have e : rbpOf s.gpr[rsp] + dispU 72 = s.gpr[rsp] + UInt64.ofNat (72 - 48) := rbp_disp _ 72 (by omega)
    rw [e, (entry_M1_arg E 24 1 (by omega) (by omega)).byte (by omega)]
    exact E.arg9
  -- instructions 10..1412 and the tails on the frame machine
  obtain ⟨tend, ⟨k, l, hrun, hl⟩, bx, si, di, lo', hi', f19', f20', inc', z', c', x0', x1', x2', x3', x4', x5', x6', x7', x8', x9', x10',
    x11', x12', x13', x14', x15', e0, e1, e2, e3, e4, e5, e6, e7, e8, e9, e10, e11, e12, e13, e14, e15, e16, ax, dx, a8, a9, a10, a11,
    r14', rfl⟩ :=
    frame_part_all_partial rb (RefOk rodata rb (frameBase s.gpr[rsp])) (entry_reads E) E.hb E.hb0 E.hn A.counter s.gpr[r9] A.incr E.r9
      hout hfl hfe (proLog_ok E)
      (fun q hq => outerLog_ok E q hq _ (by rw [outBytes_length]; omega))
      hmod
      (fun j hj => t1Log_ok E j (by omega) _ (by rw [outBytes_length]; omega))
      s.xmm[0] s.xmm[1] s.xmm[2] s.xmm[3] s.xmm[4] s.xmm[5] s.xmm[6] s.xmm[7] s.xmm[8] s.xmm[9] s.xmm[10] s.xmm[11] s.xmm[12]
      s.xmm[13] s.xmm[14] s.xmm[15] s.gpr[rax] s.gpr[rbx] (frameBase s.gpr[rsp]) s.gpr[r10] s.gpr[r11] s.gpr[r12] s.gpr[r13]
      s.gpr[r14] s.gpr[r15] (frameBase s.gpr[rsp] == 0) false
      (frameOf (entryM1 s) (frameBase s.gpr[rsp]))[0] (frameOf (entryM1 s) (frameBase s.gpr[rsp]))[1]
      (frameOf (entryM1 s) (frameBase s.gpr[rsp]))[2] (frameOf (entryM1 s) (frameBase s.gpr[rsp]))[3]
      (frameOf (entryM1 s) (frameBase s.gpr[rsp]))[4] (frameOf (entryM1 s) (frameBase s.gpr[rsp]))[5]
      (frameOf (entryM1 s) (frameBase s.gpr[rsp]))[6] (frameOf (entryM1 s) (frameBase s.gpr[rsp]))[7]
      (frameOf (entryM1 s) (frameBase s.gpr[rsp]))[8] (frameOf (entryM1 s) (frameBase s.gpr[rsp]))[9]
      (frameOf (entryM1 s) (frameBase s.gpr[rsp]))[10] (frameOf (entryM1 s) (frameBase s.gpr[rsp]))[11]
      (frameOf (entryM1 s) (frameBase s.gpr[rsp]))[12] (frameOf (entryM1 s) (frameBase s.gpr[rsp]))[13]
      (frameOf (entryM1 s) (frameBase s.gpr[rsp]))[14] (frameOf (entryM1 s) (frameBase s.gpr[rsp]))[15]
      (frameOf (entryM1 s) (frameBase s.gpr[rsp]))[16] (frameOf (entryM1 s) (frameBase s.gpr[rsp]))[17]
      (frameOf (entryM1 s) (frameBase s.gpr[rsp]))[18] (frameOf (entryM1 s) (frameBase s.gpr[rsp]))[19]
      (frameOf (entryM1 s) (frameBase s.gpr[rsp]))[20] (frameOf (entryM1 s) (frameBase s.gpr[rsp]))[21]
  rw [← vec16_eta s.xmm, ← vec22_eta (frameOf (entryM1 s) (frameBase s.gpr[rsp]))] at hrun
  -- carried over to the flat machine
  have hsim := frun_sim C hash_many k ⟨mkS s.xmm #v[s.gpr[rax], A.key, UInt64.ofNat A.blocks, s.gpr[rbx], frameBase s.gpr[rsp],
      rbpOf s.gpr[rsp], UInt64.ofNat A.n, A.inputs, A.counter, s.gpr[r9], s.gpr[r10], s.gpr[r11], s.gpr[r12], s.gpr[r13], s.gpr[r14],
      s.gpr[r15]] (frameBase s.gpr[rsp] == 0) false (frameOf (entryM1 s) (frameBase s.gpr[rsp])) (entryM1 s) 10, [], true⟩
    ⟨rfl, hholds⟩ (by rw [hrun]; exact hl) (by rw [hrun])
  rw [hrun] at hsim
  have hflat : flatten (frameBase s.gpr[rsp]) (mkS s.xmm #v[s.gpr[rax], A.key, UInt64.ofNat A.blocks, s.gpr[rbx], frameBase s.gpr[rsp],
      rbpOf s.gpr[rsp], UInt64.ofNat A.n, A.inputs, A.counter, s.gpr[r9], s.gpr[r10], s.gpr[r11], s.gpr[r12], s.gpr[r13], s.gpr[r14],
      s.gpr[r15]] (frameBase s.gpr[rsp] == 0) false (frameOf (entryM1 s) (frameBase s.gpr[rsp])) (entryM1 s) 10)
      = run rb hash_many 10 s := by
    rw [h10]
    unfold flatten mkS
    simp only [frameMem_self]
    rfl
  rw [hflat] at hsim
  -- epilogue
  have hep := epilogue_flat rb #v[x0', x1', x2', x3', x4', x5', x6', x7', x8', x9', x10', x11', x12', x13', x14', x15'] ax A.key dx bx
    (frameBase s.gpr[rsp]) (rbpOf s.gpr[rsp]) si di a8 a9 a10 a11 (trunc .d32 A.flagsEnd.toUInt64) (trunc .d32 A.flags.toUInt64)
    r14' (UInt64.ofNat (64 * A.blocks)) z' c'
    (frameMem (frameBase s.gpr[rsp]) #v[e0, e1, e2, e3, e4, e5, e6, e7, e8, e9, e10, e11, e12, e13, e14, e15, e16, lo', hi', f19', f20', inc']
      (writeBytes (entryM1 s) A.out (A.outBytes s.mem)))
  refine ⟨10 + k + 8, #v[x0', x1', x2', x3', x4', x5', x6', x7', x8', x9', x10', x11', x12', x13', x14', x15'], ax, dx, si, di, a8, a9,
    a10, a11, z', c', #v[e0, e1, e2, e3, e4, e5, e6, e7, e8, e9, e10, e11, e12, e13, e14, e15, e16, lo', hi', f19', f20', inc'], ?_⟩
  rw [run_add, run_add, hsim.1]
  exact hep

end

/-! ### main theorem -/

/-- **blake3_hash_many_sse2.**  For every state satisfying `Entry` (any number of inputs, any block count `≥ 1`, any counter,
any flags): after some number `N` of instructions the routine has returned without fault; every byte of memory outside the
472 bytes below the entry `rsp` is what it was, except that the `32 * num_inputs` bytes at `out` hold the chaining values of the
inputs in order (`HmArgs.outBytes`: input `i` hashed from the key with counter `counter + i` if `increment_counter`, else `counter`;
`flags`, `flags_start` on the first block, `flags_end` on the last); `rsp` is the entry `rsp + 8`; `rbx rbp r12 r13 r14 r15` are
restored. -/
theorem hash_many_correct_partial {rb : UInt64} {s : State} {A : HmArgs} (E : Entry rb s A) (hmod : A.n % 4 ≤ 1) :
    ∃ N, (run rb hash_many N s).status = .returned ∧ (run rb hash_many N s).ok = true ∧
      (∀ p, 472 ≤ (p - scratch s.gpr[rsp]).toNat →
        (run rb hash_many N s).mem p = writeBytes s.mem A.out (A.outBytes s.mem) p) ∧
      (run rb hash_many N s).gpr[rsp] = s.gpr[rsp] + 8 ∧
      (run rb hash_many N s).gpr[rbx] = s.gpr[rbx] ∧ (run rb hash_many N s).gpr[rbp] = s.gpr[rbp] ∧
      (run rb hash_many N s).gpr[r12] = s.gpr[r12] ∧ (run rb hash_many N s).gpr[r13] = s.gpr[r13] ∧
      (run rb hash_many N s).gpr[r14] = s.gpr[r14] ∧ (run rb hash_many N s).gpr[r15] = s.gpr[r15] := by
  obtain ⟨N, x', ax, dx, si, di, a8, a9, a10, a11, z', c', F', h⟩ := hash_many_final_all_partial E hmod
  refine ⟨N, ?_⟩
  rw [h]
  obtain ⟨p1, p2, p3, p4, p5, p0⟩ := plus8 (rbpOf s.gpr[rsp])
  obtain ⟨s0, s1, s2, s3, s4, s5⟩ := entryM1_slots s
  refine ⟨rfl, rfl, fun p hp => final_mem E F' p hp, rsp_restored _, ?_, ?_, ?_, ?_, ?_, ?_⟩
  · show load64 _ (rbpOf s.gpr[rsp] + 8) = _
    rw [p1, final_slot E F' _ 40 (by omega) (by omega) (slot_addr _ 1 (by omega)), s1]
  · show load64 _ (rbpOf s.gpr[rsp]) = _
    rw [p0, final_slot E F' _ 48 (by omega) (by omega) (slot_addr _ 0 (by omega)), s0]
  · show load64 _ (rbpOf s.gpr[rsp] + 8 + 8) = _
    rw [p2, final_slot E F' _ 32 (by omega) (by omega) (slot_addr _ 2 (by omega)), s2]
  · show load64 _ (rbpOf s.gpr[rsp] + 8 + 8 + 8) = _
    rw [p3, final_slot E F' _ 24 (by omega) (by omega) (slot_addr _ 3 (by omega)), s3]
  · show load64 _ (rbpOf s.gpr[rsp] + 8 + 8 + 8 + 8) = _
    rw [p4, final_slot E F' _ 16 (by omega) (by omega) (slot_addr _ 4 (by omega)), s4]
  · show load64 _ (rbpOf s.gpr[rsp] + 8 + 8 + 8 + 8 + 8) = _
    rw [p5, final_slot E F' _ 8 (by omega) (by omega) (slot_addr _ 5 (by omega)), s5]

/-- the 4-way path alone: `num_inputs` divisible by four (a special case, stated for reference) -/
theorem hash_many_groups {rb : UInt64} {s : State} {A : HmArgs} (E : Entry rb s A) (G : Nat) (hG : A.n = 4 * G) :
    ∃ N, (run rb hash_many N s).status = .returned ∧ (run rb hash_many N s).ok = true ∧
      (∀ p, 472 ≤ (p - scratch s.gpr[rsp]).toNat →
        (run rb hash_many N s).mem p = writeBytes s.mem A.out (A.outBytes s.mem) p) :=
  let ⟨N, h1, h2, h3, _⟩ := hash_many_correct_partial E (by omega)
  ⟨N, h1, h2, h3⟩

end B3.AsmSem.Many2
