/- the pieces of `blake3_hash_many_sse2` that change `rsp`, evaluated in the kernel on THE (flat) semantics, and the
four-instruction path through the tails for `num_inputs % 4 = 0` on the frame machine:
  0..9        `endbr64`, six pushes, `mov rbp, rsp`, `sub rsp, 360`, `and rsp, -64`
  1413..1420  `mov rsp, rbp`, six pops, `ret`
  1617, 1618, 1861, 1862   `test esi, 2; je 3f; test esi, 1; je 4b` with `esi` divisible by 4 -/
import B3.Asm.Many2Gpr
namespace B3.AsmSem.Many2
open B3 B3.Simd B3.AsmSem B3.Gen.AsmSse2Many

/-- the memory after the six pushes -/
def pushMem (m : Memory) (sp g15 g14 g13 g12 g3 g5 : UInt64) : Memory :=
  store64 (store64 (store64 (store64 (store64 (store64 m (sp - 8) g15) (sp - 8 - 8) g14) (sp - 8 - 8 - 8) g13) (sp - 8 - 8 - 8 - 8) g12)
    (sp - 8 - 8 - 8 - 8 - 8) g3) (sp - 8 - 8 - 8 - 8 - 8 - 8) g5

/-- the frame base: `(rsp - 48 - 360) and -64` -/
def frameBase (sp : UInt64) : UInt64 := (sp - 8 - 8 - 8 - 8 - 8 - 8 - UInt64.ofNat 360) &&& UInt64.ofNat 18446744073709551552

/-- instructions 0..9 on the flat machine -/
theorem prologue_flat (rb : UInt64) (x : Vector V4 16) (g0 g1 g2 g3 g4 g5 g6 g7 g8 g9 g10 g11 g12 g13 g14 g15 : UInt64) (z c : Bool) (m : Memory) :
    run rb hash_many 10 ⟨x, #v[g0, g1, g2, g3, g4, g5, g6, g7, g8, g9, g10, g11, g12, g13, g14, g15], z, c, m, 0, .running, true⟩
      = ⟨x, #v[g0, g1, g2, g3, frameBase g4, g4 - 8 - 8 - 8 - 8 - 8 - 8, g6, g7, g8, g9, g10, g11, g12, g13, g14, g15], frameBase g4 == 0, false,
         pushMem m g4 g15 g14 g13 g12 g3 g5, 10, .running, true⟩ := by
  kernel_rfl

/-- instructions 1413..1420 on the flat machine: `rsp := rbp`, six pops, `ret` -/
theorem epilogue_flat (rb : UInt64) (x : Vector V4 16) (g0 g1 g2 g3 g4 g5 g6 g7 g8 g9 g10 g11 g12 g13 g14 g15 : UInt64) (z c : Bool) (m : Memory) :
    run rb hash_many 8 ⟨x, #v[g0, g1, g2, g3, g4, g5, g6, g7, g8, g9, g10, g11, g12, g13, g14, g15], z, c, m, 1609, .running, true⟩
      = ⟨x, #v[g0, g1, g2, load64 m (g5 + 8), g5 + 8 + 8 + 8 + 8 + 8 + 8 + 8, load64 m g5, g6, g7, g8, g9, g10, g11, load64 m (g5 + 8 + 8), load64 m (g5 + 8 + 8 + 8), load64 m (g5 + 8 + 8 + 8 + 8), load64 m (g5 + 8 + 8 + 8 + 8 + 8)], z, c, m, 1616, .returned, true⟩ := by
  kernel_rfl

/-- `test esi, 2; je 3f; test esi, 1; je 4b` when bits 0 and 1 of `esi` are clear: straight to the epilogue -/
theorem tail_none (rb : UInt64) (x : Vector V4 16) (g0 g1 g2 g3 g4 g5 g6 g7 g8 g9 g10 g11 g12 g13 g14 g15 : UInt64) (z c : Bool) (F : Vector V4 22) (m : Memory)
    (h2 : (trunc .d32 g6 &&& trunc .d32 (UInt64.ofNat 2) == 0) = true) (h1 : (trunc .d32 g6 &&& trunc .d32 (UInt64.ofNat 1) == 0) = true) :
    frun rodata rb hash_many 4 ⟨mkS x #v[g0, g1, g2, g3, g4, g5, g6, g7, g8, g9, g10, g11, g12, g13, g14, g15] z c F m 1617, [], true⟩ = ⟨mkS x #v[g0, g1, g2, g3, g4, g5, g6, g7, g8, g9, g10, g11, g12, g13, g14, g15] true false F m 1609, [], true⟩ := by
  have e1 : frun rodata rb hash_many 1 ⟨mkS x #v[g0, g1, g2, g3, g4, g5, g6, g7, g8, g9, g10, g11, g12, g13, g14, g15] z c F m 1617, [], true⟩
      = ⟨mkS x #v[g0, g1, g2, g3, g4, g5, g6, g7, g8, g9, g10, g11, g12, g13, g14, g15] (trunc .d32 g6 &&& trunc .d32 (UInt64.ofNat 2) == 0) false F m 1618, [], true⟩ := by kernel_rfl
  have e2 : frun rodata rb hash_many 1 ⟨mkS x #v[g0, g1, g2, g3, g4, g5, g6, g7, g8, g9, g10, g11, g12, g13, g14, g15] true false F m 1618, [], true⟩
      = ⟨mkS x #v[g0, g1, g2, g3, g4, g5, g6, g7, g8, g9, g10, g11, g12, g13, g14, g15] true false F m 1861, [], true⟩ := by kernel_rfl
  have e3 : frun rodata rb hash_many 1 ⟨mkS x #v[g0, g1, g2, g3, g4, g5, g6, g7, g8, g9, g10, g11, g12, g13, g14, g15] true false F m 1861, [], true⟩
      = ⟨mkS x #v[g0, g1, g2, g3, g4, g5, g6, g7, g8, g9, g10, g11, g12, g13, g14, g15] (trunc .d32 g6 &&& trunc .d32 (UInt64.ofNat 1) == 0) false F m 1862, [], true⟩ := by kernel_rfl
  have e4 : frun rodata rb hash_many 1 ⟨mkS x #v[g0, g1, g2, g3, g4, g5, g6, g7, g8, g9, g10, g11, g12, g13, g14, g15] true false F m 1862, [], true⟩
      = ⟨mkS x #v[g0, g1, g2, g3, g4, g5, g6, g7, g8, g9, g10, g11, g12, g13, g14, g15] true false F m 1609, [], true⟩ := by kernel_rfl
  rw [show (4 : Nat) = 1 + (1 + (1 + 1)) from rfl, frun_add, e1, h2, frun_add, e2, frun_add, e3, h1, e4]

end B3.AsmSem.Many2
