/- the six pushes of the prologue and the six pops of the epilogue: what is read back from the push area -/
import B3.Asm.Many2TopLemmas
namespace B3.AsmSem.Many2
open B3 B3.Simd B3.AsmSem B3.Gen.AsmSse2Many

theorem store64_at (m : Memory) (a v : UInt64) (i : Nat) (hi : i < 8) :
    store64 m a v (a + UInt64.ofNat i) = UInt8.ofNat (v.toNat / 256 ^ i % 256) := by
  unfold store64
  have e : a + UInt64.ofNat i - a = UInt64.ofNat i := by rw [UInt64.add_comm, UInt64.add_sub_cancel]
  rw [e]
  have hlt : UInt64.ofNat i < 8 := by
    apply UInt64.lt_iff_toNat_lt.mpr
    rw [UInt64.toNat_ofNat', Nat.mod_eq_of_lt (by omega)]
    exact hi
  rw [if_pos hlt]
  apply UInt8.toNat_inj.mp
  have a1 : (UInt64.ofNat i).toNat = i := by
    rw [UInt64.toNat_ofNat']
    omega
  have e8 : (8 * UInt64.ofNat i).toNat = 8 * i := by
    rw [UInt64.toNat_mul, a1]
    show (8 * i) % 2 ^ 64 = 8 * i
    omega
  rw [UInt64.toNat_toUInt8, UInt64.toNat_shiftRight, e8, UInt8.toNat_ofNat', Nat.shiftRight_eq_div_pow]
  have : 8 * i % 64 = 8 * i := by omega
  rw [this, Nat.pow_mul]
  simp only [Nat.reducePow, Nat.mod_mod]

theorem le32_toNat (b0 b1 b2 b3 : UInt8) :
    (le32 b0 b1 b2 b3).toNat = b0.toNat + 256 * b1.toNat + 65536 * b2.toNat + 16777216 * b3.toNat := by
  unfold le32
  rw [UInt32.toNat_ofNat']
  have := b0.toNat_lt; have := b1.toNat_lt; have := b2.toNat_lt; have := b3.toNat_lt
  omega

/-- what was pushed is what is popped -/
theorem load64_store64_same (m : Memory) (a v : UInt64) : load64 (store64 m a v) a = v := by
  apply UInt64.toNat_inj.mp
  rw [load64_unfold, word_unfold, word_unfold]
  have s0 : store64 m a v a = UInt8.ofNat (v.toNat / 256 ^ 0 % 256) := by
    have := store64_at m a v 0 (by omega)
    rwa [show UInt64.ofNat 0 = 0 from rfl, UInt64.add_zero] at this
  simp only [addr_add, Nat.reduceAdd]
  rw [s0, store64_at m a v 1 (by omega), store64_at m a v 2 (by omega), store64_at m a v 3 (by omega),
    store64_at m a v 4 (by omega), store64_at m a v 5 (by omega), store64_at m a v 6 (by omega), store64_at m a v 7 (by omega)]
  have h32 : (32 : UInt64).toNat % 64 = 32 := by decide
  rw [UInt64.toNat_or, UInt64.toNat_shiftLeft, h32, UInt32.toNat_toUInt64, UInt32.toNat_toUInt64, le32_toNat, le32_toNat]
  simp only [UInt8.toNat_ofNat']
  have hv := v.toNat_lt
  generalize v.toNat = w at *
  have hlo : w / 256 ^ 0 % 256 % 2 ^ 8 + 256 * (w / 256 ^ 1 % 256 % 2 ^ 8) + 65536 * (w / 256 ^ 2 % 256 % 2 ^ 8)
      + 16777216 * (w / 256 ^ 3 % 256 % 2 ^ 8) = w % 2 ^ 32 := by
    simp only [Nat.reducePow]
    omega
  have hhi : w / 256 ^ 4 % 256 % 2 ^ 8 + 256 * (w / 256 ^ 5 % 256 % 2 ^ 8) + 65536 * (w / 256 ^ 6 % 256 % 2 ^ 8)
      + 16777216 * (w / 256 ^ 7 % 256 % 2 ^ 8) = w / 2 ^ 32 := by
    simp only [Nat.reducePow]
    omega
  rw [hlo, hhi]
  have hs : (w / 2 ^ 32) <<< 32 % 2 ^ 64 = (w / 2 ^ 32) <<< 32 := by
    rw [Nat.shiftLeft_eq]
    apply Nat.mod_eq_of_lt
    omega
  rw [hs, Nat.or_comm, ← Nat.shiftLeft_add_eq_or_of_lt (Nat.mod_lt _ (by decide)), Nat.shiftLeft_eq]
  omega

theorem load64_store64_other (m : Memory) (a v b : UInt64) (h : OutsideRo a 8 b 8) : load64 (store64 m a v) b = load64 m b := by
  apply SameOn.load64 (k := 8) _ (by omega)
  intro i hi
  exact store64_outside m a v _ (h i hi)

/-- two quadwords at different multiples of 8 below `sp` (within 64 bytes) do not overlap -/
theorem push_apart (sp : UInt64) (i j : Nat) (hi : i ≤ 8) (hj : j ≤ 8) (hij : i ≠ j) (a b : UInt64)
    (ha : a = sp - UInt64.ofNat (8 * i)) (hb : b = sp - UInt64.ofNat (8 * j)) : OutsideRo a 8 b 8 := by
  intro k hk
  subst ha hb
  have e : (sp - UInt64.ofNat (8 * j) + UInt64.ofNat k - (sp - UInt64.ofNat (8 * i))).toNat
      = (2 ^ 64 + 8 * i + k - 8 * j) % 2 ^ 64 := by
    simp only [UInt64.toNat_sub, UInt64.toNat_add, UInt64.toNat_ofNat']
    have := sp.toNat_lt
    have e1 : 8 * i % 2 ^ 64 = 8 * i := by omega
    have e2 : 8 * j % 2 ^ 64 = 8 * j := by omega
    have e3 : k % 2 ^ 64 = k := by omega
    rw [e1, e2, e3]
    omega
  rw [e]
  omega

end B3.AsmSem.Many2
