/- from the quantities the machine computes to the specification: the fold of `Spec.compress` over the blocks of an input
(`hashBlocks`, the `specHashBlocks` of `B3/Simd/Sse41Props.lean`), the flag words, the blocks of an input in memory -/
import B3.Asm.Many2Outer
namespace B3.AsmSem.Many2
open B3 B3.Simd B3.AsmSem B3.Gen.AsmSse2Many

/-! ### addresses -/

theorem dispU_neg (c : Nat) (hc : 0 < c) : dispU (-(c : Int)) = 0 - UInt64.ofNat c := by
  obtain ⟨k, rfl⟩ : ∃ k, c = k + 1 := ⟨c - 1, by omega⟩
  rfl

theorem dispU_nat (c : Nat) : dispU (c : Int) = UInt64.ofNat c := rfl

/-- `p + a - c = p + (a - c)` for a negative displacement `-c` with `c ≤ a` -/
theorem add_disp_neg (p : UInt64) (a c : Nat) (hc : 0 < c) (h : c ≤ a) :
    p + UInt64.ofNat a + dispU (-(c : Int)) = p + UInt64.ofNat (a - c) := by
  rw [dispU_neg c hc]
  have : UInt64.ofNat a = UInt64.ofNat (a - c) + UInt64.ofNat c := by
    rw [← UInt64.ofNat_add]
    congr 1
    omega
  rw [this, UInt64.zero_sub, ← UInt64.add_assoc, UInt64.add_assoc, ← UInt64.sub_eq_add_neg, UInt64.sub_self, UInt64.add_zero]

/-! ### the blocks of an input -/

/-- block `b` (sixteen little-endian words) of the input at address `p` -/
def memBlock (m : Memory) (p : UInt64) (b : Nat) : St := readWords m (p + UInt64.ofNat (64 * b)) 16

theorem word_addr0 (m : Memory) (X p : UInt64) (a t : Nat) (hX : X = p + UInt64.ofNat (a + t)) :
    m.word X = m.word (p + UInt64.ofNat a + UInt64.ofNat t) := by
  rw [hX, addr_add]

theorem word_addr (m : Memory) (X p : UInt64) (a d c t : Nat) (hX : X = p + UInt64.ofNat (a + d)) (ht : d + c = t) :
    m.word (X + UInt64.ofNat c) = m.word (p + UInt64.ofNat a + UInt64.ofNat t) := by
  rw [hX, addr_add, addr_add, Nat.add_assoc, ht]

/-- what the sixteen loads of block `b` read (`rdx = 64 (b + 1)`, displacements `-64 .. -16`) is block `b` -/
theorem blk_eq_memBlock (m : Memory) (p : UInt64) (b : Nat) : blk m (p + UInt64.ofNat (64 * (b + 1))) = memBlock m p b := by
  have e64 : p + UInt64.ofNat (64 * (b + 1)) + dispU (-64) = p + UInt64.ofNat (64 * b + 0) := by
    have := add_disp_neg p (64 * (b + 1)) 64 (by omega) (by omega)
    rwa [show 64 * (b + 1) - 64 = 64 * b + 0 by omega] at this
  have e48 : p + UInt64.ofNat (64 * (b + 1)) + dispU (-48) = p + UInt64.ofNat (64 * b + 16) := by
    have := add_disp_neg p (64 * (b + 1)) 48 (by omega) (by omega)
    rwa [show 64 * (b + 1) - 48 = 64 * b + 16 by omega] at this
  have e32 : p + UInt64.ofNat (64 * (b + 1)) + dispU (-32) = p + UInt64.ofNat (64 * b + 32) := by
    have := add_disp_neg p (64 * (b + 1)) 32 (by omega) (by omega)
    rwa [show 64 * (b + 1) - 32 = 64 * b + 32 by omega] at this
  have e16 : p + UInt64.ofNat (64 * (b + 1)) + dispU (-16) = p + UInt64.ofNat (64 * b + 48) := by
    have := add_disp_neg p (64 * (b + 1)) 16 (by omega) (by omega)
    rwa [show 64 * (b + 1) - 16 = 64 * b + 48 by omega] at this
  unfold blk memBlock
  apply Vector.ext
  intro i hi
  simp only [readWords, Vector.getElem_ofFn]
  match i, hi with
  | 0, _ => exact word_addr0 m _ p (64 * b) 0 e64
  | 1, _ => exact word_addr m _ p (64 * b) 0 4 4 e64 rfl
  | 2, _ => exact word_addr m _ p (64 * b) 0 8 8 e64 rfl
  | 3, _ => exact word_addr m _ p (64 * b) 0 12 12 e64 rfl
  | 4, _ => exact word_addr0 m _ p (64 * b) 16 e48
  | 5, _ => exact word_addr m _ p (64 * b) 16 4 20 e48 rfl
  | 6, _ => exact word_addr m _ p (64 * b) 16 8 24 e48 rfl
  | 7, _ => exact word_addr m _ p (64 * b) 16 12 28 e48 rfl
  | 8, _ => exact word_addr0 m _ p (64 * b) 32 e32
  | 9, _ => exact word_addr m _ p (64 * b) 32 4 36 e32 rfl
  | 10, _ => exact word_addr m _ p (64 * b) 32 8 40 e32 rfl
  | 11, _ => exact word_addr m _ p (64 * b) 32 12 44 e32 rfl
  | 12, _ => exact word_addr0 m _ p (64 * b) 48 e16
  | 13, _ => exact word_addr m _ p (64 * b) 48 4 52 e16 rfl
  | 14, _ => exact word_addr m _ p (64 * b) 48 8 56 e16 rfl
  | 15, _ => exact word_addr m _ p (64 * b) 48 12 60 e16 rfl
  | n + 16, h => omega

/-! ### the fold over the blocks -/

/-- the flags word of block `b` of `B`, as the machine builds it: `a` on the first block, `w` afterwards, `e` or-ed in on the last -/
def flagW (a w e : UInt32) (B b : Nat) : UInt32 :=
  if b + 1 = B then (if b = 0 then a else w) ||| e else (if b = 0 then a else w)

/-- the chaining value obtained from `key` by compressing the blocks `blk 0 .. blk (B-1)`, counter words `lo hi`, block length 64,
flags word `fw b` for block `b` -/
def hashBlocksW (key : CV) (blkAt : Nat → St) (B : Nat) (lo hi : UInt32) (fw : Nat → UInt32) : CV :=
  (List.range B).foldl (fun cv b => laneCV cv (blkAt b) lo hi (fw b)) key

theorem loopCV_eq_foldl (m : Memory) (p : UInt64) (lo hi w e : UInt32) (B : Nat) (n : Nat) :
    ∀ (j : Nat) (a : UInt32) (H : CV) (fw : Nat → UInt32),
      fw j = (if j + 1 = B then a ||| e else a) → (∀ b, j < b → fw b = (if b + 1 = B then w ||| e else w)) →
      loopCV m p lo hi w e B n j a H
        = (List.range' j n).foldl (fun cv b => laneCV cv (memBlock m p b) lo hi (fw b)) H := by
  induction n with
  | zero => intro j a H fw _ _; rfl
  | succ n ih =>
    intro j a H fw h0 h1
    rw [loopCV, List.range'_succ, List.foldl_cons, blk_eq_memBlock, ← h0]
    exact ih (j + 1) w _ fw (h1 (j + 1) (by omega)) (fun b hb => h1 b (by omega))

/-- the chaining value that the inner loop computes for a lane is the fold over the `B` blocks of its input -/
theorem loopCV_eq (m : Memory) (p : UInt64) (lo hi a w e : UInt32) (B : Nat) (key : CV) :
    loopCV m p lo hi w e B B 0 a key = hashBlocksW key (memBlock m p) B lo hi (flagW a w e B) := by
  rw [loopCV_eq_foldl m p lo hi w e B B 0 a key (flagW a w e B)]
  · unfold hashBlocksW
    rw [List.range_eq_range']
  · simp [flagW]
  · intro b hb
    have : b ≠ 0 := by omega
    simp [flagW, this]

/-! ### flags -/

/-- the flag words with the three flag bytes of the C prototype -/
theorem flagW_bytes (fl fs fe : UInt8) (B b : Nat) :
    flagW (fs.toUInt32 ||| fl.toUInt32) fl.toUInt32 fe.toUInt32 B b
      = (fl ||| (if b = 0 then fs else 0) ||| (if b + 1 = B then fe else 0)).toUInt32 := by
  unfold flagW
  by_cases h1 : b + 1 = B
  · by_cases h0 : b = 0
    · rw [if_pos h1, if_pos h0, if_pos h0, if_pos h1, UInt8.toUInt32_or, UInt8.toUInt32_or, UInt32.or_comm fs.toUInt32]
    · rw [if_pos h1, if_neg h0, if_neg h0, if_pos h1, UInt8.or_zero, UInt8.toUInt32_or]
  · by_cases h0 : b = 0
    · rw [if_neg h1, if_pos h0, if_pos h0, if_neg h1, UInt8.or_zero, UInt8.toUInt32_or, UInt32.or_comm fs.toUInt32]
    · rw [if_neg h1, if_neg h0, if_neg h0, if_neg h1, UInt8.or_zero, UInt8.or_zero]

/-- the reference of `B3/Simd/Sse41Props.lean` (`specHashBlocks`), restated here: block `b` carries `flags`, plus `flags_start`
if it is the first, plus `flags_end` if it is the last; block length 64, counter `t` -/
def hashBlocks (key : CV) (blkAt : Nat → St) (blocks : Nat) (t : UInt64) (flags flags_start flags_end : UInt8) : CV :=
  (List.range blocks).foldl
    (fun cv b => first8 (Spec.compress cv (blkAt b) t 64
      (flags ||| (if b = 0 then flags_start else 0) ||| (if b + 1 = blocks then flags_end else 0)).toUInt32))
    key

theorem hashBlocksW_eq (key : CV) (blkAt : Nat → St) (B : Nat) (t : UInt64) (fl fs fe : UInt8) :
    hashBlocksW key blkAt B t.toUInt32 (t >>> 32).toUInt32 (flagW (fs.toUInt32 ||| fl.toUInt32) fl.toUInt32 fe.toUInt32 B)
      = hashBlocks key blkAt B t fl fs fe := by
  unfold hashBlocksW hashBlocks
  simp only [laneCV_eq, flagW_bytes]

end B3.AsmSem.Many2
