/- `blake3_hash_many_sse2`: what the final state (`hash_many_final_all`, B3/Asm/ManyAll.lean) says about memory, `rsp` and the
callee-saved registers -/
import B3.Asm.Many2Top
namespace B3.AsmSem.Many2
open B3 B3.Simd B3.AsmSem B3.Gen.AsmSse2Many

section
variable {rb : UInt64} {s : State} {A : HmArgs} (E : Entry rb s A)
include E

/-- the final memory, outside the scratch area: the entry memory with the output bytes at `out` -/
theorem final_mem (F' : Vector V4 22) (p : UInt64) (hp : 472 ≤ (p - scratch s.gpr[rsp]).toNat) :
    frameMem (frameBase s.gpr[rsp]) F' (writeBytes (entryM1 s) A.out (A.outBytes s.mem)) p
      = writeBytes s.mem A.out (A.outBytes s.mem) p := by
  have hf : 352 ≤ (p - frameBase s.gpr[rsp]).toNat := by
    by_cases h : (p - frameBase s.gpr[rsp]).toNat < 352
    · have := frame_in_scratch _ E.hsp p h
      omega
    · omega
  rw [frameMem_out _ _ _ _ hf]
  unfold writeBytes
  split
  · rfl
  · exact pushMem_outside _ _ _ _ _ _ _ _ E.hsp p hp

set_option maxRecDepth 10000 in
/-- the push slot `k` (`k = 1 .. 6`, at `rsp_entry - 8 k`) read from the final memory holds what was pushed -/
theorem final_slot (F' : Vector V4 22) (a : UInt64) (d : Nat) (hd : 8 ≤ d) (hd' : d ≤ 48) (ha : a = s.gpr[rsp] - UInt64.ofNat d) :
    load64 (frameMem (frameBase s.gpr[rsp]) F' (writeBytes (entryM1 s) A.out (A.outBytes s.mem))) a = load64 (entryM1 s) a := by
  obtain ⟨_, hlo, hhi⟩ := frameBase_spec s.gpr[rsp] E.hsp
  have hs := scratch_toNat s.gpr[rsp] E.hsp
  have hsp := s.gpr[rsp].toNat_lt
  have h512 := E.hsp
  have hdn : (UInt64.ofNat d).toNat = d := ofNat_toNat_lt d (by omega)
  have hat : a.toNat = s.gpr[rsp].toNat - d := by
    rw [ha, UInt64.toNat_sub, hdn]
    omega
  -- the slot as an offset into the scratch area
  have hoff : a = scratch s.gpr[rsp] + UInt64.ofNat (472 - d) := by
    apply UInt64.toNat_inj.mp
    rw [hat, UInt64.toNat_add, hs, ofNat_toNat_lt (472 - d) (by omega)]
    omega
  have hfr : Outside (frameBase s.gpr[rsp]) a 8 := by
    intro i hi
    rw [UInt64.toNat_sub, UInt64.toNat_add, hat, ofNat_toNat_lt i (by omega)]
    have := (frameBase s.gpr[rsp]).toNat_lt
    omega
  rw [load64_out _ _ _ _ hfr]
  apply SameOn.load64 (k := 8) _ (by omega)
  intro i hi
  have hlen : (A.outBytes s.mem).length = 32 * A.n := outBytes_length _ _ _ _ _ _ _ _ _
  apply writeBytes_outside _ _ _ (32 * A.n) (by omega)
  have := E.out_scratch.symm (472 - d + i) (by omega)
  rw [← addr_add, ← hoff] at this
  exact this

end

/-! ### what the pushes stored -/

theorem apart8 (a : UInt64) (i j : Nat) (hij : i ≠ j) (hi : i ≤ 5) (hj : j ≤ 5) :
    OutsideRo (a + UInt64.ofNat (8 * i)) 8 (a + UInt64.ofNat (8 * j)) 8 := by
  intro k hk
  have e : (a + UInt64.ofNat (8 * j) + UInt64.ofNat k - (a + UInt64.ofNat (8 * i))).toNat = (2 ^ 64 + 8 * j + k - 8 * i) % 2 ^ 64 := by
    simp only [UInt64.toNat_sub, UInt64.toNat_add, UInt64.toNat_ofNat']
    have := a.toNat_lt
    have e1 : 8 * i % 2 ^ 64 = 8 * i := by omega
    have e2 : 8 * j % 2 ^ 64 = 8 * j := by omega
    have e3 : k % 2 ^ 64 = k := by omega
    rw [e1, e2, e3]
    omega
  rw [e]
  omega

/-- six quadwords stored at `a + 40`, `a + 32`, .., `a` are read back -/
theorem pops_of_pushes (m : Memory) (a v1 v2 v3 v4 v5 v6 : UInt64) :
    load64 (store64 (store64 (store64 (store64 (store64 (store64 m (a + UInt64.ofNat (8 * 5)) v1) (a + UInt64.ofNat (8 * 4)) v2)
      (a + UInt64.ofNat (8 * 3)) v3) (a + UInt64.ofNat (8 * 2)) v4) (a + UInt64.ofNat (8 * 1)) v5) (a + UInt64.ofNat (8 * 0)) v6)
      (a + UInt64.ofNat (8 * 0)) = v6 ∧
    load64 (store64 (store64 (store64 (store64 (store64 (store64 m (a + UInt64.ofNat (8 * 5)) v1) (a + UInt64.ofNat (8 * 4)) v2)
      (a + UInt64.ofNat (8 * 3)) v3) (a + UInt64.ofNat (8 * 2)) v4) (a + UInt64.ofNat (8 * 1)) v5) (a + UInt64.ofNat (8 * 0)) v6)
      (a + UInt64.ofNat (8 * 1)) = v5 ∧
    load64 (store64 (store64 (store64 (store64 (store64 (store64 m (a + UInt64.ofNat (8 * 5)) v1) (a + UInt64.ofNat (8 * 4)) v2)
      (a + UInt64.ofNat (8 * 3)) v3) (a + UInt64.ofNat (8 * 2)) v4) (a + UInt64.ofNat (8 * 1)) v5) (a + UInt64.ofNat (8 * 0)) v6)
      (a + UInt64.ofNat (8 * 2)) = v4 ∧
    load64 (store64 (store64 (store64 (store64 (store64 (store64 m (a + UInt64.ofNat (8 * 5)) v1) (a + UInt64.ofNat (8 * 4)) v2)
      (a + UInt64.ofNat (8 * 3)) v3) (a + UInt64.ofNat (8 * 2)) v4) (a + UInt64.ofNat (8 * 1)) v5) (a + UInt64.ofNat (8 * 0)) v6)
      (a + UInt64.ofNat (8 * 3)) = v3 ∧
    load64 (store64 (store64 (store64 (store64 (store64 (store64 m (a + UInt64.ofNat (8 * 5)) v1) (a + UInt64.ofNat (8 * 4)) v2)
      (a + UInt64.ofNat (8 * 3)) v3) (a + UInt64.ofNat (8 * 2)) v4) (a + UInt64.ofNat (8 * 1)) v5) (a + UInt64.ofNat (8 * 0)) v6)
      (a + UInt64.ofNat (8 * 4)) = v2 ∧
    load64 (store64 (store64 (store64 (store64 (store64 (store64 m (a + UInt64.ofNat (8 * 5)) v1) (a + UInt64.ofNat (8 * 4)) v2)
      (a + UInt64.ofNat (8 * 3)) v3) (a + UInt64.ofNat (8 * 2)) v4) (a + UInt64.ofNat (8 * 1)) v5) (a + UInt64.ofNat (8 * 0)) v6)
      (a + UInt64.ofNat (8 * 5)) = v1 := by
  refine ⟨?_, ?_, ?_, ?_, ?_, ?_⟩
  · rw [load64_store64_same]
  · rw [load64_store64_other _ _ _ _ (apart8 a 0 1 (by omega) (by omega) (by omega)), load64_store64_same]
  · rw [load64_store64_other _ _ _ _ (apart8 a 0 2 (by omega) (by omega) (by omega)),
      load64_store64_other _ _ _ _ (apart8 a 1 2 (by omega) (by omega) (by omega)), load64_store64_same]
  · rw [load64_store64_other _ _ _ _ (apart8 a 0 3 (by omega) (by omega) (by omega)),
      load64_store64_other _ _ _ _ (apart8 a 1 3 (by omega) (by omega) (by omega)),
      load64_store64_other _ _ _ _ (apart8 a 2 3 (by omega) (by omega) (by omega)), load64_store64_same]
  · rw [load64_store64_other _ _ _ _ (apart8 a 0 4 (by omega) (by omega) (by omega)),
      load64_store64_other _ _ _ _ (apart8 a 1 4 (by omega) (by omega) (by omega)),
      load64_store64_other _ _ _ _ (apart8 a 2 4 (by omega) (by omega) (by omega)),
      load64_store64_other _ _ _ _ (apart8 a 3 4 (by omega) (by omega) (by omega)), load64_store64_same]
  · rw [load64_store64_other _ _ _ _ (apart8 a 0 5 (by omega) (by omega) (by omega)),
      load64_store64_other _ _ _ _ (apart8 a 1 5 (by omega) (by omega) (by omega)),
      load64_store64_other _ _ _ _ (apart8 a 2 5 (by omega) (by omega) (by omega)),
      load64_store64_other _ _ _ _ (apart8 a 3 5 (by omega) (by omega) (by omega)),
      load64_store64_other _ _ _ _ (apart8 a 4 5 (by omega) (by omega) (by omega)), load64_store64_same]

/-- the addresses of the pushes, counted from the lowest one -/
theorem push_addrs (sp : UInt64) :
    sp - 8 = rbpOf sp + UInt64.ofNat (8 * 5) ∧ sp - 8 - 8 = rbpOf sp + UInt64.ofNat (8 * 4) ∧
    sp - 8 - 8 - 8 = rbpOf sp + UInt64.ofNat (8 * 3) ∧ sp - 8 - 8 - 8 - 8 = rbpOf sp + UInt64.ofNat (8 * 2) ∧
    sp - 8 - 8 - 8 - 8 - 8 = rbpOf sp + UInt64.ofNat (8 * 1) ∧ sp - 8 - 8 - 8 - 8 - 8 - 8 = rbpOf sp + UInt64.ofNat (8 * 0) := by
  have c : ∀ (x : UInt64) (k : Nat), x - 8 + UInt64.ofNat (8 * (k + 1)) = x + UInt64.ofNat (8 * k) := by
    intro x k
    have : UInt64.ofNat (8 * (k + 1)) = 8 + UInt64.ofNat (8 * k) := by
      rw [show (8 : UInt64) = UInt64.ofNat 8 from rfl, ← UInt64.ofNat_add]
      congr 1
      omega
    rw [this, ← UInt64.add_assoc, UInt64.sub_add_cancel]
  have z : ∀ x : UInt64, x + UInt64.ofNat (8 * 0) = x := by
    intro x
    rw [Nat.mul_zero, show UInt64.ofNat 0 = 0 from rfl, UInt64.add_zero]
  unfold rbpOf
  refine ⟨?_, ?_, ?_, ?_, ?_, ?_⟩ <;> simp only [c, z]

theorem entryM1_slots (s : State) :
    load64 (entryM1 s) (rbpOf s.gpr[rsp] + UInt64.ofNat (8 * 0)) = s.gpr[rbp] ∧
    load64 (entryM1 s) (rbpOf s.gpr[rsp] + UInt64.ofNat (8 * 1)) = s.gpr[rbx] ∧
    load64 (entryM1 s) (rbpOf s.gpr[rsp] + UInt64.ofNat (8 * 2)) = s.gpr[r12] ∧
    load64 (entryM1 s) (rbpOf s.gpr[rsp] + UInt64.ofNat (8 * 3)) = s.gpr[r13] ∧
    load64 (entryM1 s) (rbpOf s.gpr[rsp] + UInt64.ofNat (8 * 4)) = s.gpr[r14] ∧
    load64 (entryM1 s) (rbpOf s.gpr[rsp] + UInt64.ofNat (8 * 5)) = s.gpr[r15] := by
  unfold entryM1 pushMem
  obtain ⟨a1, a2, a3, a4, a5, a6⟩ := push_addrs s.gpr[rsp]
  rw [a6, a5, a4, a3, a2, a1]
  exact pops_of_pushes _ _ _ _ _ _ _ _


theorem slot_addr (sp : UInt64) (k : Nat) (hk : k ≤ 5) : rbpOf sp + UInt64.ofNat (8 * k) = sp - UInt64.ofNat (48 - 8 * k) := by
  rw [rbpOf_eq]
  have : UInt64.ofNat 48 = UInt64.ofNat (48 - 8 * k) + UInt64.ofNat (8 * k) := by
    rw [← UInt64.ofNat_add]
    congr 1
    omega
  rw [this, ← sub_sub', UInt64.sub_add_cancel]

theorem plus8 (x : UInt64) :
    x + 8 = x + UInt64.ofNat (8 * 1) ∧ x + 8 + 8 = x + UInt64.ofNat (8 * 2) ∧ x + 8 + 8 + 8 = x + UInt64.ofNat (8 * 3) ∧
    x + 8 + 8 + 8 + 8 = x + UInt64.ofNat (8 * 4) ∧ x + 8 + 8 + 8 + 8 + 8 = x + UInt64.ofNat (8 * 5) ∧ x = x + UInt64.ofNat (8 * 0) := by
  have e8 : (8 : UInt64) = UInt64.ofNat 8 := rfl
  refine ⟨rfl, ?_, ?_, ?_, ?_, ?_⟩
  · rw [e8, addr_add]
  · rw [e8, addr_add, addr_add]
  · rw [e8, addr_add, addr_add, addr_add]
  · rw [e8, addr_add, addr_add, addr_add, addr_add]
  · rw [Nat.mul_zero, show UInt64.ofNat 0 = 0 from rfl, UInt64.add_zero]

theorem rsp_restored (sp : UInt64) : rbpOf sp + 8 + 8 + 8 + 8 + 8 + 8 + 8 = sp + 8 := by
  unfold rbpOf
  simp only [UInt64.sub_add_cancel]

end B3.AsmSem.Many2
