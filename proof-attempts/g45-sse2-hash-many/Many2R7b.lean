/- instructions 1269..1361 of the generated list: the diagonal step of round 7 with the feed-forward `v[i] ^= v[i+8]` woven in -/
import B3.Asm.Many2Views2
namespace B3.AsmSem.Many2
open B3 B3.Simd B3.AsmSem B3.Gen.AsmSse2Many

theorem r7b_raw (rb : UInt64) (S0 S1 S2 S3 M0 M1 M2 M3 : St) (j8 f17 f18 f19 f20 f21 : V4)
    (g : Vector UInt64 16) (z c : Bool) (m : Memory) :
    lview16 (frun rodata rb hash_many 107 ⟨roundS S0 S1 S2 S3 M0 M1 M2 M3 j8 f17 f18 f19 f20 f21 g z c m 1451, [], true⟩)
      = ⟨wide8 (ffw (halfB (eta16 S0) (permN 6 (eta16 M0)))) (ffw (halfB (eta16 S1) (permN 6 (eta16 M1)))) (ffw (halfB (eta16 S2) (permN 6 (eta16 M2)))) (ffw (halfB (eta16 S3) (permN 6 (eta16 M3)))) 0, wide8 (ffw (halfB (eta16 S0) (permN 6 (eta16 M0)))) (ffw (halfB (eta16 S1) (permN 6 (eta16 M1)))) (ffw (halfB (eta16 S2) (permN 6 (eta16 M2)))) (ffw (halfB (eta16 S3) (permN 6 (eta16 M3)))) 1, wide8 (ffw (halfB (eta16 S0) (permN 6 (eta16 M0)))) (ffw (halfB (eta16 S1) (permN 6 (eta16 M1)))) (ffw (halfB (eta16 S2) (permN 6 (eta16 M2)))) (ffw (halfB (eta16 S3) (permN 6 (eta16 M3)))) 2, wide8 (ffw (halfB (eta16 S0) (permN 6 (eta16 M0)))) (ffw (halfB (eta16 S1) (permN 6 (eta16 M1)))) (ffw (halfB (eta16 S2) (permN 6 (eta16 M2)))) (ffw (halfB (eta16 S3) (permN 6 (eta16 M3)))) 3, wide8 (ffw (halfB (eta16 S0) (permN 6 (eta16 M0)))) (ffw (halfB (eta16 S1) (permN 6 (eta16 M1)))) (ffw (halfB (eta16 S2) (permN 6 (eta16 M2)))) (ffw (halfB (eta16 S3) (permN 6 (eta16 M3)))) 4, wide8 (ffw (halfB (eta16 S0) (permN 6 (eta16 M0)))) (ffw (halfB (eta16 S1) (permN 6 (eta16 M1)))) (ffw (halfB (eta16 S2) (permN 6 (eta16 M2)))) (ffw (halfB (eta16 S3) (permN 6 (eta16 M3)))) 5, wide8 (ffw (halfB (eta16 S0) (permN 6 (eta16 M0)))) (ffw (halfB (eta16 S1) (permN 6 (eta16 M1)))) (ffw (halfB (eta16 S2) (permN 6 (eta16 M2)))) (ffw (halfB (eta16 S3) (permN 6 (eta16 M3)))) 6, wide8 (ffw (halfB (eta16 S0) (permN 6 (eta16 M0)))) (ffw (halfB (eta16 S1) (permN 6 (eta16 M1)))) (ffw (halfB (eta16 S2) (permN 6 (eta16 M2)))) (ffw (halfB (eta16 S3) (permN 6 (eta16 M3)))) 7,
         g, z, c, frameR M0 M1 M2 M3 #v[0, 0, 0, 0] f17 f18 f19 f20 f21, m, 1558, .running, true, [], true⟩ := by
  kernel_rfl

/-- instructions 1269..1361: XMM0-7 get, lane by lane, the new chaining value `v[i] ^ v[i+8]` of the state after the diagonal
step of round 7 -/
theorem r7b (rb : UInt64) (S0 S1 S2 S3 M0 M1 M2 M3 : St) (j8 f17 f18 f19 f20 f21 : V4)
    (g : Vector UInt64 16) (z c : Bool) (m : Memory) :
    ∃ j8' j9 j10 j11 j12 j13 j14 j15 f16, Run rodata rb hash_many 107
      (roundS S0 S1 S2 S3 M0 M1 M2 M3 j8 f17 f18 f19 f20 f21 g z c m 1451) []
      (mkS #v[wide8 (ffw (halfB (eta16 S0) (permN 6 (eta16 M0)))) (ffw (halfB (eta16 S1) (permN 6 (eta16 M1)))) (ffw (halfB (eta16 S2) (permN 6 (eta16 M2)))) (ffw (halfB (eta16 S3) (permN 6 (eta16 M3)))) 0, wide8 (ffw (halfB (eta16 S0) (permN 6 (eta16 M0)))) (ffw (halfB (eta16 S1) (permN 6 (eta16 M1)))) (ffw (halfB (eta16 S2) (permN 6 (eta16 M2)))) (ffw (halfB (eta16 S3) (permN 6 (eta16 M3)))) 1, wide8 (ffw (halfB (eta16 S0) (permN 6 (eta16 M0)))) (ffw (halfB (eta16 S1) (permN 6 (eta16 M1)))) (ffw (halfB (eta16 S2) (permN 6 (eta16 M2)))) (ffw (halfB (eta16 S3) (permN 6 (eta16 M3)))) 2, wide8 (ffw (halfB (eta16 S0) (permN 6 (eta16 M0)))) (ffw (halfB (eta16 S1) (permN 6 (eta16 M1)))) (ffw (halfB (eta16 S2) (permN 6 (eta16 M2)))) (ffw (halfB (eta16 S3) (permN 6 (eta16 M3)))) 3, wide8 (ffw (halfB (eta16 S0) (permN 6 (eta16 M0)))) (ffw (halfB (eta16 S1) (permN 6 (eta16 M1)))) (ffw (halfB (eta16 S2) (permN 6 (eta16 M2)))) (ffw (halfB (eta16 S3) (permN 6 (eta16 M3)))) 4, wide8 (ffw (halfB (eta16 S0) (permN 6 (eta16 M0)))) (ffw (halfB (eta16 S1) (permN 6 (eta16 M1)))) (ffw (halfB (eta16 S2) (permN 6 (eta16 M2)))) (ffw (halfB (eta16 S3) (permN 6 (eta16 M3)))) 5, wide8 (ffw (halfB (eta16 S0) (permN 6 (eta16 M0)))) (ffw (halfB (eta16 S1) (permN 6 (eta16 M1)))) (ffw (halfB (eta16 S2) (permN 6 (eta16 M2)))) (ffw (halfB (eta16 S3) (permN 6 (eta16 M3)))) 6, wide8 (ffw (halfB (eta16 S0) (permN 6 (eta16 M0)))) (ffw (halfB (eta16 S1) (permN 6 (eta16 M1)))) (ffw (halfB (eta16 S2) (permN 6 (eta16 M2)))) (ffw (halfB (eta16 S3) (permN 6 (eta16 M3)))) 7,
             j8', j9, j10, j11, j12, j13, j14, j15]
        g z c (frameR M0 M1 M2 M3 f16 f17 f18 f19 f20 f21) m 1558) :=
  run_of_lview16 (r7b_raw rb S0 S1 S2 S3 M0 M1 M2 M3 j8 f17 f18 f19 f20 f21 g z c m)

end B3.AsmSem.Many2
