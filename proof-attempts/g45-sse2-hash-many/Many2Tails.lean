/- the tails of `blake3_hash_many_sse2` (instructions 1421..1745) in terms of the specification: after the groups of four,
the remaining `num_inputs % 4` inputs are hashed two at a time, then one -/
import B3.Asm.Many2T1Tail
import B3.Asm.Many2Mem
import B3.Asm.Many2T2d
import B3.Asm.Many2FramePart
namespace B3.AsmSem.Many2
open B3 B3.Simd B3.AsmSem B3.Gen.AsmSse2Many

section
variable {M1 : Memory} {out g1 g5 inputs : UInt64} {n B : Nat} {K : CV} {P : Nat → UInt64} {Blk : Nat → Nat → St}
  {fl fs fe : UInt8}

/-- the chaining value the machine computes for lane `l` when `rdi` points at pointer `i` is the specification's for input `i + l` -/
theorem laneCV_spec (R : Reads M1 out g1 g5 inputs n B K P Blk fs) (g12 g13 : UInt64) (counter : UInt64) (incr : Bool)
    (i : Nat) (l : Fin 4) (hi : i + l.val < n) (lo hi' : V4)
    (hlo : lo[l] = (ctrOf counter incr (i + l.val)).toUInt32) (hhi : hi'[l] = (ctrOf counter incr (i + l.val) >>> 32).toUInt32)
    (h12 : g12.toUInt32 = fe.toUInt32) (h13 : g13.toUInt32 = fl.toUInt32)
    (bs : List UInt8) (hbs : bs.length ≤ 32 * n) :
    groupCV (writeBytes M1 out bs) g1 g5 g12 g13 (inputs + UInt64.ofNat (8 * i)) lo hi' B l
      = manyCV K Blk B counter incr fl fs fe (i + l.val) := by
  unfold groupCV manyCV
  have hp : ptrAt (writeBytes M1 out bs) (inputs + UInt64.ofNat (8 * i)) l.val = P (i + l.val) := by
    unfold ptrAt
    have e : inputs + UInt64.ofNat (8 * i) + dispU (8 * (l.val : Int)) = inputs + UInt64.ofNat (8 * (i + l.val)) := by
      have : dispU (8 * (l.val : Int)) = UInt64.ofNat (8 * l.val) := by
        match l with | 0 | 1 | 2 | 3 => rfl
      rw [this, addr_add]
      congr 2
      omega
    rw [e]
    exact R.ptr bs hbs _ hi
  rw [hp, loopCV_eq, R.key bs hbs, headRax_flags _ g5 g13 fs fl (R.fs bs hbs) h13, h12, h13,
    hashBlocksW_congr K _ (Blk (i + l.val)) B _ _ _ (fun b hb => R.blk bs hbs _ hi b hb), hlo, hhi, hashBlocksW_eq]
  rfl

theorem outBytes_succ (K : CV) (Blk : Nat → Nat → St) (B : Nat) (counter : UInt64) (incr : Bool) (fl fs fe : UInt8) (k : Nat) :
    outBytes K Blk B counter incr fl fs fe (k + 1)
      = outBytes K Blk B counter incr fl fs fe k ++ bytesOfWords (manyCV K Blk B counter incr fl fs fe k) := by
  unfold outBytes
  rw [List.range_succ, List.flatMap_append]
  simp

/-- the state between the groups / tails: `i` inputs done; the counter lanes of the inputs still to come are valid -/
def TailInv (M1 : Memory) (out g1 g4 g5 g12 g13 inputs : UInt64) (n B : Nat) (K : CV) (Blk : Nat → Nat → St)
    (counter : UInt64) (incr : Bool) (fl fs fe : UInt8) (f19 f20 inc : V4) (i : Nat) (pc : Nat) (s : StateG FMem) : Prop :=
  ∃ (lo hi : V4) (z c : Bool),
    (∀ l : Fin 4, i + l.val < n → lo[l] = (ctrOf counter incr (i + l.val)).toUInt32 ∧
      hi[l] = (ctrOf counter incr (i + l.val) >>> 32).toUInt32) ∧
    OuterState (out + UInt64.ofNat (32 * i)) (UInt64.ofNat (n - i)) (inputs + UInt64.ofNat (8 * i)) g1 g4 g5 g12 g13
      (UInt64.ofNat (64 * B)) lo hi f19 f20 inc (writeBytes M1 out (outBytes K Blk B counter incr fl fs fe i)) z c pc s


theorem sub_ofNat (a k : Nat) (h : k ≤ a) : UInt64.ofNat a - UInt64.ofNat k = UInt64.ofNat (a - k) := by
  have : a = (a - k) + k := by omega
  conv => lhs; rw [this, UInt64.ofNat_add, UInt64.add_sub_cancel]

/-- the machine at the epilogue: everything that `OuterState` tracks, with the output of the first `k` inputs in memory -/
def DoneState (M1 : Memory) (out g1 g4 g5 g12 g13 : UInt64) (B : Nat) (K : CV) (Blk : Nat → Nat → St)
    (counter : UInt64) (incr : Bool) (fl fs fe : UInt8) (k : Nat) (s : StateG FMem) : Prop :=
  ∃ (bx si di : UInt64) (lo hi f19 f20 inc : V4) (z c : Bool),
    OuterState bx si di g1 g4 g5 g12 g13 (UInt64.ofNat (64 * B)) lo hi f19 f20 inc
      (writeBytes M1 out (outBytes K Blk B counter incr fl fs fe k)) z c 1609 s

/-- the 1-input tail in terms of the specification -/
theorem tail1_step (rb : UInt64) (Q : Ref → Prop) (R : Reads M1 out g1 g5 inputs n B K P Blk fs) (hB : 64 * B < 2 ^ 64) (hB0 : 0 < B)
    (hn : 32 * n < 2 ^ 64) (g4 g12 g13 : UInt64) (counter : UInt64) (incr : Bool) (f19 f20 inc : V4)
    (h12 : g12.toUInt32 = fe.toUInt32) (h13 : g13.toUInt32 = fl.toUInt32)
    (i : Nat) (hi1 : i + 1 ≤ n)
    (hlog : ∀ r ∈ t1Log (writeBytes M1 out (outBytes K Blk B counter incr fl fs fe i)) g1 g5
      (out + UInt64.ofNat (32 * i)) (inputs + UInt64.ofNat (8 * i)) B, Q r)
    (s : StateG FMem)
    (hs : TailInv M1 out g1 g4 g5 g12 g13 inputs n B K Blk counter incr fl fs fe f19 f20 inc i 1863 s) :
    ∃ t, RunP rb Q s t ∧ DoneState M1 out g1 g4 g5 g12 g13 B K Blk counter incr fl fs fe (i + 1) t := by
  obtain ⟨lo, hi, z, c, hc, hst⟩ := hs
  obtain ⟨k, t, z', c', hrun, ht⟩ := t1_tail rb B hB hB0 _ _ _ g1 g4 g5 g12 g13 lo hi f19 f20 inc _ z c s hst
  refine ⟨t, ⟨_, _, hrun, hlog⟩, out + UInt64.ofNat (32 * i), UInt64.ofNat (n - i), inputs + UInt64.ofNat (8 * i), lo, hi, f19, f20,
    inc, z', c', ?_⟩
  have hlen := outBytes_length K Blk B counter incr fl fs fe i
  have hbs : (outBytes K Blk B counter incr fl fs fe i).length ≤ 32 * n := by rw [hlen]; omega
  rw [laneCV_spec R g12 g13 counter incr i 0 (by show i + 0 < n; omega) lo hi (hc 0 (by show i + 0 < n; omega)).1
    (hc 0 (by show i + 0 < n; omega)).2 h12 h13 _ hbs] at ht
  have e4 : out + UInt64.ofNat (32 * i) = out + UInt64.ofNat (outBytes K Blk B counter incr fl fs fe i).length := by
    rw [hlen]
  rw [e4, writeBytes_append _ _ _ _ (by rw [hlen, bytesOfWords8_length]; omega)] at ht
  rw [← e4] at ht
  rw [outBytes_succ]
  exact ht


/-- `test esi, 2; je 3f` -/
theorem TailInv.branch2 {rb : UInt64} {Q : Ref → Prop} {g4 g12 g13 counter : UInt64} {incr : Bool} {f19 f20 inc : V4} {i : Nat}
    {s : StateG FMem} (b : Bool)
    (hb : (trunc .d32 (UInt64.ofNat (n - i)) &&& trunc .d32 (UInt64.ofNat 2) == 0) = b)
    (hs : TailInv M1 out g1 g4 g5 g12 g13 inputs n B K Blk counter incr fl fs fe f19 f20 inc i 1617 s) :
    ∃ t, RunP rb Q s t ∧
      TailInv M1 out g1 g4 g5 g12 g13 inputs n B K Blk counter incr fl fs fe f19 f20 inc i (if b then 1861 else 1619) t := by
  obtain ⟨lo, hi, z, c, hc, x0, x1, x2, x3, x4, x5, x6, x7, x8, x9, x10, x11, x12, x13, x14, x15, f0, f1, f2, f3, f4, f5, f6, f7, f8, f9,
    f10, f11, f12, f13, f14, f15, f16, ax, dx, a8, a9, a10, a11, r14, rfl⟩ := hs
  have h1 : RunP rb Q _ _ := RunP.of_run (t2_test rb #v[x0, x1, x2, x3, x4, x5, x6, x7, x8, x9, x10, x11, x12, x13, x14, x15] ax g1 dx (out + UInt64.ofNat (32 * i)) g4 g5 (UInt64.ofNat (n - i)) (inputs + UInt64.ofNat (8 * i)) a8 a9 a10 a11 g12 g13 r14 (UInt64.ofNat (64 * B)) z c #v[f0, f1, f2, f3, f4, f5, f6, f7, f8, f9, f10, f11, f12, f13, f14, f15, f16, lo, hi, f19, f20, inc] (writeBytes M1 out (outBytes K Blk B counter incr fl fs fe i)))
  rw [hb] at h1
  cases b
  · have h2 := h1.step (t2_enter rb _ _ _ _ _)
    exact ⟨_, h2, lo, hi, _, _, hc, x0, x1, x2, x3, x4, x5, x6, x7, x8, x9, x10, x11, x12, x13, x14, x15, f0, f1, f2, f3, f4, f5, f6, f7,
      f8, f9, f10, f11, f12, f13, f14, f15, f16, ax, dx, a8, a9, a10, a11, r14, rfl⟩
  · have h2 := h1.step (t2_skip rb _ _ _ _ _)
    exact ⟨_, h2, lo, hi, _, _, hc, x0, x1, x2, x3, x4, x5, x6, x7, x8, x9, x10, x11, x12, x13, x14, x15, f0, f1, f2, f3, f4, f5, f6, f7,
      f8, f9, f10, f11, f12, f13, f14, f15, f16, ax, dx, a8, a9, a10, a11, r14, rfl⟩

/-- `test esi, 1; je 4b` -/
theorem TailInv.branch1 {rb : UInt64} {Q : Ref → Prop} {g4 g12 g13 counter : UInt64} {incr : Bool} {f19 f20 inc : V4} {i : Nat}
    {s : StateG FMem} (b : Bool)
    (hb : (trunc .d32 (UInt64.ofNat (n - i)) &&& trunc .d32 (UInt64.ofNat 1) == 0) = b)
    (hs : TailInv M1 out g1 g4 g5 g12 g13 inputs n B K Blk counter incr fl fs fe f19 f20 inc i 1861 s) :
    ∃ t, RunP rb Q s t ∧
      TailInv M1 out g1 g4 g5 g12 g13 inputs n B K Blk counter incr fl fs fe f19 f20 inc i (if b then 1609 else 1863) t := by
  obtain ⟨lo, hi, z, c, hc, x0, x1, x2, x3, x4, x5, x6, x7, x8, x9, x10, x11, x12, x13, x14, x15, f0, f1, f2, f3, f4, f5, f6, f7, f8, f9,
    f10, f11, f12, f13, f14, f15, f16, ax, dx, a8, a9, a10, a11, r14, rfl⟩ := hs
  have h1 : RunP rb Q _ _ := RunP.of_run (t1_test rb #v[x0, x1, x2, x3, x4, x5, x6, x7, x8, x9, x10, x11, x12, x13, x14, x15] ax g1 dx (out + UInt64.ofNat (32 * i)) g4 g5 (UInt64.ofNat (n - i)) (inputs + UInt64.ofNat (8 * i)) a8 a9 a10 a11 g12 g13 r14 (UInt64.ofNat (64 * B)) z c #v[f0, f1, f2, f3, f4, f5, f6, f7, f8, f9, f10, f11, f12, f13, f14, f15, f16, lo, hi, f19, f20, inc] (writeBytes M1 out (outBytes K Blk B counter incr fl fs fe i)))
  rw [hb] at h1
  cases b
  · have h2 := h1.step (t1_enter rb _ _ _ _ _)
    exact ⟨_, h2, lo, hi, _, _, hc, x0, x1, x2, x3, x4, x5, x6, x7, x8, x9, x10, x11, x12, x13, x14, x15, f0, f1, f2, f3, f4, f5, f6, f7,
      f8, f9, f10, f11, f12, f13, f14, f15, f16, ax, dx, a8, a9, a10, a11, r14, rfl⟩
  · have h2 := h1.step (t1_skip rb _ _ _ _ _)
    exact ⟨_, h2, lo, hi, _, _, hc, x0, x1, x2, x3, x4, x5, x6, x7, x8, x9, x10, x11, x12, x13, x14, x15, f0, f1, f2, f3, f4, f5, f6, f7,
      f8, f9, f10, f11, f12, f13, f14, f15, f16, ax, dx, a8, a9, a10, a11, r14, rfl⟩

theorem TailInv.done {g4 g12 g13 counter : UInt64} {incr : Bool} {f19 f20 inc : V4} {s : StateG FMem}
    (hs : TailInv M1 out g1 g4 g5 g12 g13 inputs n B K Blk counter incr fl fs fe f19 f20 inc n 1609 s) :
    DoneState M1 out g1 g4 g5 g12 g13 B K Blk counter incr fl fs fe n s := by
  obtain ⟨lo, hi, z, c, _, hst⟩ := hs
  exact ⟨_, _, _, lo, hi, f19, f20, inc, z, c, hst⟩

/-- **the tails, PARTIAL**: from 1617 with `i` inputs done and at most ONE to go (`num_inputs % 4 ≤ 1`): the test
`test esi, 2` falls through, then either the 1-input tail runs or `test esi, 1` falls through, to the epilogue with all `n`
outputs written.  (The 2-input tail body, instructions 1619..1860, is not covered.) -/
theorem tails_partial (rb : UInt64) (Q : Ref → Prop) (R : Reads M1 out g1 g5 inputs n B K P Blk fs) (hB : 64 * B < 2 ^ 64) (hB0 : 0 < B)
    (hn : 32 * n < 2 ^ 64) (g4 g12 g13 : UInt64) (counter : UInt64) (incr : Bool) (mk : UInt32) (f20 inc : V4)
    (h12 : g12.toUInt32 = fe.toUInt32) (h13 : g13.toUInt32 = fl.toUInt32)
    (i : Nat) (hi : i ≤ n) (hr : n - i ≤ 1)
    (hlog1 : ∀ j, j + 1 = n → ∀ r ∈ t1Log (writeBytes M1 out (outBytes K Blk B counter incr fl fs fe j)) g1 g5
      (out + UInt64.ofNat (32 * j)) (inputs + UInt64.ofNat (8 * j)) B, Q r)
    (s : StateG FMem)
    (hs : TailInv M1 out g1 g4 g5 g12 g13 inputs n B K Blk counter incr fl fs fe (set1 mk) f20 inc i 1617 s) :
    ∃ t, RunP rb Q s t ∧ DoneState M1 out g1 g4 g5 g12 g13 B K Blk counter incr fl fs fe n t := by
  have hcases : n - i = 0 ∨ n - i = 1 := by omega
  rcases hcases with h0 | h1
  · -- nothing left
    have hin : i = n := by omega
    obtain ⟨t1, r1, ht1⟩ := TailInv.branch2 (rb := rb) (Q := Q) true (by rw [h0]; decide) hs
    obtain ⟨t2, r2, ht2⟩ := TailInv.branch1 (rb := rb) (Q := Q) true (by rw [h0]; decide) ht1
    subst hin
    exact ⟨t2, r1.trans r2, TailInv.done ht2⟩
  · -- one input
    obtain ⟨t1, r1, ht1⟩ := TailInv.branch2 (rb := rb) (Q := Q) true (by rw [h1]; decide) hs
    obtain ⟨t2, r2, ht2⟩ := TailInv.branch1 (rb := rb) (Q := Q) false (by rw [h1]; decide) ht1
    obtain ⟨t3, r3, ht3⟩ := tail1_step rb Q R hB hB0 hn g4 g12 g13 counter incr (set1 mk) f20 inc h12 h13 i (by omega)
      (hlog1 i (by omega)) t2 ht2
    have : i + 1 = n := by omega
    rw [this] at ht3
    exact ⟨t3, (r1.trans r2).trans r3, ht3⟩

end
end B3.AsmSem.Many2
