/- the 1-input tail of `blake3_hash_many_sse2` (instructions 1640..1745 of the generated list), evaluated in the kernel on the
frame machine, piece by piece (same cuts as the single-block routine `blake3_compress_in_place_sse41`, whose round it repeats):
  1640..1650  key rows, the counter row from lane 0 of the counter vectors, ROT8 / ROT16, the input pointer, `eax`, `edx := 0`
  1651..1672  flags word of the block, `rdx += 64`, IV row, counter row with the flags, the block loaded and grouped, `mov al, 7`
  1673..1718  one round on the rows             1951 `dec al`      1952 `jz 9f`
  1721..1737  message permutation, `jmp 9b`     1738..1741 feed-forward, `mov eax, r13d`, `cmp rdx, r15`   1979 `jne 2b`
  1743..1745  two stores at `[rbx]`, `jmp 4b` -/
import B3.Asm.Many2Views
import B3.Asm.Many2Gpr
namespace B3.AsmSem.Many2
open B3 B3.Simd B3.AsmSem B3.Gen.AsmSse2Many

/-- everything but the scratch registers XMM8 .. XMM12 -/
structure TView where
  x0 : V4
  x1 : V4
  x2 : V4
  x3 : V4
  x4 : V4
  x5 : V4
  x6 : V4
  x7 : V4
  x13 : V4
  x14 : V4
  x15 : V4
  gpr : Vector UInt64 16
  zf : Bool
  cf : Bool
  frame : Vector V4 22
  mem : Memory
  pc : Nat
  status : Status
  ok : Bool
  log : List Ref
  spOk : Bool

def tview (a : FState) : TView :=
  ⟨a.s.xmm[0], a.s.xmm[1], a.s.xmm[2], a.s.xmm[3], a.s.xmm[4], a.s.xmm[5], a.s.xmm[6], a.s.xmm[7], a.s.xmm[13], a.s.xmm[14],
   a.s.xmm[15], a.s.gpr, a.s.zf, a.s.cf, a.s.mem.frame, a.s.mem.mem, a.s.pc, a.s.status, a.s.ok, a.log, a.spOk⟩

theorem of_tview {a : FState} {v : TView} (h : tview a = v) :
    a = ⟨⟨#v[v.x0, v.x1, v.x2, v.x3, v.x4, v.x5, v.x6, v.x7, a.s.xmm[8], a.s.xmm[9], a.s.xmm[10], a.s.xmm[11], a.s.xmm[12],
            v.x13, v.x14, v.x15], v.gpr, v.zf, v.cf, ⟨v.frame, v.mem⟩, v.pc, v.status, v.ok⟩, v.log, v.spOk⟩ := by
  subst h
  obtain ⟨⟨x, g, z, c, ⟨F, m⟩, p, st, ok⟩, l, b⟩ := a
  simp only [tview]
  congr 2
  exact vec16_eta x

theorem run_of_tview {rb : UInt64} {n : Nat} {s : StateG FMem} {x0 x1 x2 x3 x4 x5 x6 x7 x13 x14 x15 : V4} {g : Vector UInt64 16}
    {z c : Bool} {F : Vector V4 22} {m : Memory} {pc : Nat} {l : List Ref}
    (h : tview (frun rodata rb hash_many n ⟨s, [], true⟩)
      = ⟨x0, x1, x2, x3, x4, x5, x6, x7, x13, x14, x15, g, z, c, F, m, pc, .running, true, l, true⟩) :
    ∃ j8 j9 j10 j11 j12, Run rodata rb hash_many n s l
      (mkS #v[x0, x1, x2, x3, x4, x5, x6, x7, j8, j9, j10, j11, j12, x13, x14, x15] g z c F m pc) :=
  ⟨_, _, _, _, _, of_tview h⟩

/-! ### 1640..1650 -/

def t1SetupLog (gcx gdi gbp : UInt64) : List Ref :=
  [(false, gcx + dispU 0, 16), (false, gcx + dispU 16, 16), (false, gdi + dispU 0, 8), (false, gbp + dispU 64, 1)]


/-! ### 1651..1672 -/

/-- the grouped message words as the loads and shuffles leave them (`p` = `r8 + rdx`) -/
def t1Grp0 (m : Memory) (p : UInt64) : V4 := #v[m.word (p + dispU (-64)), m.word (p + dispU (-64) + 8), m.word (p + dispU (-48)), m.word (p + dispU (-48) + 8)]
def t1Grp1 (m : Memory) (p : UInt64) : V4 := #v[m.word (p + dispU (-64) + 4), m.word (p + dispU (-64) + 12), m.word (p + dispU (-48) + 4), m.word (p + dispU (-48) + 12)]
def t1Grp2 (m : Memory) (p : UInt64) : V4 := #v[m.word (p + dispU (-16) + 8), m.word (p + dispU (-32)), m.word (p + dispU (-32) + 8), m.word (p + dispU (-16))]
def t1Grp3 (m : Memory) (p : UInt64) : V4 := #v[m.word (p + dispU (-16) + 12), m.word (p + dispU (-32) + 4), m.word (p + dispU (-32) + 12), m.word (p + dispU (-16) + 4)]

def t1HeadLog (p : UInt64) : List Ref :=
  [(false, p + dispU (-64), 16), (false, p + dispU (-48), 16), (false, p + dispU (-32), 16), (false, p + dispU (-16), 16)]


/-! ### 1673..1718: one round -/


/-! ### 1951, 1952 -/

theorem t1_dec (rb : UInt64) (x : Vector V4 16) (g : Vector UInt64 16) (z c : Bool) (F : Vector V4 22) (m : Memory) :
    frun rodata rb hash_many 1 ⟨mkS x g z c F m 1951, [], true⟩
      = ⟨mkS x (decAl g) (trunc .b8 (trunc .b8 g[rax] - 1) == 0) c F m 1952, [], true⟩ := by
  kernel_rfl

theorem t1_jz_taken (rb : UInt64) (x : Vector V4 16) (g : Vector UInt64 16) (c : Bool) (F : Vector V4 22) (m : Memory) :
    frun rodata rb hash_many 1 ⟨mkS x g true c F m 1952, [], true⟩ = ⟨mkS x g true c F m 1975, [], true⟩ := by
  kernel_rfl

theorem t1_jz_not_taken (rb : UInt64) (x : Vector V4 16) (g : Vector UInt64 16) (c : Bool) (F : Vector V4 22) (m : Memory) :
    frun rodata rb hash_many 1 ⟨mkS x g false c F m 1952, [], true⟩ = ⟨mkS x g false c F m 1953, [], true⟩ := by
  kernel_rfl

/-! ### 1721..1737: the message permutation -/


/-! ### 1738..1742 -/

theorem t1_exit_raw (rb : UInt64) (x0 x1 x2 x3 x4 x5 x6 x7 x8 x9 x10 x11 x12 x13 x14 x15 : V4) (g0 g1 g2 g3 g4 g5 g6 g7 g8 g9 g10 g11 g12 g13 g14 g15 : UInt64) (z c : Bool) (F : Vector V4 22) (m : Memory) :
    frun rodata rb hash_many 4 ⟨mkS #v[x0, x1, x2, x3, x4, x5, x6, x7, x8, x9, x10, x11, x12, x13, x14, x15] #v[g0, g1, g2, g3, g4, g5, g6, g7, g8, g9, g10, g11, g12, g13, g14, g15] z c F m 1975, [], true⟩
      = ⟨mkS #v[_mm_xor_si128 x0 x2, _mm_xor_si128 x1 x3, x2, x3, x4, x5, x6, x7, x8, x9, x10, x11, x12, x13, x14, x15] #v[trunc .d32 (trunc .d32 g13), g1, g2, g3, g4, g5, g6, g7, g8, g9, g10, g11, g12, g13, g14, g15]
          (g2 - g15 == 0) (decide (g2 < g15)) F m 1979, [], true⟩ := by
  kernel_rfl

theorem t1_jnz_taken (rb : UInt64) (x : Vector V4 16) (g : Vector UInt64 16) (c : Bool) (F : Vector V4 22) (m : Memory) :
    frun rodata rb hash_many 1 ⟨mkS x g false c F m 1979, [], true⟩ = ⟨mkS x g false c F m 1872, [], true⟩ := by
  kernel_rfl

theorem t1_jnz_not_taken (rb : UInt64) (x : Vector V4 16) (g : Vector UInt64 16) (c : Bool) (F : Vector V4 22) (m : Memory) :
    frun rodata rb hash_many 1 ⟨mkS x g true c F m 1979, [], true⟩ = ⟨mkS x g true c F m 1980, [], true⟩ := by
  kernel_rfl

/-! ### 1743..1745 -/

theorem t1_store_raw (rb : UInt64) (x0 x1 x2 x3 x4 x5 x6 x7 x8 x9 x10 x11 x12 x13 x14 x15 : V4) (g : Vector UInt64 16) (z c : Bool) (F : Vector V4 22) (m : Memory) :
    frun rodata rb hash_many 3 ⟨mkS #v[x0, x1, x2, x3, x4, x5, x6, x7, x8, x9, x10, x11, x12, x13, x14, x15] g z c F m 1980, [], true⟩
      = ⟨mkS #v[x0, x1, x2, x3, x4, x5, x6, x7, x8, x9, x10, x11, x12, x13, x14, x15] g z c F (store128 (store128 m (g[rbx] + dispU 0) x0) (g[rbx] + dispU 16) x1) 1609,
         [(true, g[rbx] + dispU 0, 16), (true, g[rbx] + dispU 16, 16)], true⟩ := by
  kernel_rfl

/-! ### 1861, 1862 -/

theorem t1_test (rb : UInt64) (x : Vector V4 16) (g0 g1 g2 g3 g4 g5 g6 g7 g8 g9 g10 g11 g12 g13 g14 g15 : UInt64) (z c : Bool) (F : Vector V4 22) (m : Memory) :
    frun rodata rb hash_many 1 ⟨mkS x #v[g0, g1, g2, g3, g4, g5, g6, g7, g8, g9, g10, g11, g12, g13, g14, g15] z c F m 1861, [], true⟩
      = ⟨mkS x #v[g0, g1, g2, g3, g4, g5, g6, g7, g8, g9, g10, g11, g12, g13, g14, g15] (trunc .d32 g6 &&& trunc .d32 (UInt64.ofNat 1) == 0) false F m 1862, [], true⟩ := by
  kernel_rfl

theorem t1_skip (rb : UInt64) (x : Vector V4 16) (g : Vector UInt64 16) (c : Bool) (F : Vector V4 22) (m : Memory) :
    frun rodata rb hash_many 1 ⟨mkS x g true c F m 1862, [], true⟩ = ⟨mkS x g true c F m 1609, [], true⟩ := by
  kernel_rfl

theorem t1_enter (rb : UInt64) (x : Vector V4 16) (g : Vector UInt64 16) (c : Bool) (F : Vector V4 22) (m : Memory) :
    frun rodata rb hash_many 1 ⟨mkS x g false c F m 1862, [], true⟩ = ⟨mkS x g false c F m 1863, [], true⟩ := by
  kernel_rfl

end B3.AsmSem.Many2
