/- instructions 1364..1395 of the generated list: the eight chaining-value vectors are transposed back and stored, 4 x 32
bytes at `[rbx]` -/
import B3.Asm.Many2Views
namespace B3.AsmSem.Many2
open B3 B3.Simd B3.AsmSem B3.Gen.AsmSse2Many

/-- the eight 16-byte stores in program order: `(offset, lane, first word)` -/
def outStores (m : Memory) (p : UInt64) (H0 H1 H2 H3 : CV) : Memory :=
  store128 (store128 (store128 (store128 (store128 (store128 (store128 (store128 m
    (p + dispU 0) #v[H0[0], H0[1], H0[2], H0[3]])
    (p + dispU 32) #v[H1[0], H1[1], H1[2], H1[3]])
    (p + dispU 64) #v[H2[0], H2[1], H2[2], H2[3]])
    (p + dispU 96) #v[H3[0], H3[1], H3[2], H3[3]])
    (p + dispU 16) #v[H0[4], H0[5], H0[6], H0[7]])
    (p + dispU 48) #v[H1[4], H1[5], H1[6], H1[7]])
    (p + dispU 80) #v[H2[4], H2[5], H2[6], H2[7]])
    (p + dispU 112) #v[H3[4], H3[5], H3[6], H3[7]]

def outLog (p : UInt64) : List Ref :=
  [(0 : Int), 32, 64, 96, 16, 48, 80, 112].map fun d => (true, p + dispU d, 16)

theorem out_raw (rb : UInt64) (H0 H1 H2 H3 : CV) (j8 j9 j10 j11 j12 j13 j14 j15 : V4) (F : Vector V4 22)
    (g : Vector UInt64 16) (z c : Bool) (m : Memory) :
    gview (frun rodata rb hash_many 32 ⟨mkS #v[wide8 H0 H1 H2 H3 0, wide8 H0 H1 H2 H3 1, wide8 H0 H1 H2 H3 2, wide8 H0 H1 H2 H3 3, wide8 H0 H1 H2 H3 4, wide8 H0 H1 H2 H3 5, wide8 H0 H1 H2 H3 6, wide8 H0 H1 H2 H3 7, j8, j9, j10, j11, j12, j13, j14, j15] g z c F m 1560, [], true⟩)
      = ⟨g, z, c, F, outStores m g[rbx] H0 H1 H2 H3, 1592, .running, true, outLog g[rbx], true⟩ := by
  kernel_rfl

/-- instructions 1364..1395: the chaining values of the four lanes are written at `rbx`, `rbx+32`, `rbx+64`, `rbx+96`
(eight 16-byte stores); registers other than XMM, flags and the frame are unchanged -/
theorem out (rb : UInt64) (H0 H1 H2 H3 : CV) (j8 j9 j10 j11 j12 j13 j14 j15 : V4) (F : Vector V4 22)
    (g : Vector UInt64 16) (z c : Bool) (m : Memory) :
    ∃ x, Run rodata rb hash_many 32
      (mkS #v[wide8 H0 H1 H2 H3 0, wide8 H0 H1 H2 H3 1, wide8 H0 H1 H2 H3 2, wide8 H0 H1 H2 H3 3, wide8 H0 H1 H2 H3 4, wide8 H0 H1 H2 H3 5, wide8 H0 H1 H2 H3 6, wide8 H0 H1 H2 H3 7, j8, j9, j10, j11, j12, j13, j14, j15] g z c F m 1560) (outLog g[rbx])
      (mkS x g z c F (outStores m g[rbx] H0 H1 H2 H3) 1592) :=
  run_of_gview (out_raw rb H0 H1 H2 H3 j8 j9 j10 j11 j12 j13 j14 j15 F g z c m)

end B3.AsmSem.Many2
