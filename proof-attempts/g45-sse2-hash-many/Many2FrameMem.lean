/-
The flat memory in which a frame (`Vector V4 22`, 352 bytes) lies at address `fb`, and the facts
about reading / writing it that the simulation theorem (`B3/Asm/Many2FrameSim.lean`) needs:
accesses inside the frame are accesses to its slots, accesses outside do not see it.
-/
import B3.Asm.Many2Frame
namespace B3.AsmSem.Many2
open B3 B3.Simd

/-- the flat memory: the frame `F` at `[fb, fb + 352)`, `m` everywhere else -/
def frameMem (fb : UInt64) (F : Vector V4 22) (m : Memory) : Memory :=
  fun p => if (p - fb).toNat < 352 then byte128 (slot F ((p - fb).toNat / 16)) ((p - fb).toNat % 16) else m p

/-- the `n` bytes from `p` on lie outside the frame at `fb` -/
def Outside (fb p : UInt64) (n : Nat) : Prop := ∀ k, k < n → 352 ≤ (p + UInt64.ofNat k - fb).toNat

/-- the `n` bytes from `p` on lie outside the `len` bytes at `rb` -/
def OutsideRo (rb : UInt64) (len : Nat) (p : UInt64) (n : Nat) : Prop := ∀ k, k < n → len ≤ (p + UInt64.ofNat k - rb).toNat

theorem ofNat_toNat_lt (k : Nat) (h : k < 2 ^ 64) : (UInt64.ofNat k).toNat = k := by
  rw [UInt64.toNat_ofNat', Nat.mod_eq_of_lt h]

theorem add_sub_self (fb : UInt64) (d : Nat) (h : d < 2 ^ 64) : (fb + UInt64.ofNat d - fb).toNat = d := by
  rw [UInt64.add_comm, UInt64.add_sub_cancel, ofNat_toNat_lt d h]

theorem frameMem_in (fb : UInt64) (F : Vector V4 22) (m : Memory) (d : Nat) (hd : d < 352) :
    frameMem fb F m (fb + UInt64.ofNat d) = byte128 (slot F (d / 16)) (d % 16) := by
  unfold frameMem
  have : d < 2 ^ 64 := by omega
  rw [add_sub_self fb d this, if_pos hd]

theorem frameMem_out (fb : UInt64) (F : Vector V4 22) (m : Memory) (p : UInt64) (h : 352 ≤ (p - fb).toNat) :
    frameMem fb F m p = m p := by
  unfold frameMem
  rw [if_neg (by omega)]

theorem one_eq : (1 : UInt64) = UInt64.ofNat 1 := rfl
theorem two_eq : (2 : UInt64) = UInt64.ofNat 2 := rfl
theorem three_eq : (3 : UInt64) = UInt64.ofNat 3 := rfl
theorem four_eq : (4 : UInt64) = UInt64.ofNat 4 := rfl
theorem eight_eq : (8 : UInt64) = UInt64.ofNat 8 := rfl
theorem twelve_eq : (12 : UInt64) = UInt64.ofNat 12 := rfl

theorem word_unfold (m : Memory) (a : UInt64) :
    m.word a = le32 (m a) (m (a + UInt64.ofNat 1)) (m (a + UInt64.ofNat 2)) (m (a + UInt64.ofNat 3)) := rfl
theorem load128_unfold (m : Memory) (a : UInt64) :
    load128 m a = #v[m.word a, m.word (a + UInt64.ofNat 4), m.word (a + UInt64.ofNat 8), m.word (a + UInt64.ofNat 12)] := rfl
theorem load64_unfold (m : Memory) (a : UInt64) :
    load64 m a = (m.word a).toUInt64 ||| ((m.word (a + UInt64.ofNat 4)).toUInt64 <<< 32) := rfl

theorem Outside.mono {fb p : UInt64} {n : Nat} (h : Outside fb p n) (o k : Nat) (hk : o + k ≤ n) :
    Outside fb (p + UInt64.ofNat o) k := by
  intro j hj
  rw [addr_add]
  exact h (o + j) (by omega)

theorem Outside.zero {fb p : UInt64} {n : Nat} (h : Outside fb p n) (hn : 0 < n) : 352 ≤ (p - fb).toNat := by
  have := h 0 hn
  rwa [show UInt64.ofNat 0 = 0 from rfl, UInt64.add_zero] at this

/-! ### reads outside the frame -/

theorem frameMem_byte_out (fb : UInt64) (F : Vector V4 22) (m : Memory) (p : UInt64) (n k : Nat) (h : Outside fb p n) (hk : k < n) :
    frameMem fb F m (p + UInt64.ofNat k) = m (p + UInt64.ofNat k) :=
  frameMem_out fb F m _ (h k hk)

theorem word_out (fb : UInt64) (F : Vector V4 22) (m : Memory) (p : UInt64) (h : Outside fb p 4) :
    (frameMem fb F m).word p = m.word p := by
  rw [word_unfold, word_unfold m, frameMem_out fb F m p (h.zero (by omega)), frameMem_byte_out fb F m p 4 1 h (by omega),
    frameMem_byte_out fb F m p 4 2 h (by omega), frameMem_byte_out fb F m p 4 3 h (by omega)]

theorem load64_out (fb : UInt64) (F : Vector V4 22) (m : Memory) (p : UInt64) (h : Outside fb p 8) :
    load64 (frameMem fb F m) p = load64 m p := by
  rw [load64_unfold, load64_unfold m, word_out fb F m p (fun k hk => h k (by omega)), word_out fb F m _ (h.mono 4 4 (by omega))]

theorem load128_out (fb : UInt64) (F : Vector V4 22) (m : Memory) (p : UInt64) (h : Outside fb p 16) :
    load128 (frameMem fb F m) p = load128 m p := by
  rw [load128_unfold, load128_unfold m, word_out fb F m p (fun k hk => h k (by omega)),
    word_out fb F m _ (h.mono 4 4 (by omega)), word_out fb F m _ (h.mono 8 4 (by omega)),
    word_out fb F m _ (h.mono 12 4 (by omega))]

/-! ### reads inside the frame -/

theorem byte128_lane (s : V4) (e : Nat) (he : e % 4 = 0) (h16 : e < 16) :
    le32 (byte128 s e) (byte128 s (e + 1)) (byte128 s (e + 2)) (byte128 s (e + 3)) = laneOf s (e / 4) := by
  have : e = 0 ∨ e = 4 ∨ e = 8 ∨ e = 12 := by omega
  rcases this with rfl | rfl | rfl | rfl <;> exact le32_bytes _

theorem word_in (fb : UInt64) (F : Vector V4 22) (m : Memory) (d : Nat) (h4 : d % 4 = 0) (hd : d + 4 ≤ 352) :
    (frameMem fb F m).word (fb + UInt64.ofNat d) = dwordAt F d := by
  unfold dwordAt
  rw [word_unfold, addr_add, addr_add, addr_add,
    frameMem_in fb F m d (by omega), frameMem_in fb F m (d + 1) (by omega), frameMem_in fb F m (d + 2) (by omega),
    frameMem_in fb F m (d + 3) (by omega)]
  have e1 : (d + 1) / 16 = d / 16 := by omega
  have e2 : (d + 2) / 16 = d / 16 := by omega
  have e3 : (d + 3) / 16 = d / 16 := by omega
  have f1 : (d + 1) % 16 = d % 16 + 1 := by omega
  have f2 : (d + 2) % 16 = d % 16 + 2 := by omega
  have f3 : (d + 3) % 16 = d % 16 + 3 := by omega
  rw [e1, e2, e3, f1, f2, f3]
  exact byte128_lane _ _ (by omega) (by omega)

theorem load128_in (fb : UInt64) (F : Vector V4 22) (m : Memory) (d : Nat) (h4 : d % 4 = 0) (hd : d + 16 ≤ 352) :
    load128 (frameMem fb F m) (fb + UInt64.ofNat d)
      = #v[dwordAt F d, dwordAt F (d + 4), dwordAt F (d + 8), dwordAt F (d + 12)] := by
  rw [load128_unfold, addr_add, addr_add, addr_add,
    word_in fb F m d h4 (by omega), word_in fb F m (d + 4) (by omega) (by omega),
    word_in fb F m (d + 8) (by omega) (by omega), word_in fb F m (d + 12) (by omega) (by omega)]

theorem vec4_eta' (s : V4) : #v[s[0], s[1], s[2], s[3]] = s := (vec4_eta s).symm

theorem load128_in_aligned (fb : UInt64) (F : Vector V4 22) (m : Memory) (d : Nat) (h16 : d % 16 = 0) (hd : d + 16 ≤ 352) :
    load128 (frameMem fb F m) (fb + UInt64.ofNat d) = slot F (d / 16) := by
  rw [load128_in fb F m d (by omega) hd]
  unfold dwordAt
  have e1 : (d + 4) / 16 = d / 16 := by omega
  have e2 : (d + 8) / 16 = d / 16 := by omega
  have e3 : (d + 12) / 16 = d / 16 := by omega
  have f0 : d % 16 / 4 = 0 := by omega
  have f1 : (d + 4) % 16 / 4 = 1 := by omega
  have f2 : (d + 8) % 16 / 4 = 2 := by omega
  have f3 : (d + 12) % 16 / 4 = 3 := by omega
  rw [e1, e2, e3, f0, f1, f2, f3]
  exact vec4_eta' _

/-! ### writes -/

theorem sub_add_toNat (p fb : UInt64) (d : Nat) (hd : d < 2 ^ 64) :
    (p - (fb + UInt64.ofNat d)).toNat = ((p - fb).toNat + (2 ^ 64 - d)) % 2 ^ 64 := by
  rw [UInt64.toNat_sub, UInt64.toNat_sub, UInt64.toNat_add, ofNat_toNat_lt d hd]
  have := p.toNat_lt
  have := fb.toNat_lt
  omega

theorem slot_setSlot (F : Vector V4 22) (k j : Nat) (v : V4) (hk : k < 22) :
    slot (setSlot F k v) j = if j = k then v else slot F j := by
  unfold slot setSlot
  rw [dif_pos hk]
  by_cases hj : j < 22
  · rw [dif_pos hj, dif_pos hj]
    by_cases e : j = k
    · subst e; rw [if_pos rfl, Vector.getElem_set_self]
    · rw [if_neg e, Vector.getElem_set_ne _ _ (fun h => e h.symm)]
  · rw [dif_neg hj, dif_neg hj]
    have : j ≠ k := by omega
    rw [if_neg this]

/-- an aligned 16-byte store inside the frame replaces one slot -/
theorem store128_in (fb : UInt64) (F : Vector V4 22) (m : Memory) (d : Nat) (v : V4) (h16 : d % 16 = 0) (hd : d + 16 ≤ 352) :
    store128 (frameMem fb F m) (fb + UInt64.ofNat d) v = frameMem fb (setSlot F (d / 16) v) m := by
  funext p
  have hk : d / 16 < 22 := by omega
  simp only [store128, frameMem, UInt64.lt_iff_toNat_lt, sub_add_toNat p fb d (by omega)]
  have c16 : (16 : UInt64).toNat = 16 := rfl
  rw [c16]
  have hq := (p - fb).toNat_lt
  generalize (p - fb).toNat = q at *
  by_cases h1 : (q + (2 ^ 64 - d)) % 2 ^ 64 < 16
  · have hq1 : d ≤ q ∧ q < d + 16 := by omega
    have e : (q + (2 ^ 64 - d)) % 2 ^ 64 = q - d := by omega
    rw [if_pos h1, if_pos (by omega), slot_setSlot F _ _ v hk, if_pos (by omega), e]
    congr 1
    omega
  · have hq1 : q < d ∨ d + 16 ≤ q := by omega
    rw [if_neg h1]
    by_cases h2 : q < 352
    · rw [if_pos h2, if_pos h2, slot_setSlot F _ _ v hk, if_neg (by omega)]
    · rw [if_neg h2, if_neg h2]

/-- a 16-byte store outside the frame goes to the rest of memory -/
theorem store128_out (fb : UInt64) (F : Vector V4 22) (m : Memory) (p : UInt64) (v : V4) (h : Outside fb p 16) :
    store128 (frameMem fb F m) p v = frameMem fb F (store128 m p v) := by
  funext q
  simp only [store128, frameMem]
  by_cases h1 : q - p < 16
  · rw [if_pos h1, if_pos h1]
    have hk : (q - p).toNat < 16 := by
      have := UInt64.lt_iff_toNat_lt.mp h1
      exact this
    have := h (q - p).toNat hk
    have e : p + UInt64.ofNat (q - p).toNat = q := by
      rw [UInt64.ofNat_toNat, UInt64.add_comm, UInt64.sub_add_cancel]
    rw [e] at this
    rw [if_neg (by omega)]
  · rw [if_neg h1, if_neg h1]

theorem store64_out (fb : UInt64) (F : Vector V4 22) (m : Memory) (p : UInt64) (v : UInt64) (h : Outside fb p 8) :
    store64 (frameMem fb F m) p v = frameMem fb F (store64 m p v) := by
  funext q
  simp only [store64, frameMem]
  by_cases h1 : q - p < 8
  · rw [if_pos h1, if_pos h1]
    have hk : (q - p).toNat < 8 := by
      have := UInt64.lt_iff_toNat_lt.mp h1
      exact this
    have := h (q - p).toNat hk
    have e : p + UInt64.ofNat (q - p).toNat = q := by
      rw [UInt64.ofNat_toNat, UInt64.add_comm, UInt64.sub_add_cancel]
    rw [e] at this
    rw [if_neg (by omega)]
  · rw [if_neg h1, if_neg h1]

/-! ### the `.rodata` bytes -/

theorem holds_word (m : Memory) (rb : UInt64) (ro : List UInt8) (off : Nat) (h : HoldsAt m rb ro) (ho : off + 4 ≤ ro.length) :
    m.word (rb + UInt64.ofNat off) = roWord ro off := by
  unfold roWord
  rw [word_unfold, addr_add, addr_add, addr_add, h off (by omega), h (off + 1) (by omega), h (off + 2) (by omega),
    h (off + 3) (by omega)]

theorem holds_load128 (m : Memory) (rb : UInt64) (ro : List UInt8) (off : Nat) (h : HoldsAt m rb ro) (ho : off + 16 ≤ ro.length) :
    load128 m (rb + UInt64.ofNat off) = roTable ro off := by
  unfold roTable
  rw [load128_unfold, addr_add, addr_add, addr_add, holds_word m rb ro off h (by omega),
    holds_word m rb ro (off + 4) h (by omega), holds_word m rb ro (off + 8) h (by omega), holds_word m rb ro (off + 12) h (by omega)]

theorem holds_store128 (m : Memory) (rb : UInt64) (ro : List UInt8) (p : UInt64) (v : V4) (h : HoldsAt m rb ro)
    (ho : OutsideRo rb ro.length p 16) (hl : ro.length < 2 ^ 64) : HoldsAt (store128 m p v) rb ro := by
  intro i hi
  unfold store128
  by_cases h1 : rb + UInt64.ofNat i - p < 16
  · exfalso
    have hk : (rb + UInt64.ofNat i - p).toNat < 16 := UInt64.lt_iff_toNat_lt.mp h1
    have := ho _ hk
    have e : p + UInt64.ofNat (rb + UInt64.ofNat i - p).toNat = rb + UInt64.ofNat i := by
      rw [UInt64.ofNat_toNat, UInt64.add_comm, UInt64.sub_add_cancel]
    rw [e, add_sub_self rb i (by omega)] at this
    omega
  · rw [if_neg h1]
    exact h i hi

theorem holds_store64 (m : Memory) (rb : UInt64) (ro : List UInt8) (p : UInt64) (v : UInt64) (h : HoldsAt m rb ro)
    (ho : OutsideRo rb ro.length p 8) (hl : ro.length < 2 ^ 64) : HoldsAt (store64 m p v) rb ro := by
  intro i hi
  unfold store64
  by_cases h1 : rb + UInt64.ofNat i - p < 8
  · exfalso
    have hk : (rb + UInt64.ofNat i - p).toNat < 8 := UInt64.lt_iff_toNat_lt.mp h1
    have := ho _ hk
    have e : p + UInt64.ofNat (rb + UInt64.ofNat i - p).toNat = rb + UInt64.ofNat i := by
      rw [UInt64.ofNat_toNat, UInt64.add_comm, UInt64.sub_add_cancel]
    rw [e, add_sub_self rb i (by omega)] at this
    omega
  · rw [if_neg h1]
    exact h i hi


/-! ### (SSE2 routine) 4-byte stores -/

theorem byte128_setLane (s : V4) (j k : Nat) (x : UInt32) (hj : j < 4) (hk : k < 16) :
    byte128 (setLane s j x) k = if k / 4 = j then byteOf x (k % 4) else byte128 s k := by
  unfold byte128
  generalize hq : k / 4 = q
  have hq4 : q < 4 := by omega
  rcases (by omega : j = 0 ∨ j = 1 ∨ j = 2 ∨ j = 3) with rfl | rfl | rfl | rfl <;>
    rcases (by omega : q = 0 ∨ q = 1 ∨ q = 2 ∨ q = 3) with rfl | rfl | rfl | rfl <;> rfl

/-- a 4-byte store at a multiple of 4 inside the frame replaces one lane of one slot -/
theorem store32_in (fb : UInt64) (F : Vector V4 22) (m : Memory) (d : Nat) (v : UInt32) (h4 : d % 4 = 0) (hd : d + 4 ≤ 352) :
    store32 (frameMem fb F m) (fb + UInt64.ofNat d) v
      = frameMem fb (setSlot F (d / 16) (setLane (slot F (d / 16)) (d % 16 / 4) v)) m := by
  funext p
  have hk : d / 16 < 22 := by omega
  simp only [store32, frameMem, UInt64.lt_iff_toNat_lt, sub_add_toNat p fb d (by omega)]
  have c4 : (4 : UInt64).toNat = 4 := rfl
  rw [c4]
  have hq := (p - fb).toNat_lt
  generalize (p - fb).toNat = q at *
  by_cases h1 : (q + (2 ^ 64 - d)) % 2 ^ 64 < 4
  · have hq1 : d ≤ q ∧ q < d + 4 := by omega
    have e : (q + (2 ^ 64 - d)) % 2 ^ 64 = q - d := by omega
    rw [if_pos h1, if_pos (by omega), slot_setSlot F _ _ _ hk, if_pos (by omega), e,
      byte128_setLane _ _ _ _ (by omega) (by omega), if_pos (by omega)]
    congr 1
    omega
  · have hq1 : q < d ∨ d + 4 ≤ q := by omega
    rw [if_neg h1]
    by_cases h2 : q < 352
    · rw [if_pos h2, if_pos h2, slot_setSlot F _ _ _ hk]
      by_cases h3 : q / 16 = d / 16
      · rw [if_pos h3, byte128_setLane _ _ _ _ (by omega) (by omega), if_neg (by omega), h3]
      · rw [if_neg h3]
    · rw [if_neg h2, if_neg h2]

theorem store32_out (fb : UInt64) (F : Vector V4 22) (m : Memory) (p : UInt64) (v : UInt32) (h : Outside fb p 4) :
    store32 (frameMem fb F m) p v = frameMem fb F (store32 m p v) := by
  funext q
  simp only [store32, frameMem]
  by_cases h1 : q - p < 4
  · rw [if_pos h1, if_pos h1]
    have hk : (q - p).toNat < 4 := by
      have := UInt64.lt_iff_toNat_lt.mp h1
      exact this
    have := h (q - p).toNat hk
    have e : p + UInt64.ofNat (q - p).toNat = q := by
      rw [UInt64.ofNat_toNat, UInt64.add_comm, UInt64.sub_add_cancel]
    rw [e] at this
    rw [if_neg (by omega)]
  · rw [if_neg h1, if_neg h1]

theorem holds_store32 (m : Memory) (rb : UInt64) (ro : List UInt8) (p : UInt64) (v : UInt32) (h : HoldsAt m rb ro)
    (ho : OutsideRo rb ro.length p 4) (hl : ro.length < 2 ^ 64) : HoldsAt (store32 m p v) rb ro := by
  intro i hi
  unfold store32
  by_cases h1 : rb + UInt64.ofNat i - p < 4
  · exfalso
    have hk : (rb + UInt64.ofNat i - p).toNat < 4 := UInt64.lt_iff_toNat_lt.mp h1
    have := ho _ hk
    have e : p + UInt64.ofNat (rb + UInt64.ofNat i - p).toNat = rb + UInt64.ofNat i := by
      rw [UInt64.ofNat_toNat, UInt64.add_comm, UInt64.sub_add_cancel]
    rw [e, add_sub_self rb i (by omega)] at this
    omega
  · rw [if_neg h1]
    exact h i hi

/-! ### alignment -/

theorem aligned16_add (fb : UInt64) (d : Nat) (hfb : fb.toNat % 16 = 0) :
    aligned16 (fb + UInt64.ofNat d) = (d % 16 == 0) := by
  unfold aligned16
  have e : ((fb + UInt64.ofNat d) % 16).toNat = (fb.toNat + d % 2 ^ 64) % 2 ^ 64 % 16 := by
    rw [UInt64.toNat_mod, UInt64.toNat_add, UInt64.toNat_ofNat']
    rfl
  have hlt := fb.toNat_lt
  by_cases h : d % 16 = 0
  · have : (fb + UInt64.ofNat d) % 16 = 0 := by
      apply UInt64.toNat_inj.mp
      rw [e]
      show _ = 0
      omega
    rw [this]
    simp [h]
  · have : (fb + UInt64.ofNat d) % 16 ≠ 0 := by
      intro hc
      have := congrArg UInt64.toNat hc
      rw [e] at this
      have z : (0 : UInt64).toNat = 0 := rfl
      rw [z] at this
      omega
    rw [beq_eq_false_iff_ne.mpr this]
    simp [h]

end B3.AsmSem.Many2
