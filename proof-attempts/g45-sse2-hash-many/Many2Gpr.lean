/- the short pieces of `blake3_hash_many_sse2` that work on general purpose registers, flags and the counter vectors,
evaluated in the kernel on the frame machine (instruction indices of the generated list):
  54..58      flags word of the block (`flags_end` or-ed in on the last block), `rdx += 64`, `cmp rdx, r15`
  1362..1363  `mov eax, r13d`; `jne 9b`
  1396..1409  counter vectors += 4 (with carry into the high words), `rbx += 128`, `rdi += 32`, `rsi -= 4`, `cmp rsi, 4`
  1410..1412  `jnc 2b`; `test rsi, rsi`; `jnz 3f`
  37..53      head of the outer loop: key broadcast to XMM0-7, four input pointers, `eax := flags_start | flags`, `edx := 0`
  10..35      the part of the prologue that runs with the final `rsp`: counter vectors, stack arguments, `r15 := blocks << 6`
The right-hand sides are what the semantics computes, literally (nested truncations included); `ManyGprLemmas.lean` tidies them. -/
import B3.Asm.Many2Views
namespace B3.AsmSem.Many2
open B3 B3.Simd B3.AsmSem B3.Gen.AsmSse2Many

/-! ### 54..58 -/

/-- `rdx + 64 = r15` (as `cmp` computes it): the block being set up is the last one -/
def lastBlock (gdx g15 : UInt64) : Bool := gdx + UInt64.ofNat 64 - g15 == 0

/-- what 54..58 leave in `rax`: the flags word of the block -/
def p0Rax (gax g12 : UInt64) (last : Bool) : UInt64 :=
  trunc .d32 (if last then trunc .d32 (trunc .d32 (trunc .d32 gax ||| trunc .d32 g12)) else trunc .d32 (trunc .d32 (trunc .d32 gax)))

theorem p0_raw (rb : UInt64) (x : Vector V4 16) (g0 g1 g2 g3 g4 g5 g6 g7 g8 g9 g10 g11 g12 g13 g14 g15 : UInt64) (z c : Bool) (F : Vector V4 22) (m : Memory) :
    frun rodata rb hash_many 5 ⟨mkS x #v[g0, g1, g2, g3, g4, g5, g6, g7, g8, g9, g10, g11, g12, g13, g14, g15] z c F m 54, [], true⟩
      = ⟨mkS x #v[p0Rax g0 g12 (lastBlock g2 g15), g1, g2 + UInt64.ofNat 64, g3, g4, g5, g6, g7, g8, g9, g10, g11, g12, g13, trunc .d32 (trunc .d32 g0), g15]
           (lastBlock g2 g15) (decide (g2 + UInt64.ofNat 64 < g15)) F m 59, [], true⟩ := by
  kernel_rfl

/-! ### 1362..1363 -/

theorem p1_loop (rb : UInt64) (x : Vector V4 16) (g0 g1 g2 g3 g4 g5 g6 g7 g8 g9 g10 g11 g12 g13 g14 g15 : UInt64) (c : Bool) (F : Vector V4 22) (m : Memory) :
    frun rodata rb hash_many 2 ⟨mkS x #v[g0, g1, g2, g3, g4, g5, g6, g7, g8, g9, g10, g11, g12, g13, g14, g15] false c F m 1558, [], true⟩
      = ⟨mkS x #v[trunc .d32 (trunc .d32 g13), g1, g2, g3, g4, g5, g6, g7, g8, g9, g10, g11, g12, g13, g14, g15] false c F m 54, [], true⟩ := by
  kernel_rfl

theorem p1_exit (rb : UInt64) (x : Vector V4 16) (g0 g1 g2 g3 g4 g5 g6 g7 g8 g9 g10 g11 g12 g13 g14 g15 : UInt64) (c : Bool) (F : Vector V4 22) (m : Memory) :
    frun rodata rb hash_many 2 ⟨mkS x #v[g0, g1, g2, g3, g4, g5, g6, g7, g8, g9, g10, g11, g12, g13, g14, g15] true c F m 1558, [], true⟩
      = ⟨mkS x #v[trunc .d32 (trunc .d32 g13), g1, g2, g3, g4, g5, g6, g7, g8, g9, g10, g11, g12, g13, g14, g15] true c F m 1560, [], true⟩ := by
  kernel_rfl

/-! ### 1396..1409 -/

/-- the low counter words after the step -/
def ctrLo (lo inc : V4) : V4 := _mm_add_epi32 lo inc
/-- the high counter words after the step: plus one where the low word wrapped (signed compare of the biased words) -/
def ctrHi (lo hi inc : V4) : V4 :=
  psubd hi (pcmpgtd (_mm_xor_si128 lo CMP_MSB_MASK) (_mm_xor_si128 (_mm_add_epi32 lo inc) CMP_MSB_MASK))

theorem ctr_raw (rb : UInt64) (x0 x1 x2 x3 x4 x5 x6 x7 x8 x9 x10 x11 x12 x13 x14 x15 : V4) (g0 g1 g2 g3 g4 g5 g6 g7 g8 g9 g10 g11 g12 g13 g14 g15 : UInt64) (z c : Bool) (f0 f1 f2 f3 f4 f5 f6 f7 f8 f9 f10 f11 f12 f13 f14 f15 f16 f17 f18 f19 f20 f21 : V4) (m : Memory) :
    gview (frun rodata rb hash_many 14 ⟨mkS #v[x0, x1, x2, x3, x4, x5, x6, x7, x8, x9, x10, x11, x12, x13, x14, x15] #v[g0, g1, g2, g3, g4, g5, g6, g7, g8, g9, g10, g11, g12, g13, g14, g15] z c #v[f0, f1, f2, f3, f4, f5, f6, f7, f8, f9, f10, f11, f12, f13, f14, f15, f16, f17, f18, f19, f20, f21] m 1592, [], true⟩)
      = ⟨#v[g0, g1, g2, g3 + UInt64.ofNat 128, g4, g5, g6 - UInt64.ofNat 4, g7 + UInt64.ofNat 32, g8, g9, g10, g11, g12, g13, g14, g15],
         g6 - UInt64.ofNat 4 - UInt64.ofNat 4 == 0, decide (g6 - UInt64.ofNat 4 < UInt64.ofNat 4),
         #v[f0, f1, f2, f3, f4, f5, f6, f7, f8, f9, f10, f11, f12, f13, f14, f15, f16, ctrLo f17 f21, ctrHi f17 f18 f21, f19, f20, f21], m, 1606, .running, true, [], true⟩ := by
  kernel_rfl

/-! ### 1410..1412 -/

theorem jnc_taken (rb : UInt64) (x : Vector V4 16) (g : Vector UInt64 16) (z : Bool) (F : Vector V4 22) (m : Memory) :
    frun rodata rb hash_many 1 ⟨mkS x g z false F m 1606, [], true⟩ = ⟨mkS x g z false F m 37, [], true⟩ := by
  kernel_rfl

theorem jnc_not_taken (rb : UInt64) (x : Vector V4 16) (g : Vector UInt64 16) (z : Bool) (F : Vector V4 22) (m : Memory) :
    frun rodata rb hash_many 1 ⟨mkS x g z true F m 1606, [], true⟩ = ⟨mkS x g z true F m 1607, [], true⟩ := by
  kernel_rfl

theorem test_rsi (rb : UInt64) (x : Vector V4 16) (g0 g1 g2 g3 g4 g5 g6 g7 g8 g9 g10 g11 g12 g13 g14 g15 : UInt64) (z c : Bool) (F : Vector V4 22) (m : Memory) :
    frun rodata rb hash_many 1 ⟨mkS x #v[g0, g1, g2, g3, g4, g5, g6, g7, g8, g9, g10, g11, g12, g13, g14, g15] z c F m 1607, [], true⟩
      = ⟨mkS x #v[g0, g1, g2, g3, g4, g5, g6, g7, g8, g9, g10, g11, g12, g13, g14, g15] (g6 &&& g6 == 0) false F m 1608, [], true⟩ := by
  kernel_rfl

theorem jnz_tail_taken (rb : UInt64) (x : Vector V4 16) (g : Vector UInt64 16) (c : Bool) (F : Vector V4 22) (m : Memory) :
    frun rodata rb hash_many 1 ⟨mkS x g false c F m 1608, [], true⟩ = ⟨mkS x g false c F m 1617, [], true⟩ := by
  kernel_rfl

theorem jnz_tail_not_taken (rb : UInt64) (x : Vector V4 16) (g : Vector UInt64 16) (c : Bool) (F : Vector V4 22) (m : Memory) :
    frun rodata rb hash_many 1 ⟨mkS x g true c F m 1608, [], true⟩ = ⟨mkS x g true c F m 1609, [], true⟩ := by
  kernel_rfl

/-! ### 37..53 -/

/-- the key as the two 16-byte loads at `p`, `p + 16` read it -/
def keyRaw (m : Memory) (p : UInt64) : CV :=
  #v[(load128 m (p + dispU 0))[0], (load128 m (p + dispU 0))[1], (load128 m (p + dispU 0))[2], (load128 m (p + dispU 0))[3],
     (load128 m (p + dispU 16))[0], (load128 m (p + dispU 16))[1], (load128 m (p + dispU 16))[2], (load128 m (p + dispU 16))[3]]

/-- what 51..52 leave in `rax`: `flags_start | flags` -/
def headRax (m : Memory) (gbp g13 : UInt64) : UInt64 :=
  trunc .d32 (trunc .d32 (trunc .d32 (m (gbp + dispU 64)).toUInt64) ||| trunc .d32 g13)

def headLog (gcx gdi gbp : UInt64) : List Ref :=
  [(false, gcx + dispU 0, 16), (false, gcx + dispU 16, 16), (false, gdi + dispU 0, 8), (false, gdi + dispU 8, 8),
   (false, gdi + dispU 16, 8), (false, gdi + dispU 24, 8), (false, gbp + dispU 64, 1)]

theorem head_raw (rb : UInt64) (x0 x1 x2 x3 x4 x5 x6 x7 j8 j9 j10 j11 j12 j13 j14 j15 : V4) (g0 g1 g2 g3 g4 g5 g6 g7 g8 g9 g10 g11 g12 g13 g14 g15 : UInt64) (z c : Bool)
    (F : Vector V4 22) (m : Memory) :
    lview (frun rodata rb hash_many 17 ⟨mkS #v[x0, x1, x2, x3, x4, x5, x6, x7, j8, j9, j10, j11, j12, j13, j14, j15] #v[g0, g1, g2, g3, g4, g5, g6, g7, g8, g9, g10, g11, g12, g13, g14, g15] z c F m 37, [], true⟩)
      = ⟨wide8 (keyRaw m g1) (keyRaw m g1) (keyRaw m g1) (keyRaw m g1) 0, wide8 (keyRaw m g1) (keyRaw m g1) (keyRaw m g1) (keyRaw m g1) 1, wide8 (keyRaw m g1) (keyRaw m g1) (keyRaw m g1) (keyRaw m g1) 2, wide8 (keyRaw m g1) (keyRaw m g1) (keyRaw m g1) (keyRaw m g1) 3, wide8 (keyRaw m g1) (keyRaw m g1) (keyRaw m g1) (keyRaw m g1) 4, wide8 (keyRaw m g1) (keyRaw m g1) (keyRaw m g1) (keyRaw m g1) 5, wide8 (keyRaw m g1) (keyRaw m g1) (keyRaw m g1) (keyRaw m g1) 6, wide8 (keyRaw m g1) (keyRaw m g1) (keyRaw m g1) (keyRaw m g1) 7,
         #v[headRax m g5 g13, g1, trunc .d32 (trunc .d32 g2 ^^^ trunc .d32 g2), g3, g4, g5, g6, g7, load64 m (g7 + dispU 0), load64 m (g7 + dispU 8), load64 m (g7 + dispU 16), load64 m (g7 + dispU 24), g12, g13, g14, g15],
         trunc .d32 g2 ^^^ trunc .d32 g2 == 0, false, F, m, 54, .running, true, headLog g1 g7 g5, true⟩ := by
  kernel_rfl

/-! ### 10..35 -/

/-- `0 - increment_counter` as a 32-bit quantity: all ones or zero for a clean boolean -/
def incMask (g9 : UInt64) : UInt32 := (trunc .d32 (trunc .d32 (0 - trunc .d32 g9))).toUInt32

def set1 (v : UInt32) : V4 := #v[v, v, v, v]

/-- the low counter words `counter.lo + (0,1,2,3 & mask)` -/
def proLo (g8 g9 : UInt64) : V4 := _mm_add_epi32 (set1 g8.toUInt32) (pand (set1 (incMask g9)) ADD0)
/-- the high counter words: `counter.hi`, plus one where the low word wrapped -/
def proHi (g8 g9 : UInt64) : V4 :=
  psubd (set1 (g8 >>> UInt64.ofNat 32).toUInt32)
    (pcmpgtd (_mm_xor_si128 (pand (set1 (incMask g9)) ADD0) CMP_MSB_MASK) (_mm_xor_si128 (proLo g8 g9) CMP_MSB_MASK))

def proLog (gbp : UInt64) : List Ref := [(false, gbp + dispU 80, 8), (false, gbp + dispU 56, 1), (false, gbp + dispU 72, 1)]

theorem pro_raw (rb : UInt64) (x0 x1 x2 x3 x4 x5 x6 x7 x8 x9 x10 x11 x12 x13 x14 x15 : V4) (g0 g1 g2 g3 g4 g5 g6 g7 g8 g9 g10 g11 g12 g13 g14 g15 : UInt64) (z c : Bool) (f0 f1 f2 f3 f4 f5 f6 f7 f8 f9 f10 f11 f12 f13 f14 f15 f16 f17 f18 f19 f20 f21 : V4) (m : Memory) :
    gview (frun rodata rb hash_many 26 ⟨mkS #v[x0, x1, x2, x3, x4, x5, x6, x7, x8, x9, x10, x11, x12, x13, x14, x15] #v[g0, g1, g2, g3, g4, g5, g6, g7, g8, g9, g10, g11, g12, g13, g14, g15] z c #v[f0, f1, f2, f3, f4, f5, f6, f7, f8, f9, f10, f11, f12, f13, f14, f15, f16, f17, f18, f19, f20, f21] m 10, [], true⟩)
      = ⟨#v[g0, g1, g2, load64 m (g5 + dispU 80), g4, g5, g6, g7, g8 >>> UInt64.ofNat 32, trunc .d32 (trunc .d32 (0 - trunc .d32 g9)), g10, g11, trunc .d32 (m (g5 + dispU 72)).toUInt64, trunc .d32 (m (g5 + dispU 56)).toUInt64, g14, g2 <<< UInt64.ofNat 6],
         g6 - UInt64.ofNat 4 == 0, decide (g6 < UInt64.ofNat 4),
         #v[f0, f1, f2, f3, f4, f5, f6, f7, f8, f9, f10, f11, f12, f13, f14, f15, f16, proLo g8 g9, proHi g8 g9, set1 (incMask g9), f20, pand (set1 (incMask g9)) ADD1],
         m, 36, .running, true, proLog g5, true⟩ := by
  kernel_rfl

theorem jc_taken (rb : UInt64) (x : Vector V4 16) (g : Vector UInt64 16) (z : Bool) (F : Vector V4 22) (m : Memory) :
    frun rodata rb hash_many 1 ⟨mkS x g z true F m 36, [], true⟩ = ⟨mkS x g z true F m 1617, [], true⟩ := by
  kernel_rfl

theorem jc_not_taken (rb : UInt64) (x : Vector V4 16) (g : Vector UInt64 16) (z : Bool) (F : Vector V4 22) (m : Memory) :
    frun rodata rb hash_many 1 ⟨mkS x g z false F m 36, [], true⟩ = ⟨mkS x g z false F m 37, [], true⟩ := by
  kernel_rfl

end B3.AsmSem.Many2
