/-
C05 (assembly, hash_many, SSE2) - property theorems: the hand-written assembly routine `blake3_hash_many_sse2`
(c/blake3_sse2_x86-64_unix.S), as the instruction list translated from the source text
(`B3.Gen.AsmSse2Many.hash_many`, 1983 instructions) and run by the machine semantics `B3/Asm/Many2Sem.lean`
(`run rb prog n s` = `n` fetch-execute steps from state `s`; `rb` = where the loader put the file's `.rodata`).

STATUS: PARTIAL.  Proved for every number of inputs `n` with `n % 4 ≤ 1` (groups of four, then nothing or the 1-input tail;
0 and 1 included), every block count `≥ 1`, counter, flags and register / memory contents satisfying `Entry`.  The full
statement is

    theorem asm_sse2_hash_many (rb : UInt64) (s : State) (A : HmArgs) (E : Entry rb s A) :
        ∃ N, (run rb hash_many N s).status = .returned ∧ (run rb hash_many N s).ok = true ∧
          (∀ p, 472 ≤ (p - scratch s.gpr[rsp]).toNat →
            (run rb hash_many N s).mem p = writeBytes s.mem A.out (A.outBytes s.mem) p) ∧
          (run rb hash_many N s).gpr[rsp] = s.gpr[rsp] + 8 ∧
          (run rb hash_many N s).gpr[rbx] = s.gpr[rbx] ∧ (run rb hash_many N s).gpr[rbp] = s.gpr[rbp] ∧
          (run rb hash_many N s).gpr[r12] = s.gpr[r12] ∧ (run rb hash_many N s).gpr[r13] = s.gpr[r13] ∧
          (run rb hash_many N s).gpr[r14] = s.gpr[r14] ∧ (run rb hash_many N s).gpr[r15] = s.gpr[r15]

(the statement of `B3.Props.C05M.asm_sse41_hash_many`); `asm_sse2_hash_many_partial` below is this statement with the one
extra hypothesis `A.n % 4 ≤ 1`.  MISSING for the full statement: the body of the 2-input tail (instructions 1619..1860 of
the generated list, entered when `num_inputs % 4` is 2 or 3) -- its kernel-evaluated pieces (`t2_setup_raw`, `t2_head_raw`,
`t2_round_raw`, `t2_perm_raw`, `t2_store_raw` of the SSE4.1 development, `B3/Asm/ManyT2a..d.lean`) have to be restated for the
SSE2 code (no ROT8/ROT16 tables in XMM12/13, `movd`+`punpckldq` / `movq`+`punpcklqdq` through `[rsp+0x20]` instead of `pinsrd`,
`pand`/`por` with the mask tables and spills to `[rsp+0x20] .. [rsp+0x50]` instead of `pblendw`, the scalar counter shift
`mov eax,[rsp+0x130]; neg eax; mov r10d,[rsp+0x110+8*rax]; mov r11d,[rsp+0x120+8*rax]; mov [rsp+0x110],r10d; mov [rsp+0x120],r11d`
instead of `blendvps` -- it moves lane 2 to lane 0 only), and the loop inductions (`ManyT2Loop`, `ManyT2Tail`, `tail2_step`)
re-run over them.  The machine semantics, the translation, the frame machine and its simulation theorem already cover those
instructions (the 4-byte store into the frame, the scaled-index load out of it).  Everything else (prologue, counter setup, the
4-way loop with its fourteen half rounds, block loop, outer loop, the tail tests, the 1-input tail with its seven rounds counted
in `al`, epilogue) is proved here.

`Entry rb s A` (B3/Asm/Many2Top.lean): as for the SSE4.1 routine -- `s` is at the first instruction, has not faulted, `.rodata`
is loaded at the 64-byte aligned `rb`; the ten arguments `A` are where the System V ABI puts them (six in registers, four at
`[rsp+8] .. [rsp+32]`; `increment_counter` a clean 0/1 in `r9d`); `blocks ≥ 1`; no address wrap-around; what the routine
reads (`.rodata`, key, pointer array, inputs, stack arguments) does not overlap what it writes (the 472 bytes below `rsp`,
and `out`), and `out` does not overlap those 472 bytes.
-/
import B3.Asm.Many2All
import B3.Simd.Sse41Props
namespace B3.Props.C05M2
open B3 B3.Simd B3.AsmSem.Many2 B3.Gen.AsmSse2Many
open B3.AsmSem (rsp rbx rbp r12 r13 r14 r15 Memory writeBytes readWords writeBytes_at)

/-- the reference used here is the `specHashBlocks` of the intrinsics theorems (`B3/Simd/Sse41Props.lean`) -/
theorem hashBlocks_eq_spec (key : CV) (blkAt : Nat → St) (blocks : Nat) (t : UInt64) (fl fs fe : UInt8) :
    hashBlocks key blkAt blocks t fl fs fe = specHashBlocks key blkAt blocks t fl fs fe := rfl

/-- what must be at `out` afterwards: for input `i` (address = the quadword at `inputs + 8 i`), the chaining value obtained from
the key by compressing its `blocks` 64-byte blocks with counter `counter + i` (wrapping) if `increment_counter`, else `counter`,
flags `flags`, plus `flags_start` on the first and `flags_end` on the last block -/
theorem outBytes_spec (A : HmArgs) (m : Memory) :
    A.outBytes m = (List.range A.n).flatMap fun i =>
      bytesOfWords (specHashBlocks (readWords m A.key 8) (fun b => readWords m (A.ptr m i + UInt64.ofNat (64 * b)) 16) A.blocks
        (A.counter + (if A.incr then UInt64.ofNat i else 0)) A.flags A.flagsStart A.flagsEnd) := rfl

/-- **blake3_hash_many_sse2, `num_inputs % 4 ≤ 1`.**  From every state satisfying `Entry` with `num_inputs % 4 ≤ 1`, the routine returns (after `N` instructions, `N`
depending on `num_inputs` and `blocks`) without fault; every byte of memory outside the 472 bytes below the entry `rsp` is
unchanged except that the `32 * num_inputs` bytes at `out` hold the chaining values of the inputs (`outBytes_spec`);
`rsp` = entry `rsp + 8`; `rbx rbp r12 r13 r14 r15` are restored. -/
theorem asm_sse2_hash_many_partial (rb : UInt64) (s : State) (A : HmArgs) (E : Entry rb s A) (hmod : A.n % 4 ≤ 1) :
    ∃ N, (run rb hash_many N s).status = .returned ∧ (run rb hash_many N s).ok = true ∧
      (∀ p, 472 ≤ (p - scratch s.gpr[rsp]).toNat →
        (run rb hash_many N s).mem p = writeBytes s.mem A.out (A.outBytes s.mem) p) ∧
      (run rb hash_many N s).gpr[rsp] = s.gpr[rsp] + 8 ∧
      (run rb hash_many N s).gpr[rbx] = s.gpr[rbx] ∧ (run rb hash_many N s).gpr[rbp] = s.gpr[rbp] ∧
      (run rb hash_many N s).gpr[r12] = s.gpr[r12] ∧ (run rb hash_many N s).gpr[r13] = s.gpr[r13] ∧
      (run rb hash_many N s).gpr[r14] = s.gpr[r14] ∧ (run rb hash_many N s).gpr[r15] = s.gpr[r15] :=
  hash_many_correct_partial E hmod

/-- the bytes at `out`, read back: byte `k` of the `32 * num_inputs` output bytes is in place after the call -/
theorem asm_sse2_hash_many_out_partial (rb : UInt64) (s : State) (A : HmArgs) (E : Entry rb s A) (hmod : A.n % 4 ≤ 1) :
    ∃ N, ∀ k, k < 32 * A.n →
      (run rb hash_many N s).mem (A.out + UInt64.ofNat k) = (A.outBytes s.mem).getD k 0 := by
  obtain ⟨N, _, _, hm, _⟩ := hash_many_correct_partial E hmod
  refine ⟨N, fun k hk => ?_⟩
  rw [hm _ (E.out_scratch k hk)]
  have hlen : (A.outBytes s.mem).length = 32 * A.n := outBytes_length _ _ _ _ _ _ _ _ _
  exact writeBytes_at _ _ _ k (by omega) (by have := E.hn; omega)

/-- the 4-way path alone (`num_inputs` divisible by four): a special case -/
theorem asm_sse2_hash_many_groups (rb : UInt64) (s : State) (A : HmArgs) (E : Entry rb s A) (G : Nat) (hG : A.n = 4 * G) :
    ∃ N, (run rb hash_many N s).status = .returned ∧ (run rb hash_many N s).ok = true ∧
      (∀ p, 472 ≤ (p - scratch s.gpr[rsp]).toNat →
        (run rb hash_many N s).mem p = writeBytes s.mem A.out (A.outBytes s.mem) p) :=
  hash_many_groups E G hG

/-! ### `Entry` (and `num_inputs % 4 ≤ 1`) is satisfiable: nine one-block inputs (two groups of four, the 1-input tail)

`.rodata` (208 bytes) at 0x30040, the pointer array at 0x10000 (inputs of 64 bytes at 0x20000, 0x20080, ..), the key at 0x18004 (unaligned),
`out` at 0x40004, entry `rsp` = 0x7fff0008 with `flags = 0x10`, `flags_start = 1`, `flags_end = 2` and `out` on the stack, counter
`2^32 - 2` with `increment_counter` (the low counter word wraps inside the first group); all other memory reads 0xA7. -/

def exMem : Memory := fun p =>
  if p - 0x30040 < 208 then rodata.getD (p - 0x30040).toNat 0
  else if p - 0x10000 < 72 then (#[0x00, 0x00, 0x02, 0x00, 0x00, 0x00, 0x00, 0x00, 0x80, 0x00, 0x02, 0x00, 0x00, 0x00, 0x00, 0x00, 0x00, 0x01, 0x02, 0x00, 0x00, 0x00, 0x00, 0x00, 0x80, 0x01, 0x02, 0x00, 0x00, 0x00, 0x00, 0x00, 0x00, 0x02, 0x02, 0x00, 0x00, 0x00, 0x00, 0x00, 0x80, 0x02, 0x02, 0x00, 0x00, 0x00, 0x00, 0x00, 0x00, 0x03, 0x02, 0x00, 0x00, 0x00, 0x00, 0x00, 0x80, 0x03, 0x02, 0x00, 0x00, 0x00, 0x00, 0x00, 0x00, 0x04, 0x02, 0x00, 0x00, 0x00, 0x00, 0x00] : Array UInt8).getD (p - 0x10000).toNat 0
  else if p = 0x7fff0010 then 0x10
  else if p = 0x7fff0018 then 0x01
  else if p = 0x7fff0020 then 0x02
  else if p - 0x7fff0028 < 8 then (#[0x04, 0x00, 0x04, 0, 0, 0, 0, 0] : Array UInt8).getD (p - 0x7fff0028).toNat 0
  else 0xA7

def exState : State :=
  { xmm := Vector.replicate 16 #v[0, 0, 0, 0]
    gpr := #v[0x1111, 0x18004, 1, 0x3333, 0x7fff0008, 0x5555, 9, 0x10000, 0xFFFFFFFE, 1, 0xAAAA, 0xBBBB, 0xCCCC, 0xDDDD, 0xEEEE, 0xFFFF]
    zf := false, cf := false, mem := exMem, pc := 0, status := .running, ok := true }

def exArgs : HmArgs :=
  { inputs := 0x10000, n := 9, blocks := 1, key := 0x18004, counter := 0xFFFFFFFE, incr := true, flags := 0x10, flagsStart := 1,
    flagsEnd := 2, out := 0x40004 }

set_option maxRecDepth 100000 in
theorem exEntry : Entry 0x30040 exState exArgs where
  pc := rfl
  running := rfl
  ok := rfl
  ro := ⟨by decide, by unfold B3.AsmSem.HoldsAt; decide⟩
  rdi := rfl
  rsi := rfl
  rdx := rfl
  rcx := rfl
  r8 := rfl
  r9 := by decide
  arg7 := by decide
  arg8 := by decide
  arg9 := by decide
  arg10 := by decide
  hn := by decide
  hb0 := by decide
  hb := by decide
  hsp := by decide
  hsp' := by decide
  sep_ro := ⟨by unfold OutsideRo; decide, by unfold OutsideRo; decide⟩
  sep_key := ⟨by unfold OutsideRo; decide, by unfold OutsideRo; decide⟩
  sep_ptrs := ⟨by unfold OutsideRo; decide, by unfold OutsideRo; decide⟩
  sep_in := by
    intro i hi
    have : i = 0 ∨ i = 1 ∨ i = 2 ∨ i = 3 ∨ i = 4 ∨ i = 5 ∨ i = 6 ∨ i = 7 ∨ i = 8 := by
      have : i < 9 := hi
      omega
    rcases this with rfl | rfl | rfl | rfl | rfl | rfl | rfl | rfl | rfl <;> exact ⟨by unfold OutsideRo; decide, by unfold OutsideRo; decide⟩
  out_scratch := by unfold OutsideRo; decide
  args_out := by unfold OutsideRo; decide

/-- so the theorem applies to it -/
example : ∃ N, (run 0x30040 hash_many N exState).status = .returned ∧ (run 0x30040 hash_many N exState).ok = true :=
  let ⟨N, h1, h2, _⟩ := asm_sse2_hash_many_partial 0x30040 exState exArgs exEntry (by decide)
  ⟨N, h1, h2⟩

/-! ### the layers below (on the frame machine, `B3/Asm/Many2Frame.lean`)

* `B3.AsmSem.Many2.frun_sim` -- the frame machine is THE semantics as long as `rsp` is not written and the logged references
  avoid the frame (and, for writes, `.rodata`); covers the new forms (`mov m32, r32` into the frame, the scaled-index load
  `[rsp + 8*rax + 0x110]` out of the frame);
* `r1a` .. `r7b`, `ld`, `out` (kernel-evaluated pieces; rotations by 16 / 8 as `pshuflw;pshufhw` / `psrld;pslld;pxor`),
  `block_iter` -- instructions 54..1559: every lane goes through `Spec.compress` of its block (`laneCV_eq`);
* `inner_loop` -- the loop over the blocks; `outer_iter`, `outer_step`, `outer_loop` -- the loop over groups of four inputs;
* `t1_rounds`, `t1_block_iter`, `t1_loop`, `t1_tail`, `tails_partial` -- the tests `test esi, 2` / `test esi, 1` and the 1-input
  tail (seven rounds counted in `al`, the block loop, the stores; flags word and block length through `rax = flags << 32 | 64`);
* `pro_ctr`, `ctr_step` -- the counter vectors are the halves of `counter + i`. -/

end B3.Props.C05M2
