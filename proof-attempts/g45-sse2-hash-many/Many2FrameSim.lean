/-
The simulation theorem: a run of the frame machine (`frun`, `B3/Asm/Many2Frame.lean`) IS a run of
THE semantics (`run` of `B3/Asm/Many2Sem.lean`) on the flat memory in which the frame lies at
`fb = rsp` and the `.rodata` bytes lie at `rb`, provided no executed instruction writes `rsp`
(`spOk`) and every logged memory reference lies outside the frame (and, for writes, outside
`.rodata`).  Statement: `frun_sim` at the end.
-/
import B3.Asm.Many2FrameMem
namespace B3.AsmSem.Many2
open B3 B3.Simd

/-- the flat state a frame-machine state stands for -/
def flatten (fb : UInt64) (a : StateG FMem) : State :=
  ⟨a.xmm, a.gpr, a.zf, a.cf, frameMem fb a.mem.frame a.mem.mem, a.pc, a.status, a.ok⟩

/-- what does not change: the frame base and the place of `.rodata` are 16-byte aligned, `.rodata` lies outside the frame -/
structure Ctx (ro : List UInt8) (rb fb : UInt64) : Prop where
  hfb : fb.toNat % 16 = 0
  hrb : rb.toNat % 16 = 0
  hlen : ro.length < 2 ^ 63
  hro : Outside fb rb ro.length

/-- what every step preserves: `rsp` is the frame base, the rest of memory holds `.rodata` -/
def Inv (ro : List UInt8) (rb fb : UInt64) (a : StateG FMem) : Prop := a.gpr[rsp] = fb ∧ HoldsAt a.mem.mem rb ro

/-- a logged reference is harmless: outside the frame, and outside `.rodata` if it is a write -/
def RefOk (ro : List UInt8) (rb fb : UInt64) (r : Ref) : Prop :=
  Outside fb r.2.1 r.2.2 ∧ (r.1 = true → OutsideRo rb ro.length r.2.1 r.2.2)

theorem frameOff_some {o : Operand} {n d : Nat} (h : frameOff o n = some d) :
    ∃ sz, o = .mem sz rsp none (Int.ofNat d) ∧ d % 4 = 0 ∧ d + n ≤ 352 := by
  unfold frameOff at h
  split at h
  · split at h
    · rename_i hc
      injection h with h
      subst h
      obtain ⟨rfl, h4, hn⟩ := hc
      exact ⟨_, rfl, h4, hn⟩
    · cases h
  · cases h

theorem ripOff_some {ro : List UInt8} {o : Operand} {n off : Nat} (h : ripOff ro o n = some off) :
    ∃ sz, o = .rip sz off ∧ off + n ≤ ro.length := by
  unfold ripOff at h
  split at h
  · split at h
    · rename_i hc
      injection h with h
      subst h
      exact ⟨_, rfl, hc⟩
    · cases h
  · cases h

section
variable {ro : List UInt8} {rb fb : UInt64} (C : Ctx ro rb fb)
include C

theorem ea_frame (a : StateG FMem) (hI : Inv ro rb fb a) (sz : Size) (d : Nat) :
    ea rb a.gpr (.mem sz rsp none (Int.ofNat d)) = some (fb + UInt64.ofNat d) := by
  show some (a.gpr[rsp] + dispU (Int.ofNat d)) = _
  rw [hI.1]
  rfl

omit C in
theorem opRefs_mem (st : Bool) (g : Vector UInt64 16) (o : Operand) (sz : Size) (e : UInt64) (hsz : o.size = some sz)
    (hea : ea rb g o = some e) (hb : sz.bytes ≠ 0)
    (hsp : special ro st o sz = false) (hsS : specialS st g o sz = false) :
    (st, e, sz.bytes) ∈ opRefs ro st rb g o := by
  unfold opRefs
  rw [hsz]
  simp only [hsp, hsS, Bool.false_or, hea]
  have : (sz.bytes == 0) = false := by simpa using hb
  rw [this]
  simp

theorem al16_sim (a : StateG FMem) (hI : Inv ro rb fb a) (o : Operand) (e : UInt64) (hea : ea rb a.gpr o = some e) :
    aligned16 e = (frameAcc ro).al16 o e := by
  cases o with
  | mem sz b idx d =>
    cases idx with
    | none =>
      cases d with
      | ofNat n =>
        show _ = if b = rsp then n % 16 == 0 else aligned16 e
        by_cases hb : b = rsp
        · subst hb
          rw [if_pos rfl]
          rw [ea_frame C a hI] at hea
          injection hea with hea
          rw [← hea, aligned16_add fb n C.hfb]
        · rw [if_neg hb]
      | negSucc n => rfl
    | some i => rfl
  | rip sz off =>
    show _ = (off % 16 == 0)
    have : e = rb + UInt64.ofNat off := by
      have : ea rb a.gpr (.rip sz off) = some (rb + UInt64.ofNat off) := rfl
      rw [this] at hea
      injection hea with hea
      exact hea.symm
    rw [this, aligned16_add rb off C.hrb]
  | _ => rfl

theorem ld128_sim (a : StateG FMem) (hI : Inv ro rb fb a) (o : Operand) (e : UInt64) (hea : ea rb a.gpr o = some e)
    (hsz : o.size = some .xmmword) (h : ∀ r ∈ opRefs ro false rb a.gpr o, RefOk ro rb fb r) :
    load128 (frameMem fb a.mem.frame a.mem.mem) e = (frameAcc ro).ld128 a.mem o e := by
  cases hf : frameOff o 16 with
  | some d =>
    obtain ⟨sz, rfl, h4, hn⟩ := frameOff_some hf
    rw [ea_frame C a hI] at hea
    injection hea with hea
    subst hea
    simp only [frameAcc, hf]
    by_cases h16 : d % 16 = 0
    · rw [if_pos h16, load128_in_aligned _ _ _ d h16 hn]
    · rw [if_neg h16, load128_in _ _ _ d h4 hn]
  | none =>
    cases hr : ripOff ro o 16 with
    | some off =>
      obtain ⟨sz, rfl, hle⟩ := ripOff_some hr
      have : e = rb + UInt64.ofNat off := by
        have : ea rb a.gpr (.rip sz off) = some (rb + UInt64.ofNat off) := rfl
        rw [this] at hea
        injection hea with hea
        exact hea.symm
      subst this
      simp only [frameAcc, hf, hr]
      rw [load128_out _ _ _ _ (C.hro.mono off 16 hle), holds_load128 _ _ _ _ hI.2 hle]
    | none =>
      simp only [frameAcc, hf, hr]
      have hm := opRefs_mem (ro := ro) false a.gpr o .xmmword e hsz hea (by decide) (by simp [special, hf, hr]) rfl
      exact load128_out _ _ _ _ (h _ hm).1

theorem ld32_sim (a : StateG FMem) (hI : Inv ro rb fb a) (o : Operand) (e : UInt64) (hea : ea rb a.gpr o = some e)
    (hsz : o.size = some .dword) (hS : specialS false a.gpr o .dword = false)
    (h : ∀ r ∈ opRefs ro false rb a.gpr o, RefOk ro rb fb r) :
    (frameMem fb a.mem.frame a.mem.mem).word e = (frameAcc ro).ld32 a.mem o e := by
  cases hf : frameOff o 4 with
  | some d =>
    obtain ⟨sz, rfl, h4, hn⟩ := frameOff_some hf
    rw [ea_frame C a hI] at hea
    injection hea with hea
    subst hea
    simp only [frameAcc, hf]
    exact word_in _ _ _ d h4 hn
  | none =>
    cases hr : ripOff ro o 4 with
    | some off =>
      obtain ⟨sz, rfl, hle⟩ := ripOff_some hr
      have : e = rb + UInt64.ofNat off := by
        have : ea rb a.gpr (.rip sz off) = some (rb + UInt64.ofNat off) := rfl
        rw [this] at hea
        injection hea with hea
        exact hea.symm
      subst this
      simp only [frameAcc, hf, hr]
      rw [word_out _ _ _ _ (C.hro.mono off 4 hle), holds_word _ _ _ _ hI.2 hle]
    | none =>
      simp only [frameAcc, hf, hr]
      have hm := opRefs_mem (ro := ro) false a.gpr o .dword e hsz hea (by decide) (by simp [special, hf, hr]) hS
      exact word_out _ _ _ _ (h _ hm).1

omit C in
theorem frameOffS_some {o : Operand} {iv : UInt64} {e : Nat} (h : frameOffS o iv = some e) :
    ∃ sz i sc d, o = .memS sz rsp i sc (Int.ofNat d) ∧ e = d + sc * iv.toNat ∧ e % 4 = 0 ∧ e + 4 ≤ 352 := by
  unfold frameOffS at h
  split at h
  · split at h
    · rename_i hc
      injection h with h
      subst h
      obtain ⟨rfl, h4, hn⟩ := hc
      exact ⟨_, _, _, _, rfl, rfl, h4, hn⟩
    · cases h
  · cases h

/-- (SSE2 routine) a 4-byte load, scaled-index operands included -/
theorem ld32o_sim (a : StateG FMem) (hI : Inv ro rb fb a) (o : Operand) (e : UInt64) (hea : ea rb a.gpr o = some e)
    (hsz : o.size = some .dword) (h : ∀ r ∈ opRefs ro false rb a.gpr o, RefOk ro rb fb r) :
    (frameMem fb a.mem.frame a.mem.mem).word e = ld32o (frameAcc ro) a o e := by
  cases o with
  | memS sz b i sc d =>
    show _ = (frameAcc ro).ld32s a.mem (.memS sz b i sc d) a.gpr[i] e
    cases hf : frameOffS (.memS sz b i sc d) a.gpr[i] with
    | some k =>
      obtain ⟨sz', i', sc', d', ho, hk, h4, hn⟩ := frameOffS_some hf
      injection ho with _ hb hi hsc hd
      subst hb hi hsc hd
      have he : e = fb + UInt64.ofNat k := by
        have : ea rb a.gpr (.memS sz rsp i sc (Int.ofNat d')) = some (a.gpr[rsp] + UInt64.ofNat sc * a.gpr[i] + dispU (Int.ofNat d')) := rfl
        rw [this, hI.1] at hea
        injection hea with hea
        rw [← hea, hk, UInt64.add_assoc]
        congr 1
        show UInt64.ofNat sc * a.gpr[i] + UInt64.ofNat d' = _
        rw [UInt64.ofNat_add, UInt64.ofNat_mul, UInt64.ofNat_toNat, UInt64.add_comm]
      subst he
      simp only [frameAcc, hf]
      exact word_in _ _ _ k h4 hn
    | none =>
      simp only [frameAcc, hf]
      have hm := opRefs_mem (ro := ro) false a.gpr (.memS sz b i sc d) .dword e hsz hea (by decide) rfl
        (by show (!false && (frameOffS _ a.gpr[i]).isSome) = false; rw [hf]; rfl)
      exact word_out _ _ _ _ (h _ hm).1
  | mem sz b i d => exact ld32_sim C a hI _ e hea hsz rfl h
  | rip sz off => exact ld32_sim C a hI _ e hea hsz rfl h
  | xmm n => cases hsz
  | gpr r w => cases hsz
  | imm v => cases hsz
  | target t => cases hsz

omit C in
theorem ld32o_flat (a : StateG FMem) (o : Operand) (e : UInt64) :
    ld32o flat (flatten fb a) o e = (frameMem fb a.mem.frame a.mem.mem).word e := by
  cases o <;> rfl

theorem ld64_sim (a : StateG FMem) (o : Operand) (e : UInt64) (hea : ea rb a.gpr o = some e)
    (hsz : o.size = some .qword) (h : ∀ r ∈ opRefs ro false rb a.gpr o, RefOk ro rb fb r) :
    load64 (frameMem fb a.mem.frame a.mem.mem) e = (frameAcc ro).ld64 a.mem o e := by
  have hm := opRefs_mem (ro := ro) false a.gpr o .qword e hsz hea (by decide) rfl rfl
  exact load64_out _ _ _ _ (h _ hm).1

theorem ld8_sim (a : StateG FMem) (o : Operand) (e : UInt64) (hea : ea rb a.gpr o = some e)
    (hsz : o.size = some .byte) (h : ∀ r ∈ opRefs ro false rb a.gpr o, RefOk ro rb fb r) :
    frameMem fb a.mem.frame a.mem.mem e = (frameAcc ro).ld8 a.mem o e := by
  have hm := opRefs_mem (ro := ro) false a.gpr o .byte e hsz hea (by decide) rfl rfl
  exact frameMem_out _ _ _ _ ((h _ hm).1.zero Nat.one_pos)


theorem st128_sim (a : StateG FMem) (hI : Inv ro rb fb a) (o : Operand) (e : UInt64) (hea : ea rb a.gpr o = some e)
    (hsz : o.size = some .xmmword) (v : V4) (h : ∀ r ∈ opRefs ro true rb a.gpr o, RefOk ro rb fb r) :
    store128 (frameMem fb a.mem.frame a.mem.mem) e v
        = frameMem fb ((frameAcc ro).st128 a.mem o e v).frame ((frameAcc ro).st128 a.mem o e v).mem
      ∧ HoldsAt ((frameAcc ro).st128 a.mem o e v).mem rb ro := by
  have hlen : ro.length < 2 ^ 64 := Nat.lt_trans C.hlen (by decide)
  cases hf : frameOff o 16 with
  | some d =>
    by_cases h16 : d % 16 = 0
    · obtain ⟨sz, rfl, h4, hn⟩ := frameOff_some hf
      rw [ea_frame C a hI] at hea
      injection hea with hea
      subst hea
      simp only [frameAcc, hf, if_pos h16]
      exact ⟨store128_in _ _ _ d v h16 hn, hI.2⟩
    · simp only [frameAcc, hf, if_neg h16]
      have hm := opRefs_mem (ro := ro) true a.gpr o .xmmword e hsz hea (by decide) (by simp [special, hf, h16]) rfl
      exact ⟨store128_out _ _ _ _ _ (h _ hm).1, holds_store128 _ _ _ _ _ hI.2 ((h _ hm).2 rfl) hlen⟩
  | none =>
    simp only [frameAcc, hf]
    have hm := opRefs_mem (ro := ro) true a.gpr o .xmmword e hsz hea (by decide) (by simp [special, hf]) rfl
    exact ⟨store128_out _ _ _ _ _ (h _ hm).1, holds_store128 _ _ _ _ _ hI.2 ((h _ hm).2 rfl) hlen⟩

/-- (SSE2 routine) -/
theorem st32_sim (a : StateG FMem) (hI : Inv ro rb fb a) (o : Operand) (e : UInt64) (hea : ea rb a.gpr o = some e)
    (hsz : o.size = some .dword) (v : UInt32) (h : ∀ r ∈ opRefs ro true rb a.gpr o, RefOk ro rb fb r) :
    store32 (frameMem fb a.mem.frame a.mem.mem) e v
        = frameMem fb ((frameAcc ro).st32 a.mem o e v).frame ((frameAcc ro).st32 a.mem o e v).mem
      ∧ HoldsAt ((frameAcc ro).st32 a.mem o e v).mem rb ro := by
  have hlen : ro.length < 2 ^ 64 := Nat.lt_trans C.hlen (by decide)
  cases hf : frameOff o 4 with
  | some d =>
    obtain ⟨sz, rfl, h4, hn⟩ := frameOff_some hf
    rw [ea_frame C a hI] at hea
    injection hea with hea
    subst hea
    simp only [frameAcc, hf]
    exact ⟨store32_in _ _ _ d v h4 hn, hI.2⟩
  | none =>
    simp only [frameAcc, hf]
    have hm := opRefs_mem (ro := ro) true a.gpr o .dword e hsz hea (by decide) (by simp [special, hf])
      (by cases o <;> rfl)
    exact ⟨store32_out _ _ _ _ _ (h _ hm).1, holds_store32 _ _ _ _ _ hI.2 ((h _ hm).2 rfl) hlen⟩

/-! ### operand readers -/

theorem ldV_sim (a : StateG FMem) (hI : Inv ro rb fb a) (o : Operand) (h : ∀ r ∈ opRefs ro false rb a.gpr o, RefOk ro rb fb r) :
    ldV flat rb (flatten fb a) o = ldV (frameAcc ro) rb a o := by
  unfold ldV
  by_cases hsz : o.size = some .xmmword
  · rw [if_pos hsz, if_pos hsz]
    show (match ea rb a.gpr o with
      | some e => some (load128 (frameMem fb a.mem.frame a.mem.mem) e, aligned16 e)
      | none => none) = _
    cases hea : ea rb a.gpr o with
    | none => rfl
    | some e =>
      simp only []
      rw [ld128_sim C a hI o e hea hsz h, al16_sim C a hI o e hea]
  · rw [if_neg hsz, if_neg hsz]

theorem ldD_sim (a : StateG FMem) (hI : Inv ro rb fb a) (o : Operand) (h : ∀ r ∈ opRefs ro false rb a.gpr o, RefOk ro rb fb r) :
    ldD flat rb (flatten fb a) o = ldD (frameAcc ro) rb a o := by
  unfold ldD
  by_cases hsz : o.size = some .dword
  · rw [if_pos hsz, if_pos hsz]
    show (match ea rb a.gpr o with
      | some e => some (ld32o flat (flatten fb a) o e)
      | none => none) = _
    cases hea : ea rb a.gpr o with
    | none => rfl
    | some e =>
      simp only []
      rw [ld32o_flat, ld32o_sim C a hI o e hea hsz h]
  · rw [if_neg hsz, if_neg hsz]

theorem ldG_sim (a : StateG FMem) (hI : Inv ro rb fb a) (w : Width) (o : Operand)
    (h : ∀ r ∈ opRefs ro false rb a.gpr o, RefOk ro rb fb r) :
    ldG flat rb (flatten fb a) w o = ldG (frameAcc ro) rb a w o := by
  unfold ldG
  by_cases hsz : o.size = some (sizeOfWidth w)
  · rw [if_pos hsz, if_pos hsz]
    show (match ea rb a.gpr o with
      | some e => some (match w with
        | .b8 => (frameMem fb a.mem.frame a.mem.mem e).toUInt64
        | .d32 => (ld32o flat (flatten fb a) o e).toUInt64
        | .q64 => load64 (frameMem fb a.mem.frame a.mem.mem) e)
      | none => none) = _
    cases hea : ea rb a.gpr o with
    | none => rfl
    | some e =>
      simp only []
      cases w with
      | b8 => simp only []; rw [ld8_sim C a o e hea hsz h]
      | d32 => simp only []; rw [ld32o_flat, ld32o_sim C a hI o e hea hsz h]
      | q64 => simp only []; rw [ld64_sim C a o e hea hsz h]
  · rw [if_neg hsz, if_neg hsz]

theorem rdV_sim (a : StateG FMem) (hI : Inv ro rb fb a) (o : Operand) (h : ∀ r ∈ opRefs ro false rb a.gpr o, RefOk ro rb fb r) :
    rdV flat rb (flatten fb a) o = rdV (frameAcc ro) rb a o := by
  cases o with
  | xmm r => rfl
  | _ => exact ldV_sim C a hI _ h

theorem rd32_sim (a : StateG FMem) (hI : Inv ro rb fb a) (o : Operand) (h : ∀ r ∈ opRefs ro false rb a.gpr o, RefOk ro rb fb r) :
    rd32 flat rb (flatten fb a) o = rd32 (frameAcc ro) rb a o := by
  cases o with
  | gpr r w => cases w <;> first | rfl | exact ldD_sim C a hI _ h
  | _ => exact ldD_sim C a hI _ h

theorem rdG_sim (a : StateG FMem) (hI : Inv ro rb fb a) (w : Width) (o : Operand)
    (h : ∀ r ∈ opRefs ro false rb a.gpr o, RefOk ro rb fb r) :
    rdG flat rb (flatten fb a) w o = rdG (frameAcc ro) rb a w o := by
  cases o with
  | gpr r w' => rfl
  | imm k => rfl
  | _ => exact ldG_sim C a hI w _ h

/-! ### membership in the reference list of an instruction -/

omit C in
theorem opsRefs_first {g : Vector UInt64 16} {o : Operand} {rest : List Operand} {r : Ref} (h : r ∈ opRefs ro true rb g o) :
    r ∈ opsRefs ro rb g (o :: rest) := by
  unfold opsRefs
  exact List.mem_append_left _ h

omit C in
theorem opsRefs_second {g : Vector UInt64 16} {o1 o2 : Operand} {rest : List Operand} {r : Ref} (h : r ∈ opRefs ro false rb g o2) :
    r ∈ opsRefs ro rb g (o1 :: o2 :: rest) := by
  unfold opsRefs
  apply List.mem_append_right
  rw [List.flatMap_cons]
  exact List.mem_append_left _ h


/-! ### instruction classes -/

theorem vbin_sim (a : StateG FMem) (hI : Inv ro rb fb a) (f : V4 → V4 → V4) (ops : List Operand)
    (h : ∀ r ∈ opsRefs ro rb a.gpr ops, RefOk ro rb fb r) :
    vbin flat rb f ops (flatten fb a) = flatten fb (vbin (frameAcc ro) rb f ops a)
      ∧ HoldsAt (vbin (frameAcc ro) rb f ops a).mem.mem rb ro := by
  unfold vbin
  split
  · rename_i d o
    rw [rdV_sim C a hI o (fun r hr => h r (opsRefs_second hr))]
    cases rdV (frameAcc ro) rb a o with
    | none => exact ⟨rfl, hI.2⟩
    | some p => exact ⟨rfl, hI.2⟩
  · exact ⟨rfl, hI.2⟩


theorem vbinImm_sim (a : StateG FMem) (hI : Inv ro rb fb a) (f : V4 → V4 → Nat → V4) (ops : List Operand)
    (h : ∀ r ∈ opsRefs ro rb a.gpr ops, RefOk ro rb fb r) :
    vbinImm flat rb f ops (flatten fb a) = flatten fb (vbinImm (frameAcc ro) rb f ops a)
      ∧ HoldsAt (vbinImm (frameAcc ro) rb f ops a).mem.mem rb ro := by
  unfold vbinImm
  split
  · rename_i d o k
    rw [rdV_sim C a hI o (fun r hr => h r (opsRefs_second hr))]
    cases rdV (frameAcc ro) rb a o with
    | none => exact ⟨rfl, hI.2⟩
    | some p => exact ⟨rfl, hI.2⟩
  · exact ⟨rfl, hI.2⟩

omit C in
theorem vImm_sim (a : StateG FMem) (hI : Inv ro rb fb a) (f : V4 → Nat → V4) (ops : List Operand) :
    vImm f ops (flatten fb a) = flatten fb (vImm f ops a) ∧ HoldsAt (vImm f ops a).mem.mem rb ro := by
  unfold vImm
  split
  · exact ⟨rfl, hI.2⟩
  · exact ⟨rfl, hI.2⟩

omit C in
theorem jcc_sim (a : StateG FMem) (hI : Inv ro rb fb a) (c : Bool) (ops : List Operand) :
    jcc c ops (flatten fb a) = flatten fb (jcc c ops a) ∧ HoldsAt (jcc c ops a).mem.mem rb ro := by
  unfold jcc
  split
  · cases c
    · exact ⟨rfl, hI.2⟩
    · exact ⟨rfl, hI.2⟩
  · exact ⟨rfl, hI.2⟩

theorem mov128_sim (a : StateG FMem) (hI : Inv ro rb fb a) (al : Bool) (ops : List Operand)
    (h : ∀ r ∈ opsRefs ro rb a.gpr ops, RefOk ro rb fb r) :
    mov128 flat rb al ops (flatten fb a) = flatten fb (mov128 (frameAcc ro) rb al ops a)
      ∧ HoldsAt (mov128 (frameAcc ro) rb al ops a).mem.mem rb ro := by
  unfold mov128
  split
  · rename_i d o
    rw [rdV_sim C a hI o (fun r hr => h r (opsRefs_second hr))]
    cases rdV (frameAcc ro) rb a o with
    | none => exact ⟨rfl, hI.2⟩
    | some p => exact ⟨rfl, hI.2⟩
  · rename_i o r _
    have e1 : (flatten fb a).gpr = a.gpr := rfl
    rw [e1]
    by_cases hsz : o.size = some .xmmword
    · rw [if_pos hsz, if_pos hsz]
      cases hea : ea rb a.gpr o with
      | none => exact ⟨rfl, hI.2⟩
      | some e =>
        simp only []
        obtain ⟨h1, h2⟩ := st128_sim C a hI o e hea hsz a.xmm[r] (fun r hr => h r (opsRefs_first hr))
        refine ⟨?_, h2⟩
        show StateG.next ⟨a.xmm, a.gpr, a.zf, a.cf, store128 (frameMem fb a.mem.frame a.mem.mem) e a.xmm[r], a.pc, a.status,
          a.ok && (!al || aligned16 e)⟩ = _
        rw [h1, al16_sim C a hI o e hea]
        rfl
    · rw [if_neg hsz, if_neg hsz]
      exact ⟨rfl, hI.2⟩
  · exact ⟨rfl, hI.2⟩

theorem gbin_sim (a : StateG FMem) (hI : Inv ro rb fb a) (f : Width → UInt64 → UInt64 → UInt64 × Bool) (wr : Bool)
    (ops : List Operand) (h : ∀ r ∈ opsRefs ro rb a.gpr ops, RefOk ro rb fb r) :
    gbin flat rb f wr ops (flatten fb a) = flatten fb (gbin (frameAcc ro) rb f wr ops a)
      ∧ HoldsAt (gbin (frameAcc ro) rb f wr ops a).mem.mem rb ro := by
  unfold gbin
  split
  · rename_i d w o
    rw [rdG_sim C a hI w o (fun r hr => h r (opsRefs_second hr))]
    cases rdG (frameAcc ro) rb a w o with
    | none => exact ⟨rfl, hI.2⟩
    | some b =>
      cases wr
      · exact ⟨rfl, hI.2⟩
      · exact ⟨rfl, hI.2⟩
  · exact ⟨rfl, hI.2⟩


/-! ### one instruction -/

theorem execG_sim (i : Instr) (a : StateG FMem) (hI : Inv ro rb fb a)
    (h : ∀ r ∈ instrRefs ro rb a.gpr i, RefOk ro rb fb r) (hw : writesRsp i = false) :
    exec rb i (flatten fb a) = flatten fb (execG (frameAcc ro) rb i a)
      ∧ HoldsAt (execG (frameAcc ro) rb i a).mem.mem rb ro := by
  obtain ⟨mn, ops⟩ := i
  unfold exec
  cases mn
  case endbr64 => simp only [execG]; split <;> exact ⟨rfl, hI.2⟩
  case prefetcht0 => simp only [execG]; split <;> exact ⟨rfl, hI.2⟩
  case movups => exact mov128_sim C a hI false ops h
  case movdqu => exact mov128_sim C a hI false ops h
  case movaps => exact mov128_sim C a hI true ops h
  case movdqa => exact mov128_sim C a hI true ops h
  case movd =>
    simp only [execG]
    split
    · rename_i d o
      rw [rd32_sim C a hI o (fun r hr => h r (opsRefs_second hr))]
      cases rd32 (frameAcc ro) rb a o with
      | none => exact ⟨rfl, hI.2⟩
      | some v => exact ⟨rfl, hI.2⟩
    · exact ⟨rfl, hI.2⟩
  case pinsrd =>
    simp only [execG]
    split
    · rename_i d o k
      rw [rd32_sim C a hI o (fun r hr => h r (opsRefs_second hr))]
      cases rd32 (frameAcc ro) rb a o with
      | none => exact ⟨rfl, hI.2⟩
      | some v => exact ⟨rfl, hI.2⟩
    · exact ⟨rfl, hI.2⟩
  case paddd => exact vbin_sim C a hI _mm_add_epi32 ops h
  case psubd => exact vbin_sim C a hI psubd ops h
  case pxor => exact vbin_sim C a hI _mm_xor_si128 ops h
  case por => exact vbin_sim C a hI _mm_or_si128 ops h
  case pand => exact vbin_sim C a hI pand ops h
  case pcmpgtd => exact vbin_sim C a hI pcmpgtd ops h
  case pshufb => exact vbin_sim C a hI pshufb ops h
  case pslld => exact vImm_sim a hI _mm_slli_epi32 ops
  case psrld => exact vImm_sim a hI _mm_srli_epi32 ops
  case pshufd => exact vbinImm_sim C a hI (fun _ src k => _mm_shuffle_epi32 src k) ops h
  case shufps => exact vbinImm_sim C a hI _mm_shuffle_ps ops h
  case pblendw => exact vbinImm_sim C a hI _mm_blend_epi16 ops h
  case blendvps => exact vbin_sim C a hI (blendvps a.xmm[(0 : Fin 16)]) ops h
  case punpckldq => exact vbin_sim C a hI _mm_unpacklo_epi32 ops h
  case punpckhdq => exact vbin_sim C a hI _mm_unpackhi_epi32 ops h
  case punpcklqdq => exact vbin_sim C a hI _mm_unpacklo_epi64 ops h
  case punpckhqdq => exact vbin_sim C a hI _mm_unpackhi_epi64 ops h
  case push => simp [writesRsp] at hw
  case pop => simp [writesRsp] at hw
  case ret => simp [writesRsp] at hw
  case mov =>
    simp only [execG]
    split
    · rename_i d w o
      rw [rdG_sim C a hI w o (fun r hr => h r (opsRefs_second hr))]
      cases rdG (frameAcc ro) rb a w o with
      | none => exact ⟨rfl, hI.2⟩
      | some v => exact ⟨rfl, hI.2⟩
    · rename_i o r _
      have e1 : (flatten fb a).gpr = a.gpr := rfl
      rw [e1]
      by_cases hsz : o.size = some .dword
      · rw [if_pos hsz, if_pos hsz]
        cases hea : ea rb a.gpr o with
        | none => exact ⟨rfl, hI.2⟩
        | some e =>
          simp only []
          obtain ⟨h1, h2⟩ := st32_sim C a hI o e hea hsz a.gpr[r].toUInt32 (fun r hr => h r (opsRefs_first hr))
          refine ⟨?_, h2⟩
          show StateG.next ⟨a.xmm, a.gpr, a.zf, a.cf, store32 (frameMem fb a.mem.frame a.mem.mem) e a.gpr[r].toUInt32, a.pc, a.status,
            a.ok⟩ = _
          rw [h1]
          rfl
      · rw [if_neg hsz, if_neg hsz]
        exact ⟨rfl, hI.2⟩
    · exact ⟨rfl, hI.2⟩
  case movq => simp only [execG]; split <;> exact ⟨rfl, hI.2⟩
  case pshuflw => exact vbinImm_sim C a hI (fun _ src k => pshuflw src k) ops h
  case pshufhw => exact vbinImm_sim C a hI (fun _ src k => pshufhw src k) ops h
  case movzx =>
    simp only [execG]
    split
    · rename_i d o
      rw [rdG_sim C a hI .b8 o (fun r hr => h r (opsRefs_second hr))]
      cases rdG (frameAcc ro) rb a .b8 o with
      | none => exact ⟨rfl, hI.2⟩
      | some v => exact ⟨rfl, hI.2⟩
    · exact ⟨rfl, hI.2⟩
  case cmovne =>
    simp only [execG]
    split
    · split <;> exact ⟨rfl, hI.2⟩
    · exact ⟨rfl, hI.2⟩
  case add => exact gbin_sim C a hI aluAdd true ops h
  case sub => exact gbin_sim C a hI aluSub true ops h
  case and => exact gbin_sim C a hI aluAnd true ops h
  case or => exact gbin_sim C a hI aluOr true ops h
  case xor => exact gbin_sim C a hI aluXor true ops h
  case cmp => exact gbin_sim C a hI aluSub false ops h
  case test => exact gbin_sim C a hI aluAnd false ops h
  case neg => simp only [execG]; split <;> exact ⟨rfl, hI.2⟩
  case dec => simp only [execG]; split <;> exact ⟨rfl, hI.2⟩
  case shl =>
    simp only [execG]
    split
    · split
      · exact ⟨rfl, hI.2⟩
      · split <;> split <;> exact ⟨rfl, hI.2⟩
    · exact ⟨rfl, hI.2⟩
  case shr =>
    simp only [execG]
    split
    · split
      · exact ⟨rfl, hI.2⟩
      · split <;> split <;> exact ⟨rfl, hI.2⟩
    · exact ⟨rfl, hI.2⟩
  case jz => exact jcc_sim a hI a.zf ops
  case jnz => exact jcc_sim a hI (!a.zf) ops
  case jc => exact jcc_sim a hI a.cf ops
  case jnc => exact jcc_sim a hI (!a.cf) ops
  case jmp => exact jcc_sim a hI true ops

end

/-! ### `rsp` is left alone -/

section
variable {μ : Type} (A : MemAcc μ) (rb : UInt64)

theorem writeGpr_rsp (s : StateG μ) (d : Reg) (w : Width) (v : UInt64) (hd : d ≠ rsp) :
    (s.writeGpr d w v).gpr[rsp] = s.gpr[rsp] := by
  unfold StateG.writeGpr
  simp only [Fin.getElem_fin]
  rw [Vector.getElem_set_ne]
  intro e
  exact hd (Fin.ext e)

theorem vbin_gpr (f : V4 → V4 → V4) (ops : List Operand) (s : StateG μ) : (vbin A rb f ops s).gpr = s.gpr := by
  unfold vbin
  split
  · split <;> rfl
  · rfl

theorem vbinImm_gpr (f : V4 → V4 → Nat → V4) (ops : List Operand) (s : StateG μ) : (vbinImm A rb f ops s).gpr = s.gpr := by
  unfold vbinImm
  split
  · split <;> rfl
  · rfl

theorem vImm_gpr (f : V4 → Nat → V4) (ops : List Operand) (s : StateG μ) : (vImm f ops s).gpr = s.gpr := by
  unfold vImm
  split <;> rfl

theorem jcc_gpr (c : Bool) (ops : List Operand) (s : StateG μ) : (jcc c ops s).gpr = s.gpr := by
  unfold jcc
  split
  · split <;> rfl
  · rfl

theorem mov128_gpr (al : Bool) (ops : List Operand) (s : StateG μ) : (mov128 A rb al ops s).gpr = s.gpr := by
  unfold mov128
  split
  · split <;> rfl
  · split
    · split <;> rfl
    · rfl
  · rfl

theorem writesRsp_gpr {mn : Mn} {d : Reg} {w : Width} {rest : List Operand}
    (hw : writesRsp ⟨mn, .gpr d w :: rest⟩ = false) : d ≠ rsp := by
  intro e
  subst e
  cases mn <;> simp [writesRsp] at hw

theorem gbin_rsp (f : Width → UInt64 → UInt64 → UInt64 × Bool) (wr : Bool) (mn : Mn) (ops : List Operand) (s : StateG μ)
    (hw : writesRsp ⟨mn, ops⟩ = false) : (gbin A rb f wr ops s).gpr[rsp] = s.gpr[rsp] := by
  unfold gbin
  split
  · rename_i d w o
    have hd := writesRsp_gpr hw
    split
    · cases wr
      · rfl
      · exact writeGpr_rsp s d w _ hd
    · rfl
  · rfl

theorem execG_rsp (i : Instr) (s : StateG μ) (hw : writesRsp i = false) : (execG A rb i s).gpr[rsp] = s.gpr[rsp] := by
  obtain ⟨mn, ops⟩ := i
  cases mn
  case endbr64 => simp only [execG]; split <;> rfl
  case prefetcht0 => simp only [execG]; split <;> rfl
  case movups => exact congrArg (·[rsp]) (mov128_gpr A rb false ops s)
  case movdqu => exact congrArg (·[rsp]) (mov128_gpr A rb false ops s)
  case movaps => exact congrArg (·[rsp]) (mov128_gpr A rb true ops s)
  case movdqa => exact congrArg (·[rsp]) (mov128_gpr A rb true ops s)
  case movd =>
    simp only [execG]
    split
    · split <;> rfl
    · rfl
  case pinsrd =>
    simp only [execG]
    split
    · split <;> rfl
    · rfl
  case paddd => exact congrArg (·[rsp]) (vbin_gpr A rb _mm_add_epi32 ops s)
  case psubd => exact congrArg (·[rsp]) (vbin_gpr A rb psubd ops s)
  case pxor => exact congrArg (·[rsp]) (vbin_gpr A rb _mm_xor_si128 ops s)
  case por => exact congrArg (·[rsp]) (vbin_gpr A rb _mm_or_si128 ops s)
  case pand => exact congrArg (·[rsp]) (vbin_gpr A rb pand ops s)
  case pcmpgtd => exact congrArg (·[rsp]) (vbin_gpr A rb pcmpgtd ops s)
  case pshufb => exact congrArg (·[rsp]) (vbin_gpr A rb pshufb ops s)
  case pslld => exact congrArg (·[rsp]) (vImm_gpr _mm_slli_epi32 ops s)
  case psrld => exact congrArg (·[rsp]) (vImm_gpr _mm_srli_epi32 ops s)
  case pshufd => exact congrArg (·[rsp]) (vbinImm_gpr A rb (fun _ src k => _mm_shuffle_epi32 src k) ops s)
  case shufps => exact congrArg (·[rsp]) (vbinImm_gpr A rb _mm_shuffle_ps ops s)
  case pblendw => exact congrArg (·[rsp]) (vbinImm_gpr A rb _mm_blend_epi16 ops s)
  case blendvps => exact congrArg (·[rsp]) (vbin_gpr A rb (blendvps s.xmm[(0 : Fin 16)]) ops s)
  case punpckldq => exact congrArg (·[rsp]) (vbin_gpr A rb _mm_unpacklo_epi32 ops s)
  case punpckhdq => exact congrArg (·[rsp]) (vbin_gpr A rb _mm_unpackhi_epi32 ops s)
  case punpcklqdq => exact congrArg (·[rsp]) (vbin_gpr A rb _mm_unpacklo_epi64 ops s)
  case punpckhqdq => exact congrArg (·[rsp]) (vbin_gpr A rb _mm_unpackhi_epi64 ops s)
  case push => simp [writesRsp] at hw
  case pop => simp [writesRsp] at hw
  case ret => simp [writesRsp] at hw
  case mov =>
    simp only [execG]
    split
    · have hd := writesRsp_gpr hw
      split
      · exact writeGpr_rsp s _ _ _ hd
      · rfl
    · rename_i o r _
      have hg : (if o.size = some .dword then
          match ea rb s.gpr o with
          | some a => ({ s with mem := A.st32 s.mem o a s.gpr[r].toUInt32 } : StateG μ).next
          | none => s.fault
        else s.fault).gpr = s.gpr := by
        split
        · split <;> rfl
        · rfl
      exact congrArg (·[rsp]) hg
    · rfl
  case movq => simp only [execG]; split <;> rfl
  case pshuflw => exact congrArg (·[rsp]) (vbinImm_gpr A rb (fun _ src k => pshuflw src k) ops s)
  case pshufhw => exact congrArg (·[rsp]) (vbinImm_gpr A rb (fun _ src k => pshufhw src k) ops s)
  case movzx =>
    simp only [execG]
    split
    · have hd := writesRsp_gpr hw
      split
      · exact writeGpr_rsp s _ _ _ hd
      · rfl
    · rfl
  case cmovne =>
    simp only [execG]
    split
    · have hd := writesRsp_gpr hw
      split
      · exact writeGpr_rsp s _ _ _ hd
      · rfl
    · rfl
  case add => exact gbin_rsp A rb aluAdd true _ ops s hw
  case sub => exact gbin_rsp A rb aluSub true _ ops s hw
  case and => exact gbin_rsp A rb aluAnd true _ ops s hw
  case or => exact gbin_rsp A rb aluOr true _ ops s hw
  case xor => exact gbin_rsp A rb aluXor true _ ops s hw
  case cmp => exact gbin_rsp A rb aluSub false _ ops s hw
  case test => exact gbin_rsp A rb aluAnd false _ ops s hw
  case neg =>
    simp only [execG]
    split
    · exact writeGpr_rsp s _ _ _ (writesRsp_gpr hw)
    · rfl
  case dec =>
    simp only [execG]
    split
    · exact writeGpr_rsp s _ _ _ (writesRsp_gpr hw)
    · rfl
  case shl =>
    simp only [execG]
    split
    · have hd := writesRsp_gpr hw
      split
      · rfl
      · split <;> split <;> first | rfl | exact writeGpr_rsp s _ _ _ hd
    · rfl
  case shr =>
    simp only [execG]
    split
    · have hd := writesRsp_gpr hw
      split
      · rfl
      · split <;> split <;> first | rfl | exact writeGpr_rsp s _ _ _ hd
    · rfl
  case jz => exact congrArg (·[rsp]) (jcc_gpr s.zf ops s)
  case jnz => exact congrArg (·[rsp]) (jcc_gpr (!s.zf) ops s)
  case jc => exact congrArg (·[rsp]) (jcc_gpr s.cf ops s)
  case jnc => exact congrArg (·[rsp]) (jcc_gpr (!s.cf) ops s)
  case jmp => exact congrArg (·[rsp]) (jcc_gpr true ops s)

end

/-! ### runs -/

theorem fstep_log (ro : List UInt8) (rb : UInt64) (prog : List Instr) (a : FState) :
    ∃ l, (fstep ro rb prog a).log = a.log ++ l := by
  unfold fstep
  split
  · exact ⟨[], by simp⟩
  · split
    · exact ⟨_, rfl⟩
    · exact ⟨[], by simp⟩

theorem frun_log (ro : List UInt8) (rb : UInt64) (prog : List Instr) (n : Nat) (a : FState) :
    ∃ l, (frun ro rb prog n a).log = a.log ++ l := by
  induction n generalizing a with
  | zero => exact ⟨[], by simp [frun]⟩
  | succ n ih =>
    obtain ⟨l1, h1⟩ := fstep_log ro rb prog a
    obtain ⟨l2, h2⟩ := ih (fstep ro rb prog a)
    exact ⟨l1 ++ l2, by show (frun ro rb prog n (fstep ro rb prog a)).log = _; rw [h2, h1, List.append_assoc]⟩

theorem fstep_spOk (ro : List UInt8) (rb : UInt64) (prog : List Instr) (a : FState) (h : (fstep ro rb prog a).spOk = true) :
    a.spOk = true := by
  unfold fstep at h
  split at h
  · exact h
  · split at h
    · simp only [Bool.and_eq_true] at h
      exact h.1
    · exact h

theorem frun_spOk (ro : List UInt8) (rb : UInt64) (prog : List Instr) (n : Nat) (a : FState) (h : (frun ro rb prog n a).spOk = true) :
    a.spOk = true := by
  induction n generalizing a with
  | zero => exact h
  | succ n ih => exact fstep_spOk ro rb prog a (ih _ h)

theorem fstep_sim {ro : List UInt8} {rb fb : UInt64} (C : Ctx ro rb fb) (prog : List Instr) (a : FState)
    (hI : Inv ro rb fb a.s) (hlog : ∀ r ∈ (fstep ro rb prog a).log, RefOk ro rb fb r) (hsp : (fstep ro rb prog a).spOk = true) :
    step rb prog (flatten fb a.s) = flatten fb (fstep ro rb prog a).s ∧ Inv ro rb fb (fstep ro rb prog a).s := by
  unfold step stepG
  unfold fstep at hlog hsp ⊢
  show (match a.s.status with
    | .returned => flatten fb a.s
    | .running => match prog[a.s.pc]? with
      | some i => execG flat rb i (flatten fb a.s)
      | none => { flatten fb a.s with ok := false, status := .returned }) = _ ∧ _
  cases hst : a.s.status with
  | returned =>
    simp only [hst] at hlog hsp ⊢
    exact ⟨trivial, hI⟩
  | running =>
    simp only [hst] at hlog hsp ⊢
    cases hi : prog[a.s.pc]? with
    | none =>
      simp only [hi] at hlog hsp ⊢
      unfold stepG
      simp only [hst, hi]
      exact ⟨rfl, hI⟩
    | some i =>
      simp only [hi] at hlog hsp ⊢
      simp only [Bool.and_eq_true, Bool.not_eq_true'] at hsp
      obtain ⟨h1, h2⟩ := execG_sim C i a.s hI (fun r hr => hlog r (List.mem_append_right _ hr)) hsp.2
      refine ⟨h1, ?_, h2⟩
      rw [execG_rsp (frameAcc ro) rb i a.s hsp.2]
      exact hI.1

/-- **the simulation theorem**: if the frame machine, started in `a`, never writes `rsp` during `n` steps and all the
memory references it logs are outside the frame (writes also outside `.rodata`), then THE semantics, started in the flat
state that `a` stands for, reaches after `n` steps the flat state that the frame machine's final state stands for -/
theorem frun_sim {ro : List UInt8} {rb fb : UInt64} (C : Ctx ro rb fb) (prog : List Instr) (n : Nat) (a : FState)
    (hI : Inv ro rb fb a.s) (hlog : ∀ r ∈ (frun ro rb prog n a).log, RefOk ro rb fb r)
    (hsp : (frun ro rb prog n a).spOk = true) :
    run rb prog n (flatten fb a.s) = flatten fb (frun ro rb prog n a).s ∧ Inv ro rb fb (frun ro rb prog n a).s := by
  induction n generalizing a with
  | zero => exact ⟨rfl, hI⟩
  | succ n ih =>
    have hlog' : ∀ r ∈ (fstep ro rb prog a).log, RefOk ro rb fb r := by
      intro r hr
      obtain ⟨l, hl⟩ := frun_log ro rb prog n (fstep ro rb prog a)
      apply hlog r
      show r ∈ (frun ro rb prog n (fstep ro rb prog a)).log
      rw [hl]
      exact List.mem_append_left _ hr
    have hsp' : (fstep ro rb prog a).spOk = true := frun_spOk ro rb prog n _ hsp
    obtain ⟨h1, h2⟩ := fstep_sim C prog a hI hlog' hsp'
    obtain ⟨h3, h4⟩ := ih (fstep ro rb prog a) h2 hlog hsp
    refine ⟨?_, h4⟩
    show runG flat rb prog n (stepG flat rb prog (flatten fb a.s)) = _
    have : stepG flat rb prog (flatten fb a.s) = flatten fb (fstep ro rb prog a).s := h1
    rw [this]
    exact h3

end B3.AsmSem.Many2
