/- `blake3_hash_many_sse2` between the prologue and the epilogue (instructions 10..1412), on the frame machine, for a number
of inputs divisible by four: the counter setup, the outer loop, the way through the (empty) tails; in terms of the
specification -/
import B3.Asm.Many2TopLemmas
namespace B3.AsmSem.Many2
open B3 B3.Simd B3.AsmSem B3.Gen.AsmSse2Many

theorem shl6 (B : Nat) : UInt64.ofNat B <<< UInt64.ofNat 6 = UInt64.ofNat (64 * B) := by
  apply UInt64.toNat_inj.mp
  have h6 : (UInt64.ofNat 6).toNat % 64 = 6 := by decide
  rw [UInt64.toNat_shiftLeft, h6, UInt64.toNat_ofNat', UInt64.toNat_ofNat', Nat.shiftLeft_eq]
  omega

theorem byte_trunc (b : UInt8) : (trunc .d32 b.toUInt64).toUInt32 = b.toUInt32 := by
  rw [trunc_d32_toUInt32, UInt8.toUInt32_toUInt64]

theorem RunP.step {rb : UInt64} {Q : Ref → Prop} {s t u : StateG FMem} {k : Nat} (h : RunP rb Q s t)
    (hr : Run rodata rb hash_many k t [] u) : RunP rb Q s u :=
  h.trans (RunP.of_run hr)

section
variable {M1 : Memory} {out g1 g5 inputs : UInt64} {n B : Nat} {K : CV} {P : Nat → UInt64} {Blk : Nat → Nat → St}
  {fl fs fe : UInt8}

/-- instructions 10..1412 for `n = 4 G` inputs: from the state after `and rsp, -64` to instruction 1609 (`mov rsp, rbp`) with
the chaining values of all inputs written at `out`; `rsp` and `rbp` are what they were -/
theorem frame_part (rb : UInt64) (Q : Ref → Prop) (R : Reads M1 out g1 g5 inputs n B K P Blk fs) (hB : 64 * B < 2 ^ 64) (hB0 : 0 < B)
    (hn : 32 * n < 2 ^ 64) (G : Nat) (hG : n = 4 * G)
    (counter g9 : UInt64) (incr : Bool) (h9 : g9.toUInt32 = if incr then 1 else 0)
    (hout : load64 M1 (g5 + dispU 80) = out) (hfl : M1 (g5 + dispU 56) = fl) (hfe : M1 (g5 + dispU 72) = fe)
    (hpro : ∀ r ∈ proLog g5, Q r)
    (hlog : ∀ q, q < G → ∀ r ∈ outerLog (writeBytes M1 out (outBytes K Blk B counter incr fl fs fe (4 * q))) g1 g5
      (out + UInt64.ofNat (128 * q)) (inputs + UInt64.ofNat (32 * q)) B, Q r)
    (x0 x1 x2 x3 x4 x5 x6 x7 x8 x9 x10 x11 x12 x13 x14 x15 : V4) (g0 g3 g4 g10 g11 g12 g13 g14 g15 : UInt64) (z c : Bool)
    (f0 f1 f2 f3 f4 f5 f6 f7 f8 f9 f10 f11 f12 f13 f14 f15 f16 f17 f18 f19 f20 f21 : V4) :
    ∃ (x' : Vector V4 16) (ax bx dx si di a8 a9 a10 a11 a12 a13 a14 a15 : UInt64) (z' c' : Bool) (F' : Vector V4 22),
      RunP rb Q
        (mkS #v[x0, x1, x2, x3, x4, x5, x6, x7, x8, x9, x10, x11, x12, x13, x14, x15]
          #v[g0, g1, UInt64.ofNat B, g3, g4, g5, UInt64.ofNat n, inputs, counter, g9, g10, g11, g12, g13, g14, g15] z c
          #v[f0, f1, f2, f3, f4, f5, f6, f7, f8, f9, f10, f11, f12, f13, f14, f15, f16, f17, f18, f19, f20, f21] M1 10)
        (mkS x' #v[ax, g1, dx, bx, g4, g5, si, di, a8, a9, a10, a11, a12, a13, a14, a15] z' c' F'
          (writeBytes M1 out (outBytes K Blk B counter incr fl fs fe n)) 1609) := by
  -- 10..35
  obtain ⟨xp, hp⟩ := run_of_gview (pro_raw rb x0 x1 x2 x3 x4 x5 x6 x7 x8 x9 x10 x11 x12 x13 x14 x15
    g0 g1 (UInt64.ofNat B) g3 g4 g5 (UInt64.ofNat n) inputs counter g9 g10 g11 g12 g13 g14 g15 z c
    f0 f1 f2 f3 f4 f5 f6 f7 f8 f9 f10 f11 f12 f13 f14 f15 f16 f17 f18 f19 f20 f21 M1)
  rw [hout, hfl, hfe, shl6] at hp
  have hP : RunP rb Q _ _ := ⟨_, _, hp, hpro⟩
  have h4 : (UInt64.ofNat 4).toNat = 4 := rfl
  have hnn : (UInt64.ofNat n).toNat = n := by rw [UInt64.toNat_ofNat', Nat.mod_eq_of_lt (by omega)]
  by_cases hG0 : G = 0
  · -- no input: through the tails
    subst hG0
    have hn0 : n = 0 := by omega
    subst hn0
    have hcf : decide (UInt64.ofNat 0 < UInt64.ofNat 4) = true := by decide
    rw [hcf] at hP
    have h2 := hP.step (jc_taken rb _ _ _ _ _)
    have := h2.step (tail_none rb _ _ _ _ _ _ _ (UInt64.ofNat 0) _ _ _ _ _ _ _ _ _ _ _ _ _ (by decide) (by decide))
    exact ⟨_, _, _, _, _, _, _, _, _, _, _, _, _, _, _, _, _, by simpa [outBytes, writeBytes_nil] using this⟩
  · -- at least one group
    have hcf : decide (UInt64.ofNat n < UInt64.ofNat 4) = false := by
      apply decide_eq_false
      intro hc
      have := UInt64.lt_iff_toNat_lt.mp hc
      rw [hnn, h4] at this
      omega
    rw [hcf] at hP
    have hj := hP.step (jc_not_taken rb _ _ _ _ _)
    -- the invariant holds at 37
    have hinv : OuterInv M1 out g1 g4 g5 (trunc .d32 fe.toUInt64) (trunc .d32 fl.toUInt64) inputs n B K Blk counter incr fl fs fe
        (set1 (incMask g9)) f20 (pand (set1 (incMask g9)) ADD1) 0 (UInt64.ofNat n - UInt64.ofNat 4 == 0) false 37
        (mkS xp #v[g0, g1, UInt64.ofNat B, out, g4, g5, UInt64.ofNat n, inputs, counter >>> UInt64.ofNat 32,
          trunc .d32 (trunc .d32 (0 - trunc .d32 g9)), g10, g11, trunc .d32 fe.toUInt64, trunc .d32 fl.toUInt64, g14,
          UInt64.ofNat (64 * B)] (UInt64.ofNat n - UInt64.ofNat 4 == 0) false
          #v[f0, f1, f2, f3, f4, f5, f6, f7, f8, f9, f10, f11, f12, f13, f14, f15, f16, proLo counter g9, proHi counter g9,
            set1 (incMask g9), f20, pand (set1 (incMask g9)) ADD1] M1 37) := by
      refine ⟨proLo counter g9, proHi counter g9, ?_, ?_⟩
      · have := pro_ctr counter g9 incr h9
        intro l
        have e : ctrOf counter incr (4 * 0 + l.val) = counter + (if incr then UInt64.ofNat l.val else 0) := by
          unfold ctrOf
          rw [Nat.mul_zero, Nat.zero_add]
        have hl := this l
        simp only [] at hl ⊢
        rw [e]
        exact hl
      · rw [vec16_eta xp]
        have e0 : out + UInt64.ofNat (128 * 0) = out := by rw [Nat.mul_zero, show UInt64.ofNat 0 = 0 from rfl, UInt64.add_zero]
        have e1 : inputs + UInt64.ofNat (32 * 0) = inputs := by rw [Nat.mul_zero, show UInt64.ofNat 0 = 0 from rfl, UInt64.add_zero]
        have e2 : writeBytes M1 out (outBytes K Blk B counter incr fl fs fe (4 * 0)) = M1 := by
          show writeBytes M1 out [] = M1
          exact writeBytes_nil M1 out
        rw [e0, e1, e2, Nat.mul_zero, Nat.sub_zero]
        exact ⟨_, _, _, _, _, _, _, _, _, _, _, _, _, _, _, _, _, _, _, _, _, _, _, _, _, _, _, _, _, _, _, _, _, _, _, _, _, _, _, _, rfl⟩
    obtain ⟨t, z', hloop, hend⟩ := outer_loop rb Q R hB hB0 hn g4 _ _ counter incr (set1 (incMask g9)) f20
      (pand (set1 (incMask g9)) ADD1) (inc_lane g9 incr h9) (byte_trunc fe) (byte_trunc fl) G (by omega) (by omega) hlog
      G 0 (by omega) (by omega) _ _ _ hinv
    obtain ⟨lo, hi, _, y0, y1, y2, y3, y4, y5, y6, y7, y8, y9, y10, y11, y12, y13, y14, y15, e0, e1, e2, e3, e4, e5, e6, e7, e8, e9, e10,
      e11, e12, e13, e14, e15, e16, ax, dx, b8, b9, b10, b11, r14, rfl⟩ := hend
    -- 1607, 1608
    have hz : (UInt64.ofNat (n - 4 * G) &&& UInt64.ofNat (n - 4 * G) == 0) = true := by
      have : n - 4 * G = 0 := by omega
      rw [this]
      decide
    have ht1 := (hj.trans hloop).step (test_rsi rb _ _ _ _ _ _ _ _ _ _ _ _ _ _ _ _ _ _ _ _ _)
    rw [hz] at ht1
    have := ht1.step (jnz_tail_not_taken rb _ _ _ _ _)
    have hn4 : 4 * G = n := hG.symm
    rw [hn4] at this
    exact ⟨_, _, _, _, _, _, _, _, _, _, _, _, _, _, _, _, _, this⟩

end
end B3.AsmSem.Many2
