/- the counter vectors of `blake3_hash_many_sse2`: the low / high words that the prologue (`proLo`, `proHi`) and the counter
update at the end of the outer loop (`ctrLo`, `ctrHi`) compute are the halves of 64-bit counters `counter + i` (wrapping),
or `counter` when `increment_counter` is false.  The carry into the high word is found by a signed compare of the words
xor-ed with 0x80000000 (`pcmpgtd`), i.e. an unsigned compare. -/
import B3.Asm.Many2Gpr
namespace B3.AsmSem.Many2
open B3 B3.Simd B3.AsmSem B3.Gen.AsmSse2Many

/-! ### signed compare of biased words = unsigned compare -/

theorem xor_msb_nat (n : Nat) (h : n < 2 ^ 32) : n ^^^ 2 ^ 31 = if n < 2 ^ 31 then n + 2 ^ 31 else n - 2 ^ 31 := by
  have e31 : (2 : Nat) ^ 31 = 1 <<< 31 := by decide
  by_cases hn : n < 2 ^ 31
  · rw [if_pos hn, e31, xor_eq_or_disjoint n 1 31 hn, Nat.or_comm, ← Nat.shiftLeft_add_eq_or_of_lt hn, Nat.add_comm]
  · rw [if_neg hn]
    have hy : n - 2 ^ 31 < 2 ^ 31 := by omega
    have e : n = (n - 2 ^ 31) ^^^ 2 ^ 31 := by
      conv => lhs; rw [show n = 1 <<< 31 + (n - 2 ^ 31) by omega]
      rw [Nat.shiftLeft_add_eq_or_of_lt hy, Nat.or_comm, e31, ← xor_eq_or_disjoint (n - 1 <<< 31) 1 31 (by rw [← e31]; exact hy)]
    conv => lhs; rw [e]
    rw [Nat.xor_assoc, Nat.xor_self, Nat.xor_zero]

theorem sint_bias (x : UInt32) : sint (x ^^^ 0x80000000) = (x.toNat : Int) - 2 ^ 31 := by
  unfold sint
  have hm : (0x80000000 : UInt32).toNat = 2 ^ 31 := by decide
  rw [UInt32.toNat_xor, hm, xor_msb_nat x.toNat x.toNat_lt]
  have := x.toNat_lt
  by_cases hx : x.toNat < 2 ^ 31
  · rw [if_pos hx, if_neg (by omega)]
    omega
  · rw [if_neg hx, if_pos (by omega)]
    omega

/-- `pcmpgtd` of two words xor-ed with `CMP_MSB_MASK`: all ones iff the first is above the second, unsigned -/
theorem gts32_bias (a b : UInt32) : gts32 (a ^^^ 0x80000000) (b ^^^ 0x80000000) = if b < a then 0xFFFFFFFF else 0 := by
  unfold gts32
  rw [sint_bias, sint_bias]
  by_cases h : b < a
  · have := UInt32.lt_iff_toNat_lt.mp h
    rw [if_pos (by omega), if_pos h]
  · have : ¬ b.toNat < a.toNat := fun hc => h (UInt32.lt_iff_toNat_lt.mpr hc)
    rw [if_neg (by omega), if_neg h]

/-! ### adding a 32-bit quantity to a 64-bit counter held as two words -/

theorem lo_add (t : UInt64) (d : UInt32) : (t + d.toUInt64).toUInt32 = t.toUInt32 + d := by
  rw [UInt64.toUInt32_add, UInt32.toUInt32_toUInt64]

theorem hi_nat (t : UInt64) : ((t >>> 32).toUInt32).toNat = t.toNat / 2 ^ 32 := by
  have h32 : (32 : UInt64).toNat % 64 = 32 := by decide
  rw [UInt64.toNat_toUInt32, UInt64.toNat_shiftRight, h32, Nat.shiftRight_eq_div_pow]
  have := t.toNat_lt
  omega

/-- the high word after the addition: plus one exactly when the low word wrapped, which shows as `lo' < lo` -/
theorem hi_add (t : UInt64) (d : UInt32) :
    ((t + d.toUInt64) >>> 32).toUInt32
      = (t >>> 32).toUInt32 - (if t.toUInt32 + d < t.toUInt32 then 0xFFFFFFFF else 0) := by
  apply UInt32.toNat_inj.mp
  rw [hi_nat, UInt64.toNat_add, UInt32.toNat_toUInt64, UInt32.toNat_sub, hi_nat]
  have ht := t.toNat_lt
  have hd := d.toNat_lt
  have hlo : (t.toUInt32 + d).toNat = (t.toNat % 2 ^ 32 + d.toNat) % 2 ^ 32 := by
    rw [UInt32.toNat_add, UInt64.toNat_toUInt32]
  have hl : t.toUInt32.toNat = t.toNat % 2 ^ 32 := UInt64.toNat_toUInt32 t
  by_cases h : t.toUInt32 + d < t.toUInt32
  · have h' := UInt32.lt_iff_toNat_lt.mp h
    rw [hlo, hl] at h'
    rw [if_pos h]
    have : (0xFFFFFFFF : UInt32).toNat = 2 ^ 32 - 1 := by decide
    rw [this]
    omega
  · have h' : ¬ (t.toUInt32 + d).toNat < t.toUInt32.toNat := fun hc => h (UInt32.lt_iff_toNat_lt.mpr hc)
    rw [hlo, hl] at h'
    rw [if_neg h]
    have : (0 : UInt32).toNat = 0 := rfl
    rw [this]
    omega

/-- the same carry seen from the addend: `lo' < d` -/
theorem wrap_iff (a d : UInt32) : (a + d < d) = (a + d < a) := by
  apply propext
  rw [UInt32.lt_iff_toNat_lt, UInt32.lt_iff_toNat_lt, UInt32.toNat_add]
  have := a.toNat_lt
  have := d.toNat_lt
  omega

theorem wrap_ite (a d x y : UInt32) : (if a + d < d then x else y) = if a + d < a then x else y := by
  have h := wrap_iff a d
  by_cases h1 : a + d < d
  · rw [if_pos h1, if_pos (h ▸ h1)]
  · rw [if_neg h1, if_neg (fun hc => h1 (h ▸ hc))]

/-! ### the counter vectors -/

/-- lanes `lo`, `hi` hold the halves of the 64-bit counters `t 0 .. t 3` -/
def CtrVec (t : Fin 4 → UInt64) (lo hi : V4) : Prop := ∀ l : Fin 4, lo[l] = (t l).toUInt32 ∧ hi[l] = ((t l) >>> 32).toUInt32

theorem trunc_d32_toUInt32' (x : UInt64) : (trunc .d32 x).toUInt32 = x.toUInt32 := by
  show x.toUInt32.toUInt64.toUInt32 = x.toUInt32
  exact UInt32.toUInt32_toUInt64 _

theorem incMask_eq (g9 : UInt64) : incMask g9 = 0 - g9.toUInt32 := by
  unfold incMask
  rw [trunc_d32_toUInt32', trunc_d32_toUInt32', UInt64.toUInt32_sub, trunc_d32_toUInt32']
  rfl

/-- the mask `0 - increment_counter` for a clean boolean -/
theorem incMask_bool (g9 : UInt64) (incr : Bool) (h : g9.toUInt32 = if incr then 1 else 0) :
    incMask g9 = if incr then 0xFFFFFFFF else 0 := by
  rw [incMask_eq, h]
  cases incr <;> rfl

/-- what the prologue puts in slots 17 / 18: the counters `counter + l` (lane `l`) when incrementing, `counter` otherwise -/
theorem pro_ctr (g8 g9 : UInt64) (incr : Bool) (h : g9.toUInt32 = if incr then 1 else 0) :
    CtrVec (fun l => g8 + (if incr then UInt64.ofNat l.val else 0)) (proLo g8 g9) (proHi g8 g9) := by
  intro l
  unfold proHi proLo
  rw [incMask_bool g9 incr h]
  cases incr
  · -- no increment: the mask is zero
    have e : ∀ l : Fin 4, (pand (set1 0) ADD0)[l] = 0 := by intro l; match l with | 0 | 1 | 2 | 3 => rfl
    have hlo : (_mm_add_epi32 (set1 g8.toUInt32) (pand (set1 0) ADD0))[l] = g8.toUInt32 := by
      match l with | 0 | 1 | 2 | 3 => exact UInt32.add_zero _
    refine ⟨by simpa using hlo, ?_⟩
    have hhi : (psubd (set1 (g8 >>> UInt64.ofNat 32).toUInt32)
        (pcmpgtd (_mm_xor_si128 (pand (set1 0) ADD0) CMP_MSB_MASK)
          (_mm_xor_si128 (_mm_add_epi32 (set1 g8.toUInt32) (pand (set1 0) ADD0)) CMP_MSB_MASK)))[l]
        = (g8 >>> UInt64.ofNat 32).toUInt32 - gts32 ((0 : UInt32) ^^^ 0x80000000) ((g8.toUInt32 + 0) ^^^ 0x80000000) := by
      match l with | 0 | 1 | 2 | 3 => rfl
    simp only [Bool.false_eq_true, if_false, UInt64.add_zero]
    rw [hhi, gts32_bias, if_neg (by intro hc; exact absurd (UInt32.lt_iff_toNat_lt.mp hc) (by simp)), UInt32.sub_zero]
    rfl
  · -- increment: lane `l` adds `l`
    have hlo : (_mm_add_epi32 (set1 g8.toUInt32) (pand (set1 0xFFFFFFFF) ADD0))[l] = g8.toUInt32 + UInt32.ofNat l.val := by
      match l with | 0 | 1 | 2 | 3 => rfl
    have hhi : (psubd (set1 (g8 >>> UInt64.ofNat 32).toUInt32)
        (pcmpgtd (_mm_xor_si128 (pand (set1 0xFFFFFFFF) ADD0) CMP_MSB_MASK)
          (_mm_xor_si128 (_mm_add_epi32 (set1 g8.toUInt32) (pand (set1 0xFFFFFFFF) ADD0)) CMP_MSB_MASK)))[l]
        = (g8 >>> UInt64.ofNat 32).toUInt32
            - gts32 (UInt32.ofNat l.val ^^^ 0x80000000) ((g8.toUInt32 + UInt32.ofNat l.val) ^^^ 0x80000000) := by
      match l with | 0 | 1 | 2 | 3 => rfl
    have hd : UInt64.ofNat l.val = (UInt32.ofNat l.val).toUInt64 := by
      match l with | 0 | 1 | 2 | 3 => rfl
    simp only [if_true]
    rw [hlo, hhi, gts32_bias, hd, lo_add, hi_add, wrap_ite]
    exact ⟨rfl, rfl⟩

/-- the increment vector in slot 21: four (all lanes) when incrementing, zero otherwise -/
theorem inc_lane (g9 : UInt64) (incr : Bool) (h : g9.toUInt32 = if incr then 1 else 0) (l : Fin 4) :
    (pand (set1 (incMask g9)) ADD1)[l] = if incr then 4 else 0 := by
  rw [incMask_bool g9 incr h]
  cases incr <;> (match l with | 0 | 1 | 2 | 3 => rfl)

/-- the counter update at the end of an outer iteration adds the increment lane to every 64-bit counter -/
theorem ctr_step (t : Fin 4 → UInt64) (lo hi inc : V4) (h : CtrVec t lo hi) :
    CtrVec (fun l => t l + (inc[l]).toUInt64) (ctrLo lo inc) (ctrHi lo hi inc) := by
  intro l
  have hlo : (ctrLo lo inc)[l] = lo[l] + inc[l] := by
    match l with | 0 | 1 | 2 | 3 => rfl
  have hhi : (ctrHi lo hi inc)[l] = hi[l] - gts32 (lo[l] ^^^ 0x80000000) ((lo[l] + inc[l]) ^^^ 0x80000000) := by
    match l with | 0 | 1 | 2 | 3 => rfl
  rw [hlo, hhi, gts32_bias, (h l).1, (h l).2, lo_add, hi_add]
  exact ⟨rfl, rfl⟩

end B3.AsmSem.Many2
