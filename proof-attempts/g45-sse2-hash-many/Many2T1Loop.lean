/- the 1-input tail of `blake3_hash_many_sse2` on the frame machine, composed: the seven rounds counted in `al`, one block,
the loop over the blocks -/
import B3.Asm.Many2T1b
import B3.Asm.Many2Loop
namespace B3.AsmSem.Many2
open B3 B3.Simd B3.AsmSem B3.Gen.AsmSse2Many

/-- `k` rounds with the message permuted in between -/
def roundsK : Nat → St → St → St
  | 0, s, _ => s
  | k + 1, s, w => roundsK k (Spec.round s w) (Spec.permute w)

theorem roundsK7 (s w : St) : roundsK 7 s w = Spec.rounds7 s w := rfl

theorem roundP_round (S W : St) : roundP a16 a12 a8 a7 (eta16 S) (fun i => (eta16 W)[i]) = Spec.round S W := by
  rw [eta16_eq, eta16_eq, roundP_eq a16 a12 a8 a7 a16_eq a12_eq a8_eq a7_eq]
  rfl

/-- the machine inside the round loop of the 1-input tail: state rows in XMM0-3, grouped message words in XMM4-7,
XMM13 and XMM15 kept, XMM8-12 and XMM14 anything -/
def T1Rounds (S W : St) (x13 x15 : V4) (g : Vector UInt64 16) (z c : Bool) (F : Vector V4 22) (m : Memory) (pc : Nat)
    (s : StateG FMem) : Prop :=
  ∃ j8 j9 j10 j11 j12 j14 : V4,
    s = mkS #v[row S 0, row S 1, row S 2, row S 3, grp0 W, grp1 W, grp2 W, grp3 W, j8, j9, j10, j11, j12, x13, j14, x15] g z c F m pc

theorem dec_zf (a : UInt64) (k : Nat) (hk1 : 1 ≤ k) (hk7 : k ≤ 7) (h : a.toUInt8 = UInt8.ofNat k) :
    (trunc .b8 (trunc .b8 a - 1) == 0) = decide (k = 1) := by
  rw [dec_b8_zf, h]
  have : k = 1 ∨ k = 2 ∨ k = 3 ∨ k = 4 ∨ k = 5 ∨ k = 6 ∨ k = 7 := by omega
  rcases this with rfl | rfl | rfl | rfl | rfl | rfl | rfl <;> decide

theorem ofNat_pred8 (k : Nat) (hk : k ≤ 6) : UInt8.ofNat (k + 1) - 1 = UInt8.ofNat k := by
  have : k = 0 ∨ k = 1 ∨ k = 2 ∨ k = 3 ∨ k = 4 ∨ k = 5 ∨ k = 6 := by omega
  rcases this with rfl | rfl | rfl | rfl | rfl | rfl | rfl <;> decide

/-- the rounds of the 1-input tail: with `al = k` at the loop head, `k` rounds (and `k - 1` message permutations) lead to 1975 -/
theorem t1_rounds (rb : UInt64) (x13 x15 : V4) (F : Vector V4 22) (m : Memory) (k : Nat) :
    ∀ (S W : St) (g : Vector UInt64 16) (z c : Bool) (s : StateG FMem), 1 ≤ k → k ≤ 7 → g[rax].toUInt8 = UInt8.ofNat k →
      T1Rounds S W x13 x15 g z c F m 1897 s →
      ∃ (n : Nat) (t : StateG FMem) (g' : Vector UInt64 16) (W' : St),
        Run rodata rb hash_many n s [] t ∧ T1Rounds (roundsK k S W) W' x13 x15 g' true c F m 1975 t ∧ ∀ r : Reg, r ≠ rax → g'[r] = g[r] := by
  induction k with
  | zero => intro S W g z c s h1; omega
  | succ k ih =>
    intro S W g z c s _ hk7 hal hs
    obtain ⟨j8, j9, j10, j11, j12, j14, rfl⟩ := hs
    -- one round
    obtain ⟨a8, a9, a10, a11, a12, a14, h1⟩ := run_of_tview2 (t1_round_raw rb S W j8 j9 j10 j11 j12 x13 j14 x15 g z c F m)
    rw [roundP_round] at h1
    -- dec al
    have h2 := h1.trans_nil (t1_dec rb _ _ _ _ _ _)
    rw [dec_zf g[rax] (k + 1) (by omega) hk7 hal] at h2
    have hal' : (decAl g)[rax].toUInt8 = UInt8.ofNat k := by
      rw [decAl_low, hal, ofNat_pred8 k (by omega)]
    by_cases hk : k = 0
    · -- the last round
      subst hk
      have h3 := h2.trans_nil (t1_jz_taken rb _ _ _ _ _)
      exact ⟨_, _, decAl g, W, h3, ⟨a8, a9, a10, a11, a12, a14, rfl⟩, fun r hr => decAl_ne g r hr⟩
    · have hd : decide (k + 1 = 1) = false := decide_eq_false (by omega)
      rw [hd] at h2
      have h3 := h2.trans_nil (t1_jz_not_taken rb _ _ _ _ _)
      obtain ⟨b8, b9, b10, b11, b12, b14, h4⟩ := run_of_tview2 (t1_perm_raw rb (row (Spec.round S W) 0) (row (Spec.round S W) 1)
        (row (Spec.round S W) 2) (row (Spec.round S W) 3) (grp0 W) (grp1 W) (grp2 W) (grp3 W) a8 a9 a10 a11 a12 x13 a14 x15 (decAl g) false c F m)
      rw [permMasked_eq2] at h4
      obtain ⟨n, t, g', W', h5, ht, hg⟩ := ih (Spec.round S W) (Spec.permute W) (decAl g) false c _ (by omega) (by omega) hal'
        ⟨b8, b9, b10, b11, b12, b14, rfl⟩
      exact ⟨_, t, g', W', (h3.trans_nil h4).trans_nil h5, ht, fun r hr => (hg r hr).trans (decAl_ne g r hr)⟩


/-! ### one block -/

def cvRow0 (H : CV) : V4 := #v[H[0], H[1], H[2], H[3]]
def cvRow1 (H : CV) : V4 := #v[H[4], H[5], H[6], H[7]]

/-- the machine at the block loop head of the 1-input tail (`pc = 1872`) or after it (`pc = 1980`): the chaining value in
XMM0/1, the counter row (lanes 0..2 of XMM13), the tables, the registers that the loop changes (`rax rdx r14`) -/
def T1State (H : CV) (lo hi : UInt32) (ax dx : UInt64) (g1 g3 g4 g5 g6 g7 g8 g9 g10 g11 g12 g13 g15 : UInt64)
    (F : Vector V4 22) (m : Memory) (pc : Nat) (s : StateG FMem) : Prop :=
  ∃ (x2 x3 x4 x5 x6 x7 x8 x9 x10 x11 x12 : V4) (j2 j3 : UInt32) (x14 x15 : V4) (r14 : UInt64) (z c : Bool),
    s = mkS #v[cvRow0 H, cvRow1 H, x2, x3, x4, x5, x6, x7, x8, x9, x10, x11, x12, #v[lo, hi, j2, j3], x14, x15]
      #v[ax, g1, dx, g3, g4, g5, g6, g7, g8, g9, g10, g11, g12, g13, r14, g15] z c F m pc

theorem t1Rax_p0_lo (a b : UInt64) (l : Bool) : (t1Rax (p0Rax a b l)).toUInt32 = 64 := t1Rax_lo _
theorem t1Rax_p0_hi (a b : UInt64) (l : Bool) : (t1Rax (p0Rax a b l) >>> 32).toUInt32 = (p0Rax a b l).toUInt32 := t1Rax_hi _

theorem xor_rows (S : St) :
    _mm_xor_si128 (row S 0) (row S 2) = cvRow0 (ffw S) ∧ _mm_xor_si128 (row S 1) (row S 3) = cvRow1 (ffw S) := ⟨rfl, rfl⟩

theorem merge7_low (a : UInt64) : (merge .b8 a (UInt64.ofNat 7)).toUInt8 = UInt8.ofNat 7 := by
  rw [merge_b8_low]
  rfl

theorem t1_sub_zero (dx g15 : UInt64) : (dx + UInt64.ofNat 64 - g15 == 0) = lastBlock dx g15 := rfl

/-- **one block of the 1-input tail**: instructions 1651..1742 -/
theorem t1_block_iter (rb : UInt64) (H : CV) (lo hi : UInt32) (ax dx g1 g3 g4 g5 g6 g7 g8 g9 g10 g11 g12 g13 g15 : UInt64)
    (F : Vector V4 22) (m : Memory) (s : StateG FMem)
    (hs : T1State H lo hi ax dx g1 g3 g4 g5 g6 g7 g8 g9 g10 g11 g12 g13 g15 F m 1872 s) :
    ∃ (n : Nat) (t : StateG FMem), Run rodata rb hash_many n s (t1HeadLog (g8 + (dx + UInt64.ofNat 64))) t ∧
      T1State (laneCV H (blk m (g8 + (dx + UInt64.ofNat 64))) lo hi (p0Rax ax g12 (lastBlock dx g15)).toUInt32) lo hi
        (trunc .d32 (trunc .d32 g13)) (dx + UInt64.ofNat 64) g1 g3 g4 g5 g6 g7 g8 g9 g10 g11 g12 g13 g15 F m
        (if lastBlock dx g15 then 1980 else 1872) t := by
  obtain ⟨x2, x3, x4, x5, x6, x7, x8, x9, x10, x11, x12, j2, j3, x14, x15, r14, z, c, rfl⟩ := hs
  -- head
  obtain ⟨a8, a9, a10, a11, a12, a14, h1⟩ := run_of_tview2 (t1_head_raw rb (cvRow0 H) (cvRow1 H) x2 x3 x4 x5 x6 x7 x8 x9 x10 x11 x12 x14 x15
    lo hi j2 j3 ax g1 dx g3 g4 g5 g6 g7 g8 g9 g10 g11 g12 g13 r14 g15 z c F m)
  rw [t1Rax_p0_lo, t1Rax_p0_hi] at h1
  -- the seven rounds
  obtain ⟨n, t, g', W', h2, ⟨b8, b9, b10, b11, b12, b14, rfl⟩, hg⟩ := t1_rounds rb #v[lo, hi, j2, j3] x15 F m 7
    (initW H lo hi 64 (p0Rax ax g12 (lastBlock dx g15)).toUInt32) (blk m (g8 + (dx + UInt64.ofNat 64)))
    #v[merge .b8 (t1Rax (p0Rax ax g12 (lastBlock dx g15))) (UInt64.ofNat 7), g1, dx + UInt64.ofNat 64, g3, g4, g5, g6, g7, g8, g9, g10, g11, g12, g13, trunc .d32 (trunc .d32 ax), g15]
    (t1Rax (p0Rax ax g12 (lastBlock dx g15)) == 0) false _
    (by omega) (by omega) (merge7_low _) ⟨a8, a9, a10, a11, a12, a14, rfl⟩
  rw [roundsK7] at h2
  -- the registers after the rounds, spelled out
  have hg' : g' = #v[g'[0], g1, dx + UInt64.ofNat 64, g3, g4, g5, g6, g7, g8, g9, g10, g11, g12, g13,
      trunc .d32 (trunc .d32 ax), g15] := by
    have e1 : g'[1] = g1 := hg rcx (by decide)
    have e2 : g'[2] = dx + UInt64.ofNat 64 := hg rdx (by decide)
    have e3 : g'[3] = g3 := hg rbx (by decide)
    have e4 : g'[4] = g4 := hg rsp (by decide)
    have e5 : g'[5] = g5 := hg rbp (by decide)
    have e6 : g'[6] = g6 := hg rsi (by decide)
    have e7 : g'[7] = g7 := hg rdi (by decide)
    have e8 : g'[8] = g8 := hg r8 (by decide)
    have e9 : g'[9] = g9 := hg r9 (by decide)
    have e10 : g'[10] = g10 := hg r10 (by decide)
    have e11 : g'[11] = g11 := hg r11 (by decide)
    have e12 : g'[12] = g12 := hg r12 (by decide)
    have e13 : g'[13] = g13 := hg r13 (by decide)
    have e14 : g'[14] = trunc .d32 (trunc .d32 ax) := hg B3.AsmSem.r14 (by decide)
    have e15 : g'[15] = g15 := hg r15 (by decide)
    conv => lhs; rw [vec16_eta g']
    rw [e1, e2, e3, e4, e5, e6, e7, e8, e9, e10, e11, e12, e13, e14, e15]
  rw [hg'] at h2
  -- feed-forward, `mov eax, r13d`, `cmp rdx, r15`
  have h3 := (h1.trans_nil h2).trans_nil (t1_exit_raw rb _ _ _ _ _ _ _ _ _ _ _ _ _ _ _ _ _ _ _ _ _ _ _ _ _ _ _ _ _ _ _ _ _ _ _ _)
  rw [t1_sub_zero] at h3
  rw [(xor_rows _).1, (xor_rows _).2] at h3
  cases hl : lastBlock dx g15 with
  | false =>
    rw [hl] at h3
    have h4 := h3.trans_nil (t1_jnz_taken rb _ _ _ _ _)
    exact ⟨_, _, h4, _, _, _, _, _, _, _, _, _, _, _, _, _, _, _, _, _, _, rfl⟩
  | true =>
    rw [hl] at h3
    have h4 := h3.trans_nil (t1_jnz_not_taken rb _ _ _ _ _)
    exact ⟨_, _, h4, _, _, _, _, _, _, _, _, _, _, _, _, _, _, _, _, _, _, rfl⟩


/-! ### the loop over the blocks -/

/-- the loads of the remaining `n` blocks -/
def t1LoopLog (p : UInt64) : Nat → Nat → List Ref
  | 0, _ => []
  | n + 1, j => t1HeadLog (p + UInt64.ofNat (64 * (j + 1))) ++ t1LoopLog p n (j + 1)

/-- **the block loop of the 1-input tail**: from 1872 with `j` of the `B` blocks done, the remaining `n = B - j` iterations lead
to 1980 with the chaining value folded over the remaining blocks -/
theorem t1_loop (rb : UInt64) (B : Nat) (hB : 64 * B < 2 ^ 64) (lo hi : UInt32) (g1 g3 g4 g5 g6 g7 g8 g9 g10 g11 g12 g13 : UInt64)
    (F : Vector V4 22) (m : Memory) (n : Nat) :
    ∀ (j : Nat) (_ : j + n = B) (_ : 0 < n) (H : CV) (ax : UInt64) (s : StateG FMem),
      T1State H lo hi ax (UInt64.ofNat (64 * j)) g1 g3 g4 g5 g6 g7 g8 g9 g10 g11 g12 g13 (UInt64.ofNat (64 * B)) F m 1872 s →
      ∃ (k : Nat) (t : StateG FMem), Run rodata rb hash_many k s (t1LoopLog g8 n j) t ∧
        T1State (loopCV m g8 lo hi g13.toUInt32 g12.toUInt32 B n j ax.toUInt32 H) lo hi (trunc .d32 (trunc .d32 g13))
          (UInt64.ofNat (64 * B)) g1 g3 g4 g5 g6 g7 g8 g9 g10 g11 g12 g13 (UInt64.ofNat (64 * B)) F m 1980 t := by
  induction n with
  | zero => intro j _ h0; omega
  | succ n ih =>
    intro j hj _ H ax s hs
    obtain ⟨k1, t1, hrun, ht1⟩ := t1_block_iter rb H lo hi ax (UInt64.ofNat (64 * j)) g1 g3 g4 g5 g6 g7 g8 g9 g10 g11 g12 g13
      (UInt64.ofNat (64 * B)) F m s hs
    rw [lastBlock_eq B j hB (by omega), ofNat_add_64, p0Rax_toUInt32] at ht1
    rw [ofNat_add_64] at hrun
    by_cases hlast : j + 1 = B
    · have hn : n = 0 := by omega
      subst hn
      subst hlast
      simp only [decide_true, if_true] at ht1
      refine ⟨k1, t1, ?_, ?_⟩
      · show Run rodata rb hash_many k1 s (t1HeadLog (g8 + UInt64.ofNat (64 * (j + 1))) ++ []) t1
        rw [List.append_nil]
        exact hrun
      · simp only [loopCV, if_true]
        exact ht1
    · simp only [hlast, decide_false, Bool.false_eq_true, if_false] at ht1
      obtain ⟨k2, t2, hrun2, ht2⟩ := ih (j + 1) (by omega) (by omega) _ _ t1 ht1
      refine ⟨k1 + k2, t2, hrun.trans hrun2, ?_⟩
      simp only [loopCV, hlast, if_false]
      simp only [trunc_d32_toUInt32] at ht2
      exact ht2

end B3.AsmSem.Many2
