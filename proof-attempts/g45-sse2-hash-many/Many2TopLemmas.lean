/- lemmas for the final composition of `blake3_hash_many_sse2`: the frame of an arbitrary memory, the scratch area below
the entry `rsp`, what the loads of the routine read in terms of the entry memory -/
import B3.Asm.Many2Regions
import B3.Asm.Many2OuterLoop
namespace B3.AsmSem.Many2
open B3 B3.Simd B3.AsmSem B3.Gen.AsmSse2Many

/-! ### any memory is a memory with a frame in it -/

/-- the 22 slots that memory `m` holds at `fb` -/
def frameOf (m : Memory) (fb : UInt64) : Vector V4 22 := Vector.ofFn fun i : Fin 22 => load128 m (fb + UInt64.ofNat (16 * i.val))

theorem byte128_load128 (m : Memory) (a : UInt64) (k : Nat) (hk : k < 16) : byte128 (load128 m a) k = m (a + UInt64.ofNat k) := by
  rw [load128_unfold]
  have hb : ∀ (x : UInt64), byteOf (m.word x) 0 = m x ∧ byteOf (m.word x) 1 = m (x + UInt64.ofNat 1)
      ∧ byteOf (m.word x) 2 = m (x + UInt64.ofNat 2) ∧ byteOf (m.word x) 3 = m (x + UInt64.ofNat 3) := by
    intro x
    rw [word_unfold]
    exact bytes_le32 _ _ _ _
  have z : a + UInt64.ofNat 0 = a := by rw [show UInt64.ofNat 0 = 0 from rfl, UInt64.add_zero]
  match k, hk with
  | 0, _ => rw [z]; exact (hb a).1
  | 1, _ => exact (hb a).2.1
  | 2, _ => exact (hb a).2.2.1
  | 3, _ => exact (hb a).2.2.2
  | 4, _ => have := (hb (a + UInt64.ofNat 4)).1; exact this
  | 5, _ => have := (hb (a + UInt64.ofNat 4)).2.1; rw [addr_add] at this; exact this
  | 6, _ => have := (hb (a + UInt64.ofNat 4)).2.2.1; rw [addr_add] at this; exact this
  | 7, _ => have := (hb (a + UInt64.ofNat 4)).2.2.2; rw [addr_add] at this; exact this
  | 8, _ => have := (hb (a + UInt64.ofNat 8)).1; exact this
  | 9, _ => have := (hb (a + UInt64.ofNat 8)).2.1; rw [addr_add] at this; exact this
  | 10, _ => have := (hb (a + UInt64.ofNat 8)).2.2.1; rw [addr_add] at this; exact this
  | 11, _ => have := (hb (a + UInt64.ofNat 8)).2.2.2; rw [addr_add] at this; exact this
  | 12, _ => have := (hb (a + UInt64.ofNat 12)).1; exact this
  | 13, _ => have := (hb (a + UInt64.ofNat 12)).2.1; rw [addr_add] at this; exact this
  | 14, _ => have := (hb (a + UInt64.ofNat 12)).2.2.1; rw [addr_add] at this; exact this
  | 15, _ => have := (hb (a + UInt64.ofNat 12)).2.2.2; rw [addr_add] at this; exact this
  | n + 16, h => omega

theorem frameMem_self (m : Memory) (fb : UInt64) : frameMem fb (frameOf m fb) m = m := by
  funext p
  unfold frameMem
  by_cases h : (p - fb).toNat < 352
  · rw [if_pos h]
    have hs : slot (frameOf m fb) ((p - fb).toNat / 16) = load128 m (fb + UInt64.ofNat (16 * ((p - fb).toNat / 16))) := by
      unfold slot frameOf
      rw [dif_pos (by omega), Vector.getElem_ofFn]
    rw [hs, byte128_load128 _ _ _ (Nat.mod_lt _ (by decide)), addr_add]
    have e : 16 * ((p - fb).toNat / 16) + (p - fb).toNat % 16 = (p - fb).toNat := Nat.div_add_mod _ 16
    rw [e, UInt64.ofNat_toNat, UInt64.add_comm, UInt64.sub_add_cancel]
  · rw [if_neg h]

/-! ### the key and the blocks as words of memory -/

theorem keyRaw_eq (m : Memory) (p : UInt64) : keyRaw m p = readWords m p 8 := by
  apply Vector.ext
  intro i hi
  simp only [readWords, Vector.getElem_ofFn]
  have z : p + dispU 0 = p := by
    show p + UInt64.ofNat 0 = p
    rw [show UInt64.ofNat 0 = 0 from rfl, UInt64.add_zero]
  have e16 : p + dispU 16 = p + UInt64.ofNat 16 := rfl
  unfold keyRaw
  rw [z, e16, load128_unfold, load128_unfold]
  match i, hi with
  | 0, _ => show m.word p = m.word (p + UInt64.ofNat 0); rw [show UInt64.ofNat 0 = 0 from rfl, UInt64.add_zero]
  | 1, _ => rfl
  | 2, _ => rfl
  | 3, _ => rfl
  | 4, _ => rfl
  | 5, _ => show m.word (p + UInt64.ofNat 16 + UInt64.ofNat 4) = m.word (p + UInt64.ofNat 20); rw [addr_add]
  | 6, _ => show m.word (p + UInt64.ofNat 16 + UInt64.ofNat 8) = m.word (p + UInt64.ofNat 24); rw [addr_add]
  | 7, _ => show m.word (p + UInt64.ofNat 16 + UInt64.ofNat 12) = m.word (p + UInt64.ofNat 28); rw [addr_add]
  | n + 8, h => omega

/-! ### the scratch area: the 472 bytes below the entry `rsp` (six pushes, alignment slack, the frame) -/

/-- start of the scratch area -/
def scratch (sp : UInt64) : UInt64 := sp - UInt64.ofNat 472

theorem scratch_toNat (sp : UInt64) (h : 512 ≤ sp.toNat) : (scratch sp).toNat = sp.toNat - 472 := by
  unfold scratch
  have e : (UInt64.ofNat 472).toNat = 472 := rfl
  have := sp.toNat_lt
  rw [UInt64.toNat_sub, e]
  omega

/-- bytes outside the scratch area are outside the frame -/
theorem outside_frame_of_scratch (sp : UInt64) (h : 512 ≤ sp.toNat) (q : UInt64) (k : Nat)
    (hq : OutsideRo (scratch sp) 472 q k) : Outside (frameBase sp) q k := by
  obtain ⟨_, hlo, hhi⟩ := frameBase_spec sp h
  intro i hi
  have := hq i hi
  have hs := scratch_toNat sp h
  have e : (q + UInt64.ofNat i - frameBase sp).toNat
      = ((q + UInt64.ofNat i - scratch sp).toNat + (2 ^ 64 - ((frameBase sp).toNat - (scratch sp).toNat))) % 2 ^ 64 := by
    rw [UInt64.toNat_sub, UInt64.toNat_sub]
    have := (q + UInt64.ofNat i).toNat_lt
    have := (frameBase sp).toNat_lt
    have := (scratch sp).toNat_lt
    omega
  rw [e]
  have hx := (q + UInt64.ofNat i - scratch sp).toNat_lt
  omega

/-- a byte inside the frame is inside the scratch area -/
theorem frame_in_scratch (sp : UInt64) (h : 512 ≤ sp.toNat) (p : UInt64) (hp : (p - frameBase sp).toNat < 352) :
    (p - scratch sp).toNat < 472 - 56 := by
  obtain ⟨_, hlo, hhi⟩ := frameBase_spec sp h
  have hs := scratch_toNat sp h
  have e : (p - scratch sp).toNat = ((p - frameBase sp).toNat + ((frameBase sp).toNat - (scratch sp).toNat)) % 2 ^ 64 := by
    rw [UInt64.toNat_sub, UInt64.toNat_sub]
    have := p.toNat_lt
    have := (frameBase sp).toNat_lt
    have := (scratch sp).toNat_lt
    omega
  rw [e]
  omega

/-- the address `sp - d` seen from the scratch area -/
theorem sub_scratch (sp : UInt64) (h : 512 ≤ sp.toNat) (q : UInt64) (d : Nat) (hd : d ≤ 472) (hq : q.toNat = sp.toNat - d) :
    (q - scratch sp).toNat = 472 - d := by
  have hs := scratch_toNat sp h
  rw [UInt64.toNat_sub, hq, hs]
  have := sp.toNat_lt
  omega

end B3.AsmSem.Many2
