/-
The second instance of the instruction semantics `execG` of `B3/Asm/Many2Sem.lean`, used only in
proofs: the machine with the 352-byte stack frame `[rsp, rsp + 0x160)` of `blake3_hash_many_sse2`
held apart from the rest of memory, as 22 vectors.  Accesses through `[rsp + d]` operands (no index
register, `0 ≤ d`, inside the frame) go to those vectors, decided by the SYNTAX of the operand, so
that straight-line pieces can be evaluated in the kernel (`kernel_rfl`) for a symbolic `rsp`; every
other memory access goes to the rest of memory and is logged.  `B3/Asm/Many2FrameSim.lean` proves
that a run of this machine IS a run of the flat semantics (`run`) on the memory in which the frame
lies at `rsp`, provided `rsp` is not written and the logged accesses lie outside the frame.

Nothing here is trusted: the definitions only matter through `frun_sim`.
-/
import B3.Asm.Many2Sem
import B3.Asm.Lemmas
namespace B3.AsmSem.Many2
open B3 B3.Simd

/- size of the frame in bytes: 352 (`sub rsp, 360; and rsp, -64` reserves at least 360; the code uses `[rsp, rsp+0x160)`) -/

/-- the frame (22 slots of 16 bytes) and the rest of memory -/
structure FMem where
  frame : Vector V4 22
  mem : Memory

def slot (F : Vector V4 22) (k : Nat) : V4 := if h : k < 22 then F[k] else #v[0, 0, 0, 0]

def setSlot (F : Vector V4 22) (k : Nat) (v : V4) : Vector V4 22 := if h : k < 22 then F.set k v else F

/-- lane `j` of a vector (lane 3 for `j ≥ 3`) -/
def laneOf (v : V4) (j : Nat) : UInt32 :=
  match j with
  | 0 => v[0]
  | 1 => v[1]
  | 2 => v[2]
  | _ => v[3]

/-- the doubleword at byte offset `e` (a multiple of 4) of the frame -/
def dwordAt (F : Vector V4 22) (e : Nat) : UInt32 := laneOf (slot F (e / 16)) (e % 16 / 4)

/-- `[rsp + d]`, no index, `d ≥ 0` a multiple of 4, `n` bytes inside the frame: the offset `d` -/
def frameOff (o : Operand) (n : Nat) : Option Nat :=
  match o with
  | .mem _ b none (.ofNat d) => if b = rsp ∧ d % 4 = 0 ∧ d + n ≤ 352 then some d else none
  | _ => none

/-- (SSE2 routine) `[rsp + sc*index + d]`, `d ≥ 0`, with the index register holding `iv`: the offset `d + sc * iv` if it is a
multiple of 4 and the 4 bytes lie inside the frame -/
def frameOffS (o : Operand) (iv : UInt64) : Option Nat :=
  match o with
  | .memS _ b _ sc (.ofNat d) =>
    if b = rsp ∧ (d + sc * iv.toNat) % 4 = 0 ∧ d + sc * iv.toNat + 4 ≤ 352 then some (d + sc * iv.toNat) else none
  | _ => none

/-- lane `j` of a vector replaced (lane 3 for `j ≥ 3`) -/
def setLane (v : V4) (j : Nat) (x : UInt32) : V4 :=
  match j with
  | 0 => #v[x, v[1], v[2], v[3]]
  | 1 => #v[v[0], x, v[2], v[3]]
  | 2 => #v[v[0], v[1], x, v[3]]
  | _ => #v[v[0], v[1], v[2], x]

/-- `[label + rip]` with `n` bytes inside the `.rodata` section `ro`: the offset of the label -/
def ripOff (ro : List UInt8) (o : Operand) (n : Nat) : Option Nat :=
  match o with
  | .rip _ off => if off + n ≤ ro.length then some off else none
  | _ => none

/-- the doubleword at offset `o` of the byte list -/
def roWord (ro : List UInt8) (o : Nat) : UInt32 := le32 (ro.getD o 0) (ro.getD (o + 1) 0) (ro.getD (o + 2) 0) (ro.getD (o + 3) 0)

/-- the 16 bytes at offset `o` of the byte list -/
def roTable (ro : List UInt8) (o : Nat) : V4 := #v[roWord ro o, roWord ro (o + 4), roWord ro (o + 8), roWord ro (o + 12)]

/-- `ro` = the content of the `.rodata` section: `[label + rip]` operands are served from it (by the syntax of the operand) -/
def frameAcc (ro : List UInt8) : MemAcc FMem where
  ld8 m _ a := m.mem a
  ld32 m o a :=
    match frameOff o 4 with
    | some d => dwordAt m.frame d
    | none =>
      match ripOff ro o 4 with
      | some off => roWord ro off
      | none => m.mem.word a
  ld32s m o iv a :=
    match frameOffS o iv with
    | some e => dwordAt m.frame e
    | none => m.mem.word a
  ld64 m _ a := load64 m.mem a
  ld128 m o a :=
    match frameOff o 16 with
    | some d => if d % 16 = 0 then slot m.frame (d / 16)
                else #v[dwordAt m.frame d, dwordAt m.frame (d + 4), dwordAt m.frame (d + 8), dwordAt m.frame (d + 12)]
    | none =>
      match ripOff ro o 16 with
      | some off => roTable ro off
      | none => load128 m.mem a
  st32 m o a v :=
    match frameOff o 4 with
    | some d => { m with frame := setSlot m.frame (d / 16) (setLane (slot m.frame (d / 16)) (d % 16 / 4) v) }
    | none => { m with mem := store32 m.mem a v }
  st64 m _ a v := { m with mem := store64 m.mem a v }
  st128 m o a v :=
    match frameOff o 16 with
    | some d => if d % 16 = 0 then { m with frame := setSlot m.frame (d / 16) v } else { m with mem := store128 m.mem a v }
    | none => { m with mem := store128 m.mem a v }
  al16 o a :=
    match o with
    | .mem _ b none (.ofNat d) => if b = rsp then d % 16 == 0 else aligned16 a
    | .rip _ off => off % 16 == 0
    | _ => aligned16 a

/-! ### the log of accesses outside the frame -/

def Size.bytes : Size → Nat
  | .byte => 1 | .dword => 4 | .qword => 8 | .xmmword => 16 | .unsized => 0

/-- a logged memory reference: written?, address, size -/
abbrev Ref := Bool × UInt64 × Nat

/-- is the operand of size `sz` one that `frameAcc` serves from the frame or from the `.rodata` byte list
(`st`: the operand is written) -/
def special (ro : List UInt8) (st : Bool) (o : Operand) (sz : Size) : Bool :=
  match sz with
  | .xmmword => (match frameOff o 16 with | some d => !st || d % 16 == 0 | none => !st && (ripOff ro o 16).isSome)
  | .dword => (frameOff o 4).isSome || (!st && (ripOff ro o 4).isSome)
  | _ => false

/-- (SSE2 routine) a 4-byte load through a scaled-index operand that `frameAcc` serves from the frame -/
def specialS (st : Bool) (g : Vector UInt64 16) (o : Operand) (sz : Size) : Bool :=
  match sz, o with
  | .dword, .memS _ _ i _ _ => !st && (frameOffS o g[i]).isSome
  | _, _ => false

/-- the memory reference an operand stands for, unless it is a `special` one -/
def opRefs (ro : List UInt8) (st : Bool) (rb : UInt64) (g : Vector UInt64 16) (o : Operand) : List Ref :=
  match o.size with
  | some sz =>
    if special ro st o sz || specialS st g o sz || Size.bytes sz == 0 then [] else
      match ea rb g o with
      | some a => [(st, a, Size.bytes sz)]
      | none => []
  | none => []

/-- the memory references of an operand list; the first operand is the one written -/
def opsRefs (ro : List UInt8) (rb : UInt64) (g : Vector UInt64 16) (ops : List Operand) : List Ref :=
  match ops with
  | [] => []
  | o :: rest => opRefs ro true rb g o ++ rest.flatMap (opRefs ro false rb g)

/-- all memory references of an instruction outside the frame -/
def instrRefs (ro : List UInt8) (rb : UInt64) (g : Vector UInt64 16) (i : Instr) : List Ref :=
  match i.mn with
  | .push => [(true, g[rsp] - 8, 8)]
  | .pop => [(false, g[rsp], 8)]
  | .prefetcht0 => []
  | _ => opsRefs ro rb g i.ops

/-- instructions that (may) write `rsp` -/
def writesRsp (i : Instr) : Bool :=
  match i.mn with
  | .push | .pop | .ret => true
  | _ =>
    match i.ops with
    | .gpr r _ :: _ => r == rsp
    | _ => false

/-- state of the frame machine: the `execG` state over `FMem`, the log of outside references, and whether `rsp`
has been left alone -/
structure FState where
  s : StateG FMem
  log : List Ref
  spOk : Bool

def fstep (ro : List UInt8) (rb : UInt64) (prog : List Instr) (a : FState) : FState :=
  match a.s.status with
  | .returned => a
  | .running =>
    match prog[a.s.pc]? with
    | some i => ⟨execG (frameAcc ro) rb i a.s, a.log ++ instrRefs ro rb a.s.gpr i, a.spOk && !writesRsp i⟩
    | none => ⟨stepG (frameAcc ro) rb prog a.s, a.log, a.spOk⟩

def frun (ro : List UInt8) (rb : UInt64) (prog : List Instr) : Nat → FState → FState
  | 0, a => a
  | n + 1, a => frun ro rb prog n (fstep ro rb prog a)

/-- a frame-machine state at `pc` -/
def fstate (x : Vector V4 16) (g : Vector UInt64 16) (z c : Bool) (F : Vector V4 22) (m : Memory) (pc : Nat) : FState :=
  ⟨⟨x, g, z, c, ⟨F, m⟩, pc, .running, true⟩, [], true⟩

end B3.AsmSem.Many2
