/- the inner loop of the 4-way part of `blake3_hash_many_sse2` on the frame machine: `blocks` iterations of instructions
54..1363 (`block_iter`), by induction; the chaining value of every lane is folded over the blocks of its input -/
import B3.Asm.Many2Block
namespace B3.AsmSem.Many2
open B3 B3.Simd B3.AsmSem B3.Gen.AsmSse2Many

/-! ### small facts about the general purpose values -/

theorem trunc_d32_toUInt32 (x : UInt64) : (trunc .d32 x).toUInt32 = x.toUInt32 := by
  show x.toUInt32.toUInt64.toUInt32 = x.toUInt32
  exact UInt32.toUInt32_toUInt64 _

theorem or_toUInt32 (a b : UInt64) : (a ||| b).toUInt32 = a.toUInt32 ||| b.toUInt32 := UInt64.toUInt32_or a b

/-- the flags word that 54..58 leave in `eax`: `eax`, with `r12d` or-ed in on the last block -/
theorem p0Rax_toUInt32 (ax g12 : UInt64) (last : Bool) :
    (p0Rax ax g12 last).toUInt32 = if last then ax.toUInt32 ||| g12.toUInt32 else ax.toUInt32 := by
  unfold p0Rax
  cases last
  · simp only [Bool.false_eq_true, if_false, trunc_d32_toUInt32]
  · simp only [if_true, trunc_d32_toUInt32, or_toUInt32]

theorem ofNat_add_64 (j : Nat) : UInt64.ofNat (64 * j) + UInt64.ofNat 64 = UInt64.ofNat (64 * (j + 1)) := by
  rw [← UInt64.ofNat_add]
  congr 1

/-- `rdx + 64 = r15` exactly on the last block -/
theorem lastBlock_eq (B j : Nat) (hB : 64 * B < 2 ^ 64) (hj : j < B) :
    lastBlock (UInt64.ofNat (64 * j)) (UInt64.ofNat (64 * B)) = decide (j + 1 = B) := by
  unfold lastBlock
  rw [ofNat_add_64]
  by_cases h : j + 1 = B
  · subst h
    rw [UInt64.sub_self]
    simp
  · have hne : UInt64.ofNat (64 * (j + 1)) - UInt64.ofNat (64 * B) ≠ 0 := by
      intro e
      have e2 : UInt64.ofNat (64 * (j + 1)) = UInt64.ofNat (64 * B) := by
        have := UInt64.sub_add_cancel (UInt64.ofNat (64 * (j + 1))) (UInt64.ofNat (64 * B))
        rw [e, UInt64.zero_add] at this
        exact this.symm
      have := congrArg UInt64.toNat e2
      rw [UInt64.toNat_ofNat', UInt64.toNat_ofNat', Nat.mod_eq_of_lt (by omega), Nat.mod_eq_of_lt hB] at this
      omega
    rw [beq_eq_false_iff_ne.mpr hne, decide_eq_false h]

/-! ### the loop -/

/-- the sixteen loads of one block, by address -/
def ldLogAt (p8 p9 p10 p11 d : UInt64) : List Ref :=
  [(-64 : Int), -48, -32, -16].flatMap fun o => [p8, p9, p10, p11].map fun p => (false, p + d + dispU o, 16)

/-- the chaining value of a lane after the remaining `n` blocks, `j` blocks done, `a` = the flags word without `flags_end` of
the next block, `w` that of the later ones, `e` = `flags_end`, counter words `lo`, `hi` -/
def loopCV (m : Memory) (p : UInt64) (lo hi w e : UInt32) (B : Nat) : Nat → Nat → UInt32 → CV → CV
  | 0, _, _, H => H
  | n + 1, j, a, H =>
    loopCV m p lo hi w e B n (j + 1) w
      (laneCV H (blk m (p + UInt64.ofNat (64 * (j + 1)))) lo hi (if j + 1 = B then a ||| e else a))

/-- the loads of the remaining `n` blocks -/
def loopLog (p8 p9 p10 p11 : UInt64) : Nat → Nat → List Ref
  | 0, _ => []
  | n + 1, j => ldLogAt p8 p9 p10 p11 (UInt64.ofNat (64 * (j + 1))) ++ loopLog p8 p9 p10 p11 n (j + 1)

/-- the machine at the head of the inner loop (`pc = 54`) or just after it (`pc = 1560`): chaining values in XMM0-7, the
registers that the loop changes (`rax rdx r14`), everything it leaves alone; XMM8-15, the flags and slots 0..16 of the frame
hold anything -/
def LoopState (H0 H1 H2 H3 : CV) (ax dx : UInt64) (g1 g3 g4 g5 g6 g7 g8 g9 g10 g11 g12 g13 g15 : UInt64)
    (lo hi f19 f20 f21 : V4) (m : Memory) (pc : Nat) (s : StateG FMem) : Prop :=
  ∃ (j8 j9 j10 j11 j12 j13 j14 j15 f0 f1 f2 f3 f4 f5 f6 f7 f8 f9 f10 f11 f12 f13 f14 f15 f16 : V4) (r14 : UInt64) (z c : Bool),
    s = mkS (xmmH H0 H1 H2 H3 j8 j9 j10 j11 j12 j13 j14 j15)
      #v[ax, g1, dx, g3, g4, g5, g6, g7, g8, g9, g10, g11, g12, g13, r14, g15] z c
      #v[f0, f1, f2, f3, f4, f5, f6, f7, f8, f9, f10, f11, f12, f13, f14, f15, f16, lo, hi, f19, f20, f21] m pc

theorem LoopState.ofFrameR {H0 H1 H2 H3 : CV} {ax dx g1 g3 g4 g5 g6 g7 g8 g9 g10 g11 g12 g13 g15 : UInt64}
    {lo hi f19 f20 f21 : V4} {m : Memory} {pc : Nat} {j8 j9 j10 j11 j12 j13 j14 j15 : V4} {r14 : UInt64} {z c : Bool}
    {M0 M1 M2 M3 : St} {f16 : V4} :
    LoopState H0 H1 H2 H3 ax dx g1 g3 g4 g5 g6 g7 g8 g9 g10 g11 g12 g13 g15 lo hi f19 f20 f21 m pc
      (mkS (xmmH H0 H1 H2 H3 j8 j9 j10 j11 j12 j13 j14 j15)
        #v[ax, g1, dx, g3, g4, g5, g6, g7, g8, g9, g10, g11, g12, g13, r14, g15] z c
        (frameR M0 M1 M2 M3 f16 lo hi f19 f20 f21) m pc) :=
  ⟨j8, j9, j10, j11, j12, j13, j14, j15, wide M0 M1 M2 M3 0, wide M0 M1 M2 M3 1, wide M0 M1 M2 M3 2, wide M0 M1 M2 M3 3, wide M0 M1 M2 M3 4, wide M0 M1 M2 M3 5, wide M0 M1 M2 M3 6, wide M0 M1 M2 M3 7, wide M0 M1 M2 M3 8, wide M0 M1 M2 M3 9, wide M0 M1 M2 M3 10, wide M0 M1 M2 M3 11, wide M0 M1 M2 M3 12, wide M0 M1 M2 M3 13, wide M0 M1 M2 M3 14, wide M0 M1 M2 M3 15, f16, r14, z, c, rfl⟩

theorem ldLog_eq (ax g1 dx g3 g4 g5 g6 g7 g8 g9 g10 g11 g12 g13 r14 g15 : UInt64) :
    ldLog #v[ax, g1, dx, g3, g4, g5, g6, g7, g8, g9, g10, g11, g12, g13, r14, g15] = ldLogAt g8 g9 g10 g11 dx := rfl

/-- **the inner loop**: from the loop head with `j` of the `B` blocks done (`rdx = 64 j`, `r15 = 64 B`), `n = B - j` more
iterations (1506 instructions each) lead to instruction 1560 with every lane's chaining value folded over the remaining
blocks of its input, `eax = r13d`, `rdx = r15`, and nothing else of what `LoopState` tracks changed -/
theorem inner_loop (rb : UInt64) (B : Nat) (hB : 64 * B < 2 ^ 64) (g1 g3 g4 g5 g6 g7 g8 g9 g10 g11 g12 g13 : UInt64)
    (lo hi f19 f20 f21 : V4) (m : Memory) (n : Nat) :
    ∀ (j : Nat) (_ : j + n = B) (_ : 0 < n) (H0 H1 H2 H3 : CV) (ax : UInt64) (s : StateG FMem),
      LoopState H0 H1 H2 H3 ax (UInt64.ofNat (64 * j)) g1 g3 g4 g5 g6 g7 g8 g9 g10 g11 g12 g13 (UInt64.ofNat (64 * B))
        lo hi f19 f20 f21 m 54 s →
      ∃ t, Run rodata rb hash_many (1506 * n) s (loopLog g8 g9 g10 g11 n j) t ∧
        LoopState (loopCV m g8 lo[0] hi[0] g13.toUInt32 g12.toUInt32 B n j ax.toUInt32 H0)
          (loopCV m g9 lo[1] hi[1] g13.toUInt32 g12.toUInt32 B n j ax.toUInt32 H1)
          (loopCV m g10 lo[2] hi[2] g13.toUInt32 g12.toUInt32 B n j ax.toUInt32 H2)
          (loopCV m g11 lo[3] hi[3] g13.toUInt32 g12.toUInt32 B n j ax.toUInt32 H3)
          (trunc .d32 (trunc .d32 g13)) (UInt64.ofNat (64 * B)) g1 g3 g4 g5 g6 g7 g8 g9 g10 g11 g12 g13 (UInt64.ofNat (64 * B))
          lo hi f19 f20 f21 m 1560 t := by
  induction n with
  | zero => intro j _ h0; omega
  | succ n ih =>
    intro j hj _ H0 H1 H2 H3 ax s hs
    obtain ⟨j8, j9, j10, j11, j12, j13, j14, j15, f0, f1, f2, f3, f4, f5, f6, f7, f8, f9, f10, f11, f12, f13, f14, f15, f16, r14, z, c,
      rfl⟩ := hs
    obtain ⟨a8, a9, a10, a11, a12, a13, a14, a15, a16, c', hrun⟩ := block_iter rb H0 H1 H2 H3 j8 j9 j10 j11 j12 j13 j14 j15
      f0 f1 f2 f3 f4 f5 f6 f7 f8 f9 f10 f11 f12 f13 f14 f15 f16 lo hi f19 f20 f21
      ax g1 (UInt64.ofNat (64 * j)) g3 g4 g5 g6 g7 g8 g9 g10 g11 g12 g13 r14 (UInt64.ofNat (64 * B)) z c m
    rw [ldLog_eq, lastBlock_eq B j hB (by omega), ofNat_add_64] at hrun
    simp only [p0Rax_toUInt32] at hrun
    by_cases hlast : j + 1 = B
    · -- the last block
      have hn : n = 0 := by omega
      subst hn
      subst hlast
      simp only [decide_true, if_true] at hrun
      have e1 : 1506 * (0 + 1) = 1506 := rfl
      have e2 : loopLog g8 g9 g10 g11 (0 + 1) j = ldLogAt g8 g9 g10 g11 (UInt64.ofNat (64 * (j + 1))) := by
        simp [loopLog]
      rw [e1, e2]
      simp only [loopCV, if_true]
      exact ⟨_, hrun, LoopState.ofFrameR⟩
    · -- not the last block: once more round the loop
      simp only [hlast, decide_false, Bool.false_eq_true, if_false] at hrun
      obtain ⟨t, ht, hL⟩ := ih (j + 1) (by omega) (by omega) _ _ _ _ (trunc .d32 (trunc .d32 g13)) _
        LoopState.ofFrameR
      refine ⟨t, ?_, ?_⟩
      · have : 1506 * (n + 1) = 1506 + 1506 * n := by omega
        rw [this]
        exact hrun.trans ht
      · simp only [loopCV, hlast, if_false]
        simp only [trunc_d32_toUInt32] at hL
        exact hL

end B3.AsmSem.Many2
