/-
Shared definitions for the proofs about `blake3_hash_many_sse2` on the frame machine
(`B3/Asm/Many2Frame.lean`): the four rotations as the code computes them, half rounds, the 4-way
("wide") reading of registers, the views of the state that the kernel-evaluated pieces talk about,
and the relation `Run` in which pieces are composed.
-/
import B3.Asm.Many2Frame
import B3.Asm.Base
import B3.Simd.KernelRfl
import B3.Gen.AsmSse2Many
namespace B3.AsmSem.Many2
open B3 B3.Simd B3.AsmSem B3.Gen.AsmSse2Many

/-! ### the four rotations as the SSE2 code computes them (`pshuflw; pshufhw` 0xB1, shift-shift-xor, shift-shift-or) -/
def a16 (x : UInt32) : UInt32 := mk32 (half x 1) (half x 0)
def a12 (x : UInt32) : UInt32 := sll32 x 20 ||| srl32 x 12
def a8 (x : UInt32) : UInt32 := srl32 x 8 ^^^ sll32 x 24
def a7 (x : UInt32) : UInt32 := sll32 x 25 ||| srl32 x 7

theorem a16_eq (x : UInt32) : a16 x = rotr x 16 := rot_halves16 x
theorem a12_eq (x : UInt32) : a12 x = rotr x 12 := rot_shift12 x
theorem a8_eq (x : UInt32) : a8 x = rotr x 8 := rot_xor8 x
theorem a7_eq (x : UInt32) : a7 x = rotr x 7 := rot_shift7 x

/-- the column step of a round: four `G`s on the columns, message words 0..7 -/
def halfA (s : St) (m : St) : St :=
  let s := gP a16 a12 a8 a7 s 0 4 8 12 m[0] m[1]
  let s := gP a16 a12 a8 a7 s 1 5 9 13 m[2] m[3]
  let s := gP a16 a12 a8 a7 s 2 6 10 14 m[4] m[5]
  let s := gP a16 a12 a8 a7 s 3 7 11 15 m[6] m[7]
  s

/-- the diagonal step of a round: four `G`s on the diagonals, message words 8..15 -/
def halfB (s : St) (m : St) : St :=
  let s := gP a16 a12 a8 a7 s 0 5 10 15 m[8] m[9]
  let s := gP a16 a12 a8 a7 s 1 6 11 12 m[10] m[11]
  let s := gP a16 a12 a8 a7 s 2 7 8 13 m[12] m[13]
  let s := gP a16 a12 a8 a7 s 3 4 9 14 m[14] m[15]
  s

theorem half_round (s m : St) : halfB (halfA s m) m = Spec.round s m := by
  have h : halfB (halfA s m) m = roundP a16 a12 a8 a7 s (fun i => m[i]) := rfl
  rw [h, roundP_eq a16 a12 a8 a7 a16_eq a12_eq a8_eq a7_eq]
  rfl

/-- the message after `r` permutations -/
def permN : Nat → St → St
  | 0, m => m
  | r + 1, m => Spec.permute (permN r m)

/-! ### 4-way reading -/

/-- word `k` of four 16-word vectors, as lanes -/
def wide (s0 s1 s2 s3 : St) (k : Nat) (h : k < 16 := by decide) : V4 := #v[s0[k], s1[k], s2[k], s3[k]]

/-- word `k` of four chaining values, as lanes -/
def wide8 (h0 h1 h2 h3 : CV) (k : Nat) (h : k < 8 := by decide) : V4 := #v[h0[k], h1[k], h2[k], h3[k]]

def eta16 (s : St) : St := #v[s[0], s[1], s[2], s[3], s[4], s[5], s[6], s[7], s[8], s[9], s[10], s[11], s[12], s[13], s[14], s[15]]
def eta8 (s : CV) : CV := #v[s[0], s[1], s[2], s[3], s[4], s[5], s[6], s[7]]
def eta4 (s : V4) : V4 := #v[s[0], s[1], s[2], s[3]]

theorem eta16_eq (s : St) : eta16 s = s := (vec16_eta s).symm
theorem eta8_eq (s : CV) : eta8 s = s := (vec8_eta s).symm
theorem eta4_eq (s : V4) : eta4 s = s := (vec4_eta s).symm

/-! ### states, views, runs -/

/-- a running, fault-free state of the frame machine -/
def mkS (x : Vector V4 16) (g : Vector UInt64 16) (z c : Bool) (F : Vector V4 22) (m : Memory) (pc : Nat) : StateG FMem :=
  ⟨x, g, z, c, ⟨F, m⟩, pc, .running, true⟩

/-- everything but the scratch register XMM8 -/
structure RView where
  x0 : V4
  x1 : V4
  x2 : V4
  x3 : V4
  x4 : V4
  x5 : V4
  x6 : V4
  x7 : V4
  x9 : V4
  x10 : V4
  x11 : V4
  x12 : V4
  x13 : V4
  x14 : V4
  x15 : V4
  gpr : Vector UInt64 16
  zf : Bool
  cf : Bool
  frame : Vector V4 22
  mem : Memory
  pc : Nat
  status : Status
  ok : Bool
  log : List Ref
  spOk : Bool

def rview (a : FState) : RView :=
  ⟨a.s.xmm[0], a.s.xmm[1], a.s.xmm[2], a.s.xmm[3], a.s.xmm[4], a.s.xmm[5], a.s.xmm[6], a.s.xmm[7],
   a.s.xmm[9], a.s.xmm[10], a.s.xmm[11], a.s.xmm[12], a.s.xmm[13], a.s.xmm[14], a.s.xmm[15],
   a.s.gpr, a.s.zf, a.s.cf, a.s.mem.frame, a.s.mem.mem, a.s.pc, a.s.status, a.s.ok, a.log, a.spOk⟩

theorem of_rview {a : FState} {v : RView} (h : rview a = v) :
    a = ⟨⟨#v[v.x0, v.x1, v.x2, v.x3, v.x4, v.x5, v.x6, v.x7, a.s.xmm[8], v.x9, v.x10, v.x11, v.x12, v.x13, v.x14, v.x15],
          v.gpr, v.zf, v.cf, ⟨v.frame, v.mem⟩, v.pc, v.status, v.ok⟩, v.log, v.spOk⟩ := by
  subst h
  obtain ⟨⟨x, g, z, c, ⟨F, m⟩, p, st, ok⟩, l, b⟩ := a
  simp only [rview]
  congr 2
  exact vec16_eta x

/-- everything but XMM8 .. XMM15 -/
structure LView where
  x0 : V4
  x1 : V4
  x2 : V4
  x3 : V4
  x4 : V4
  x5 : V4
  x6 : V4
  x7 : V4
  gpr : Vector UInt64 16
  zf : Bool
  cf : Bool
  frame : Vector V4 22
  mem : Memory
  pc : Nat
  status : Status
  ok : Bool
  log : List Ref
  spOk : Bool

def lview (a : FState) : LView :=
  ⟨a.s.xmm[0], a.s.xmm[1], a.s.xmm[2], a.s.xmm[3], a.s.xmm[4], a.s.xmm[5], a.s.xmm[6], a.s.xmm[7],
   a.s.gpr, a.s.zf, a.s.cf, a.s.mem.frame, a.s.mem.mem, a.s.pc, a.s.status, a.s.ok, a.log, a.spOk⟩

theorem of_lview {a : FState} {v : LView} (h : lview a = v) :
    a = ⟨⟨#v[v.x0, v.x1, v.x2, v.x3, v.x4, v.x5, v.x6, v.x7, a.s.xmm[8], a.s.xmm[9], a.s.xmm[10], a.s.xmm[11],
            a.s.xmm[12], a.s.xmm[13], a.s.xmm[14], a.s.xmm[15]],
          v.gpr, v.zf, v.cf, ⟨v.frame, v.mem⟩, v.pc, v.status, v.ok⟩, v.log, v.spOk⟩ := by
  subst h
  obtain ⟨⟨x, g, z, c, ⟨F, m⟩, p, st, ok⟩, l, b⟩ := a
  simp only [lview]
  congr 2
  exact vec16_eta x

/-- everything but the XMM registers -/
structure GView where
  gpr : Vector UInt64 16
  zf : Bool
  cf : Bool
  frame : Vector V4 22
  mem : Memory
  pc : Nat
  status : Status
  ok : Bool
  log : List Ref
  spOk : Bool

def gview (a : FState) : GView :=
  ⟨a.s.gpr, a.s.zf, a.s.cf, a.s.mem.frame, a.s.mem.mem, a.s.pc, a.s.status, a.s.ok, a.log, a.spOk⟩

theorem of_gview {a : FState} {v : GView} (h : gview a = v) :
    a = ⟨⟨a.s.xmm, v.gpr, v.zf, v.cf, ⟨v.frame, v.mem⟩, v.pc, v.status, v.ok⟩, v.log, v.spOk⟩ := by
  subst h
  rfl

/-! ### composition -/

theorem frun_add (ro : List UInt8) (rb : UInt64) (p : List Instr) (a b : Nat) (s : FState) :
    frun ro rb p (a + b) s = frun ro rb p b (frun ro rb p a s) := by
  induction a generalizing s with
  | zero => simp [frun]
  | succ n ih => rw [Nat.add_right_comm]; exact ih _

theorem fstep_relog (ro : List UInt8) (rb : UInt64) (p : List Instr) (s : StateG FMem) (l : List Ref) (b : Bool) :
    fstep ro rb p ⟨s, l, b⟩
      = ⟨(fstep ro rb p ⟨s, [], true⟩).s, l ++ (fstep ro rb p ⟨s, [], true⟩).log, b && (fstep ro rb p ⟨s, [], true⟩).spOk⟩ := by
  unfold fstep
  cases s.status with
  | returned => simp
  | running =>
    simp only []
    cases p[s.pc]? with
    | none => simp
    | some i => simp

theorem frun_relog (ro : List UInt8) (rb : UInt64) (p : List Instr) (n : Nat) (s : StateG FMem) (l : List Ref) (b : Bool) :
    frun ro rb p n ⟨s, l, b⟩
      = ⟨(frun ro rb p n ⟨s, [], true⟩).s, l ++ (frun ro rb p n ⟨s, [], true⟩).log, b && (frun ro rb p n ⟨s, [], true⟩).spOk⟩ := by
  induction n generalizing s l b with
  | zero => simp [frun]
  | succ n ih =>
    show frun ro rb p n (fstep ro rb p ⟨s, l, b⟩) = _
    rw [fstep_relog, ih]
    conv => rhs; rw [show frun ro rb p (n + 1) ⟨s, [], true⟩ = frun ro rb p n (fstep ro rb p ⟨s, [], true⟩) from rfl]
    rw [ih (fstep ro rb p ⟨s, [], true⟩).s (fstep ro rb p ⟨s, [], true⟩).log (fstep ro rb p ⟨s, [], true⟩).spOk]
    simp [List.append_assoc, Bool.and_assoc]

/-- from `s` the frame machine reaches `t` in `n` steps, logging the references `l`, without writing `rsp` -/
def Run (ro : List UInt8) (rb : UInt64) (p : List Instr) (n : Nat) (s : StateG FMem) (l : List Ref) (t : StateG FMem) : Prop :=
  frun ro rb p n ⟨s, [], true⟩ = ⟨t, l, true⟩

theorem Run.trans {ro : List UInt8} {rb : UInt64} {p : List Instr} {n1 n2 : Nat} {s t u : StateG FMem} {l1 l2 : List Ref}
    (h1 : Run ro rb p n1 s l1 t) (h2 : Run ro rb p n2 t l2 u) : Run ro rb p (n1 + n2) s (l1 ++ l2) u := by
  unfold Run at *
  rw [frun_add, h1, frun_relog, h2]
  simp

theorem Run.refl (ro : List UInt8) (rb : UInt64) (p : List Instr) (s : StateG FMem) : Run ro rb p 0 s [] s := rfl


/-! ### the 4-way rounds: where the sixteen state vectors and the sixteen message vectors live -/

/-- the state words of four inputs in XMM0-7, XMM9-15 (`v8` is spilled to the frame), XMM8 scratch -/
def xmmR (S0 S1 S2 S3 : St) (j8 : V4) : Vector V4 16 :=
  #v[wide S0 S1 S2 S3 0, wide S0 S1 S2 S3 1, wide S0 S1 S2 S3 2, wide S0 S1 S2 S3 3, wide S0 S1 S2 S3 4, wide S0 S1 S2 S3 5, wide S0 S1 S2 S3 6, wide S0 S1 S2 S3 7, j8, wide S0 S1 S2 S3 9, wide S0 S1 S2 S3 10, wide S0 S1 S2 S3 11, wide S0 S1 S2 S3 12, wide S0 S1 S2 S3 13, wide S0 S1 S2 S3 14, wide S0 S1 S2 S3 15]

/-- the frame during the rounds: slots 0..15 the transposed message words, slot 16 (`[rsp+0x100]`) the spilled `v8`,
slots 17, 18 (`[rsp+0x110]`, `[rsp+0x120]`) the counter vectors, 19..21 -/
def frameR (M0 M1 M2 M3 : St) (v8 f17 f18 f19 f20 f21 : V4) : Vector V4 22 :=
  #v[wide M0 M1 M2 M3 0, wide M0 M1 M2 M3 1, wide M0 M1 M2 M3 2, wide M0 M1 M2 M3 3, wide M0 M1 M2 M3 4, wide M0 M1 M2 M3 5, wide M0 M1 M2 M3 6, wide M0 M1 M2 M3 7, wide M0 M1 M2 M3 8, wide M0 M1 M2 M3 9, wide M0 M1 M2 M3 10, wide M0 M1 M2 M3 11, wide M0 M1 M2 M3 12, wide M0 M1 M2 M3 13, wide M0 M1 M2 M3 14, wide M0 M1 M2 M3 15, v8, f17, f18, f19, f20, f21]

/-- the machine at a half-round boundary -/
def roundS (S0 S1 S2 S3 M0 M1 M2 M3 : St) (j8 f17 f18 f19 f20 f21 : V4) (g : Vector UInt64 16) (z c : Bool) (m : Memory)
    (pc : Nat) : StateG FMem :=
  mkS (xmmR S0 S1 S2 S3 j8) g z c (frameR M0 M1 M2 M3 (wide S0 S1 S2 S3 8) f17 f18 f19 f20 f21) m pc

/-- what a half-round piece leaves (no memory reference outside the frame and `.rodata`) -/
def roundV (S0 S1 S2 S3 M0 M1 M2 M3 : St) (f17 f18 f19 f20 f21 : V4) (g : Vector UInt64 16) (z c : Bool) (m : Memory)
    (pc : Nat) : RView :=
  ⟨wide S0 S1 S2 S3 0, wide S0 S1 S2 S3 1, wide S0 S1 S2 S3 2, wide S0 S1 S2 S3 3, wide S0 S1 S2 S3 4, wide S0 S1 S2 S3 5, wide S0 S1 S2 S3 6, wide S0 S1 S2 S3 7, wide S0 S1 S2 S3 9, wide S0 S1 S2 S3 10, wide S0 S1 S2 S3 11, wide S0 S1 S2 S3 12, wide S0 S1 S2 S3 13, wide S0 S1 S2 S3 14, wide S0 S1 S2 S3 15,
   g, z, c, frameR M0 M1 M2 M3 (wide S0 S1 S2 S3 8) f17 f18 f19 f20 f21, m, pc, .running, true, [], true⟩

theorem run_of_roundV {rb : UInt64} {n : Nat} {s : StateG FMem} {S0 S1 S2 S3 M0 M1 M2 M3 : St} {f17 f18 f19 f20 f21 : V4}
    {g : Vector UInt64 16} {z c : Bool} {m : Memory} {pc : Nat}
    (h : rview (frun rodata rb hash_many n ⟨s, [], true⟩) = roundV S0 S1 S2 S3 M0 M1 M2 M3 f17 f18 f19 f20 f21 g z c m pc) :
    ∃ j8, Run rodata rb hash_many n s [] (roundS S0 S1 S2 S3 M0 M1 M2 M3 j8 f17 f18 f19 f20 f21 g z c m pc) :=
  ⟨_, of_rview h⟩

/-- the initial state of a compression with the counter given as two words -/
def initW (h : CV) (lo hi b d : UInt32) : St :=
  #v[h[0], h[1], h[2], h[3], h[4], h[5], h[6], h[7], Spec.IV[0], Spec.IV[1], Spec.IV[2], Spec.IV[3], lo, hi, b, d]

theorem initState_eq (h : CV) (t : UInt64) (b d : UInt32) : Spec.initState h t b d = initW h t.toUInt32 (t >>> 32).toUInt32 b d := rfl

/-- the chaining value that a compression leaves: `v[i] ^ v[i+8]` -/
def ffw (v : St) : CV := #v[v[0] ^^^ v[8], v[1] ^^^ v[9], v[2] ^^^ v[10], v[3] ^^^ v[11], v[4] ^^^ v[12], v[5] ^^^ v[13], v[6] ^^^ v[14], v[7] ^^^ v[15]]

theorem ffw_eq (h : CV) (v : St) : ffw v = first8 (Spec.feedForward h v) := by
  rw [vec16_eta v]
  rfl

end B3.AsmSem.Many2
