/- instructions 139..236 of the generated list: the rest of the state is set up (IV words, counter vectors from the frame,
block length 64, the flags word from `eax`, broadcast) and every lane goes through the column step of round 1 -/
import B3.Asm.Many2Views
namespace B3.AsmSem.Many2
open B3 B3.Simd B3.AsmSem B3.Gen.AsmSse2Many

/-- the state at the start of the compression of one block of four inputs: the chaining values in XMM0-7 (transposed),
the message in the frame, the counter vectors in slots 17 and 18 -/
def blockS (H0 H1 H2 H3 : CV) (M0 M1 M2 M3 : St) (j8 j9 j10 j11 j12 j13 j14 j15 f16 lo hi f19 f20 f21 : V4)
    (g : Vector UInt64 16) (z c : Bool) (m : Memory) (pc : Nat) : StateG FMem :=
  mkS #v[wide8 H0 H1 H2 H3 0, wide8 H0 H1 H2 H3 1, wide8 H0 H1 H2 H3 2, wide8 H0 H1 H2 H3 3, wide8 H0 H1 H2 H3 4, wide8 H0 H1 H2 H3 5, wide8 H0 H1 H2 H3 6, wide8 H0 H1 H2 H3 7, j8, j9, j10, j11, j12, j13, j14, j15]
    g z c (frameR M0 M1 M2 M3 f16 lo hi f19 f20 f21) m pc

theorem r1a_raw (rb : UInt64) (H0 H1 H2 H3 : CV) (M0 M1 M2 M3 : St) (j8 j9 j10 j11 j12 j13 j14 j15 f16 lo hi f19 f20 f21 : V4)
    (g : Vector UInt64 16) (z c : Bool) (m : Memory) :
    rview (frun rodata rb hash_many 112 ⟨blockS H0 H1 H2 H3 M0 M1 M2 M3 j8 j9 j10 j11 j12 j13 j14 j15 f16 lo hi f19 f20 f21 g z c m 139, [], true⟩)
      = roundV (halfA (initW (eta8 H0) lo[0] hi[0] 64 g[rax].toUInt32) (eta16 M0))
          (halfA (initW (eta8 H1) lo[1] hi[1] 64 g[rax].toUInt32) (eta16 M1))
          (halfA (initW (eta8 H2) lo[2] hi[2] 64 g[rax].toUInt32) (eta16 M2))
          (halfA (initW (eta8 H3) lo[3] hi[3] 64 g[rax].toUInt32) (eta16 M3))
          M0 M1 M2 M3 lo hi f19 f20 f21 g z c m 251 := by
  kernel_rfl

/-- instructions 139..236: lane `l` starts from the initial state of the compression of its block -- chaining value, IV,
counter words `lo[l]`, `hi[l]`, block length 64, flags word = the low half of `rax` -- and goes through the column step of round 1 -/
theorem r1a (rb : UInt64) (H0 H1 H2 H3 : CV) (M0 M1 M2 M3 : St) (j8 j9 j10 j11 j12 j13 j14 j15 f16 lo hi f19 f20 f21 : V4)
    (g : Vector UInt64 16) (z c : Bool) (m : Memory) :
    ∃ j8', Run rodata rb hash_many 112
      (blockS H0 H1 H2 H3 M0 M1 M2 M3 j8 j9 j10 j11 j12 j13 j14 j15 f16 lo hi f19 f20 f21 g z c m 139) []
      (roundS (halfA (initW (eta8 H0) lo[0] hi[0] 64 g[rax].toUInt32) (eta16 M0))
          (halfA (initW (eta8 H1) lo[1] hi[1] 64 g[rax].toUInt32) (eta16 M1))
          (halfA (initW (eta8 H2) lo[2] hi[2] 64 g[rax].toUInt32) (eta16 M2))
          (halfA (initW (eta8 H3) lo[3] hi[3] 64 g[rax].toUInt32) (eta16 M3))
          M0 M1 M2 M3 j8' lo hi f19 f20 f21 g z c m 251) :=
  run_of_roundV (r1a_raw rb H0 H1 H2 H3 M0 M1 M2 M3 j8 j9 j10 j11 j12 j13 j14 j15 f16 lo hi f19 f20 f21 g z c m)

end B3.AsmSem.Many2
