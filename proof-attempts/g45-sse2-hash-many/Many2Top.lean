/- `blake3_hash_many_sse2` on THE (flat) semantics: the entry conditions (`Entry`), what the routine reads in terms of the entry
memory (`entry_reads`), why the logged memory references of the frame machine are harmless (`proLog_ok`, `outerLog_ok`).  The
composition (prologue, frame part, epilogue) is in `B3/Asm/ManyAll.lean`, the property theorems in `B3/Props/C05M.lean`. -/
import B3.Asm.Many2FramePart
import B3.Asm.Many2Push
import B3.Asm.Compress
namespace B3.AsmSem.Many2
open B3 B3.Simd B3.AsmSem B3.Gen.AsmSse2Many

/-! ### running -/

theorem run_add (rb : UInt64) (p : List Instr) (a b : Nat) (s : State) : run rb p (a + b) s = run rb p b (run rb p a s) := by
  unfold run
  induction a generalizing s with
  | zero => simp [runG]
  | succ n ih => rw [Nat.add_right_comm]; exact ih _

theorem state_eta (s : State) (hpc : s.pc = 0) (hst : s.status = .running) (hok : s.ok = true) :
    s = ⟨#v[s.xmm[0], s.xmm[1], s.xmm[2], s.xmm[3], s.xmm[4], s.xmm[5], s.xmm[6], s.xmm[7], s.xmm[8], s.xmm[9],
            s.xmm[10], s.xmm[11], s.xmm[12], s.xmm[13], s.xmm[14], s.xmm[15]],
         #v[s.gpr[rax], s.gpr[rcx], s.gpr[rdx], s.gpr[rbx], s.gpr[rsp], s.gpr[rbp], s.gpr[rsi], s.gpr[rdi],
            s.gpr[r8], s.gpr[r9], s.gpr[r10], s.gpr[r11], s.gpr[r12], s.gpr[r13], s.gpr[r14], s.gpr[r15]],
         s.zf, s.cf, s.mem, 0, .running, true⟩ := by
  obtain ⟨x, g, z, c, m, p, st, ok⟩ := s
  simp only at hpc hst hok
  subst hpc hst hok
  congr 1
  · exact vec16_eta x
  · exact vec16_eta g

/-! ### addresses around the entry `rsp` -/

theorem sub_sub' (a b c : UInt64) : a - b - c = a - (b + c) := by
  apply UInt64.toNat_inj.mp
  simp only [UInt64.toNat_sub, UInt64.toNat_add]
  have := a.toNat_lt; have := b.toNat_lt; have := c.toNat_lt
  omega


theorem sp_sub (sp : UInt64) (k : Nat) (hk : k ≤ 6) (h : 512 ≤ sp.toNat) :
    ((match k with
      | 0 => sp | 1 => sp - 8 | 2 => sp - 8 - 8 | 3 => sp - 8 - 8 - 8 | 4 => sp - 8 - 8 - 8 - 8 | 5 => sp - 8 - 8 - 8 - 8 - 8
      | _ => sp - 8 - 8 - 8 - 8 - 8 - 8) : UInt64) = sp - UInt64.ofNat (8 * k) := by
  have e8 : (8 : UInt64) = UInt64.ofNat 8 := rfl
  have key : ∀ (a b : Nat), sp - UInt64.ofNat a - UInt64.ofNat b = sp - UInt64.ofNat (a + b) := by
    intro a b
    rw [sub_sub', ← UInt64.ofNat_add]
  match k, hk with
  | 0, _ => simp
  | 1, _ => rfl
  | 2, _ => simp only [e8, key]
  | 3, _ => simp only [e8, key]
  | 4, _ => simp only [e8, key]
  | 5, _ => simp only [e8, key]
  | 6, _ => simp only [e8, key]

/-- `rbp` during the routine: the entry `rsp` minus the six pushes -/
def rbpOf (sp : UInt64) : UInt64 := sp - 8 - 8 - 8 - 8 - 8 - 8

theorem rbpOf_eq (sp : UInt64) : rbpOf sp = sp - UInt64.ofNat 48 := by
  have e8 : (8 : UInt64) = UInt64.ofNat 8 := rfl
  have key : ∀ (a b : Nat), sp - UInt64.ofNat a - UInt64.ofNat b = sp - UInt64.ofNat (a + b) := by
    intro a b
    rw [sub_sub', ← UInt64.ofNat_add]
  unfold rbpOf
  simp only [e8, key]

/-- stack argument at `[rbp + d]` = `[rsp_entry + (d - 48)]` -/
theorem rbp_disp (sp : UInt64) (d : Nat) (hd : 48 ≤ d) : rbpOf sp + dispU (d : Int) = sp + UInt64.ofNat (d - 48) := by
  rw [rbpOf_eq]
  show sp - UInt64.ofNat 48 + UInt64.ofNat d = _
  have : UInt64.ofNat d = UInt64.ofNat 48 + UInt64.ofNat (d - 48) := by
    rw [← UInt64.ofNat_add]
    congr 1
    omega
  rw [this, ← UInt64.add_assoc, UInt64.sub_add_cancel]


/-! ### the call -/

/-- the arguments of `blake3_hash_many_sse2(inputs, num_inputs, blocks, key, counter, increment_counter, flags, flags_start,
flags_end, out)` -/
structure HmArgs where
  inputs : UInt64
  n : Nat
  blocks : Nat
  key : UInt64
  counter : UInt64
  incr : Bool
  flags : UInt8
  flagsStart : UInt8
  flagsEnd : UInt8
  out : UInt64

/-- the address of input `i`: the quadword at `inputs + 8 i` -/
def HmArgs.ptr (A : HmArgs) (m : Memory) (i : Nat) : UInt64 := load64 m (A.inputs + UInt64.ofNat (8 * i))

/-- `k` bytes at `q` lie outside the two regions the routine writes: the scratch area below the entry `rsp` and `out` -/
def HmArgs.Sep (A : HmArgs) (sp q : UInt64) (k : Nat) : Prop :=
  OutsideRo (scratch sp) 472 q k ∧ OutsideRo A.out (32 * A.n) q k

/-- the state on entry to `blake3_hash_many_sse2`, called with the arguments `A` as the System V ABI prescribes:
at the first instruction, no fault so far, `.rodata` loaded at `rb`; six arguments in registers (`increment_counter` as a
clean 0/1 in `r9d`: the routine uses all 32 bits), four on the stack (`[rsp+8] .. [rsp+32]`, of the three flag bytes only the
low byte is read); `blocks ≥ 1` (with `blocks = 0` the routine would run through `2^58` blocks); sizes that do not wrap around
the address space; the stack has 512 bytes below `rsp`; everything the routine reads (`.rodata`, key, pointer array, inputs,
stack arguments) lies outside what it writes (the 472 bytes below `rsp`, and `out`), and `out` lies outside those 472 bytes.
Nothing is assumed about the other registers or about alignment of the data. -/
structure Entry (rb : UInt64) (s : State) (A : HmArgs) : Prop where
  pc : s.pc = 0
  running : s.status = .running
  ok : s.ok = true
  ro : RodataLoaded rodata rodataAlign rb s.mem
  rdi : s.gpr[rdi] = A.inputs
  rsi : s.gpr[rsi] = UInt64.ofNat A.n
  rdx : s.gpr[rdx] = UInt64.ofNat A.blocks
  rcx : s.gpr[rcx] = A.key
  r8 : s.gpr[r8] = A.counter
  r9 : s.gpr[r9].toUInt32 = if A.incr then 1 else 0
  arg7 : s.mem (s.gpr[rsp] + UInt64.ofNat 8) = A.flags
  arg8 : s.mem (s.gpr[rsp] + UInt64.ofNat 16) = A.flagsStart
  arg9 : s.mem (s.gpr[rsp] + UInt64.ofNat 24) = A.flagsEnd
  arg10 : load64 s.mem (s.gpr[rsp] + UInt64.ofNat 32) = A.out
  hn : 32 * A.n < 2 ^ 64
  hb0 : 0 < A.blocks
  hb : 64 * A.blocks < 2 ^ 64
  hsp : 512 ≤ s.gpr[rsp].toNat
  hsp' : s.gpr[rsp].toNat + 64 ≤ 2 ^ 64
  sep_ro : A.Sep s.gpr[rsp] rb rodata.length
  sep_key : A.Sep s.gpr[rsp] A.key 32
  sep_ptrs : A.Sep s.gpr[rsp] A.inputs (8 * A.n)
  sep_in : ∀ i, i < A.n → A.Sep s.gpr[rsp] (A.ptr s.mem i) (64 * A.blocks)
  out_scratch : OutsideRo (scratch s.gpr[rsp]) 472 A.out (32 * A.n)
  args_out : OutsideRo A.out (32 * A.n) (s.gpr[rsp] + UInt64.ofNat 8) 32

/-! ### the push area -/

theorem push_far (sp p a : UInt64) (d : Nat) (h : 512 ≤ sp.toNat) (hp : 472 ≤ (p - scratch sp).toNat)
    (ha : a.toNat = sp.toNat - d) (hd : 8 ≤ d) (hd' : d ≤ 48) : 8 ≤ (p - a).toNat := by
  have hs := scratch_toNat sp h
  rw [UInt64.toNat_sub, hs] at hp
  rw [UInt64.toNat_sub, ha]
  have := p.toNat_lt
  have := sp.toNat_lt
  omega

/-- a byte outside the scratch area is not touched by the pushes -/
theorem pushMem_outside (m : Memory) (sp v15 v14 v13 v12 v3 v5 : UInt64) (h : 512 ≤ sp.toNat) (p : UInt64)
    (hp : 472 ≤ (p - scratch sp).toNat) : pushMem m sp v15 v14 v13 v12 v3 v5 p = m p := by
  have e8 : (8 : UInt64).toNat = 8 := rfl
  have hs := sp.toNat_lt
  have a1 : (sp - 8).toNat = sp.toNat - 8 := by rw [UInt64.toNat_sub, e8]; omega
  have a2 : (sp - 8 - 8).toNat = sp.toNat - 16 := by rw [UInt64.toNat_sub, a1, e8]; omega
  have a3 : (sp - 8 - 8 - 8).toNat = sp.toNat - 24 := by rw [UInt64.toNat_sub, a2, e8]; omega
  have a4 : (sp - 8 - 8 - 8 - 8).toNat = sp.toNat - 32 := by rw [UInt64.toNat_sub, a3, e8]; omega
  have a5 : (sp - 8 - 8 - 8 - 8 - 8).toNat = sp.toNat - 40 := by rw [UInt64.toNat_sub, a4, e8]; omega
  have a6 : (sp - 8 - 8 - 8 - 8 - 8 - 8).toNat = sp.toNat - 48 := by rw [UInt64.toNat_sub, a5, e8]; omega
  unfold pushMem
  rw [store64_outside _ _ _ _ (push_far sp p _ 48 h hp a6 (by omega) (by omega)),
    store64_outside _ _ _ _ (push_far sp p _ 40 h hp a5 (by omega) (by omega)),
    store64_outside _ _ _ _ (push_far sp p _ 32 h hp a4 (by omega) (by omega)),
    store64_outside _ _ _ _ (push_far sp p _ 24 h hp a3 (by omega) (by omega)),
    store64_outside _ _ _ _ (push_far sp p _ 16 h hp a2 (by omega) (by omega)),
    store64_outside _ _ _ _ (push_far sp p _ 8 h hp a1 (by omega) (by omega))]

/-- a region outside the scratch area and outside `out` reads the same after the pushes and any write into `out` -/
theorem sameOn_sep (A : HmArgs) (m : Memory) (sp v15 v14 v13 v12 v3 v5 : UInt64) (h : 512 ≤ sp.toNat) (q : UInt64) (k : Nat)
    (hq : A.Sep sp q k) (bs : List UInt8) (hbs : bs.length ≤ 32 * A.n) :
    SameOn m (writeBytes (pushMem m sp v15 v14 v13 v12 v3 v5) A.out bs) q k := by
  intro i hi
  rw [writeBytes_outside _ _ _ _ hbs _ (hq.2 i hi)]
  exact pushMem_outside m sp _ _ _ _ _ _ h _ (hq.1 i hi)

/-- the stack arguments lie above the scratch area -/
theorem args_scratch (sp : UInt64) (h : 512 ≤ sp.toNat) (h' : sp.toNat + 64 ≤ 2 ^ 64) (o k : Nat) (hk : o + k ≤ 64) :
    OutsideRo (scratch sp) 472 (sp + UInt64.ofNat o) k := by
  intro i hi
  have hs := scratch_toNat sp h
  rw [addr_add, UInt64.toNat_sub, UInt64.toNat_add, hs, UInt64.toNat_ofNat']
  have : (o + i) % 2 ^ 64 = o + i := by omega
  rw [this]
  omega


/-! ### what the routine reads, in terms of the entry memory -/

theorem HmArgs.Sep.mono {A : HmArgs} {sp q : UInt64} {k : Nat} (h : A.Sep sp q k) (o k' : Nat) (hk : o + k' ≤ k) :
    A.Sep sp (q + UInt64.ofNat o) k' :=
  ⟨h.1.mono o k' hk, h.2.mono o k' hk⟩

/-- the memory after the six pushes of the prologue -/
def entryM1 (s : State) : Memory :=
  pushMem s.mem s.gpr[rsp] s.gpr[r15] s.gpr[r14] s.gpr[r13] s.gpr[r12] s.gpr[rbx] s.gpr[rbp]

section
variable {rb : UInt64} {s : State} {A : HmArgs} (E : Entry rb s A)
include E

theorem sep_args (o k : Nat) (ho : 8 ≤ o) (hk : o + k ≤ 40) : A.Sep s.gpr[rsp] (s.gpr[rsp] + UInt64.ofNat o) k := by
  refine ⟨args_scratch _ E.hsp E.hsp' o k (by omega), ?_⟩
  have := E.args_out.mono (o - 8) k (by omega)
  rw [addr_add] at this
  have e : 8 + (o - 8) = o := by omega
  rw [e] at this
  exact this

theorem entry_sameOn (q : UInt64) (k : Nat) (hq : A.Sep s.gpr[rsp] q k) (bs : List UInt8) (hbs : bs.length ≤ 32 * A.n) :
    SameOn s.mem (writeBytes (entryM1 s) A.out bs) q k :=
  sameOn_sep A s.mem _ _ _ _ _ _ _ E.hsp q k hq bs hbs

/-- the key, the input pointers, the blocks and `flags_start` as the loop reads them are those of the entry memory -/
theorem entry_reads : Reads (entryM1 s) A.out A.key (rbpOf s.gpr[rsp]) A.inputs A.n A.blocks (readWords s.mem A.key 8)
    (A.ptr s.mem) (fun i b => memBlock s.mem (A.ptr s.mem i) b) A.flagsStart where
  key := by
    intro bs hbs
    rw [keyRaw_eq]
    exact (entry_sameOn E _ _ E.sep_key bs hbs).readWords 8 (by omega)
  ptr := by
    intro bs hbs i hi
    exact (entry_sameOn E _ _ (E.sep_ptrs.mono (8 * i) 8 (by omega)) bs hbs).load64 (by omega)
  blk := by
    intro bs hbs i hi b hb
    unfold memBlock
    exact (entry_sameOn E _ _ ((E.sep_in i hi).mono (64 * b) 64 (by omega)) bs hbs).readWords 16 (by omega)
  fs := by
    intro bs hbs
    have e : rbpOf s.gpr[rsp] + dispU 64 = s.gpr[rsp] + UInt64.ofNat (64 - 48) := rbp_disp _ 64 (by omega)
    rw [e]
    have := (entry_sameOn E _ _ (sep_args E 16 1 (by omega) (by omega)) bs hbs).byte (by omega)
    rw [this]
    exact E.arg8

theorem entry_M1_arg (o k : Nat) (ho : 8 ≤ o) (hk : o + k ≤ 40) : SameOn s.mem (entryM1 s) (s.gpr[rsp] + UInt64.ofNat o) k := by
  have := entry_sameOn E _ _ (sep_args E o k ho hk) [] (by simp)
  rwa [writeBytes_nil] at this

/-! ### the logged references are harmless -/

theorem refOk_load (q : UInt64) (k : Nat) (hq : OutsideRo (scratch s.gpr[rsp]) 472 q k) :
    RefOk rodata rb (frameBase s.gpr[rsp]) (false, q, k) :=
  ⟨outside_frame_of_scratch _ E.hsp q k hq, by intro h; cases h⟩

theorem refOk_store (q : UInt64) (k : Nat) (hq : OutsideRo (scratch s.gpr[rsp]) 472 q k) (hq' : OutsideRo rb rodata.length q k) :
    RefOk rodata rb (frameBase s.gpr[rsp]) (true, q, k) :=
  ⟨outside_frame_of_scratch _ E.hsp q k hq, fun _ => hq'⟩

theorem proLog_ok : ∀ r ∈ proLog (rbpOf s.gpr[rsp]), RefOk rodata rb (frameBase s.gpr[rsp]) r := by
  intro r hr
  simp only [proLog, List.mem_cons, List.mem_nil_iff, or_false] at hr
  rcases hr with rfl | rfl | rfl
  · have e : rbpOf s.gpr[rsp] + dispU 80 = s.gpr[rsp] + UInt64.ofNat (80 - 48) := rbp_disp _ 80 (by omega)
    rw [e]
    exact refOk_load E _ _ (args_scratch _ E.hsp E.hsp' 32 8 (by omega))
  · have e : rbpOf s.gpr[rsp] + dispU 56 = s.gpr[rsp] + UInt64.ofNat (56 - 48) := rbp_disp _ 56 (by omega)
    rw [e]
    exact refOk_load E _ _ (args_scratch _ E.hsp E.hsp' 8 1 (by omega))
  · have e : rbpOf s.gpr[rsp] + dispU 72 = s.gpr[rsp] + UInt64.ofNat (72 - 48) := rbp_disp _ 72 (by omega)
    rw [e]
    exact refOk_load E _ _ (args_scratch _ E.hsp E.hsp' 24 1 (by omega))


omit E in
theorem mem_ldLogAt {p8 p9 p10 p11 d : UInt64} {r : Ref} (h : r ∈ ldLogAt p8 p9 p10 p11 d) :
    ∃ p, (p = p8 ∨ p = p9 ∨ p = p10 ∨ p = p11) ∧
      (r = (false, p + d + dispU (-64), 16) ∨ r = (false, p + d + dispU (-48), 16) ∨ r = (false, p + d + dispU (-32), 16)
        ∨ r = (false, p + d + dispU (-16), 16)) := by
  simp only [ldLogAt, List.flatMap_cons, List.flatMap_nil, List.map_cons, List.map_nil, List.append_nil, List.mem_append,
    List.mem_cons, List.mem_nil_iff, or_false] at h
  rcases h with ((h | h | h | h) | (h | h | h | h) | (h | h | h | h) | (h | h | h | h))
  · exact ⟨p8, Or.inl rfl, Or.inl h⟩
  · exact ⟨p9, Or.inr (Or.inl rfl), Or.inl h⟩
  · exact ⟨p10, Or.inr (Or.inr (Or.inl rfl)), Or.inl h⟩
  · exact ⟨p11, Or.inr (Or.inr (Or.inr rfl)), Or.inl h⟩
  · exact ⟨p8, Or.inl rfl, Or.inr (Or.inl h)⟩
  · exact ⟨p9, Or.inr (Or.inl rfl), Or.inr (Or.inl h)⟩
  · exact ⟨p10, Or.inr (Or.inr (Or.inl rfl)), Or.inr (Or.inl h)⟩
  · exact ⟨p11, Or.inr (Or.inr (Or.inr rfl)), Or.inr (Or.inl h)⟩
  · exact ⟨p8, Or.inl rfl, Or.inr (Or.inr (Or.inl h))⟩
  · exact ⟨p9, Or.inr (Or.inl rfl), Or.inr (Or.inr (Or.inl h))⟩
  · exact ⟨p10, Or.inr (Or.inr (Or.inl rfl)), Or.inr (Or.inr (Or.inl h))⟩
  · exact ⟨p11, Or.inr (Or.inr (Or.inr rfl)), Or.inr (Or.inr (Or.inl h))⟩
  · exact ⟨p8, Or.inl rfl, Or.inr (Or.inr (Or.inr h))⟩
  · exact ⟨p9, Or.inr (Or.inl rfl), Or.inr (Or.inr (Or.inr h))⟩
  · exact ⟨p10, Or.inr (Or.inr (Or.inl rfl)), Or.inr (Or.inr (Or.inr h))⟩
  · exact ⟨p11, Or.inr (Or.inr (Or.inr rfl)), Or.inr (Or.inr (Or.inr h))⟩

omit E in
theorem mem_loopLog {p8 p9 p10 p11 : UInt64} {r : Ref} (n : Nat) : ∀ j, r ∈ loopLog p8 p9 p10 p11 n j →
    ∃ j', j ≤ j' ∧ j' < j + n ∧ r ∈ ldLogAt p8 p9 p10 p11 (UInt64.ofNat (64 * (j' + 1))) := by
  induction n with
  | zero => intro j h; cases h
  | succ n ih =>
    intro j h
    rw [loopLog, List.mem_append] at h
    rcases h with h | h
    · exact ⟨j, by omega, by omega, h⟩
    · obtain ⟨j', h1, h2, h3⟩ := ih (j + 1) h
      exact ⟨j', by omega, by omega, h3⟩

omit E in
/-- the address of a block load, counted from the start of the input -/
theorem load_addr (p : UInt64) (j : Nat) :
    p + UInt64.ofNat (64 * (j + 1)) + dispU (-64) = p + UInt64.ofNat (64 * j + 0) ∧
    p + UInt64.ofNat (64 * (j + 1)) + dispU (-48) = p + UInt64.ofNat (64 * j + 16) ∧
    p + UInt64.ofNat (64 * (j + 1)) + dispU (-32) = p + UInt64.ofNat (64 * j + 32) ∧
    p + UInt64.ofNat (64 * (j + 1)) + dispU (-16) = p + UInt64.ofNat (64 * j + 48) := by
  refine ⟨?_, ?_, ?_, ?_⟩
  · have := add_disp_neg p (64 * (j + 1)) 64 (by omega) (by omega)
    rwa [show 64 * (j + 1) - 64 = 64 * j + 0 by omega] at this
  · have := add_disp_neg p (64 * (j + 1)) 48 (by omega) (by omega)
    rwa [show 64 * (j + 1) - 48 = 64 * j + 16 by omega] at this
  · have := add_disp_neg p (64 * (j + 1)) 32 (by omega) (by omega)
    rwa [show 64 * (j + 1) - 32 = 64 * j + 32 by omega] at this
  · have := add_disp_neg p (64 * (j + 1)) 16 (by omega) (by omega)
    rwa [show 64 * (j + 1) - 16 = 64 * j + 48 by omega] at this

/-- the memory references of an iteration of the outer loop: loads from the key, the pointer array, the stack arguments and the
inputs (all outside the scratch area, so outside the frame), stores into `out` (outside the scratch area and `.rodata`) -/
theorem outerLog_ok (q : Nat) (hq : 4 * q + 4 ≤ A.n) (bs : List UInt8) (hbs : bs.length ≤ 32 * A.n) :
    ∀ r ∈ outerLog (writeBytes (entryM1 s) A.out bs) A.key (rbpOf s.gpr[rsp]) (A.out + UInt64.ofNat (128 * q))
      (A.inputs + UInt64.ofNat (32 * q)) A.blocks, RefOk rodata rb (frameBase s.gpr[rsp]) r := by
  intro r hr
  have R := entry_reads E
  -- the pointers of the group
  have hptr : ∀ l : Nat, l < 4 →
      ptrAt (writeBytes (entryM1 s) A.out bs) (A.inputs + UInt64.ofNat (32 * q)) (l : Int) = A.ptr s.mem (4 * q + l) := by
    intro l hl
    unfold ptrAt
    have e : A.inputs + UInt64.ofNat (32 * q) + dispU (8 * (l : Int)) = A.inputs + UInt64.ofNat (8 * (4 * q + l)) := by
      have : dispU (8 * (l : Int)) = UInt64.ofNat (8 * l) := by
        match l, hl with | 0, _ | 1, _ | 2, _ | 3, _ => rfl
      rw [this, addr_add]
      congr 2
      omega
    rw [e]
    exact R.ptr bs hbs _ (by omega)
  unfold outerLog at hr
  rcases List.mem_append.mp hr with hr | hr
  · rcases List.mem_append.mp hr with hr | hr
    · -- head
      simp only [headLog, List.mem_cons, List.mem_nil_iff, or_false] at hr
      have z : ∀ (x : UInt64) (d : Nat), x + dispU (d : Int) = x + UInt64.ofNat d := fun _ _ => rfl
      rcases hr with rfl | rfl | rfl | rfl | rfl | rfl | rfl
      · exact refOk_load E _ _ (E.sep_key.1.mono 0 16 (by omega))
      · exact refOk_load E _ _ (E.sep_key.1.mono 16 16 (by omega))
      · have := E.sep_ptrs.1.mono (32 * q + 0) 8 (by omega)
        rw [← addr_add] at this
        exact refOk_load E _ _ this
      · have := E.sep_ptrs.1.mono (32 * q + 8) 8 (by omega)
        rw [← addr_add] at this
        exact refOk_load E _ _ this
      · have := E.sep_ptrs.1.mono (32 * q + 16) 8 (by omega)
        rw [← addr_add] at this
        exact refOk_load E _ _ this
      · have := E.sep_ptrs.1.mono (32 * q + 24) 8 (by omega)
        rw [← addr_add] at this
        exact refOk_load E _ _ this
      · have e : rbpOf s.gpr[rsp] + dispU 64 = s.gpr[rsp] + UInt64.ofNat (64 - 48) := rbp_disp _ 64 (by omega)
        rw [e]
        exact refOk_load E _ _ (args_scratch _ E.hsp E.hsp' 16 1 (by omega))
    · -- the block loads
      obtain ⟨j, _, hj, hr⟩ := mem_loopLog A.blocks 0 hr
      obtain ⟨p, hp, hr⟩ := mem_ldLogAt hr
      have hP : ∃ l, l < 4 ∧ p = A.ptr s.mem (4 * q + l) := by
        rcases hp with rfl | rfl | rfl | rfl
        · exact ⟨0, by omega, hptr 0 (by omega)⟩
        · exact ⟨1, by omega, hptr 1 (by omega)⟩
        · exact ⟨2, by omega, hptr 2 (by omega)⟩
        · exact ⟨3, by omega, hptr 3 (by omega)⟩
      obtain ⟨l, hl, rfl⟩ := hP
      have hin := (E.sep_in (4 * q + l) (by omega)).1
      obtain ⟨a1, a2, a3, a4⟩ := load_addr (A.ptr s.mem (4 * q + l)) j
      rcases hr with rfl | rfl | rfl | rfl
      · rw [a1]; exact refOk_load E _ _ (hin.mono _ 16 (by omega))
      · rw [a2]; exact refOk_load E _ _ (hin.mono _ 16 (by omega))
      · rw [a3]; exact refOk_load E _ _ (hin.mono _ 16 (by omega))
      · rw [a4]; exact refOk_load E _ _ (hin.mono _ 16 (by omega))
  · -- the stores
    simp only [outLog, List.map_cons, List.map_nil, List.mem_cons, List.mem_nil_iff, or_false] at hr
    have hro : OutsideRo rb rodata.length A.out (32 * A.n) := E.sep_ro.2.symm
    have key : ∀ d : Nat, d + 16 ≤ 128 →
        RefOk rodata rb (frameBase s.gpr[rsp]) (true, A.out + UInt64.ofNat (128 * q) + UInt64.ofNat d, 16) := by
      intro d hd
      rw [addr_add]
      exact refOk_store E _ _ (E.out_scratch.mono _ 16 (by omega)) (hro.mono _ 16 (by omega))
    rcases hr with rfl | rfl | rfl | rfl | rfl | rfl | rfl | rfl
    · exact key 0 (by omega)
    · exact key 32 (by omega)
    · exact key 64 (by omega)
    · exact key 96 (by omega)
    · exact key 16 (by omega)
    · exact key 48 (by omega)
    · exact key 80 (by omega)
    · exact key 112 (by omega)


/-! ### the bytes to be written -/

omit E in
theorem state_eta' (s : State) (hpc : s.pc = 0) (hst : s.status = .running) (hok : s.ok = true) :
    s = ⟨s.xmm,
         #v[s.gpr[rax], s.gpr[rcx], s.gpr[rdx], s.gpr[rbx], s.gpr[rsp], s.gpr[rbp], s.gpr[rsi], s.gpr[rdi],
            s.gpr[r8], s.gpr[r9], s.gpr[r10], s.gpr[r11], s.gpr[r12], s.gpr[r13], s.gpr[r14], s.gpr[r15]],
         s.zf, s.cf, s.mem, 0, .running, true⟩ := by
  obtain ⟨x, g, z, c, m, p, st, ok⟩ := s
  simp only at hpc hst hok
  subst hpc hst hok
  congr 1
  exact vec16_eta g

/-- the bytes that the routine must write at `out`: the chaining values of the inputs, one after the other -/
def HmArgs.outBytes (A : HmArgs) (m : Memory) : List UInt8 :=
  _root_.B3.AsmSem.Many2.outBytes (readWords m A.key 8) (fun i b => memBlock m (A.ptr m i) b) A.blocks A.counter A.incr A.flags A.flagsStart A.flagsEnd A.n

end
end B3.AsmSem.Many2
