/- the 1-input tail of `blake3_hash_many_sse2` as a whole (instructions 1640..1745) on the frame machine: the input whose address
is at `[rdi]` is hashed from the key, its chaining value stored at `[rbx]` -/
import B3.Asm.Many2T1Loop
import B3.Asm.Many2Outer
namespace B3.AsmSem.Many2
open B3 B3.Simd B3.AsmSem B3.Gen.AsmSse2Many

/-- the memory references of the 1-input tail, in order -/
def t1Log (m : Memory) (g1 g5 bx di : UInt64) (B : Nat) : List Ref :=
  t1SetupLog g1 di g5 ++ t1LoopLog (ptrAt m di 0) B 0 ++ [(true, bx + dispU 0, 16), (true, bx + dispU 16, 16)]

theorem store2_cv (m : Memory) (p : UInt64) (H : CV) :
    store128 (store128 m (p + dispU 0) (cvRow0 H)) (p + dispU 16) (cvRow1 H) = writeBytes m p (bytesOfWords H) := by
  conv => rhs; rw [vec8_eta H]
  exact store2_eq m p H[0] H[1] H[2] H[3] H[4] H[5] H[6] H[7]

/-- **the 1-input tail**: instructions 1640..1745 for `B ≥ 1` blocks: the chaining value of the input at `[rdi]` (lane 0 of the
counter vectors) is written at `rbx`; the registers that `OuterState` tracks and the frame are unchanged; ends at 1609 -/
theorem t1_tail (rb : UInt64) (B : Nat) (hB : 64 * B < 2 ^ 64) (hB0 : 0 < B) (bx si di g1 g4 g5 g12 g13 : UInt64)
    (lo hi f19 f20 inc : V4) (m : Memory) (z c : Bool) (s : StateG FMem)
    (hs : OuterState bx si di g1 g4 g5 g12 g13 (UInt64.ofNat (64 * B)) lo hi f19 f20 inc m z c 1863 s) :
    ∃ (k : Nat) (t : StateG FMem) (z' c' : Bool), Run rodata rb hash_many k s (t1Log m g1 g5 bx di B) t ∧
      OuterState bx si di g1 g4 g5 g12 g13 (UInt64.ofNat (64 * B)) lo hi f19 f20 inc
        (writeBytes m bx (bytesOfWords (groupCV m g1 g5 g12 g13 di lo hi B 0))) z' c' 1609 t := by
  obtain ⟨x0, x1, x2, x3, x4, x5, x6, x7, x8, x9, x10, x11, x12, x13, x14, x15, f0, f1, f2, f3, f4, f5, f6, f7, f8, f9, f10, f11, f12,
    f13, f14, f15, f16, ax, dx, a8, a9, a10, a11, r14, rfl⟩ := hs
  -- setup
  have h1 : Run rodata rb hash_many 9 _ _ _ := t1_setup_raw rb x0 x1 x2 x3 x4 x5 x6 x7 x8 x9 x10 x11 x12 x13 x14 x15
    ax g1 dx bx g4 g5 si di a8 a9 a10 a11 g12 g13 r14 (UInt64.ofNat (64 * B)) z c
    f0 f1 f2 f3 f4 f5 f6 f7 f8 f9 f10 f11 f12 f13 f14 f15 f16 lo hi f19 f20 inc m
  rw [xor_self_trunc] at h1
  have e0 : load128 m (g1 + dispU 0) = cvRow0 (keyRaw m g1) := vec4_eta _
  have e1 : load128 m (g1 + dispU 16) = cvRow1 (keyRaw m g1) := vec4_eta _
  rw [e0, e1] at h1
  -- the blocks
  obtain ⟨k2, t2, h2, x2', x3', x4', x5', x6', x7', x8', x9', x10', x11', x12', j2, j3, x14', x15', r14', z2, c2, rfl⟩ :=
    t1_loop rb B hB lo[0] hi[0] g1 bx g4 g5 si di (load64 m (di + dispU 0)) a9 a10 a11 g12 g13
      #v[f0, f1, f2, f3, f4, f5, f6, f7, f8, f9, f10, f11, f12, f13, f14, f15, f16, lo, hi, f19, f20, inc] m B 0 (by omega) hB0
      (keyRaw m g1) (headRax m g5 g13) _ ⟨x2, x3, x4, x5, x6, x7, x8, x9, x10, x11, x12, 0, 0, _, _, r14, _, _, rfl⟩
  -- the two stores
  have h3 := (h1.trans h2).trans (t1_store_raw rb _ _ _ _ _ _ _ _ _ _ _ _ _ _ _ _ _ _ _ _ _)
  rw [store2_cv] at h3
  exact ⟨_, _, _, _, h3, _, _, _, _, _, _, _, _, _, _, _, _, _, _, _, _, _, _, _, _, _, _, _, _, _, _, _, _, _, _, _, _, _, _, _, _, _, _, _, _, rfl⟩

end B3.AsmSem.Many2
