/- the 1-input tail of `blake3_hash_many_sse2` (instructions 1863..1982 of the generated list): the pieces that differ from the
SSE4.1 routine, evaluated in the kernel on the frame machine (the jumps, `dec al`, the feed-forward and the stores are in
`Many2T1.lean`).  There are no rotation tables: XMM14 is a scratch register (rotation by 8 = `psrld 8; pslld 24; pxor`), XMM15 is
not touched; the counter row is built by `movd; movd; punpckldq` and completed by `movq; punpcklqdq` (block length 64 and the
flags word travel through `rax = flags << 32 | 64`); the two `pblendw` of the message permutation are `pand; pand; por` with
the mask tables of `.rodata` (`Sse2.permMasked`, as in the single-block routine `blake3_compress_in_place_sse2`).
  1863..1871  key rows, the counter row from lane 0 of the counter vectors, the input pointer, `eax`, `edx := 0`
  1872..1896  flags word of the block, `rdx += 64`, IV row, counter row with block length and flags, the block loaded and grouped, `mov al, 7`
  1897..1950  one round on the rows
  1953..1974  message permutation, `jmp 9b` -/
import B3.Asm.Many2T1
import B3.Asm.Sse2CompressProof
namespace B3.AsmSem.Many2
open B3 B3.Simd B3.AsmSem B3.Gen.AsmSse2Many

/-- everything but the scratch registers XMM8 .. XMM12 and XMM14 -/
structure TView2 where
  x0 : V4
  x1 : V4
  x2 : V4
  x3 : V4
  x4 : V4
  x5 : V4
  x6 : V4
  x7 : V4
  x13 : V4
  x15 : V4
  gpr : Vector UInt64 16
  zf : Bool
  cf : Bool
  frame : Vector V4 22
  mem : Memory
  pc : Nat
  status : Status
  ok : Bool
  log : List Ref
  spOk : Bool

def tview2 (a : FState) : TView2 :=
  ⟨a.s.xmm[0], a.s.xmm[1], a.s.xmm[2], a.s.xmm[3], a.s.xmm[4], a.s.xmm[5], a.s.xmm[6], a.s.xmm[7], a.s.xmm[13],
   a.s.xmm[15], a.s.gpr, a.s.zf, a.s.cf, a.s.mem.frame, a.s.mem.mem, a.s.pc, a.s.status, a.s.ok, a.log, a.spOk⟩

theorem of_tview2 {a : FState} {v : TView2} (h : tview2 a = v) :
    a = ⟨⟨#v[v.x0, v.x1, v.x2, v.x3, v.x4, v.x5, v.x6, v.x7, a.s.xmm[8], a.s.xmm[9], a.s.xmm[10], a.s.xmm[11], a.s.xmm[12],
            v.x13, a.s.xmm[14], v.x15], v.gpr, v.zf, v.cf, ⟨v.frame, v.mem⟩, v.pc, v.status, v.ok⟩, v.log, v.spOk⟩ := by
  subst h
  obtain ⟨⟨x, g, z, c, ⟨F, m⟩, p, st, ok⟩, l, b⟩ := a
  simp only [tview2]
  congr 2
  exact vec16_eta x

theorem run_of_tview2 {rb : UInt64} {n : Nat} {s : StateG FMem} {x0 x1 x2 x3 x4 x5 x6 x7 x13 x15 : V4} {g : Vector UInt64 16}
    {z c : Bool} {F : Vector V4 22} {m : Memory} {pc : Nat} {l : List Ref}
    (h : tview2 (frun rodata rb hash_many n ⟨s, [], true⟩)
      = ⟨x0, x1, x2, x3, x4, x5, x6, x7, x13, x15, g, z, c, F, m, pc, .running, true, l, true⟩) :
    ∃ j8 j9 j10 j11 j12 j14, Run rodata rb hash_many n s l
      (mkS #v[x0, x1, x2, x3, x4, x5, x6, x7, j8, j9, j10, j11, j12, x13, j14, x15] g z c F m pc) :=
  ⟨_, _, _, _, _, _, of_tview2 h⟩

/-! ### 1863..1871 -/

theorem t1_setup_raw (rb : UInt64) (x0 x1 x2 x3 x4 x5 x6 x7 x8 x9 x10 x11 x12 x13 x14 x15 : V4) (g0 g1 g2 g3 g4 g5 g6 g7 g8 g9 g10 g11 g12 g13 g14 g15 : UInt64) (z c : Bool) (f0 f1 f2 f3 f4 f5 f6 f7 f8 f9 f10 f11 f12 f13 f14 f15 f16 f17 f18 f19 f20 f21 : V4) (m : Memory) :
    frun rodata rb hash_many 9 ⟨mkS #v[x0, x1, x2, x3, x4, x5, x6, x7, x8, x9, x10, x11, x12, x13, x14, x15] #v[g0, g1, g2, g3, g4, g5, g6, g7, g8, g9, g10, g11, g12, g13, g14, g15] z c #v[f0, f1, f2, f3, f4, f5, f6, f7, f8, f9, f10, f11, f12, f13, f14, f15, f16, f17, f18, f19, f20, f21] m 1863, [], true⟩
      = ⟨mkS #v[load128 m (g1 + dispU 0), load128 m (g1 + dispU 16), x2, x3, x4, x5, x6, x7, x8, x9, x10, x11, x12, #v[f17[0], f18[0], 0, 0], #v[f18[0], 0, 0, 0], x15]
          #v[headRax m g5 g13, g1, trunc .d32 (trunc .d32 g2 ^^^ trunc .d32 g2), g3, g4, g5, g6, g7, load64 m (g7 + dispU 0), g9, g10, g11, g12, g13, g14, g15]
          (trunc .d32 g2 ^^^ trunc .d32 g2 == 0) false #v[f0, f1, f2, f3, f4, f5, f6, f7, f8, f9, f10, f11, f12, f13, f14, f15, f16, f17, f18, f19, f20, f21] m 1872,
         t1SetupLog g1 g7 g5, true⟩ := by
  kernel_rfl

/-! ### 1872..1896 -/

/-- what `shl rax, 32; or rax, 64` leave in `rax`: the flags word in the high half, the block length 64 in the low half -/
def t1Rax (a : UInt64) : UInt64 := (a <<< UInt64.ofNat 32) ||| UInt64.ofNat 64

theorem t1_head_raw (rb : UInt64) (c0 c1 x2 x3 x4 x5 x6 x7 x8 x9 x10 x11 x12 x14 x15 : V4) (lo hi bl j3 : UInt32) (g0 g1 g2 g3 g4 g5 g6 g7 g8 g9 g10 g11 g12 g13 g14 g15 : UInt64) (z c : Bool)
    (F : Vector V4 22) (m : Memory) :
    tview2 (frun rodata rb hash_many 25 ⟨mkS #v[c0, c1, x2, x3, x4, x5, x6, x7, x8, x9, x10, x11, x12, #v[lo, hi, bl, j3], x14, x15]
        #v[g0, g1, g2, g3, g4, g5, g6, g7, g8, g9, g10, g11, g12, g13, g14, g15] z c F m 1872, [], true⟩)
      = ⟨c0, c1, BLAKE3_IV,
         #v[lo, hi, (t1Rax (p0Rax g0 g12 (lastBlock g2 g15))).toUInt32, (t1Rax (p0Rax g0 g12 (lastBlock g2 g15)) >>> 32).toUInt32],
         t1Grp0 m (g8 + (g2 + UInt64.ofNat 64)), t1Grp1 m (g8 + (g2 + UInt64.ofNat 64)), t1Grp2 m (g8 + (g2 + UInt64.ofNat 64)),
         t1Grp3 m (g8 + (g2 + UInt64.ofNat 64)), #v[lo, hi, bl, j3], x15,
         #v[merge .b8 (t1Rax (p0Rax g0 g12 (lastBlock g2 g15))) (UInt64.ofNat 7), g1, g2 + UInt64.ofNat 64, g3, g4, g5, g6, g7, g8, g9, g10, g11, g12, g13, trunc .d32 (trunc .d32 g0), g15],
         t1Rax (p0Rax g0 g12 (lastBlock g2 g15)) == 0, false, F, m, 1897, .running, true,
         t1HeadLog (g8 + (g2 + UInt64.ofNat 64)), true⟩ := by
  kernel_rfl

/-! ### 1897..1950: one round -/

theorem t1_round_raw (rb : UInt64) (S W : St) (j8 j9 j10 j11 j12 x13 j14 x15 : V4) (g : Vector UInt64 16) (z c : Bool) (F : Vector V4 22)
    (m : Memory) :
    tview2 (frun rodata rb hash_many 54 ⟨mkS #v[row S 0, row S 1, row S 2, row S 3, grp0 W, grp1 W, grp2 W, grp3 W, j8, j9, j10, j11, j12,
        x13, j14, x15] g z c F m 1897, [], true⟩)
      = ⟨row (roundP a16 a12 a8 a7 (eta16 S) (fun i => (eta16 W)[i])) 0, row (roundP a16 a12 a8 a7 (eta16 S) (fun i => (eta16 W)[i])) 1,
         row (roundP a16 a12 a8 a7 (eta16 S) (fun i => (eta16 W)[i])) 2, row (roundP a16 a12 a8 a7 (eta16 S) (fun i => (eta16 W)[i])) 3,
         grp0 W, grp1 W, grp2 W, grp3 W, x13, x15, g, z, c, F, m, 1951, .running, true, [], true⟩ := by
  kernel_rfl

/-! ### 1953..1974: the message permutation -/

theorem t1_perm_raw (rb : UInt64) (r0 r1 r2 r3 m0 m1 m2 m3 : V4) (j8 j9 j10 j11 j12 x13 x14 x15 : V4) (g : Vector UInt64 16) (z c : Bool)
    (F : Vector V4 22) (m : Memory) :
    tview2 (frun rodata rb hash_many 22 ⟨mkS #v[r0, r1, r2, r3, m0, m1, m2, m3, j8, j9, j10, j11, j12, x13, x14, x15]
        g z c F m 1953, [], true⟩)
      = ⟨r0, r1, r2, r3,
         (Sse2.permMasked m0 m1 m2 m3 PBLENDW_0x33_MASK PBLENDW_0xCC_MASK PBLENDW_0x3F_MASK PBLENDW_0xC0_MASK).1,
         (Sse2.permMasked m0 m1 m2 m3 PBLENDW_0x33_MASK PBLENDW_0xCC_MASK PBLENDW_0x3F_MASK PBLENDW_0xC0_MASK).2.1,
         (Sse2.permMasked m0 m1 m2 m3 PBLENDW_0x33_MASK PBLENDW_0xCC_MASK PBLENDW_0x3F_MASK PBLENDW_0xC0_MASK).2.2.1,
         (Sse2.permMasked m0 m1 m2 m3 PBLENDW_0x33_MASK PBLENDW_0xCC_MASK PBLENDW_0x3F_MASK PBLENDW_0xC0_MASK).2.2.2,
         x13, x15, g, z, c, F, m, 1897, .running, true, [], true⟩ := by
  kernel_rfl

/-- the masked permutation on the grouped words of `W` = the grouped words of `Spec.permute W` -/
theorem permMasked_eq2 (W : St) :
    Sse2.permMasked (grp0 W) (grp1 W) (grp2 W) (grp3 W) PBLENDW_0x33_MASK PBLENDW_0xCC_MASK PBLENDW_0x3F_MASK PBLENDW_0xC0_MASK
      = (grp0 (Spec.permute W), grp1 (Spec.permute W), grp2 (Spec.permute W), grp3 (Spec.permute W)) :=
  Sse2.permMasked_eq W

/-! ### the flags word and the block length out of `rax` -/

theorem t1Rax_lo (a : UInt64) : (t1Rax (trunc .d32 a)).toUInt32 = 64 := by
  unfold t1Rax
  apply UInt32.toNat_inj.mp
  show ((trunc .d32 a <<< UInt64.ofNat 32 ||| UInt64.ofNat 64).toNat) % 2 ^ 32 = 64
  rw [UInt64.toNat_or, Nat.or_mod_two_pow]
  have h1 : (trunc .d32 a <<< UInt64.ofNat 32).toNat % 2 ^ 32 = 0 := by
    rw [UInt64.toNat_shiftLeft]
    have : (UInt64.ofNat 32).toNat % 64 = 32 := by decide
    rw [this, Nat.shiftLeft_eq]
    omega
  rw [h1]
  decide

theorem t1Rax_hi (a : UInt64) : (t1Rax (trunc .d32 a) >>> 32).toUInt32 = (trunc .d32 a).toUInt32 := by
  unfold t1Rax
  apply UInt32.toNat_inj.mp
  show ((trunc .d32 a <<< UInt64.ofNat 32 ||| UInt64.ofNat 64) >>> 32).toNat % 2 ^ 32 = (trunc .d32 a).toNat % 2 ^ 32
  have hlt : (trunc .d32 a).toNat < 2 ^ 32 := by
    show (a.toUInt32.toUInt64).toNat < 2 ^ 32
    rw [UInt32.toNat_toUInt64]
    exact a.toUInt32.toNat_lt
  rw [UInt64.toNat_shiftRight, UInt64.toNat_or, UInt64.toNat_shiftLeft]
  have e1 : (UInt64.ofNat 32).toNat % 64 = 32 := by decide
  have e2 : (32 : UInt64).toNat % 64 = 32 := by decide
  have e3 : (UInt64.ofNat 64).toNat = 64 := by decide
  rw [e1, e2, e3, Nat.shiftLeft_eq, Nat.mod_eq_of_lt (by omega : (trunc .d32 a).toNat * 2 ^ 32 < 2 ^ 64)]
  rw [← Nat.shiftLeft_eq, ← Nat.shiftLeft_add_eq_or_of_lt (by decide : 64 < 2 ^ 32), Nat.shiftLeft_eq, Nat.shiftRight_eq_div_pow]
  omega

end B3.AsmSem.Many2
