/- one block of the 4-way loop of `blake3_hash_many_sse2` on the frame machine: instructions 54..1363 of the generated
list, composed from the kernel-evaluated pieces (`ManyGpr`, `ManyLd`, `ManyR1a` .. `ManyR7b`).  Every lane goes through
`Spec.compress` (its first eight words) of its own block with its own counter words. -/
import B3.Asm.Many2Gpr
import B3.Asm.Many2Ld
import B3.Asm.Many2R1a
import B3.Asm.Many2R1b
import B3.Asm.Many2R2a
import B3.Asm.Many2R2b
import B3.Asm.Many2R3a
import B3.Asm.Many2R3b
import B3.Asm.Many2R4a
import B3.Asm.Many2R4b
import B3.Asm.Many2R5a
import B3.Asm.Many2R5b
import B3.Asm.Many2R6a
import B3.Asm.Many2R6b
import B3.Asm.Many2R7a
import B3.Asm.Many2R7b
namespace B3.AsmSem.Many2
open B3 B3.Simd B3.AsmSem B3.Gen.AsmSse2Many

/-- the new chaining value of a lane: counter given as two words -/
def laneCV (H : CV) (M : St) (lo hi fl : UInt32) : CV := ffw (Spec.rounds7 (initW H lo hi 64 fl) M)

theorem laneCV_eq (H : CV) (M : St) (t : UInt64) (fl : UInt32) :
    laneCV H M t.toUInt32 (t >>> 32).toUInt32 fl = first8 (Spec.compress H M t 64 fl) := by
  unfold laneCV Spec.compress
  rw [ffw_eq H, initState_eq]

/-- the fourteen half rounds and the feed-forward of a lane, as the pieces leave them, are `laneCV` -/
theorem lane_chain (H : CV) (M : St) (lo hi fl : UInt32) :
    ffw (halfB (eta16 (halfA (eta16 (halfB (eta16 (halfA (eta16 (halfB (eta16 (halfA (eta16 (halfB (eta16 (halfA (eta16
      (halfB (eta16 (halfA (eta16 (halfB (eta16 (halfA (eta16 (halfB (eta16 (halfA (initW (eta8 H) lo hi 64 fl) (eta16 M)))
      (permN 0 (eta16 M)))) (permN 1 (eta16 M)))) (permN 1 (eta16 M)))) (permN 2 (eta16 M)))) (permN 2 (eta16 M))))
      (permN 3 (eta16 M)))) (permN 3 (eta16 M)))) (permN 4 (eta16 M)))) (permN 4 (eta16 M)))) (permN 5 (eta16 M))))
      (permN 5 (eta16 M)))) (permN 6 (eta16 M)))) (permN 6 (eta16 M)))
      = laneCV H M lo hi fl := by
  simp only [eta16_eq, eta8_eq]
  have h0 : permN 0 M = M := rfl
  rw [h0, half_round, half_round, half_round, half_round, half_round, half_round, half_round]
  rfl

theorem Run.trans_nil {ro : List UInt8} {rb : UInt64} {p : List Instr} {n1 n2 : Nat} {s t u : StateG FMem} {l : List Ref}
    (h1 : Run ro rb p n1 s l t) (h2 : Run ro rb p n2 t [] u) : Run ro rb p (n1 + n2) s l u := by
  have := h1.trans h2
  rwa [List.append_nil] at this

theorem Run.nil_trans {ro : List UInt8} {rb : UInt64} {p : List Instr} {n1 n2 : Nat} {s t u : StateG FMem} {l : List Ref}
    (h1 : Run ro rb p n1 s [] t) (h2 : Run ro rb p n2 t l u) : Run ro rb p (n1 + n2) s l u := by
  have := h1.trans h2
  rwa [List.nil_append] at this

/-! ### the pieces as steps that extend a run -/

theorem step_r1b {rb : UInt64} {n : Nat} {s : StateG FMem} {l : List Ref} {S0 S1 S2 S3 M0 M1 M2 M3 : St} {j8 f17 f18 f19 f20 f21 : V4}
    {g : Vector UInt64 16} {z c : Bool} {m : Memory}
    (h : Run rodata rb hash_many n s l (roundS S0 S1 S2 S3 M0 M1 M2 M3 j8 f17 f18 f19 f20 f21 g z c m 251)) :
    ∃ j8', Run rodata rb hash_many (n + 100) s l
      (roundS (halfB (eta16 S0) (permN 0 (eta16 M0))) (halfB (eta16 S1) (permN 0 (eta16 M1))) (halfB (eta16 S2) (permN 0 (eta16 M2))) (halfB (eta16 S3) (permN 0 (eta16 M3))) M0 M1 M2 M3 j8' f17 f18 f19 f20 f21 g z c m 351) := by
  obtain ⟨j, hj⟩ := r1b rb S0 S1 S2 S3 M0 M1 M2 M3 j8 f17 f18 f19 f20 f21 g z c m
  exact ⟨j, h.trans_nil hj⟩

theorem step_r2a {rb : UInt64} {n : Nat} {s : StateG FMem} {l : List Ref} {S0 S1 S2 S3 M0 M1 M2 M3 : St} {j8 f17 f18 f19 f20 f21 : V4}
    {g : Vector UInt64 16} {z c : Bool} {m : Memory}
    (h : Run rodata rb hash_many n s l (roundS S0 S1 S2 S3 M0 M1 M2 M3 j8 f17 f18 f19 f20 f21 g z c m 351)) :
    ∃ j8', Run rodata rb hash_many (n + 100) s l
      (roundS (halfA (eta16 S0) (permN 1 (eta16 M0))) (halfA (eta16 S1) (permN 1 (eta16 M1))) (halfA (eta16 S2) (permN 1 (eta16 M2))) (halfA (eta16 S3) (permN 1 (eta16 M3))) M0 M1 M2 M3 j8' f17 f18 f19 f20 f21 g z c m 451) := by
  obtain ⟨j, hj⟩ := r2a rb S0 S1 S2 S3 M0 M1 M2 M3 j8 f17 f18 f19 f20 f21 g z c m
  exact ⟨j, h.trans_nil hj⟩

theorem step_r2b {rb : UInt64} {n : Nat} {s : StateG FMem} {l : List Ref} {S0 S1 S2 S3 M0 M1 M2 M3 : St} {j8 f17 f18 f19 f20 f21 : V4}
    {g : Vector UInt64 16} {z c : Bool} {m : Memory}
    (h : Run rodata rb hash_many n s l (roundS S0 S1 S2 S3 M0 M1 M2 M3 j8 f17 f18 f19 f20 f21 g z c m 451)) :
    ∃ j8', Run rodata rb hash_many (n + 100) s l
      (roundS (halfB (eta16 S0) (permN 1 (eta16 M0))) (halfB (eta16 S1) (permN 1 (eta16 M1))) (halfB (eta16 S2) (permN 1 (eta16 M2))) (halfB (eta16 S3) (permN 1 (eta16 M3))) M0 M1 M2 M3 j8' f17 f18 f19 f20 f21 g z c m 551) := by
  obtain ⟨j, hj⟩ := r2b rb S0 S1 S2 S3 M0 M1 M2 M3 j8 f17 f18 f19 f20 f21 g z c m
  exact ⟨j, h.trans_nil hj⟩

theorem step_r3a {rb : UInt64} {n : Nat} {s : StateG FMem} {l : List Ref} {S0 S1 S2 S3 M0 M1 M2 M3 : St} {j8 f17 f18 f19 f20 f21 : V4}
    {g : Vector UInt64 16} {z c : Bool} {m : Memory}
    (h : Run rodata rb hash_many n s l (roundS S0 S1 S2 S3 M0 M1 M2 M3 j8 f17 f18 f19 f20 f21 g z c m 551)) :
    ∃ j8', Run rodata rb hash_many (n + 100) s l
      (roundS (halfA (eta16 S0) (permN 2 (eta16 M0))) (halfA (eta16 S1) (permN 2 (eta16 M1))) (halfA (eta16 S2) (permN 2 (eta16 M2))) (halfA (eta16 S3) (permN 2 (eta16 M3))) M0 M1 M2 M3 j8' f17 f18 f19 f20 f21 g z c m 651) := by
  obtain ⟨j, hj⟩ := r3a rb S0 S1 S2 S3 M0 M1 M2 M3 j8 f17 f18 f19 f20 f21 g z c m
  exact ⟨j, h.trans_nil hj⟩

theorem step_r3b {rb : UInt64} {n : Nat} {s : StateG FMem} {l : List Ref} {S0 S1 S2 S3 M0 M1 M2 M3 : St} {j8 f17 f18 f19 f20 f21 : V4}
    {g : Vector UInt64 16} {z c : Bool} {m : Memory}
    (h : Run rodata rb hash_many n s l (roundS S0 S1 S2 S3 M0 M1 M2 M3 j8 f17 f18 f19 f20 f21 g z c m 651)) :
    ∃ j8', Run rodata rb hash_many (n + 100) s l
      (roundS (halfB (eta16 S0) (permN 2 (eta16 M0))) (halfB (eta16 S1) (permN 2 (eta16 M1))) (halfB (eta16 S2) (permN 2 (eta16 M2))) (halfB (eta16 S3) (permN 2 (eta16 M3))) M0 M1 M2 M3 j8' f17 f18 f19 f20 f21 g z c m 751) := by
  obtain ⟨j, hj⟩ := r3b rb S0 S1 S2 S3 M0 M1 M2 M3 j8 f17 f18 f19 f20 f21 g z c m
  exact ⟨j, h.trans_nil hj⟩

theorem step_r4a {rb : UInt64} {n : Nat} {s : StateG FMem} {l : List Ref} {S0 S1 S2 S3 M0 M1 M2 M3 : St} {j8 f17 f18 f19 f20 f21 : V4}
    {g : Vector UInt64 16} {z c : Bool} {m : Memory}
    (h : Run rodata rb hash_many n s l (roundS S0 S1 S2 S3 M0 M1 M2 M3 j8 f17 f18 f19 f20 f21 g z c m 751)) :
    ∃ j8', Run rodata rb hash_many (n + 100) s l
      (roundS (halfA (eta16 S0) (permN 3 (eta16 M0))) (halfA (eta16 S1) (permN 3 (eta16 M1))) (halfA (eta16 S2) (permN 3 (eta16 M2))) (halfA (eta16 S3) (permN 3 (eta16 M3))) M0 M1 M2 M3 j8' f17 f18 f19 f20 f21 g z c m 851) := by
  obtain ⟨j, hj⟩ := r4a rb S0 S1 S2 S3 M0 M1 M2 M3 j8 f17 f18 f19 f20 f21 g z c m
  exact ⟨j, h.trans_nil hj⟩

theorem step_r4b {rb : UInt64} {n : Nat} {s : StateG FMem} {l : List Ref} {S0 S1 S2 S3 M0 M1 M2 M3 : St} {j8 f17 f18 f19 f20 f21 : V4}
    {g : Vector UInt64 16} {z c : Bool} {m : Memory}
    (h : Run rodata rb hash_many n s l (roundS S0 S1 S2 S3 M0 M1 M2 M3 j8 f17 f18 f19 f20 f21 g z c m 851)) :
    ∃ j8', Run rodata rb hash_many (n + 100) s l
      (roundS (halfB (eta16 S0) (permN 3 (eta16 M0))) (halfB (eta16 S1) (permN 3 (eta16 M1))) (halfB (eta16 S2) (permN 3 (eta16 M2))) (halfB (eta16 S3) (permN 3 (eta16 M3))) M0 M1 M2 M3 j8' f17 f18 f19 f20 f21 g z c m 951) := by
  obtain ⟨j, hj⟩ := r4b rb S0 S1 S2 S3 M0 M1 M2 M3 j8 f17 f18 f19 f20 f21 g z c m
  exact ⟨j, h.trans_nil hj⟩

theorem step_r5a {rb : UInt64} {n : Nat} {s : StateG FMem} {l : List Ref} {S0 S1 S2 S3 M0 M1 M2 M3 : St} {j8 f17 f18 f19 f20 f21 : V4}
    {g : Vector UInt64 16} {z c : Bool} {m : Memory}
    (h : Run rodata rb hash_many n s l (roundS S0 S1 S2 S3 M0 M1 M2 M3 j8 f17 f18 f19 f20 f21 g z c m 951)) :
    ∃ j8', Run rodata rb hash_many (n + 100) s l
      (roundS (halfA (eta16 S0) (permN 4 (eta16 M0))) (halfA (eta16 S1) (permN 4 (eta16 M1))) (halfA (eta16 S2) (permN 4 (eta16 M2))) (halfA (eta16 S3) (permN 4 (eta16 M3))) M0 M1 M2 M3 j8' f17 f18 f19 f20 f21 g z c m 1051) := by
  obtain ⟨j, hj⟩ := r5a rb S0 S1 S2 S3 M0 M1 M2 M3 j8 f17 f18 f19 f20 f21 g z c m
  exact ⟨j, h.trans_nil hj⟩

theorem step_r5b {rb : UInt64} {n : Nat} {s : StateG FMem} {l : List Ref} {S0 S1 S2 S3 M0 M1 M2 M3 : St} {j8 f17 f18 f19 f20 f21 : V4}
    {g : Vector UInt64 16} {z c : Bool} {m : Memory}
    (h : Run rodata rb hash_many n s l (roundS S0 S1 S2 S3 M0 M1 M2 M3 j8 f17 f18 f19 f20 f21 g z c m 1051)) :
    ∃ j8', Run rodata rb hash_many (n + 100) s l
      (roundS (halfB (eta16 S0) (permN 4 (eta16 M0))) (halfB (eta16 S1) (permN 4 (eta16 M1))) (halfB (eta16 S2) (permN 4 (eta16 M2))) (halfB (eta16 S3) (permN 4 (eta16 M3))) M0 M1 M2 M3 j8' f17 f18 f19 f20 f21 g z c m 1151) := by
  obtain ⟨j, hj⟩ := r5b rb S0 S1 S2 S3 M0 M1 M2 M3 j8 f17 f18 f19 f20 f21 g z c m
  exact ⟨j, h.trans_nil hj⟩

theorem step_r6a {rb : UInt64} {n : Nat} {s : StateG FMem} {l : List Ref} {S0 S1 S2 S3 M0 M1 M2 M3 : St} {j8 f17 f18 f19 f20 f21 : V4}
    {g : Vector UInt64 16} {z c : Bool} {m : Memory}
    (h : Run rodata rb hash_many n s l (roundS S0 S1 S2 S3 M0 M1 M2 M3 j8 f17 f18 f19 f20 f21 g z c m 1151)) :
    ∃ j8', Run rodata rb hash_many (n + 100) s l
      (roundS (halfA (eta16 S0) (permN 5 (eta16 M0))) (halfA (eta16 S1) (permN 5 (eta16 M1))) (halfA (eta16 S2) (permN 5 (eta16 M2))) (halfA (eta16 S3) (permN 5 (eta16 M3))) M0 M1 M2 M3 j8' f17 f18 f19 f20 f21 g z c m 1251) := by
  obtain ⟨j, hj⟩ := r6a rb S0 S1 S2 S3 M0 M1 M2 M3 j8 f17 f18 f19 f20 f21 g z c m
  exact ⟨j, h.trans_nil hj⟩

theorem step_r6b {rb : UInt64} {n : Nat} {s : StateG FMem} {l : List Ref} {S0 S1 S2 S3 M0 M1 M2 M3 : St} {j8 f17 f18 f19 f20 f21 : V4}
    {g : Vector UInt64 16} {z c : Bool} {m : Memory}
    (h : Run rodata rb hash_many n s l (roundS S0 S1 S2 S3 M0 M1 M2 M3 j8 f17 f18 f19 f20 f21 g z c m 1251)) :
    ∃ j8', Run rodata rb hash_many (n + 100) s l
      (roundS (halfB (eta16 S0) (permN 5 (eta16 M0))) (halfB (eta16 S1) (permN 5 (eta16 M1))) (halfB (eta16 S2) (permN 5 (eta16 M2))) (halfB (eta16 S3) (permN 5 (eta16 M3))) M0 M1 M2 M3 j8' f17 f18 f19 f20 f21 g z c m 1351) := by
  obtain ⟨j, hj⟩ := r6b rb S0 S1 S2 S3 M0 M1 M2 M3 j8 f17 f18 f19 f20 f21 g z c m
  exact ⟨j, h.trans_nil hj⟩

theorem step_r7a {rb : UInt64} {n : Nat} {s : StateG FMem} {l : List Ref} {S0 S1 S2 S3 M0 M1 M2 M3 : St} {j8 f17 f18 f19 f20 f21 : V4}
    {g : Vector UInt64 16} {z c : Bool} {m : Memory}
    (h : Run rodata rb hash_many n s l (roundS S0 S1 S2 S3 M0 M1 M2 M3 j8 f17 f18 f19 f20 f21 g z c m 1351)) :
    ∃ j8', Run rodata rb hash_many (n + 100) s l
      (roundS (halfA (eta16 S0) (permN 6 (eta16 M0))) (halfA (eta16 S1) (permN 6 (eta16 M1))) (halfA (eta16 S2) (permN 6 (eta16 M2))) (halfA (eta16 S3) (permN 6 (eta16 M3))) M0 M1 M2 M3 j8' f17 f18 f19 f20 f21 g z c m 1451) := by
  obtain ⟨j, hj⟩ := r7a rb S0 S1 S2 S3 M0 M1 M2 M3 j8 f17 f18 f19 f20 f21 g z c m
  exact ⟨j, h.trans_nil hj⟩

theorem step_r7b {rb : UInt64} {n : Nat} {s : StateG FMem} {l : List Ref} {S0 S1 S2 S3 M0 M1 M2 M3 : St} {j8 f17 f18 f19 f20 f21 : V4}
    {g : Vector UInt64 16} {z c : Bool} {m : Memory}
    (h : Run rodata rb hash_many n s l (roundS S0 S1 S2 S3 M0 M1 M2 M3 j8 f17 f18 f19 f20 f21 g z c m 1451)) :
    ∃ j8' j9 j10 j11 j12 j13 j14 j15 f16, Run rodata rb hash_many (n + 107) s l
      (mkS #v[wide8 (ffw (halfB (eta16 S0) (permN 6 (eta16 M0)))) (ffw (halfB (eta16 S1) (permN 6 (eta16 M1)))) (ffw (halfB (eta16 S2) (permN 6 (eta16 M2)))) (ffw (halfB (eta16 S3) (permN 6 (eta16 M3)))) 0, wide8 (ffw (halfB (eta16 S0) (permN 6 (eta16 M0)))) (ffw (halfB (eta16 S1) (permN 6 (eta16 M1)))) (ffw (halfB (eta16 S2) (permN 6 (eta16 M2)))) (ffw (halfB (eta16 S3) (permN 6 (eta16 M3)))) 1, wide8 (ffw (halfB (eta16 S0) (permN 6 (eta16 M0)))) (ffw (halfB (eta16 S1) (permN 6 (eta16 M1)))) (ffw (halfB (eta16 S2) (permN 6 (eta16 M2)))) (ffw (halfB (eta16 S3) (permN 6 (eta16 M3)))) 2, wide8 (ffw (halfB (eta16 S0) (permN 6 (eta16 M0)))) (ffw (halfB (eta16 S1) (permN 6 (eta16 M1)))) (ffw (halfB (eta16 S2) (permN 6 (eta16 M2)))) (ffw (halfB (eta16 S3) (permN 6 (eta16 M3)))) 3, wide8 (ffw (halfB (eta16 S0) (permN 6 (eta16 M0)))) (ffw (halfB (eta16 S1) (permN 6 (eta16 M1)))) (ffw (halfB (eta16 S2) (permN 6 (eta16 M2)))) (ffw (halfB (eta16 S3) (permN 6 (eta16 M3)))) 4, wide8 (ffw (halfB (eta16 S0) (permN 6 (eta16 M0)))) (ffw (halfB (eta16 S1) (permN 6 (eta16 M1)))) (ffw (halfB (eta16 S2) (permN 6 (eta16 M2)))) (ffw (halfB (eta16 S3) (permN 6 (eta16 M3)))) 5, wide8 (ffw (halfB (eta16 S0) (permN 6 (eta16 M0)))) (ffw (halfB (eta16 S1) (permN 6 (eta16 M1)))) (ffw (halfB (eta16 S2) (permN 6 (eta16 M2)))) (ffw (halfB (eta16 S3) (permN 6 (eta16 M3)))) 6, wide8 (ffw (halfB (eta16 S0) (permN 6 (eta16 M0)))) (ffw (halfB (eta16 S1) (permN 6 (eta16 M1)))) (ffw (halfB (eta16 S2) (permN 6 (eta16 M2)))) (ffw (halfB (eta16 S3) (permN 6 (eta16 M3)))) 7,
             j8', j9, j10, j11, j12, j13, j14, j15]
        g z c (frameR M0 M1 M2 M3 f16 f17 f18 f19 f20 f21) m 1558) := by
  obtain ⟨a8, a9, a10, a11, a12, a13, a14, a15, a16, hj⟩ := r7b rb S0 S1 S2 S3 M0 M1 M2 M3 j8 f17 f18 f19 f20 f21 g z c m
  exact ⟨a8, a9, a10, a11, a12, a13, a14, a15, a16, h.trans_nil hj⟩

theorem p1_loop' (rb : UInt64) (x : Vector V4 16) (g0 g1 g2 g3 g4 g5 g6 g7 g8 g9 g10 g11 g12 g13 g14 g15 : UInt64) (c : Bool)
    (F : Vector V4 22) (m : Memory) :
    Run rodata rb hash_many 2 (mkS x #v[g0, g1, g2, g3, g4, g5, g6, g7, g8, g9, g10, g11, g12, g13, g14, g15] false c F m 1558) []
      (mkS x #v[trunc .d32 (trunc .d32 g13), g1, g2, g3, g4, g5, g6, g7, g8, g9, g10, g11, g12, g13, g14, g15] false c F m 54) :=
  p1_loop rb x g0 g1 g2 g3 g4 g5 g6 g7 g8 g9 g10 g11 g12 g13 g14 g15 c F m

theorem p1_exit' (rb : UInt64) (x : Vector V4 16) (g0 g1 g2 g3 g4 g5 g6 g7 g8 g9 g10 g11 g12 g13 g14 g15 : UInt64) (c : Bool)
    (F : Vector V4 22) (m : Memory) :
    Run rodata rb hash_many 2 (mkS x #v[g0, g1, g2, g3, g4, g5, g6, g7, g8, g9, g10, g11, g12, g13, g14, g15] true c F m 1558) []
      (mkS x #v[trunc .d32 (trunc .d32 g13), g1, g2, g3, g4, g5, g6, g7, g8, g9, g10, g11, g12, g13, g14, g15] true c F m 1560) :=
  p1_exit rb x g0 g1 g2 g3 g4 g5 g6 g7 g8 g9 g10 g11 g12 g13 g14 g15 c F m

/-- the chaining values of four inputs in XMM0-7 (transposed), XMM8-15 anything -/
def xmmH (H0 H1 H2 H3 : CV) (j8 j9 j10 j11 j12 j13 j14 j15 : V4) : Vector V4 16 :=
  #v[wide8 H0 H1 H2 H3 0, wide8 H0 H1 H2 H3 1, wide8 H0 H1 H2 H3 2, wide8 H0 H1 H2 H3 3, wide8 H0 H1 H2 H3 4, wide8 H0 H1 H2 H3 5,
     wide8 H0 H1 H2 H3 6, wide8 H0 H1 H2 H3 7, j8, j9, j10, j11, j12, j13, j14, j15]

set_option maxHeartbeats 4000000 in
set_option maxRecDepth 100000 in
/-- **one block**: instructions 54..1363.  From the loop head with the chaining values of the four inputs in XMM0-7, the flags
word of this kind of block in `eax`, the byte offset in `rdx`: the block at `r8+rdx` .. `r11+rdx` of each input is
compressed into its lane (counter words from slots 17 / 18 of the frame, block length 64, flags `eax`, with `r12d` or-ed in
when `rdx + 64 = r15`); the loop goes back to 54 with `eax := r13d`, or falls through to 1560 after the last block. -/
theorem block_iter (rb : UInt64) (H0 H1 H2 H3 : CV) (j8 j9 j10 j11 j12 j13 j14 j15 : V4)
    (f0 f1 f2 f3 f4 f5 f6 f7 f8 f9 f10 f11 f12 f13 f14 f15 f16 lo hi f19 f20 f21 : V4)
    (ax g1 dx g3 g4 g5 g6 g7 g8 g9 g10 g11 g12 g13 r14 g15 : UInt64) (z c : Bool) (m : Memory) :
    ∃ j8' j9' j10' j11' j12' j13' j14' j15' f16' c', Run rodata rb hash_many 1506
      (mkS (xmmH H0 H1 H2 H3 j8 j9 j10 j11 j12 j13 j14 j15) #v[ax, g1, dx, g3, g4, g5, g6, g7, g8, g9, g10, g11, g12, g13, r14, g15] z c #v[f0, f1, f2, f3, f4, f5, f6, f7, f8, f9, f10, f11, f12, f13, f14, f15, f16, lo, hi, f19, f20, f21] m 54)
      (ldLog #v[p0Rax ax g12 (lastBlock dx g15), g1, dx + UInt64.ofNat 64, g3, g4, g5, g6, g7, g8, g9, g10, g11, g12, g13, trunc .d32 (trunc .d32 ax), g15])
      (mkS (xmmH (laneCV H0 (blk m (g8 + (dx + UInt64.ofNat 64))) lo[0] hi[0] (p0Rax ax g12 (lastBlock dx g15)).toUInt32) (laneCV H1 (blk m (g9 + (dx + UInt64.ofNat 64))) lo[1] hi[1] (p0Rax ax g12 (lastBlock dx g15)).toUInt32) (laneCV H2 (blk m (g10 + (dx + UInt64.ofNat 64))) lo[2] hi[2] (p0Rax ax g12 (lastBlock dx g15)).toUInt32) (laneCV H3 (blk m (g11 + (dx + UInt64.ofNat 64))) lo[3] hi[3] (p0Rax ax g12 (lastBlock dx g15)).toUInt32)
             j8' j9' j10' j11' j12' j13' j14' j15')
        #v[trunc .d32 (trunc .d32 g13), g1, dx + UInt64.ofNat 64, g3, g4, g5, g6, g7, g8, g9, g10, g11, g12, g13, trunc .d32 (trunc .d32 ax), g15] (lastBlock dx g15) c'
        (frameR (blk m (g8 + (dx + UInt64.ofNat 64))) (blk m (g9 + (dx + UInt64.ofNat 64))) (blk m (g10 + (dx + UInt64.ofNat 64))) (blk m (g11 + (dx + UInt64.ofNat 64))) f16' lo hi f19 f20 f21) m (if lastBlock dx g15 then 1560 else 54)) := by
  have hA : Run rodata rb hash_many 5 _ [] _ := p0_raw rb (xmmH H0 H1 H2 H3 j8 j9 j10 j11 j12 j13 j14 j15)
    ax g1 dx g3 g4 g5 g6 g7 g8 g9 g10 g11 g12 g13 r14 g15 z c #v[f0, f1, f2, f3, f4, f5, f6, f7, f8, f9, f10, f11, f12, f13, f14, f15, f16, lo, hi, f19, f20, f21] m
  obtain ⟨a8, a9, a10, a11, a12, a13, a14, a15, h1⟩ := ld rb (wide8 H0 H1 H2 H3 0) (wide8 H0 H1 H2 H3 1) (wide8 H0 H1 H2 H3 2) (wide8 H0 H1 H2 H3 3) (wide8 H0 H1 H2 H3 4) (wide8 H0 H1 H2 H3 5) (wide8 H0 H1 H2 H3 6) (wide8 H0 H1 H2 H3 7)
    j8 j9 j10 j11 j12 j13 j14 j15 f0 f1 f2 f3 f4 f5 f6 f7 f8 f9 f10 f11 f12 f13 f14 f15 f16 lo hi f19 f20 f21
    #v[p0Rax ax g12 (lastBlock dx g15), g1, dx + UInt64.ofNat 64, g3, g4, g5, g6, g7, g8, g9, g10, g11, g12, g13, trunc .d32 (trunc .d32 ax), g15] (lastBlock dx g15) (decide (dx + UInt64.ofNat 64 < g15)) m
  obtain ⟨b8, h2⟩ := r1a rb H0 H1 H2 H3 (blk m (g8 + (dx + UInt64.ofNat 64))) (blk m (g9 + (dx + UInt64.ofNat 64))) (blk m (g10 + (dx + UInt64.ofNat 64))) (blk m (g11 + (dx + UInt64.ofNat 64)))
    a8 a9 a10 a11 a12 a13 a14 a15 f16 lo hi f19 f20 f21 #v[p0Rax ax g12 (lastBlock dx g15), g1, dx + UInt64.ofNat 64, g3, g4, g5, g6, g7, g8, g9, g10, g11, g12, g13, trunc .d32 (trunc .d32 ax), g15] (lastBlock dx g15) (decide (dx + UInt64.ofNat 64 < g15)) m
  have e_rax : (#v[p0Rax ax g12 (lastBlock dx g15), g1, dx + UInt64.ofNat 64, g3, g4, g5, g6, g7, g8, g9, g10, g11, g12, g13, trunc .d32 (trunc .d32 ax), g15] : Vector UInt64 16)[rax] = p0Rax ax g12 (lastBlock dx g15) := rfl
  have e_rdx : (#v[p0Rax ax g12 (lastBlock dx g15), g1, dx + UInt64.ofNat 64, g3, g4, g5, g6, g7, g8, g9, g10, g11, g12, g13, trunc .d32 (trunc .d32 ax), g15] : Vector UInt64 16)[rdx] = dx + UInt64.ofNat 64 := rfl
  have e_r8 : (#v[p0Rax ax g12 (lastBlock dx g15), g1, dx + UInt64.ofNat 64, g3, g4, g5, g6, g7, g8, g9, g10, g11, g12, g13, trunc .d32 (trunc .d32 ax), g15] : Vector UInt64 16)[r8] = g8 := rfl
  have e_r9 : (#v[p0Rax ax g12 (lastBlock dx g15), g1, dx + UInt64.ofNat 64, g3, g4, g5, g6, g7, g8, g9, g10, g11, g12, g13, trunc .d32 (trunc .d32 ax), g15] : Vector UInt64 16)[r9] = g9 := rfl
  have e_r10 : (#v[p0Rax ax g12 (lastBlock dx g15), g1, dx + UInt64.ofNat 64, g3, g4, g5, g6, g7, g8, g9, g10, g11, g12, g13, trunc .d32 (trunc .d32 ax), g15] : Vector UInt64 16)[r10] = g10 := rfl
  have e_r11 : (#v[p0Rax ax g12 (lastBlock dx g15), g1, dx + UInt64.ofNat 64, g3, g4, g5, g6, g7, g8, g9, g10, g11, g12, g13, trunc .d32 (trunc .d32 ax), g15] : Vector UInt64 16)[r11] = g11 := rfl
  rw [e_r8, e_r9, e_r10, e_r11, e_rdx] at h1
  rw [e_rax] at h2
  have h := (hA.nil_trans h1).trans_nil h2
  obtain ⟨_, h⟩ := step_r1b h
  obtain ⟨_, h⟩ := step_r2a h
  obtain ⟨_, h⟩ := step_r2b h
  obtain ⟨_, h⟩ := step_r3a h
  obtain ⟨_, h⟩ := step_r3b h
  obtain ⟨_, h⟩ := step_r4a h
  obtain ⟨_, h⟩ := step_r4b h
  obtain ⟨_, h⟩ := step_r5a h
  obtain ⟨_, h⟩ := step_r5b h
  obtain ⟨_, h⟩ := step_r6a h
  obtain ⟨_, h⟩ := step_r6b h
  obtain ⟨_, h⟩ := step_r7a h
  obtain ⟨e8, e9, e10, e11, e12, e13, e14, e15, e16, h⟩ := step_r7b h
  simp only [lane_chain] at h
  cases hl : lastBlock dx g15 with
  | false =>
    rw [hl] at h
    have hfin := h.trans_nil (p1_loop' rb _ _ _ _ _ _ _ _ _ _ _ _ _ _ _ _ _ _ _ _)
    exact ⟨e8, e9, e10, e11, e12, e13, e14, e15, _, _, hfin⟩
  | true =>
    rw [hl] at h
    have hfin := h.trans_nil (p1_exit' rb _ _ _ _ _ _ _ _ _ _ _ _ _ _ _ _ _ _ _ _)
    exact ⟨e8, e9, e10, e11, e12, e13, e14, e15, _, _, hfin⟩

end B3.AsmSem.Many2
