/- from the view equations that the kernel-evaluated pieces prove to the relation `Run` (see `ManyBase.lean`) -/
import B3.Asm.Many2Base
namespace B3.AsmSem.Many2
open B3 B3.Simd B3.AsmSem B3.Gen.AsmSse2Many

theorem run_of_lview {rb : UInt64} {n : Nat} {s : StateG FMem} {x0 x1 x2 x3 x4 x5 x6 x7 : V4} {g : Vector UInt64 16} {z c : Bool}
    {F : Vector V4 22} {m : Memory} {pc : Nat} {l : List Ref}
    (h : lview (frun rodata rb hash_many n ⟨s, [], true⟩) = ⟨x0, x1, x2, x3, x4, x5, x6, x7, g, z, c, F, m, pc, .running, true, l, true⟩) :
    ∃ j8 j9 j10 j11 j12 j13 j14 j15, Run rodata rb hash_many n s l
      (mkS #v[x0, x1, x2, x3, x4, x5, x6, x7, j8, j9, j10, j11, j12, j13, j14, j15] g z c F m pc) :=
  ⟨_, _, _, _, _, _, _, _, of_lview h⟩

theorem run_of_gview {rb : UInt64} {n : Nat} {s : StateG FMem} {g : Vector UInt64 16} {z c : Bool}
    {F : Vector V4 22} {m : Memory} {pc : Nat} {l : List Ref}
    (h : gview (frun rodata rb hash_many n ⟨s, [], true⟩) = ⟨g, z, c, F, m, pc, .running, true, l, true⟩) :
    ∃ x, Run rodata rb hash_many n s l (mkS x g z c F m pc) :=
  ⟨_, of_gview h⟩

end B3.AsmSem.Many2
