/- regions of memory: the frame base computed by the prologue, "these bytes lie outside those bytes" and what follows from
it for reads through the writes of the routine (pushes, output bytes, the frame) -/
import B3.Asm.Many2Ends
import B3.Asm.Many2Mem
import B3.Asm.Many2FrameSim
namespace B3.AsmSem.Many2
open B3 B3.Simd B3.AsmSem B3.Gen.AsmSse2Many

/-! ### `and rsp, -64` -/

theorem and_mask64 (n : Nat) (h : n < 2 ^ 64) : n &&& 18446744073709551552 = n - n % 64 := by
  have hM : (18446744073709551552 : Nat) = (2 ^ 58 - 1) <<< 6 := by decide
  have hN : n - n % 64 = (n >>> 6) <<< 6 := by
    rw [Nat.shiftRight_eq_div_pow, Nat.shiftLeft_eq]
    omega
  apply Nat.eq_of_testBit_eq
  intro i
  rw [Nat.testBit_and, hM, hN, Nat.testBit_shiftLeft, Nat.testBit_shiftLeft, Nat.testBit_two_pow_sub_one, Nat.testBit_shiftRight]
  by_cases h6 : 6 ≤ i
  · have e : 6 + (i - 6) = i := by omega
    rw [e]
    by_cases h64 : i < 64
    · have : i - 6 < 58 := by omega
      simp [h6, this]
    · have : n.testBit i = false := Nat.testBit_lt_two_pow (Nat.lt_of_lt_of_le h (Nat.pow_le_pow_right (by decide) (by omega)))
      simp [this]
  · simp [h6]

/-- the frame base is 64-byte aligned and lies between 408 and 471 bytes below the entry `rsp` -/
theorem frameBase_spec (sp : UInt64) (h : 512 ≤ sp.toNat) :
    (frameBase sp).toNat % 64 = 0 ∧ sp.toNat - 471 ≤ (frameBase sp).toNat ∧ (frameBase sp).toNat ≤ sp.toNat - 408 := by
  unfold frameBase
  have hs := sp.toNat_lt
  have e : (sp - 8 - 8 - 8 - 8 - 8 - 8 - UInt64.ofNat 360).toNat = sp.toNat - 408 := by
    have e8 : (8 : UInt64).toNat = 8 := rfl
    have e360 : (UInt64.ofNat 360).toNat = 360 := rfl
    simp only [UInt64.toNat_sub, e8, e360]
    omega
  rw [UInt64.toNat_and, e]
  have em : (UInt64.ofNat 18446744073709551552).toNat = 18446744073709551552 := rfl
  rw [em, and_mask64 _ (by omega)]
  omega

/-! ### disjointness -/

/-- disjointness is symmetric -/
theorem OutsideRo.symm {p q : UInt64} {n k : Nat} (h : OutsideRo p n q k) : OutsideRo q k p n := by
  intro j hj
  by_cases hc : k ≤ (p + UInt64.ofNat j - q).toNat
  · exact hc
  · exfalso
    have hi : (p + UInt64.ofNat j - q).toNat < k := by omega
    have := h _ hi
    have e : q + UInt64.ofNat (p + UInt64.ofNat j - q).toNat = p + UInt64.ofNat j := by
      rw [UInt64.ofNat_toNat, UInt64.add_comm, UInt64.sub_add_cancel]
    rw [e, UInt64.add_comm, UInt64.add_sub_cancel] at this
    have hlt : (UInt64.ofNat j).toNat ≤ j := by
      rw [UInt64.toNat_ofNat']
      exact Nat.mod_le _ _
    omega

theorem OutsideRo.mono {p q : UInt64} {n k : Nat} (h : OutsideRo p n q k) (o k' : Nat) (hk : o + k' ≤ k) :
    OutsideRo p n (q + UInt64.ofNat o) k' := by
  intro j hj
  rw [addr_add]
  exact h (o + j) (by omega)

theorem OutsideRo.zero {p q : UInt64} {n k : Nat} (h : OutsideRo p n q k) (hk : 0 < k) : n ≤ (q - p).toNat := by
  have := h 0 hk
  rwa [show UInt64.ofNat 0 = 0 from rfl, UInt64.add_zero] at this

/-- bytes outside a region are outside any part of it -/
theorem OutsideRo.sub {p q : UInt64} {n k : Nat} (h : OutsideRo p n q k) (d n' : Nat) (hd : d + n' ≤ n) (hn : n < 2 ^ 64) :
    OutsideRo (p + UInt64.ofNat d) n' q k := by
  intro j hj
  have := h j hj
  rw [sub_add_toNat _ _ d (by omega)]
  have hx := (q + UInt64.ofNat j - p).toNat_lt
  omega

/-! ### reads through writes -/

theorem writeBytes_outside (m : Memory) (p : UInt64) (bs : List UInt8) (n : Nat) (hn : bs.length ≤ n) (q : UInt64)
    (h : n ≤ (q - p).toNat) : writeBytes m p bs q = m q :=
  writeBytes_frame m p bs q (by omega)

theorem store64_outside (m : Memory) (a v q : UInt64) (h : 8 ≤ (q - a).toNat) : store64 m a v q = m q := by
  unfold store64
  have : ¬ (q - a < 8) := by
    intro hc
    have := UInt64.lt_iff_toNat_lt.mp hc
    have e8 : (8 : UInt64).toNat = 8 := rfl
    omega
  rw [if_neg this]

/-- two memories that agree on a region -/
def SameOn (m m' : Memory) (q : UInt64) (k : Nat) : Prop := ∀ i, i < k → m' (q + UInt64.ofNat i) = m (q + UInt64.ofNat i)

theorem SameOn.mono {m m' : Memory} {q : UInt64} {k : Nat} (h : SameOn m m' q k) (o k' : Nat) (hk : o + k' ≤ k) :
    SameOn m m' (q + UInt64.ofNat o) k' := by
  intro i hi
  rw [addr_add]
  exact h (o + i) (by omega)

theorem SameOn.byte {m m' : Memory} {q : UInt64} {k : Nat} (h : SameOn m m' q k) (hk : 0 < k) : m' q = m q := by
  have := h 0 hk
  rwa [show UInt64.ofNat 0 = 0 from rfl, UInt64.add_zero] at this

theorem SameOn.word {m m' : Memory} {q : UInt64} {k : Nat} (h : SameOn m m' q k) (hk : 4 ≤ k) : m'.word q = m.word q := by
  rw [word_unfold, word_unfold m, h.byte (by omega), h 1 (by omega), h 2 (by omega), h 3 (by omega)]

theorem SameOn.load64 {m m' : Memory} {q : UInt64} {k : Nat} (h : SameOn m m' q k) (hk : 8 ≤ k) : load64 m' q = load64 m q := by
  rw [load64_unfold, load64_unfold m, h.word (by omega), (h.mono 4 4 (by omega)).word (by omega)]

theorem SameOn.readWords {m m' : Memory} {q : UInt64} {k : Nat} (h : SameOn m m' q k) (w : Nat) (hk : 4 * w ≤ k) :
    readWords m' q w = readWords m q w := by
  apply Vector.ext
  intro i hi
  simp only [B3.AsmSem.readWords, Vector.getElem_ofFn]
  exact (h.mono (4 * i) 4 (by omega)).word (by omega)

end B3.AsmSem.Many2
