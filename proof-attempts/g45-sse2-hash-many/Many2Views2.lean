/- a view for the last piece of a block: everything but XMM8-15 and slot 16 (`[rsp+0x100]`, the spill slot of `v8`) of the frame -/
import B3.Asm.Many2Views
namespace B3.AsmSem.Many2
open B3 B3.Simd B3.AsmSem B3.Gen.AsmSse2Many

/-- `lview` with the spill slot blanked -/
def lview16 (a : FState) : LView :=
  ⟨a.s.xmm[0], a.s.xmm[1], a.s.xmm[2], a.s.xmm[3], a.s.xmm[4], a.s.xmm[5], a.s.xmm[6], a.s.xmm[7],
   a.s.gpr, a.s.zf, a.s.cf, a.s.mem.frame.set 16 #v[0, 0, 0, 0], a.s.mem.mem, a.s.pc, a.s.status, a.s.ok, a.log, a.spOk⟩

theorem vec22_eta (F : Vector V4 22) : F = #v[F[0], F[1], F[2], F[3], F[4], F[5], F[6], F[7], F[8], F[9], F[10], F[11], F[12],
    F[13], F[14], F[15], F[16], F[17], F[18], F[19], F[20], F[21]] := by
  apply Vector.ext
  intro i hi
  match i, hi with
  | 0, _ | 1, _ | 2, _ | 3, _ | 4, _ | 5, _ | 6, _ | 7, _ | 8, _ | 9, _ | 10, _ | 11, _ | 12, _ | 13, _ | 14, _ | 15, _
  | 16, _ | 17, _ | 18, _ | 19, _ | 20, _ | 21, _ => rfl
  | n + 22, h => omega

theorem frame_of_set16 (F : Vector V4 22) (M0 M1 M2 M3 : St) (v f17 f18 f19 f20 f21 : V4)
    (h : F.set 16 #v[0, 0, 0, 0] = frameR M0 M1 M2 M3 v f17 f18 f19 f20 f21) :
    F = frameR M0 M1 M2 M3 F[16] f17 f18 f19 f20 f21 := by
  have e : ∀ (i : Nat) (hi : i < 22), i ≠ 16 → F[i] = (frameR M0 M1 M2 M3 v f17 f18 f19 f20 f21)[i] := by
    intro i hi hne
    rw [← h, Vector.getElem_set_ne (h := by omega)]
  rw [vec22_eta F]
  unfold frameR at e ⊢
  rw [e 0 (by omega) (by omega), e 1 (by omega) (by omega), e 2 (by omega) (by omega), e 3 (by omega) (by omega),
    e 4 (by omega) (by omega), e 5 (by omega) (by omega), e 6 (by omega) (by omega), e 7 (by omega) (by omega),
    e 8 (by omega) (by omega), e 9 (by omega) (by omega), e 10 (by omega) (by omega), e 11 (by omega) (by omega),
    e 12 (by omega) (by omega), e 13 (by omega) (by omega), e 14 (by omega) (by omega), e 15 (by omega) (by omega),
    e 17 (by omega) (by omega), e 18 (by omega) (by omega), e 19 (by omega) (by omega), e 20 (by omega) (by omega),
    e 21 (by omega) (by omega)]
  rfl

theorem run_of_lview16 {rb : UInt64} {n : Nat} {s : StateG FMem} {x0 x1 x2 x3 x4 x5 x6 x7 : V4} {g : Vector UInt64 16} {z c : Bool}
    {M0 M1 M2 M3 : St} {v f17 f18 f19 f20 f21 : V4} {m : Memory} {pc : Nat} {l : List Ref}
    (h : lview16 (frun rodata rb hash_many n ⟨s, [], true⟩)
      = ⟨x0, x1, x2, x3, x4, x5, x6, x7, g, z, c, frameR M0 M1 M2 M3 v f17 f18 f19 f20 f21, m, pc, .running, true, l, true⟩) :
    ∃ j8 j9 j10 j11 j12 j13 j14 j15 f16, Run rodata rb hash_many n s l
      (mkS #v[x0, x1, x2, x3, x4, x5, x6, x7, j8, j9, j10, j11, j12, j13, j14, j15] g z c
        (frameR M0 M1 M2 M3 f16 f17 f18 f19 f20 f21) m pc) := by
  unfold Run
  generalize frun rodata rb hash_many n ⟨s, [], true⟩ = a at h ⊢
  obtain ⟨⟨x, g', z', c', ⟨F, m'⟩, p, st, ok⟩, l', b⟩ := a
  simp only [lview16, LView.mk.injEq] at h
  obtain ⟨h0, h1, h2, h3, h4, h5, h6, h7, hg, hz, hc, hF, hm, hp, hst, hok, hl, hb⟩ := h
  subst h0 h1 h2 h3 h4 h5 h6 h7 hg hz hc hm hp hst hok hl hb
  refine ⟨x[8], x[9], x[10], x[11], x[12], x[13], x[14], x[15], F[16], ?_⟩
  have hF' := frame_of_set16 F M0 M1 M2 M3 v f17 f18 f19 f20 f21 hF
  unfold mkS
  rw [← hF', ← vec16_eta x]

end B3.AsmSem.Many2
