/- instructions 59..138 of the generated list: the 64-byte blocks of the four inputs are loaded (`movdqu` from
`[r8+rdx-0x40]` .. `[r11+rdx-0x10]`), transposed (`punpck*`) and stored to slots 0..15 of the frame: slot `j` holds word `j`
of the four blocks -/
import B3.Asm.Many2Views
namespace B3.AsmSem.Many2
open B3 B3.Simd B3.AsmSem B3.Gen.AsmSse2Many

/-- the sixteen words that the four 16-byte loads at `p - 64`, `p - 48`, `p - 32`, `p - 16` read -/
def blk (m : Memory) (p : UInt64) : St :=
  #v[m.word (p + dispU (-64)), m.word (p + dispU (-64) + 4), m.word (p + dispU (-64) + 8), m.word (p + dispU (-64) + 12),
     m.word (p + dispU (-48)), m.word (p + dispU (-48) + 4), m.word (p + dispU (-48) + 8), m.word (p + dispU (-48) + 12),
     m.word (p + dispU (-32)), m.word (p + dispU (-32) + 4), m.word (p + dispU (-32) + 8), m.word (p + dispU (-32) + 12),
     m.word (p + dispU (-16)), m.word (p + dispU (-16) + 4), m.word (p + dispU (-16) + 8), m.word (p + dispU (-16) + 12)]

/-- the sixteen loads, in program order -/
def ldLog (g : Vector UInt64 16) : List Ref :=
  [(-64 : Int), -48, -32, -16].flatMap fun d => [r8, r9, r10, r11].map fun r => (false, g[r] + g[rdx] + dispU d, 16)

/-- the frame after the piece, slot by slot, as the loads and transpositions leave it -/
def ldFrame (m : Memory) (p8 p9 p10 p11 : UInt64) (f16 f17 f18 f19 f20 f21 : V4) : Vector V4 22 :=
  #v[#v[m.word (p8 + dispU (-64)), m.word (p9 + dispU (-64)), m.word (p10 + dispU (-64)), m.word (p11 + dispU (-64))],
     #v[m.word (p8 + dispU (-64) + 4), m.word (p9 + dispU (-64) + 4), m.word (p10 + dispU (-64) + 4), m.word (p11 + dispU (-64) + 4)],
     #v[m.word (p8 + dispU (-64) + 8), m.word (p9 + dispU (-64) + 8), m.word (p10 + dispU (-64) + 8), m.word (p11 + dispU (-64) + 8)],
     #v[m.word (p8 + dispU (-64) + 12), m.word (p9 + dispU (-64) + 12), m.word (p10 + dispU (-64) + 12), m.word (p11 + dispU (-64) + 12)],
     #v[m.word (p8 + dispU (-48)), m.word (p9 + dispU (-48)), m.word (p10 + dispU (-48)), m.word (p11 + dispU (-48))],
     #v[m.word (p8 + dispU (-48) + 4), m.word (p9 + dispU (-48) + 4), m.word (p10 + dispU (-48) + 4), m.word (p11 + dispU (-48) + 4)],
     #v[m.word (p8 + dispU (-48) + 8), m.word (p9 + dispU (-48) + 8), m.word (p10 + dispU (-48) + 8), m.word (p11 + dispU (-48) + 8)],
     #v[m.word (p8 + dispU (-48) + 12), m.word (p9 + dispU (-48) + 12), m.word (p10 + dispU (-48) + 12), m.word (p11 + dispU (-48) + 12)],
     #v[m.word (p8 + dispU (-32)), m.word (p9 + dispU (-32)), m.word (p10 + dispU (-32)), m.word (p11 + dispU (-32))],
     #v[m.word (p8 + dispU (-32) + 4), m.word (p9 + dispU (-32) + 4), m.word (p10 + dispU (-32) + 4), m.word (p11 + dispU (-32) + 4)],
     #v[m.word (p8 + dispU (-32) + 8), m.word (p9 + dispU (-32) + 8), m.word (p10 + dispU (-32) + 8), m.word (p11 + dispU (-32) + 8)],
     #v[m.word (p8 + dispU (-32) + 12), m.word (p9 + dispU (-32) + 12), m.word (p10 + dispU (-32) + 12), m.word (p11 + dispU (-32) + 12)],
     #v[m.word (p8 + dispU (-16)), m.word (p9 + dispU (-16)), m.word (p10 + dispU (-16)), m.word (p11 + dispU (-16))],
     #v[m.word (p8 + dispU (-16) + 4), m.word (p9 + dispU (-16) + 4), m.word (p10 + dispU (-16) + 4), m.word (p11 + dispU (-16) + 4)],
     #v[m.word (p8 + dispU (-16) + 8), m.word (p9 + dispU (-16) + 8), m.word (p10 + dispU (-16) + 8), m.word (p11 + dispU (-16) + 8)],
     #v[m.word (p8 + dispU (-16) + 12), m.word (p9 + dispU (-16) + 12), m.word (p10 + dispU (-16) + 12), m.word (p11 + dispU (-16) + 12)],
     f16, f17, f18, f19, f20, f21]

theorem ldFrame_eq (m : Memory) (p8 p9 p10 p11 : UInt64) (f16 f17 f18 f19 f20 f21 : V4) :
    ldFrame m p8 p9 p10 p11 f16 f17 f18 f19 f20 f21 = frameR (blk m p8) (blk m p9) (blk m p10) (blk m p11) f16 f17 f18 f19 f20 f21 := rfl

theorem ld_raw (rb : UInt64) (x0 x1 x2 x3 x4 x5 x6 x7 j8 j9 j10 j11 j12 j13 j14 j15 : V4) (f0 f1 f2 f3 f4 f5 f6 f7 f8 f9 f10 f11 f12 f13 f14 f15 f16 f17 f18 f19 f20 f21 : V4)
    (g : Vector UInt64 16) (z c : Bool) (m : Memory) :
    lview (frun rodata rb hash_many 80 ⟨mkS #v[x0, x1, x2, x3, x4, x5, x6, x7, j8, j9, j10, j11, j12, j13, j14, j15] g z c #v[f0, f1, f2, f3, f4, f5, f6, f7, f8, f9, f10, f11, f12, f13, f14, f15, f16, f17, f18, f19, f20, f21] m 59, [], true⟩)
      = ⟨x0, x1, x2, x3, x4, x5, x6, x7, g, z, c,
         ldFrame m (g[r8] + g[rdx]) (g[r9] + g[rdx]) (g[r10] + g[rdx]) (g[r11] + g[rdx]) f16 f17 f18 f19 f20 f21,
         m, 139, .running, true, ldLog g, true⟩ := by
  kernel_rfl

/-- instructions 59..138: XMM0-7, the general purpose registers, the flags and the rest of memory are unchanged; slots 0..15 of
the frame hold the transposed blocks at `r8+rdx-64`, .., `r11+rdx-64`; sixteen 16-byte loads -/
theorem ld (rb : UInt64) (x0 x1 x2 x3 x4 x5 x6 x7 j8 j9 j10 j11 j12 j13 j14 j15 : V4) (f0 f1 f2 f3 f4 f5 f6 f7 f8 f9 f10 f11 f12 f13 f14 f15 f16 f17 f18 f19 f20 f21 : V4)
    (g : Vector UInt64 16) (z c : Bool) (m : Memory) :
    ∃ j8' j9' j10' j11' j12' j13' j14' j15', Run rodata rb hash_many 80
      (mkS #v[x0, x1, x2, x3, x4, x5, x6, x7, j8, j9, j10, j11, j12, j13, j14, j15] g z c #v[f0, f1, f2, f3, f4, f5, f6, f7, f8, f9, f10, f11, f12, f13, f14, f15, f16, f17, f18, f19, f20, f21] m 59) (ldLog g)
      (mkS #v[x0, x1, x2, x3, x4, x5, x6, x7, j8', j9', j10', j11', j12', j13', j14', j15'] g z c
        (frameR (blk m (g[r8] + g[rdx])) (blk m (g[r9] + g[rdx])) (blk m (g[r10] + g[rdx])) (blk m (g[r11] + g[rdx]))
           f16 f17 f18 f19 f20 f21) m 139) := by
  rw [← ldFrame_eq]
  exact run_of_lview (ld_raw rb x0 x1 x2 x3 x4 x5 x6 x7 j8 j9 j10 j11 j12 j13 j14 j15 f0 f1 f2 f3 f4 f5 f6 f7 f8 f9 f10 f11 f12 f13 f14 f15 f16 f17 f18 f19 f20 f21 g z c m)

end B3.AsmSem.Many2
