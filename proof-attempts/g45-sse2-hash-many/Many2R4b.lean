/- round 4, diagonal step of the 4-way loop of `blake3_hash_many_sse2`: instructions 753..838 of the generated list,
evaluated in the kernel on the frame machine over symbolic lanes -/
import B3.Asm.Many2Base
namespace B3.AsmSem.Many2
open B3 B3.Simd B3.AsmSem B3.Gen.AsmSse2Many

theorem r4b_raw (rb : UInt64) (S0 S1 S2 S3 M0 M1 M2 M3 : St) (j8 f17 f18 f19 f20 f21 : V4)
    (g : Vector UInt64 16) (z c : Bool) (m : Memory) :
    rview (frun rodata rb hash_many 100 ⟨roundS S0 S1 S2 S3 M0 M1 M2 M3 j8 f17 f18 f19 f20 f21 g z c m 851, [], true⟩)
      = roundV (halfB (eta16 S0) (permN 3 (eta16 M0))) (halfB (eta16 S1) (permN 3 (eta16 M1))) (halfB (eta16 S2) (permN 3 (eta16 M2))) (halfB (eta16 S3) (permN 3 (eta16 M3)))
          M0 M1 M2 M3 f17 f18 f19 f20 f21 g z c m 951 := by
  kernel_rfl

/-- instructions 753..838: every lane goes through the diagonal step of round 4 (message permuted 3 times) -/
theorem r4b (rb : UInt64) (S0 S1 S2 S3 M0 M1 M2 M3 : St) (j8 f17 f18 f19 f20 f21 : V4)
    (g : Vector UInt64 16) (z c : Bool) (m : Memory) :
    ∃ j8', Run rodata rb hash_many 100 (roundS S0 S1 S2 S3 M0 M1 M2 M3 j8 f17 f18 f19 f20 f21 g z c m 851) []
      (roundS (halfB (eta16 S0) (permN 3 (eta16 M0))) (halfB (eta16 S1) (permN 3 (eta16 M1))) (halfB (eta16 S2) (permN 3 (eta16 M2))) (halfB (eta16 S3) (permN 3 (eta16 M3)))
        M0 M1 M2 M3 j8' f17 f18 f19 f20 f21 g z c m 951) :=
  run_of_roundV (r4b_raw rb S0 S1 S2 S3 M0 M1 M2 M3 j8 f17 f18 f19 f20 f21 g z c m)

end B3.AsmSem.Many2
