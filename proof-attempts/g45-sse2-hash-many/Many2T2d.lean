/- the 2-input tail, the short pieces (1790, 1791, 1615..1637, 1617, 1618); see `ManyT2a.lean` -/
import B3.Asm.Many2T1
namespace B3.AsmSem.Many2
open B3 B3.Simd B3.AsmSem B3.Gen.AsmSse2Many

/-! ### 1790, 1791 -/

theorem t2_dec (rb : UInt64) (x : Vector V4 16) (g : Vector UInt64 16) (z c : Bool) (F : Vector V4 22) (m : Memory) :
    frun rodata rb hash_many 1 ⟨mkS x g z c F m 1790, [], true⟩
      = ⟨mkS x (decAl g) (trunc .b8 (trunc .b8 g[rax] - 1) == 0) c F m 1791, [], true⟩ := by
  kernel_rfl

theorem t2_jz_taken (rb : UInt64) (x : Vector V4 16) (g : Vector UInt64 16) (c : Bool) (F : Vector V4 22) (m : Memory) :
    frun rodata rb hash_many 1 ⟨mkS x g true c F m 1791, [], true⟩ = ⟨mkS x g true c F m 1841, [], true⟩ := by
  kernel_rfl

theorem t2_jz_not_taken (rb : UInt64) (x : Vector V4 16) (g : Vector UInt64 16) (c : Bool) (F : Vector V4 22) (m : Memory) :
    frun rodata rb hash_many 1 ⟨mkS x g false c F m 1791, [], true⟩ = ⟨mkS x g false c F m 1792, [], true⟩ := by
  kernel_rfl

/-! ### 1615..1621 -/

theorem t2_exit_raw (rb : UInt64) (x0 x1 x2 x3 x4 x5 x6 x7 x8 x9 x10 x11 x12 x13 x14 x15 : V4) (g0 g1 g2 g3 g4 g5 g6 g7 g8 g9 g10 g11 g12 g13 g14 g15 : UInt64) (z c : Bool) (F : Vector V4 22) (m : Memory) :
    frun rodata rb hash_many 6 ⟨mkS #v[x0, x1, x2, x3, x4, x5, x6, x7, x8, x9, x10, x11, x12, x13, x14, x15] #v[g0, g1, g2, g3, g4, g5, g6, g7, g8, g9, g10, g11, g12, g13, g14, g15] z c F m 1841, [], true⟩
      = ⟨mkS #v[_mm_xor_si128 x0 x2, _mm_xor_si128 x1 x3, x2, x3, x4, x5, x6, x7, _mm_xor_si128 x8 x10, _mm_xor_si128 x9 x11, x10, x11, x12, x13, x14, x15]
          #v[trunc .d32 (trunc .d32 g13), g1, g2, g3, g4, g5, g6, g7, g8, g9, g10, g11, g12, g13, g14, g15] (g2 - g15 == 0) (decide (g2 < g15)) F m 1847, [], true⟩ := by
  kernel_rfl

theorem t2_jnz_taken (rb : UInt64) (x : Vector V4 16) (g : Vector UInt64 16) (c : Bool) (F : Vector V4 22) (m : Memory) :
    frun rodata rb hash_many 1 ⟨mkS x g false c F m 1847, [], true⟩ = ⟨mkS x g false c F m 1636, [], true⟩ := by
  kernel_rfl

theorem t2_jnz_not_taken (rb : UInt64) (x : Vector V4 16) (g : Vector UInt64 16) (c : Bool) (F : Vector V4 22) (m : Memory) :
    frun rodata rb hash_many 1 ⟨mkS x g true c F m 1847, [], true⟩ = ⟨mkS x g true c F m 1848, [], true⟩ := by
  kernel_rfl

/-! ### 1622..1637 -/

def t2StoreLog (p : UInt64) : List Ref :=
  [(true, p + dispU 0, 16), (true, p + dispU 16, 16), (true, p + dispU 32, 16), (true, p + dispU 48, 16)]

/-- the counter vectors after the 2-input tail: lanes 2, 3 moved to lanes 0, 1 where the mask (slot 19) is set -/
def shiftLo (mask lo hi : V4) : V4 := blendvps mask lo #v[lo[2], lo[3], hi[0], hi[1]]
def shiftHi (mask hi : V4) : V4 := blendvps mask hi #v[hi[2], hi[3], mask[0], mask[1]]


/-! ### 1617, 1618 -/

theorem t2_test (rb : UInt64) (x : Vector V4 16) (g0 g1 g2 g3 g4 g5 g6 g7 g8 g9 g10 g11 g12 g13 g14 g15 : UInt64) (z c : Bool) (F : Vector V4 22) (m : Memory) :
    frun rodata rb hash_many 1 ⟨mkS x #v[g0, g1, g2, g3, g4, g5, g6, g7, g8, g9, g10, g11, g12, g13, g14, g15] z c F m 1617, [], true⟩
      = ⟨mkS x #v[g0, g1, g2, g3, g4, g5, g6, g7, g8, g9, g10, g11, g12, g13, g14, g15] (trunc .d32 g6 &&& trunc .d32 (UInt64.ofNat 2) == 0) false F m 1618, [], true⟩ := by
  kernel_rfl

theorem t2_skip (rb : UInt64) (x : Vector V4 16) (g : Vector UInt64 16) (c : Bool) (F : Vector V4 22) (m : Memory) :
    frun rodata rb hash_many 1 ⟨mkS x g true c F m 1618, [], true⟩ = ⟨mkS x g true c F m 1861, [], true⟩ := by
  kernel_rfl

theorem t2_enter (rb : UInt64) (x : Vector V4 16) (g : Vector UInt64 16) (c : Bool) (F : Vector V4 22) (m : Memory) :
    frun rodata rb hash_many 1 ⟨mkS x g false c F m 1618, [], true⟩ = ⟨mkS x g false c F m 1619, [], true⟩ := by
  kernel_rfl

end B3.AsmSem.Many2
