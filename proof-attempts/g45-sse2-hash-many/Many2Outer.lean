/- one iteration of the outer loop of the 4-way part of `blake3_hash_many_sse2` on the frame machine: instructions 37..1409
(head of the loop, the inner loop over the blocks, output, counter update), composed from `head_raw`, `inner_loop`, `out`,
`ctr_raw` -/
import B3.Asm.Many2Loop
import B3.Asm.Many2Out
namespace B3.AsmSem.Many2
open B3 B3.Simd B3.AsmSem B3.Gen.AsmSse2Many

theorem xor_self_trunc (x : UInt64) : trunc .d32 (trunc .d32 x ^^^ trunc .d32 x) = UInt64.ofNat (64 * 0) := by
  rw [UInt64.xor_self]
  rfl

/-- the machine between the iterations of the outer loop (`pc` = 37, 1606, ...): what the loop changes (`rbx rsi rdi`, the counter
vectors `lo hi`, memory), what it leaves alone; the XMM registers, `rax rdx r8 r9 r10 r11 r14`, and slots 0..16 of the frame
hold anything -/
def OuterState (bx si di : UInt64) (g1 g4 g5 g12 g13 g15 : UInt64) (lo hi f19 f20 inc : V4) (m : Memory) (z c : Bool) (pc : Nat)
    (s : StateG FMem) : Prop :=
  ∃ (x0 x1 x2 x3 x4 x5 x6 x7 x8 x9 x10 x11 x12 x13 x14 x15 f0 f1 f2 f3 f4 f5 f6 f7 f8 f9 f10 f11 f12 f13 f14 f15 f16 : V4)
    (ax dx a8 a9 a10 a11 r14 : UInt64),
    s = mkS #v[x0, x1, x2, x3, x4, x5, x6, x7, x8, x9, x10, x11, x12, x13, x14, x15]
      #v[ax, g1, dx, bx, g4, g5, si, di, a8, a9, a10, a11, g12, g13, r14, g15] z c
      #v[f0, f1, f2, f3, f4, f5, f6, f7, f8, f9, f10, f11, f12, f13, f14, f15, f16, lo, hi, f19, f20, inc] m pc

/-- input pointer `l` of the group: the quadword at `rdi + 8 l` -/
def ptrAt (m : Memory) (di : UInt64) (l : Int) : UInt64 := load64 m (di + dispU (8 * l))

/-- the chaining value that lane `l` of the group ends with -/
def groupCV (m : Memory) (g1 g5 g12 g13 di : UInt64) (lo hi : V4) (B : Nat) (l : Fin 4) : CV :=
  loopCV m (ptrAt m di l.val) lo[l] hi[l] g13.toUInt32 g12.toUInt32 B B 0 (headRax m g5 g13).toUInt32 (keyRaw m g1)

/-- the memory references of one iteration, in order -/
def outerLog (m : Memory) (g1 g5 bx di : UInt64) (B : Nat) : List Ref :=
  headLog g1 di g5 ++ loopLog (ptrAt m di 0) (ptrAt m di 1) (ptrAt m di 2) (ptrAt m di 3) B 0 ++ outLog bx

/-- **one iteration of the outer loop**: instructions 37..1409 for `B ≥ 1` blocks (`r15 = 64 B`): the four inputs whose addresses
are at `rdi .. rdi+31` are hashed from the key at `rcx`, the four chaining values are stored at `rbx .. rbx+127`, the counter vectors
advance, `rbx += 128`, `rdi += 32`, `rsi -= 4`; the flags are those of `cmp rsi, 4` -/
theorem outer_iter (rb : UInt64) (B : Nat) (hB : 64 * B < 2 ^ 64) (hB0 : 0 < B) (bx si di g1 g4 g5 g12 g13 : UInt64)
    (lo hi f19 f20 inc : V4) (m : Memory) (z c : Bool) (s : StateG FMem)
    (hs : OuterState bx si di g1 g4 g5 g12 g13 (UInt64.ofNat (64 * B)) lo hi f19 f20 inc m z c 37 s) :
    ∃ t, Run rodata rb hash_many (17 + 1506 * B + 32 + 14) s (outerLog m g1 g5 bx di B) t ∧
      OuterState (bx + UInt64.ofNat 128) (si - UInt64.ofNat 4) (di + UInt64.ofNat 32) g1 g4 g5 g12 g13 (UInt64.ofNat (64 * B))
        (ctrLo lo inc) (ctrHi lo hi inc) f19 f20 inc
        (outStores m bx (groupCV m g1 g5 g12 g13 di lo hi B 0) (groupCV m g1 g5 g12 g13 di lo hi B 1)
          (groupCV m g1 g5 g12 g13 di lo hi B 2) (groupCV m g1 g5 g12 g13 di lo hi B 3))
        (si - UInt64.ofNat 4 - UInt64.ofNat 4 == 0) (decide (si - UInt64.ofNat 4 < UInt64.ofNat 4)) 1606 t := by
  obtain ⟨x0, x1, x2, x3, x4, x5, x6, x7, x8, x9, x10, x11, x12, x13, x14, x15, f0, f1, f2, f3, f4, f5, f6, f7, f8, f9, f10, f11, f12,
    f13, f14, f15, f16, ax, dx, a8, a9, a10, a11, r14, rfl⟩ := hs
  -- head
  obtain ⟨b8, b9, b10, b11, b12, b13, b14, b15, h1⟩ := run_of_lview (head_raw rb x0 x1 x2 x3 x4 x5 x6 x7 x8 x9 x10 x11 x12 x13 x14 x15
    ax g1 dx bx g4 g5 si di a8 a9 a10 a11 g12 g13 r14 (UInt64.ofNat (64 * B)) z c
    #v[f0, f1, f2, f3, f4, f5, f6, f7, f8, f9, f10, f11, f12, f13, f14, f15, f16, lo, hi, f19, f20, inc] m)
  rw [xor_self_trunc] at h1
  -- the inner loop
  obtain ⟨t2, h2, hL⟩ := inner_loop rb B hB g1 bx g4 g5 si di (load64 m (di + dispU 0)) (load64 m (di + dispU 8))
    (load64 m (di + dispU 16)) (load64 m (di + dispU 24)) g12 g13 lo hi f19 f20 inc m B 0 (by omega) hB0
    (keyRaw m g1) (keyRaw m g1) (keyRaw m g1) (keyRaw m g1) (headRax m g5 g13) _
    ⟨b8, b9, b10, b11, b12, b13, b14, b15, f0, f1, f2, f3, f4, f5, f6, f7, f8, f9, f10, f11, f12, f13, f14, f15, f16, r14, _, _, rfl⟩
  obtain ⟨c8, c9, c10, c11, c12, c13, c14, c15, e0, e1, e2, e3, e4, e5, e6, e7, e8, e9, e10, e11, e12, e13, e14, e15, e16, r14', z2, c2,
    rfl⟩ := hL
  -- output
  obtain ⟨x', h3⟩ := out rb _ _ _ _ c8 c9 c10 c11 c12 c13 c14 c15
    #v[e0, e1, e2, e3, e4, e5, e6, e7, e8, e9, e10, e11, e12, e13, e14, e15, e16, lo, hi, f19, f20, inc]
    #v[trunc .d32 (trunc .d32 g13), g1, UInt64.ofNat (64 * B), bx, g4, g5, si, di, load64 m (di + dispU 0), load64 m (di + dispU 8),
       load64 m (di + dispU 16), load64 m (di + dispU 24), g12, g13, r14', UInt64.ofNat (64 * B)] z2 c2 m
  -- counters
  rw [vec16_eta x'] at h3
  obtain ⟨x'', h4⟩ := run_of_gview (ctr_raw rb x'[0] x'[1] x'[2] x'[3] x'[4] x'[5] x'[6] x'[7] x'[8] x'[9] x'[10] x'[11] x'[12] x'[13]
    x'[14] x'[15] (trunc .d32 (trunc .d32 g13)) g1 (UInt64.ofNat (64 * B)) bx g4 g5 si di (load64 m (di + dispU 0))
    (load64 m (di + dispU 8)) (load64 m (di + dispU 16)) (load64 m (di + dispU 24)) g12 g13 r14' (UInt64.ofNat (64 * B)) z2 c2
    e0 e1 e2 e3 e4 e5 e6 e7 e8 e9 e10 e11 e12 e13 e14 e15 e16 lo hi f19 f20 inc _)
  have hrun := ((h1.trans h2).trans h3).trans_nil h4
  refine ⟨_, hrun, ?_⟩
  · rw [vec16_eta x'']
    exact ⟨_, _, _, _, _, _, _, _, _, _, _, _, _, _, _, _, _, _, _, _, _, _, _, _, _, _, _, _, _, _, _, _, _, _, _, _, _, _, _, _, rfl⟩

end B3.AsmSem.Many2
