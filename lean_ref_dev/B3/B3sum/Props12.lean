/-
  B3.B3sum.Props12 — property C12
  "b3sum prints the library's output and --check's exit status tells the truth".

  The statements are about the model in B3.B3sum.Model: `writeHexOutput` / `writeRawOutput` /
  `hashOneInputOk` over an abstract extended-output stream `S : Nat → UInt8` (the library's output
  for the chosen mode, key/context and file contents — that the library computes the specified
  stream is the subject of other properties), and `runCheckMain` over an abstract filesystem and
  hash function (`Env`).  Vocabulary from B3.B3sum.Proofs:

    fillAt S seek len          the slice S[seek .. seek+len]
    LineMatches env line       the entry parses and matches the current contents of the named file
    AllGood env files          every checkfile opens, every read_line yields text, every entry matches
    WellFormed files           read_line never yields "" before end of file (true of every real reader)
    Processable l              l ≠ "" and the parser does not panic on l
    lineVerdict / allEvs / countFailed      verdict, output lines and failure count, entry by entry
-/
import B3.B3sum.Proofs

namespace B3.B3sum

/-! ## the digest bytes -/

/-- `write_hex_output` never panics and prints exactly the lowercase hex of `S[seek..seek+len]`,
for every `len` (the 64-byte steps and the truncated last step do not show). -/
theorem hex_output_eq_slice (S : Nat → UInt8) (seek len : Nat) :
    writeHexOutput S seek len = .ok (hexEncode (fillAt S seek len)) ∧
    (fillAt S seek len).length = len ∧
    ∀ i, i < len → (fillAt S seek len)[i]? = some (S (seek + i)) := by
  refine ⟨writeHexLoop_eq S len seek len (Nat.le_refl _), by simp, ?_⟩
  intro i hi
  simp [fillAt, hi]

set_option maxRecDepth 8000 in
example : writeHexOutput (fun i => i.toUInt8) 250 70 = .ok (hexEncode (fillAt (fun i => i.toUInt8) 250 70)) ∧
    writeHexOutput (fun i => i.toUInt8) 254 3 = .ok "feff00".toList := by decide

/-- `--raw`: the slice itself -/
theorem raw_output_eq_slice (S : Nat → UInt8) (seek len : Nat) :
    writeRawOutput S seek len = fillAt S seek len := rfl

/-- everything `hash_one_input` writes to stdout, for every combination of --raw, --no-names,
--tag, --length and --seek: the digest part is the slice, raw or in lowercase hex -/
theorem hash_one_input_output (a : HashArgs) (S : Nat → UInt8) (path : List UInt8) :
    hashOneInputOk a S path = .ok
      (if a.raw then .raw (fillAt S a.seek a.len)
       else if a.noNames then .text (hexEncode (fillAt S a.seek a.len) ++ ['\n'])
       else .text (formatLineBytes a.tag path (hexEncode (fillAt S a.seek a.len)) ++ ['\n'])) := by
  unfold hashOneInputOk
  rw [(hex_output_eq_slice S a.seek a.len).1]
  cases a.raw <;> cases a.noNames <;> simp [writeRawOutput]

example : hashOneInputOk { tag := true, len := 2, seek := 1 } (fun i => i.toUInt8) [0x61, 0x0a] =
    .ok (.text "\\BLAKE3 (a\\n) = 0102\n".toList) := by decide

/-- without `--check`: the exit status is 0 iff every input could be hashed -/
theorem hash_exit_iff (results : List Bool) : runHashExit results = 0 ↔ ∀ r ∈ results, r = true := by
  unfold runHashExit
  have key : ∀ (rs : List Bool) (n : Nat),
      rs.foldl (fun failed ok => if ok = true then failed else satAdd1 failed) n = 0 ↔ n = 0 ∧ ∀ r ∈ rs, r = true := by
    intro rs
    induction rs with
    | nil => simp
    | cons r rs ih =>
      intro n
      simp only [List.foldl_cons]
      rw [ih]
      cases r with
      | true => simp
      | false => simp [satAdd1_pos]
  have := key results 0
  constructor
  · intro h
    by_cases hz : results.foldl (fun failed ok => if ok = true then failed else satAdd1 failed) 0 > 0
    · simp [hz] at h
    · exact (this.mp (by omega)).2
  · intro h
    have := this.mpr ⟨rfl, h⟩
    simp [this]

/-! ## check_exit_iff -/

/-- `b3sum --check` exits 0 if and only if every given checkfile can be read as text and every
entry of every checkfile parses and matches the current contents of the file it names. (Any other
exit status is 1, or 101 when the parser panicked.) -/
theorem check_exit_iff (env : Env) (files : List CheckSrc) (wf : WellFormed files) :
    (runCheckMain env files).exit = 0 ↔ AllGood env files := by
  unfold runCheckMain
  rw [runCheck_exit_iff env files wf]
  simp

example : (runCheckMain demoEnv [.ok [.ok goodLine, .ok goodLine]]).exit = 0 ∧
    (runCheckMain demoEnv [.ok [.ok goodLine, .ok (hexEncode hashA ++ "  y\n".toList)]]).exit = 1 ∧
    (runCheckMain demoEnv [.ok [.ok goodLine], .error "No such file or directory (os error 2)"]).exit = 1 ∧
    (runCheckMain demoEnv [.ok [.ok goodLine, .ok "garbage\n".toList]]).exit = 1 ∧
    (runCheckMain demoEnv [.ok [.ok (panicLine ++ ['\n'])]]).exit = 101 := by decide

/-- the checkfile reader used by the process-level prediction never yields an empty line -/
theorem readLines_wellFormed (contents : List UInt8) : ∀ l, Except.ok l ∈ readLines contents → l ≠ [] := by
  have hsplit : ∀ (bs cur : List UInt8), ∀ x ∈ splitAfterLF bs cur, x ≠ [] := by
    intro bs
    induction bs with
    | nil =>
      intro cur x hx
      unfold splitAfterLF at hx
      split at hx
      · simp at hx
      · rename_i hne
        simp at hx; subst hx
        simpa using hne
    | cons b bs ih =>
      intro cur x hx
      unfold splitAfterLF at hx
      split at hx
      · simp at hx
        rcases hx with h | h
        · subst h; simp
        · exact ih [] x h
      · exact ih (b :: cur) x hx
  intro l hl
  unfold readLines at hl
  simp at hl
  obtain ⟨x, hx, hd⟩ := hl
  have hne := hsplit contents [] x hx
  cases hs : strictDecode x with
  | none => rw [hs] at hd; simp at hd
  | some s =>
    rw [hs] at hd
    simp at hd
    subst hd
    intro he
    subst he
    exact hne (strictDecode_eq_nil hs)

/-! ## check_continues -/

/- FULL STATEMENT (false): whatever else is in the checkfiles, every entry is still checked — in
   particular a matching entry is reported `<name>: OK` (unless --quiet). -/
theorem check_continues_false :
    ¬ ∀ (env : Env) (files : List CheckSrc) (lines : List ReadLine) (l : Str),
        WellFormed files → Except.ok lines ∈ files → Except.ok l ∈ lines → LineMatches env l →
        env.quiet = false → ∃ name : String, Ev.out (name ++ ": OK") ∈ (runCheckMain env files).evs := by
  intro h
  -- witness 1: an entry whose hash field is `aa…aé` (64 bytes, 63 characters) comes first
  have wf : WellFormed [Except.ok [Except.ok (panicLine ++ ['\n']), Except.ok goodLine]] := by
    intro lines hl l hl2
    simp at hl; subst hl
    simp at hl2
    rcases hl2 with e | e <;> subst e <;> decide
  obtain ⟨name, hn⟩ := h demoEnv [.ok [.ok (panicLine ++ ['\n']), .ok goodLine]]
    [.ok (panicLine ++ ['\n']), .ok goodLine] goodLine wf (by simp) (by simp) goodLine_matches rfl
  have : (runCheckMain demoEnv [.ok [.ok (panicLine ++ ['\n']), .ok goodLine]]).evs = [] := by decide
  rw [this] at hn
  cases hn

/- The same full statement also fails without any panic: a `read_line` error (a line that is not
   valid UTF-8) or a checkfile that cannot be opened ends the whole run. -/
theorem check_continues_false_io :
    ¬ ∀ (env : Env) (files : List CheckSrc) (lines : List ReadLine) (l : Str),
        WellFormed files → Except.ok lines ∈ files → Except.ok l ∈ lines → LineMatches env l →
        env.quiet = false → ∃ name : String, Ev.out (name ++ ": OK") ∈ (runCheckMain env files).evs := by
  intro h
  have wf : WellFormed [Except.ok [Except.error "stream did not contain valid UTF-8", Except.ok goodLine]] := by
    intro lines hl l hl2
    simp at hl; subst hl
    simp at hl2
    subst hl2; decide
  obtain ⟨name, hn⟩ := h demoEnv [.ok [.error "stream did not contain valid UTF-8", .ok goodLine]]
    [.error "stream did not contain valid UTF-8", .ok goodLine] goodLine wf (by simp) (by simp) goodLine_matches rfl
  simp [runCheckMain, runCheck, checkLines] at hn

/-- Strongest true version: if every checkfile can be read as text and the parser panics on no
entry, the run processes EVERY entry of EVERY checkfile in order: its output is the concatenation
of the per-entry outputs (followed by the WARNING line if anything failed), the failure counter is
the (saturating) number of failing entries, and the exit status is 1 iff some entry failed.  -/
theorem check_continues_partial (env : Env) (files : List (List Str))
    (h : ∀ ls ∈ files, ∀ l ∈ ls, Processable l) :
    let r := runCheckMain env (files.map fun ls => Except.ok (ls.map Except.ok))
    let n := countFailed env files.flatten 0
    r.evs = allEvs env files.flatten ++ (if n > 0 then [.diag (warningLine n)] else []) ∧
    r.exit = (if n > 0 then 1 else 0) ∧
    (n > 0 ↔ ∃ l ∈ files.flatten, (lineVerdict env l).1 = false) := by
  simp only
  unfold runCheckMain
  rw [runCheck_ok env files h]
  refine ⟨by simp, by simp, ?_⟩
  rw [countFailed_pos_iff]
  simp

/-- … and each failing entry contributes exactly one line: a diagnostic on stderr (malformed line)
or `<name>: FAILED` / `<name>: FAILED (<error>)` on stdout (mismatch / unreadable file); a passing
entry is exactly an entry that parses and matches. -/
theorem check_failures_reported (env : Env) (l : Str) (hp : Processable l) :
    ((lineVerdict env l).1 = true ↔ LineMatches env l) ∧
    ((lineVerdict env l).1 = false →
      (∃ e : PErr, (lineVerdict env l).2 = [.diag ("b3sum: " ++ e.msg)]) ∨
      (∃ name, (lineVerdict env l).2 = [.out (name ++ ": FAILED")]) ∨
      (∃ name e, (lineVerdict env l).2 = [.out (name ++ ": FAILED (" ++ e ++ ")")])) := by
  obtain ⟨s1, s2, _, s4⟩ := checkOneLine_spec env l
  unfold lineVerdict
  cases hc : checkOneLine env l with
  | panicked => exact absurd (s4.mp hc) hp.2
  | done s e =>
    simp only
    cases s with
    | true => exact ⟨by simp [s1 e hc], by simp⟩
    | false =>
      refine ⟨by simp [s2 e hc], fun _ => checkOneLine_failed_ev hc⟩

example : Processable goodLine ∧ Processable "garbage\n".toList ∧ ¬ Processable (panicLine ++ ['\n']) := by
  refine ⟨⟨by decide, by decide⟩, ⟨by decide, by decide⟩, ?_⟩
  intro h; exact h.2 (by decide)

#print axioms hex_output_eq_slice
#print axioms raw_output_eq_slice
#print axioms hash_one_input_output
#print axioms hash_exit_iff
#print axioms check_exit_iff
#print axioms readLines_wellFormed
#print axioms check_continues_false
#print axioms check_continues_false_io
#print axioms check_continues_partial
#print axioms check_failures_reported

end B3.B3sum
