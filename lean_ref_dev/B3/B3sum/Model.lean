/-
  B3.B3sum.Model — executable model of /repo/b3sum/src/main.rs (BLAKE3 1.8.6, Unix build).

  The model follows the control flow of the Rust source function by function:

    filepath_to_string, hex_half_byte, check_for_invalid_characters, unescape,
    split_untagged_check_line, split_tagged_check_line, parse_check_line,
    the line formatting in hash_one_input (plain and --tag form),
    write_hex_output / write_raw_output,
    check_one_line, check_one_checkfile and the exit status computed by main.

  Conventions
  * A Rust `&str`/`String` is a `List Char` (`Str`).  Rust mixes *byte* offsets and *character*
    iteration; the UTF-8 length of a character is explicit (`utf8Len`), `str::len()` is `byteLen`,
    and every byte-offset slice `&s[a..]`, `&s[..b]` is `dropBytes` / `takeBytes`, which return
    `none` exactly when Rust would panic (offset out of range or not on a character boundary).
  * A Rust computation that can return `Err(..)` or panic has result type `Res ε α` with the three
    outcomes `ok`, `err`, `panic`.  Every `unwrap()`, slice index and checked arithmetic operation
    of the source is an explicit `panic` branch here (the harness builds with overflow-checks on).
    Nothing is totalised away; that the `panic` branches are (un)reachable is a theorem, not a
    modelling decision.
  * Only core Lean is imported.  All recursion is structural (fuel where the source has a `while`
    loop), so that closed instances reduce in the kernel (`by decide`).
-/

namespace B3.B3sum

abbrev Str := List Char

/-! ## three-way results -/

inductive Res (ε α : Type) where
  | ok (a : α)
  | err (e : ε)
  | panic
  deriving DecidableEq, Repr

namespace Res
variable {ε α β : Type}

def bind (x : Res ε α) (f : α → Res ε β) : Res ε β :=
  match x with
  | ok a => f a
  | err e => err e
  | panic => panic

/-- `Option::unwrap` / a slice that panics on `none` -/
def ofOption (x : Option α) : Res ε α :=
  match x with
  | some a => ok a
  | none => panic

def isOk : Res ε α → Bool
  | ok _ => true
  | _ => false

def isErr : Res ε α → Bool
  | err _ => true
  | _ => false

def isPanic : Res ε α → Bool
  | panic => true
  | _ => false

end Res

/-! ## UTF-8 byte lengths and byte-offset slicing -/

/-- `char::len_utf8` -/
def utf8Len (c : Char) : Nat :=
  if c.toNat < 0x80 then 1 else if c.toNat < 0x800 then 2 else if c.toNat < 0x10000 then 3 else 4

/-- `str::len()` — a BYTE length -/
def byteLen : Str → Nat
  | [] => 0
  | c :: cs => utf8Len c + byteLen cs

/-- `&s[n..]`; `none` = Rust panic (out of range / not a char boundary) -/
def dropBytes (n : Nat) : Str → Option Str
  | [] => if n = 0 then some [] else none
  | c :: cs =>
    if n = 0 then some (c :: cs)
    else if utf8Len c ≤ n then dropBytes (n - utf8Len c) cs
    else none

/-- `&s[..n]`; `none` = Rust panic -/
def takeBytes (n : Nat) : Str → Option Str
  | [] => if n = 0 then some [] else none
  | c :: cs =>
    if n = 0 then some []
    else if utf8Len c ≤ n then (takeBytes (n - utf8Len c) cs).map (c :: ·)
    else none

/-- `str::find(char)` — byte offset of the first occurrence -/
def findChar (p : Char) : Str → Option Nat
  | [] => none
  | c :: cs => if c = p then some 0 else (findChar p cs).map (· + utf8Len c)

/-- checked `usize`/`u64` subtraction -/
def usub {ε : Type} (a b : Nat) : Res ε Nat := if b ≤ a then .ok (a - b) else .panic

/-- checked `u8` addition / multiplication (overflow-checks = true) -/
def u8add {ε : Type} (a b : Nat) : Res ε Nat := if a + b < 256 then .ok (a + b) else .panic
def u8mul {ε : Type} (a b : Nat) : Res ε Nat := if a * b < 256 then .ok (a * b) else .panic

/-! ## constants -/

def BSLASH : Char := '\\'
def NUL : Char := Char.ofNat 0
def REPL : Char := Char.ofNat 0xFFFD
def TAG_PREFIX : Str := ['B', 'L', 'A', 'K', 'E', '3', ' ', '(']
def TAG_SEP : Str := [')', ' ', '=', ' ']
def UNTAG_SEP : Str := [' ', ' ']
/-- `blake3::OUT_LEN` -/
def OUT_LEN : Nat := 32
/-- `blake3::BLOCK_LEN` -/
def BLOCK_LEN : Nat := 64

/-! ## UTF-8 decoding (`OsStr::to_string_lossy`, `BufRead::read_line`) and encoding

`decodeUtf8` follows `core::str::lossy::Utf8Chunks`: every maximal invalid prefix (the bytes
consumed before the decoder gives up; at least one byte) yields one `none`. -/

def isCont (b : UInt8) : Bool := 0x80 ≤ b.toNat && b.toNat ≤ 0xBF

/-- second-byte ranges of 3-byte sequences -/
def ok3 (b0 b1 : UInt8) : Bool :=
  let a := b0.toNat; let b := b1.toNat
  (a = 0xE0 && 0xA0 ≤ b && b ≤ 0xBF) ||
  (0xE1 ≤ a && a ≤ 0xEC && 0x80 ≤ b && b ≤ 0xBF) ||
  (a = 0xED && 0x80 ≤ b && b ≤ 0x9F) ||
  (0xEE ≤ a && a ≤ 0xEF && 0x80 ≤ b && b ≤ 0xBF)

/-- second-byte ranges of 4-byte sequences -/
def ok4 (b0 b1 : UInt8) : Bool :=
  let a := b0.toNat; let b := b1.toNat
  (a = 0xF0 && 0x90 ≤ b && b ≤ 0xBF) ||
  (0xF1 ≤ a && a ≤ 0xF3 && 0x80 ≤ b && b ≤ 0xBF) ||
  (a = 0xF4 && 0x80 ≤ b && b ≤ 0x8F)

def cp2 (b0 b1 : UInt8) : Nat := (b0.toNat - 0xC0) * 64 + (b1.toNat - 0x80)
def cp3 (b0 b1 b2 : UInt8) : Nat := (b0.toNat - 0xE0) * 4096 + (b1.toNat - 0x80) * 64 + (b2.toNat - 0x80)
def cp4 (b0 b1 b2 b3 : UInt8) : Nat :=
  (b0.toNat - 0xF0) * 262144 + (b1.toNat - 0x80) * 4096 + (b2.toNat - 0x80) * 64 + (b3.toNat - 0x80)

def decodeUtf8 : List UInt8 → List (Option Char)
  | [] => []
  | b0 :: t0 =>
    if b0.toNat < 0x80 then some (Char.ofNat b0.toNat) :: decodeUtf8 t0
    else if 0xC2 ≤ b0.toNat ∧ b0.toNat ≤ 0xDF then
      match t0 with
      | [] => [none]
      | b1 :: t1 =>
        if isCont b1 then some (Char.ofNat (cp2 b0 b1)) :: decodeUtf8 t1
        else none :: decodeUtf8 (b1 :: t1)
    else if 0xE0 ≤ b0.toNat ∧ b0.toNat ≤ 0xEF then
      match t0 with
      | [] => [none]
      | b1 :: t1 =>
        if ok3 b0 b1 then
          match t1 with
          | [] => [none]
          | b2 :: t2 =>
            if isCont b2 then some (Char.ofNat (cp3 b0 b1 b2)) :: decodeUtf8 t2
            else none :: decodeUtf8 (b2 :: t2)
        else none :: decodeUtf8 (b1 :: t1)
    else if 0xF0 ≤ b0.toNat ∧ b0.toNat ≤ 0xF4 then
      match t0 with
      | [] => [none]
      | b1 :: t1 =>
        if ok4 b0 b1 then
          match t1 with
          | [] => [none]
          | b2 :: t2 =>
            if isCont b2 then
              match t2 with
              | [] => [none]
              | b3 :: t3 =>
                if isCont b3 then some (Char.ofNat (cp4 b0 b1 b2 b3)) :: decodeUtf8 t3
                else none :: decodeUtf8 (b3 :: t3)
            else none :: decodeUtf8 (b2 :: t2)
        else none :: decodeUtf8 (b1 :: t1)
    else none :: decodeUtf8 t0

/-- `String::from_utf8_lossy` / `OsStr::to_string_lossy` on Unix -/
def lossyDecode (b : List UInt8) : Str := (decodeUtf8 b).map fun o => o.getD REPL

/-- `str::from_utf8` -/
def strictDecode (b : List UInt8) : Option Str :=
  let d := decodeUtf8 b
  if d.all Option.isSome then some (d.map fun o => o.getD REPL) else none

/-- UTF-8 encoding of one character -/
def utf8EncodeChar (c : Char) : List UInt8 :=
  let n := c.toNat
  if n < 0x80 then [n.toUInt8]
  else if n < 0x800 then [(0xC0 + n / 64).toUInt8, (0x80 + n % 64).toUInt8]
  else if n < 0x10000 then [(0xE0 + n / 4096).toUInt8, (0x80 + n / 64 % 64).toUInt8, (0x80 + n % 64).toUInt8]
  else [(0xF0 + n / 262144).toUInt8, (0x80 + n / 4096 % 64).toUInt8, (0x80 + n / 64 % 64).toUInt8,
        (0x80 + n % 64).toUInt8]

/-- `String → PathBuf` on Unix (`file_path_string.into()`): the UTF-8 bytes -/
def utf8Encode : Str → List UInt8
  | [] => []
  | c :: cs => utf8EncodeChar c ++ utf8Encode cs

/-! ## `filepath_to_string` -/

/-- `str::replace(char, &str)` -/
def replaceChar (c : Char) (rep : Str) (s : Str) : Str :=
  s.flatMap fun x => if x = c then rep else [x]

/-- `filepath_to_string` after `to_string_lossy` (the `cfg!(windows)` branch is dead on Unix).
Returns `(filepath_string, is_escaped)`. -/
def filepathToString (lossy : Str) : Str × Bool :=
  if lossy.any (fun c => c = '\\' || c = '\n' || c = '\r') then
    (replaceChar '\r' ['\\', 'r'] (replaceChar '\n' ['\\', 'n'] (replaceChar '\\' ['\\', '\\'] lossy)), true)
  else
    (lossy, false)

/-- `filepath_to_string(path)` for an OS path given as bytes -/
def filepathToStringBytes (path : List UInt8) : Str × Bool :=
  filepathToString (lossyDecode path)

/-! ## hex -/

def hexDigit (n : Nat) : Char := if n < 10 then Char.ofNat (48 + n) else Char.ofNat (87 + n)

/-- `hex::encode` -/
def hexEncode : List UInt8 → Str
  | [] => []
  | b :: bs => hexDigit (b.toNat / 16) :: hexDigit (b.toNat % 16) :: hexEncode bs

/-! ## the output line of `hash_one_input` (without the `\n` that `println!` appends) -/

/-- what `hash_one_input` prints for the (lossily decoded) name `name`, given the text `hashHex`
that `write_hex_output` prints; `tag` = `--tag`. -/
def formatLine (tag : Bool) (name : Str) (hashHex : Str) : Str :=
  let fs := filepathToString name
  (if fs.2 then ['\\'] else []) ++
    (if tag then TAG_PREFIX ++ fs.1 ++ TAG_SEP ++ hashHex
     else hashHex ++ UNTAG_SEP ++ fs.1)

def formatLineBytes (tag : Bool) (path : List UInt8) (hashHex : Str) : Str :=
  formatLine tag (lossyDecode path) hashHex

/-! ## `parse_check_line` and its helpers -/

/-- error classes = the `bail!`/`ensure!` messages of the parser -/
inductive PErr where
  | emptyLine    -- "Empty line"
  | format       -- "Invalid check line format"
  | hashLength   -- "Invalid hash length"
  | hex          -- "Invalid hex"
  | escape       -- "Invalid backslash escape"
  | emptyPath    -- "empty file path"
  | nul          -- "Null character in path"
  | fffd         -- "Unicode replacement character in path"
  deriving DecidableEq, Repr

/-- `hex_half_byte`; `c as u8` is `c.toNat % 256`, the subtractions/additions are checked `u8` ops -/
def hexHalfByte (c : Char) : Res PErr Nat :=
  if 48 ≤ c.toNat ∧ c.toNat ≤ 57 then usub (c.toNat % 256) 48
  else if 97 ≤ c.toNat ∧ c.toNat ≤ 102 then (usub (c.toNat % 256) 97).bind fun d => u8add d 10
  else .err .hex

/-- `check_for_invalid_characters` (Unix) -/
def checkForInvalidCharacters (p : Str) : Res PErr Unit :=
  if p.contains NUL then .err .nul
  else if p.contains REPL then .err .fffd
  else .ok ()

/-- the `while let Some(i) = path.find('\\')` loop of `unescape`.  `fuel` bounds the number of
iterations (the path gets shorter every time); running out of fuel is reported as `panic` and
proved unreachable for `fuel > path.length`. -/
def unescapeLoop : Nat → Str → Str → Res PErr Str
  | 0, _, _ => .panic
  | fuel + 1, path, unescaped =>
    match findChar '\\' path with
    | none => .ok (unescaped ++ path)                       -- unescaped.push_str(path)
    | some i =>
      (usub (byteLen path) 1).bind fun lenm1 =>              -- path.len() - 1
      if ¬ (i < lenm1) then .err .escape                     -- ensure!(i < path.len() - 1)
      else
        (Res.ofOption (takeBytes i path)).bind fun pre =>     -- &path[..i]
        (Res.ofOption (dropBytes (i + 1) path)).bind fun after =>   -- &path[i + 1..]
        (Res.ofOption after.head?).bind fun c =>              -- .chars().next().unwrap()
        (if c = 'n' then (.ok '\n' : Res PErr Char)
         else if c = 'r' then .ok '\r'
         else if c = '\\' then .ok '\\'
         else .err .escape).bind fun u =>
        (Res.ofOption (dropBytes (i + 2) path)).bind fun rest =>    -- &path[i + 2..]
        unescapeLoop fuel rest (unescaped ++ pre ++ [u])

/-- `unescape` -/
def unescape (path : Str) : Res PErr Str := unescapeLoop (path.length + 1) path []

/-- `str::split_once(pat)`: split at the FIRST occurrence -/
def splitOnce (pat : Str) : Str → Option (Str × Str)
  | [] => if pat = [] then some ([], []) else none
  | c :: cs =>
    if pat.isPrefixOf (c :: cs) then some ([], (c :: cs).drop pat.length)
    else (splitOnce pat cs).map fun ab => (c :: ab.1, ab.2)

/-- `str::rsplit_once(pat)`: split at the LAST occurrence -/
def rsplitOnce (pat : Str) : Str → Option (Str × Str)
  | [] => if pat = [] then some ([], []) else none
  | c :: cs =>
    match rsplitOnce pat cs with
    | some ab => some (c :: ab.1, ab.2)
    | none => if pat.isPrefixOf (c :: cs) then some ([], (c :: cs).drop pat.length) else none

/-- `split_untagged_check_line`: `(hash, file)` -/
def splitUntagged (s : Str) : Option (Str × Str) := splitOnce UNTAG_SEP s

/-- `split_tagged_check_line`: `(file, hash)`; the slice `[prefix.len()..]` is a potential panic -/
def splitTagged (s : Str) : Res PErr (Option (Str × Str)) :=
  if ¬ TAG_PREFIX.isPrefixOf s then .ok none
  else (Res.ofOption (dropBytes (byteLen TAG_PREFIX) s)).bind fun t => .ok (rsplitOnce TAG_SEP t)

/-- `str::trim_end_matches(['\r', '\n'])` -/
def isCRLF (c : Char) : Bool := c = '\r' || c = '\n'

def trimEndCRLF : Str → Str
  | [] => []
  | c :: cs =>
    match trimEndCRLF cs with
    | [] => if isCRLF c then [] else [c]
    | t => c :: t

/-- the `for byte in &mut hash_bytes` loop: two `hex_chars.next().unwrap()` per byte -/
def decodeHashLoop : Nat → Str → Res PErr (List UInt8)
  | 0, _ => .ok []
  | n + 1, cs =>
    match cs with
    | [] => .panic                    -- high_char: unwrap() on None
    | [_] => .panic                   -- low_char: unwrap() on None
    | hi :: lo :: rest =>
      (hexHalfByte hi).bind fun h =>
      (u8mul 16 h).bind fun h16 =>
      (hexHalfByte lo).bind fun l =>
      (u8add h16 l).bind fun b =>
      (decodeHashLoop n rest).bind fun bs => .ok (b.toUInt8 :: bs)

structure Parsed where
  /-- `file_string`: the path part as written in the line (still escaped) -/
  fileString : Str
  isEscaped : Bool
  /-- `file_path`: the unescaped path (the PathBuf is `utf8Encode filePath`) -/
  filePath : Str
  /-- `expected_hash` (32 bytes) -/
  expectedHash : List UInt8
  deriving DecidableEq, Repr

/-- the split step of `parse_check_line`: `(hash_hex, file_str)` -/
def splitLine (lineAfterSlash : Str) : Res PErr (Str × Str) :=
  match splitUntagged lineAfterSlash with
  | some lr => .ok (lr.1, lr.2)
  | none =>
    (splitTagged lineAfterSlash).bind fun o =>
    match o with
    | some lr => .ok (lr.2, lr.1)
    | none => .err .format

/-- `parse_check_line` -/
def parseCheckLine (line0 : Str) : Res PErr Parsed :=
  let line := trimEndCRLF line0
  match line.head? with
  | none => .err .emptyLine
  | some first =>
    (if first = '\\' then (Res.ofOption (dropBytes 1 line)).bind fun l => .ok (true, l)   -- &line[1..]
     else (.ok (false, line) : Res PErr (Bool × Str))).bind fun el =>
    let isEscaped := el.1
    (splitLine el.2).bind fun hf =>
    let hashHex := hf.1
    let fileStr := hf.2
    if byteLen hashHex ≠ 2 * OUT_LEN then .err .hashLength
    else
      (decodeHashLoop OUT_LEN hashHex).bind fun hashBytes =>
      (if isEscaped then unescape fileStr else .ok fileStr).bind fun filePathString =>
      if filePathString.isEmpty then .err .emptyPath
      else
        (checkForInvalidCharacters filePathString).bind fun _ =>
        .ok { fileString := fileStr, isEscaped := isEscaped, filePath := filePathString,
              expectedHash := hashBytes }

/-- the anyhow messages -/
def PErr.msg : PErr → String
  | .emptyLine => "Empty line"
  | .format => "Invalid check line format"
  | .hashLength => "Invalid hash length"
  | .hex => "Invalid hex"
  | .escape => "Invalid backslash escape"
  | .emptyPath => "empty file path"
  | .nul => "Null character in path"
  | .fffd => "Unicode replacement character in path"

/-! ## `write_hex_output`, `write_raw_output`, `hash_one_input` -/

/-- `OutputReader::fill(&mut [u8; n])` at position `pos` of the output stream `S` -/
def fillAt (S : Nat → UInt8) (pos n : Nat) : List UInt8 := (List.range n).map fun i => S (pos + i)

/-- the `while len > 0` loop of `write_hex_output`; returns the printed text.  `fuel ≥ len`
suffices because every iteration removes at least one byte from `len`. -/
def writeHexLoop (S : Nat → UInt8) : Nat → Nat → Nat → Res Unit Str
  | 0, _, len => if len > 0 then .panic else .ok []
  | fuel + 1, pos, len =>
    if len > 0 then
      let block := fillAt S pos BLOCK_LEN                    -- output.fill(&mut block)
      let hexStr := hexEncode block
      let takeBytes_ := min len BLOCK_LEN                    -- cmp::min(len, block.len() as u64)
      (Res.ofOption (takeBytes (2 * takeBytes_) hexStr)).bind fun piece =>   -- &hex_str[..2 * take_bytes]
      (usub len takeBytes_).bind fun len' =>                 -- len -= take_bytes
      (writeHexLoop S fuel (pos + BLOCK_LEN) len').bind fun more => .ok (piece ++ more)
    else .ok []

/-- `write_hex_output(output, args)` where `output` is positioned at `seek`, `args.len() = len` -/
def writeHexOutput (S : Nat → UInt8) (seek len : Nat) : Res Unit Str := writeHexLoop S len seek len

/-- `write_raw_output`: `io::copy(output.take(len), stdout)` -/
def writeRawOutput (S : Nat → UInt8) (seek len : Nat) : List UInt8 := fillAt S seek len

structure HashArgs where
  raw : Bool := false
  noNames : Bool := false
  tag : Bool := false
  len : Nat := 32
  seek : Nat := 0

/-- what goes to stdout -/
inductive Out where
  | text (s : Str)
  | raw (b : List UInt8)
  deriving DecidableEq, Repr

/-- `hash_one_input` once `hash_path` has succeeded with output stream `S` (already a function of
mode, key/context and file contents); `path` = OS path bytes. `println!` appends `'\n'`. -/
def hashOneInputOk (a : HashArgs) (S : Nat → UInt8) (path : List UInt8) : Res Unit Out :=
  if a.raw then .ok (.raw (writeRawOutput S a.seek a.len))
  else
    (writeHexOutput S a.seek a.len).bind fun hexText =>
    if a.noNames then .ok (.text (hexText ++ ['\n']))
    else .ok (.text (formatLineBytes a.tag path hexText ++ ['\n']))

/-! ## `--check`: `check_one_line`, `check_one_checkfile`, exit status of `main` -/

/-- abstract environment of a `--check` run -/
structure Env where
  /-- the filesystem: OS path bytes ↦ `Err(message)` or the file contents -/
  fs : List UInt8 → Except String (List UInt8)
  /-- the hash the run compares against: contents ↦ first 32 output bytes at `args.seek()` -/
  hash : List UInt8 → List UInt8
  quiet : Bool := false

/-- one line written by the process -/
inductive Ev where
  | out (s : String)     -- stdout
  | diag (s : String)    -- stderr
  deriving DecidableEq, Repr

inductive LineOutcome where
  | done (success : Bool) (evs : List Ev)
  | panicked
  deriving DecidableEq, Repr

/-- `hash_path(args, &file_path)` followed by `output.fill(&mut found_hash_bytes)` -/
def hashPath (env : Env) (filePath : Str) : Except String (List UInt8) :=
  match env.fs (utf8Encode filePath) with
  | .error e => .error e
  | .ok contents => .ok (env.hash contents)

/-- `check_one_line` -/
def checkOneLine (env : Env) (line : Str) : LineOutcome :=
  match parseCheckLine line with
  | .panic => .panicked
  | .err e => .done false [.diag ("b3sum: " ++ e.msg)]
  | .ok p =>
    let fileString := if p.isEscaped then String.ofList ('\\' :: p.fileString) else String.ofList p.fileString
    match hashPath env p.filePath with
    | .error e => .done false [.out (fileString ++ ": FAILED (" ++ e ++ ")")]
    | .ok found =>
      if p.expectedHash = found then
        .done true (if env.quiet then [] else [.out (fileString ++ ": OK")])
      else .done false [.out (fileString ++ ": FAILED")]

/-- `u64::saturating_add(1)` -/
def satAdd1 (n : Nat) : Nat := if n < 2 ^ 64 - 1 then n + 1 else n

/-- one `bufreader.read_line(&mut line)` result: `Err(e)` (I/O error or invalid UTF-8) or the line
including its terminator (`Ok(0)`, i.e. an empty string, means end of file) -/
abbrev ReadLine := Except String Str

structure CheckState where
  failed : Nat
  evs : List Ev
  deriving DecidableEq, Repr

inductive FileOutcome where
  | finished (st : CheckState)              -- Ok(())
  | ioError (e : String) (st : CheckState)  -- `?` propagated an io::Error
  | panicked (st : CheckState)
  deriving DecidableEq, Repr

/-- the `loop` of `check_one_checkfile` -/
def checkLines (env : Env) : List ReadLine → CheckState → FileOutcome
  | [], st => .finished st
  | .error e :: _, st => .ioError e st
  | .ok line :: rest, st =>
    if byteLen line = 0 then .finished st                     -- n == 0
    else
      match checkOneLine env line with
      | .panicked => .panicked st
      | .done success evs =>
        checkLines env rest
          { failed := if success then st.failed else satAdd1 st.failed, evs := st.evs ++ evs }

/-- a checkfile argument: `File::open` error, or the sequence of `read_line` results -/
abbrev CheckSrc := Except String (List ReadLine)

structure RunResult where
  /-- process exit status: 0, 1, or 101 (Rust panic) -/
  exit : Nat
  evs : List Ev
  deriving DecidableEq, Repr

def warningLine (failed : Nat) : String :=
  "b3sum: WARNING: " ++ toString failed ++ " computed checksum" ++ (if failed = 1 then "" else "s") ++
    " did NOT match"

/-- `main` with `--check`: the `for path in &args.file_args` loop and the exit status.
An `Err` returned from `main` makes the Rust runtime print `Error: <e>` and exit with 1. -/
def runCheck (env : Env) : List CheckSrc → CheckState → RunResult
  | [], st =>
    if st.failed > 0 then { exit := 1, evs := st.evs ++ [.diag (warningLine st.failed)] }
    else { exit := 0, evs := st.evs }
  | .error e :: _, st => { exit := 1, evs := st.evs ++ [.diag ("Error: " ++ e)] }
  | .ok lines :: rest, st =>
    match checkLines env lines st with
    | .finished st' => runCheck env rest st'
    | .ioError e st' => { exit := 1, evs := st'.evs ++ [.diag ("Error: " ++ e)] }
    | .panicked st' => { exit := 101, evs := st'.evs }

def runCheckMain (env : Env) (files : List CheckSrc) : RunResult :=
  runCheck env files { failed := 0, evs := [] }

/-- how `BufRead::read_line` cuts a byte stream into lines: after every `\n`, and at the end -/
def splitAfterLF : List UInt8 → List UInt8 → List (List UInt8)
  | [], cur => if cur.isEmpty then [] else [cur.reverse]
  | b :: bs, cur => if b = 10 then (b :: cur).reverse :: splitAfterLF bs [] else splitAfterLF bs (b :: cur)

/-- the `read_line` results for a checkfile with the given contents -/
def readLines (contents : List UInt8) : List ReadLine :=
  (splitAfterLF contents []).map fun l =>
    match strictDecode l with
    | some s => .ok s
    | none => .error "stream did not contain valid UTF-8"

/-! ## `main` without `--check`: errors are tolerated, counted, and make the exit status 1 -/

/-- `results[i]` = result of `hash_one_input` on the i-th argument -/
def runHashExit (results : List Bool) : Nat :=
  if (results.foldl (fun failed ok => if ok then failed else satAdd1 failed) 0) > 0 then 1 else 0

end B3.B3sum
