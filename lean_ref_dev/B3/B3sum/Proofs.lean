/-
  B3.B3sum.Proofs — helper definitions (specification-level functions) and lemmas for
  B3.B3sum.Props13 / Props12.  Core Lean only.
-/
import B3.B3sum.Model

namespace B3.B3sum

/-! ## Res -/

@[simp] theorem Res.bind_ok {ε α β : Type} (a : α) (f : α → Res ε β) : (Res.ok a).bind f = f a := rfl
@[simp] theorem Res.bind_err {ε α β : Type} (e : ε) (f : α → Res ε β) : (Res.err e : Res ε α).bind f = .err e := rfl
@[simp] theorem Res.bind_panic {ε α β : Type} (f : α → Res ε β) : (Res.panic : Res ε α).bind f = .panic := rfl
@[simp] theorem Res.ofOption_some {ε α : Type} (a : α) : (Res.ofOption (some a) : Res ε α) = .ok a := rfl
@[simp] theorem Res.ofOption_none {ε α : Type} : (Res.ofOption (none : Option α) : Res ε α) = .panic := rfl

theorem Res.bind_eq_ok {ε α β : Type} {x : Res ε α} {f : α → Res ε β} {b : β} :
    x.bind f = .ok b ↔ ∃ a, x = .ok a ∧ f a = .ok b := by
  cases x <;> simp [Res.bind]

theorem Res.bind_eq_panic {ε α β : Type} {x : Res ε α} {f : α → Res ε β} :
    x.bind f = .panic ↔ x = .panic ∨ ∃ a, x = .ok a ∧ f a = .panic := by
  cases x <;> simp [Res.bind]

/-! ## byte lengths and byte slicing -/

theorem utf8Len_pos (c : Char) : 1 ≤ utf8Len c := by
  unfold utf8Len; split <;> (try split) <;> (try split) <;> omega

theorem utf8Len_le (c : Char) : utf8Len c ≤ 4 := by
  unfold utf8Len; split <;> (try split) <;> (try split) <;> omega

theorem utf8Len_eq_one_iff (c : Char) : utf8Len c = 1 ↔ c.toNat < 0x80 := by
  unfold utf8Len; split <;> (try split) <;> (try split) <;> omega

@[simp] theorem byteLen_nil : byteLen [] = 0 := rfl
@[simp] theorem byteLen_cons (c : Char) (cs : Str) : byteLen (c :: cs) = utf8Len c + byteLen cs := rfl

@[simp] theorem byteLen_append (a b : Str) : byteLen (a ++ b) = byteLen a + byteLen b := by
  induction a with
  | nil => simp
  | cons c cs ih => simp [ih]; omega

theorem length_le_byteLen (s : Str) : s.length ≤ byteLen s := by
  induction s with
  | nil => simp
  | cons c cs ih => have := utf8Len_pos c; simp; omega

theorem byteLen_eq_zero {s : Str} : byteLen s = 0 ↔ s = [] := by
  cases s with
  | nil => simp
  | cons c cs => have := utf8Len_pos c; simp; omega

/-- all characters are one byte long (ASCII) -/
def AllAscii (s : Str) : Prop := ∀ c ∈ s, utf8Len c = 1

theorem byteLen_of_ascii {s : Str} (h : AllAscii s) : byteLen s = s.length := by
  induction s with
  | nil => rfl
  | cons c cs ih =>
    have h1 : utf8Len c = 1 := h c (by simp)
    have h2 : AllAscii cs := fun d hd => h d (by simp [hd])
    simp [h1, ih h2]; omega

@[simp] theorem dropBytes_zero (s : Str) : dropBytes 0 s = some s := by
  cases s <;> simp [dropBytes]

theorem dropBytes_cons_of_le (c : Char) (cs : Str) (n : Nat) (h0 : n ≠ 0) (h1 : utf8Len c ≤ n) :
    dropBytes n (c :: cs) = dropBytes (n - utf8Len c) cs := by
  simp [dropBytes, h0, h1]

theorem takeBytes_cons_of_le (c : Char) (cs : Str) (n : Nat) (h0 : n ≠ 0) (h1 : utf8Len c ≤ n) :
    takeBytes n (c :: cs) = (takeBytes (n - utf8Len c) cs).map (c :: ·) := by
  simp [takeBytes, h0, h1]

theorem dropBytes_append_left (a b : Str) (n : Nat) :
    dropBytes (byteLen a + n) (a ++ b) = dropBytes n b := by
  induction a with
  | nil => simp
  | cons c cs ih =>
    have := utf8Len_pos c
    have h0 : utf8Len c + byteLen cs + n ≠ 0 := by omega
    have h1 : utf8Len c ≤ utf8Len c + byteLen cs + n := by omega
    have h2 : utf8Len c + byteLen cs + n - utf8Len c = byteLen cs + n := by omega
    rw [List.cons_append, byteLen_cons, dropBytes_cons_of_le _ _ _ h0 h1, h2, ih]

theorem dropBytes_byteLen_append (a b : Str) : dropBytes (byteLen a) (a ++ b) = some b := by
  have := dropBytes_append_left a b 0
  simpa using this

@[simp] theorem takeBytes_zero (s : Str) : takeBytes 0 s = some [] := by
  cases s <;> simp [takeBytes]

theorem takeBytes_byteLen_append (a b : Str) : takeBytes (byteLen a) (a ++ b) = some a := by
  induction a with
  | nil => simp
  | cons c cs ih =>
    have := utf8Len_pos c
    have h0 : utf8Len c + byteLen cs ≠ 0 := by omega
    have h1 : utf8Len c ≤ utf8Len c + byteLen cs := by omega
    have h2 : utf8Len c + byteLen cs - utf8Len c = byteLen cs := by omega
    rw [List.cons_append, byteLen_cons, takeBytes_cons_of_le _ _ _ h0 h1, h2, ih]; rfl

theorem takeBytes_ascii {s : Str} (h : AllAscii s) (n : Nat) (hn : n ≤ s.length) :
    takeBytes n s = some (s.take n) := by
  induction s generalizing n with
  | nil => simp at hn; subst hn; simp
  | cons c cs ih =>
    have h1 : utf8Len c = 1 := h c (by simp)
    have h2 : AllAscii cs := fun d hd => h d (by simp [hd])
    cases n with
    | zero => simp
    | succ m =>
      have hm : m ≤ cs.length := by simpa using hn
      simp [takeBytes, h1, ih h2 m hm]

/-! ## `find` -/

theorem findChar_none {p : Char} {s : Str} : findChar p s = none ↔ p ∉ s := by
  induction s with
  | nil => simp [findChar]
  | cons c cs ih =>
    by_cases h : c = p
    · simp [findChar, h]
    · have h' : ¬ p = c := fun e => h e.symm
      simp [findChar, h, h', ih]

theorem findChar_some {p : Char} {s : Str} {i : Nat} (h : findChar p s = some i) :
    ∃ a b, s = a ++ p :: b ∧ p ∉ a ∧ i = byteLen a := by
  induction s generalizing i with
  | nil => simp [findChar] at h
  | cons c cs ih =>
    by_cases hc : c = p
    · simp [findChar, hc] at h
      exact ⟨[], cs, by simp [hc], by simp, by simp [h]⟩
    · simp [findChar, hc] at h
      obtain ⟨j, hj, hij⟩ := h
      obtain ⟨a, b, hs, hna, hja⟩ := ih hj
      refine ⟨c :: a, b, by simp [hs], ?_, ?_⟩
      · simp; exact ⟨fun e => hc e.symm, hna⟩
      · simp; omega

/-! ## the documented unescaping, and `unescape` computes it -/

/-- the documented unescaping (what_does_check_do.md rule 6, plus `\r`): `\\`→`\`, `\n`→LF,
`\r`→CR; any other escape, or a backslash at the end, is an error -/
def unescapeSpec : Str → Option Str
  | [] => some []
  | c :: rest =>
    if c = '\\' then
      match rest with
      | [] => none
      | d :: rest' =>
        if d = 'n' then (unescapeSpec rest').map ('\n' :: ·)
        else if d = 'r' then (unescapeSpec rest').map ('\r' :: ·)
        else if d = '\\' then (unescapeSpec rest').map ('\\' :: ·)
        else none
    else (unescapeSpec rest).map (c :: ·)

theorem unescapeSpec_cons_ne {c : Char} (h : c ≠ '\\') (rest : Str) :
    unescapeSpec (c :: rest) = (unescapeSpec rest).map (c :: ·) := by
  cases rest <;> simp [unescapeSpec, h]

theorem unescapeSpec_noslash {a : Str} (h : '\\' ∉ a) (b : Str) :
    unescapeSpec (a ++ b) = (unescapeSpec b).map (a ++ ·) := by
  induction a with
  | nil => simp
  | cons c cs ih =>
    have hc : c ≠ '\\' := fun e => h (by simp [e])
    have hcs : '\\' ∉ cs := fun e => h (by simp [e])
    rw [List.cons_append, unescapeSpec_cons_ne hc, ih hcs]
    simp [Option.map_map, Function.comp_def]

theorem unescapeSpec_noslash' {a : Str} (h : '\\' ∉ a) : unescapeSpec a = some a := by
  have := unescapeSpec_noslash h []
  simpa [unescapeSpec] using this

theorem unescapeLoop_eq (fuel : Nat) (path acc : Str) (hf : path.length < fuel) :
    unescapeLoop fuel path acc =
      match unescapeSpec path with
      | some u => .ok (acc ++ u)
      | none => .err .escape := by
  induction fuel generalizing path acc with
  | zero => omega
  | succ fuel ih =>
    unfold unescapeLoop
    cases hfind : findChar '\\' path with
    | none =>
      have := unescapeSpec_noslash' (findChar_none.mp hfind)
      simp [this]
    | some i =>
      obtain ⟨a, b, hs, hna, hi⟩ := findChar_some hfind
      subst hs hi
      have hbs : utf8Len '\\' = 1 := by decide
      simp only [byteLen_append, byteLen_cons, hbs]
      have hsub : (usub (byteLen a + (1 + byteLen b)) 1 : Res PErr Nat) = .ok (byteLen a + byteLen b) := by
        have e : byteLen a + (1 + byteLen b) - 1 = byteLen a + byteLen b := by omega
        simp [usub, e]
      rw [hsub]
      simp only [Res.bind_ok]
      rw [unescapeSpec_noslash hna]
      cases b with
      | nil => simp [unescapeSpec]
      | cons d b' =>
        have hd := utf8Len_pos d
        have hlt : byteLen a < byteLen a + byteLen (d :: b') := by simp; omega
        simp only [hlt, not_true_eq_false, if_false]
        rw [takeBytes_byteLen_append]
        have hdrop1 : dropBytes (byteLen a + 1) (a ++ '\\' :: d :: b') = some (d :: b') := by
          rw [dropBytes_append_left]; simp [dropBytes, hbs]
        rw [hdrop1]
        simp only [Res.ofOption_some, Res.bind_ok, List.head?_cons]
        have hlen : b'.length < fuel := by simp at hf; omega
        by_cases h1 : d = 'n'
        · subst h1
          have hdrop2 : dropBytes (byteLen a + 2) (a ++ '\\' :: 'n' :: b') = some b' := by
            have hn : utf8Len 'n' = 1 := by decide
            rw [dropBytes_append_left]; simp [dropBytes, hbs, hn]
          simp [hdrop2, ih b' _ hlen, unescapeSpec]
          cases unescapeSpec b' <;> simp
        · by_cases h2 : d = 'r'
          · subst h2
            have hdrop2 : dropBytes (byteLen a + 2) (a ++ '\\' :: 'r' :: b') = some b' := by
              have hn : utf8Len 'r' = 1 := by decide
              rw [dropBytes_append_left]; simp [dropBytes, hbs, hn]
            simp [hdrop2, ih b' _ hlen, unescapeSpec]
            cases unescapeSpec b' <;> simp
          · by_cases h3 : d = '\\'
            · subst h3
              have hdrop2 : dropBytes (byteLen a + 2) (a ++ '\\' :: '\\' :: b') = some b' := by
                rw [dropBytes_append_left]; simp [dropBytes, hbs]
              simp [hdrop2, ih b' _ hlen, unescapeSpec]
              cases unescapeSpec b' <;> simp
            · simp [h1, h2, h3, unescapeSpec]

/-- `unescape` never panics and computes the documented unescaping -/
theorem unescape_eq (path : Str) :
    unescape path = match unescapeSpec path with
      | some u => .ok u
      | none => .err .escape := by
  unfold unescape
  rw [unescapeLoop_eq _ _ _ (by omega)]
  simp

/-! ## escaping: `filepath_to_string` is the one-pass escape, and unescaping inverts it -/

def esc1 (c : Char) : Str :=
  if c = '\\' then ['\\', '\\'] else if c = '\n' then ['\\', 'n'] else if c = '\r' then ['\\', 'r'] else [c]

/-- the documented escaping: `\`→`\\`, LF→`\n`, CR→`\r` -/
def escapeSpec (s : Str) : Str := s.flatMap esc1

def needsEscape (s : Str) : Bool := s.any (fun c => c = '\\' || c = '\n' || c = '\r')

@[simp] theorem escapeSpec_nil : escapeSpec [] = [] := rfl
@[simp] theorem escapeSpec_cons (c : Char) (cs : Str) : escapeSpec (c :: cs) = esc1 c ++ escapeSpec cs := by
  simp [escapeSpec]

theorem replaceChar_cons (p : Char) (rep : Str) (x : Char) (xs : Str) :
    replaceChar p rep (x :: xs) = (if x = p then rep else [x]) ++ replaceChar p rep xs := by
  simp [replaceChar]

theorem replaceChar_append (p : Char) (rep : Str) (a b : Str) :
    replaceChar p rep (a ++ b) = replaceChar p rep a ++ replaceChar p rep b := by
  simp [replaceChar]

theorem replace3_eq (s : Str) :
    replaceChar '\r' ['\\', 'r'] (replaceChar '\n' ['\\', 'n'] (replaceChar '\\' ['\\', '\\'] s)) = escapeSpec s := by
  induction s with
  | nil => rfl
  | cons c cs ih =>
    rw [replaceChar_cons, replaceChar_append, replaceChar_append, ih, escapeSpec_cons]
    congr 1
    by_cases h1 : c = '\\'
    · subst h1; decide
    · by_cases h2 : c = '\n'
      · subst h2; decide
      · by_cases h3 : c = '\r'
        · subst h3; decide
        · simp [esc1, h1, h2, h3, replaceChar]

theorem escapeSpec_of_not_needs {s : Str} (h : needsEscape s = false) : escapeSpec s = s := by
  induction s with
  | nil => rfl
  | cons c cs ih =>
    have h' : ((decide (c = '\\') || decide (c = '\n') || decide (c = '\r')) || needsEscape cs) = false := h
    rw [Bool.or_eq_false_iff] at h'
    obtain ⟨hc, hcs⟩ := h'
    have h1 : c ≠ '\\' := by intro e; subst e; exact absurd hc (by decide)
    have h2 : c ≠ '\n' := by intro e; subst e; exact absurd hc (by decide)
    have h3 : c ≠ '\r' := by intro e; subst e; exact absurd hc (by decide)
    simp [esc1, h1, h2, h3, ih hcs]

theorem filepathToString_eq (s : Str) : filepathToString s = (escapeSpec s, needsEscape s) := by
  unfold filepathToString
  by_cases h : needsEscape s = true
  · have h' : (s.any fun c => decide (c = '\\') || decide (c = '\n') || decide (c = '\r')) = true := h
    rw [if_pos h', replace3_eq, h]
  · have h2 : needsEscape s = false := by simpa using h
    have h' : ¬ (s.any fun c => decide (c = '\\') || decide (c = '\n') || decide (c = '\r')) = true := h
    rw [if_neg h', escapeSpec_of_not_needs h2, h2]

theorem unescapeSpec_esc1 (c : Char) (t : Str) :
    unescapeSpec (esc1 c ++ t) = (unescapeSpec t).map (c :: ·) := by
  by_cases h1 : c = '\\'
  · subst h1; simp [esc1, unescapeSpec]
  · by_cases h2 : c = '\n'
    · subst h2; simp [esc1, unescapeSpec]
    · by_cases h3 : c = '\r'
      · subst h3; simp [esc1, unescapeSpec]
      · simp only [esc1, h1, h2, h3, if_false]
        exact unescapeSpec_cons_ne h1 t

theorem unescapeSpec_escapeSpec (s : Str) : unescapeSpec (escapeSpec s) = some s := by
  induction s with
  | nil => rfl
  | cons c cs ih => rw [escapeSpec_cons, unescapeSpec_esc1, ih]; rfl

theorem escapeSpec_injective {a b : Str} (h : escapeSpec a = escapeSpec b) : a = b := by
  have h1 := unescapeSpec_escapeSpec a
  rw [h, unescapeSpec_escapeSpec] at h1
  exact (Option.some.inj h1).symm

theorem esc1_ne_nil (c : Char) : esc1 c ≠ [] := by
  unfold esc1; split <;> (try split) <;> (try split) <;> simp

theorem escapeSpec_eq_nil {s : Str} : escapeSpec s = [] ↔ s = [] := by
  cases s with
  | nil => simp
  | cons c cs => simp [esc1_ne_nil]

theorem esc1_noCRLF (c : Char) : ∀ d ∈ esc1 c, isCRLF d = false := by
  by_cases h1 : c = '\\'
  · subst h1; decide
  · by_cases h2 : c = '\n'
    · subst h2; decide
    · by_cases h3 : c = '\r'
      · subst h3; decide
      · simp [esc1, h1, h2, h3, isCRLF]

theorem escapeSpec_noCRLF (s : Str) : ∀ d ∈ escapeSpec s, isCRLF d = false := by
  induction s with
  | nil => simp
  | cons c cs ih =>
    intro d hd
    rw [escapeSpec_cons, List.mem_append] at hd
    cases hd with
    | inl h => exact esc1_noCRLF c d h
    | inr h => exact ih d h

theorem not_needs_noslash {s : Str} (h : needsEscape s = false) : '\\' ∉ s := by
  intro hm
  have : needsEscape s = true := by
    simp only [needsEscape, List.any_eq_true]
    exact ⟨'\\', hm, by decide⟩
  simp [this] at h

/-! ## two consecutive spaces -/

def hasDbl : Str → Bool
  | [] => false
  | c :: cs => (c == ' ' && cs.head? == some ' ') || hasDbl cs

theorem head?_esc1_append (c : Char) (t : Str) :
    ((esc1 c ++ t).head? == some ' ') = (c == ' ') := by
  by_cases h1 : c = '\\'
  · subst h1; simp [esc1]
  · by_cases h2 : c = '\n'
    · subst h2; simp [esc1]
    · by_cases h3 : c = '\r'
      · subst h3; simp [esc1]
      · simp [esc1, h1, h2, h3]

theorem head?_escapeSpec (s : Str) : ((escapeSpec s).head? == some ' ') = (s.head? == some ' ') := by
  cases s with
  | nil => rfl
  | cons c cs => rw [escapeSpec_cons, head?_esc1_append]; simp

theorem hasDbl_esc1_append (c : Char) (t : Str) :
    hasDbl (esc1 c ++ t) = ((c == ' ' && t.head? == some ' ') || hasDbl t) := by
  by_cases h1 : c = '\\'
  · subst h1; simp [esc1, hasDbl]
  · by_cases h2 : c = '\n'
    · subst h2; simp [esc1, hasDbl]
    · by_cases h3 : c = '\r'
      · subst h3; simp [esc1, hasDbl]
      · simp [esc1, h1, h2, h3, hasDbl]

theorem hasDbl_escapeSpec (s : Str) : hasDbl (escapeSpec s) = hasDbl s := by
  induction s with
  | nil => rfl
  | cons c cs ih =>
    rw [escapeSpec_cons, hasDbl_esc1_append, ih, head?_escapeSpec]; rfl

theorem hasDbl_append_of_head {a b : Str} (hb : (b.head? == some ' ') = false) :
    hasDbl (a ++ b) = (hasDbl a || hasDbl b) := by
  induction a with
  | nil => simp [hasDbl]
  | cons c cs ih =>
    have e1 : hasDbl (c :: cs ++ b) = ((c == ' ' && (cs ++ b).head? == some ' ') || hasDbl (cs ++ b)) := rfl
    have e2 : hasDbl (c :: cs) = ((c == ' ' && cs.head? == some ' ') || hasDbl cs) := rfl
    rw [e1, e2, ih]
    cases cs with
    | nil => simp [hb, hasDbl]
    | cons d ds => simp [Bool.or_assoc]

/-! ## `split_once`, `rsplit_once` -/

theorem splitOnce_sound {pat s a b : Str} (h : splitOnce pat s = some (a, b)) : s = a ++ pat ++ b := by
  induction s generalizing a with
  | nil =>
    unfold splitOnce at h
    split at h
    · rename_i hp; simp at h; simp [h, hp]
    · simp at h
  | cons c cs ih =>
    unfold splitOnce at h
    split at h
    · rename_i hp
      obtain ⟨t, ht⟩ := List.isPrefixOf_iff_prefix.mp hp
      have hh := Option.some.inj h
      have h1 : a = [] := (congrArg Prod.fst hh).symm
      have h2 : b = List.drop pat.length (c :: cs) := (congrArg Prod.snd hh).symm
      subst h1
      rw [h2, ← ht]
      simp
    · cases hs : splitOnce pat cs with
      | none => rw [hs] at h; simp at h
      | some ab =>
        obtain ⟨a', b'⟩ := ab
        rw [hs] at h
        simp only [Option.map_some] at h
        have hh := Option.some.inj h
        have h1 : a = c :: a' := (congrArg Prod.fst hh).symm
        have h2 : b = b' := (congrArg Prod.snd hh).symm
        subst h1 h2
        simp [ih hs]

theorem dbl_isPrefixOf (c : Char) (cs : Str) :
    UNTAG_SEP.isPrefixOf (c :: cs) = (c == ' ' && cs.head? == some ' ') := by
  cases cs with
  | nil => simp [UNTAG_SEP, List.isPrefixOf]
  | cons d ds =>
    have e1 : (' ' == c) = (c == ' ') := by
      by_cases h1 : c = ' '
      · simp [h1]
      · have h1' : ¬ ' ' = c := fun e => h1 e.symm
        have a1 : (' ' == c) = false := by simp [h1']
        have a2 : (c == ' ') = false := by simp [h1]
        rw [a1, a2]
    have e2 : (' ' == d) = (d == ' ') := by
      by_cases h1 : d = ' '
      · simp [h1]
      · have h1' : ¬ ' ' = d := fun e => h1 e.symm
        have a1 : (' ' == d) = false := by simp [h1']
        have a2 : (d == ' ') = false := by simp [h1]
        rw [a1, a2]
    simp [UNTAG_SEP, List.isPrefixOf, e1, e2]

theorem splitOnce_none_iff (s : Str) : splitOnce UNTAG_SEP s = none ↔ hasDbl s = false := by
  induction s with
  | nil => simp [splitOnce, hasDbl, UNTAG_SEP]
  | cons c cs ih =>
    unfold splitOnce hasDbl
    rw [dbl_isPrefixOf]
    by_cases h : (c == ' ' && cs.head? == some ' ') = true
    · simp [h]
    · simp only [h, Bool.false_eq_true, if_false, Option.map_eq_none_iff, ih]
      simp at h
      simp

theorem splitOnce_prefix_nospace {h : Str} (hs : ' ' ∉ h) (r : Str) :
    splitOnce UNTAG_SEP (h ++ ' ' :: ' ' :: r) = some (h, r) := by
  induction h with
  | nil => simp [splitOnce, UNTAG_SEP, List.isPrefixOf]
  | cons c cs ih =>
    have hc : c ≠ ' ' := fun e => hs (by simp [e])
    have hcs : ' ' ∉ cs := fun e => hs (by simp [e])
    rw [List.cons_append]
    unfold splitOnce
    rw [dbl_isPrefixOf]
    simp [hc, ih hcs]

theorem splitOnce_cons_ne {c : Char} (hc : c ≠ ' ') {t l r : Str}
    (h : splitOnce UNTAG_SEP (c :: t) = some (l, r)) : ∃ l', l = c :: l' := by
  unfold splitOnce at h
  rw [dbl_isPrefixOf] at h
  have hc' : (c == ' ') = false := by simp [hc]
  simp only [hc', Bool.false_and, Bool.false_eq_true, if_false] at h
  cases hs : splitOnce UNTAG_SEP t with
  | none => rw [hs] at h; simp at h
  | some ab =>
    rw [hs] at h
    simp at h
    exact ⟨ab.1, h.1.symm⟩

theorem rsplitOnce_sound {pat s a b : Str} (h : rsplitOnce pat s = some (a, b)) : s = a ++ pat ++ b := by
  induction s generalizing a with
  | nil =>
    unfold rsplitOnce at h
    split at h
    · rename_i hp; simp at h; simp [h, hp]
    · simp at h
  | cons c cs ih =>
    unfold rsplitOnce at h
    split at h
    · rename_i ab hab
      simp at h
      obtain ⟨h1, h2⟩ := h
      subst h1 h2
      have := ih (a := ab.1) (by simpa using hab)
      simp [this]
    · split at h
      · rename_i hp
        obtain ⟨t, ht⟩ := List.isPrefixOf_iff_prefix.mp hp
        have hh := Option.some.inj h
        have h1 : a = [] := (congrArg Prod.fst hh).symm
        have h2 : b = List.drop pat.length (c :: cs) := (congrArg Prod.snd hh).symm
        subst h1
        rw [h2, ← ht]
        simp
      · simp at h

theorem rsplitOnce_none_of_noparen {s : Str} (h : ')' ∉ s) : rsplitOnce TAG_SEP s = none := by
  induction s with
  | nil => simp [rsplitOnce, TAG_SEP]
  | cons c cs ih =>
    have hc : c ≠ ')' := fun e => h (by simp [e])
    have hcs : ')' ∉ cs := fun e => h (by simp [e])
    unfold rsplitOnce
    rw [ih hcs]
    have hc' : ¬ ')' = c := fun e => hc e.symm
    simp [TAG_SEP, List.isPrefixOf, hc']

theorem rsplitOnce_tag (a : Str) {h : Str} (hh : ')' ∉ h) :
    rsplitOnce TAG_SEP (a ++ TAG_SEP ++ h) = some (a, h) := by
  induction a with
  | nil =>
    have h1 : rsplitOnce TAG_SEP (' ' :: '=' :: ' ' :: h) = none :=
      rsplitOnce_none_of_noparen (by simp [hh])
    show rsplitOnce TAG_SEP (')' :: ' ' :: '=' :: ' ' :: h) = some ([], h)
    unfold rsplitOnce
    rw [h1]
    simp [TAG_SEP, List.isPrefixOf]
  | cons c cs ih =>
    rw [List.cons_append, List.cons_append]
    unfold rsplitOnce
    rw [ih]

/-! ## `trim_end_matches` -/

theorem trimEnd_allCRLF {t : Str} (h : ∀ c ∈ t, isCRLF c = true) : trimEndCRLF t = [] := by
  induction t with
  | nil => rfl
  | cons c cs ih =>
    unfold trimEndCRLF
    rw [ih (fun d hd => h d (by simp [hd]))]
    simp [h c (by simp)]

theorem trimEnd_append_term (s : Str) {t : Str} (h : ∀ c ∈ t, isCRLF c = true) :
    trimEndCRLF (s ++ t) = trimEndCRLF s := by
  induction s with
  | nil => simp [trimEnd_allCRLF h, trimEndCRLF]
  | cons c cs ih =>
    rw [List.cons_append]
    unfold trimEndCRLF
    rw [ih]

theorem trimEnd_noCRLF {s : Str} (h : ∀ c ∈ s, isCRLF c = false) : trimEndCRLF s = s := by
  induction s with
  | nil => rfl
  | cons c cs ih =>
    unfold trimEndCRLF
    rw [ih (fun d hd => h d (by simp [hd]))]
    cases cs with
    | nil => simp [h c (by simp)]
    | cons d ds => rfl

theorem trimEnd_idem (s : Str) : trimEndCRLF (trimEndCRLF s) = trimEndCRLF s := by
  induction s with
  | nil => rfl
  | cons c cs ih =>
    cases h : trimEndCRLF cs with
    | nil =>
      by_cases hc : isCRLF c = true
      · simp [trimEndCRLF, h, hc]
      · simp [trimEndCRLF, h, hc]
    | cons d ds =>
      have e : trimEndCRLF (c :: cs) = c :: d :: ds := by simp [trimEndCRLF, h]
      rw [e]
      rw [h] at ih
      show (match trimEndCRLF (d :: ds) with | [] => if isCRLF c = true then [] else [c] | t => c :: t) = _
      rw [ih]

/-! ## hex digits -/

def isLowerHex (c : Char) : Bool := (48 ≤ c.toNat && c.toNat ≤ 57) || (97 ≤ c.toNat && c.toNat ≤ 102)

/-- value of a lowercase hex digit -/
def hexVal (c : Char) : Nat := if c.toNat ≤ 57 then c.toNat - 48 else c.toNat - 87

theorem hexHalfByte_eq (c : Char) :
    hexHalfByte c = if isLowerHex c then .ok (hexVal c) else .err .hex := by
  unfold hexHalfByte isLowerHex hexVal
  by_cases h1 : 48 ≤ c.toNat ∧ c.toNat ≤ 57
  · have hm : c.toNat % 256 = c.toNat := by omega
    simp [h1, usub, hm]
  · by_cases h2 : 97 ≤ c.toNat ∧ c.toNat ≤ 102
    · have hm : c.toNat % 256 = c.toNat := by omega
      have h3 : ¬ c.toNat ≤ 57 := by omega
      have h4 : c.toNat - 97 + 10 < 256 := by omega
      have h5 : c.toNat - 97 + 10 = c.toNat - 87 := by omega
      simp [h2, usub, u8add, hm, h3, h5, Res.bind]
      omega
    · have h1' : ¬ (48 ≤ c.toNat ∧ c.toNat ≤ 57) := h1
      have h2' : ¬ (97 ≤ c.toNat ∧ c.toNat ≤ 102) := h2
      simp only [h1', h2', if_false]
      have : ((decide (48 ≤ c.toNat) && decide (c.toNat ≤ 57)) || (decide (97 ≤ c.toNat) && decide (c.toNat ≤ 102))) = false := by
        simp; omega
      simp [this]

theorem hexVal_lt {c : Char} (h : isLowerHex c = true) : hexVal c < 16 := by
  unfold isLowerHex at h; unfold hexVal
  simp at h
  split <;> omega

theorem hexDigit_hexVal {c : Char} (h : isLowerHex c = true) : hexDigit (hexVal c) = c := by
  unfold isLowerHex at h; unfold hexVal hexDigit
  simp at h
  by_cases h1 : c.toNat ≤ 57
  · have h2 : c.toNat - 48 < 10 := by omega
    have h3 : 48 + (c.toNat - 48) = c.toNat := by omega
    simp [h1, h2, h3, Char.ofNat_toNat]
  · have h2 : ¬ c.toNat - 87 < 10 := by omega
    have h3 : 87 + (c.toNat - 87) = c.toNat := by omega
    simp [h1, h2, h3, Char.ofNat_toNat]

theorem hexDigit_facts : ∀ k : Fin 16,
    isLowerHex (hexDigit k.val) = true ∧ hexVal (hexDigit k.val) = k.val ∧ utf8Len (hexDigit k.val) = 1 := by
  decide

theorem isLowerHex_hexDigit {k : Nat} (h : k < 16) : isLowerHex (hexDigit k) = true := (hexDigit_facts ⟨k, h⟩).1
theorem hexVal_hexDigit {k : Nat} (h : k < 16) : hexVal (hexDigit k) = k := (hexDigit_facts ⟨k, h⟩).2.1

theorem isLowerHex_ascii {c : Char} (h : isLowerHex c = true) : utf8Len c = 1 := by
  rw [utf8Len_eq_one_iff]; unfold isLowerHex at h; simp at h; omega

theorem isLowerHex_ne {c d : Char} (h : isLowerHex c = true) (hd : isLowerHex d = false) : c ≠ d := by
  intro e; subst e; simp [h] at hd

/-- all characters are lowercase hex digits -/
def AllHex (s : Str) : Prop := ∀ c ∈ s, isLowerHex c = true

theorem allHex_hexEncode (bs : List UInt8) : AllHex (hexEncode bs) := by
  induction bs with
  | nil => intro c hc; simp [hexEncode] at hc
  | cons b bs ih =>
    intro c hc
    have hb : b.toNat < 256 := b.toNat_lt
    simp only [hexEncode, List.mem_cons] at hc
    rcases hc with h | h | h
    · subst h; exact isLowerHex_hexDigit (by omega)
    · subst h; exact isLowerHex_hexDigit (by omega)
    · exact ih c h

theorem AllHex.ascii {s : Str} (h : AllHex s) : AllAscii s := fun c hc => isLowerHex_ascii (h c hc)

theorem AllHex.not_mem {s : Str} (h : AllHex s) {d : Char} (hd : isLowerHex d = false) : d ∉ s :=
  fun hm => by have := h d hm; simp [this] at hd

@[simp] theorem length_hexEncode (bs : List UInt8) : (hexEncode bs).length = 2 * bs.length := by
  induction bs with
  | nil => rfl
  | cons b bs ih => simp [hexEncode, ih]; omega

theorem byteLen_hexEncode (bs : List UInt8) : byteLen (hexEncode bs) = 2 * bs.length := by
  rw [byteLen_of_ascii (allHex_hexEncode bs).ascii, length_hexEncode]

/-! ## the hash decoding loop -/

theorem decodeHashLoop_step (n : Nat) (hi lo : Char) (rest : Str) :
    decodeHashLoop (n + 1) (hi :: lo :: rest) =
      if isLowerHex hi && isLowerHex lo then
        (decodeHashLoop n rest).bind fun bs => .ok ((16 * hexVal hi + hexVal lo).toUInt8 :: bs)
      else .err .hex := by
  show ((hexHalfByte hi).bind fun h => (u8mul 16 h).bind fun h16 => (hexHalfByte lo).bind fun l =>
      (u8add h16 l).bind fun b => (decodeHashLoop n rest).bind fun bs => .ok (b.toUInt8 :: bs)) = _
  rw [hexHalfByte_eq, hexHalfByte_eq]
  by_cases h1 : isLowerHex hi = true
  · have v1 := hexVal_lt h1
    have m1 : 16 * hexVal hi < 256 := by omega
    by_cases h2 : isLowerHex lo = true
    · have v2 := hexVal_lt h2
      have m2 : 16 * hexVal hi + hexVal lo < 256 := by omega
      simp [h1, h2, u8mul, u8add, m1, m2]
    · simp [h1, h2, u8mul, m1]
  · simp [h1]

theorem decodeHashLoop_hexEncode (bs : List UInt8) (rest : Str) :
    decodeHashLoop bs.length (hexEncode bs ++ rest) = .ok bs := by
  induction bs with
  | nil => rfl
  | cons b bs ih =>
    have hb : b.toNat < 256 := b.toNat_lt
    have h1 : b.toNat / 16 < 16 := by omega
    have h2 : b.toNat % 16 < 16 := by omega
    show decodeHashLoop (bs.length + 1) (hexDigit (b.toNat / 16) :: hexDigit (b.toNat % 16) :: (hexEncode bs ++ rest)) = _
    rw [decodeHashLoop_step, isLowerHex_hexDigit h1, isLowerHex_hexDigit h2, hexVal_hexDigit h1, hexVal_hexDigit h2, ih]
    have : 16 * (b.toNat / 16) + b.toNat % 16 = b.toNat := by omega
    simp [this]

theorem decodeHashLoop_ok {n : Nat} {cs : Str} {bs : List UInt8} (h : decodeHashLoop n cs = .ok bs) :
    ∃ rest, cs = hexEncode bs ++ rest ∧ bs.length = n := by
  induction n generalizing cs bs with
  | zero =>
    simp [decodeHashLoop] at h
    subst h
    exact ⟨cs, by simp [hexEncode], rfl⟩
  | succ n ih =>
    match cs, h with
    | [], h => simp [decodeHashLoop] at h
    | [_], h => simp [decodeHashLoop] at h
    | hi :: lo :: rest, h =>
      rw [decodeHashLoop_step] at h
      by_cases hh : (isLowerHex hi && isLowerHex lo) = true
      · rw [if_pos hh] at h
        obtain ⟨bs', hbs', hcons⟩ := Res.bind_eq_ok.mp h
        have hcons' := Res.ok.inj hcons
        obtain ⟨rest', hr, hl⟩ := ih hbs'
        simp at hh
        have v1 := hexVal_lt hh.1
        have v2 := hexVal_lt hh.2
        refine ⟨rest', ?_, by rw [← hcons']; simp [hl]⟩
        rw [← hcons']
        have hm : (16 * hexVal hi + hexVal lo).toUInt8.toNat = 16 * hexVal hi + hexVal lo := by
          simp; omega
        have d1 : (16 * hexVal hi + hexVal lo) / 16 = hexVal hi := by omega
        have d2 : (16 * hexVal hi + hexVal lo) % 16 = hexVal lo := by omega
        simp only [hexEncode, hm, d1, d2, hexDigit_hexVal hh.1, hexDigit_hexVal hh.2, hr, List.cons_append]
      · rw [if_neg hh] at h
        simp at h

theorem decodeHashLoop_panic_iff (n : Nat) (cs : Str) :
    decodeHashLoop n cs = .panic ↔
      cs.length < 2 * n ∧ ∀ c ∈ cs.take (2 * (cs.length / 2)), isLowerHex c = true := by
  induction n generalizing cs with
  | zero => simp [decodeHashLoop]
  | succ n ih =>
    match cs with
    | [] => simp [decodeHashLoop]
    | [_] => simp [decodeHashLoop]; omega
    | hi :: lo :: rest =>
      rw [decodeHashLoop_step]
      have hlen : (hi :: lo :: rest).length / 2 = rest.length / 2 + 1 := by simp; omega
      have htake : (hi :: lo :: rest).take (2 * ((hi :: lo :: rest).length / 2)) =
          hi :: lo :: rest.take (2 * (rest.length / 2)) := by
        rw [hlen]
        have : 2 * (rest.length / 2 + 1) = 2 * (rest.length / 2) + 1 + 1 := by omega
        rw [this]; rfl
      rw [htake]
      by_cases hh : (isLowerHex hi && isLowerHex lo) = true
      · rw [if_pos hh]
        simp at hh
        have : ((decodeHashLoop n rest).bind fun bs => (.ok ((16 * hexVal hi + hexVal lo).toUInt8 :: bs) : Res PErr (List UInt8))) = .panic
            ↔ decodeHashLoop n rest = .panic := by
          cases decodeHashLoop n rest <;> simp [Res.bind]
        rw [this, ih]
        simp [hh.1, hh.2]
        omega
      · rw [if_neg hh]
        simp at hh
        constructor
        · intro h; simp at h
        · intro ⟨_, h2⟩
          have a1 := h2 hi (by simp)
          have a2 := h2 lo (by simp)
          simp [a1, a2] at hh

theorem decodeHashLoop_ne_panic_of_ascii {cs : Str} {n : Nat} (ha : AllAscii cs) (hl : byteLen cs = 2 * n) :
    decodeHashLoop n cs ≠ .panic := by
  intro h
  have := (decodeHashLoop_panic_iff n cs).mp h
  rw [byteLen_of_ascii ha] at hl
  omega

/-! ## `parse_check_line`, decomposed -/

/-- the last part of `parse_check_line`: unescape and validate the path -/
def finish (isEscaped : Bool) (fileStr : Str) (hashBytes : List UInt8) : Res PErr Parsed :=
  (if isEscaped then unescape fileStr else .ok fileStr).bind fun filePathString =>
    if filePathString.isEmpty then .err .emptyPath
    else
      (checkForInvalidCharacters filePathString).bind fun _ =>
      .ok { fileString := fileStr, isEscaped := isEscaped, filePath := filePathString,
            expectedHash := hashBytes }

/-- `parse_check_line` after the leading backslash has been handled -/
def parseBody (isEscaped : Bool) (las : Str) : Res PErr Parsed :=
  (splitLine las).bind fun hf =>
    if byteLen hf.1 ≠ 2 * OUT_LEN then .err .hashLength
    else (decodeHashLoop OUT_LEN hf.1).bind fun hashBytes => finish isEscaped hf.2 hashBytes

theorem parseCheckLine_eq (line0 : Str) :
    parseCheckLine line0 =
      match trimEndCRLF line0 with
      | [] => .err .emptyLine
      | c :: rest => if c = '\\' then parseBody true rest else parseBody false (c :: rest) := by
  unfold parseCheckLine
  cases h : trimEndCRLF line0 with
  | nil => simp
  | cons c rest =>
    simp only [List.head?_cons]
    by_cases hc : c = '\\'
    · subst hc
      have : dropBytes 1 ('\\' :: rest) = some rest := by
        have hbs : utf8Len '\\' = 1 := by decide
        simp [dropBytes, hbs]
      simp [this, parseBody, finish]
    · simp [hc, parseBody, finish]

theorem byteLen_TAG_PREFIX : byteLen TAG_PREFIX = 8 := by decide

theorem splitLine_eq (las : Str) :
    splitLine las =
      match splitOnce UNTAG_SEP las with
      | some lr => .ok lr
      | none =>
        if TAG_PREFIX.isPrefixOf las then
          match rsplitOnce TAG_SEP (las.drop 8) with
          | some lr => .ok (lr.2, lr.1)
          | none => .err .format
        else .err .format := by
  unfold splitLine splitUntagged splitTagged
  cases h : splitOnce UNTAG_SEP las with
  | some lr => simp
  | none =>
    by_cases hp : TAG_PREFIX.isPrefixOf las = true
    · obtain ⟨t, ht⟩ := List.isPrefixOf_iff_prefix.mp hp
      subst ht
      have hd : dropBytes (byteLen TAG_PREFIX) (TAG_PREFIX ++ t) = some t := dropBytes_byteLen_append _ _
      have hd2 : (TAG_PREFIX ++ t).drop 8 = t := by simp [TAG_PREFIX]
      simp only [hp, not_true_eq_false, if_false, if_true, hd, hd2, Res.ofOption_some, Res.bind_ok]
      cases rsplitOnce TAG_SEP t <;> simp
    · simp [hp]

/-- a path that can be checked: non-empty, no NUL, no U+FFFD -/
def ValidPath (p : Str) : Prop := p ≠ [] ∧ NUL ∉ p ∧ REPL ∉ p

theorem checkInvalid_ok {p : Str} (h1 : NUL ∉ p) (h2 : REPL ∉ p) : checkForInvalidCharacters p = .ok () := by
  simp [checkForInvalidCharacters, h1, h2]

theorem finish_plain {p : Str} (hp : ValidPath p) (hb : List UInt8) :
    finish false p hb = .ok { fileString := p, isEscaped := false, filePath := p, expectedHash := hb } := by
  obtain ⟨h0, h1, h2⟩ := hp
  simp [finish, checkInvalid_ok h1 h2, h0]

theorem finish_escaped {p : Str} (hp : ValidPath p) (hb : List UInt8) :
    finish true (escapeSpec p) hb =
      .ok { fileString := escapeSpec p, isEscaped := true, filePath := p, expectedHash := hb } := by
  obtain ⟨h0, h1, h2⟩ := hp
  simp [finish, unescape_eq, unescapeSpec_escapeSpec, checkInvalid_ok h1 h2, h0]

/-- what `hash_one_input` prints, in terms of the documented escaping -/
theorem formatLine_eq (tag : Bool) (p hh : Str) :
    formatLine tag p hh =
      (if needsEscape p then ['\\'] else []) ++
        (if tag then TAG_PREFIX ++ escapeSpec p ++ TAG_SEP ++ hh else hh ++ UNTAG_SEP ++ escapeSpec p) := by
  simp [formatLine, filepathToString_eq]

/-! ## the fields of a check line -/

/-- how `parse_check_line` cuts a line: `(is_escaped, hash field, path field)`;
`none` when the line is empty or has neither format -/
def fields (line : Str) : Option (Bool × Str × Str) :=
  match trimEndCRLF line with
  | [] => none
  | c :: rest =>
    let esc := decide (c = '\\')
    let body := if c = '\\' then rest else c :: rest
    match splitLine body with
    | .ok hf => some (esc, hf.1, hf.2)
    | _ => none

theorem splitLine_ne_panic (las : Str) : splitLine las ≠ .panic := by
  rw [splitLine_eq]
  cases splitOnce UNTAG_SEP las with
  | some lr => simp
  | none =>
    simp only
    split
    · cases rsplitOnce TAG_SEP (las.drop 8) <;> simp
    · simp

theorem splitLine_err {las : Str} {e : PErr} (h : splitLine las = .err e) : e = .format := by
  rw [splitLine_eq] at h
  cases hs : splitOnce UNTAG_SEP las with
  | some lr => rw [hs] at h; simp at h
  | none =>
    rw [hs] at h
    simp only at h
    split at h
    · cases hr : rsplitOnce TAG_SEP (las.drop 8) <;> rw [hr] at h <;> simp at h
      exact h.symm
    · simp at h; exact h.symm

/-- `parse_check_line` in terms of the fields -/
theorem parse_eq_fields (line : Str) :
    parseCheckLine line =
      match fields line with
      | none => if trimEndCRLF line = [] then .err .emptyLine else .err .format
      | some (esc, hf, fs) =>
        if byteLen hf ≠ 64 then .err .hashLength
        else (decodeHashLoop 32 hf).bind fun hb => finish esc fs hb := by
  rw [parseCheckLine_eq]
  unfold fields
  cases h : trimEndCRLF line with
  | nil => simp
  | cons c rest =>
    by_cases hc : c = '\\'
    · subst hc
      simp only [if_true, decide_true]
      unfold parseBody
      cases hs : splitLine rest with
      | ok hf => simp only [OUT_LEN, Res.bind_ok]; split <;> simp_all
      | err e => have := splitLine_err hs; subst this; simp
      | panic => exact absurd hs (splitLine_ne_panic _)
    · simp only [hc, if_false, decide_false]
      unfold parseBody
      cases hs : splitLine (c :: rest) with
      | ok hf => simp only [OUT_LEN, Res.bind_ok]; split <;> simp_all
      | err e => have := splitLine_err hs; subst this; simp
      | panic => exact absurd hs (splitLine_ne_panic _)

theorem splitLine_ok {las hf fs : Str} (h : splitLine las = .ok (hf, fs)) :
    las = hf ++ UNTAG_SEP ++ fs ∨ (las = TAG_PREFIX ++ fs ++ TAG_SEP ++ hf ∧ hasDbl las = false) := by
  rw [splitLine_eq] at h
  cases hs : splitOnce UNTAG_SEP las with
  | some lr =>
    rw [hs] at h
    simp at h
    subst h
    exact Or.inl (splitOnce_sound hs)
  | none =>
    rw [hs] at h
    simp only at h
    split at h
    · rename_i hp
      obtain ⟨t, ht⟩ := List.isPrefixOf_iff_prefix.mp hp
      cases hr : rsplitOnce TAG_SEP (las.drop 8) with
      | none => rw [hr] at h; simp at h
      | some lr =>
        obtain ⟨a, b⟩ := lr
        rw [hr] at h
        simp at h
        obtain ⟨h1, h2⟩ := h
        subst h1 h2
        have hd : las.drop 8 = t := by rw [← ht]; simp [TAG_PREFIX]
        rw [hd] at hr
        have := rsplitOnce_sound hr
        refine Or.inr ⟨?_, (splitOnce_none_iff las).mp hs⟩
        rw [← ht, this]; simp
    · simp at h

/-- the shape of a line with given fields -/
theorem fields_shape {line : Str} {esc : Bool} {hf fs : Str} (h : fields line = some (esc, hf, fs)) :
    ∃ body, trimEndCRLF line = (if esc then '\\' :: body else body) ∧
      (esc = false → body.head? ≠ some '\\') ∧
      (body = hf ++ UNTAG_SEP ++ fs ∨ (body = TAG_PREFIX ++ fs ++ TAG_SEP ++ hf ∧ hasDbl body = false)) := by
  unfold fields at h
  cases ht : trimEndCRLF line with
  | nil => rw [ht] at h; simp at h
  | cons c rest =>
    rw [ht] at h
    simp only at h
    by_cases hc : c = '\\'
    · subst hc
      simp only [if_true, decide_true] at h
      cases hs : splitLine rest with
      | ok x =>
        rw [hs] at h
        simp at h
        obtain ⟨h1, h2, h3⟩ := h
        subst h1 h2 h3
        exact ⟨rest, by simp, by simp, splitLine_ok (by rw [hs])⟩
      | err e => rw [hs] at h; simp at h
      | panic => rw [hs] at h; simp at h
    · simp only [hc, if_false, decide_false] at h
      cases hs : splitLine (c :: rest) with
      | ok x =>
        rw [hs] at h
        simp at h
        obtain ⟨h1, h2, h3⟩ := h
        subst h1 h2 h3
        exact ⟨c :: rest, by simp, by simp [hc], splitLine_ok (by rw [hs])⟩
      | err e => rw [hs] at h; simp at h
      | panic => rw [hs] at h; simp at h

theorem decodeHashLoop_err {n : Nat} {cs : Str} {e : PErr} (h : decodeHashLoop n cs = .err e) : e = .hex := by
  induction n generalizing cs with
  | zero => simp [decodeHashLoop] at h
  | succ n ih =>
    match cs, h with
    | [], h => simp [decodeHashLoop] at h
    | [_], h => simp [decodeHashLoop] at h
    | hi :: lo :: rest, h =>
      rw [decodeHashLoop_step] at h
      split at h
      · cases hd : decodeHashLoop n rest with
        | ok bs => rw [hd] at h; simp at h
        | err e' => rw [hd] at h; simp at h; subst h; exact ih hd
        | panic => rw [hd] at h; simp at h
      · simp at h; exact h.symm

/-- a 64-byte hash field decodes successfully exactly when it is the hex encoding of 32 bytes -/
theorem decode64_ok_iff {hf : Str} (hl : byteLen hf = 64) (hb : List UInt8) :
    decodeHashLoop 32 hf = .ok hb ↔ hf = hexEncode hb ∧ hb.length = 32 := by
  constructor
  · intro h
    obtain ⟨rest, hr, hlen⟩ := decodeHashLoop_ok h
    subst hr
    rw [byteLen_append, byteLen_hexEncode, hlen] at hl
    have : rest = [] := byteLen_eq_zero.mp (by omega)
    subst this
    exact ⟨by simp, hlen⟩
  · intro ⟨h1, h2⟩
    subst h1
    have := decodeHashLoop_hexEncode hb []
    rw [h2] at this
    simpa using this

theorem finish_ne_panic (esc : Bool) (fs : Str) (hb : List UInt8) : finish esc fs hb ≠ .panic := by
  unfold finish
  cases esc with
  | false =>
    simp only [Bool.false_eq_true, if_false, Res.bind_ok]
    split
    · simp
    · unfold checkForInvalidCharacters
      split
      · simp
      · split <;> simp
  | true =>
    simp only [if_true, unescape_eq]
    cases unescapeSpec fs with
    | none => simp
    | some u =>
      simp only [Res.bind_ok]
      split
      · simp
      · unfold checkForInvalidCharacters
        split
        · simp
        · split <;> simp

/-- the path a line denotes: the documented unescaping of its path field (if marked escaped) -/
def pathOf (esc : Bool) (fs : Str) : Option Str := if esc then unescapeSpec fs else some fs

theorem finish_eq (esc : Bool) (fs : Str) (hb : List UInt8) :
    finish esc fs hb =
      match pathOf esc fs with
      | none => .err .escape
      | some p =>
        if p = [] then .err .emptyPath
        else if NUL ∈ p then .err .nul
        else if REPL ∈ p then .err .fffd
        else .ok { fileString := fs, isEscaped := esc, filePath := p, expectedHash := hb } := by
  unfold finish pathOf
  cases esc with
  | false =>
    simp only [Bool.false_eq_true, if_false, Res.bind_ok]
    by_cases h0 : fs = []
    · simp [h0]
    · by_cases h1 : NUL ∈ fs
      · simp [h0, h1, checkForInvalidCharacters]
      · by_cases h2 : REPL ∈ fs
        · simp [h0, h1, h2, checkForInvalidCharacters]
        · simp [h0, h1, h2, checkForInvalidCharacters]
  | true =>
    simp only [if_true, unescape_eq]
    cases unescapeSpec fs with
    | none => simp
    | some p =>
      simp only [Res.bind_ok]
      by_cases h0 : p = []
      · simp [h0]
      · by_cases h1 : NUL ∈ p
        · simp [h0, h1, checkForInvalidCharacters]
        · by_cases h2 : REPL ∈ p
          · simp [h0, h1, h2, checkForInvalidCharacters]
          · simp [h0, h1, h2, checkForInvalidCharacters]

theorem finish_ok {esc : Bool} {fs : Str} {hb : List UInt8} {r : Parsed} (h : finish esc fs hb = .ok r) :
    ∃ p, pathOf esc fs = some p ∧ ValidPath p ∧
      r = { fileString := fs, isEscaped := esc, filePath := p, expectedHash := hb } := by
  rw [finish_eq] at h
  cases hp : pathOf esc fs with
  | none => rw [hp] at h; simp at h
  | some p =>
    rw [hp] at h
    simp only at h
    split at h
    · simp at h
    · split at h
      · simp at h
      · split at h
        · simp at h
        · rename_i h0 h1 h2
          exact ⟨p, rfl, ⟨h0, h1, h2⟩, (Res.ok.inj h).symm⟩

/-- acceptance, completely characterised -/
theorem parse_ok_iff (line : Str) (r : Parsed) :
    parseCheckLine line = .ok r ↔
      ∃ fs p, fields line = some (r.isEscaped, hexEncode r.expectedHash, fs) ∧ r.expectedHash.length = 32 ∧
        pathOf r.isEscaped fs = some p ∧ ValidPath p ∧ r.fileString = fs ∧ r.filePath = p := by
  rw [parse_eq_fields]
  constructor
  · intro h
    cases hf : fields line with
    | none => rw [hf] at h; simp only at h; split at h <;> simp at h
    | some t =>
      obtain ⟨esc, hfld, fs⟩ := t
      rw [hf] at h
      simp only at h
      split at h
      · simp at h
      · rename_i hl
        have hl' : byteLen hfld = 64 := by simpa using hl
        obtain ⟨hb, hdec, hfin⟩ := Res.bind_eq_ok.mp h
        obtain ⟨h1, h2⟩ := (decode64_ok_iff hl' hb).mp hdec
        obtain ⟨p, hp, hv, hr⟩ := finish_ok hfin
        subst hr
        exact ⟨fs, p, by simp [h1], h2, hp, hv, rfl, rfl⟩
  · intro ⟨fs, p, hf, hl, hp, hv, h1, h2⟩
    rw [hf]
    simp only
    have hbl : byteLen (hexEncode r.expectedHash) = 64 := by rw [byteLen_hexEncode, hl]
    rw [if_neg (by simp [hbl])]
    have := (decode64_ok_iff hbl r.expectedHash).mpr ⟨rfl, hl⟩
    rw [this, Res.bind_ok, finish_eq, hp]
    obtain ⟨h0, hn, hr⟩ := hv
    simp only [h0, hn, hr, if_false]
    cases r
    simp at h1 h2 ⊢
    exact ⟨h1.symm, h2.symm⟩

/-- panics, completely characterised -/
theorem parse_panic_iff (line : Str) :
    parseCheckLine line = .panic ↔
      ∃ esc hf fs, fields line = some (esc, hf, fs) ∧ byteLen hf = 64 ∧ hf.length % 2 = 1 ∧ AllHex hf.dropLast := by
  rw [parse_eq_fields]
  constructor
  · intro h
    cases hfl : fields line with
    | none => rw [hfl] at h; simp only at h; split at h <;> simp at h
    | some t =>
      obtain ⟨esc, hf, fs⟩ := t
      rw [hfl] at h
      simp only at h
      split at h
      · simp at h
      · rename_i hl
        have hl' : byteLen hf = 64 := by simpa using hl
        rcases Res.bind_eq_panic.mp h with hp | ⟨hb, _, hp⟩
        · obtain ⟨h1, h2⟩ := (decodeHashLoop_panic_iff 32 hf).mp hp
          refine ⟨esc, hf, fs, rfl, hl', ?_⟩
          by_cases hodd : hf.length % 2 = 1
          · refine ⟨hodd, ?_⟩
            intro c hc
            apply h2
            rw [List.dropLast_eq_take] at hc
            have : 2 * (hf.length / 2) = hf.length - 1 := by omega
            rw [this]; exact hc
          · exfalso
            have he : 2 * (hf.length / 2) = hf.length := by omega
            rw [he, List.take_length] at h2
            have : AllAscii hf := fun c hc => isLowerHex_ascii (h2 c hc)
            rw [byteLen_of_ascii this] at hl'
            omega
        · exact absurd hp (finish_ne_panic _ _ _)
  · intro ⟨esc, hf, fs, hfl, hl, hodd, hhex⟩
    rw [hfl]
    simp only
    rw [if_neg (by simp [hl])]
    have hlen := length_le_byteLen hf
    have : decodeHashLoop 32 hf = .panic := by
      rw [decodeHashLoop_panic_iff]
      refine ⟨by omega, ?_⟩
      intro c hc
      apply hhex
      rw [List.dropLast_eq_take]
      have : 2 * (hf.length / 2) = hf.length - 1 := by omega
      rw [this] at hc; exact hc
    rw [this]; rfl

theorem parse_panic_nonascii {line : Str} (h : parseCheckLine line = .panic) :
    ∃ esc hf fs, fields line = some (esc, hf, fs) ∧ ¬ AllAscii hf := by
  obtain ⟨esc, hf, fs, hfl, hl, hodd, _⟩ := (parse_panic_iff line).mp h
  refine ⟨esc, hf, fs, hfl, ?_⟩
  intro ha
  rw [byteLen_of_ascii ha] at hl
  omega

/-- the three-way outcome when a line is not accepted -/
theorem not_ok_cases {line : Str} {esc : Bool} {hf fs : Str} (hfl : fields line = some (esc, hf, fs))
    (h : ∀ r, parseCheckLine line ≠ .ok r) :
    (∃ e, parseCheckLine line = .err e) ∨ (parseCheckLine line = .panic ∧ ¬ AllAscii hf) := by
  cases hp : parseCheckLine line with
  | ok r => exact absurd hp (h r)
  | err e => exact Or.inl ⟨e, rfl⟩
  | panic =>
    obtain ⟨esc', hf', fs', hfl', hna⟩ := parse_panic_nonascii hp
    rw [hfl] at hfl'
    simp at hfl'
    obtain ⟨_, h2, _⟩ := hfl'
    subst h2
    exact Or.inr ⟨rfl, hna⟩

/-! ## parsing what `hash_one_input` prints -/

/-- a line terminator as `read_line` can leave it: nothing, LF, or CRLF -/
def IsTerm (t : Str) : Prop := t = [] ∨ t = ['\n'] ∨ t = ['\r', '\n']

theorem IsTerm.allCRLF {t : Str} (h : IsTerm t) : ∀ c ∈ t, isCRLF c = true := by
  rcases h with h | h | h <;> subst h <;> decide

theorem fields_of_trim {line body hf fs : Str} {esc : Bool}
    (ht : trimEndCRLF line = (if esc then '\\' :: body else body))
    (hh : esc = false → ∃ c rest, body = c :: rest ∧ c ≠ '\\')
    (hs : splitLine body = .ok (hf, fs)) : fields line = some (esc, hf, fs) := by
  unfold fields
  cases esc with
  | true =>
    simp only [if_true] at ht
    rw [ht]
    simp [hs]
  | false =>
    obtain ⟨c, rest, hb, hc⟩ := hh rfl
    simp only [Bool.false_eq_true, if_false] at ht
    rw [ht, hb]
    simp only [hc, if_false, decide_false]
    rw [← hb, hs]

theorem isLowerHex_not_crlf {c : Char} (h : isLowerHex c = true) : isCRLF c = false := by
  have h1 : c ≠ '\r' := isLowerHex_ne h (by decide)
  have h2 : c ≠ '\n' := isLowerHex_ne h (by decide)
  simp [isCRLF, h1, h2]

theorem hasDbl_of_nospace {s : Str} (h : ' ' ∉ s) : hasDbl s = false := by
  induction s with
  | nil => rfl
  | cons c cs ih =>
    have hc : c ≠ ' ' := fun e => h (by simp [e])
    have hcs : ' ' ∉ cs := fun e => h (by simp [e])
    simp [hasDbl, hc, ih hcs]

theorem formatLine_noCRLF (tag : Bool) (p : Str) {hh : Str} (hhex : AllHex hh) :
    ∀ c ∈ formatLine tag p hh, isCRLF c = false := by
  intro c hc
  rw [formatLine_eq] at hc
  have e := escapeSpec_noCRLF p
  have x : ∀ d ∈ hh, isCRLF d = false := fun d hd => isLowerHex_not_crlf (hhex d hd)
  have t1 : ∀ d ∈ TAG_PREFIX, isCRLF d = false := by decide
  have t2 : ∀ d ∈ TAG_SEP, isCRLF d = false := by decide
  have t3 : ∀ d ∈ UNTAG_SEP, isCRLF d = false := by decide
  have t4 : isCRLF '\\' = false := by decide
  cases tag <;> cases hn : needsEscape p <;> simp [hn] at hc
  · rcases hc with h | h | h
    · exact x c h
    · exact t3 c h
    · exact e c h
  · rcases hc with h | h | h | h
    · subst h; exact t4
    · exact x c h
    · exact t3 c h
    · exact e c h
  · rcases hc with h | h | h | h
    · exact t1 c h
    · exact e c h
    · exact t2 c h
    · exact x c h
  · rcases hc with h | h | h | h | h
    · subst h; exact t4
    · exact t1 c h
    · exact e c h
    · exact t2 c h
    · exact x c h

theorem trim_formatLine (tag : Bool) (p : Str) {hh term : Str} (hhex : AllHex hh) (ht : IsTerm term) :
    trimEndCRLF (formatLine tag p hh ++ term) = formatLine tag p hh := by
  rw [trimEnd_append_term _ ht.allCRLF, trimEnd_noCRLF (formatLine_noCRLF tag p hhex)]

theorem splitLine_plain {hh : Str} (hhex : AllHex hh) (fs : Str) :
    splitLine (hh ++ UNTAG_SEP ++ fs) = .ok (hh, fs) := by
  rw [splitLine_eq]
  have : ' ' ∉ hh := hhex.not_mem (by decide)
  have := splitOnce_prefix_nospace this fs
  simp only [UNTAG_SEP, List.append_assoc, List.cons_append, List.nil_append] at this ⊢
  rw [this]

theorem hasDbl_tagged (e : Str) {hh : Str} (hhex : AllHex hh) :
    hasDbl (TAG_PREFIX ++ e ++ TAG_SEP ++ hh) = hasDbl e := by
  have h1 : ∀ x : Str, hasDbl (TAG_PREFIX ++ x) = hasDbl x := by
    intro x; simp [TAG_PREFIX, hasDbl]
  have hsp : ' ' ∉ hh := hhex.not_mem (by decide)
  have h2 : hasDbl (TAG_SEP ++ hh) = false := by
    have hd := hasDbl_of_nospace hsp
    cases hh with
    | nil => simp [TAG_SEP, hasDbl]
    | cons c cs =>
      have hc : c ≠ ' ' := fun e => hsp (by simp [e])
      simp [TAG_SEP, hasDbl, hc] at hd ⊢
      exact hd
  rw [List.append_assoc, List.append_assoc, h1, hasDbl_append_of_head (by simp [TAG_SEP]), h2]
  simp

theorem splitLine_tagged {e hh : Str} (hhex : AllHex hh) (hd : hasDbl e = false) :
    splitLine (TAG_PREFIX ++ e ++ TAG_SEP ++ hh) = .ok (hh, e) := by
  rw [splitLine_eq]
  have hn : splitOnce UNTAG_SEP (TAG_PREFIX ++ e ++ TAG_SEP ++ hh) = none := by
    rw [splitOnce_none_iff, hasDbl_tagged e hhex, hd]
  rw [hn]
  have hp : TAG_PREFIX.isPrefixOf (TAG_PREFIX ++ e ++ TAG_SEP ++ hh) = true := by
    rw [List.isPrefixOf_iff_prefix]; exact ⟨e ++ TAG_SEP ++ hh, by simp⟩
  have hdrop : (TAG_PREFIX ++ e ++ TAG_SEP ++ hh).drop 8 = e ++ TAG_SEP ++ hh := by simp [TAG_PREFIX]
  simp only [hp, if_true, hdrop]
  rw [rsplitOnce_tag e (hhex.not_mem (by decide))]

theorem splitLine_tagged_dbl {e hh : Str} (hhex : AllHex hh) (hd : hasDbl e = true) :
    ∃ l r, splitLine (TAG_PREFIX ++ e ++ TAG_SEP ++ hh) = .ok ('B' :: l, r) := by
  rw [splitLine_eq]
  cases hs : splitOnce UNTAG_SEP (TAG_PREFIX ++ e ++ TAG_SEP ++ hh) with
  | none =>
    rw [splitOnce_none_iff, hasDbl_tagged e hhex, hd] at hs
    simp at hs
  | some lr =>
    obtain ⟨l, r⟩ := lr
    have hB : TAG_PREFIX ++ e ++ TAG_SEP ++ hh = 'B' :: (['L', 'A', 'K', 'E', '3', ' ', '('] ++ e ++ TAG_SEP ++ hh) := by
      simp [TAG_PREFIX]
    rw [hB] at hs
    obtain ⟨l', hl⟩ := splitOnce_cons_ne (by decide) hs
    subst hl
    exact ⟨l', r, rfl⟩

theorem hexEncode_head {hb : List UInt8} (h : hb.length = 32) :
    ∃ c rest, hexEncode hb = c :: rest ∧ isLowerHex c = true := by
  cases hb with
  | nil => simp at h
  | cons b bs =>
    refine ⟨_, _, rfl, ?_⟩
    have := b.toNat_lt
    exact isLowerHex_hexDigit (by omega)

theorem fields_plain (p : Str) {hb : List UInt8} (hl : hb.length = 32) {term : Str} (ht : IsTerm term) :
    fields (formatLine false p (hexEncode hb) ++ term) = some (needsEscape p, hexEncode hb, escapeSpec p) := by
  have hhex := allHex_hexEncode hb
  apply fields_of_trim (body := hexEncode hb ++ UNTAG_SEP ++ escapeSpec p)
  · rw [trim_formatLine false p hhex ht, formatLine_eq]
    cases needsEscape p <;> simp
  · intro _
    obtain ⟨c, rest, hc, hx⟩ := hexEncode_head hl
    exact ⟨c, rest ++ UNTAG_SEP ++ escapeSpec p, by simp [hc], isLowerHex_ne hx (by decide)⟩
  · exact splitLine_plain hhex _

theorem fields_tagged (p : Str) {hb : List UInt8} {term : Str} (ht : IsTerm term) (hd : hasDbl p = false) :
    fields (formatLine true p (hexEncode hb) ++ term) = some (needsEscape p, hexEncode hb, escapeSpec p) := by
  have hhex := allHex_hexEncode hb
  apply fields_of_trim (body := TAG_PREFIX ++ escapeSpec p ++ TAG_SEP ++ hexEncode hb)
  · rw [trim_formatLine true p hhex ht, formatLine_eq]
    cases needsEscape p <;> simp
  · intro _
    exact ⟨'B', ['L', 'A', 'K', 'E', '3', ' ', '('] ++ escapeSpec p ++ TAG_SEP ++ hexEncode hb, by simp [TAG_PREFIX], by decide⟩
  · exact splitLine_tagged hhex (by rw [hasDbl_escapeSpec, hd])

theorem fields_tagged_dbl (p : Str) {hb : List UInt8} {term : Str} (ht : IsTerm term) (hd : hasDbl p = true) :
    ∃ l r, fields (formatLine true p (hexEncode hb) ++ term) = some (needsEscape p, 'B' :: l, r) := by
  have hhex := allHex_hexEncode hb
  obtain ⟨l, r, hs⟩ := splitLine_tagged_dbl (e := escapeSpec p) hhex (by rw [hasDbl_escapeSpec, hd])
  refine ⟨l, r, ?_⟩
  apply fields_of_trim (body := TAG_PREFIX ++ escapeSpec p ++ TAG_SEP ++ hexEncode hb)
  · rw [trim_formatLine true p hhex ht, formatLine_eq]
    cases needsEscape p <;> simp
  · intro _
    exact ⟨'B', ['L', 'A', 'K', 'E', '3', ' ', '('] ++ escapeSpec p ++ TAG_SEP ++ hexEncode hb, by simp [TAG_PREFIX], by decide⟩
  · exact hs

theorem pathOf_fmt (p : Str) : pathOf (needsEscape p) (escapeSpec p) = some p := by
  unfold pathOf
  cases h : needsEscape p with
  | true => simp [unescapeSpec_escapeSpec]
  | false => simp [escapeSpec_of_not_needs h]

/-- a printed line with fields `(hexEncode hb, escapeSpec p)` parses to the path-validation step -/
theorem parse_of_fields_fmt {line : Str} {p : Str} {hb : List UInt8} (hl : hb.length = 32)
    (hf : fields line = some (needsEscape p, hexEncode hb, escapeSpec p)) :
    parseCheckLine line =
      if p = [] then .err .emptyPath
      else if NUL ∈ p then .err .nul
      else if REPL ∈ p then .err .fffd
      else .ok { fileString := escapeSpec p, isEscaped := needsEscape p, filePath := p, expectedHash := hb } := by
  rw [parse_eq_fields, hf]
  simp only
  have hbl : byteLen (hexEncode hb) = 64 := by rw [byteLen_hexEncode, hl]
  rw [if_neg (by simp [hbl]), (decode64_ok_iff hbl hb).mpr ⟨rfl, hl⟩, Res.bind_ok, finish_eq, pathOf_fmt]

theorem parse_tagged_dbl_err (p : Str) {hb : List UInt8} {term : Str} (ht : IsTerm term) (hd : hasDbl p = true) :
    parseCheckLine (formatLine true p (hexEncode hb) ++ term) = .err .hashLength ∨
    parseCheckLine (formatLine true p (hexEncode hb) ++ term) = .err .hex := by
  obtain ⟨l, r, hf⟩ := fields_tagged_dbl p (hb := hb) ht hd
  rw [parse_eq_fields, hf]
  simp only
  by_cases hl : byteLen ('B' :: l) = 64
  · right
    rw [if_neg (by simp [hl])]
    cases l with
    | nil => simp at hl; exact absurd hl (by decide)
    | cons lo rest =>
      have : decodeHashLoop 32 ('B' :: lo :: rest) = .err .hex := by
        rw [show (32 : Nat) = 31 + 1 from rfl, decodeHashLoop_step]
        have : isLowerHex 'B' = false := by decide
        simp [this]
      rw [this]; rfl
  · left
    rw [if_pos (by simpa using hl)]

/-! ## injectivity of the output format -/

theorem hexEncode_inj {a b : List UInt8} (h : hexEncode a = hexEncode b) : a = b := by
  have h1 := decodeHashLoop_hexEncode a []
  have h2 := decodeHashLoop_hexEncode b []
  have hl : a.length = b.length := by
    have := congrArg List.length h
    simp at this; omega
  rw [h, hl, h2] at h1
  exact (Res.ok.inj h1).symm

/-- the part of the output line after the optional leading backslash -/
def lineBody (tag : Bool) (p hh : Str) : Str :=
  if tag then TAG_PREFIX ++ escapeSpec p ++ TAG_SEP ++ hh else hh ++ UNTAG_SEP ++ escapeSpec p

theorem lineBody_head (tag : Bool) (p : Str) {hb : List UInt8} (hl : hb.length = 32) :
    ∃ c rest, lineBody tag p (hexEncode hb) = c :: rest ∧ c ≠ '\\' ∧ (isLowerHex c = !tag) := by
  obtain ⟨c, rest, hc, hx⟩ := hexEncode_head hl
  cases tag with
  | true =>
    exact ⟨'B', ['L', 'A', 'K', 'E', '3', ' ', '('] ++ escapeSpec p ++ TAG_SEP ++ hexEncode hb,
      by simp [lineBody, TAG_PREFIX], by decide, by decide⟩
  | false =>
    exact ⟨c, rest ++ UNTAG_SEP ++ escapeSpec p, by simp [lineBody, hc], isLowerHex_ne hx (by decide), by simp [hx]⟩

theorem formatLine_inj {t1 t2 : Bool} {p1 p2 : Str} {h1 h2 : List UInt8}
    (l1 : h1.length = 32) (l2 : h2.length = 32)
    (h : formatLine t1 p1 (hexEncode h1) = formatLine t2 p2 (hexEncode h2)) :
    t1 = t2 ∧ p1 = p2 ∧ h1 = h2 := by
  rw [formatLine_eq, formatLine_eq] at h
  change (if needsEscape p1 = true then ['\\'] else []) ++ lineBody t1 p1 (hexEncode h1) =
    (if needsEscape p2 = true then ['\\'] else []) ++ lineBody t2 p2 (hexEncode h2) at h
  obtain ⟨c1, r1, hb1, hc1, hx1⟩ := lineBody_head t1 p1 l1
  obtain ⟨c2, r2, hb2, hc2, hx2⟩ := lineBody_head t2 p2 l2
  -- step 1: the bodies are equal
  have hbody : lineBody t1 p1 (hexEncode h1) = lineBody t2 p2 (hexEncode h2) := by
    cases n1 : needsEscape p1 <;> cases n2 : needsEscape p2 <;> simp [n1, n2] at h
    · exact h
    · rw [hb1] at h; simp at h; exact absurd h.1 hc1
    · rw [hb2] at h; simp at h; exact absurd h.1.symm hc2
    · exact h
  -- step 2: same form
  have ht : t1 = t2 := by
    rw [hb1, hb2] at hbody
    simp at hbody
    have : isLowerHex c1 = isLowerHex c2 := by rw [hbody.1]
    rw [hx1, hx2] at this
    cases t1 <;> cases t2 <;> simp at this ⊢
  subst ht
  have hlen : (hexEncode h1).length = (hexEncode h2).length := by simp [l1, l2]
  cases t1 with
  | false =>
    simp only [lineBody, Bool.false_eq_true, if_false, List.append_assoc] at hbody
    obtain ⟨e1, e2⟩ := List.append_inj hbody hlen
    have := List.append_cancel_left e2
    exact ⟨rfl, escapeSpec_injective this, hexEncode_inj e1⟩
  | true =>
    simp only [lineBody, if_true] at hbody
    obtain ⟨e1, e2⟩ := List.append_inj' hbody hlen
    rw [List.append_assoc, List.append_assoc] at e1
    have e3 := List.append_cancel_left e1
    have e4 := List.append_cancel_right e3
    exact ⟨rfl, escapeSpec_injective e4, hexEncode_inj e2⟩

/-! ## C12: the hex output loop -/

theorem hexEncode_append (a b : List UInt8) : hexEncode (a ++ b) = hexEncode a ++ hexEncode b := by
  induction a with
  | nil => rfl
  | cons x xs ih => simp [hexEncode, ih]

theorem hexEncode_take (l : List UInt8) (k : Nat) : (hexEncode l).take (2 * k) = hexEncode (l.take k) := by
  induction l generalizing k with
  | nil => simp [hexEncode]
  | cons x xs ih =>
    cases k with
    | zero => simp [hexEncode]
    | succ k =>
      have : 2 * (k + 1) = 2 * k + 1 + 1 := by omega
      rw [this]
      simp [hexEncode, ih]

theorem fillAt_add (S : Nat → UInt8) (pos k m : Nat) :
    fillAt S pos (k + m) = fillAt S pos k ++ fillAt S (pos + k) m := by
  simp [fillAt, List.range_add, List.map_append, Nat.add_assoc]

@[simp] theorem length_fillAt (S : Nat → UInt8) (pos n : Nat) : (fillAt S pos n).length = n := by
  simp [fillAt]

theorem fillAt_take (S : Nat → UInt8) (pos : Nat) {k n : Nat} (h : k ≤ n) :
    (fillAt S pos n).take k = fillAt S pos k := by
  have : n = k + (n - k) := by omega
  rw [this, fillAt_add, List.take_left' (by simp)]

theorem writeHexLoop_eq (S : Nat → UInt8) (fuel pos len : Nat) (h : len ≤ fuel) :
    writeHexLoop S fuel pos len = .ok (hexEncode (fillAt S pos len)) := by
  induction fuel generalizing pos len with
  | zero =>
    have : len = 0 := by omega
    subst this
    simp [writeHexLoop, fillAt, hexEncode]
  | succ fuel ih =>
    unfold writeHexLoop
    by_cases hl : len > 0
    · rw [if_pos hl]
      have hmin : min len BLOCK_LEN ≤ 64 := by simp [BLOCK_LEN]; omega
      have htk : takeBytes (2 * min len BLOCK_LEN) (hexEncode (fillAt S pos BLOCK_LEN)) =
          some (hexEncode (fillAt S pos (min len BLOCK_LEN))) := by
        rw [takeBytes_ascii (allHex_hexEncode _).ascii _ (by simp [BLOCK_LEN]; omega), hexEncode_take,
          fillAt_take S pos (by simp [BLOCK_LEN]; omega)]
      have hsub : (usub len (min len BLOCK_LEN) : Res Unit Nat) = .ok (len - min len BLOCK_LEN) := by
        simp [usub]; omega
      simp only [htk, hsub, Res.ofOption_some, Res.bind_ok]
      rw [ih (pos + BLOCK_LEN) (len - min len BLOCK_LEN) (by simp [BLOCK_LEN]; omega)]
      simp only [Res.bind_ok]
      rw [← hexEncode_append]
      congr 2
      by_cases h64 : len ≥ 64
      · have e : min len BLOCK_LEN = 64 := by simp [BLOCK_LEN]; omega
        rw [e]
        have : len = 64 + (len - 64) := by omega
        conv => rhs; rw [this, fillAt_add]
        simp [BLOCK_LEN]
      · have e : min len BLOCK_LEN = len := by simp [BLOCK_LEN]; omega
        rw [e]
        simp [fillAt]
    · have : len = 0 := by omega
      subst this
      simp [fillAt, hexEncode]

/-! ## C12: `--check` -/

/-- the entry `line` parses and matches the current contents of the file it names -/
def LineMatches (env : Env) (line : Str) : Prop :=
  ∃ p contents, parseCheckLine line = .ok p ∧ env.fs (utf8Encode p.filePath) = .ok contents ∧
    env.hash contents = p.expectedHash

theorem checkOneLine_spec (env : Env) (line : Str) :
    (∀ evs, checkOneLine env line = .done true evs → LineMatches env line) ∧
    (∀ evs, checkOneLine env line = .done false evs → ¬ LineMatches env line) ∧
    (checkOneLine env line = .panicked → ¬ LineMatches env line) ∧
    (checkOneLine env line = .panicked ↔ parseCheckLine line = .panic) := by
  unfold checkOneLine LineMatches hashPath
  cases hp : parseCheckLine line with
  | panic => simp
  | err e => simp
  | ok p =>
    simp only
    cases hfs : env.fs (utf8Encode p.filePath) with
    | error e =>
      simp only
      refine ⟨by simp, ?_, by simp, by simp⟩
      intro evs _ ⟨p', c, h1, h2, _⟩
      have := Res.ok.inj h1; subst this
      rw [hfs] at h2; cases h2
    | ok contents =>
      simp only
      by_cases heq : p.expectedHash = env.hash contents
      · rw [if_pos heq]
        refine ⟨?_, by simp, by simp, by simp⟩
        intro evs _
        exact ⟨p, contents, rfl, hfs, heq.symm⟩
      · rw [if_neg heq]
        refine ⟨by simp, ?_, by simp, by simp⟩
        intro evs _ ⟨p', c, h1, h2, h3⟩
        have := Res.ok.inj h1; subst this
        rw [hfs] at h2
        have := Except.ok.inj h2; subst this
        exact heq h3.symm

/-- a failing entry always produces exactly one FAILED or diagnostic line -/
theorem checkOneLine_failed_ev {env : Env} {line : Str} {evs : List Ev}
    (h : checkOneLine env line = .done false evs) :
    (∃ e : PErr, evs = [.diag ("b3sum: " ++ e.msg)]) ∨
    (∃ name, evs = [.out (name ++ ": FAILED")]) ∨
    (∃ name e, evs = [.out (name ++ ": FAILED (" ++ e ++ ")")]) := by
  unfold checkOneLine at h
  cases hp : parseCheckLine line with
  | panic => rw [hp] at h; simp at h
  | err e => rw [hp] at h; simp at h; exact Or.inl ⟨e, h.symm⟩
  | ok p =>
    rw [hp] at h
    simp only at h
    cases hh : hashPath env p.filePath with
    | error e =>
      rw [hh] at h; simp at h
      exact Or.inr (Or.inr ⟨_, e, h.symm⟩)
    | ok found =>
      rw [hh] at h
      simp only at h
      split at h
      · simp at h
      · simp at h
        exact Or.inr (Or.inl ⟨_, h.symm⟩)

theorem satAdd1_pos (n : Nat) : satAdd1 n ≠ 0 := by
  unfold satAdd1; split <;> omega

/-- all `read_line` results of one checkfile are text lines that parse and match -/
def AllLinesGood (env : Env) (lines : List ReadLine) : Prop :=
  ∀ rl ∈ lines, ∃ l, rl = .ok l ∧ LineMatches env l

theorem checkLines_spec (env : Env) (lines : List ReadLine) (wf : ∀ l, Except.ok l ∈ lines → l ≠ [])
    (st : CheckState) :
    (∀ st', checkLines env lines st = .finished st' → (st'.failed = 0 ↔ st.failed = 0 ∧ AllLinesGood env lines)) ∧
    (∀ e st', checkLines env lines st = .ioError e st' → ¬ AllLinesGood env lines) ∧
    (∀ st', checkLines env lines st = .panicked st' → ¬ AllLinesGood env lines) := by
  induction lines generalizing st with
  | nil => simp [checkLines, AllLinesGood]
  | cons rl rest ih =>
    have wf' : ∀ l, Except.ok l ∈ rest → l ≠ [] := fun l hl => wf l (by simp [hl])
    cases rl with
    | error e =>
      have hbad : ¬ AllLinesGood env (Except.error e :: rest) := by
        intro h; obtain ⟨l, hl, _⟩ := h (.error e) (by simp); cases hl
      simp [checkLines, hbad]
    | ok line =>
      have hne : line ≠ [] := wf line (by simp)
      have hbl : ¬ byteLen line = 0 := fun h => hne (byteLen_eq_zero.mp h)
      have hgood : AllLinesGood env (Except.ok line :: rest) ↔ LineMatches env line ∧ AllLinesGood env rest := by
        unfold AllLinesGood
        constructor
        · intro h
          refine ⟨?_, fun rl hrl => h rl (by simp [hrl])⟩
          obtain ⟨l, hl, hm⟩ := h (.ok line) (by simp)
          have := Except.ok.inj hl; subst this; exact hm
        · intro ⟨h1, h2⟩ rl hrl
          simp at hrl
          rcases hrl with h | h
          · exact ⟨line, h, h1⟩
          · exact h2 rl h
      obtain ⟨s1, s2, s3, _⟩ := checkOneLine_spec env line
      unfold checkLines
      rw [if_neg hbl]
      cases hc : checkOneLine env line with
      | panicked =>
        simp only
        have := s3 hc
        refine ⟨by simp, by simp, ?_⟩
        intro _ _ hg; exact this (hgood.mp hg).1
      | done success evs =>
        simp only
        obtain ⟨i1, i2, i3⟩ := ih wf'
          { failed := if success = true then st.failed else satAdd1 st.failed, evs := st.evs ++ evs }
        cases success with
        | true =>
          have hm := s1 evs hc
          simp only [if_true] at i1 i2 i3
          refine ⟨?_, ?_, ?_⟩
          · intro st' h; rw [i1 st' h, hgood]; simp [hm]
          · intro e st' h hg; exact i2 e st' h (hgood.mp hg).2
          · intro st' h hg; exact i3 st' h (hgood.mp hg).2
        | false =>
          have hm := s2 evs hc
          simp only [Bool.false_eq_true, if_false] at i1 i2 i3
          refine ⟨?_, ?_, ?_⟩
          · intro st' h; rw [i1 st' h, hgood]; simp [hm, satAdd1_pos]
          · intro e st' h hg; exact hm (hgood.mp hg).1
          · intro st' h hg; exact hm (hgood.mp hg).1

/-- every checkfile opens, and all its lines are good -/
def AllGood (env : Env) (files : List CheckSrc) : Prop :=
  ∀ src ∈ files, ∃ lines, src = .ok lines ∧ AllLinesGood env lines

/-- `read_line` never returns an empty string before the end of the file -/
def WellFormed (files : List CheckSrc) : Prop :=
  ∀ lines, Except.ok lines ∈ files → ∀ l, Except.ok l ∈ lines → l ≠ []

theorem runCheck_exit_iff (env : Env) (files : List CheckSrc) (wf : WellFormed files) (st : CheckState) :
    (runCheck env files st).exit = 0 ↔ st.failed = 0 ∧ AllGood env files := by
  induction files generalizing st with
  | nil =>
    unfold runCheck AllGood
    by_cases h : st.failed > 0
    · simp [h]; omega
    · simp [h]; omega
  | cons src rest ih =>
    have wf' : WellFormed rest := fun lines hl => wf lines (by simp [hl])
    have hgood : ∀ lines, AllGood env (Except.ok lines :: rest) ↔ AllLinesGood env lines ∧ AllGood env rest := by
      intro lines
      unfold AllGood
      constructor
      · intro h
        refine ⟨?_, fun s hs => h s (by simp [hs])⟩
        obtain ⟨l, hl, hg⟩ := h (.ok lines) (by simp)
        have := Except.ok.inj hl; subst this; exact hg
      · intro ⟨h1, h2⟩ s hs
        simp at hs
        rcases hs with h | h
        · exact ⟨lines, h, h1⟩
        · exact h2 s h
    cases src with
    | error e =>
      unfold runCheck
      have : ¬ AllGood env (Except.error e :: rest) := by
        intro h; obtain ⟨l, hl, _⟩ := h (.error e) (by simp); cases hl
      simp [this]
    | ok lines =>
      have wfl : ∀ l, Except.ok l ∈ lines → l ≠ [] := wf lines (by simp)
      obtain ⟨c1, c2, c3⟩ := checkLines_spec env lines wfl st
      unfold runCheck
      cases hc : checkLines env lines st with
      | finished st' =>
        simp only
        rw [ih wf' st', c1 st' hc, hgood]
        constructor
        · intro ⟨⟨a, b⟩, c⟩; exact ⟨a, b, c⟩
        · intro ⟨a, b, c⟩; exact ⟨⟨a, b⟩, c⟩
      | ioError e st' =>
        simp only
        have := c2 e st' hc
        constructor
        · intro h; simp at h
        · intro ⟨_, hg⟩; exact absurd ((hgood lines).mp hg).1 this
      | panicked st' =>
        simp only
        have := c3 st' hc
        constructor
        · intro h; simp at h
        · intro ⟨_, hg⟩; exact absurd ((hgood lines).mp hg).1 this

/-! ### what a run prints when nothing aborts it -/

/-- verdict and output of one entry (for an entry on which the parser does not panic) -/
def lineVerdict (env : Env) (line : Str) : Bool × List Ev :=
  match checkOneLine env line with
  | .done s e => (s, e)
  | .panicked => (false, [])

def countFailed (env : Env) (lines : List Str) (n : Nat) : Nat :=
  lines.foldl (fun n l => if (lineVerdict env l).1 then n else satAdd1 n) n

def allEvs (env : Env) (lines : List Str) : List Ev := lines.flatMap fun l => (lineVerdict env l).2

/-- the entry can be processed: non-empty and the parser does not panic on it -/
def Processable (l : Str) : Prop := l ≠ [] ∧ parseCheckLine l ≠ .panic

theorem checkLines_ok (env : Env) (lines : List Str) (h : ∀ l ∈ lines, Processable l) (st : CheckState) :
    checkLines env (lines.map Except.ok) st =
      .finished { failed := countFailed env lines st.failed, evs := st.evs ++ allEvs env lines } := by
  induction lines generalizing st with
  | nil => simp [checkLines, countFailed, allEvs]
  | cons l rest ih =>
    obtain ⟨hne, hnp⟩ := h l (by simp)
    have hbl : ¬ byteLen l = 0 := fun h => hne (byteLen_eq_zero.mp h)
    have hnp' : checkOneLine env l ≠ .panicked := fun hc => hnp ((checkOneLine_spec env l).2.2.2.mp hc)
    simp only [List.map_cons]
    unfold checkLines
    rw [if_neg hbl]
    cases hc : checkOneLine env l with
    | panicked => exact absurd hc hnp'
    | done s e =>
      simp only
      rw [ih (fun x hx => h x (by simp [hx]))]
      simp [countFailed, allEvs, lineVerdict, hc]

theorem runCheck_ok (env : Env) (files : List (List Str)) (h : ∀ ls ∈ files, ∀ l ∈ ls, Processable l)
    (st : CheckState) :
    runCheck env (files.map fun ls => Except.ok (ls.map Except.ok)) st =
      let n := countFailed env files.flatten st.failed
      { exit := if n > 0 then 1 else 0,
        evs := st.evs ++ allEvs env files.flatten ++ (if n > 0 then [.diag (warningLine n)] else []) } := by
  induction files generalizing st with
  | nil =>
    simp only [List.map_nil, List.flatten_nil]
    unfold runCheck
    simp only [countFailed, allEvs, List.foldl_nil, List.flatMap_nil, List.append_nil]
    split <;> simp <;> omega
  | cons ls rest ih =>
    simp only [List.map_cons]
    unfold runCheck
    rw [checkLines_ok env ls (h ls (by simp))]
    simp only
    rw [ih (fun x hx => h x (by simp [hx]))]
    simp [countFailed, allEvs, List.foldl_append]

theorem countFailed_pos_iff (env : Env) (lines : List Str) (n : Nat) :
    countFailed env lines n > 0 ↔ n > 0 ∨ ∃ l ∈ lines, (lineVerdict env l).1 = false := by
  induction lines generalizing n with
  | nil => simp [countFailed]
  | cons l rest ih =>
    have : countFailed env (l :: rest) n = countFailed env rest (if (lineVerdict env l).1 then n else satAdd1 n) := by
      simp [countFailed]
    rw [this, ih]
    cases hv : (lineVerdict env l).1 with
    | true => simp [hv]
    | false =>
      have := satAdd1_pos n
      simp [hv]
      omega

/-! ## UTF-8 decoding -/

theorem decodeUtf8_ne_nil {x : List UInt8} (h : x ≠ []) : decodeUtf8 x ≠ [] := by
  cases x with
  | nil => exact absurd rfl h
  | cons b bs =>
    unfold decodeUtf8
    (repeat' split) <;> simp

theorem strictDecode_eq_nil {x : List UInt8} (h : strictDecode x = some []) : x = [] := by
  unfold strictDecode at h
  simp only at h
  split at h
  · simp at h
    apply Classical.byContradiction
    intro hne
    exact decodeUtf8_ne_nil hne h
  · simp at h

/-- a path that is not valid UTF-8 is printed with at least one U+FFFD -/
theorem lossy_has_repl {b : List UInt8} (h : strictDecode b = none) : REPL ∈ lossyDecode b := by
  unfold strictDecode at h
  simp only at h
  split at h
  · simp at h
  · rename_i hall
    simp only [List.all_eq_true, Option.isSome_iff_ne_none] at hall
    have : ∃ o ∈ decodeUtf8 b, o = none := by
      apply Classical.byContradiction
      intro hc
      apply hall
      intro o ho hn
      exact hc ⟨o, ho, hn⟩
    obtain ⟨o, ho, hn⟩ := this
    subst hn
    unfold lossyDecode
    simp only [List.mem_map]
    exact ⟨none, ho, rfl⟩

/-- a path that is valid UTF-8 is printed as its own text -/
theorem lossy_of_strict {b : List UInt8} {p : Str} (h : strictDecode b = some p) : lossyDecode b = p := by
  unfold strictDecode at h
  simp only at h
  split at h
  · simpa [lossyDecode] using h
  · simp at h

/-! ### re-encoding: a losslessly decoded path re-encodes to the original OS bytes -/

theorem toNat_ofNat_valid {n : Nat} (h : n.isValidChar) : (Char.ofNat n).toNat = n := by
  unfold Char.ofNat
  rw [dif_pos h]
  simp [Char.ofNatAux, Char.toNat]

theorem enc1 (b0 : UInt8) (h : b0.toNat < 0x80) : utf8EncodeChar (Char.ofNat b0.toNat) = [b0] := by
  have hv : b0.toNat.isValidChar := by unfold Nat.isValidChar; omega
  unfold utf8EncodeChar
  rw [toNat_ofNat_valid hv]
  simp [h]

theorem enc2 (b0 b1 : UInt8) (h0 : 0xC2 ≤ b0.toNat ∧ b0.toNat ≤ 0xDF) (h1 : isCont b1 = true) :
    utf8EncodeChar (Char.ofNat (cp2 b0 b1)) = [b0, b1] := by
  simp [isCont] at h1
  have hv : (cp2 b0 b1).isValidChar := by unfold cp2 Nat.isValidChar; omega
  have e1 : ¬ cp2 b0 b1 < 0x80 := by unfold cp2; omega
  have e2 : cp2 b0 b1 < 0x800 := by unfold cp2; omega
  have d1 : 0xC0 + cp2 b0 b1 / 64 = b0.toNat := by unfold cp2; omega
  have d2 : 0x80 + cp2 b0 b1 % 64 = b1.toNat := by unfold cp2; omega
  unfold utf8EncodeChar
  rw [toNat_ofNat_valid hv]
  simp only [e1, e2, if_false, if_true, d1, d2]
  simp

theorem enc3 (b0 b1 b2 : UInt8) (h0 : 0xE0 ≤ b0.toNat ∧ b0.toNat ≤ 0xEF) (h1 : ok3 b0 b1 = true)
    (h2 : isCont b2 = true) : utf8EncodeChar (Char.ofNat (cp3 b0 b1 b2)) = [b0, b1, b2] := by
  simp [isCont] at h2
  simp [ok3] at h1
  have hv : (cp3 b0 b1 b2).isValidChar := by unfold cp3 Nat.isValidChar; omega
  have e1 : ¬ cp3 b0 b1 b2 < 0x80 := by unfold cp3; omega
  have e2 : ¬ cp3 b0 b1 b2 < 0x800 := by unfold cp3; omega
  have e3 : cp3 b0 b1 b2 < 0x10000 := by unfold cp3; omega
  have d1 : 0xE0 + cp3 b0 b1 b2 / 4096 = b0.toNat := by unfold cp3; omega
  have d2 : 0x80 + cp3 b0 b1 b2 / 64 % 64 = b1.toNat := by unfold cp3; omega
  have d3 : 0x80 + cp3 b0 b1 b2 % 64 = b2.toNat := by unfold cp3; omega
  unfold utf8EncodeChar
  rw [toNat_ofNat_valid hv]
  simp only [e1, e2, e3, if_false, if_true, d1, d2, d3]
  simp

theorem enc4 (b0 b1 b2 b3 : UInt8) (h0 : 0xF0 ≤ b0.toNat ∧ b0.toNat ≤ 0xF4) (h1 : ok4 b0 b1 = true)
    (h2 : isCont b2 = true) (h3 : isCont b3 = true) :
    utf8EncodeChar (Char.ofNat (cp4 b0 b1 b2 b3)) = [b0, b1, b2, b3] := by
  simp [isCont] at h2 h3
  simp [ok4] at h1
  have hv : (cp4 b0 b1 b2 b3).isValidChar := by unfold cp4 Nat.isValidChar; omega
  have e1 : ¬ cp4 b0 b1 b2 b3 < 0x80 := by unfold cp4; omega
  have e2 : ¬ cp4 b0 b1 b2 b3 < 0x800 := by unfold cp4; omega
  have e3 : ¬ cp4 b0 b1 b2 b3 < 0x10000 := by unfold cp4; omega
  have d1 : 0xF0 + cp4 b0 b1 b2 b3 / 262144 = b0.toNat := by unfold cp4; omega
  have d2 : 0x80 + cp4 b0 b1 b2 b3 / 4096 % 64 = b1.toNat := by unfold cp4; omega
  have d3 : 0x80 + cp4 b0 b1 b2 b3 / 64 % 64 = b2.toNat := by unfold cp4; omega
  have d4 : 0x80 + cp4 b0 b1 b2 b3 % 64 = b3.toNat := by unfold cp4; omega
  unfold utf8EncodeChar
  rw [toNat_ofNat_valid hv]
  simp only [e1, e2, e3, if_false, d1, d2, d3, d4]
  simp

theorem utf8Encode_cons (c : Char) (cs : Str) : utf8Encode (c :: cs) = utf8EncodeChar c ++ utf8Encode cs := rfl

/-- if the printed form of an OS path contains no U+FFFD, then re-encoding it (what `--check` does
to open the file: `String → PathBuf`) gives back exactly the original bytes -/
theorem encode_lossy (b : List UInt8) (h : REPL ∉ lossyDecode b) : utf8Encode (lossyDecode b) = b := by
  unfold lossyDecode at *
  fun_induction decodeUtf8 b
  case case1 => rfl
  case case2 b0 t0 h0 ih =>
    simp only [List.map_cons, Option.getD_some, List.mem_cons, not_or] at h ⊢
    rw [utf8Encode_cons, enc1 b0 h0, ih h.2]; rfl
  case case4 b0 _ h0 b1 t1 hc ih =>
    simp only [List.map_cons, Option.getD_some, List.mem_cons, not_or] at h ⊢
    rw [utf8Encode_cons, enc2 b0 b1 h0 hc, ih h.2]; rfl
  case case8 b0 _ _ h0 b1 h1 b2 t2 hc ih =>
    simp only [List.map_cons, Option.getD_some, List.mem_cons, not_or] at h ⊢
    rw [utf8Encode_cons, enc3 b0 b1 b2 h0 h1 hc, ih h.2]; rfl
  case case14 b0 _ _ _ h0 b1 h1 b2 hc2 b3 t3 hc3 ih =>
    simp only [List.map_cons, Option.getD_some, List.mem_cons, not_or] at h ⊢
    rw [utf8Encode_cons, enc4 b0 b1 b2 b3 h0 h1 hc2 hc3, ih h.2]; rfl
  all_goals (exfalso; simp at h)

/-- two different OS paths never have the same lossless printed form -/
theorem lossy_injective_of_norepl {b1 b2 : List UInt8} (h1 : REPL ∉ lossyDecode b1)
    (h : lossyDecode b1 = lossyDecode b2) : b1 = b2 := by
  have e1 := encode_lossy b1 h1
  have e2 := encode_lossy b2 (h ▸ h1)
  rw [← e1, ← e2, h]

/-! # concrete witnesses and examples used by Props13 / Props12 -/

/-! ## witnesses -/

/-- 62 hex digits followed by `é`: a hash field of 64 BYTES but 63 characters -/
def badHash : Str := List.replicate 62 'a' ++ ['é']

/-- `aaaa…aaé  x` -/
def panicLine : Str := badHash ++ [' ', ' ', 'x']

/-- a 32-byte hash (hex `aa…aa`) -/
def hashA : List UInt8 := List.replicate 32 0xaa

/-! ## `--check`: a small concrete world for the examples and witnesses -/

/-- one file `x` exists (empty); every hash is `aa…aa` -/
def demoEnv : Env :=
  { fs := fun p => if p = [0x78] then .ok [] else .error "No such file or directory (os error 2)",
    hash := fun _ => hashA, quiet := false }

/-- `aa…aa  x` + LF: a matching entry in `demoEnv` -/
def goodLine : Str := hexEncode hashA ++ [' ', ' ', 'x', '\n']

theorem goodLine_matches : LineMatches demoEnv goodLine := by
  refine ⟨{ fileString := ['x'], isEscaped := false, filePath := ['x'], expectedHash := hashA }, [],
    by decide, ?_, by decide⟩
  have e : utf8Encode ['x'] = [0x78] := by decide
  simp [demoEnv, e]

end B3.B3sum
